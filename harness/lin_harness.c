/*
 * Linear-algebra / n-port conversion harness (properties C04, C19).
 * Reads the same case lines as ocaml/drv_lin.ml, with numbers as C doubles (hex or decimal);
 * prints one line per case with %.17g values.  An optional leading "alias " makes the n-port
 * conversions run in place (output array == input array).
 */
#include <complex.h>
#include <math.h>
#include <stdio.h>
#include <stdlib.h>
#include <string.h>
#include <vnaconv.h>
#include "vnacommon_internal.h"

typedef double complex cx;

static int rd(double *d) { char b[128]; if (scanf("%127s", b) != 1) return 0; *d = strtod(b, NULL); return 1; }
static int rcx(cx *c) { double a, b; if (!rd(&a) || !rd(&b)) return 0; *c = a + I * b; return 1; }
static cx *rmat(int r, int c)
{
    cx *m = malloc(sizeof(cx) * (r * c + 1));
    for (int i = 0; i < r * c; ++i)
	if (!rcx(&m[i])) exit(3);
    return m;
}
static void pmat(const cx *m, int n)
{
    for (int i = 0; i < n; ++i)
	printf(" %.17g %.17g", creal(m[i]), cimag(m[i]));
}

int main(void)
{
    char op[64];
    while (scanf("%63s", op) == 1) {
	int alias = 0;
	if (strcmp(op, "alias") == 0) {
	    alias = 1;
	    if (scanf("%63s", op) != 1) return 2;
	}
	if (strcmp(op, "lu") == 0) {
	    int n; scanf("%d", &n);
	    cx *a = rmat(n, n);
	    int ri[n + 1];
	    cx d = _vnacommon_lu(a, ri, n);
	    printf("lu piv=");
	    for (int i = 0; i < n; ++i) printf("%s%d", i ? "," : "", ri[i]);
	    printf(" det= %.17g %.17g a=", creal(d), cimag(d));
	    pmat(a, n * n); printf("\n");
	    free(a);
	} else if (strcmp(op, "mldivide") == 0) {
	    int m, n; scanf("%d %d", &m, &n);
	    cx *a = rmat(m, m), *b = rmat(m, n), *x = calloc(m * n + 1, sizeof(cx));
	    cx d = _vnacommon_mldivide(x, a, b, m, n);
	    printf("mldivide det= %.17g %.17g x=", creal(d), cimag(d)); pmat(x, m * n); printf("\n");
	    free(a); free(b); free(x);
	} else if (strcmp(op, "mrdivide") == 0) {
	    int m, n; scanf("%d %d", &m, &n);
	    cx *b = rmat(m, n), *a = rmat(n, n), *x = calloc(m * n + 1, sizeof(cx));
	    cx d = _vnacommon_mrdivide(x, b, a, m, n);
	    printf("mrdivide det= %.17g %.17g x=", creal(d), cimag(d)); pmat(x, m * n); printf("\n");
	    free(a); free(b); free(x);
	} else if (strcmp(op, "minverse") == 0) {
	    int n; scanf("%d", &n);
	    cx *a = rmat(n, n), *x = calloc(n * n + 1, sizeof(cx));
	    cx d = _vnacommon_minverse(x, a, n);
	    printf("minverse det= %.17g %.17g x=", creal(d), cimag(d)); pmat(x, n * n); printf("\n");
	    free(a); free(x);
	} else if (!strcmp(op, "stozn") || !strcmp(op, "ztosn") || !strcmp(op, "stoyn") || !strcmp(op, "ytosn")) {
	    int n; scanf("%d", &n);
	    cx *m = rmat(n, n), *z0 = rmat(1, n), *out = calloc(n * n + 1, sizeof(cx));
	    cx *dst = alias ? m : out;
	    if (!strcmp(op, "stozn")) vnaconv_stozn(m, dst, z0, n);
	    else if (!strcmp(op, "ztosn")) vnaconv_ztosn(m, dst, z0, n);
	    else if (!strcmp(op, "stoyn")) vnaconv_stoyn(m, dst, z0, n);
	    else vnaconv_ytosn(m, dst, z0, n);
	    printf("%s", op); pmat(dst, n * n); printf("\n");
	    free(m); free(z0); free(out);
	} else if (!strcmp(op, "ztoyn") || !strcmp(op, "ytozn")) {
	    int n; scanf("%d", &n);
	    cx *m = rmat(n, n), *out = calloc(n * n + 1, sizeof(cx));
	    cx *dst = alias ? m : out;
	    if (!strcmp(op, "ztoyn")) vnaconv_ztoyn(m, dst, n); else vnaconv_ytozn(m, dst, n);
	    printf("%s", op); pmat(dst, n * n); printf("\n");
	    free(m); free(out);
	} else if (!strcmp(op, "stozin") || !strcmp(op, "ztozin") || !strcmp(op, "ytozin")) {
	    int n; scanf("%d", &n);
	    cx *m = rmat(n, n), *z0 = rmat(1, n), *out = calloc(n + 1, sizeof(cx));
	    if (!strcmp(op, "stozin")) vnaconv_stozin(m, out, z0, n);
	    else if (!strcmp(op, "ztozin")) vnaconv_ztozin(m, out, z0, n);
	    else vnaconv_ytozin(m, out, z0, n);
	    printf("%s", op); pmat(out, n); printf("\n");
	    free(m); free(z0); free(out);
	} else if (!strcmp(op, "conv2")) {
	    /* two-port function by name, for the n = 2 agreement check:  conv2 <name> <m: 4> <z0: 2> */
	    return 2;
	} else {
	    printf("unknown %s\n", op);
	    return 2;
	}
    }
    return 0;
}
