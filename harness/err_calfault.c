/*
 * Property C11, "calls that fail later in their work leave the object usable": allocation failures of the vnacal family
 * followed by the SAME call without the fault.
 *
 *   err_calfault run <tmpdir> < script         (linked with harness/allocwrap.c)
 *
 *   cf <id> <func> <variant> <k>
 *
 * Every case builds a fresh state (builders of err_harness.c, not tracked), takes the digest d0 of everything the getters of
 * the vnacal_t (and, white-box, the vnacal_new_t) answer, makes the call with the k-th allocation request of the library
 * failing (k = 0: none - the fault-free history, which also reports the number n of requests), takes the digest d1, and -
 * for k > 0 - makes the same call again with no fault and takes the digest dr.  Expected (checks/c11_catalogue.py,
 * run_cal_faults): a call that failed under the fault returns its failure value with ENOMEM and one VNAERR_SYSTEM report; the
 * repeated call succeeds with the value of the fault-free history and dr equals the d1 of that history.
 *
 *   func / variant
 *     add_calibration  0 new name, empty table      1 new name, one calibration (the table grows 1 -> 8)
 *                      2 existing name (replace)    3 new name, a free slot in the table
 *     solve            0 T8 2x2 five standards      1 E12 1x1 four standards (one a scalar parameter)
 *     save             0 two calibrations           load  0 the file save 0 writes
 *     make_scalar 0    make_vector 0    make_unknown 0    make_correlated 0 (sigma frequencies) 1 (one sigma)
 *     set_m_error      0 one value      1 two frequencies (spline)    2 NULL vector, as many values as frequencies
 *     property_set     0 calibration 0, new nested key     1 global root, list element     2 replace a value
 *
 *   RES <id> ret= errno= cb= cats= ecb= nl= n= inj= d0= d1= rret= rerrno= rcb= dr= msg=
 */
#define main err_harness_main
#include "err_harness.c"
#undef main

extern long verif_alloc_count, verif_failed;
extern void verif_alloc_track(int on);
extern void verif_alloc_reset(long fail_at);

static vnacal_t *vcp, *loaded;
static vnacal_new_t *vnp;
static char path[600];
static const char *fn;
static int variant;

static void file_hash(const char *p)
{
    FILE *fp = fopen(p, "r");
    if (fp == NULL) { h_int(-97); return; }
    char b[4096]; size_t n;
    while ((n = fread(b, 1, sizeof(b), fp)) > 0) h_bytes(b, n);
    fclose(fp);
}

static void digest(void)
{
    h_init();
    cal_digest(vcp, 0);
    if (vnp != NULL) new_digest(vnp);
    if (!strcmp(fn, "save")) file_hash(path);
    if (loaded != NULL) cal_digest(loaded, 0);
}

static void the_call(void)
{
    strcpy(retbuf, "?");
    if (!strcmp(fn, "add_calibration")) {
	int ci = vnacal_add_calibration(vcp, variant == 2 ? "cal0" : "nw", vnp);
	ret_int(ci);
    } else if (!strcmp(fn, "solve")) ret_int(vnacal_new_solve(vnp));
    else if (!strcmp(fn, "save")) ret_int(vnacal_save(vcp, path));
    else if (!strcmp(fn, "load")) {
	if (loaded != NULL) { vnacal_free(loaded); loaded = NULL; }
	loaded = vnacal_load(path, error_fn, NULL);
	ret_ptr(loaded);
    } else if (!strcmp(fn, "make_scalar")) ret_int(vnacal_make_scalar_parameter(vcp, 0.25 - 0.5 * I));
    else if (!strcmp(fn, "make_vector")) {
	cx gv[NF] = { 0.1, 0.2 + 0.1 * I, 0.3 };
	ret_int(vnacal_make_vector_parameter(vcp, fvec, NF, gv));
    } else if (!strcmp(fn, "make_unknown")) ret_int(vnacal_make_unknown_parameter(vcp, h_scalar));
    else if (!strcmp(fn, "make_correlated")) {
	double sf[2] = { 0.9e9, 3.1e9 }, sg[2] = { 0.01, 0.02 };
	ret_int(variant == 0 ? vnacal_make_correlated_parameter(vcp, h_scalar, sf, 2, sg)
			     : vnacal_make_correlated_parameter(vcp, h_scalar, NULL, 1, sg));
    } else if (!strcmp(fn, "set_m_error")) {
	double mf[2] = { 0.9e9, 3.1e9 }, nf[NF] = { 1e-3, 2e-3, 3e-3 }, tr[NF] = { 1e-4, 1e-4, 2e-4 };
	ret_int(variant == 0 ? vnacal_new_set_m_error(vnp, NULL, 1, nf, NULL) :
		variant == 1 ? vnacal_new_set_m_error(vnp, mf, 2, nf, tr) : vnacal_new_set_m_error(vnp, NULL, NF, nf, tr));
    } else if (!strcmp(fn, "property_set")) {
	ret_int(variant == 0 ? vnacal_property_set(vcp, 0, "fixture.serial[1]=A%d", 17) :
		variant == 1 ? vnacal_property_set(vcp, -1, "operators[2]=%s", "x y") :
		vnacal_property_set(vcp, 0, "label=%s", "renamed"));
    } else {
	printf("UNKNOWN-FUNC %s\n", fn);
	exit(4);
    }
}

static void run_cf(void)
{
    const char *id = tok[1];
    long k = A(4);
    uint64_t d0, d1, dr;
    int err, cb, ecb, nl, rerr = 0, rcb = 0;
    long n, inj;
    char ret1[64], cats[40], msg[160], rret[64] = "-";

    fn = tok[2];
    variant = (int)A(3);
    vcp = loaded = NULL;
    vnp = NULL;
    R.enabled = 0;
    snprintf(path, sizeof(path), "%s/calfault.vnacal", tmpdir);
    if (!strcmp(fn, "add_calibration")) {
	vcp = cal_build(variant == 0 ? 0 : variant == 3 ? 2 : 1, variant == 3 ? 1 : 0, 31);
	vnp = new_build(vcp, VNACAL_T8, 1, 1, 4, h_scalar);
	if (vnp == NULL || vnacal_new_solve(vnp) != 0) { printf("STATE-ERROR solve\n"); exit(3); }
    } else if (!strcmp(fn, "solve")) {
	vcp = cal_build(0, 0, 31);
	vnp = variant == 0 ? new_build(vcp, VNACAL_T8, 2, 2, 5, h_scalar) : new_build(vcp, VNACAL_E12, 1, 1, 4, h_scalar);
    } else if (!strcmp(fn, "save") || !strcmp(fn, "load")) {
	vcp = cal_build(2, 0, 31);
	(void)unlink(path);
	if (!strcmp(fn, "load") && vnacal_save(vcp, path) != 0) { printf("STATE-ERROR save\n"); exit(3); }
    } else if (!strcmp(fn, "set_m_error")) {
	vcp = cal_build(0, 0, 31);
	vnp = new_build(vcp, VNACAL_T8, 2, 2, 2, h_scalar);
    } else {
	vcp = cal_build(1, 0, 31);
    }
    if (vcp == NULL || ((!strcmp(fn, "solve") || !strcmp(fn, "set_m_error")) && vnp == NULL)) { printf("STATE-ERROR build\n"); exit(3); }
    digest(); d0 = H;
    rec_reset();
    errno = 0;
    verif_alloc_reset(k);
    verif_alloc_track(1);
    the_call();
    verif_alloc_track(0);
    err = errno;
    n = verif_alloc_count;
    inj = verif_failed;
    verif_alloc_reset(0);
    R.enabled = 0;
    cb = R.count; ecb = R.ecb; nl = R.nl;
    snprintf(cats, sizeof(cats), "%s", R.cats[0] ? R.cats : "-");
    snprintf(msg, sizeof(msg), "%s", R.msg);
    strcpy(ret1, retbuf);
    digest(); d1 = H;
    dr = d1;
    if (k > 0) {
	rec_reset();
	errno = 0;
	the_call();
	rerr = errno;
	R.enabled = 0;
	rcb = R.count;
	strcpy(rret, retbuf);
	digest(); dr = H;
    }
    printf("RES %s ret=%s errno=%s cb=%d cats=%s ecb=%s nl=%d n=%ld inj=%ld d0=%016llx d1=%016llx rret=%s", id, ret1, eclass(err), cb, cats,
	    cb ? eclass(ecb) : "-", nl, n, inj, (unsigned long long)d0, (unsigned long long)d1, rret);
    printf(" rerrno=%s rcb=%d dr=%016llx rmsg=%s msg=%s\n", eclass(rerr), rcb, (unsigned long long)dr, k > 0 ? R.msg : "-", msg);
    if (loaded != NULL) vnacal_free(loaded);
    if (vnp != NULL) vnacal_new_free(vnp);
    vnacal_free(vcp);
}

int main(int argc, char **argv)
{
    static char line[1 << 12];
    setvbuf(stdout, NULL, _IOLBF, 0);
    if (argc < 3 || strcmp(argv[1], "run") != 0) {
	fprintf(stderr, "usage: err_calfault run <tmpdir> < script\n");
	return 2;
    }
    tmpdir = argv[2];
    while (fgets(line, sizeof(line), stdin) != NULL) {
	ntok = 0;
	for (char *p = strtok(line, " \t\r\n"); p != NULL && ntok < MAXTOK; p = strtok(NULL, " \t\r\n"))
	    tok[ntok++] = p;
	if (ntok < 5)
	    continue;
	printf("BEGIN %s\n", tok[1]);
	if (!strcmp(tok[0], "cf")) run_cf();
	else { printf("UNKNOWN-FAMILY %s\n", tok[0]); return 4; }
    }
    return 0;
}
