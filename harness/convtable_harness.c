/*
 * T2 validation (property C05): prints the compiled conversion_table of vnadata_convert.c,
 * decoded the way vnadata_convert decodes it, with the selected function pointer resolved to a
 * name through a table generated from vnaconv.h.  One line per (from, to) pair:
 *    <from> <to> INVAL | <dim> <z0> <kind> <function name or ->
 */
#include "vnadata_convert.c"
#include <stdio.h>

typedef struct { const char *name; int kind; void *fn; } fn_entry_t;
static const fn_entry_t fn_table[] = {
#include "data_fn_table.inc"
    { NULL, 0, NULL }
};

static const char *name_of(void *p)
{
    for (const fn_entry_t *e = fn_table; e->name != NULL; ++e) {
	if (e->fn == p) {
	    return e->name;
	}
    }
    return "?";
}

int main(void)
{
    for (int f = 0; f < VPT_NTYPES; ++f) {
	for (int t = 0; t < VPT_NTYPES; ++t) {
	    conversion_code_t code = conversion_table[f][t];
	    int group = GET_GROUP(code), index = GET_INDEX(code);
	    const char *dim, *kind, *fn = "-";

	    if (code == INVAL) {
		printf("%d %d INVAL\n", f, t);
		continue;
	    }
	    switch (group & DIM_MASK) {
	    case DIM_ANY: dim = "DAny"; break;
	    case DIM_VEC: dim = "DVec"; break;
	    case DIM_2x2: dim = "D2x2"; break;
	    default:      dim = "DNxN"; break;
	    }
	    switch (group & CONV_MASK) {
	    case CONV_xtoy: kind = "KXtoY"; break;
	    case CONV_xtoI: kind = "KXtoI"; break;
	    default:        kind = "KSame"; break;
	    }
	    switch (group) {
	    case DIM_2x2 | Z0_NO  | CONV_xtoy: fn = name_of((void *)group_2x2_no_xtoy[index]); break;
	    case DIM_2x2 | Z0_YES | CONV_xtoy: fn = name_of((void *)group_2x2_yes_xtoy[index]); break;
	    case DIM_2x2 | Z0_YES | CONV_xtoI: fn = name_of((void *)group_2x2_yes_xtoI[index]); break;
	    case DIM_NxN | Z0_NO  | CONV_xtoy: fn = name_of((void *)group_NxN_no_xtoy[index]); break;
	    case DIM_NxN | Z0_YES | CONV_xtoy: fn = name_of((void *)group_NxN_yes_xtoy[index]); break;
	    case DIM_NxN | Z0_YES | CONV_xtoI: fn = name_of((void *)group_NxN_yes_xtoI[index]); break;
	    default: break;
	    }
	    printf("%d %d %s %d %s %s\n", f, t, dim, (group & Z0_MASK) == Z0_YES ? 1 : 0, kind, fn);
	}
    }
    return 0;
}
