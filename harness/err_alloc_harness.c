/*
 * Property C11, "every failing call leaves the object usable": allocation failures of the vnadata family.
 *
 *   err_alloc_harness run <tmpdir> < script
 *
 * Linked with harness/allocwrap.c (-Wl,--wrap=malloc,...): the k-th allocation request the library makes
 * inside the call under test fails with NULL / ENOMEM (k = 0: none fails - the fault-free run, which also
 * reports how many requests the call makes).  One case per input line:
 *
 *   afail <id> <type> <rows> <cols> <freqs> <fz0> <seed> <func> <a1> <a2> <a3> <a4> <k> <str (hex)>
 *
 * Every case builds a fresh object (as harness/err_harness.c does), takes the digest d0 of everything the
 * public getters answer, makes the call with the k-th request failing, takes the digest d1, and then keeps
 * using the object with no further injected failure:
 *   1. the same call again (k > 0 only; digest dr after it - for k = 0, dr = d1);
 *   2. resize / init to the sizes of the failed request, to half of its frequencies, to 1 x 1 x 1, to nothing and
 *      back, each time setting and reading back every frequency, every cell and every per-frequency z0 entry and
 *      saving to a memory stream (digest du over everything read back and written);
 *   3. vnadata_free.
 * Under ASan a row the object claims but does not have shows as a fault.  Output per case:
 *
 *   BEGIN <id>
 *   RES <id> ret= errno= cb= warn= cats= nl= ecb= n=<requests made by the call> inj=<failures injected>
 *       d0= d1= rret= rerrno= rcb= dr= u=<ok|fail:step.substep> du= msg=
 */
#include "archdep.h"
#include <complex.h>
#include <errno.h>
#include <math.h>
#include <stdbool.h>
#include <stdint.h>
#include <stdio.h>
#include <stdlib.h>
#include <string.h>
#include <vnadata.h>
#include "vnaerr_internal.h"
#include "vnadata_internal.h"

extern long verif_alloc_count, verif_failed;
extern void verif_alloc_track(int on);
extern void verif_alloc_reset(long fail_at);

typedef double complex cx;

/* ------------------------------------------------------------------ recording error function */
static struct {
    int enabled;
    int count, warn, nl, ecb;
    char cats[40];
    char msg[400];
} R;

static void error_fn(const char *message, void *arg, vnaerr_category_t category)
{
    int e = errno;
    (void)arg;
    if (!R.enabled)
	return;
    if (category == VNAERR_WARNING)
	++R.warn;
    else
	++R.count;
    if (strlen(R.cats) < sizeof(R.cats) - 2) {
	size_t n = strlen(R.cats);
	R.cats[n] = (char)('0' + ((int)category >= 0 && (int)category <= 8 ? (int)category : 9));
	R.cats[n + 1] = 0;
    }
    for (const char *p = message; p != NULL && *p; ++p)
	if (*p == '\n')
	    ++R.nl;
    R.ecb = e;
    {	/* all messages of the call, separated by '|' */
	size_t n = (R.count + R.warn) > 1 ? strlen(R.msg) : 0;
	snprintf(R.msg + n, sizeof(R.msg) - n, "%s%s", n ? "|" : "", message ? message : "(null)");
    }
    for (char *p = R.msg; *p; ++p)
	if (*p == ' ' || *p == '\n' || *p == '\t')
	    *p = '_';
}
static void rec_reset(void)
{
    memset(&R, 0, sizeof(R));
    R.enabled = 1;
    strcpy(R.msg, "-");
}
static const char *eclass(int e)
{
    static char buf[24];
    switch (e) {
    case 0:		return "0";
    case EINVAL:	return "EINVAL";
    case EDOM:		return "EDOM";
    case EBADMSG:	return "EBADMSG";
    case ENOENT:	return "ENOENT";
    case ENOMEM:	return "ENOMEM";
    default:
	snprintf(buf, sizeof(buf), "E%d", e);
	return buf;
    }
}

/* ------------------------------------------------------------------ digest, PRNG, tokens */
static uint64_t H;
static void h_init(void) { H = 1469598103934665603ULL; }
static void h_bytes(const void *p, size_t n)
{
    const unsigned char *c = p;
    for (size_t i = 0; i < n; ++i) {
	H ^= c[i];
	H *= 1099511628211ULL;
    }
}
static void h_int(long v) { h_bytes(&v, sizeof(v)); }
static void h_dbl(double v)
{
    if (v == 0.0) v = 0.0;
    if (isnan(v)) { h_int(0x7ff8); return; }
    h_bytes(&v, sizeof(v));
}
static void h_cx(cx v) { h_dbl(creal(v)); h_dbl(cimag(v)); }
static void h_str(const char *s) { if (s == NULL) h_int(-7); else { h_int((long)strlen(s)); h_bytes(s, strlen(s)); } }

static uint64_t rs;
static void rseed(uint64_t s) { rs = s * 2862933555777941757ULL + 3037000493ULL; }
static double rnd(void)
{
    rs ^= rs << 13; rs ^= rs >> 7; rs ^= rs << 17;
    return (double)((rs >> 11) % 2001) / 1000.0 - 1.0;
}
static cx rcx(void) { double a = rnd(); double b = rnd(); return a + I * b; }

#define MAXTOK 32
static char *tok[MAXTOK];
static int ntok;
static long A(int i) { return i < ntok ? strtol(tok[i], NULL, 10) : 0; }
static char *unhex(const char *h)
{
    size_t n;
    char *out;
    if (h == NULL || strcmp(h, "-") == 0)
	return strdup("");
    n = strlen(h) / 2;
    out = malloc(n + 1);
    for (size_t i = 0; i < n; ++i) {
	unsigned v;
	sscanf(h + 2 * i, "%2x", &v);
	out[i] = (char)v;
    }
    out[n] = 0;
    return out;
}

static char retbuf[32];
static void ret_int(long r) { strcpy(retbuf, r == -1 ? "m1" : r == 0 ? "zero" : "val"); }
static void ret_ptr(const void *p) { strcpy(retbuf, p == NULL ? "null" : "val"); }

/* everything the public getters answer */
static void data_digest(const vnadata_t *vdp)
{
    int rows, cols, freqs, ports;
    int en = R.enabled;
    R.enabled = 0;
    rows = vnadata_get_rows(vdp);
    cols = vnadata_get_columns(vdp);
    freqs = vnadata_get_frequencies(vdp);
    ports = rows > cols ? rows : cols;
    h_int(vnadata_get_type(vdp)); h_int(rows); h_int(cols); h_int(freqs);
    for (int f = 0; f < freqs; ++f) {
	h_dbl(vnadata_get_frequency(vdp, f));
	for (int r = 0; r < rows; ++r)
	    for (int c = 0; c < cols; ++c)
		h_cx(vnadata_get_cell(vdp, f, r, c));
    }
    h_int(vnadata_has_fz0(vdp) ? 1 : 0);
    if (vnadata_has_fz0(vdp)) {
	for (int f = 0; f < freqs; ++f)
	    for (int p = 0; p < ports; ++p)
		h_cx(vnadata_get_fz0(vdp, f, p));
    } else {
	for (int p = 0; p < ports; ++p)
	    h_cx(vnadata_get_z0(vdp, p));
    }
    h_int(vnadata_get_filetype(vdp));
    h_str(vnadata_get_format(vdp));
    h_int(vnadata_get_fprecision(vdp));
    h_int(vnadata_get_dprecision(vdp));
    R.enabled = en;
}

static vnadata_t *data_build(int type, int rows, int cols, int freqs, int fz0, long seed)
{
    vnadata_t *vdp;
    int ports = rows > cols ? rows : cols;
    R.enabled = 0;
    rseed((uint64_t)seed);
    vdp = vnadata_alloc_and_init(error_fn, NULL, type, rows, cols, freqs);
    if (vdp == NULL) {
	printf("STATE-ERROR data %d %d %d %d\n", type, rows, cols, freqs);
	exit(3);
    }
    for (int f = 0; f < freqs; ++f) {
	vnadata_set_frequency(vdp, f, 1.0e9 * (f + 1));
	for (int r = 0; r < rows; ++r)
	    for (int c = 0; c < cols; ++c)
		vnadata_set_cell(vdp, f, r, c, rcx() + (r == c ? 2.0 : 0.0));
    }
    for (int p = 0; p < ports; ++p)
	vnadata_set_z0(vdp, p, 50.0 + 5.0 * p + I * rnd());
    if (fz0 && freqs > 0 && ports > 0) {
	for (int f = 0; f < freqs; ++f)
	    for (int p = 0; p < ports; ++p)
		vnadata_set_fz0(vdp, f, p, 40.0 + f + 3.0 * p + I * rnd());
    }
    vnadata_set_fprecision(vdp, 8);
    vnadata_set_dprecision(vdp, 5);
    R.enabled = 1;
    return vdp;
}

/* ------------------------------------------------------------------ the call under test */
struct call {
    const char *fn;
    long a1, a2, a3, a4;
    char *str;
    vnadata_t *other;		/* destination of a convert into another object */
    vnadata_t *made;		/* result of alloc_and_init */
    cx *vec;
};

static int tracking_wanted;	/* the library's requests are counted (and the k-th fails) during this call */
static void T(int on) { verif_alloc_track(on && tracking_wanted); }

static int do_call(vnadata_t *vdp, struct call *c)
{
    const char *fn = c->fn;
    strcpy(retbuf, "?");
    T(1);
    if (!strcmp(fn, "alloc_and_init")) {
	c->made = vnadata_alloc_and_init(error_fn, NULL, (int)c->a1, (int)c->a2, (int)c->a3, (int)c->a4);
	ret_ptr(c->made);
    } else if (!strcmp(fn, "init")) ret_int(vnadata_init(vdp, (int)c->a1, (int)c->a2, (int)c->a3, (int)c->a4));
    else if (!strcmp(fn, "resize")) ret_int(vnadata_resize(vdp, (int)c->a1, (int)c->a2, (int)c->a3, (int)c->a4));
    else if (!strcmp(fn, "add_frequency")) ret_int(vnadata_add_frequency(vdp, (double)c->a1 * 1e9));
    else if (!strcmp(fn, "set_fz0")) ret_int(vnadata_set_fz0(vdp, (int)c->a1, (int)c->a2, 33.0 - I));
    else if (!strcmp(fn, "set_fz0_vector")) ret_int(vnadata_set_fz0_vector(vdp, (int)c->a1, c->vec));
    else if (!strcmp(fn, "set_z0")) ret_int(vnadata_set_z0(vdp, (int)c->a1, 75.0 + I));
    else if (!strcmp(fn, "set_z0_vector")) ret_int(vnadata_set_z0_vector(vdp, c->vec));
    else if (!strcmp(fn, "set_all_z0")) ret_int(vnadata_set_all_z0(vdp, 60.0));
    else if (!strcmp(fn, "set_type")) ret_int(vnadata_set_type(vdp, (int)c->a1));
    else if (!strcmp(fn, "set_format")) ret_int(vnadata_set_format(vdp, c->str));
    else if (!strcmp(fn, "get_format")) ret_ptr(vnadata_get_format(vdp));
    else if (!strcmp(fn, "convert")) ret_int(vnadata_convert(vdp, c->a2 == 1 ? c->other : vdp, (int)c->a1));
    else if (!strcmp(fn, "fload")) {
	/* str = "<filename>\n<file text>" */
	char *copy, *nl;
	FILE *fp;
	T(0);
	copy = strdup(c->str);
	nl = strchr(copy, '\n');
	if (nl == NULL) nl = copy + strlen(copy); else *nl++ = 0;
	fp = fmemopen(nl, strlen(nl) > 0 ? strlen(nl) : 1, "r");
	T(1);
	ret_int(vnadata_fload(vdp, fp, copy));
	T(0);
	fclose(fp);
	free(copy);
    } else if (!strcmp(fn, "fsave") || !strcmp(fn, "cksave")) {
	char *buf = NULL; size_t len = 0;
	FILE *fp;
	T(0);
	fp = open_memstream(&buf, &len);
	T(1);
	if (!strcmp(fn, "fsave")) ret_int(vnadata_fsave(vdp, fp, c->str));
	else ret_int(vnadata_cksave(vdp, c->str));
	T(0);
	fclose(fp); free(buf);
    } else {
	printf("UNKNOWN-FUNC %s\n", fn);
	exit(4);
    }
    T(0);
    return 0;
}

/* ------------------------------------------------------------------ further valid use */
static int sub;		/* sub-step of a failing exercise */
static cx cellv(int f, int r, int c) { return (0.125 * (f + 1) + 0.5 * r) + I * (0.25 * c - 0.0625 * f); }
static cx z0v(int f, int p) { return (45.0 + 0.5 * f + 2.0 * p) + I * (0.25 * p); }

static int exercise(vnadata_t *vdp, int R_, int C_, int F_, int via_init)
{
    int type = (R_ == C_ && R_ >= 1) ? VPT_S : VPT_UNDEF;
    int P_ = R_ > C_ ? R_ : C_;
    sub = 1;
    if ((via_init ? vnadata_init(vdp, type, R_, C_, F_) : vnadata_resize(vdp, type, R_, C_, F_)) != 0) return 1;
    sub = 2;
    if (vnadata_get_rows(vdp) != R_ || vnadata_get_columns(vdp) != C_ || vnadata_get_frequencies(vdp) != F_) return 1;
    for (int f = 0; f < F_; ++f) {
	sub = 3;
	if (vnadata_set_frequency(vdp, f, 1e6 * (f + 1)) != 0) return 1;
	sub = 4;
	for (int r = 0; r < R_; ++r)
	    for (int c = 0; c < C_; ++c)
		if (vnadata_set_cell(vdp, f, r, c, cellv(f, r, c)) != 0) return 1;
	sub = 5;
	for (int p = 0; p < P_; ++p)
	    if (vnadata_set_fz0(vdp, f, p, z0v(f, p)) != 0) return 1;
    }
    for (int f = 0; f < F_; ++f) {
	sub = 6;
	if (vnadata_get_frequency(vdp, f) != 1e6 * (f + 1)) return 1;
	sub = 7;
	for (int r = 0; r < R_; ++r)
	    for (int c = 0; c < C_; ++c)
		if (vnadata_get_cell(vdp, f, r, c) != cellv(f, r, c)) return 1;
	sub = 8;
	for (int p = 0; p < P_; ++p)
	    if (vnadata_get_fz0(vdp, f, p) != z0v(f, p)) return 1;
	sub = 9;
	if (R_ * C_ > 0) {
	    const cx *m = vnadata_get_matrix(vdp, f);
	    if (m == NULL || m[R_ * C_ - 1] != cellv(f, R_ - 1, C_ - 1)) return 1;
	}
    }
    data_digest(vdp);
    if (type != VPT_UNDEF && F_ >= 1) {
	char *buf = NULL; size_t len = 0;
	FILE *fp = open_memstream(&buf, &len);
	sub = 10;
	if (fp == NULL) return 1;
	if (vnadata_set_format(vdp, "Sri") != 0) { fclose(fp); free(buf); return 1; }
	if (vnadata_fsave(vdp, fp, "u.npd") != 0) { fclose(fp); free(buf); return 1; }
	fclose(fp);
	sub = 11;
	if (len < 10) { free(buf); return 1; }
	h_bytes(buf, len);
	free(buf);
    }
    sub = 12;
    if (vnadata_set_all_z0(vdp, 50.0) != 0) return 1;
    sub = 13;
    for (int p = 0; p < P_; ++p)
	if (vnadata_get_z0(vdp, p) != 50.0) return 1;
    data_digest(vdp);
    return 0;
}

static int imax(int a, int b) { return a > b ? a : b; }

/* the RES line is put together here and printed when the case is over (a fault leaves only BEGIN) */
static char obuf[4096];
static size_t olen;
#define OUT(...) do { if (olen < sizeof(obuf)) olen += (size_t)snprintf(obuf + olen, sizeof(obuf) - olen, __VA_ARGS__); } while (0)

static void run_case(void)
{
    const char *id = tok[1];
    int type = (int)A(2), rows = (int)A(3), cols = (int)A(4), freqs = (int)A(5), fz0 = (int)A(6);
    long seed = A(7);
    long k = A(13);
    struct call c;
    vnadata_t *vdp, *subject;
    uint64_t d0, d1, dr, du;
    int err, rerr = 0, rcb = 0, ustep = 0;
    long nreq, ninj;
    char rret[32];
    int Rq, Cq, Fq;
    int cells = rows * cols, ports = rows > cols ? rows : cols;
    struct { int count, warn, nl, ecb; char cats[40]; char msg[400]; } first;

    memset(&c, 0, sizeof(c));
    c.fn = tok[8];
    c.a1 = A(9); c.a2 = A(10); c.a3 = A(11); c.a4 = A(12);
    c.str = unhex(ntok > 14 ? tok[14] : "-");
    c.vec = calloc((size_t)(cells + ports + freqs + 8), sizeof(cx));
    for (int i = 0; i < cells + ports + freqs + 8; ++i)
	c.vec[i] = 0.5 + 0.01 * i + 0.25 * I;
    vdp = data_build(type, rows, cols, freqs, fz0, seed);
    if (!strcmp(c.fn, "convert") && c.a2 == 1)
	c.other = data_build(VPT_S, 3, 3, 2, 0, seed + 17);
    h_init(); data_digest(vdp); if (c.other) data_digest(c.other); d0 = H;

    /* the call, with the k-th allocation request failing */
    rec_reset();
    errno = 0;
    verif_alloc_reset(k);
    tracking_wanted = 1;
    do_call(vdp, &c);
    err = errno;
    tracking_wanted = 0;
    verif_alloc_track(0);
    nreq = verif_alloc_count;
    ninj = verif_failed;
    verif_alloc_reset(0);
    first.count = R.count; first.warn = R.warn; first.nl = R.nl; first.ecb = R.ecb;
    strcpy(first.cats, R.cats); strcpy(first.msg, R.msg);
    R.enabled = 0;
    h_init(); data_digest(vdp); if (c.other) data_digest(c.other); d1 = H;
    olen = 0;
    OUT("RES %s ret=%s errno=%s cb=%d warn=%d cats=%s nl=%d ecb=%s n=%ld inj=%ld d0=%016llx d1=%016llx",
	    id, retbuf, eclass(err), first.count, first.warn, first.cats[0] ? first.cats : "-", first.nl,
	    first.count + first.warn ? eclass(first.ecb) : "-", nreq, ninj,
	    (unsigned long long)d0, (unsigned long long)d1);
    printf("PART %s call returned %s\n", id, retbuf);
    fflush(stdout);

    /* 1. the same call again, no failure injected */
    subject = vdp;
    strcpy(rret, "-");
    dr = d1;
    if (k > 0) {
	if (c.made != NULL) { vnadata_free(c.made); c.made = NULL; }
	rec_reset();
	errno = 0;
	do_call(vdp, &c);
	rerr = errno;
	rcb = R.count;
	strcpy(rret, retbuf);
	R.enabled = 0;
	h_init(); data_digest(vdp); if (c.other) data_digest(c.other); dr = H;
    }
    OUT(" rret=%s rerrno=%s rcb=%d dr=%016llx", rret, eclass(rerr), rcb, (unsigned long long)dr);
    printf("PART %s retry returned %s\n", id, rret);
    fflush(stdout);

    /* 2. sizes up to the failed request */
    if (c.made != NULL) subject = c.made;
    else if (c.other != NULL) subject = c.other;
    Rq = imax(vnadata_get_rows(subject), rows);
    Cq = imax(vnadata_get_columns(subject), cols);
    Fq = imax(vnadata_get_frequencies(subject), freqs);
    if (!strcmp(c.fn, "init") || !strcmp(c.fn, "resize") || !strcmp(c.fn, "alloc_and_init")) {
	Rq = imax(Rq, (int)c.a2); Cq = imax(Cq, (int)c.a3); Fq = imax(Fq, (int)c.a4);
    }
    if (!strcmp(c.fn, "add_frequency")) Fq = imax(Fq, freqs + 1);
    if (Rq > 12) Rq = 12;
    if (Cq > 12) Cq = 12;
    if (Fq > 200) Fq = 200;
    rec_reset();
    h_init();
    for (int pass = 0; pass < (c.other != NULL && subject == c.other ? 2 : 1) && ustep == 0; ++pass) {
	vnadata_t *o = pass == 0 ? subject : vdp;
	int base = pass * 10;
	if (exercise(o, Rq, Cq, Fq, 0) != 0) ustep = base + 1;
	else if (exercise(o, Rq, Cq, Fq / 2, 0) != 0) ustep = base + 2;
	else if (exercise(o, Rq, Cq, Fq, 1) != 0) ustep = base + 3;
	else if (exercise(o, 1, 1, 1, 1) != 0) ustep = base + 4;
	else if (exercise(o, 0, 0, 0, 0) != 0) ustep = base + 5;
	else if (exercise(o, Rq, Cq, Fq, 0) != 0) ustep = base + 6;
    }
    du = H;
    if (ustep == 0) OUT(" u=ok");
    else OUT(" u=fail:%d.%d", ustep, sub);
    OUT(" ucb=%d du=%016llx msg=%s umsg=%s", R.count + R.warn, (unsigned long long)du, first.msg, R.msg);

    /* 3. free */
    if (c.made != NULL) vnadata_free(c.made);
    if (c.other != NULL) vnadata_free(c.other);
    vnadata_free(vdp);
    free(c.vec);
    free(c.str);
    printf("%s\n", obuf);
    fflush(stdout);
}

int main(int argc, char **argv)
{
    char line[1 << 16];
    if (argc < 2 || strcmp(argv[1], "run") != 0) {
	fprintf(stderr, "usage: err_alloc_harness run <tmpdir> < script\n");
	return 2;
    }
    while (fgets(line, sizeof(line), stdin) != NULL) {
	ntok = 0;
	for (char *q = strtok(line, " \t\r\n"); q != NULL && ntok < MAXTOK; q = strtok(NULL, " \t\r\n"))
	    tok[ntok++] = q;
	if (ntok == 0)
	    continue;
	printf("BEGIN %s\n", tok[1]);
	fflush(stdout);
	if (!strcmp(tok[0], "afail")) run_case();
	else { printf("UNKNOWN-FAMILY %s\n", tok[0]); return 4; }
	fflush(stdout);
    }
    return 0;
}
