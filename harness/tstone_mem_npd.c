/*
 * Second translation unit of harness/tstone_mem.c: vnadata_load_npd.c with its allocation calls renamed
 * (see tstone_mem.h; the two loader sources cannot share a translation unit).
 */
#include <assert.h>
#include <ctype.h>
#include <errno.h>
#include <stdarg.h>
#include <stdbool.h>
#include <stdio.h>
#include <stdlib.h>
#include <string.h>
#include <strings.h>
#include <math.h>
#include <complex.h>
#include <limits.h>
#include "tstone_mem.h"
#define malloc tm_malloc
#define calloc tm_calloc
#define realloc tm_realloc
#define free tm_free
#include "vnadata_load_npd.c"
