/*
 * Allocation interposer for the harnesses (link with
 *   -Wl,--wrap=malloc,--wrap=calloc,--wrap=realloc,--wrap=free,--wrap=strdup,--wrap=vasprintf).
 * Only calls made from objects in the link (harness + libvna objects) are intercepted;
 * libyaml's and libc's own allocations are not.  The harness brackets library calls with
 * verif_alloc_track(1) / verif_alloc_track(0) so that its own allocations are not counted.
 *
 *   verif_alloc_reset(k)   restart the request counter; the k-th tracked request (1-based) fails
 *                          with NULL / errno = ENOMEM (k <= 0: none fails)
 *   verif_alloc_count      tracked requests since reset
 *   verif_live_blocks()    blocks obtained through tracked requests and not yet freed
 */
#include <errno.h>
#include <stdarg.h>
#include <stddef.h>
#include <stdint.h>
#include <stdio.h>
#include <string.h>

extern void *__real_malloc(size_t);
extern void *__real_calloc(size_t, size_t);
extern void *__real_realloc(void *, size_t);
extern void __real_free(void *);
extern char *__real_strdup(const char *);
extern int __real_vasprintf(char **, const char *, va_list);

long verif_alloc_count = 0;
long verif_fail_at = 0;
long verif_failed = 0;		/* number of injected failures since reset */
static int tracking = 0;

#define TABSZ (1u << 18)
static void *tab[TABSZ];
static long live = 0;

static unsigned hashp(void *p) { uintptr_t x = (uintptr_t)p; x ^= x >> 17; x *= 0x9E3779B97F4A7C15ULL; return (unsigned)(x >> 20) & (TABSZ - 1); }
static void tab_add(void *p)
{
    if (p == NULL) return;
    unsigned h = hashp(p);
    for (unsigned i = 0; i < TABSZ; ++i, h = (h + 1) & (TABSZ - 1)) {
	if (tab[h] == NULL || tab[h] == (void *)1) { tab[h] = p; ++live; return; }
    }
}
static int tab_del(void *p)
{
    if (p == NULL) return 0;
    unsigned h = hashp(p);
    for (unsigned i = 0; i < TABSZ; ++i, h = (h + 1) & (TABSZ - 1)) {
	if (tab[h] == p) { tab[h] = (void *)1; --live; return 1; }
	if (tab[h] == NULL) return 0;
    }
    return 0;
}

void verif_alloc_track(int on) { tracking = on; }
void verif_alloc_reset(long fail_at) { verif_alloc_count = 0; verif_fail_at = fail_at; verif_failed = 0; }
long verif_live_blocks(void) { return live; }

static int should_fail(void)
{
    if (!tracking) return 0;
    ++verif_alloc_count;
    if (verif_fail_at > 0 && verif_alloc_count == verif_fail_at) { ++verif_failed; errno = ENOMEM; return 1; }
    return 0;
}

void *__wrap_malloc(size_t n)
{
    if (should_fail()) return NULL;
    void *p = __real_malloc(n);
    if (tracking) tab_add(p);
    return p;
}
void *__wrap_calloc(size_t a, size_t b)
{
    if (should_fail()) return NULL;
    void *p = __real_calloc(a, b);
    if (tracking) tab_add(p);
    return p;
}
void *__wrap_realloc(void *q, size_t n)
{
    if (should_fail()) return NULL;
    int had = tab_del(q);
    void *p = __real_realloc(q, n);
    if (p == NULL && n != 0) { if (had) tab_add(q); return NULL; }
    if (tracking || had) tab_add(p);
    return p;
}
void __wrap_free(void *p)
{
    tab_del(p);
    __real_free(p);
}
char *__wrap_strdup(const char *s)
{
    if (should_fail()) return NULL;
    char *p = __real_strdup(s);
    if (tracking) tab_add(p);
    return p;
}
int __wrap_vasprintf(char **out, const char *fmt, va_list ap)
{
    if (should_fail()) { *out = NULL; return -1; }
    int rc = __real_vasprintf(out, fmt, ap);
    if (rc >= 0 && tracking) tab_add(*out);
    return rc;
}
