/*
 * White-box harness for convert_value_pair of vnadata_load_touchstone.c (static: the source file is #included;
 * build with exclude=("vnadata_load_touchstone.c",)).  One command per line, numbers as C99 hex floats:
 *   conv DB|MA|RI v0 v1       -> V re im     the function as compiled
 */
#include "vnadata_load_touchstone.c"

int main(void)
{
    char line[512];

    while (fgets(line, sizeof(line), stdin) != NULL) {
	char op[16], f[16];
	double a, b;

	if (sscanf(line, "%15s", op) != 1)
	    continue;
	if (strcmp(op, "conv") == 0 && sscanf(line, "%*s %15s %la %la", f, &a, &b) == 3) {
	    ts_parser_state_t tps;
	    double v[2] = { a, b };
	    double complex x;

	    (void)memset((void *)&tps, 0, sizeof(tps));
	    tps.tps_data_format = f[0];		/* 'D', 'M', 'R' */
	    convert_value_pair(&tps, v, &x);
	    printf("V %a %a\n", creal(x), cimag(x));
	} else {
	    printf("?\n");
	}
    }
    return 0;
}
