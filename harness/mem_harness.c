/*
 * API history harness for C03 / C12 (memory safety, leaks, allocation-failure behaviour).
 *
 *   mem_harness <script> <workdir> [<k> <opindex>]
 *
 * Interprets an op script (one op per line, space separated tokens, strings %XX-escaped,
 * "-" = NULL) over the public API of vnaproperty, vnadata, vnacal and vnacal_new.  Objects
 * live in small handle tables.  Linked with allocwrap.c: only the library calls are bracketed
 * by verif_alloc_track(1/0), so only allocations requested by libvna code are counted/failed.
 *
 * NULL pointers: a NULL is passed to the library only for arguments the manual pages
 * (the .3 files in /repo/src) document as optional: the error callbacks, the port_map of
 * vnacal_new_add_mapped_matrix*, frequency_vector / sigma_tr_vector / both sigma vectors of
 * vnacal_new_set_m_error, sigma_frequency_vector of vnacal_make_correlated_parameter.  The
 * "isnull" / NULL-variant / "-" arguments of all other ops (dsetfv, dsetz0v, dsetfz0v,
 * cvector 1|2, ccorr 2, nsetfv 1, nmerr 3, capply fvariant, the mnull flag of nsr/ndr/nthru/
 * nline/nmm, the snull flag of nline) are still read, so that scripts keep their syntax, but
 * the required pointer is passed non-NULL; ops whose required string / object would be NULL
 * (dsetfmt -, pquote -, caddcal of an empty slot, capply without an output object) are skipped.
 *
 * After every op one line:
 *   <idx> <op> ret=<r> errno=<class> cb=<n> da=<tracked requests> live=<tracked live blocks> [val=<digest>]
 * With <k> <opindex>: before op <opindex> the k-th tracked request is made to fail.  After
 * that op a line "F <idx> injected=<0|1>" is printed; if the op failed and the fault was injected
 * the same op is executed again without a fault and its line is prefixed by "R " - unless a fifth argument
 * <norepeat> != 0 is given: then the failed call is not repeated and the rest of the history runs on what it left behind.
 * At the end every object still alive is released with its matching free function:
 *   END live=<n>     (must be 0)
 *
 * Self-aliasing family (ops "pa...", "da...", "ca...", "na..." except the older dalloc/dallocinit/daddf/capply/caddcal): the
 * pointer returned by a public getter of an object is handed to a public mutator of the same object (or of a second object
 * of the same kind), e.g. casave = vnacal_save(vcp, vnacal_get_filename(vcp)).  The mutator is called only when the call is
 * legal for the caller (the source holds as many elements as the mutator reads); a getter that returns NULL makes the op fail
 * with the getter's errno (val=src=NULL).  docs/design_C03.md has the getter x mutator table.
 */
#define _GNU_SOURCE
#include <complex.h>
#include <errno.h>
#include <math.h>
#include <stdbool.h>
#include <stdint.h>
#include <stdio.h>
#include <stdlib.h>
#include <string.h>
#include <sys/time.h>
#include <vnacal.h>
#include <vnadata.h>
#include <vnaproperty.h>
#include <vnaerr.h>

extern void verif_alloc_track(int on);
extern void verif_alloc_reset(long fail_at);
extern long verif_live_blocks(void);
extern long verif_alloc_count;
extern long verif_failed;

#define NP 4
#define ND 4
#define NC 2
#define NN 4
#define NT 4

static vnaproperty_t *P[NP];
static vnadata_t *D[ND];
static vnacal_t *C[NC];
static struct { vnacal_new_t *p; int c, rows, cols, freqs; } N[NN];
static struct { char *buf; size_t len; } T[NT];
static const char *workdir = "/tmp";

static int cb_count;
static void errfn(const char *msg, void *arg, vnaerr_category_t cat)
{
    (void)arg; (void)cat;
    ++cb_count;
    if (getenv("MEMH_VERBOSE") != NULL) fprintf(stderr, "[cb] %s\n", msg);
}

/* ------------------------------------------------------------------ tokens */
static char *toks[64];
static int ntok, tpos;
static char linebuf[8192];

static const char *tok(void) { return tpos < ntok ? toks[tpos++] : "0"; }
static int geti(void) { return (int)strtol(tok(), NULL, 10); }
static double getd(void) { return strtod(tok(), NULL); }
static char sbuf[8][4096];
static int sbufi;
/* decoded string or NULL for "-" */
static char *gets_(void)
{
    const char *t = tok();
    if (strcmp(t, "-") == 0) return NULL;
    char *out = sbuf[sbufi++ & 7];
    size_t j = 0;
    for (size_t i = 0; t[i] != 0 && j < sizeof(sbuf[0]) - 1; ++i) {
	if (t[i] == '%' && t[i + 1] && t[i + 2]) {
	    char h[3] = { t[i + 1], t[i + 2], 0 };
	    out[j++] = (char)strtol(h, NULL, 16);
	    i += 2;
	} else {
	    out[j++] = t[i];
	}
    }
    out[j] = 0;
    return out;
}

/* ------------------------------------------------------------------ result record */
static char rbuf[512], vbuf[2048];
static bool op_failed;
static void r_int(int v, bool failed) { snprintf(rbuf, sizeof rbuf, "%d", v); op_failed = failed; }
static void r_ptr(const void *p) { snprintf(rbuf, sizeof rbuf, "%s", p ? "ptr" : "NULL"); op_failed = (p == NULL); }
static void r_dbl(double v) { snprintf(rbuf, sizeof rbuf, "%.9g", v); op_failed = (v == HUGE_VAL); }
static void r_cpx(double complex v) { snprintf(rbuf, sizeof rbuf, "%.9g,%.9g", creal(v), cimag(v)); op_failed = (creal(v) == HUGE_VAL); }
static void r_skip(void) { snprintf(rbuf, sizeof rbuf, "SKIP"); op_failed = false; }
/* self-aliasing ops: the getter whose result was to be handed to the mutator returned NULL: the op fails with the getter's errno */
#define GETTER_FAILED() do { r_int(-1, true); snprintf(vbuf, sizeof vbuf, "src=NULL"); return; } while (0)
static void v_str(const char *s)
{
    size_t j = 0;
    if (s == NULL) { snprintf(vbuf, sizeof vbuf, "(null)"); return; }
    for (size_t i = 0; s[i] != 0 && j < sizeof(vbuf) - 4; ++i) {
	unsigned char c = (unsigned char)s[i];
	if (c <= ' ' || c == '%' || c >= 127) j += (size_t)snprintf(vbuf + j, 4, "%%%02X", c);
	else vbuf[j++] = (char)c;
    }
    vbuf[j] = 0;
}
static uint64_t fnv(uint64_t h, const void *p, size_t n)
{
    const unsigned char *b = p;
    for (size_t i = 0; i < n; ++i) { h ^= b[i]; h *= 1099511628211ULL; }
    return h;
}
static uint64_t fnv_d(uint64_t h, double d) { if (d == 0.0) d = 0.0; return fnv(h, &d, sizeof d); }

static const char *errno_class(int e)
{
    static char b[32];
    switch (e) {
    case 0: return "0";
    case EINVAL: return "EINVAL";
    case ENOMEM: return "ENOMEM";
    case ENOENT: return "ENOENT";
    case EDOM: return "EDOM";
    case EBADMSG: return "EBADMSG";
    case ENOPROTOOPT: return "ENOPROTOOPT";
    case ENOSYS: return "ENOSYS";
    case ERANGE: return "ERANGE";
    default: snprintf(b, sizeof b, "E%d", e); return b;
    }
}

#define LIB(stmt) do { verif_alloc_track(1); stmt; verif_alloc_track(0); } while (0)

static double fgen(int i) { return 1.0e9 * (double)(i + 1); }

/* ------------------------------------------------------------------ digests (public getters only) */
static uint64_t data_digest(const vnadata_t *vdp)
{
    uint64_t h = 1469598103934665603ULL;
    int rows = vnadata_get_rows(vdp), cols = vnadata_get_columns(vdp), nf = vnadata_get_frequencies(vdp);
    int t = (int)vnadata_get_type(vdp);
    int ports = rows > cols ? rows : cols;
    h = fnv(h, &t, sizeof t); h = fnv(h, &rows, sizeof rows); h = fnv(h, &cols, sizeof cols); h = fnv(h, &nf, sizeof nf);
    for (int f = 0; f < nf; ++f) {
	h = fnv_d(h, vnadata_get_frequency(vdp, f));
	for (int r = 0; r < rows; ++r)
	    for (int c = 0; c < cols; ++c) {
		double complex v = vnadata_get_cell(vdp, f, r, c);
		h = fnv_d(h, creal(v)); h = fnv_d(h, cimag(v));
	    }
    }
    bool fz;
    LIB(fz = vnadata_has_fz0(vdp));
    if (fz) {
	for (int f = 0; f < nf; ++f)
	    for (int p = 0; p < ports; ++p) {
		double complex v;
		LIB(v = vnadata_get_fz0(vdp, f, p));
		h = fnv_d(h, creal(v)); h = fnv_d(h, cimag(v));
	    }
    } else {
	for (int p = 0; p < ports; ++p) {
	    double complex v;
	    LIB(v = vnadata_get_z0(vdp, p));
	    h = fnv_d(h, creal(v)); h = fnv_d(h, cimag(v));
	}
    }
    return h;
}

/* property tree digest by walking with the public API */
static uint64_t prop_digest_rec(const vnaproperty_t *node, uint64_t h, int depth)
{
    if (node == NULL || depth > 12) return fnv(h, "~", 1);
    int t;
    LIB(t = vnaproperty_type(node, "."));
    h = fnv(h, &t, sizeof t);
    if (t == 's') {
	const char *s;
	LIB(s = vnaproperty_get(node, "."));
	if (s) h = fnv(h, s, strlen(s));
    } else if (t == 'l') {
	int n;
	LIB(n = vnaproperty_count(node, "."));
	for (int i = 0; i < n && i < 64; ++i) {
	    vnaproperty_t *sub;
	    LIB(sub = vnaproperty_get_subtree(node, "[%d]", i));
	    h = prop_digest_rec(sub, h, depth + 1);
	}
    } else if (t == 'm') {
	const char **keys;
	LIB(keys = vnaproperty_keys(node, "."));
	if (keys) {
	    for (const char **k = keys; *k; ++k) {
		char *q;
		vnaproperty_t *sub = NULL;
		h = fnv(h, *k, strlen(*k));
		LIB(q = vnaproperty_quote_key(*k));
		if (q) {
		    LIB(sub = vnaproperty_get_subtree(node, "%s", q));
		    free(q);
		}
		h = prop_digest_rec(sub, h, depth + 1);
	    }
	    free((void *)keys);
	}
    }
    return h;
}

/* textual dump of a property tree through the public API (faulted replays: state before the op under test, "S0", and
 * after the failed call, "S1"; lib/mem_gen.py classifies the transition).  scalar: s<hex>, null: ~, list: [a,b], map:
 * {<hexkey>:v,...} in the order of vnaproperty_keys.  Returns false when the buffer is too small. */
static bool dump_put(char *buf, size_t cap, size_t *pos, const char *s, size_t n)
{
    if (*pos + n + 1 >= cap) return false;
    memcpy(buf + *pos, s, n); *pos += n; buf[*pos] = 0;
    return true;
}
static bool dump_hex(char *buf, size_t cap, size_t *pos, const char *s)
{
    static const char hx[] = "0123456789abcdef";
    for (; *s; ++s) {
	char two[2] = { hx[((unsigned char)*s) >> 4], hx[((unsigned char)*s) & 15] };
	if (!dump_put(buf, cap, pos, two, 2)) return false;
    }
    return true;
}
static bool prop_dump_rec(const vnaproperty_t *node, char *buf, size_t cap, size_t *pos, int depth)
{
    if (node == NULL) return dump_put(buf, cap, pos, "~", 1);
    if (depth > 12) return false;
    int t;
    LIB(t = vnaproperty_type(node, "."));
    if (t == 's') {
	const char *s;
	LIB(s = vnaproperty_get(node, "."));
	return dump_put(buf, cap, pos, "s", 1) && dump_hex(buf, cap, pos, s ? s : "");
    } else if (t == 'l') {
	int n;
	LIB(n = vnaproperty_count(node, "."));
	if (!dump_put(buf, cap, pos, "[", 1)) return false;
	for (int i = 0; i < n; ++i) {
	    vnaproperty_t *sub;
	    LIB(sub = vnaproperty_get_subtree(node, "[%d]", i));
	    if (i > 0 && !dump_put(buf, cap, pos, ",", 1)) return false;
	    if (!prop_dump_rec(sub, buf, cap, pos, depth + 1)) return false;
	}
	return dump_put(buf, cap, pos, "]", 1);
    } else if (t == 'm') {
	const char **keys;
	bool ok = true;
	LIB(keys = vnaproperty_keys(node, "."));
	if (keys == NULL) return false;
	ok = dump_put(buf, cap, pos, "{", 1);
	for (const char **k = keys; ok && *k; ++k) {
	    char *q;
	    vnaproperty_t *sub = NULL;
	    if (k != keys) ok = dump_put(buf, cap, pos, ",", 1);
	    ok = ok && dump_hex(buf, cap, pos, *k) && dump_put(buf, cap, pos, ":", 1);
	    LIB(q = vnaproperty_quote_key(*k));
	    if (q == NULL) { ok = false; break; }
	    LIB(sub = vnaproperty_get_subtree(node, "%s", q));
	    free(q);
	    ok = ok && prop_dump_rec(sub, buf, cap, pos, depth + 1);
	}
	free((void *)keys);
	return ok && dump_put(buf, cap, pos, "}", 1);
    }
    return false;
}
static void prop_dump_line(const char *tag, long idx, const vnaproperty_t *root)
{
    static char dbuf[65536];
    size_t pos = 0;
    dbuf[0] = 0;
    if (prop_dump_rec(root, dbuf, sizeof dbuf, &pos, 0)) printf("%s %ld %s\n", tag, idx, dbuf);
    else printf("%s %ld ?\n", tag, idx);
}

/* ------------------------------------------------------------------ matrices for vnacal_new_add_* / apply */
typedef struct { double complex **v; int cells; } mat_t;
static mat_t mat_alloc(int rows, int cols, int freqs)
{
    mat_t m;
    int cells = (rows > 0 && cols > 0) ? rows * cols : 0;
    if (cells > 64) cells = 64;
    if (freqs < 0) freqs = 0;
    m.cells = cells;
    m.v = calloc((size_t)cells + 1, sizeof(double complex *));
    for (int i = 0; i < cells; ++i) m.v[i] = calloc((size_t)freqs + 1, sizeof(double complex));
    return m;
}
static void mat_free(mat_t m)
{
    for (int i = 0; i < m.cells; ++i) free(m.v[i]);
    free(m.v);
}
static void mat_set(mat_t m, int rows, int cols, int r, int c, int freqs, double complex val)
{
    if (r < 0 || c < 0 || r >= rows || c >= cols || r * cols + c >= m.cells) return;
    for (int f = 0; f < freqs; ++f) m.v[r * cols + c][f] = val;
}
static mat_t mat_identity(int rows, int cols, int freqs)
{
    mat_t m = mat_alloc(rows, cols, freqs);
    for (int i = 0; i < rows && i < cols; ++i) mat_set(m, rows, cols, i, i, freqs, 1.0);
    return m;
}

/* ------------------------------------------------------------------ the ops */
static bool slot_ok(int i, int n) { return i >= 0 && i < n; }
static int d_ports(const vnadata_t *v) { int r = vnadata_get_rows(v), c = vnadata_get_columns(v); return r > c ? r : c; }

static void free_text(int t) { free(T[t].buf); T[t].buf = NULL; T[t].len = 0; }

static void kill_news_of(int c)
{
    for (int i = 0; i < NN; ++i) if (N[i].p != NULL && N[i].c == c) N[i].p = NULL;
}

static char pathbuf[512];
static const char *path_of(int id) { snprintf(pathbuf, sizeof pathbuf, "%s/cal%d.vnacal", workdir, id); return pathbuf; }

static void do_op(const char *op)
{
    vbuf[0] = 0;
    sbufi = 0;
    /* ============================================================== vnaproperty */
    if (op[0] == 'p') {
	int p = geti();
	if (!slot_ok(p, NP)) { r_skip(); return; }
	if (!strcmp(op, "pset")) { char *e = gets_(); int rc; if (!e) { r_skip(); return; } LIB(rc = vnaproperty_set(&P[p], "%s", e)); r_int(rc, rc == -1); }
	else if (!strcmp(op, "pget")) { char *e = gets_(); const char *s; if (!e) { r_skip(); return; } LIB(s = vnaproperty_get(P[p], "%s", e)); r_ptr(s); v_str(s); }
	else if (!strcmp(op, "ptype")) { char *e = gets_(); int rc; if (!e) { r_skip(); return; } LIB(rc = vnaproperty_type(P[p], "%s", e)); r_int(rc, rc == -1); }
	else if (!strcmp(op, "pcount")) { char *e = gets_(); int rc; if (!e) { r_skip(); return; } LIB(rc = vnaproperty_count(P[p], "%s", e)); r_int(rc, rc == -1); }
	else if (!strcmp(op, "pkeys")) {
	    char *e = gets_(); const char **k; if (!e) { r_skip(); return; }
	    LIB(k = vnaproperty_keys(P[p], "%s", e)); r_ptr(k);
	    if (k) { uint64_t h = 14695981039346656037ULL; int n = 0; for (const char **q = k; *q; ++q, ++n) h = fnv(h, *q, strlen(*q) + 1); snprintf(vbuf, sizeof vbuf, "%d:%016llx", n, (unsigned long long)h); free((void *)k); }
	}
	else if (!strcmp(op, "pdel")) { char *e = gets_(); int rc; if (!e) { r_skip(); return; } LIB(rc = vnaproperty_delete(&P[p], "%s", e)); r_int(rc, rc == -1); }
	else if (!strcmp(op, "pgetsub")) {
	    char *e = gets_(); vnaproperty_t *s; if (!e) { r_skip(); return; }
	    LIB(s = vnaproperty_get_subtree(P[p], "%s", e)); r_ptr(s);
	    /* a NULL subtree is a legitimate value (null node): not a failure unless errno says so */
	}
	else if (!strcmp(op, "psetsub")) {
	    char *e = gets_(); char *val = gets_(); vnaproperty_t **a; if (!e) { r_skip(); return; }
	    LIB(a = vnaproperty_set_subtree(&P[p], "%s", e)); r_ptr(a);
	    if (a != NULL && val != NULL) { int rc; LIB(rc = vnaproperty_set(a, ".=%s", val)); snprintf(vbuf, sizeof vbuf, "set=%d", rc); }
	}
	else if (!strcmp(op, "pcopy")) { int q = geti(); int rc; if (!slot_ok(q, NP) || q == p) { r_skip(); return; } LIB(rc = vnaproperty_copy(&P[p], P[q])); r_int(rc, rc == -1); }
	else if (!strcmp(op, "pcopysub")) {
	    int q = geti(); char *e = gets_(); int rc; vnaproperty_t *s; if (!slot_ok(q, NP) || q == p || !e) { r_skip(); return; }
	    LIB(s = vnaproperty_get_subtree(P[q], "%s", e));
	    LIB(rc = vnaproperty_copy(&P[p], s)); r_int(rc, rc == -1);
	}
	else if (!strcmp(op, "pquote")) { char *k = gets_(); char *q; if (!k) { r_skip(); return; } LIB(q = vnaproperty_quote_key(k)); r_ptr(q); v_str(q); free(q); }
	else if (!strcmp(op, "pexport")) {
	    int t = geti(); int usecb = geti(); int rc; if (!slot_ok(t, NT)) { r_skip(); return; }
	    free_text(t);
	    FILE *fp = open_memstream(&T[t].buf, &T[t].len);
	    LIB(rc = vnaproperty_export_yaml_to_file(P[p], fp, "mem.yaml", usecb ? errfn : NULL, NULL));
	    fclose(fp);
	    r_int(rc, rc == -1);
	    if (rc == 0) snprintf(vbuf, sizeof vbuf, "%zu:%016llx", T[t].len, (unsigned long long)fnv(14695981039346656037ULL, T[t].buf, T[t].len));
	}
	else if (!strcmp(op, "pimport")) {
	    int t = geti(); int usecb = geti(); int rc; if (!slot_ok(t, NT) || T[t].buf == NULL) { r_skip(); return; }
	    LIB(rc = vnaproperty_import_yaml_from_string(&P[p], T[t].buf, usecb ? errfn : NULL, NULL)); r_int(rc, rc == -1);
	}
	else if (!strcmp(op, "pimports")) {
	    char *s = gets_(); int usecb = geti(); int rc; if (!s) { r_skip(); return; }
	    LIB(rc = vnaproperty_import_yaml_from_string(&P[p], s, usecb ? errfn : NULL, NULL)); r_int(rc, rc == -1);
	}
	else if (!strcmp(op, "pimportf")) {
	    int t = geti(); int usecb = geti(); int rc; if (!slot_ok(t, NT) || T[t].buf == NULL || T[t].len == 0) { r_skip(); return; }
	    FILE *fp = fmemopen(T[t].buf, T[t].len, "r");
	    LIB(rc = vnaproperty_import_yaml_from_file(&P[p], fp, "mem.yaml", usecb ? errfn : NULL, NULL));
	    fclose(fp);
	    r_int(rc, rc == -1);
	}
	else if (!strcmp(op, "pdig")) { uint64_t h = prop_digest_rec(P[p], 1469598103934665603ULL, 0); r_int(0, false); snprintf(vbuf, sizeof vbuf, "%016llx", (unsigned long long)h); }
	/* ---- self-aliasing family ("pa..."): the result of a getter of tree q is handed to a mutator of tree p (q == p: same object) */
	else if (!strcmp(op, "paset")) {
	    /* paset p q src dst suffix: vnaproperty_set(&P[p], "<dst>=%s<suffix>", vnaproperty_get(P[q], src)) */
	    int q = geti(); char *src = gets_(); char *dst = gets_(); char *suf = gets_(); const char *s; int rc;
	    if (!slot_ok(q, NP) || !src || !dst) { r_skip(); return; }
	    LIB(s = vnaproperty_get(P[q], "%s", src));
	    if (s == NULL) { GETTER_FAILED(); }
	    LIB(rc = vnaproperty_set(&P[p], "%s=%s%s", dst, s, suf ? suf : "")); r_int(rc, rc == -1);
	}
	else if (!strcmp(op, "pacopy")) {
	    /* pacopy p q src: vnaproperty_copy(&P[p], vnaproperty_get_subtree(P[q], src)); q == p: the source lies inside the destination */
	    int q = geti(); char *src = gets_(); vnaproperty_t *s; int rc;
	    if (!slot_ok(q, NP) || !src) { r_skip(); return; }
	    errno = 0;
	    LIB(s = vnaproperty_get_subtree(P[q], "%s", src));
	    if (s == NULL && errno != 0) { GETTER_FAILED(); }
	    LIB(rc = vnaproperty_copy(&P[p], s)); r_int(rc, rc == -1);
	}
	else if (!strcmp(op, "pacopysub")) {
	    /* pacopysub p dst q src: vnaproperty_copy(vnaproperty_set_subtree(&P[p], dst), vnaproperty_get_subtree(P[q], src)) */
	    char *dst = gets_(); int q = geti(); char *src = gets_(); vnaproperty_t **a, *s; int rc;
	    if (!slot_ok(q, NP) || !src || !dst) { r_skip(); return; }
	    LIB(a = vnaproperty_set_subtree(&P[p], "%s", dst));
	    if (a == NULL) { GETTER_FAILED(); }
	    errno = 0;
	    LIB(s = vnaproperty_get_subtree(P[q], "%s", src));
	    if (s == NULL && errno != 0) { GETTER_FAILED(); }
	    LIB(rc = vnaproperty_copy(a, s)); r_int(rc, rc == -1);
	}
	else if (!strcmp(op, "paimports")) {
	    /* paimports p q src usecb: vnaproperty_import_yaml_from_string(&P[p], vnaproperty_get(P[q], src), ...) */
	    int q = geti(); char *src = gets_(); int usecb = geti(); const char *s; int rc;
	    if (!slot_ok(q, NP) || !src) { r_skip(); return; }
	    LIB(s = vnaproperty_get(P[q], "%s", src));
	    if (s == NULL) { GETTER_FAILED(); }
	    LIB(rc = vnaproperty_import_yaml_from_string(&P[p], s, usecb ? errfn : NULL, NULL)); r_int(rc, rc == -1);
	}
	else if (!strcmp(op, "padelvia") || !strcmp(op, "paimportvia")) {
	    /* padelvia p dst: vnaproperty_delete(vnaproperty_set_subtree(&P[p], dst), ".");  paimportvia p dst text: import at that anchor */
	    char *dst = gets_(); char *text = gets_(); vnaproperty_t **a; int rc;
	    if (!dst || (op[2] == 'i' && !text)) { r_skip(); return; }
	    LIB(a = vnaproperty_set_subtree(&P[p], "%s", dst));
	    if (a == NULL) { GETTER_FAILED(); }
	    if (op[2] == 'd') LIB(rc = vnaproperty_delete(a, "."));
	    else LIB(rc = vnaproperty_import_yaml_from_string(a, text, errfn, NULL));
	    r_int(rc, rc == -1);
	}
	else if (!strcmp(op, "pakeys")) {
	    /* pakeys p expr mode: iterate over vnaproperty_keys(P[p], expr) while changing the same map through the key pointers:
	     * 0 set every value to its own key, 1 delete every key in order, 2 add a new key "<key>_<i>" per key (the map grows and
	     * is rehashed while the key vector is held), 3 delete in reverse order, 4 replace the map by a scalar at the first key and go on */
	    char *e = gets_(); int mode = geti(); const char **k; int nfail = 0, n = 0;
	    if (!e) { r_skip(); return; }
	    if (mode < 0 || mode > 4) mode = 4;		/* (a mutated script: any other number is mode 4, with its guard against the dangling keys) */
	    LIB(k = vnaproperty_keys(P[p], "%s", e));
	    if (k == NULL) { GETTER_FAILED(); }
	    while (k[n] != NULL) ++n;
	    const char *pre = strcmp(e, ".") == 0 ? "" : e, *dot = strcmp(e, ".") == 0 ? "" : ".";
	    for (int j = 0; j < n && j < 64; ++j) {
		int i = (mode == 3) ? n - 1 - j : j; char *q; int rc = 0;
		if (mode == 4 && j > 0) break;		/* (every other key pointer is dangling now: not used any more) */
		LIB(q = vnaproperty_quote_key(k[i]));
		if (q == NULL) { ++nfail; continue; }
		if (mode == 0) LIB(rc = vnaproperty_set(&P[p], "%s%s%s=%s", pre, dot, q, k[i]));
		else if (mode == 1 || mode == 3) LIB(rc = vnaproperty_delete(&P[p], "%s%s%s", pre, dot, q));
		else if (mode == 2) LIB(rc = vnaproperty_set(&P[p], "%s%s%s_%d=%s", pre, dot, q, i, k[i]));
		else LIB(rc = vnaproperty_set(&P[p], "%s=%s", e, k[i]));
		if (rc == -1) ++nfail;
		free(q);
	    }
	    free((void *)k);
	    r_int(nfail, nfail != 0); snprintf(vbuf, sizeof vbuf, "%d", n);
	}
	else r_skip();
	return;
    }
    /* ============================================================== vnadata */
    if (op[0] == 'd') {
	int d = geti();
	if (!slot_ok(d, ND)) { r_skip(); return; }
	if (!strcmp(op, "dalloc")) {
	    int usecb = geti(); vnadata_t *v;
	    if (D[d] != NULL) { r_skip(); return; }
	    LIB(v = vnadata_alloc(usecb ? errfn : NULL, NULL)); D[d] = v; r_ptr(v); return;
	}
	if (!strcmp(op, "dallocinit")) {
	    int usecb = geti(); int t = geti(), r = geti(), c = geti(), f = geti(); vnadata_t *v;
	    if (D[d] != NULL) { r_skip(); return; }
	    LIB(v = vnadata_alloc_and_init(usecb ? errfn : NULL, NULL, (vnadata_parameter_type_t)t, r, c, f)); D[d] = v; r_ptr(v); return;
	}
	vnadata_t *v = D[d];
	if (v == NULL) { r_skip(); return; }
	int rows = vnadata_get_rows(v), cols = vnadata_get_columns(v), nf = vnadata_get_frequencies(v);
	int ports = rows > cols ? rows : cols;
	if (!strcmp(op, "dfree")) { LIB(vnadata_free(v)); D[d] = NULL; r_int(0, false); }
	else if (!strcmp(op, "dinit")) { int t = geti(), r = geti(), c = geti(), f = geti(); int rc; LIB(rc = vnadata_init(v, (vnadata_parameter_type_t)t, r, c, f)); r_int(rc, rc == -1); }
	else if (!strcmp(op, "dresize")) { int t = geti(), r = geti(), c = geti(), f = geti(); int rc; LIB(rc = vnadata_resize(v, (vnadata_parameter_type_t)t, r, c, f)); r_int(rc, rc == -1); }
	else if (!strcmp(op, "dsettype")) { int t = geti(); int rc; LIB(rc = vnadata_set_type(v, (vnadata_parameter_type_t)t)); r_int(rc, rc == -1); }
	else if (!strcmp(op, "daddf")) { double f = getd(); int rc; LIB(rc = vnadata_add_frequency(v, f)); r_int(rc, rc == -1); }
	else if (!strcmp(op, "dsetf")) { int i = geti(); double f = getd(); int rc; LIB(rc = vnadata_set_frequency(v, i, f)); r_int(rc, rc == -1); }
	else if (!strcmp(op, "dgetf")) { int i = geti(); double f; LIB(f = vnadata_get_frequency(v, i)); r_dbl(f); }
	else if (!strcmp(op, "dfminmax")) { double a, b; LIB(a = vnadata_get_fmin(v)); LIB(b = vnadata_get_fmax(v)); r_dbl(a); snprintf(vbuf, sizeof vbuf, "%.9g", b); }
	else if (!strcmp(op, "dsetfv")) {
	    int isnull = geti(); int rc; double *fv = calloc((size_t)nf + 1, sizeof(double));	/* isnull: read, unused (required vector) */
	    (void)isnull;
	    for (int i = 0; i < nf; ++i) fv[i] = fgen(i);
	    LIB(rc = vnadata_set_frequency_vector(v, fv)); free(fv); r_int(rc, rc == -1);
	}
	else if (!strcmp(op, "dgetfv")) { const double *fv; LIB(fv = vnadata_get_frequency_vector(v)); uint64_t h = 1; if (fv) for (int i = 0; i < nf; ++i) h = fnv_d(h, fv[i]); r_int(0, false); snprintf(vbuf, sizeof vbuf, "%016llx", (unsigned long long)h); }
	else if (!strcmp(op, "dgetc")) { int f = geti(), r = geti(), c = geti(); double complex x; LIB(x = vnadata_get_cell(v, f, r, c)); r_cpx(x); }
	else if (!strcmp(op, "dsetc")) { int f = geti(), r = geti(), c = geti(); double re = getd(), im = getd(); int rc; LIB(rc = vnadata_set_cell(v, f, r, c, re + I * im)); r_int(rc, rc == -1); }
	else if (!strcmp(op, "dgetm")) {
	    int f = geti(); double complex *m; LIB(m = vnadata_get_matrix(v, f)); r_ptr(m);
	    if (m) { uint64_t h = 1; for (int i = 0; i < rows * cols; ++i) { h = fnv_d(h, creal(m[i])); h = fnv_d(h, cimag(m[i])); } snprintf(vbuf, sizeof vbuf, "%016llx", (unsigned long long)h); }
	}
	else if (!strcmp(op, "dsetm")) {
	    int f = geti(); double base = getd(); int rc; double complex *m = calloc((size_t)(rows * cols) + 1, sizeof(double complex));
	    for (int i = 0; i < rows * cols; ++i) m[i] = base + i + I * (0.5 * i);
	    LIB(rc = vnadata_set_matrix(v, f, m)); free(m); r_int(rc, rc == -1);
	}
	else if (!strcmp(op, "dgetv")) {
	    int r = geti(), c = geti(); int rc; double complex *vec = calloc((size_t)nf + 1, sizeof(double complex));
	    LIB(rc = vnadata_get_to_vector(v, r, c, vec)); r_int(rc, rc == -1);
	    if (rc == 0) { uint64_t h = 1; for (int i = 0; i < nf; ++i) { h = fnv_d(h, creal(vec[i])); h = fnv_d(h, cimag(vec[i])); } snprintf(vbuf, sizeof vbuf, "%016llx", (unsigned long long)h); }
	    free(vec);
	}
	else if (!strcmp(op, "dsetv")) {
	    int r = geti(), c = geti(); double base = getd(); int rc; double complex *vec = calloc((size_t)nf + 1, sizeof(double complex));
	    for (int i = 0; i < nf; ++i) vec[i] = base + i - I * i;
	    LIB(rc = vnadata_set_from_vector(v, r, c, vec)); free(vec); r_int(rc, rc == -1);
	}
	else if (!strcmp(op, "dgetz0")) { int p = geti(); double complex x; LIB(x = vnadata_get_z0(v, p)); r_cpx(x); }
	else if (!strcmp(op, "dsetz0")) { int p = geti(); double re = getd(), im = getd(); int rc; LIB(rc = vnadata_set_z0(v, p, re + I * im)); r_int(rc, rc == -1); }
	else if (!strcmp(op, "dsetallz0")) { double re = getd(), im = getd(); int rc; LIB(rc = vnadata_set_all_z0(v, re + I * im)); r_int(rc, rc == -1); }
	else if (!strcmp(op, "dgetz0v")) {
	    const double complex *z; LIB(z = vnadata_get_z0_vector(v)); r_ptr(z);
	    if (z) { uint64_t h = 1; for (int i = 0; i < ports; ++i) { h = fnv_d(h, creal(z[i])); h = fnv_d(h, cimag(z[i])); } snprintf(vbuf, sizeof vbuf, "%016llx", (unsigned long long)h); }
	    if (ports == 0) op_failed = false;
	}
	else if (!strcmp(op, "dsetz0v")) {
	    int isnull = geti(); double base = getd(); int rc; double complex *z = calloc((size_t)ports + 1, sizeof(double complex));	/* isnull: read, unused (required vector) */
	    (void)isnull;
	    for (int i = 0; i < ports; ++i) z[i] = base + i + I * i;
	    LIB(rc = vnadata_set_z0_vector(v, z)); free(z); r_int(rc, rc == -1);
	}
	else if (!strcmp(op, "dhasfz0")) { bool b; LIB(b = vnadata_has_fz0(v)); r_int(b ? 1 : 0, false); }
	else if (!strcmp(op, "dgetfz0")) { int f = geti(), p = geti(); double complex x; LIB(x = vnadata_get_fz0(v, f, p)); r_cpx(x); }
	else if (!strcmp(op, "dsetfz0")) { int f = geti(), p = geti(); double re = getd(), im = getd(); int rc; LIB(rc = vnadata_set_fz0(v, f, p, re + I * im)); r_int(rc, rc == -1); }
	else if (!strcmp(op, "dgetfz0v")) {
	    int f = geti(); const double complex *z; LIB(z = vnadata_get_fz0_vector(v, f)); r_ptr(z);
	    if (z) { uint64_t h = 1; for (int i = 0; i < ports; ++i) { h = fnv_d(h, creal(z[i])); h = fnv_d(h, cimag(z[i])); } snprintf(vbuf, sizeof vbuf, "%016llx", (unsigned long long)h); }
	}
	else if (!strcmp(op, "dsetfz0v")) {
	    int f = geti(); int isnull = geti(); double base = getd(); int rc; double complex *z = calloc((size_t)ports + 1, sizeof(double complex));	/* isnull: read, unused (required vector) */
	    (void)isnull;
	    for (int i = 0; i < ports; ++i) z[i] = base + i + I * (i + 1);
	    LIB(rc = vnadata_set_fz0_vector(v, f, z)); free(z); r_int(rc, rc == -1);
	}
	else if (!strcmp(op, "dconv")) {
	    int o = geti(); int t = geti(); int rc;
	    if (!slot_ok(o, ND) || D[o] == NULL) { r_skip(); return; }
	    LIB(rc = vnadata_convert(v, D[o], (vnadata_parameter_type_t)t)); r_int(rc, rc == -1);
	}
	else if (!strcmp(op, "dsetfmt")) { char *s = gets_(); int rc; if (!s) { r_skip(); return; } LIB(rc = vnadata_set_format(v, s)); r_int(rc, rc == -1); }
	else if (!strcmp(op, "dgetfmt")) { const char *s; LIB(s = vnadata_get_format(v)); r_ptr(s); v_str(s); op_failed = false; }
	else if (!strcmp(op, "dsetft")) { int t = geti(); int rc; LIB(rc = vnadata_set_filetype(v, (vnadata_filetype_t)t)); r_int(rc, rc == -1); }
	else if (!strcmp(op, "dgetft")) { int t; LIB(t = (int)vnadata_get_filetype(v)); r_int(t, t == -1); }
	else if (!strcmp(op, "dsetfp")) { int p = geti(); int rc; LIB(rc = vnadata_set_fprecision(v, p)); r_int(rc, rc == -1); }
	else if (!strcmp(op, "dsetdp")) { int p = geti(); int rc; LIB(rc = vnadata_set_dprecision(v, p)); r_int(rc, rc == -1); }
	else if (!strcmp(op, "dgetprec")) { int a, b; LIB(a = vnadata_get_fprecision(v)); LIB(b = vnadata_get_dprecision(v)); r_int(a, a == -1); snprintf(vbuf, sizeof vbuf, "%d", b); }
	else if (!strcmp(op, "dcksave")) { char *name = gets_(); int rc; if (!name) { r_skip(); return; } LIB(rc = vnadata_cksave(v, name)); r_int(rc, rc == -1); }
	else if (!strcmp(op, "dsave")) {
	    int t = geti(); char *name = gets_(); int rc; if (!slot_ok(t, NT) || !name) { r_skip(); return; }
	    free_text(t);
	    FILE *fp = open_memstream(&T[t].buf, &T[t].len);
	    LIB(rc = vnadata_fsave(v, fp, name));
	    fclose(fp);
	    r_int(rc, rc == -1);
	    if (rc == 0) snprintf(vbuf, sizeof vbuf, "%zu:%016llx", T[t].len, (unsigned long long)fnv(14695981039346656037ULL, T[t].buf, T[t].len));
	    else free_text(t);
	}
	else if (!strcmp(op, "dload")) {
	    int t = geti(); char *name = gets_(); int rc; if (!slot_ok(t, NT) || !name || T[t].buf == NULL || T[t].len == 0) { r_skip(); return; }
	    FILE *fp = fmemopen(T[t].buf, T[t].len, "r");
	    LIB(rc = vnadata_fload(v, fp, name));
	    fclose(fp);
	    r_int(rc, rc == -1);
	}
	else if (!strcmp(op, "dloads")) {
	    char *text = gets_(); char *name = gets_(); int rc; if (!text || !name || text[0] == 0) { r_skip(); return; }
	    FILE *fp = fmemopen(text, strlen(text), "r");
	    LIB(rc = vnadata_fload(v, fp, name));
	    fclose(fp);
	    r_int(rc, rc == -1);
	}
	/* ---- self-aliasing family ("da..."): a pointer returned by a getter of object o is handed to a mutator of object d
	 * (o == d: same object).  The call is made only when it is legal for the caller: the source holds at least as many
	 * elements as the mutator reads (otherwise SKIP). */
	else if (!strncmp(op, "da", 2) && strcmp(op, "dalloc") && strcmp(op, "dallocinit") && strcmp(op, "daddf")) {
	    if (!strcmp(op, "dasavefmt") || !strcmp(op, "daloadfmt") || !strcmp(op, "dacksavefmt") || !strcmp(op, "dasetfmt")) {
		/* dasetfmt d o | dasavefmt d o t | daloadfmt d o t | dacksavefmt d o: the format string of o as format / file name of d.
		 * daloadfmt with o == d is not a legal call (SKIP): vnadata.3 says that the pointer returned by vnadata_get_format
		 * becomes invalid by vnadata_load / vnadata_fload, so the caller may not keep using it as the file name of that call */
		int o = geti(); int t = geti(); const char *s; int rc;
		if (!slot_ok(o, ND) || D[o] == NULL || (o == d && !strcmp(op, "daloadfmt"))) { r_skip(); return; }
		LIB(s = vnadata_get_format(D[o]));
		if (s == NULL) { GETTER_FAILED(); }
		if (!strcmp(op, "dasetfmt")) { LIB(rc = vnadata_set_format(v, s)); }
		else if (!strcmp(op, "dacksavefmt")) { LIB(rc = vnadata_cksave(v, s)); }
		else if (!strcmp(op, "dasavefmt")) {
		    if (!slot_ok(t, NT)) { r_skip(); return; }
		    free_text(t);
		    FILE *fp = open_memstream(&T[t].buf, &T[t].len);
		    LIB(rc = vnadata_fsave(v, fp, s));
		    fclose(fp);
		    if (rc != 0) free_text(t);
		} else {
		    if (!slot_ok(t, NT) || T[t].buf == NULL || T[t].len == 0) { r_skip(); return; }
		    FILE *fp = fmemopen(T[t].buf, T[t].len, "r");
		    LIB(rc = vnadata_fload(v, fp, s));
		    fclose(fp);
		}
		r_int(rc, rc == -1);
	    }
	    else if (!strcmp(op, "dasetfv")) {
		/* dasetfv d o: vnadata_set_frequency_vector(D[d], vnadata_get_frequency_vector(D[o])) */
		int o = geti(); const double *fv; int rc;
		if (!slot_ok(o, ND) || D[o] == NULL || vnadata_get_frequencies(D[o]) < nf) { r_skip(); return; }
		LIB(fv = vnadata_get_frequency_vector(D[o]));
		if (fv == NULL) { GETTER_FAILED(); }
		LIB(rc = vnadata_set_frequency_vector(v, fv)); r_int(rc, rc == -1);
	    }
	    else if (!strcmp(op, "dasetz0v") || !strcmp(op, "dasetfz0v")) {
		/* dasetz0v d o src j: vnadata_set_z0_vector(D[d], z);  dasetfz0v d i o src j: vnadata_set_fz0_vector(D[d], i, z)
		 * z = src 0: vnadata_get_z0_vector(D[o]), src 1: vnadata_get_fz0_vector(D[o], j) */
		int i = op[5] == 'f' ? geti() : 0; int o = geti(), src = geti(), j = geti(); const double complex *z; int rc;
		if (!slot_ok(o, ND) || D[o] == NULL || d_ports(D[o]) < ports) { r_skip(); return; }
		if (src == 0) LIB(z = vnadata_get_z0_vector(D[o])); else LIB(z = vnadata_get_fz0_vector(D[o], j));
		if (z == NULL) { GETTER_FAILED(); }
		if (op[5] == 'f') LIB(rc = vnadata_set_fz0_vector(v, i, z)); else LIB(rc = vnadata_set_z0_vector(v, z));
		r_int(rc, rc == -1);
	    }
	    else if (!strcmp(op, "dasetm")) {
		/* dasetm d i o j: vnadata_set_matrix(D[d], i, vnadata_get_matrix(D[o], j)) */
		int i = geti(), o = geti(), j = geti(); const double complex *m; int rc;
		if (!slot_ok(o, ND) || D[o] == NULL || vnadata_get_rows(D[o]) * vnadata_get_columns(D[o]) < rows * cols) { r_skip(); return; }
		LIB(m = vnadata_get_matrix(D[o], j));
		if (m == NULL) { GETTER_FAILED(); }
		LIB(rc = vnadata_set_matrix(v, i, m)); r_int(rc, rc == -1);
	    }
	    else if (!strcmp(op, "dasetv") || !strcmp(op, "dagetv")) {
		/* dasetv d r c o j: vnadata_set_from_vector(D[d], r, c, vnadata_get_matrix(D[o], j));  dagetv: vnadata_get_to_vector into
		 * that matrix (the matrix of o must have at least as many cells as d has frequencies) */
		int r = geti(), c = geti(), o = geti(), j = geti(); double complex *m; int rc;
		if (!slot_ok(o, ND) || D[o] == NULL || vnadata_get_rows(D[o]) * vnadata_get_columns(D[o]) < nf) { r_skip(); return; }
		LIB(m = vnadata_get_matrix(D[o], j));
		if (m == NULL) { GETTER_FAILED(); }
		if (op[2] == 's') LIB(rc = vnadata_set_from_vector(v, r, c, m)); else LIB(rc = vnadata_get_to_vector(v, r, c, m));
		r_int(rc, rc == -1);
	    }
	    else r_skip();
	}
	else if (!strcmp(op, "ddig")) { uint64_t h = data_digest(v); r_int(0, false); snprintf(vbuf, sizeof vbuf, "%d,%dx%dx%d,%016llx", (int)vnadata_get_type(v), rows, cols, nf, (unsigned long long)h); }
	else r_skip();
	return;
    }
    /* ============================================================== vnacal */
    if (op[0] == 'c') {
	int c = geti();
	if (!slot_ok(c, NC)) { r_skip(); return; }
	if (!strcmp(op, "ccreate")) {
	    int usecb = geti(); vnacal_t *v;
	    if (C[c] != NULL) { r_skip(); return; }
	    LIB(v = vnacal_create(usecb ? errfn : NULL, NULL)); C[c] = v; r_ptr(v); return;
	}
	if (!strcmp(op, "cload")) {
	    int id = geti(); int usecb = geti(); vnacal_t *v;
	    if (C[c] != NULL) { r_skip(); return; }
	    LIB(v = vnacal_load(path_of(id), usecb ? errfn : NULL, NULL)); C[c] = v; r_ptr(v); return;
	}
	if (!strcmp(op, "caload")) {
	    /* caload c o usecb: C[c] = vnacal_load(vnacal_get_filename(C[o]), ...) */
	    int o = geti(); int usecb = geti(); vnacal_t *v; const char *name;
	    if (C[c] != NULL || !slot_ok(o, NC) || C[o] == NULL) { r_skip(); return; }
	    LIB(name = vnacal_get_filename(C[o]));
	    if (name == NULL) { GETTER_FAILED(); }
	    LIB(v = vnacal_load(name, usecb ? errfn : NULL, NULL)); C[c] = v; r_ptr(v); return;
	}
	vnacal_t *v = C[c];
	if (v == NULL) { r_skip(); return; }
	if (!strcmp(op, "cfree")) { LIB(vnacal_free(v)); C[c] = NULL; kill_news_of(c); r_int(0, false); }
	else if (!strcmp(op, "cscalar")) { double re = getd(), im = getd(); int rc; LIB(rc = vnacal_make_scalar_parameter(v, re + I * im)); r_int(rc, rc == -1); }
	else if (!strcmp(op, "cvector")) {
	    int n = geti(); int variant = geti(); int rc;	/* 0 valid, 3 descending, 4 negative f0; 1, 2 (formerly NULL f / NULL gamma, both required) = 0 */
	    int na = n > 0 ? n : 0;
	    double *fv = calloc((size_t)na + 1, sizeof(double)); double complex *gv = calloc((size_t)na + 1, sizeof(double complex));
	    for (int i = 0; i < na; ++i) { fv[i] = (variant == 3) ? fgen(na - i) : fgen(i) * 0.5 + (i == na - 1 ? 1e12 : 0); gv[i] = 0.1 * i - 0.2 * I; }
	    if (variant == 4) fv[0] = -1.0;
	    LIB(rc = vnacal_make_vector_parameter(v, fv, n, gv));
	    free(fv); free(gv); r_int(rc, rc == -1);
	}
	else if (!strcmp(op, "cunknown")) { int o = geti(); int rc; LIB(rc = vnacal_make_unknown_parameter(v, o)); r_int(rc, rc == -1); }
	else if (!strcmp(op, "ccorr")) {
	    /* ccorr c other n variant: 0 valid own sigma frequencies, 1 sigma_frequency_vector NULL (valid when n == 1, and when the
	     * chain of `other` references ends in a vector parameter (cvector) of exactly n frequencies: the frequencies are then
	     * borrowed from that vector, e.g. "cvector 0 4 0", "cunknown 0 3", "ccorr 0 4 4 1"), 3 descending; 2 (formerly NULL sigma_vector,
	     * a required argument) = 0 */
	    int o = geti(); int n = geti(); int variant = geti(); int rc;
	    int na = n > 0 ? n : 0;
	    double *fv = calloc((size_t)na + 1, sizeof(double)); double *sv = calloc((size_t)na + 1, sizeof(double));
	    for (int i = 0; i < na; ++i) { fv[i] = (variant == 3) ? fgen(na - i) : fgen(i) * 0.5 + (i == na - 1 ? 1e12 : 0); sv[i] = 0.01 * (i + 1); }
	    LIB(rc = vnacal_make_correlated_parameter(v, o, variant == 1 ? NULL : fv, n, sv));
	    free(fv); free(sv); r_int(rc, rc == -1);
	}
	else if (!strcmp(op, "cpval")) { int p = geti(); double f = getd(); double complex x; LIB(x = vnacal_get_parameter_value(v, p, f)); r_cpx(x); }
	else if (!strcmp(op, "cpdel")) { int p = geti(); int rc; LIB(rc = vnacal_delete_parameter(v, p)); r_int(rc, rc == -1); }
	else if (!strcmp(op, "caddcal")) {
	    char *name = gets_(); int n = geti(); int rc; if (!name) { r_skip(); return; }
	    vnacal_new_t *vnp = (slot_ok(n, NN)) ? N[n].p : NULL;
	    if (vnp == NULL) { r_skip(); return; }
	    LIB(rc = vnacal_add_calibration(v, name, vnp)); r_int(rc, rc == -1);
	}
	else if (!strcmp(op, "cdelcal")) { int ci = geti(); int rc; LIB(rc = vnacal_delete_calibration(v, ci)); r_int(rc, rc == -1); }
	else if (!strcmp(op, "cfind")) { char *name = gets_(); int rc; if (!name) { r_skip(); return; } LIB(rc = vnacal_find_calibration(v, name)); r_int(rc, rc == -1); }
	else if (!strcmp(op, "cend")) { int rc; LIB(rc = vnacal_get_calibration_end(v)); r_int(rc, rc == -1); }
	else if (!strcmp(op, "cfilename")) { const char *s; LIB(s = vnacal_get_filename(v)); r_ptr(s); op_failed = false; }
	else if (!strcmp(op, "cgets")) {
	    int ci = geti(); const char *name; int t, r, cc, nf; double a, b; const double *fv; double complex z0;
	    LIB(name = vnacal_get_name(v, ci)); LIB(t = (int)vnacal_get_type(v, ci)); LIB(r = vnacal_get_rows(v, ci)); LIB(cc = vnacal_get_columns(v, ci));
	    LIB(nf = vnacal_get_frequencies(v, ci)); LIB(a = vnacal_get_fmin(v, ci)); LIB(b = vnacal_get_fmax(v, ci)); LIB(fv = vnacal_get_frequency_vector(v, ci));
	    LIB(z0 = vnacal_get_z0(v, ci));
	    r_ptr(name);
	    uint64_t h = 1; if (fv && nf > 0) for (int i = 0; i < nf; ++i) h = fnv_d(h, fv[i]);
	    snprintf(vbuf, sizeof vbuf, "%s,%d,%d,%d,%d,%.6g,%.6g,%.6g,%016llx", name ? name : "(null)", t, r, cc, nf, a, b, creal(z0), (unsigned long long)h);
	    for (char *q = vbuf; *q; ++q) if (*q == ' ') *q = '_';
	}
	else if (!strcmp(op, "csetfp")) { int p = geti(); int rc; LIB(rc = vnacal_set_fprecision(v, p)); r_int(rc, rc == -1); }
	else if (!strcmp(op, "csetdp")) { int p = geti(); int rc; LIB(rc = vnacal_set_dprecision(v, p)); r_int(rc, rc == -1); }
	else if (!strcmp(op, "cpset")) { int ci = geti(); char *e = gets_(); int rc; if (!e) { r_skip(); return; } LIB(rc = vnacal_property_set(v, ci, "%s", e)); r_int(rc, rc == -1); }
	else if (!strcmp(op, "cpget")) { int ci = geti(); char *e = gets_(); const char *s; if (!e) { r_skip(); return; } LIB(s = vnacal_property_get(v, ci, "%s", e)); r_ptr(s); v_str(s); }
	else if (!strcmp(op, "cpdelp")) { int ci = geti(); char *e = gets_(); int rc; if (!e) { r_skip(); return; } LIB(rc = vnacal_property_delete(v, ci, "%s", e)); r_int(rc, rc == -1); }
	else if (!strcmp(op, "cpcount")) { int ci = geti(); char *e = gets_(); int rc; if (!e) { r_skip(); return; } LIB(rc = vnacal_property_count(v, ci, "%s", e)); r_int(rc, rc == -1); }
	else if (!strcmp(op, "cptype")) { int ci = geti(); char *e = gets_(); int rc; if (!e) { r_skip(); return; } LIB(rc = vnacal_property_type(v, ci, "%s", e)); r_int(rc, rc == -1); }
	else if (!strcmp(op, "cpkeys")) {
	    int ci = geti(); char *e = gets_(); const char **k; if (!e) { r_skip(); return; }
	    LIB(k = vnacal_property_keys(v, ci, "%s", e)); r_ptr(k);
	    if (k) { int n = 0; for (const char **q = k; *q; ++q) ++n; snprintf(vbuf, sizeof vbuf, "%d", n); free((void *)k); }
	}
	else if (!strcmp(op, "cpgetsub")) { int ci = geti(); char *e = gets_(); vnaproperty_t *s; if (!e) { r_skip(); return; } LIB(s = vnacal_property_get_subtree(v, ci, "%s", e)); r_ptr(s); }
	else if (!strcmp(op, "cpsetsub")) { int ci = geti(); char *e = gets_(); vnaproperty_t **s; if (!e) { r_skip(); return; } LIB(s = vnacal_property_set_subtree(v, ci, "%s", e)); r_ptr(s); }
	else if (!strcmp(op, "csave")) { int id = geti(); int rc; LIB(rc = vnacal_save(v, path_of(id))); r_int(rc, rc == -1); }
	else if (!strcmp(op, "capply")) {
	    /* capply c ci d nf rows cols mode fvariant   mode 0: apply_m, 1: apply with a = identity; no vnadata object in slot d: skipped;
	     * fvariant: read, unused (formerly 1 = NULL frequency_vector, a required argument) */
	    int ci = geti(), d = geti(), nf = geti(), rows = geti(), cols = geti(), mode = geti(), fvar = geti(); int rc;
	    vnadata_t *out = slot_ok(d, ND) ? D[d] : NULL;
	    (void)fvar;
	    if (out == NULL) { r_skip(); return; }
	    int na = nf > 0 ? nf : 0;
	    double *fv = calloc((size_t)na + 1, sizeof(double));
	    for (int i = 0; i < na; ++i) fv[i] = fgen(i);
	    mat_t m = mat_alloc(rows, cols, na);
	    for (int i = 0; i < m.cells; ++i) for (int f = 0; f < na; ++f) m.v[i][f] = 0.1 * (i + 1) + 0.01 * f * I;
	    mat_t a = mat_identity(cols, cols, na);
	    if (mode == 0) LIB(rc = vnacal_apply_m(v, ci, fv, nf, m.v, rows, cols, out));
	    else LIB(rc = vnacal_apply(v, ci, fv, nf, a.v, cols, cols, m.v, rows, cols, out));
	    mat_free(m); mat_free(a); free(fv); r_int(rc, rc == -1);
	    if (rc == 0) snprintf(vbuf, sizeof vbuf, "%016llx", (unsigned long long)data_digest(out));
	}
	/* ---- self-aliasing family ("ca..."): a pointer returned by a getter of vnacal_t o (o == c: same object) is handed to a
	 * mutator of vnacal_t c */
	else if (!strcmp(op, "casave")) {
	    /* casave c o: vnacal_save(C[c], vnacal_get_filename(C[o])) */
	    int o = geti(); const char *name; int rc;
	    if (!slot_ok(o, NC) || C[o] == NULL) { r_skip(); return; }
	    LIB(name = vnacal_get_filename(C[o]));
	    if (name == NULL) { GETTER_FAILED(); }
	    LIB(rc = vnacal_save(v, name)); r_int(rc, rc == -1);
	    { const char *now; LIB(now = vnacal_get_filename(v)); v_str(now ? strrchr(now, '/') ? strrchr(now, '/') + 1 : now : NULL); }
	}
	else if (!strcmp(op, "capset")) {
	    /* capset c ci o cj src dst suffix: vnacal_property_set(C[c], ci, "<dst>=%s<suffix>", vnacal_property_get(C[o], cj, src)) */
	    int ci = geti(), o = geti(), cj = geti(); char *src = gets_(), *dst = gets_(), *suf = gets_(); const char *s; int rc;
	    if (!slot_ok(o, NC) || C[o] == NULL || !src || !dst) { r_skip(); return; }
	    LIB(s = vnacal_property_get(C[o], cj, "%s", src));
	    if (s == NULL) { GETTER_FAILED(); }
	    LIB(rc = vnacal_property_set(v, ci, "%s=%s%s", dst, s, suf ? suf : "")); r_int(rc, rc == -1);
	}
	else if (!strcmp(op, "capsetvia")) {
	    /* capsetvia c ci dst val: vnaproperty_set(vnacal_property_set_subtree(C[c], ci, dst), ".=%s", val) */
	    int ci = geti(); char *dst = gets_(), *val = gets_(); vnaproperty_t **a; int rc;
	    if (!dst || !val) { r_skip(); return; }
	    LIB(a = vnacal_property_set_subtree(v, ci, "%s", dst));
	    if (a == NULL) { GETTER_FAILED(); }
	    LIB(rc = vnaproperty_set(a, ".=%s", val)); r_int(rc, rc == -1);
	}
	else if (!strcmp(op, "capcopy")) {
	    /* capcopy c ci dst o cj src: vnaproperty_copy(vnacal_property_set_subtree(C[c], ci, dst), vnacal_property_get_subtree(C[o], cj, src)) */
	    int ci = geti(); char *dst = gets_(); int o = geti(), cj = geti(); char *src = gets_(); vnaproperty_t **a, *s; int rc;
	    if (!slot_ok(o, NC) || C[o] == NULL || !src || !dst) { r_skip(); return; }
	    LIB(a = vnacal_property_set_subtree(v, ci, "%s", dst));
	    if (a == NULL) { GETTER_FAILED(); }
	    errno = 0;
	    LIB(s = vnacal_property_get_subtree(C[o], cj, "%s", src));
	    if (s == NULL && errno != 0) { GETTER_FAILED(); }
	    LIB(rc = vnaproperty_copy(a, s)); r_int(rc, rc == -1);
	}
	else if (!strcmp(op, "capexport") || !strcmp(op, "capimport")) {
	    /* capexport c ci src p: vnaproperty_copy(&P[p], vnacal_property_get_subtree(C[c], ci, src))
	     * capimport c ci dst p: vnaproperty_copy(vnacal_property_set_subtree(C[c], ci, dst), P[p]) */
	    int ci = geti(); char *e = gets_(); int p = geti(); int rc;
	    if (!slot_ok(p, NP) || !e) { r_skip(); return; }
	    if (op[3] == 'e') {
		vnaproperty_t *s;
		errno = 0;
		LIB(s = vnacal_property_get_subtree(v, ci, "%s", e));
		if (s == NULL && errno != 0) { GETTER_FAILED(); }
		LIB(rc = vnaproperty_copy(&P[p], s));
	    } else {
		vnaproperty_t **a;
		LIB(a = vnacal_property_set_subtree(v, ci, "%s", e));
		if (a == NULL) { GETTER_FAILED(); }
		LIB(rc = vnaproperty_copy(a, P[p]));
	    }
	    r_int(rc, rc == -1);
	}
	else if (!strcmp(op, "capkeys")) {
	    /* capkeys c ci expr mode: as pakeys, through vnacal_property_keys / _set / _delete (modes 0 .. 3) */
	    int ci = geti(); char *e = gets_(); int mode = geti(); const char **k; int nfail = 0, n = 0;
	    if (!e) { r_skip(); return; }
	    LIB(k = vnacal_property_keys(v, ci, "%s", e));
	    if (k == NULL) { GETTER_FAILED(); }
	    while (k[n] != NULL) ++n;
	    const char *pre = strcmp(e, ".") == 0 ? "" : e, *dot = strcmp(e, ".") == 0 ? "" : ".";
	    for (int j = 0; j < n && j < 64; ++j) {
		int i = (mode == 3) ? n - 1 - j : j; char *q; int rc = 0;
		LIB(q = vnaproperty_quote_key(k[i]));
		if (q == NULL) { ++nfail; continue; }
		if (mode == 0) LIB(rc = vnacal_property_set(v, ci, "%s%s%s=%s", pre, dot, q, k[i]));
		else if (mode == 1 || mode == 3) LIB(rc = vnacal_property_delete(v, ci, "%s%s%s", pre, dot, q));
		else LIB(rc = vnacal_property_set(v, ci, "%s%s%s_%d=%s", pre, dot, q, i, k[i]));
		if (rc == -1) ++nfail;
		free(q);
	    }
	    free((void *)k);
	    r_int(nfail, nfail != 0); snprintf(vbuf, sizeof vbuf, "%d", n);
	}
	else if (!strcmp(op, "caaddcal") || !strcmp(op, "cafind")) {
	    /* caaddcal c ci o n: vnacal_add_calibration(C[c], vnacal_get_name(C[o], ci), N[n])   (o == c: a calibration is replaced
	     * under its own name pointer);  cafind c ci o: vnacal_find_calibration(C[c], vnacal_get_name(C[o], ci)) */
	    int ci = geti(), o = geti(), n = geti(); const char *name; int rc;
	    if (!slot_ok(o, NC) || C[o] == NULL) { r_skip(); return; }
	    vnacal_new_t *vnp = slot_ok(n, NN) ? N[n].p : NULL;
	    if (op[2] == 'a' && vnp == NULL) { r_skip(); return; }
	    LIB(name = vnacal_get_name(C[o], ci));
	    if (name == NULL) { GETTER_FAILED(); }
	    if (op[2] == 'a') LIB(rc = vnacal_add_calibration(v, name, vnp)); else LIB(rc = vnacal_find_calibration(v, name));
	    r_int(rc, rc == -1);
	}
	else if (!strcmp(op, "cavector") || !strcmp(op, "cacorr")) {
	    /* cavector c o ci: vnacal_make_vector_parameter(C[c], vnacal_get_frequency_vector(C[o], ci), vnacal_get_frequencies(C[o], ci), gamma)
	     * cacorr c o ci other: vnacal_make_correlated_parameter(C[c], other, <that vector>, <its length>, sigma) */
	    int o = geti(), ci = geti(), other = geti(); const double *fv; int nf, rc;
	    if (!slot_ok(o, NC) || C[o] == NULL) { r_skip(); return; }
	    LIB(fv = vnacal_get_frequency_vector(C[o], ci));
	    if (fv == NULL) { GETTER_FAILED(); }
	    LIB(nf = vnacal_get_frequencies(C[o], ci));
	    int na = nf > 0 ? nf : 0;
	    double complex *gv = calloc((size_t)na + 1, sizeof(double complex)); double *sv = calloc((size_t)na + 1, sizeof(double));
	    for (int i = 0; i < na; ++i) { gv[i] = 0.1 * i - 0.2 * I; sv[i] = 0.01 * (i + 1); }
	    if (op[2] == 'v') LIB(rc = vnacal_make_vector_parameter(v, fv, nf, gv)); else LIB(rc = vnacal_make_correlated_parameter(v, other, fv, nf, sv));
	    free(gv); free(sv); r_int(rc, rc == -1);
	}
	else if (!strcmp(op, "caapply")) {
	    /* caapply c ci src d rows cols mode o cj: apply with a frequency vector that belongs to a library object:
	     * src 0: vnadata_get_frequency_vector(D[d]) / vnadata_get_frequencies(D[d]) of the OUTPUT object itself,
	     * src 1: vnacal_get_frequency_vector(C[o], cj) / vnacal_get_frequencies(C[o], cj) */
	    int ci = geti(), src = geti(), d = geti(), rows = geti(), cols = geti(), mode = geti(), o = geti(), cj = geti(); int rc, nf;
	    const double *fv;
	    vnadata_t *out = slot_ok(d, ND) ? D[d] : NULL;
	    if (out == NULL) { r_skip(); return; }
	    if (src == 0) { LIB(fv = vnadata_get_frequency_vector(out)); nf = vnadata_get_frequencies(out); }
	    else {
		if (!slot_ok(o, NC) || C[o] == NULL) { r_skip(); return; }
		LIB(fv = vnacal_get_frequency_vector(C[o], cj));
		if (fv != NULL) LIB(nf = vnacal_get_frequencies(C[o], cj));
	    }
	    if (fv == NULL) { GETTER_FAILED(); }
	    int na = nf > 0 ? nf : 0;
	    mat_t m = mat_alloc(rows, cols, na);
	    for (int i = 0; i < m.cells; ++i) for (int f = 0; f < na; ++f) m.v[i][f] = 0.1 * (i + 1) + 0.01 * f * I;
	    mat_t a = mat_identity(cols, cols, na);
	    if (mode == 0) LIB(rc = vnacal_apply_m(v, ci, fv, nf, m.v, rows, cols, out));
	    else LIB(rc = vnacal_apply(v, ci, fv, nf, a.v, cols, cols, m.v, rows, cols, out));
	    mat_free(m); mat_free(a); r_int(rc, rc == -1);
	}
	else r_skip();
	return;
    }
    /* ============================================================== vnacal_new */
    if (op[0] == 'n') {
	int n = geti();
	if (!slot_ok(n, NN)) { r_skip(); return; }
	if (!strcmp(op, "nalloc")) {
	    int c = geti(), t = geti(), r = geti(), cc = geti(), f = geti(); vnacal_new_t *v;
	    if (N[n].p != NULL || !slot_ok(c, NC) || C[c] == NULL) { r_skip(); return; }
	    LIB(v = vnacal_new_alloc(C[c], (vnacal_type_t)t, r, cc, f));
	    N[n].p = v; N[n].c = c; N[n].rows = r; N[n].cols = cc; N[n].freqs = f; r_ptr(v); return;
	}
	vnacal_new_t *v = N[n].p;
	if (v == NULL) { r_skip(); return; }
	int R = N[n].rows, Cn = N[n].cols, F = N[n].freqs;
	if (!strcmp(op, "nfree")) { LIB(vnacal_new_free(v)); N[n].p = NULL; r_int(0, false); }
	else if (!strcmp(op, "nsetfv")) {
	    int variant = geti(); int rc;	/* 0 ascending, 2 descending, 3 negative first, 4 NaN; 1 (formerly NULL, a required vector) = 0 */
	    double *fv = calloc((size_t)F + 1, sizeof(double));
	    for (int i = 0; i < F; ++i) fv[i] = variant == 2 ? fgen(F - i) : fgen(i);
	    if (variant == 3 && F > 0) fv[0] = -1.0;
	    if (variant == 4 && F > 0) fv[F - 1] = NAN;
	    LIB(rc = vnacal_new_set_frequency_vector(v, fv)); free(fv); r_int(rc, rc == -1);
	}
	else if (!strcmp(op, "nsetz0")) { double re = getd(), im = getd(); int rc; LIB(rc = vnacal_new_set_z0(v, re + I * im)); r_int(rc, rc == -1); }
	else if (!strcmp(op, "nptol")) { double x = getd(); int rc; LIB(rc = vnacal_new_set_p_tolerance(v, x)); r_int(rc, rc == -1); }
	else if (!strcmp(op, "nettol")) { double x = getd(); int rc; LIB(rc = vnacal_new_set_et_tolerance(v, x)); r_int(rc, rc == -1); }
	else if (!strcmp(op, "nitlim")) { int x = geti(); int rc; LIB(rc = vnacal_new_set_iteration_limit(v, x)); r_int(rc, rc == -1); }
	else if (!strcmp(op, "npvlim")) { double x = getd(); int rc; LIB(rc = vnacal_new_set_pvalue_limit(v, x)); r_int(rc, rc == -1); }
	else if (!strcmp(op, "nmerr")) {
	    /* nmerr n nf variant: 0 valid with own f vector, 1 f NULL, 2 both sigma NULL (clear), 4 negative sigma, 5 tr NULL
	     * (all documented uses of NULL); 3 (formerly sigma_nf_vector NULL alone, not a documented use) = 0 */
	    int nf = geti(), variant = geti(); int rc; int na = nf > 0 ? nf : 0;
	    double *fv = calloc((size_t)na + 1, sizeof(double)), *s1 = calloc((size_t)na + 1, sizeof(double)), *s2 = calloc((size_t)na + 1, sizeof(double));
	    for (int i = 0; i < na; ++i) { fv[i] = fgen(i) * (i == 0 ? 0.5 : 1.0) * (i == na - 1 ? 4.0 : 1.0); s1[i] = 1e-4; s2[i] = 1e-3; }
	    if (variant == 4 && na > 0) s1[na - 1] = -1.0;
	    LIB(rc = vnacal_new_set_m_error(v, variant == 1 ? NULL : fv, nf, variant == 2 ? NULL : s1, (variant == 2 || variant == 5) ? NULL : s2));
	    free(fv); free(s1); free(s2); r_int(rc, rc == -1);
	}
	else if (!strcmp(op, "nsolve")) { int rc; LIB(rc = vnacal_new_solve(v)); r_int(rc, rc == -1); }
	/* ---- self-aliasing family ("na..."): the frequency vector of calibration ci of vnacal_t c (the owner of this
	 * vnacal_new_t or another one) handed to the setters of the vnacal_new_t */
	else if (!strcmp(op, "nasetfv") || !strcmp(op, "namerr")) {
	    /* nasetfv n c ci: vnacal_new_set_frequency_vector(N[n], vnacal_get_frequency_vector(C[c], ci))   (legal when the
	     * calibration has at least as many frequencies as the vnacal_new_t, else SKIP)
	     * namerr n c ci: vnacal_new_set_m_error(N[n], <that vector>, <its length>, sigma_nf, sigma_tr) */
	    int c = geti(), ci = geti(); const double *fv; int nf, rc;
	    if (!slot_ok(c, NC) || C[c] == NULL) { r_skip(); return; }
	    LIB(fv = vnacal_get_frequency_vector(C[c], ci));
	    if (fv == NULL) { GETTER_FAILED(); }
	    LIB(nf = vnacal_get_frequencies(C[c], ci));
	    if (op[2] == 's') {
		if (nf < F) { r_skip(); return; }
		LIB(rc = vnacal_new_set_frequency_vector(v, fv));
	    } else {
		int na = nf > 0 ? nf : 0;
		double *s1 = calloc((size_t)na + 1, sizeof(double)), *s2 = calloc((size_t)na + 1, sizeof(double));
		for (int i = 0; i < na; ++i) { s1[i] = 1e-4; s2[i] = 1e-3; }
		LIB(rc = vnacal_new_set_m_error(v, fv, nf, s1, s2));
		free(s1); free(s2);
	    }
	    r_int(rc, rc == -1);
	}
	else if (!strcmp(op, "nsr") || !strcmp(op, "ndr") || !strcmp(op, "nthru") || !strcmp(op, "nline") || !strcmp(op, "nmm")) {
	    /* common prefix: n mrows mcols ab(0: m only | 1: a,b | 3: UE14/E12 style a | 4: wrong a dimensions) mnull (read, unused: the
	     * measurement matrix is a required argument) */
	    int mr = geti(), mc = geti(), ab = geti(), mnull = geti(); int rc = -1;
	    (void)mnull;
	    mat_t m = mat_alloc(mr, mc, F);
	    int ar = (ab == 1) ? mc : 0, ac = (ab == 1) ? mc : 0;
	    int ue14a = 0;
	    if (ab == 3) { ar = 1; ac = mc; ue14a = 1; }		/* UE14 style: row vector of 1x1 */
	    if (ab == 4) { ar = mc + 1; ac = mc; }			/* wrong a dimensions */
	    mat_t a = mat_alloc(ar, ac, F);
	    for (int i = 0; i < a.cells; ++i) for (int f = 0; f < F; ++f) a.v[i][f] = ue14a ? 1.0 : ((ac > 0 && i / ac == i % ac) ? 1.0 : 0.0);
	    double complex **mp = m.v;
	    int full = (mr == R && mc == Cn);
	    if (!strcmp(op, "nsr")) {
		int s11 = geti(), port = geti(); double re = getd(), im = getd();
		if (full) mat_set(m, mr, mc, port - 1, port - 1, F, re + I * im); else mat_set(m, mr, mc, 0, 0, F, re + I * im);
		if (ab == 0) LIB(rc = vnacal_new_add_single_reflect_m(v, mp, mr, mc, s11, port));
		else LIB(rc = vnacal_new_add_single_reflect(v, a.v, ar, ac, mp, mr, mc, s11, port));
	    } else if (!strcmp(op, "ndr")) {
		int s11 = geti(), s22 = geti(), p1 = geti(), p2 = geti(); double g1r = getd(), g1i = getd(), g2r = getd(), g2i = getd();
		int lo = p1 < p2 ? 0 : 1;
		if (full) { mat_set(m, mr, mc, p1 - 1, p1 - 1, F, g1r + I * g1i); mat_set(m, mr, mc, p2 - 1, p2 - 1, F, g2r + I * g2i); }
		else { mat_set(m, mr, mc, lo, lo, F, g1r + I * g1i); mat_set(m, mr, mc, 1 - lo, 1 - lo, F, g2r + I * g2i); }
		if (ab == 0) LIB(rc = vnacal_new_add_double_reflect_m(v, mp, mr, mc, s11, s22, p1, p2));
		else LIB(rc = vnacal_new_add_double_reflect(v, a.v, ar, ac, mp, mr, mc, s11, s22, p1, p2));
	    } else if (!strcmp(op, "nthru")) {
		int p1 = geti(), p2 = geti();
		if (full) { mat_set(m, mr, mc, p1 - 1, p2 - 1, F, 1.0); mat_set(m, mr, mc, p2 - 1, p1 - 1, F, 1.0); }
		else { mat_set(m, mr, mc, 0, 1, F, 1.0); mat_set(m, mr, mc, 1, 0, F, 1.0); }
		if (ab == 0) LIB(rc = vnacal_new_add_through_m(v, mp, mr, mc, p1, p2));
		else LIB(rc = vnacal_new_add_through(v, a.v, ar, ac, mp, mr, mc, p1, p2));
	    } else if (!strcmp(op, "nline")) {
		int s[4]; int snull; for (int i = 0; i < 4; ++i) s[i] = geti();
		int p1 = geti(), p2 = geti(); snull = geti(); (void)snull;	/* snull: read, unused (the s vector is required) */
		double g[4]; for (int i = 0; i < 4; ++i) g[i] = getd();
		int lo = p1 < p2 ? 0 : 1;
		if (full) { mat_set(m, mr, mc, p1 - 1, p1 - 1, F, g[0]); mat_set(m, mr, mc, p1 - 1, p2 - 1, F, g[1]); mat_set(m, mr, mc, p2 - 1, p1 - 1, F, g[2]); mat_set(m, mr, mc, p2 - 1, p2 - 1, F, g[3]); }
		else { mat_set(m, mr, mc, lo, lo, F, g[0]); mat_set(m, mr, mc, lo, 1 - lo, F, g[1]); mat_set(m, mr, mc, 1 - lo, lo, F, g[2]); mat_set(m, mr, mc, 1 - lo, 1 - lo, F, g[3]); }
		if (ab == 0) LIB(rc = vnacal_new_add_line_m(v, mp, mr, mc, s, p1, p2));
		else LIB(rc = vnacal_new_add_line(v, a.v, ar, ac, mp, mr, mc, s, p1, p2));
	    } else {
		/* nmm ... srows scols havemap  then srows*scols (capped) parameter ints, then ports ints when havemap, then values for the S cells */
		/* the arrays handed to the library always have the declared srows*scols / max(srows, scols) entries (entries beyond
		 * the capped script tokens are 0), so that a large dimension in a script is an invalid argument, not a short array */
		int sr = geti(), sc = geti(), havemap = geti();
		long rcells = (sr > 0 && sc > 0) ? (long)sr * (long)sc : 0;
		long rsp = sr > sc ? sr : sc; if (rsp < 0) rsp = 0;
		if (rcells > (1L << 20) || rsp > (1L << 20)) { mat_free(m); mat_free(a); r_skip(); return; }
		int scells = rcells > 36 ? 36 : (int)rcells;
		int sp = rsp > 8 ? 8 : (int)rsp;
		int *s = calloc((size_t)rcells + 1, sizeof(int)), *pm = calloc((size_t)rsp + 1, sizeof(int));
		for (int i = 0; i < scells; ++i) s[i] = geti();
		if (havemap) for (int i = 0; i < sp; ++i) pm[i] = geti();
		for (int i = 0; i < scells; ++i) {
		    double val = getd();
		    int r0 = i / sc, c0 = i % sc;
		    if (havemap && full) mat_set(m, mr, mc, pm[r0] - 1, pm[c0] - 1, F, val); else mat_set(m, mr, mc, r0, c0, F, val);
		}
		if (ab == 0) LIB(rc = vnacal_new_add_mapped_matrix_m(v, mp, mr, mc, s, sr, sc, havemap ? pm : NULL));
		else LIB(rc = vnacal_new_add_mapped_matrix(v, a.v, ar, ac, mp, mr, mc, s, sr, sc, havemap ? pm : NULL));
		free(s); free(pm);
	    }
	    mat_free(m); mat_free(a); r_int(rc, rc == -1);
	}
	else r_skip();
	return;
    }
    /* ============================================================== text slots */
    if (!strcmp(op, "tset")) { int t = geti(); char *s = gets_(); if (!slot_ok(t, NT) || !s) { r_skip(); return; } free_text(t); T[t].buf = strdup(s); T[t].len = strlen(s); r_int(0, false); return; }
    r_skip();
}

/* root of the property tree the op under test works on: a tree slot, or the properties of a vnacal_t / one of its calibrations */
static const vnaproperty_t *target_root(const char *op, int slot)
{
    if (op[0] == 'p') return P[slot];
    vnaproperty_t *r = NULL;
    int ci = (int)strtol(toks[2], NULL, 10);
    LIB(r = vnacal_property_get_subtree(C[slot], ci, "."));
    return r;
}

/* per-op watchdog: an op that burns more than OP_CPU_SECONDS of processor time (endless loop / unbounded recursion) ends the
 * process with SIGPROF (default action), which lib/mem_gen.py reports as a timeout of that op; processor time, not wall time,
 * so that a loaded machine cannot raise a false alarm */
#define OP_CPU_SECONDS 4
static void watchdog(int seconds)
{
    struct itimerval it;
    memset(&it, 0, sizeof it);
    it.it_value.tv_sec = seconds;
    (void)setitimer(ITIMER_PROF, &it, NULL);
}

int main(int argc, char **argv)
{
    if (argc < 3) { fprintf(stderr, "usage: mem_harness script workdir [k opindex [norepeat]]\n"); return 2; }
    FILE *fp = fopen(argv[1], "r");
    if (fp == NULL) { perror(argv[1]); return 2; }
    workdir = argv[2];
    long k = argc >= 5 ? strtol(argv[3], NULL, 10) : 0;
    long target = argc >= 5 ? strtol(argv[4], NULL, 10) : -1;
    bool norepeat = argc >= 6 && strtol(argv[5], NULL, 10) != 0;	/* the failed call is NOT repeated: the rest of the history sees what it left */
    long idx = 0;
    static char keep[8192];
    setvbuf(stdout, NULL, _IOLBF, 0);
    while (fgets(linebuf, sizeof linebuf, fp) != NULL) {
	size_t L = strlen(linebuf);
	while (L > 0 && (linebuf[L - 1] == '\n' || linebuf[L - 1] == '\r')) linebuf[--L] = 0;
	if (L == 0 || linebuf[0] == '#') continue;
	memcpy(keep, linebuf, L + 1);
	for (int pass = 0; pass < 2; ++pass) {
	    if (pass == 1) memcpy(linebuf, keep, L + 1);
	    ntok = 0; tpos = 0;
	    for (char *q = strtok(linebuf, " "); q != NULL && ntok < 64; q = strtok(NULL, " ")) toks[ntok++] = q;
	    if (ntok == 0) break;
	    const char *op = tok();
	    /* op under test on a property tree: its state before the call (S0) and, below, after the failed call (S1) */
	    int pslot = (idx == target && (op[0] == 'p' || !strncmp(op, "cpset", 5)) && ntok >= 2) ? (int)strtol(toks[1], NULL, 10) : -1;
	    if (pslot < 0 || pslot >= (op[0] == 'p' ? NP : NC) || (op[0] == 'c' && (C[pslot] == NULL || ntok < 3))) pslot = -1;
	    if (pslot >= 0 && pass == 0) prop_dump_line("S0", idx, target_root(op, pslot));
	    cb_count = 0;
	    verif_alloc_reset((idx == target && pass == 0) ? k : 0);
	    watchdog(OP_CPU_SECONDS);
	    errno = 0;
	    do_op(op);
	    int e = errno;
	    watchdog(0);
	    long injected = verif_failed;
	    long da = verif_alloc_count;
	    printf("%s%ld %s ret=%s errno=%s cb=%d da=%ld live=%ld", pass ? "R " : "", idx, op, rbuf, errno_class(e), cb_count, da, verif_live_blocks());
	    if (vbuf[0]) printf(" val=%s", vbuf);
	    printf("\n");
	    if (idx == target && pass == 0) {
		printf("F %ld injected=%ld failed=%d\n", idx, injected, op_failed ? 1 : 0);
		if (injected && op_failed && !norepeat) {	/* repeat without the fault */
		    bool keep_failed = op_failed;
		    if (pslot >= 0) prop_dump_line("S1", idx, target_root(op, pslot));
		    op_failed = keep_failed;
		    continue;
		}
	    }
	    break;
	}
	++idx;
    }
    fclose(fp);
    /* release everything with the matching free functions */
    verif_alloc_reset(0);
    for (int i = 0; i < NN; ++i) if (N[i].p != NULL) { LIB(vnacal_new_free(N[i].p)); N[i].p = NULL; }
    for (int i = 0; i < NC; ++i) if (C[i] != NULL) { LIB(vnacal_free(C[i])); C[i] = NULL; }
    for (int i = 0; i < ND; ++i) if (D[i] != NULL) { LIB(vnadata_free(D[i])); D[i] = NULL; }
    for (int i = 0; i < NP; ++i) if (P[i] != NULL) { LIB((void)vnaproperty_delete(&P[i], ".")); }
    for (int i = 0; i < NT; ++i) free_text(i);
    printf("END live=%ld\n", verif_live_blocks());
    return 0;
}
