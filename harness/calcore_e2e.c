/*
 * calcore_e2e: script-driven driver for the calibration core (properties C01, C17).
 *
 * Reads a whitespace-separated command script from stdin, calls the public vnacal API
 * (vnacal_create, vnacal_make_*_parameter, vnacal_new_alloc, vnacal_new_add_*,
 * vnacal_new_solve, vnacal_add_calibration, vnacal_apply, vnacal_apply_m) and prints one
 * result line per command.  White-box commands (dump, terms, hash) read the internal
 * structures through vnacal_new_internal.h of the working tree.  Numbers are read with
 * strtod (hexadecimal floating point accepted) and printed with %a: nothing is rounded on
 * the way in or out.
 *
 * Commands
 *   new ID TYPE ROWS COLS F f0 .. f(F-1)          vnacal_new_alloc + set_frequency_vector
 *   scalar PID re im                              vnacal_make_scalar_parameter
 *   vector PID N f0.. re0 im0 ..                  vnacal_make_vector_parameter
 *   add ID FN FORM AR AC BR BC [A] B SARGS        FN in sr dr th ln mm, FORM in m ab
 *        A: AR*AC cells of F complex values (only when FORM = ab), B: BR*BC cells
 *        SARGS  sr: P port | dr: P1 P2 port1 port2 | th: port1 port2
 *               ln: P11 P12 P21 P22 port1 port2
 *               mm: SR SC P.. MAPFLAG [ports (max(SR,SC))]   MAPFLAG 0 = NULL port map
 *        P: Z (VNACAL_ZERO/MATCH), O (VNACAL_ONE/OPEN), S (VNACAL_SHORT), pN (PID N), iN (raw int N)
 *   solve ID | addcal ID NAME | free ID
 *   apply NAME FORM F f.. AR AC BR BC [A] B       vnacal_apply / vnacal_apply_m (index from vnacal_find_calibration)
 *   applyi REF FORM F f.. AR AC BR BC [A] B       the same through a calibration index the script obtained earlier:
 *                                                 REF = rK (value returned by the K-th addcal command, K from 0) or
 *                                                 a plain integer
 *   delcal REF                                    vnacal_delete_calibration
 *   terms NAME                                    saved error terms (cal_error_term_vector)
 *   dump ID                                       structural dump (DESIGN.md appendix A.4); for a measurement
 *                                                 whose stored M values at frequency 0 are all small positive
 *                                                 integers (cells of the B matrix tagged 1, 2, .. by the script)
 *                                                 a line "B idx map=cell:tag,.." shows which cell of the caller's
 *                                                 matrix went to which cell of vnm_m_matrix
 *   hash ID                                       parameter hash count, unknown count
 *   live                                          live blocks allocated by the library (allocwrap)
 *   merror ID sigma_nf sigma_tr                   vnacal_new_set_m_error (single value)
 *   pvalue PID f                                  vnacal_get_parameter_value
 */
#ifndef CALCORE_NO_ARCHDEP
#include "archdep.h"
#endif
#include <assert.h>
#include <complex.h>
#include <errno.h>
#include <math.h>
#include <stdbool.h>
#include <stdio.h>
#include <stdlib.h>
#include <string.h>
#include "vnacal_new_internal.h"

#ifdef CALCORE_WRAP
extern void verif_alloc_track(int on);
extern long verif_live_blocks(void);
#define TRACK(x) verif_alloc_track(x)
#else
#define TRACK(x) ((void)0)
#endif

#define MAXSLOT 16
#define MAXPARAM 1024

static char *buf;
static size_t pos, len;
static int ncallbacks;
static int last_category = -1;

static void errfn(const char *msg, void *arg, vnaerr_category_t category)
{
    (void)msg; (void)arg;
    ++ncallbacks;
    last_category = (int)category;
}

static char *tok(void)
{
    while (pos < len && (buf[pos] == ' ' || buf[pos] == '\n' || buf[pos] == '\t' || buf[pos] == '\r'))
	++pos;
    if (pos >= len)
	return NULL;
    char *s = &buf[pos];
    while (pos < len && !(buf[pos] == ' ' || buf[pos] == '\n' || buf[pos] == '\t' || buf[pos] == '\r'))
	++pos;
    if (pos < len)
	buf[pos++] = '\0';
    return s;
}
static char *need(void)
{
    char *s = tok();
    if (s == NULL) { printf("SCRIPT-ERROR short\n"); exit(3); }
    return s;
}
static int geti(void) { return (int)strtol(need(), NULL, 10); }
static double getd(void) { return strtod(need(), NULL); }
static double complex getc_(void) { double a = getd(); double b = getd(); return a + I * b; }

static const char *eclass(int e)
{
    switch (e) {
    case 0: return "0";
    case EINVAL: return "EINVAL";
    case EDOM: return "EDOM";
    case ENOMEM: return "ENOMEM";
    case ENOENT: return "ENOENT";
    case EBADMSG: return "EBADMSG";
    default: return "OTHER";
    }
}

static vnacal_t *vcp;
static vnacal_new_t *slot[MAXSLOT];
static int slot_F[MAXSLOT];
static int params[MAXPARAM];

#define MAXADDCAL 64
static int addcal_result[MAXADDCAL];
static int naddcal;

/* calibration index reference: rK = result of the K-th addcal command, or a plain integer */
static int getref(void)
{
    char *s = need();
    if (s[0] == 'r') {
	int k = atoi(s + 1);
	if (k < 0 || k >= naddcal) { printf("SCRIPT-ERROR ref %s\n", s); exit(3); }
	return addcal_result[k];
    }
    return atoi(s);
}

static int getp(void)
{
    char *s = need();
    if (strcmp(s, "Z") == 0) return VNACAL_ZERO;
    if (strcmp(s, "O") == 0) return VNACAL_ONE;
    if (strcmp(s, "S") == 0) return VNACAL_SHORT;
    if (s[0] == 'p') return params[atoi(s + 1)];
    if (s[0] == 'i') return atoi(s + 1);
    printf("SCRIPT-ERROR param %s\n", s); exit(3);
}

/* read a matrix of cells x F complex values; returns vector of pointers */
static double complex **read_matrix(int cells, int F)
{
    double complex **m = calloc(cells > 0 ? cells : 1, sizeof(*m));
    for (int i = 0; i < cells; ++i) {
	m[i] = calloc(F > 0 ? F : 1, sizeof(double complex));
	for (int f = 0; f < F; ++f)
	    m[i][f] = getc_();
    }
    return m;
}
static void free_matrix(double complex **m, int cells)
{
    if (m == NULL) return;
    for (int i = 0; i < cells; ++i) free(m[i]);
    free(m);
}

static int slot_F_of(const vnacal_new_t *vnp) { return vnp->vn_frequencies; }

static void dump(vnacal_new_t *vnp)
{
    const vnacal_layout_t *vlp = &vnp->vn_layout;
    const int mr = VL_M_ROWS(vlp), mc = VL_M_COLUMNS(vlp);
    const int sr = VL_S_ROWS(vlp), sc = VL_S_COLUMNS(vlp);
    const int sp = MAX(sr, sc);

    printf("dump type=%d rows=%d cols=%d systems=%d measurements=%d equations=%d max_equations=%d\n",
	    (int)VL_TYPE(vlp), mr, mc, vnp->vn_systems, vnp->vn_measurement_count,
	    vnp->vn_equations, vnp->vn_max_equations);
    for (vnacal_new_measurement_t *vnmp = vnp->vn_measurement_list; vnmp != NULL; vnmp = vnmp->vnm_next) {
	printf("M %d cells=", vnmp->vnm_index);
	for (int i = 0; i < mr * mc; ++i)
	    if (vnmp->vnm_m_matrix[i] != NULL)
		printf("%d,", i);
	printf("\n");
	/* B cell -> M cell map, readable when the script tagged the cells of its matrix (m form, or a = identity) */
	{
	    bool tagged = slot_F_of(vnp) > 0;
	    for (int i = 0; tagged && i < mr * mc; ++i) {
		if (vnmp->vnm_m_matrix[i] != NULL) {
		    double complex v = vnmp->vnm_m_matrix[i][0];
		    if (cimag(v) != 0.0 || creal(v) < 1.0 || creal(v) > 65535.0 || creal(v) != floor(creal(v)))
			tagged = false;
		}
	    }
	    if (tagged) {
		printf("B %d map=", vnmp->vnm_index);
		for (int i = 0; i < mr * mc; ++i)
		    if (vnmp->vnm_m_matrix[i] != NULL)
			printf("%d:%d,", i, (int)creal(vnmp->vnm_m_matrix[i][0]));
		printf("\n");
	    }
	}
	printf("S");
	for (int i = 0; i < sr * sc; ++i) {
	    vnacal_new_parameter_t *p = vnmp->vnm_s_matrix[i];
	    if (p == NULL) printf(" %d:-", i);
	    else if (p == vnp->vn_zero) printf(" %d:Z", i);
	    else printf(" %d:%d", i, p->vnpr_parameter->vpmr_index);
	}
	printf("\nC ");
	if (vnmp->vnm_connectivity_matrix == NULL) printf("-");
	else for (int i = 0; i < sp * sp; ++i) printf("%d", vnmp->vnm_connectivity_matrix[i] ? 1 : 0);
	printf("\n");
    }
    for (int sys = 0; sys < vnp->vn_systems; ++sys) {
	vnacal_new_system_t *vnsp = &vnp->vn_system_vector[sys];
	int n = 0;
	for (vnacal_new_equation_t *e = vnsp->vns_equation_list; e != NULL; e = e->vne_next) {
	    vnacal_new_term_t *nv = e->vne_term_list_no_v;
	    printf("E %d %d %d %d\n", sys, e->vne_vnmp->vnm_index, e->vne_row, e->vne_column);
	    for (vnacal_new_term_t *t = e->vne_term_list; t != NULL; t = t->vnt_next) {
		int nov = 0;
		if (nv == t) { nov = 1; nv = nv->vnt_next_no_v; }
		printf("T %d %d %d %d %d %d\n", t->vnt_xindex, t->vnt_negative ? 1 : 0,
			t->vnt_m_cell, t->vnt_s_cell, t->vnt_v_cell, nov);
	    }
	    if (nv != NULL) printf("T-NOV-THREAD-MISMATCH\n");
	    ++n;
	}
	printf("Y %d count=%d walked=%d\n", sys, vnsp->vns_equation_count, n);
    }
    printf("enddump\n");
}

int main(void)
{
    size_t cap = 1 << 20;
    buf = malloc(cap);
    for (;;) {
	size_t n = fread(buf + len, 1, cap - len, stdin);
	len += n;
	if (n == 0) break;
	if (len == cap) { cap *= 2; buf = realloc(buf, cap); }
    }
    TRACK(1);
    vcp = vnacal_create(errfn, NULL);
    TRACK(0);
    if (vcp == NULL) { printf("create failed\n"); return 2; }

    char *cmd;
    while ((cmd = tok()) != NULL) {
	ncallbacks = 0;
	errno = 0;
	if (strcmp(cmd, "new") == 0) {
	    int id = geti(), type = geti(), rows = geti(), cols = geti(), F = geti();
	    double fv[F > 0 ? F : 1];
	    for (int i = 0; i < F; ++i) fv[i] = getd();
	    TRACK(1);
	    slot[id] = vnacal_new_alloc(vcp, (vnacal_type_t)type, rows, cols, F);
	    int e = errno, rc = -2;
	    if (slot[id] != NULL) { errno = 0; rc = vnacal_new_set_frequency_vector(slot[id], fv); e = errno; }
	    TRACK(0);
	    slot_F[id] = F;
	    printf("new %d %s rc=%d errno=%s cb=%d\n", id, slot[id] ? "ok" : "null", rc, eclass(rc == 0 ? 0 : e), ncallbacks);
	} else if (strcmp(cmd, "scalar") == 0) {
	    int pid = geti(); double complex g = getc_();
	    TRACK(1);
	    params[pid] = vnacal_make_scalar_parameter(vcp, g);
	    TRACK(0);
	    printf("scalar %d h=%d\n", pid, params[pid]);
	} else if (strcmp(cmd, "vector") == 0) {
	    int pid = geti(), n = geti();
	    double fv[n > 0 ? n : 1]; double complex gv[n > 0 ? n : 1];
	    for (int i = 0; i < n; ++i) fv[i] = getd();
	    for (int i = 0; i < n; ++i) gv[i] = getc_();
	    TRACK(1);
	    params[pid] = vnacal_make_vector_parameter(vcp, fv, n, gv);
	    TRACK(0);
	    printf("vector %d h=%d\n", pid, params[pid]);
	} else if (strcmp(cmd, "pvalue") == 0) {
	    int pid = geti(); double f = getd();
	    TRACK(1);
	    double complex v = vnacal_get_parameter_value(vcp, params[pid], f);
	    TRACK(0);
	    printf("pvalue %d %a %a\n", pid, creal(v), cimag(v));
	} else if (strcmp(cmd, "merror") == 0) {
	    int id = geti(); double nf = getd(), tr = getd();
	    TRACK(1);
	    int rc = vnacal_new_set_m_error(slot[id], NULL, 1, &nf, &tr);
	    TRACK(0);
	    printf("merror rc=%d\n", rc);
	} else if (strcmp(cmd, "add") == 0) {
	    int id = geti();
	    char *fn = need(); char *form = need();
	    int ar = geti(), ac = geti(), br = geti(), bc = geti();
	    int F = slot_F[id];
	    bool ab = strcmp(form, "ab") == 0;
	    double complex **a = ab ? read_matrix(ar * ac, F) : NULL;
	    double complex **b = read_matrix(br * bc, F);
	    vnacal_new_t *vnp = slot[id];
	    int rc = -9;
	    if (strcmp(fn, "sr") == 0) {
		int p = getp(), port = geti();
		TRACK(1);
		rc = ab ? vnacal_new_add_single_reflect(vnp, a, ar, ac, b, br, bc, p, port)
			: vnacal_new_add_single_reflect_m(vnp, b, br, bc, p, port);
		TRACK(0);
	    } else if (strcmp(fn, "dr") == 0) {
		int p1 = getp(), p2 = getp(), port1 = geti(), port2 = geti();
		TRACK(1);
		rc = ab ? vnacal_new_add_double_reflect(vnp, a, ar, ac, b, br, bc, p1, p2, port1, port2)
			: vnacal_new_add_double_reflect_m(vnp, b, br, bc, p1, p2, port1, port2);
		TRACK(0);
	    } else if (strcmp(fn, "th") == 0) {
		int port1 = geti(), port2 = geti();
		TRACK(1);
		rc = ab ? vnacal_new_add_through(vnp, a, ar, ac, b, br, bc, port1, port2)
			: vnacal_new_add_through_m(vnp, b, br, bc, port1, port2);
		TRACK(0);
	    } else if (strcmp(fn, "ln") == 0) {
		int s[4];
		for (int i = 0; i < 4; ++i) s[i] = getp();
		int port1 = geti(), port2 = geti();
		TRACK(1);
		rc = ab ? vnacal_new_add_line(vnp, a, ar, ac, b, br, bc, s, port1, port2)
			: vnacal_new_add_line_m(vnp, b, br, bc, s, port1, port2);
		TRACK(0);
	    } else if (strcmp(fn, "mm") == 0) {
		int sr = geti(), sc = geti();
		int n = sr * sc;
		int s[n > 0 ? n : 1];
		for (int i = 0; i < n; ++i) s[i] = getp();
		int flag = geti();
		int np = MAX(sr, sc);
		int map[np > 0 ? np : 1];
		if (flag) for (int i = 0; i < np; ++i) map[i] = geti();
		TRACK(1);
		rc = ab ? vnacal_new_add_mapped_matrix(vnp, a, ar, ac, b, br, bc, s, sr, sc, flag ? map : NULL)
			: vnacal_new_add_mapped_matrix_m(vnp, b, br, bc, s, sr, sc, flag ? map : NULL);
		TRACK(0);
	    } else {
		printf("SCRIPT-ERROR fn %s\n", fn); exit(3);
	    }
	    int e = errno;
	    printf("add rc=%d errno=%s cb=%d cat=%d\n", rc, eclass(rc == 0 ? 0 : e), ncallbacks, rc == 0 ? -1 : last_category);
	    free_matrix(a, ar * ac);
	    free_matrix(b, br * bc);
	} else if (strcmp(cmd, "solve") == 0) {
	    int id = geti();
	    TRACK(1);
	    int rc = vnacal_new_solve(slot[id]);
	    int e = errno;
	    TRACK(0);
	    printf("solve rc=%d errno=%s cb=%d\n", rc, eclass(rc == 0 ? 0 : e), ncallbacks);
	} else if (strcmp(cmd, "addcal") == 0) {
	    int id = geti(); char *name = need();
	    TRACK(1);
	    int rc = vnacal_add_calibration(vcp, name, slot[id]);
	    int ci = vnacal_find_calibration(vcp, name);
	    TRACK(0);
	    if (naddcal < MAXADDCAL) addcal_result[naddcal++] = rc;
	    printf("addcal rc=%d ci=%d\n", rc, ci);
	} else if (strcmp(cmd, "delcal") == 0) {
	    int ci = getref();
	    TRACK(1);
	    int rc = vnacal_delete_calibration(vcp, ci);
	    int e = errno;
	    TRACK(0);
	    printf("delcal ci=%d rc=%d errno=%s cb=%d\n", ci, rc, eclass(rc == 0 ? 0 : e), ncallbacks);
	} else if (strcmp(cmd, "free") == 0) {
	    int id = geti();
	    TRACK(1);
	    vnacal_new_free(slot[id]);
	    TRACK(0);
	    slot[id] = NULL;
	    printf("free %d\n", id);
	} else if (strcmp(cmd, "apply") == 0 || strcmp(cmd, "applyi") == 0) {
	    const bool by_index = strcmp(cmd, "applyi") == 0;
	    int ci_given = by_index ? getref() : -1;
	    char *name = by_index ? NULL : need(); char *form = need();
	    int F = geti();
	    double fv[F > 0 ? F : 1];
	    for (int i = 0; i < F; ++i) fv[i] = getd();
	    int ar = geti(), ac = geti(), br = geti(), bc = geti();
	    bool ab = strcmp(form, "ab") == 0;
	    double complex **a = ab ? read_matrix(ar * ac, F) : NULL;
	    double complex **b = read_matrix(br * bc, F);
	    vnadata_t *vdp = vnadata_alloc(NULL, NULL);
	    TRACK(1);
	    int ci = by_index ? ci_given : vnacal_find_calibration(vcp, name);
	    errno = 0;
	    int rc = ab ? vnacal_apply(vcp, ci, fv, F, a, ar, ac, b, br, bc, vdp)
			: vnacal_apply_m(vcp, ci, fv, F, b, br, bc, vdp);
	    int e = errno;
	    TRACK(0);
	    if (by_index)
		printf("applyi ci=%d rc=%d errno=%s cb=%d", ci, rc, eclass(rc == 0 ? 0 : e), ncallbacks);
	    else
		printf("apply rc=%d errno=%s cb=%d", rc, eclass(rc == 0 ? 0 : e), ncallbacks);
	    if (rc == 0) {
		int rows = vnadata_get_rows(vdp), cols = vnadata_get_columns(vdp), nf = vnadata_get_frequencies(vdp);
		printf(" rows=%d cols=%d F=%d\n", rows, cols, nf);
		for (int f = 0; f < nf; ++f) {
		    printf("S %d", f);
		    for (int r = 0; r < rows; ++r)
			for (int c = 0; c < cols; ++c) {
			    double complex v = vnadata_get_cell(vdp, f, r, c);
			    printf(" %a %a", creal(v), cimag(v));
			}
		    printf("\n");
		}
	    } else {
		printf("\n");
	    }
	    vnadata_free(vdp);
	    free_matrix(a, ar * ac);
	    free_matrix(b, br * bc);
	} else if (strcmp(cmd, "terms") == 0) {
	    char *name = need();
	    int ci = vnacal_find_calibration(vcp, name);
	    vnacal_calibration_t *calp = ci >= 0 ? _vnacal_get_calibration(vcp, ci) : NULL;
	    if (calp == NULL) { printf("terms none\n"); continue; }
	    printf("terms type=%d rows=%d cols=%d F=%d n=%d\n", (int)calp->cal_type, calp->cal_rows,
		    calp->cal_columns, calp->cal_frequencies, calp->cal_error_terms);
	    for (int f = 0; f < calp->cal_frequencies; ++f) {
		printf("E %d", f);
		for (int t = 0; t < calp->cal_error_terms; ++t)
		    printf(" %a %a", creal(calp->cal_error_term_vector[t][f]), cimag(calp->cal_error_term_vector[t][f]));
		printf("\n");
	    }
	} else if (strcmp(cmd, "dump") == 0) {
	    int id = geti();
	    dump(slot[id]);
	} else if (strcmp(cmd, "hash") == 0) {
	    int id = geti();
	    printf("hash count=%d unknown=%d measurements=%d equations=%d\n", slot[id]->vn_parameter_hash.vnph_count,
		    slot[id]->vn_unknown_parameters, slot[id]->vn_measurement_count, slot[id]->vn_equations);
	} else if (strcmp(cmd, "live") == 0) {
#ifdef CALCORE_WRAP
	    printf("live %ld\n", verif_live_blocks());
#else
	    printf("live -1\n");
#endif
	} else {
	    printf("SCRIPT-ERROR cmd %s\n", cmd);
	    exit(3);
	}
    }
    fflush(stdout);
    return 0;
}
