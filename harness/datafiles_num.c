/*
 * White-box tie for coq/Files/NumFmtModel.v: #includes vnadata_save.c to reach the static
 * print_value.  Input lines: PRECISION PLUS PAD VALUE (VALUE read by strtod).  Output per line:
 * PLUS = 2: the angle text at maximum precision, fprintf("%+a") (used by the saver-model tie).
 *   E <text of sprintf("%.*e", precision - 1, value)> | <bytes print_value wrote, in hex>
 */
#include "vnadata_save.c"

int main(void)
{
    int precision, plus, pad;
    char vbuf[128];

    while (scanf("%d %d %d %127s", &precision, &plus, &pad, vbuf) == 4) {
	double value = strtod(vbuf, NULL);
	char *buf = NULL;
	size_t len = 0;
	FILE *fp = open_memstream(&buf, &len);
	char ebuf[1200];

	if (plus == 2)
	    fprintf(fp, "%+a", value);
	else
	    print_value(fp, precision, plus != 0, pad != 0, value);
	fclose(fp);
	snprintf(ebuf, sizeof(ebuf), "%.*e", (precision < 1 ? 1 : precision) - 1, value);
	printf("E %s |", ebuf);
	for (size_t i = 0; i < len; ++i)
	    printf(" %02x", (unsigned char)buf[i]);
	printf("\n");
	free(buf);
    }
    return 0;
}
