/*
 * C20 harness: add/solve histories through the real vnacal_new API, with a white-box view of
 * the equation and unknown counters (vnacal_new_internal.h).
 *
 * Input: one operation per line (tokens separated by blanks)
 *   pget K                    value of parameter slot K at the calibration frequencies
 *   vpar K N f.. re im ..     slot K = vnacal_make_vector_parameter (table of N points)
 *   new TYPE R C F            start a scenario (frees the previous one); F frequencies 1e9, 2e9, ...
 *   nofreq TYPE R C F         same but vnacal_new_set_frequency_vector is not called
 *   par K re im               scalar parameter in slot K (slots 0,1,2 = VNACAL_ZERO/ONE(OPEN)/SHORT)
 *   unk K G                   unknown parameter in slot K, initial guess slot G
 *   cor K O sigma             correlated parameter in slot K, correlated with slot O
 *   merr sigma|off            vnacal_new_set_m_error (one sigma for all frequencies) / reset
 *   add r1 BR BC s11 port  <BR*BC complex>
 *   add r2 BR BC s11 s22 p1 p2 <...>
 *   add th BR BC p1 p2 <...>
 *   add ln BR BC s11 s12 s21 s22 p1 p2 <...>
 *   add mm BR BC SR SC <SR*SC slots> NMAP <NMAP ports> <...>        NMAP = 0: NULL port map
 *   solve                     vnacal_new_solve; the line also reports the TRL dispatch test, the number of
 *                             allocation requests of the call and, for every entry of
 *                             vn_unknown_parameter_list in order, slot:vpmr_frequencies:gamma-vector-present
 *                             (pv=) and whether its vectors are bitwise what they were before the call (pvsame=)
 *   solvefail N               the same with the N-th allocation request of the call failing (allocwrap)
 *   terms                     print the error terms of vnp->vn_calibration
 *   apply <P*P complex>       vnacal_add_calibration + vnacal_apply_m + vnacal_delete_calibration
 *   end                       free the scenario, report live blocks
 * complex = two C99 hex (or decimal) floats.
 *
 * Output: one line per operation (see the printf calls).
 */
#include "archdep.h"

#include <assert.h>
#include <complex.h>
#include <errno.h>
#include <math.h>
#include <stdbool.h>
#include <stdint.h>
#include <stdio.h>
#include <stdlib.h>
#include <string.h>
#include "vnacal_new_internal.h"

extern void verif_alloc_track(int on);
extern long verif_live_blocks(void);
extern void verif_alloc_reset(long fail_at);
extern long verif_alloc_count;
extern long verif_failed;

#define MAXTOK 4096
static char *tok[MAXTOK];
static int ntok, ptok;
static char line[1 << 16];

static const char *next(void)
{
    if (ptok >= ntok) {
	fprintf(stderr, "harness: short line\n");
	exit(3);
    }
    return tok[ptok++];
}
static int nexti(void) { return atoi(next()); }
static double nextd(void) { return strtod(next(), NULL); }
static double complex nextc(void) { double a = nextd(); double b = nextd(); return a + I * b; }

static int callbacks;
static int last_category;
static void error_fn(const char *message, void *arg, vnaerr_category_t category)
{
    ++callbacks;
    last_category = (int)category;
    if (getenv("SOLVECOUNT_VERBOSE") != NULL)
	fprintf(stderr, "libvna: %s\n", message);
}

static const char *ename(int e)
{
    switch (e) {
    case 0: return "0";
    case EDOM: return "EDOM";
    case EINVAL: return "EINVAL";
    case ENOMEM: return "ENOMEM";
    default: return "OTHER";
    }
}

/*
 * The harness never clears errno before a library call.  On the contrary it plants a stale value:
 * alternately EDOM (what an earlier failed solve leaves behind) and ENOENT (so that a failure that
 * forgets to set errno is still visible as "OTHER").
 */
static int stale_errno(void)
{
    static unsigned n;
    return (n++ & 1) ? ENOENT : EDOM;
}

static vnacal_t *vcp;
static vnacal_new_t *vnp;
static int slots[256];
static int cur_f, cur_r, cur_c;
static double fvec[8];

static uint64_t fnv(uint64_t h, const void *p, size_t n)
{
    const unsigned char *c = p;
    for (size_t i = 0; i < n; ++i) { h ^= c[i]; h *= 1099511628211ULL; }
    return h;
}
static uint64_t fnvi(uint64_t h, int v) { return fnv(h, &v, sizeof(v)); }

/* digest of everything a later solve reads: measurements, S handles, equations and their terms */
static uint64_t state_digest(void)
{
    uint64_t h = 1469598103934665603ULL;
    const vnacal_layout_t *vlp = &vnp->vn_layout;
    int mcells = VL_M_ROWS(vlp) * VL_M_COLUMNS(vlp);
    int scells = VL_S_ROWS(vlp) * VL_S_COLUMNS(vlp);
    h = fnvi(h, vnp->vn_measurement_count);
    h = fnvi(h, vnp->vn_equations);
    h = fnvi(h, vnp->vn_max_equations);
    h = fnvi(h, vnp->vn_unknown_parameters);
    h = fnvi(h, vnp->vn_correlated_parameters);
    h = fnvi(h, vnp->vn_m_error_vector != NULL);
    for (vnacal_new_measurement_t *m = vnp->vn_measurement_list; m != NULL; m = m->vnm_next) {
	h = fnvi(h, m->vnm_index);
	for (int i = 0; i < mcells; ++i) {
	    h = fnvi(h, m->vnm_m_matrix[i] != NULL);
	    if (m->vnm_m_matrix[i] != NULL)
		h = fnv(h, m->vnm_m_matrix[i], vnp->vn_frequencies * sizeof(double complex));
	}
	for (int i = 0; i < scells; ++i) {
	    vnacal_new_parameter_t *p = m->vnm_s_matrix[i];
	    h = fnvi(h, p == NULL ? -1 : VNACAL_GET_PARAMETER_INDEX(p->vnpr_parameter));
	}
    }
    for (int s = 0; s < vnp->vn_systems; ++s) {
	vnacal_new_system_t *sp = &vnp->vn_system_vector[s];
	h = fnvi(h, sp->vns_equation_count);
	for (vnacal_new_equation_t *e = sp->vns_equation_list; e != NULL; e = e->vne_next) {
	    h = fnvi(h, e->vne_vnmp->vnm_index);
	    h = fnvi(h, e->vne_row);
	    h = fnvi(h, e->vne_column);
	    for (vnacal_new_term_t *t = e->vne_term_list; t != NULL; t = t->vnt_next) {
		h = fnvi(h, t->vnt_xindex); h = fnvi(h, t->vnt_negative);
		h = fnvi(h, t->vnt_m_cell); h = fnvi(h, t->vnt_s_cell); h = fnvi(h, t->vnt_v_cell);
	    }
	}
    }
    return h;
}

static uint64_t cal_digest(void)
{
    const vnacal_calibration_t *calp = vnp->vn_calibration;
    uint64_t h = 1469598103934665603ULL;
    if (calp == NULL)
	return 0;
    h = fnvi(h, (int)calp->cal_type);
    h = fnvi(h, calp->cal_rows);
    h = fnvi(h, calp->cal_columns);
    h = fnvi(h, calp->cal_frequencies);
    h = fnvi(h, calp->cal_error_terms);
    for (int t = 0; t < calp->cal_error_terms; ++t)
	h = fnv(h, calp->cal_error_term_vector[t], calp->cal_frequencies * sizeof(double complex));
    return h;
}

/* model slot of a parameter handle (the unknown / correlated parameters of a script have distinct handles) */
static int slot_of(int handle)
{
    for (int k = 255; k >= 0; --k)
	if (slots[k] == handle)
	    return k;
    return -1;
}

#define MAXUNK 64
static uint64_t param_digest(const vnacal_parameter_t *p)
{
    uint64_t h = 1469598103934665603ULL;
    h = fnvi(h, p->vpmr_frequencies);
    h = fnvi(h, p->vpmr_frequency_vector != NULL);
    h = fnvi(h, p->vpmr_gamma_vector != NULL);
    if (p->vpmr_frequency_vector != NULL)
	h = fnv(h, p->vpmr_frequency_vector, p->vpmr_frequencies * sizeof(double));
    if (p->vpmr_gamma_vector != NULL)
	h = fnv(h, p->vpmr_gamma_vector, p->vpmr_frequencies * sizeof(double complex));
    return h;
}
static int unknown_digests(uint64_t *d)
{
    int n = 0;
    for (vnacal_new_parameter_t *q = vnp->vn_unknown_parameter_list; q != NULL && n < MAXUNK; q = q->vnpr_next_unknown)
	d[n++] = param_digest(q->vnpr_parameter);
    return n;
}

static void print_counts(void)
{
    const vnacal_layout_t *vlp = &vnp->vn_layout;
    printf(" systems=%d unknowns=%d eq=", vnp->vn_systems, vlp->vl_t_terms - 1);
    for (int s = 0; s < vnp->vn_systems; ++s)
	printf("%s%d", s ? "," : "", vnp->vn_system_vector[s].vns_equation_count);
    printf(" tot=%d max=%d meas=%d unk=%d corr=%d list=", vnp->vn_equations, vnp->vn_max_equations,
	    vnp->vn_measurement_count, vnp->vn_unknown_parameters, vnp->vn_correlated_parameters);
    for (int s = 0; s < vnp->vn_systems; ++s) {
	int walked = 0;
	for (vnacal_new_equation_t *e = vnp->vn_system_vector[s].vns_equation_list; e != NULL; e = e->vne_next) {
	    printf("%d:%d:%d,%d;", s, e->vne_vnmp->vnm_index, e->vne_row, e->vne_column);
	    ++walked;
	}
	if (walked != vnp->vn_system_vector[s].vns_equation_count)
	    printf("LISTLEN-MISMATCH(%d);", walked);
    }
}

static void free_scenario(void)
{
    if (vnp != NULL) { vnacal_new_free(vnp); vnp = NULL; }
    if (vcp != NULL) { vnacal_free(vcp); vcp = NULL; }
}

static vnacal_type_t type_of(const char *s)
{
    vnacal_type_t t = vnacal_name_to_type(s);
    return t;
}

int main(void)
{
    long lineno = 0;
    while (fgets(line, sizeof(line), stdin) != NULL) {
	++lineno;
	ntok = 0; ptok = 0;
	for (char *p = strtok(line, " \t\r\n"); p != NULL && ntok < MAXTOK; p = strtok(NULL, " \t\r\n"))
	    tok[ntok++] = p;
	if (ntok == 0)
	    continue;
	const char *op = next();
	if (strcmp(op, "new") == 0 || strcmp(op, "nofreq") == 0) {
	    const char *tn;
	    free_scenario();
	    tn = next();
	    cur_r = nexti(); cur_c = nexti(); cur_f = nexti();
	    callbacks = 0;
	    for (int k = 0; k < 256; ++k) slots[k] = -1;
	    verif_alloc_track(1);
	    vcp = vnacal_create(error_fn, NULL);
	    if (vcp == NULL) { printf("N create-failed\n"); verif_alloc_track(0); continue; }
	    errno = 0;
	    vnp = vnacal_new_alloc(vcp, type_of(tn), cur_r, cur_c, cur_f);
	    if (vnp == NULL) {
		printf("N rc=-1 errno=%s cb=%d\n", ename(errno), callbacks);
		verif_alloc_track(0);
		continue;
	    }
	    for (int i = 0; i < cur_f; ++i) fvec[i] = 1.0e9 * (i + 1);
	    if (strcmp(op, "new") == 0 && vnacal_new_set_frequency_vector(vnp, fvec) == -1) {
		printf("N setf-failed\n");
		verif_alloc_track(0);
		continue;
	    }
	    verif_alloc_track(0);
	    slots[0] = VNACAL_ZERO; slots[1] = VNACAL_ONE; slots[2] = VNACAL_SHORT;
	    printf("N rc=0");
	    print_counts();
	    printf(" terms=%d\n", vnp->vn_layout.vl_error_terms);
	} else if (strcmp(op, "par") == 0) {
	    int k = nexti();
	    double complex g = nextc();
	    verif_alloc_track(1);
	    slots[k] = vnacal_make_scalar_parameter(vcp, g);
	    verif_alloc_track(0);
	    printf("P %d %s\n", k, slots[k] >= 0 ? "ok" : "fail");
	} else if (strcmp(op, "vpar") == 0) {
	    /* vpar K N f1..fN re1 im1 .. reN imN : vnacal_make_vector_parameter (a table over frequency) */
	    int k = nexti();
	    int n = nexti();
	    static double vf[512];
	    static double complex vg[512];
	    if (n < 1 || n > 512) { fprintf(stderr, "harness: bad vpar length\n"); return 3; }
	    for (int i = 0; i < n; ++i) vf[i] = nextd();
	    for (int i = 0; i < n; ++i) vg[i] = nextc();
	    verif_alloc_track(1);
	    slots[k] = vnacal_make_vector_parameter(vcp, vf, n, vg);
	    verif_alloc_track(0);
	    printf("P %d %s\n", k, slots[k] >= 0 ? "ok" : "fail");
	} else if (strcmp(op, "unk") == 0) {
	    int k = nexti();
	    int g = nexti();
	    verif_alloc_track(1);
	    slots[k] = vnacal_make_unknown_parameter(vcp, slots[g]);
	    verif_alloc_track(0);
	    printf("U %d %s\n", k, slots[k] >= 0 ? "ok" : "fail");
	} else if (strcmp(op, "cor") == 0) {
	    int k = nexti();
	    int o = nexti();
	    double sigma = nextd();
	    verif_alloc_track(1);
	    slots[k] = vnacal_make_correlated_parameter(vcp, slots[o], NULL, 1, &sigma);
	    verif_alloc_track(0);
	    printf("C %d %s\n", k, slots[k] >= 0 ? "ok" : "fail");
	} else if (strcmp(op, "merr") == 0) {
	    const char *a = next();
	    int rc;
	    errno = 0;
	    verif_alloc_track(1);
	    if (strcmp(a, "off") == 0) {
		rc = vnacal_new_set_m_error(vnp, NULL, 1, NULL, NULL);
	    } else {
		double sigma = strtod(a, NULL);
		rc = vnacal_new_set_m_error(vnp, NULL, 1, &sigma, NULL);
	    }
	    verif_alloc_track(0);
	    printf("E rc=%d errno=%s\n", rc, rc == 0 ? "0" : ename(errno));
	} else if (strcmp(op, "add") == 0) {
	    const char *kind = next();
	    int br = nexti(), bc = nexti();
	    int sh[64], map[16], sr = 0, sc = 0, nmap = 0, p1 = 0, p2 = 0;
	    double complex *m[64];
	    double complex mv[64][8];
	    int rc, cb0 = callbacks;
	    long live0;
	    uint64_t cal0 = cal_digest();
	    if (strcmp(kind, "r1") == 0) { sh[0] = slots[nexti()]; p1 = nexti(); }
	    else if (strcmp(kind, "r2") == 0) { sh[0] = slots[nexti()]; sh[1] = slots[nexti()]; p1 = nexti(); p2 = nexti(); }
	    else if (strcmp(kind, "th") == 0) { p1 = nexti(); p2 = nexti(); }
	    else if (strcmp(kind, "ln") == 0) { for (int i = 0; i < 4; ++i) sh[i] = slots[nexti()]; p1 = nexti(); p2 = nexti(); }
	    else if (strcmp(kind, "mm") == 0) {
		sr = nexti(); sc = nexti();
		for (int i = 0; i < sr * sc; ++i) sh[i] = slots[nexti()];
		nmap = nexti();
		for (int i = 0; i < nmap; ++i) map[i] = nexti();
	    } else { fprintf(stderr, "harness: bad add kind\n"); return 3; }
	    if (br * bc > 64) { fprintf(stderr, "harness: matrix too large\n"); return 3; }
	    for (int i = 0; i < br * bc; ++i) {
		double complex v = nextc();
		for (int f = 0; f < cur_f; ++f) mv[i][f] = v;
		m[i] = mv[i];
	    }
	    /* optionally the values at the frequencies 1 .. F-1 follow (frequency-dependent standards),
	       one block of br*bc values per frequency */
	    if (cur_f > 1 && ntok - ptok >= 2 * br * bc * (cur_f - 1)) {
		for (int f = 1; f < cur_f; ++f)
		    for (int i = 0; i < br * bc; ++i)
			mv[i][f] = nextc();
	    }
	    errno = stale_errno();	/* never cleared for the library: a stale value must not matter */
	    verif_alloc_track(1);
	    live0 = verif_live_blocks();
	    if (strcmp(kind, "r1") == 0) rc = vnacal_new_add_single_reflect_m(vnp, m, br, bc, sh[0], p1);
	    else if (strcmp(kind, "r2") == 0) rc = vnacal_new_add_double_reflect_m(vnp, m, br, bc, sh[0], sh[1], p1, p2);
	    else if (strcmp(kind, "th") == 0) rc = vnacal_new_add_through_m(vnp, m, br, bc, p1, p2);
	    else if (strcmp(kind, "ln") == 0) rc = vnacal_new_add_line_m(vnp, m, br, bc, sh, p1, p2);
	    else rc = vnacal_new_add_mapped_matrix_m(vnp, m, br, bc, sh, sr, sc, nmap ? map : NULL);
	    verif_alloc_track(0);
	    printf("A rc=%d errno=%s cb=%d", rc, rc == 0 ? "0" : ename(errno), callbacks - cb0);
	    print_counts();
	    printf(" calsame=%d dg=%016llx\n", cal_digest() == cal0, (unsigned long long)state_digest());
	} else if (strcmp(op, "solve") == 0 || strcmp(op, "solvefail") == 0) {
	    int rc, e, cb0 = callbacks;
	    long live0, live1, allocs, failed;
	    long fail_n = strcmp(op, "solvefail") == 0 ? atol(next()) : 0;
	    uint64_t d0 = state_digest(), c0 = cal_digest();
	    uint64_t pd0[MAXUNK], pd1[MAXUNK];
	    int np0 = unknown_digests(pd0), np1, wbc = 0, trl;
	    const vnacal_calibration_t *p0 = vnp->vn_calibration;
	    vnacal_new_trl_indices_t vnti;
	    for (vnacal_new_parameter_t *q = vnp->vn_unknown_parameter_list; q != NULL; q = q->vnpr_next_unknown)
		if (q->vnpr_parameter->vpmr_frequencies != vnp->vn_frequencies)
		    ++wbc;		/* write-back will calloc a frequency vector for this one */
	    trl = _vnacal_new_solve_is_trl(vnp, &vnti) ? 1 : 0;
	    errno = stale_errno();
	    verif_alloc_reset(fail_n);
	    verif_alloc_track(1);
	    live0 = verif_live_blocks();
	    rc = vnacal_new_solve(vnp);
	    e = errno;
	    live1 = verif_live_blocks();
	    verif_alloc_track(0);
	    allocs = verif_alloc_count;
	    failed = verif_failed;
	    verif_alloc_reset(0);
	    printf("S rc=%d errno=%s cb=%d cat=%d cal=%d calsame=%d stsame=%d live=%ld trl=%d allocs=%ld failed=%ld wbc=%d",
		    rc, rc == 0 ? "0" : ename(e), callbacks - cb0, callbacks - cb0 ? last_category : -1,
		    vnp->vn_calibration != NULL,
		    vnp->vn_calibration == p0 && cal_digest() == c0,
		    state_digest() == d0, live1 - live0, trl, allocs, failed, wbc);
	    print_counts();
	    printf(" pv=");
	    for (vnacal_new_parameter_t *q = vnp->vn_unknown_parameter_list; q != NULL; q = q->vnpr_next_unknown) {
		const vnacal_parameter_t *p = q->vnpr_parameter;
		printf("%d:%d:%d;", slot_of(VNACAL_GET_PARAMETER_INDEX(p)), p->vpmr_frequencies, p->vpmr_gamma_vector != NULL);
	    }
	    np1 = unknown_digests(pd1);
	    printf(" pvsame=");
	    for (int i = 0; i < np1; ++i)
		printf("%d", i < np0 && pd0[i] == pd1[i]);
	    printf("\n");
	} else if (strcmp(op, "terms") == 0) {
	    const vnacal_calibration_t *calp = vnp->vn_calibration;
	    if (calp == NULL) { printf("T none\n"); continue; }
	    printf("T %d %d", calp->cal_error_terms, calp->cal_frequencies);
	    for (int f = 0; f < calp->cal_frequencies; ++f)
		for (int t = 0; t < calp->cal_error_terms; ++t)
		    printf(" %.17g %.17g", creal(calp->cal_error_term_vector[t][f]), cimag(calp->cal_error_term_vector[t][f]));
	    printf("\n");
	} else if (strcmp(op, "pget") == 0) {
	    /* pget K : the value of parameter slot K at every calibration frequency (vnacal_get_parameter_value) */
	    int k = nexti();
	    printf("G %d %d", k, cur_f);
	    for (int f = 0; f < cur_f; ++f) {
		double complex v = vnacal_get_parameter_value(vcp, slots[k], fvec[f]);
		printf(" %.17g %.17g", creal(v), cimag(v));
	    }
	    printf("\n");
	} else if (strcmp(op, "apply") == 0) {
	    int ports = cur_r > cur_c ? cur_r : cur_c;
	    double complex *m[64];
	    double complex mv[64][8];
	    int rc, ci;
	    vnadata_t *vdp;
	    for (int i = 0; i < ports * ports; ++i) {
		double complex v = nextc();
		for (int f = 0; f < cur_f; ++f) mv[i][f] = v;
		m[i] = mv[i];
	    }
	    errno = 0;
	    verif_alloc_track(1);
	    rc = vnacal_add_calibration(vcp, "c20", vnp);
	    if (rc == -1) { verif_alloc_track(0); printf("Y addcal-failed errno=%s\n", ename(errno)); continue; }
	    ci = vnacal_find_calibration(vcp, "c20");
	    vdp = vnadata_alloc(error_fn, NULL);
	    rc = vnacal_apply_m(vcp, ci, fvec, cur_f, m, ports, ports, vdp);
	    printf("Y rc=%d errno=%s", rc, rc == 0 ? "0" : ename(errno));
	    if (rc == 0) {
		for (int f = 0; f < cur_f; ++f)
		    for (int i = 0; i < ports; ++i)
			for (int j = 0; j < ports; ++j) {
			    double complex v = vnadata_get_cell(vdp, f, i, j);
			    printf(" %.17g %.17g", creal(v), cimag(v));
			}
	    }
	    printf("\n");
	    vnadata_free(vdp);
	    vnacal_delete_calibration(vcp, ci);
	    verif_alloc_track(0);
	} else if (strcmp(op, "end") == 0) {
	    verif_alloc_track(1);
	    free_scenario();
	    verif_alloc_track(0);
	    printf("Z live=%ld\n", verif_live_blocks());
	} else {
	    fprintf(stderr, "harness: unknown op %s at line %ld\n", op, lineno);
	    return 3;
	}
	fflush(stdout);
    }
    free_scenario();
    return 0;
}
