/*
 * Harness for the format language of vnadata (coq/Data/FormatModel.v, checks/c15_format.py).
 * One vnadata_t object lives through the whole script; every operation prints one line with the
 * outcome and the object's format state (white box through vnadata_internal.h).  Link with
 * harness/allocwrap.c (allocation counting and fault injection).
 *
 * Script (one op per line; <k> = 0: no allocation fails, k >= 1: the k-th allocation request made by
 * the library during the call returns NULL; <hex> = the bytes of the argument, "-" for none; the
 * harness appends the terminating NUL and passes a heap buffer of exactly that size):
 *   new <t> <r> <c>         free the object, allocate a new one; when t >= 0: vnadata_init(vdp, t, r, c, 1)
 *   set <k> <hex>           vnadata_set_format(vdp, bytes)
 *   null <k>                vnadata_set_format(vdp, NULL)
 *   simple <k> <p> <f>      _vnadata_set_simple_format(vdip, p, f)
 *   enum <maxlen> <hex>     vnadata_set_format on every string over the alphabet <hex> of length
 *                           0 .. maxlen (shorter first, then in odometer order, first position slowest)
 * Output per call:
 *   <hex> rc=<rc> errno=<0|EINVAL|ENOMEM|n> cb=<number of error callbacks> why=<none|char:<xx>|spec:<hex>|nomem|other>
 *         str=<hex|NULL> vec=<NULL|p.f,p.f,...> count=<n> live=<blocks allocated during set calls and still live>
 */
#include <errno.h>
#include <stdio.h>
#include <stdlib.h>
#include <string.h>
#include "vnadata_internal.h"

extern void verif_alloc_track(int on);
extern void verif_alloc_reset(long fail_at);
extern long verif_live_blocks(void);

static int cb_count;
static char cb_msg[4096];

static void errfn(const char *message, void *arg, vnaerr_category_t category)
{
    (void)arg;
    (void)category;
    if (cb_count++ == 0) {
	(void)strncpy(cb_msg, message, sizeof(cb_msg) - 1);
	cb_msg[sizeof(cb_msg) - 1] = '\000';
    }
}

static void puthex(const unsigned char *p, size_t n)
{
    if (n == 0) {
	putchar('-');
    }
    for (size_t i = 0; i < n; ++i) {
	printf("%02x", p[i]);
    }
}

static size_t unhex(const char *s, unsigned char *out)
{
    size_t n = 0;

    if (s[0] == '-') {
	return 0;
    }
    while (s[0] != '\000' && s[1] != '\000') {
	unsigned v;

	if (sscanf(s, "%2x", &v) != 1) {
	    break;
	}
	out[n++] = (unsigned char)v;
	s += 2;
    }
    return n;
}

static vnadata_t *vdp;

static void report(const unsigned char *arg, size_t n, int is_null, int rc, int err)
{
    vnadata_internal_t *vdip = VDP_TO_VDIP(vdp);
    const char *s;

    if (is_null) {
	printf("NULL");
    } else {
	puthex(arg, n);
    }
    printf(" rc=%d", rc);
    if (rc == 0) {
	printf(" errno=0");
    } else if (err == EINVAL) {
	printf(" errno=EINVAL");
    } else if (err == ENOMEM) {
	printf(" errno=ENOMEM");
    } else {
	printf(" errno=%d", err);
    }
    printf(" cb=%d why=", cb_count);
    if (cb_count == 0) {
	printf("none");
    } else {
	const char *p;

	if ((p = strstr(cb_msg, "invalid char '\\")) != NULL) {
	    unsigned v = 0;

	    (void)sscanf(p + strlen("invalid char '\\"), "%x", &v);
	    printf("char:%02x", v & 0xff);
	} else if ((p = strstr(cb_msg, "invalid format specifier: \"")) != NULL) {
	    const char *q = p + strlen("invalid format specifier: \"");
	    size_t len = strlen(q);

	    printf("spec:");
	    puthex((const unsigned char *)q, len > 0 ? len - 1 : 0);	/* without the closing quote */
	} else if (strstr(cb_msg, "malloc: ") != NULL) {
	    printf("nomem");
	} else {
	    printf("other");
	}
    }
    s = vnadata_get_format(vdp);
    printf(" str=");
    if (s == NULL) {
	printf("NULL");
    } else {
	puthex((const unsigned char *)s, strlen(s));
    }
    printf(" vec=");
    if (vdip->vdi_format_vector == NULL) {
	printf("NULL");
    } else {
	if (vdip->vdi_format_count <= 0) {
	    putchar('-');
	}
	for (int i = 0; i < vdip->vdi_format_count; ++i) {
	    printf("%s%d.%d", i ? "," : "", (int)vdip->vdi_format_vector[i].vfd_parameter,
		    (int)vdip->vdi_format_vector[i].vfd_format);
	}
    }
    printf(" count=%d live=%ld\n", vdip->vdi_format_count, verif_live_blocks());
}

static void do_set(const unsigned char *bytes, size_t n, int is_null, long k)
{
    char *buf = NULL;
    int rc, err;

    if (!is_null) {
	buf = malloc(n + 1);
	(void)memcpy(buf, bytes, n);
	buf[n] = '\000';
    }
    cb_count = 0;
    cb_msg[0] = '\000';
    errno = 0;
    verif_alloc_reset(k);
    verif_alloc_track(1);
    rc = vnadata_set_format(vdp, buf);
    err = errno;
    verif_alloc_track(0);
    verif_alloc_reset(0);
    report(bytes, n, is_null, rc, err);
    free(buf);
}

int main(void)
{
    static char line[1 << 20];
    static unsigned char bytes[1 << 19];

    (void)setvbuf(stdout, NULL, _IOLBF, 0);	/* complete lines up to a crash */
    vdp = vnadata_alloc(errfn, NULL);
    while (fgets(line, sizeof(line), stdin) != NULL) {
	char op[32], a1[64], a2[64], a3[64];
	static char hex[1 << 20];
	size_t n;

	if (sscanf(line, "%31s", op) != 1) {
	    continue;
	}
	if (strcmp(op, "new") == 0) {
	    int t, r, c;

	    if (sscanf(line, "%*s %d %d %d", &t, &r, &c) != 3) {
		printf("?\n");
		continue;
	    }
	    /* the blocks of the old format state are released by vnadata_free */
	    vnadata_free(vdp);
	    vdp = vnadata_alloc(errfn, NULL);
	    if (t >= 0) {
		(void)vnadata_init(vdp, (vnadata_parameter_type_t)t, r, c, 1);
	    }
	    printf("new live=%ld\n", verif_live_blocks());
	} else if (strcmp(op, "set") == 0) {
	    if (sscanf(line, "%*s %63s %1048575s", a1, hex) != 2) {
		printf("?\n");
		continue;
	    }
	    n = unhex(hex, bytes);
	    do_set(bytes, n, 0, atol(a1));
	} else if (strcmp(op, "null") == 0) {
	    if (sscanf(line, "%*s %63s", a1) != 1) {
		printf("?\n");
		continue;
	    }
	    do_set(NULL, 0, 1, atol(a1));
	} else if (strcmp(op, "simple") == 0) {
	    int rc, err;

	    if (sscanf(line, "%*s %63s %63s %63s", a1, a2, a3) != 3) {
		printf("?\n");
		continue;
	    }
	    cb_count = 0;
	    cb_msg[0] = '\000';
	    errno = 0;
	    verif_alloc_reset(atol(a1));
	    verif_alloc_track(1);
	    rc = _vnadata_set_simple_format(VDP_TO_VDIP(vdp), (vnadata_parameter_type_t)atoi(a2),
		    (vnadata_format_t)atoi(a3));
	    err = errno;
	    verif_alloc_track(0);
	    verif_alloc_reset(0);
	    printf("simple.");
	    bytes[0] = (unsigned char)atoi(a2);
	    bytes[1] = (unsigned char)atoi(a3);
	    report(bytes, 2, 0, rc, err);
	} else if (strcmp(op, "enum") == 0) {
	    unsigned char alpha[256], cur[16];
	    int idx[16];
	    int maxlen;
	    size_t na;

	    if (sscanf(line, "%*s %d %1048575s", &maxlen, hex) != 2 || maxlen > 15) {
		printf("?\n");
		continue;
	    }
	    na = unhex(hex, alpha);
	    for (int len = 0; len <= maxlen; ++len) {
		for (int i = 0; i < len; ++i) {
		    idx[i] = 0;
		}
		for (;;) {
		    int i;

		    for (i = 0; i < len; ++i) {
			cur[i] = alpha[idx[i]];
		    }
		    do_set(cur, (size_t)len, 0, 0);
		    for (i = len - 1; i >= 0; --i) {
			if (++idx[i] < (int)na) {
			    break;
			}
			idx[i] = 0;
		    }
		    if (i < 0) {
			break;
		    }
		}
	    }
	} else {
	    printf("?\n");
	}
    }
    vnadata_free(vdp);
    printf("end live=%ld\n", verif_live_blocks());
    return 0;
}
