/*
 * Householder-QR harness for property C19.  Calls the real _vnacommon_qrd / _qr / _qrsolve and a
 * public over-determined calibration.  One case per line, numbers as C99 hex (or decimal)
 * doubles, complex = two numbers:
 *   qrd m n <A: m*n>                 -> qrd d= <d[0..min(m,n)-1]> a= <the m*n working array after
 *                                       _vnacommon_qrd: v_k vectors on and below the diagonal, R above>
 *   qrsolve m n o <A: m*n> <B: m*o>  -> qrsolve rank=r x= <X: n*o> b= <B after the reflections: m*o>
 *   qr m n <A: m*n>                  -> qr rank=r q= <Q: m*m> r= <R: m*n>
 *   cal1 e <e00> <e10e01> <e11> <s0> <s1> <s2> <s3> <sdut>
 *   cal1k k <same>                   the same with the measurements in units of the double k (magnitude sweep)
 *        one-port VNACAL_E12 calibration from four reflect standards s0..s3 (4 equations, 3 error
 *        terms: the over-determined path through _vnacommon_qrsolve), one frequency, with every
 *        measurement expressed in units of 2^e:  m = 2^e (e00 + e10e01 s / (1 - e11 s));
 *        then vnacal_apply_m on the measurement of sdut in the same units
 *                                    -> cal1 solve=<rc> apply=<rc> callbacks=<n> category=<c> x= re im
 * All values are printed with %a.
 */
#include <complex.h>
#include <math.h>
#include <stdio.h>
#include <stdlib.h>
#include <string.h>
#include <vnacal.h>
#include <vnadata.h>
#include "vnacommon_internal.h"

typedef double complex cx;

static int rd(double *d) { char b[128]; if (scanf("%127s", b) != 1) return 0; *d = strtod(b, NULL); return 1; }
static int rcx(cx *c) { double a, b; if (!rd(&a) || !rd(&b)) return 0; *c = a + I * b; return 1; }
static cx *rmat(int r, int c)
{
    cx *m = malloc(sizeof(cx) * (r * c + 1));
    for (int i = 0; i < r * c; ++i)
	if (!rcx(&m[i])) exit(3);
    return m;
}
static void pmat(const cx *m, int n)
{
    for (int i = 0; i < n; ++i)
	printf(" %a %a", creal(m[i]), cimag(m[i]));
}

static int eh_calls, eh_cat;
static void eh(const char *msg, void *arg, vnaerr_category_t cat) { (void)msg; (void)arg; ++eh_calls; eh_cat = (int)cat; }

int main(void)
{
    char op[64];
    while (scanf("%63s", op) == 1) {
	if (strcmp(op, "qrd") == 0) {
	    int m, n; if (scanf("%d %d", &m, &n) != 2) return 2;
	    int dg = m < n ? m : n;
	    cx *a = rmat(m, n), *d = calloc(dg + 1, sizeof(cx));
	    _vnacommon_qrd(a, d, m, n);
	    printf("qrd d="); pmat(d, dg); printf(" a="); pmat(a, m * n); printf("\n");
	    free(a); free(d);
	} else if (strcmp(op, "qrsolve") == 0) {
	    int m, n, o; if (scanf("%d %d %d", &m, &n, &o) != 3) return 2;
	    cx *a = rmat(m, n), *b = rmat(m, o), *x = calloc(n * o + 1, sizeof(cx));
	    int rank = _vnacommon_qrsolve(x, a, b, m, n, o);
	    printf("qrsolve rank=%d x=", rank); pmat(x, n * o); printf(" b="); pmat(b, m * o); printf("\n");
	    free(a); free(b); free(x);
	} else if (strcmp(op, "qr") == 0) {
	    int m, n; if (scanf("%d %d", &m, &n) != 2) return 2;
	    cx *a = rmat(m, n);
	    cx *q = calloc(m * m + 1, sizeof(cx)), *r = calloc(m * n + 1, sizeof(cx));
	    int rank = _vnacommon_qr(a, q, r, m, n);
	    printf("qr rank=%d q=", rank); pmat(q, m * m); printf(" r="); pmat(r, m * n); printf("\n");
	    free(a); free(q); free(r);
	} else if (strcmp(op, "cal1") == 0 || strcmp(op, "cal1k") == 0) {
	    /* cal1k: same with an arbitrary (decimal) unit k instead of 2^e */
	    int e = 0; double kk = 1.0;
	    if (strcmp(op, "cal1") == 0) { if (scanf("%d", &e) != 1) return 2; }
	    else { if (!rd(&kk)) return 2; }
	    cx e00, e10e01, e11, s[4], sdut, res = NAN;
	    if (!rcx(&e00) || !rcx(&e10e01) || !rcx(&e11)) return 3;
	    for (int i = 0; i < 4; ++i) if (!rcx(&s[i])) return 3;
	    if (!rcx(&sdut)) return 3;
	    double k = strcmp(op, "cal1") == 0 ? ldexp(1.0, e) : kk;
	    double f[1] = { 1.0e+9 };
	    int rc_solve = -2, rc_apply = -2, ci = -1;
	    eh_calls = 0; eh_cat = -1;
	    vnacal_t *vcp = vnacal_create(eh, NULL);
	    vnacal_new_t *vnp = vnacal_new_alloc(vcp, VNACAL_E12, 1, 1, 1);
	    vnadata_t *vdp = NULL;
	    vnacal_new_set_frequency_vector(vnp, f);
	    int ok = 1;
	    for (int i = 0; i < 4 && ok; ++i) {
		cx mv[1]; cx *mp[1] = { mv };
		int p = vnacal_make_scalar_parameter(vcp, s[i]);
		mv[0] = k * (e00 + e10e01 * s[i] / (1.0 - e11 * s[i]));
		if (p == -1 || vnacal_new_add_single_reflect_m(vnp, mp, 1, 1, p, 1) == -1) ok = 0;
	    }
	    if (ok) {
		rc_solve = vnacal_new_solve(vnp);
		if (rc_solve == 0 && (ci = vnacal_add_calibration(vcp, "cal", vnp)) != -1 &&
			(vdp = vnadata_alloc_and_init(eh, NULL, VPT_S, 1, 1, 1)) != NULL) {
		    cx mv[1]; cx *mp[1] = { mv };
		    mv[0] = k * (e00 + e10e01 * sdut / (1.0 - e11 * sdut));
		    rc_apply = vnacal_apply_m(vcp, ci, f, 1, mp, 1, 1, vdp);
		    if (rc_apply == 0) res = vnadata_get_cell(vdp, 0, 0, 0);
		}
	    }
	    printf("cal1 solve=%d apply=%d callbacks=%d category=%s x= %a %a\n", rc_solve, rc_apply, eh_calls,
		    eh_cat == (int)VNAERR_MATH ? "MATH" : eh_cat == -1 ? "none" : "other", creal(res), cimag(res));
	    vnadata_free(vdp); vnacal_new_free(vnp); vnacal_free(vcp);
	} else {
	    printf("unknown %s\n", op);
	    return 2;
	}
    }
    return 0;
}
