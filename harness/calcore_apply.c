/*
 * calcore_apply: white-box driver for vnacal_apply.c (property C01, ApplyModel tie).
 * Includes vnacal_apply.c to reach the static fill_* functions (build with exclude vnacal_apply.c).
 * One case per line (numbers read with strtod, printed with %a):
 *   TYPE MR MC NE e(re im).. NM m(re im)..
 * Output per case:
 *   fill refused | fill a <p*p complex> b <p*p complex>          (fill_* called directly, the switch of
 *                                                                  _vnacal_apply_common replicated)
 *   apply rc=<rc> errno=<class> [s <p*p complex>]                 (vnacal_apply_m on a calibration built
 *                                                                  from the given error terms, 1 frequency)
 */
#include "vnacal_apply.c"
#include <stdio.h>

static void errfn(const char *msg, void *arg, vnaerr_category_t category) { (void)msg; (void)arg; (void)category; }

static const char *eclass(int e)
{
    switch (e) { case 0: return "0"; case EINVAL: return "EINVAL"; case EDOM: return "EDOM"; case ENOMEM: return "ENOMEM"; default: return "OTHER"; }
}

int main(void)
{
    static char line[1 << 20];
    while (fgets(line, sizeof(line), stdin) != NULL) {
	char *p = line, *q;
	int type = (int)strtol(p, &q, 10); if (q == p) continue; p = q;
	int mr = (int)strtol(p, &p, 10), mc = (int)strtol(p, &p, 10);
	int ne = (int)strtol(p, &p, 10);
	double complex e[ne > 0 ? ne : 1];
	for (int i = 0; i < ne; ++i) { double a = strtod(p, &p); double b = strtod(p, &p); e[i] = a + I * b; }
	int nm = (int)strtol(p, &p, 10);
	double complex m[nm > 0 ? nm : 1], m2[nm > 0 ? nm : 1];
	for (int i = 0; i < nm; ++i) { double a = strtod(p, &p); double b = strtod(p, &p); m[i] = a + I * b; m2[i] = m[i]; }
	int ports = MAX(mr, mc);
	vnacal_layout_t vl;
	_vnacal_layout(&vl, (vnacal_type_t)type, mr, mc);
	if ((mr != mc && ports != 2) || nm != ports * ports || ne != vl.vl_error_terms) {
	    printf("fill refused\n");
	} else {
	    double complex a[ports * ports], b[ports * ports];
	    switch ((vnacal_type_t)type) {
	    case VNACAL_T8: case VNACAL_TE10: fill_t8(&vl, e, m2, a, b); break;
	    case VNACAL_U8: case VNACAL_UE10: fill_u8(&vl, e, m2, a, b); break;
	    case VNACAL_T16: fill_t16(&vl, e, m2, a, b); break;
	    case VNACAL_U16: fill_u16(&vl, e, m2, a, b); break;
	    case VNACAL_UE14: case _VNACAL_E12_UE14: fill_ue14(&vl, e, m2, a, b); break;
	    case VNACAL_E12: fill_e12(&vl, e, m2, a, b); break;
	    default: abort();
	    }
	    printf("fill a");
	    for (int i = 0; i < ports * ports; ++i) printf(" %a %a", creal(a[i]), cimag(a[i]));
	    printf(" b");
	    for (int i = 0; i < ports * ports; ++i) printf(" %a %a", creal(b[i]), cimag(b[i]));
	    printf("\n");
	}
	/* the public path */
	vnacal_t *vcp = vnacal_create(errfn, NULL);
	vnacal_calibration_t *calp = _vnacal_calibration_alloc(vcp, (vnacal_type_t)type, mr, mc, 1, ne);
	double f = 1.0e9;
	calp->cal_frequency_vector[0] = f;
	calp->cal_z0 = 50.0;
	for (int i = 0; i < ne; ++i) calp->cal_error_term_vector[i][0] = e[i];
	int ci = _vnacal_add_calibration_common("calcore_apply", vcp, calp, "c");
	double complex *mp[nm > 0 ? nm : 1];
	for (int i = 0; i < nm; ++i) mp[i] = &m[i];
	vnadata_t *vdp = vnadata_alloc(NULL, NULL);
	errno = 0;
	int rc = vnacal_apply_m(vcp, ci, &f, 1, mp, ports, ports, vdp);
	int en = errno;
	printf("apply rc=%d errno=%s", rc, eclass(rc == 0 ? 0 : en));
	if (rc == 0) {
	    printf(" s");
	    for (int r = 0; r < ports; ++r)
		for (int c = 0; c < ports; ++c) {
		    double complex v = vnadata_get_cell(vdp, 0, r, c);
		    printf(" %a %a", creal(v), cimag(v));
		}
	}
	printf("\n");
	vnadata_free(vdp);
	vnacal_free(vcp);
    }
    return 0;
}
