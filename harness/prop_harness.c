/*
 * Property-tree harness (properties C13, C14).  Reads the same op scripts as
 * ocaml/drv_prop.ml (one op per line, strings hex-encoded, "-" = empty string) and prints
 * one outcome line per op:
 *      <ret> <errno> <payload> <digest root> <digest aux> [<hex of emitted YAML>]
 * The digests are taken through the public API only (type/count/keys/get/get_subtree with
 * quote_key), except for the list allocation which is read from vnaproperty_internal.h.
 *
 *   prop_harness            plain vnaproperty_* on a local root
 *   prop_harness global     the same ops through vnacal_property_*(vcp, -1, ...)
 *   prop_harness cal        ... through vnacal_property_*(vcp, ci, ...) of a calibration
 *
 * ops: set D | del D | get D | type D | count D | keys D | getsub D | setsub D |
 *      subset D D2 | subdel D D2 | copyout D | copyin D | quote K | reset |
 *      copywithin D D2 (aliased copy, fix D71: p = set_subtree(&root, D); s = get_subtree(root, D2);
 *               if (p) vnaproperty_copy(p, s) - source inside / around / equal to / beside the destination) |
 *      yamlrt   (export root to memory, import_yaml_from_string into a fresh root)
 *      yamlrtf  (the same with import_yaml_from_file on an fmemopen stream)
 *      yamltree (export root, parse the text with libyaml alone and dump the node tree)
 *      yamlinto / yamlintof (export root, import the text into aux, which may hold a tree already)
 *      yamlimp T / yamlimpf T (import the YAML text T with _from_string / _from_file into root, which may hold a
 *               tree already; payload Y:<the document libyaml alone parses from T> | Y:!syntax | Y:!empty)
 *      calrt    (vnacal mode: vnacal_save to memory / vnacal_load, digest of the loaded roots)
 *      hdump    (white-box: payload H:<hash size>,<count>|<bucket>:<hexkey>,<hexkey>;... of the root map,
 *                compared with coq/PropTree/HashModel.v run on CRC-32C by checks/C13.py)
 */
#define _GNU_SOURCE
#include <errno.h>
#include <unistd.h>
#include <stdio.h>
#include <stdlib.h>
#include <string.h>
#include <complex.h>
#include <yaml.h>
#include <vnaproperty.h>
#include <vnacal.h>
#include "vnaproperty_internal.h"

static int error_count;
static void errfn(const char *msg, void *arg, vnaerr_category_t cat)
{
    (void)msg; (void)arg; (void)cat;
    ++error_count;
}

static char *unhex(const char *h)
{
    size_t n;
    char *s;

    if (strcmp(h, "-") == 0)
	h = "";
    n = strlen(h) / 2;
    s = malloc(n + 1);
    for (size_t i = 0; i < n; ++i) {
	unsigned v;
	sscanf(h + 2 * i, "%2x", &v);
	s[i] = (char)v;
    }
    s[n] = 0;
    return s;
}

static void hexn(FILE *o, const char *s, size_t n)
{
    for (size_t i = 0; i < n; ++i)
	fprintf(o, "%02x", (unsigned char)s[i]);
}
static void hex(FILE *o, const char *s) { hexn(o, s, strlen(s)); }

static void digest(FILE *o, const vnaproperty_t *n)
{
    if (n == NULL) {
	fputs("N", o);
	return;
    }
    switch (vnaproperty_type(n, ".")) {
    case 's':
	{
	    const char *v = vnaproperty_get(n, ".");
	    fputs("S", o);
	    if (v == NULL) fputs("?", o); else hex(o, v);
	}
	break;
    case 'm':
	{
	    const char **keys = vnaproperty_keys(n, "{}");
	    int count = vnaproperty_count(n, "{}"), i = 0;
	    fputs("M{", o);
	    if (keys == NULL) {
		fputs("?", o);
	    } else {
		for (const char **k = keys; *k != NULL; ++k, ++i) {
		    char *q = vnaproperty_quote_key(*k);
		    vnaproperty_t *sub;
		    if (i) fputs(";", o);
		    hex(o, *k);
		    fputs("=", o);
		    errno = 0;
		    sub = vnaproperty_get_subtree(n, "%s", q);
		    if (sub == NULL && errno != 0) fputs("?", o); else digest(o, sub);
		    free(q);
		}
		if (i != count) fprintf(o, "?count=%d", count);
		free(keys);
	    }
	    fputs("}", o);
	}
	break;
    case 'l':
	{
	    int count = vnaproperty_count(n, "[]");
	    fprintf(o, "L%zu[", ((const vnaproperty_list_t *)n)->vpl_allocation);
	    for (int i = 0; i < count; ++i) {
		vnaproperty_t *sub;
		if (i) fputs(";", o);
		errno = 0;
		sub = vnaproperty_get_subtree(n, "[%d]", i);
		if (sub == NULL && errno != 0) fputs("?", o); else digest(o, sub);
	    }
	    fputs("]", o);
	}
	break;
    default:
	fputs("?", o);
    }
}

/*
 * White-box check of every map in the tree (vnaproperty_internal.h): each element of the order
 * list is reachable through the chain of bucket hashval % hash_size, chains are sorted by
 * (hashval, key), the order list is consistent in both directions and has vpm_count elements.
 * Returns the number of broken invariants.
 */
static int check_tables(const vnaproperty_t *n)
{
    int bad = 0;

    if (n == NULL)
	return 0;
    if (n->vpr_type == VNAPROPERTY_LIST) {
	const vnaproperty_list_t *l = (const vnaproperty_list_t *)n;
	if (l->vpl_length > l->vpl_allocation) ++bad;
	for (size_t i = 0; i < l->vpl_length; ++i)
	    bad += check_tables(l->vpl_vector[i]);
	for (size_t i = l->vpl_length; i < l->vpl_allocation; ++i)
	    if (l->vpl_vector[i] != NULL) ++bad;		/* cells beyond the length are NULL */
    } else if (n->vpr_type == VNAPROPERTY_MAP) {
	const vnaproperty_map_t *m = (const vnaproperty_map_t *)n;
	size_t in_order = 0, in_chains = 0;
	const vnaproperty_map_element_t *e, *prev = NULL;

	for (e = m->vpm_order_head; e != NULL; prev = e, e = e->vme_order_next) {
	    const vnaproperty_map_element_t *c;
	    ++in_order;
	    if (e->vme_order_prev != prev) ++bad;
	    if (e->vme_magic != VNAPROPERTY_MAP_PAIR_ELEMENT_MAGIC) ++bad;
	    if (m->vpm_hash_size == 0) { ++bad; continue; }
	    for (c = m->vpm_hash_table[e->vme_hashval % m->vpm_hash_size]; c != NULL && c != e; c = c->vme_hash_next)
		;
	    if (c != e) ++bad;					/* lost from its chain */
	    bad += check_tables(e->vme_pair.vmpr_value);
	}
	if (m->vpm_order_tail != prev) ++bad;
	for (size_t b = 0; b < m->vpm_hash_size; ++b) {
	    const vnaproperty_map_element_t *c, *p = NULL;
	    for (c = m->vpm_hash_table[b]; c != NULL; p = c, c = c->vme_hash_next) {
		++in_chains;
		if (c->vme_hashval % m->vpm_hash_size != b) ++bad;
		if (p != NULL && !(p->vme_hashval < c->vme_hashval || (p->vme_hashval == c->vme_hashval &&
				strcmp(p->vme_pair.vmpr_key, c->vme_pair.vmpr_key) < 0))) ++bad;
	    }
	}
	if (in_order != m->vpm_count || in_chains != m->vpm_count) ++bad;
    }
    return bad;
}

static const char *errname(int e)
{
    static char b[32];
    if (e == 0) return "0";
    if (e == EINVAL) return "EINVAL";
    if (e == ENOENT) return "ENOENT";
    snprintf(b, sizeof(b), "E%d", e);
    return b;
}

/* dump of a libyaml node tree: kind, style, bytes */
static void ydump(FILE *o, yaml_document_t *doc, yaml_node_t *n)
{
    switch (n->type) {
    case YAML_SCALAR_NODE:
	{
	    char st = '?';
	    switch (n->data.scalar.style) {
	    case YAML_PLAIN_SCALAR_STYLE: st = 'p'; break;
	    case YAML_SINGLE_QUOTED_SCALAR_STYLE: st = 's'; break;
	    case YAML_DOUBLE_QUOTED_SCALAR_STYLE: st = 'd'; break;
	    case YAML_LITERAL_SCALAR_STYLE: st = 'l'; break;
	    case YAML_FOLDED_SCALAR_STYLE: st = 'f'; break;
	    default: break;
	    }
	    fprintf(o, "s%c", st);
	    hexn(o, (const char *)n->data.scalar.value, n->data.scalar.length);
	}
	break;
    case YAML_MAPPING_NODE:
	fputs("m{", o);
	for (yaml_node_pair_t *p = n->data.mapping.pairs.start; p < n->data.mapping.pairs.top; ++p) {
	    if (p != n->data.mapping.pairs.start) fputs(";", o);
	    ydump(o, doc, yaml_document_get_node(doc, p->key));
	    fputs("=", o);
	    ydump(o, doc, yaml_document_get_node(doc, p->value));
	}
	fputs("}", o);
	break;
    case YAML_SEQUENCE_NODE:
	fputs("q[", o);
	for (yaml_node_item_t *it = n->data.sequence.items.start; it < n->data.sequence.items.top; ++it) {
	    if (it != n->data.sequence.items.start) fputs(";", o);
	    ydump(o, doc, yaml_document_get_node(doc, *it));
	}
	fputs("]", o);
	break;
    default:
	fputs("?", o);
    }
}

/* ------------------------------------------------------------------ vnacal mode */
static vnacal_t *vcp;
static int ci = -1;

static void make_vnacal(int with_cal)
{
    vcp = vnacal_create(errfn, NULL);
    if (vcp == NULL) { fprintf(stderr, "vnacal_create failed\n"); exit(3); }
    if (with_cal) {
	/* a one-port, one-frequency T8 calibration from short, open, load */
	vnacal_new_t *vnp = vnacal_new_alloc(vcp, VNACAL_T8, 1, 1, 1);
	double f[1] = { 1.0e9 };
	double complex m[1];
	double complex *mp[1] = { m };
	if (vnp == NULL || vnacal_new_set_frequency_vector(vnp, f) == -1) exit(3);
	m[0] = -0.9; if (vnacal_new_add_single_reflect_m(vnp, mp, 1, 1, VNACAL_SHORT, 1) == -1) exit(3);
	m[0] = 0.9;  if (vnacal_new_add_single_reflect_m(vnp, mp, 1, 1, VNACAL_OPEN, 1) == -1) exit(3);
	m[0] = 0.1;  if (vnacal_new_add_single_reflect_m(vnp, mp, 1, 1, VNACAL_MATCH, 1) == -1) exit(3);
	if (vnacal_new_solve(vnp) == -1) exit(3);
	if ((ci = vnacal_add_calibration(vcp, "cal", vnp)) == -1) exit(3);
	ci = vnacal_find_calibration(vcp, "cal");
	if (ci == -1) exit(3);
	vnacal_new_free(vnp);
    }
}

int main(int argc, char **argv)
{
    vnaproperty_t *root = NULL, *aux = NULL;
    char *line = NULL;
    size_t cap = 0;
    int mode = 0;		/* 0 plain, 1 vnacal */

    if (argc > 1 && strcmp(argv[1], "global") == 0) { mode = 1; make_vnacal(0); }
    if (argc > 1 && strcmp(argv[1], "cal") == 0) { mode = 1; make_vnacal(1); }
    while (getline(&line, &cap, stdin) > 0) {
	char *w[4] = { NULL, NULL, NULL, NULL };
	int nw = 0;
	char *a = NULL, *b = NULL;
	long ret = 0;
	int e = 0;
	char *pay = NULL, *ytext = NULL;
	size_t paylen = 0, ylen = 0;
	FILE *po;

	for (char *t = strtok(line, " \t\r\n"); t != NULL && nw < 4; t = strtok(NULL, " \t\r\n"))
	    w[nw++] = t;
	if (nw == 0)
	    continue;
	if (nw > 1) a = unhex(w[1]);
	if (nw > 2) b = unhex(w[2]);
	po = open_memstream(&pay, &paylen);
	error_count = 0;
#define ROOT() (mode ? vnacal_property_get_subtree(vcp, ci, ".") : root)
	if (strcmp(w[0], "reset") == 0) {
	    if (mode) vnacal_property_delete(vcp, ci, "."); else vnaproperty_delete(&root, ".");
	    vnaproperty_delete(&aux, ".");
	    fclose(po); free(pay); free(a); free(b);
	    printf("RESET\n");
	    continue;
	} else if (strcmp(w[0], "set") == 0) {
	    errno = 0;
	    ret = mode ? vnacal_property_set(vcp, ci, "%s", a) : vnaproperty_set(&root, "%s", a);
	    e = errno;
	} else if (strcmp(w[0], "del") == 0) {
	    errno = 0;
	    ret = mode ? vnacal_property_delete(vcp, ci, "%s", a) : vnaproperty_delete(&root, "%s", a);
	    e = errno;
	} else if (strcmp(w[0], "get") == 0) {
	    const char *v;
	    errno = 0;
	    v = mode ? vnacal_property_get(vcp, ci, "%s", a) : vnaproperty_get(root, "%s", a);
	    e = errno;
	    ret = v ? 0 : -1;
	    if (v) { fputs("S:", po); hex(po, v); }
	} else if (strcmp(w[0], "type") == 0) {
	    errno = 0;
	    ret = mode ? vnacal_property_type(vcp, ci, "%s", a) : vnaproperty_type(root, "%s", a);
	    e = errno;
	} else if (strcmp(w[0], "count") == 0) {
	    errno = 0;
	    ret = mode ? vnacal_property_count(vcp, ci, "%s", a) : vnaproperty_count(root, "%s", a);
	    e = errno;
	} else if (strcmp(w[0], "keys") == 0) {
	    const char **k;
	    errno = 0;
	    k = mode ? vnacal_property_keys(vcp, ci, "%s", a) : vnaproperty_keys(root, "%s", a);
	    e = errno;
	    ret = k ? 0 : -1;
	    if (k) {
		fputs("K:", po);
		for (const char **p = k; *p; ++p) { if (p != k) fputs(",", po); hex(po, *p); }
		free(k);
	    }
	} else if (strcmp(w[0], "getsub") == 0) {
	    vnaproperty_t *s;
	    errno = 0;
	    s = mode ? vnacal_property_get_subtree(vcp, ci, "%s", a) : vnaproperty_get_subtree(root, "%s", a);
	    e = errno;
	    ret = s ? 0 : -1;
	    if (s) { fputs("T:", po); digest(po, s); }
	} else if (strcmp(w[0], "setsub") == 0 || strcmp(w[0], "subset") == 0 ||
		strcmp(w[0], "subdel") == 0 || strcmp(w[0], "copyin") == 0) {
	    vnaproperty_t **p;
	    errno = 0;
	    p = mode ? vnacal_property_set_subtree(vcp, ci, "%s", a) : vnaproperty_set_subtree(&root, "%s", a);
	    e = errno;
	    if (w[0][0] == 's' && w[0][1] == 'e') {		/* setsub */
		ret = p ? 0 : -1;
	    } else if (p == NULL) {
		ret = -2;
	    } else {
		errno = 0;
		if (strcmp(w[0], "subset") == 0) ret = vnaproperty_set(p, "%s", b);
		else if (strcmp(w[0], "subdel") == 0) ret = vnaproperty_delete(p, "%s", b);
		else ret = vnaproperty_copy(p, aux);
		e = errno;
	    }
	} else if (strcmp(w[0], "copywithin") == 0) {
	    /* same C sequence as pacopysub of mem_harness.c: the destination path is conformed first, then the
	     * source is looked up in the same tree, then copied into the anchor */
	    vnaproperty_t **p, *s;
	    errno = 0;
	    p = mode ? vnacal_property_set_subtree(vcp, ci, "%s", a) : vnaproperty_set_subtree(&root, "%s", a);
	    e = errno;
	    s = mode ? vnacal_property_get_subtree(vcp, ci, "%s", b) : vnaproperty_get_subtree(root, "%s", b);
	    if (p == NULL) {
		ret = -2;
	    } else {
		errno = 0;
		ret = vnaproperty_copy(p, s);
		e = errno;
	    }
	} else if (strcmp(w[0], "copyout") == 0) {
	    vnaproperty_t *s;
	    s = mode ? vnacal_property_get_subtree(vcp, ci, "%s", a) : vnaproperty_get_subtree(root, "%s", a);
	    errno = 0;
	    ret = vnaproperty_copy(&aux, s);
	    e = errno;
	} else if (strcmp(w[0], "hdump") == 0) {
	    /* white-box: the hash table of the root map (size, count, keys of every chain in link order) */
	    const vnaproperty_t *r = ROOT();
	    if (r == NULL || r->vpr_type != VNAPROPERTY_MAP) {
		fputs("H:none", po);
	    } else {
		const vnaproperty_map_t *m = (const vnaproperty_map_t *)r;
		fprintf(po, "H:%zu,%zu|", m->vpm_hash_size, m->vpm_count);
		for (size_t bk = 0, first = 1; bk < m->vpm_hash_size; ++bk) {
		    const vnaproperty_map_element_t *c = m->vpm_hash_table[bk];
		    if (c == NULL) continue;
		    fprintf(po, "%s%zu:", first ? "" : ";", bk);
		    first = 0;
		    for (int f2 = 1; c != NULL; c = c->vme_hash_next, f2 = 0) {
			if (!f2) fputs(",", po);
			hex(po, c->vme_pair.vmpr_key);
		    }
		}
	    }
	} else if (strcmp(w[0], "quote") == 0) {
	    char *q = vnaproperty_quote_key(a);
	    ret = q ? 0 : -1;
	    if (q) { fputs("S:", po); hex(po, q); free(q); }
	} else if (strcmp(w[0], "yamlrt") == 0 || strcmp(w[0], "yamlrtf") == 0 || strcmp(w[0], "yamltree") == 0) {
	    FILE *yo = open_memstream(&ytext, &ylen);
	    errno = 0;
	    ret = vnaproperty_export_yaml_to_file(ROOT(), yo, "mem", errfn, NULL);
	    e = errno;
	    fclose(yo);
	    if (ret == 0 && w[0][4] == 'r') {
		vnaproperty_t *in = NULL;
		errno = 0;
		if (w[0][6] == 'f') {
		    FILE *yi = fmemopen(ytext, ylen ? ylen : 1, "r");
		    ret = vnaproperty_import_yaml_from_file(&in, yi, "mem", errfn, NULL);
		    fclose(yi);
		} else {
		    ret = vnaproperty_import_yaml_from_string(&in, ytext, errfn, NULL);
		}
		e = ret == 0 ? 0 : errno;
		fputs("T:", po); digest(po, in);
		vnaproperty_delete(&in, ".");
	    } else if (ret == 0) {
		yaml_parser_t parser;
		yaml_document_t doc;
		yaml_node_t *yr;
		yaml_parser_initialize(&parser);
		yaml_parser_set_input_string(&parser, (const unsigned char *)ytext, ylen);
		if (yaml_parser_load(&parser, &doc) && (yr = yaml_document_get_root_node(&doc)) != NULL) {
		    fputs("Y:", po); ydump(po, &doc, yr);
		    yaml_document_delete(&doc);
		} else {
		    ret = -3;
		}
		yaml_parser_delete(&parser);
		e = 0;
	    }
	} else if (strcmp(w[0], "yamlinto") == 0 || strcmp(w[0], "yamlintof") == 0) {
	    FILE *yo = open_memstream(&ytext, &ylen);
	    errno = 0;
	    ret = vnaproperty_export_yaml_to_file(ROOT(), yo, "mem", errfn, NULL);
	    e = errno;
	    fclose(yo);
	    if (ret == 0) {
		errno = 0;
		if (w[0][8] == 'f') {
		    FILE *yi = fmemopen(ytext, ylen ? ylen : 1, "r");
		    ret = vnaproperty_import_yaml_from_file(&aux, yi, "mem", errfn, NULL);
		    fclose(yi);
		} else {
		    ret = vnaproperty_import_yaml_from_string(&aux, ytext, errfn, NULL);
		}
		e = ret == 0 ? 0 : errno;
	    }
	} else if ((strcmp(w[0], "yamlimp") == 0 || strcmp(w[0], "yamlimpf") == 0) && !mode) {
	    /* import the text into root over whatever root holds; payload = what libyaml ALONE makes of the text
	     * (Y:<tree>, Y:!syntax, Y:!empty): the document the model's import_public is run on */
	    const char *text = a ? a : "";
	    yaml_parser_t parser;
	    yaml_document_t doc;
	    yaml_node_t *yr;
	    yaml_parser_initialize(&parser);
	    yaml_parser_set_input_string(&parser, (const unsigned char *)text, strlen(text));
	    if (!yaml_parser_load(&parser, &doc)) {
		fputs("Y:!syntax", po);
	    } else {
		if ((yr = yaml_document_get_root_node(&doc)) == NULL) {
		    fputs("Y:!empty", po);
		} else {
		    fputs("Y:", po); ydump(po, &doc, yr);
		}
		yaml_document_delete(&doc);
	    }
	    yaml_parser_delete(&parser);
	    errno = 0;
	    if (w[0][7] == 'f') {
		FILE *yi = tmpfile();
		if (yi == NULL) { perror("tmpfile"); exit(3); }
		fwrite(text, 1, strlen(text), yi);
		rewind(yi);
		ret = vnaproperty_import_yaml_from_file(&root, yi, "mem", errfn, NULL);
		fclose(yi);
	    } else {
		ret = vnaproperty_import_yaml_from_string(&root, text, errfn, NULL);
	    }
	    e = 0;		/* errno after a failed import is not part of the comparison */
	} else if (strcmp(w[0], "calrt") == 0 && mode) {
	    /* save the whole vnacal_t to memory, load it, digest of global and calibration roots */
	    char *ctext = NULL; size_t clen = 0;
	    char tmpl[] = "/tmp/prop_calrt_XXXXXX";
	    const char *dir = getenv("PROP_TMP");
	    char path[4096];
	    vnacal_t *v2;
	    (void)ctext; (void)clen; (void)tmpl;
	    snprintf(path, sizeof(path), "%s/calrt_%ld.vnacal", dir ? dir : "/tmp", (long)getpid());
	    errno = 0;
	    ret = vnacal_save(vcp, path);
	    e = errno;
	    if (ret == 0) {
		v2 = vnacal_load(path, errfn, NULL);
		if (v2 == NULL) { ret = -3; e = errno; }
		else {
		    fputs("T:", po); digest(po, vnacal_property_get_subtree(v2, -1, "."));
		    if (ci >= 0) {
			int c2 = vnacal_find_calibration(v2, "cal");
			fputs("|", po); digest(po, vnacal_property_get_subtree(v2, c2, "."));
		    }
		    vnacal_free(v2);
		    e = 0;
		}
		remove(path);
	    }
	} else {
	    fprintf(stderr, "bad op %s\n", w[0]);
	    exit(2);
	}
	fclose(po);
	printf("%ld %s %s ", ret, errname(e), paylen ? pay : "-");
	digest(stdout, ROOT());
	if (check_tables(ROOT()) != 0) printf("!HT%d", check_tables(ROOT()));
	printf(" ");
	digest(stdout, aux);
	if (check_tables(aux) != 0) printf("!HT%d", check_tables(aux));
	if (ytext != NULL) { printf(" "); hexn(stdout, ytext, ylen); if (ylen == 0) printf("-"); }
	if (error_count && getenv("PROP_ERRCOUNT")) printf(" errcb=%d", error_count);
	printf("\n");
	fflush(stdout);
	free(pay); free(ytext); free(a); free(b);
    }
    free(line);
    if (mode) vnacal_free(vcp); else vnaproperty_delete(&root, ".");
    vnaproperty_delete(&aux, ".");
    return 0;
}
