/*
 * Harness for properties C15 / C05: executes operation scripts against the real vnadata_t
 * implementation and prints one canonical outcome line plus a digest per operation.
 *
 *   data_harness run      < script            > transcript of the implementation
 *   data_harness resolve  < model transcript  > model transcript with symbolic values resolved
 *
 * Script grammar (one op per line; <o> = object 0 .. NOBJ-1 (NOBJ = 4 slots); values "re,im" integers):
 *   <o> init t r c f | resize t r c f | settype t | addfreq x | getfreq i | setfreq i x | fmin |
 *       fmax | getfv | setfv N x.. | getcell f r c | setcell f r c v | getmat f | setmat f N v.. |
 *       gettovec r c | setfromvec r c N v.. | getz0 p | setz0 p v | setallz0 v | getz0v |
 *       setz0v N v.. | hasfz0 | getfz0 f p | setfz0 f p v | getfz0v f | setfz0v f N v.. | dims |
 *       meta | setft k | setfmt k | setfprec p | setdprec p
 *   conv <src> <dst> <newtype>
 *   reset                         (free all objects, allocate fresh ones)
 *   <o> allocinit t r c f         (vnadata_free of object o, then vnadata_alloc_and_init; when that
 *                                  returns NULL the slot receives a fresh vnadata_alloc object)
 *   <o> setfvself                 (vnadata_set_frequency_vector(v, vnadata_get_frequency_vector(v)))
 *   <o> typename k                (vnadata_get_type_name(k): payload "s <name>" or "s NULL")
 *   <o> setfmtbad j               (vnadata_set_format with the j-th of a few strings that do not
 *                                  parse: must fail, one error report, format unchanged)
 * Caller's vectors.  The harness is the caller of the vector-taking setters; the library cannot
 * check the length of the buffer it is handed.  For the ops above the harness always supplies a
 * buffer of exactly max(N, documented length) elements - the N listed values followed by zeros,
 * no slack behind them, so that a library that read more than the documented number of elements
 * would be reported by ASan - and the model's unchecked step does the same completion (nth i l 0):
 * the zeros are the harness's, not a statement about the library.
 * An op name with '!' appended (setfv! setmat! setfromvec! setz0v! setfz0v!) passes a heap buffer of
 * exactly the N listed elements (N >= 1), short or not: the caller error that DataModel.step_chk models as
 * RFault (ASan: heap-buffer-overflow READ in the library's copy).  Used by the "caller vectors"
 * part of checks/C15.py only; each such script is run in a process of its own.
 * The output buffer of gettovec has exactly `frequencies` elements (at least one).
 * The harness and the library are compiled without VNADATA_NO_BOUNDS_CHECK (the inline accessors
 * of vnadata.h keep their index tests; checks/C15.py verifies that nothing defines the macro).
 *
 * Output per op:  "R <ret> <errno> <callbacks> <payload>" and "D <o> <digest>" where the digest is
 * taken through the public getters (type, dimensions, every frequency, every cell, z0 mode, every
 * impedance, save options) plus, white box, the three allocation sizes (A) and the number of
 * allocated cells beyond the logical sizes that do not hold their initial value (J; the
 * invariant stated in vnadata_alloc.c says 0).
 *
 * "resolve" mode evaluates the symbolic values of the model transcript: "def k fn n M | Z"
 * calls the vnaconv function named fn (table generated from vnaconv.h by the check, not taken
 * from vnadata_convert.c) on the resolved arguments; L:re:im and T:k:i tokens are replaced by the
 * doubles, printed exactly like the "run" mode prints them.
 */
#include <complex.h>
#include <errno.h>
#include <math.h>
#include <stdio.h>
#include <stdlib.h>
#include <string.h>
#include "vnaconv.h"
#include "vnadata_internal.h"

typedef struct { const char *name; int kind; void *fn; } fn_entry_t;
/* kind: 0 (in,out) 2x2; 1 (in,out,z0) 2x2; 2 (in,outvec,z0) 2x2; 3 (in,out,n); 4 (in,out,z0,n);
 *       5 (in,outvec,z0,n) */
static const fn_entry_t fn_table[] = {
#include "data_fn_table.inc"
    { NULL, 0, NULL }
};

static const char *format_table[] = { "Sri", "SdB,Zri", "Zinma", "PRC,IL", "ri", "Tma,UdB" };
#define NFORMATS ((int)(sizeof(format_table) / sizeof(format_table[0])))
/* strings that vnadata_set_format must refuse: empty string, empty field, no Zin in dB, unknown
 * letter, trailing garbage, trailing comma */
static const char *bad_format_table[] = { "", "Sri,,Zma", "zindb", "q", "Smax", "Sri," };
#define NBADFORMATS ((int)(sizeof(bad_format_table) / sizeof(bad_format_table[0])))

#define NOBJ 4		/* object slots (the identifiers 0..3 of TwoObjModel.kstep) */

static int cb_count;
static void error_fn(const char *message, void *arg, vnaerr_category_t category)
{
    (void)message; (void)arg; (void)category;
    ++cb_count;
}

static void pd(double x)
{
    if (isnan(x)) {
	printf("nan");
    } else {
	printf("%a", x);
    }
}
static void pv(double complex v)
{
    pd(creal(v));
    printf(":");
    pd(cimag(v));
}
static void pfreq(double x)
{
    if (x == floor(x) && fabs(x) < 1e15) {
	printf("%lld", (long long)x);
    } else {
	printf("%a", x);
    }
}

/* ------------------------------------------------------------------ tokenizer */
static char *toks[4096];
static int ntoks, curtok;
static void split(char *line)
{
    ntoks = 0;
    curtok = 0;
    for (char *p = strtok(line, " \t\r\n"); p != NULL; p = strtok(NULL, " \t\r\n")) {
	if (ntoks < 4096) {
	    toks[ntoks++] = p;
	}
    }
}
static const char *next(void)
{
    if (curtok >= ntoks) {
	fprintf(stderr, "harness: short line\n");
	exit(3);
    }
    return toks[curtok++];
}
static int nint(void) { return atoi(next()); }
static double complex nval(void)
{
    const char *s = next();
    int re = 0, im = 0;
    sscanf(s, "%d,%d", &re, &im);
    return (double)re + I * (double)im;
}

/* ------------------------------------------------------------------ digest */
static void digest(int o, vnadata_t *vdp)
{
    vnadata_internal_t *vdip = VDP_TO_VDIP(vdp);
    int rows = vnadata_get_rows(vdp), cols = vnadata_get_columns(vdp);
    int freqs = vnadata_get_frequencies(vdp);
    int ports = rows > cols ? rows : cols;
    int cells = rows * cols;
    long junk = 0;
    const char *fmt;
    int k;

    printf("D %d t %d %d %d %d A %d %d %d", o, (int)vnadata_get_type(vdp), rows, cols, freqs,
	    vdip->vdi_p_allocation, vdip->vdi_f_allocation, vdip->vdi_m_allocation);
    for (int f = 0; f < vdip->vdi_f_allocation; ++f) {
	if (f >= freqs && vdp->vd_frequency_vector[f] != 0.0) {
	    ++junk;
	}
	if (vdp->vd_data[f] != NULL) {
	    for (int j = 0; j < vdip->vdi_m_allocation; ++j) {
		if ((f >= freqs || j >= cells) && vdp->vd_data[f][j] != 0.0) {
		    ++junk;
		}
	    }
	}
	if ((vdip->vdi_flags & VF_PER_F_Z0) && vdip->vdi_p_allocation > 0) {
	    for (int j = 0; j < vdip->vdi_p_allocation; ++j) {
		if ((f >= freqs || j >= ports) &&
			vdip->vdi_z0_vector_vector[f][j] != VNADATA_DEFAULT_Z0) {
		    ++junk;
		}
	    }
	}
    }
    if (!(vdip->vdi_flags & VF_PER_F_Z0)) {
	for (int j = ports; j < vdip->vdi_p_allocation; ++j) {
	    if (vdip->vdi_z0_vector[j] != VNADATA_DEFAULT_Z0) {
		++junk;
	    }
	}
    }
    printf(" J %ld F", junk);
    for (int f = 0; f < freqs; ++f) {
	printf(" ");
	pfreq(vnadata_get_frequency(vdp, f));
    }
    printf(" M");
    for (int f = 0; f < freqs; ++f) {
	if (f > 0) {
	    printf(" ;");
	}
	for (int r = 0; r < rows; ++r) {
	    for (int c = 0; c < cols; ++c) {
		printf(" ");
		pv(vnadata_get_cell(vdp, f, r, c));
	    }
	}
    }
    printf(" Z %d", vnadata_has_fz0(vdp) ? 1 : 0);
    if (vnadata_has_fz0(vdp)) {
	for (int f = 0; f < freqs; ++f) {
	    if (f > 0) {
		printf(" ;");
	    }
	    for (int p = 0; p < ports; ++p) {
		printf(" ");
		pv(vnadata_get_fz0(vdp, f, p));
	    }
	}
    } else {
	for (int p = 0; p < ports; ++p) {
	    printf(" ");
	    pv(vnadata_get_z0(vdp, p));
	}
    }
    fmt = vnadata_get_format(vdp);
    k = -1;
    if (fmt != NULL) {
	k = -2;
	for (int i = 0; i < NFORMATS; ++i) {
	    if (strcmp(fmt, format_table[i]) == 0) {
		k = i;
	    }
	}
    }
    printf(" X %d %d %d %d\n", (int)vnadata_get_filetype(vdp), k,
	    vnadata_get_fprecision(vdp), vnadata_get_dprecision(vdp));
}

/* ------------------------------------------------------------------ run mode */
static int exact_buffer;	/* op name ended in '!': the buffer has exactly the listed elements */

static double complex *vlist(int needed)
{
    int n = nint();
    int size = exact_buffer ? n : (n > needed ? n : needed);
    double complex *v = calloc(size > 0 ? size : 1, sizeof(double complex));

    for (int i = 0; i < n; ++i) {
	v[i] = nval();
    }
    return v;
}

static void rhead(const char *ret)
{
    printf("R %s ", ret);
    if (strcmp(ret, "ok") == 0) {
	printf("0");		/* errno after a successful call is unspecified */
    } else if (errno == 0) {
	printf("0");
    } else if (errno == EINVAL) {
	printf("EINVAL");
    } else {
	printf("E%d", errno);
    }
    printf(" %d ", cb_count);
}
static void rint_(int rc)
{
    rhead(rc == 0 ? "ok" : rc == -1 ? "fail" : "other");
    printf("-\n");
}
static void rval(double complex v)
{
    if (creal(v) == HUGE_VAL && cb_count > 0) {
	rhead("fail");
	printf("-\n");
    } else {
	rhead("ok");
	printf("v ");
	pv(v);
	printf("\n");
    }
}
static void rfreq(double x)
{
    if (x == HUGE_VAL && cb_count > 0) {
	rhead("fail");
	printf("-\n");
    } else {
	rhead("ok");
	printf("f ");
	pfreq(x);
	printf("\n");
    }
}
static void rvec(const double complex *p, int n)
{
    if (p == NULL && cb_count > 0) {
	rhead("fail");
	printf("-\n");
	return;
    }
    rhead("ok");
    printf("V %d", n);
    for (int i = 0; i < n; ++i) {
	printf(" ");
	if (p == NULL) {
	    printf("NULL");
	} else {
	    pv(p[i]);
	}
    }
    printf("\n");
}

/* a pointer getter of the library: the raw pointer is printed as its own token (@N = NULL, @P =
 * not NULL) behind the values, so that a NULL answered to a successful call - allocation still
 * 0 - is compared with the model's prediction (AccessorsModel.ptr_null) and not hidden by the
 * classification, which says "fail" only for NULL with an error report */
static void rptr(const double complex *p, int n)
{
    if (p == NULL && cb_count > 0) {
	rhead("fail");
	printf("-\n");
	return;
    }
    rhead("ok");
    printf("V %d", n);
    for (int i = 0; i < n; ++i) {
	printf(" ");
	if (p == NULL) {
	    printf("NULL");
	} else {
	    pv(p[i]);
	}
    }
    printf(" %s\n", p == NULL ? "@N" : "@P");
}

static int run(void)
{
    static char line[1 << 16];
    vnadata_t *vd[NOBJ];

    for (int i = 0; i < NOBJ; ++i) {
	if ((vd[i] = vnadata_alloc(error_fn, NULL)) == NULL) {
	    return 2;
	}
    }
    while (fgets(line, sizeof(line), stdin) != NULL) {
	const char *first, *name;
	vnadata_t *vdp;
	int o;

	split(line);
	if (ntoks == 0 || toks[0][0] == '#') {
	    continue;
	}
	fflush(stdout);
	first = next();
	errno = 0;
	cb_count = 0;
	if (strcmp(first, "reset") == 0) {
	    for (int i = 0; i < NOBJ; ++i) {
		vnadata_free(vd[i]);
		if ((vd[i] = vnadata_alloc(error_fn, NULL)) == NULL) {
		    return 2;
		}
	    }
	    errno = 0;
	    rint_(0);
	    digest(0, vd[0]);
	    continue;
	}
	if (strcmp(first, "conv") == 0) {
	    int a = nint(), b = nint(), nt = nint();
	    int rc;

	    if (a < 0 || a >= NOBJ || b < 0 || b >= NOBJ) {
		fprintf(stderr, "harness: bad object index\n");
		return 3;
	    }
	    rc = vnadata_convert(vd[a], vd[b], (vnadata_parameter_type_t)nt);
	    rint_(rc);
	    digest(b, vd[b]);
	    continue;
	}
	o = atoi(first);
	if (o < 0 || o >= NOBJ) {
	    fprintf(stderr, "harness: bad object index %s\n", first);
	    return 3;
	}
	vdp = vd[o];
	name = next();
	exact_buffer = 0;
	if (strcmp(name, "allocinit") == 0) {
	    int t = nint(), r = nint(), c = nint(), f = nint();

	    vnadata_free(vd[o]);
	    errno = 0;
	    vd[o] = vnadata_alloc_and_init(error_fn, NULL, (vnadata_parameter_type_t)t, r, c, f);
	    if (vd[o] == NULL) {
		rint_(-1);
		vd[o] = vnadata_alloc(error_fn, NULL);
		if (vd[o] == NULL) {
		    return 2;
		}
	    } else {
		rint_(0);
	    }
	    digest(o, vd[o]);
	    continue;
	}
	if (strcmp(name, "typename") == 0) {
	    const char *s = vnadata_get_type_name((vnadata_parameter_type_t)nint());

	    rhead("ok");
	    printf("s %s\n", s != NULL ? s : "NULL");
	    digest(o, vdp);
	    continue;
	}
	if (strcmp(name, "setfmtbad") == 0) {
	    int j = nint();

	    rint_(vnadata_set_format(vdp, bad_format_table[((j % NBADFORMATS) + NBADFORMATS) % NBADFORMATS]));
	    digest(o, vdp);
	    continue;
	}
	{
	    size_t len = strlen(name);

	    if (len > 1 && name[len - 1] == '!') {
		static char stripped[64];

		if (len >= sizeof(stripped)) {
		    fprintf(stderr, "harness: unknown op %s\n", name);
		    return 3;
		}
		memcpy(stripped, name, len - 1);
		stripped[len - 1] = '\0';
		name = stripped;
		exact_buffer = 1;
	    }
	}
	{
	    int rows = vnadata_get_rows(vdp), cols = vnadata_get_columns(vdp);
	    int freqs = vnadata_get_frequencies(vdp);
	    int ports = rows > cols ? rows : cols;
	    int cells = rows * cols;

	    if (strcmp(name, "init") == 0) {
		int t = nint(), r = nint(), c = nint(), f = nint();
		rint_(vnadata_init(vdp, (vnadata_parameter_type_t)t, r, c, f));
	    } else if (strcmp(name, "resize") == 0) {
		int t = nint(), r = nint(), c = nint(), f = nint();
		rint_(vnadata_resize(vdp, (vnadata_parameter_type_t)t, r, c, f));
	    } else if (strcmp(name, "settype") == 0) {
		rint_(vnadata_set_type(vdp, (vnadata_parameter_type_t)nint()));
	    } else if (strcmp(name, "addfreq") == 0) {
		rint_(vnadata_add_frequency(vdp, (double)nint()));
	    } else if (strcmp(name, "getfreq") == 0) {
		rfreq(vnadata_get_frequency(vdp, nint()));
	    } else if (strcmp(name, "setfreq") == 0) {
		int i = nint(), x = nint();
		rint_(vnadata_set_frequency(vdp, i, (double)x));
	    } else if (strcmp(name, "fmin") == 0) {
		rfreq(vnadata_get_fmin(vdp));
	    } else if (strcmp(name, "fmax") == 0) {
		rfreq(vnadata_get_fmax(vdp));
	    } else if (strcmp(name, "getfv") == 0) {
		const double *p = vnadata_get_frequency_vector(vdp);
		rhead("ok");
		printf("F %d", freqs);
		for (int i = 0; i < freqs; ++i) {
		    printf(" ");
		    if (p == NULL) {
			printf("NULL");
		    } else {
			pfreq(p[i]);
		    }
		}
		printf(" %s\n", p == NULL ? "@N" : "@P");
	    } else if (strcmp(name, "setfvself") == 0) {
		/* the library's own frequency vector handed back to it: no NULL literal in user code */
		rint_(vnadata_set_frequency_vector(vdp, vnadata_get_frequency_vector(vdp)));
	    } else if (strcmp(name, "setfv") == 0) {
		int n = nint();
		int size = exact_buffer ? n : (n > freqs ? n : freqs);
		double *v = calloc(size > 0 ? size : 1, sizeof(double));
		for (int i = 0; i < n; ++i) {
		    v[i] = (double)nint();
		}
		rint_(vnadata_set_frequency_vector(vdp, v));
		free(v);
	    } else if (strcmp(name, "getcell") == 0) {
		int f = nint(), r = nint(), c = nint();
		rval(vnadata_get_cell(vdp, f, r, c));
	    } else if (strcmp(name, "setcell") == 0) {
		int f = nint(), r = nint(), c = nint();
		double complex v = nval();
		rint_(vnadata_set_cell(vdp, f, r, c, v));
	    } else if (strcmp(name, "getmat") == 0) {
		rptr(vnadata_get_matrix(vdp, nint()), cells);
	    } else if (strcmp(name, "setmat") == 0) {
		int f = nint();
		double complex *v = vlist(cells);
		rint_(vnadata_set_matrix(vdp, f, v));
		free(v);
	    } else if (strcmp(name, "gettovec") == 0) {
		int r = nint(), c = nint();
		double complex *v = calloc(freqs > 0 ? freqs : 1, sizeof(double complex));
		int rc = vnadata_get_to_vector(vdp, r, c, v);
		if (rc == 0) {
		    rvec(v, freqs);
		} else {
		    rint_(rc);
		}
		free(v);
	    } else if (strcmp(name, "setfromvec") == 0) {
		int r = nint(), c = nint();
		double complex *v = vlist(freqs);
		rint_(vnadata_set_from_vector(vdp, r, c, v));
		free(v);
	    } else if (strcmp(name, "getz0") == 0) {
		rval(vnadata_get_z0(vdp, nint()));
	    } else if (strcmp(name, "setz0") == 0) {
		int p = nint();
		double complex v = nval();
		rint_(vnadata_set_z0(vdp, p, v));
	    } else if (strcmp(name, "setallz0") == 0) {
		rint_(vnadata_set_all_z0(vdp, nval()));
	    } else if (strcmp(name, "getz0v") == 0) {
		rptr(vnadata_get_z0_vector(vdp), ports);
	    } else if (strcmp(name, "setz0v") == 0) {
		double complex *v = vlist(ports);
		rint_(vnadata_set_z0_vector(vdp, v));
		free(v);
	    } else if (strcmp(name, "hasfz0") == 0) {
		bool b = vnadata_has_fz0(vdp);
		rhead("ok");
		printf("b %d\n", b ? 1 : 0);
	    } else if (strcmp(name, "getfz0") == 0) {
		int f = nint(), p = nint();
		rval(vnadata_get_fz0(vdp, f, p));
	    } else if (strcmp(name, "setfz0") == 0) {
		int f = nint(), p = nint();
		double complex v = nval();
		rint_(vnadata_set_fz0(vdp, f, p, v));
	    } else if (strcmp(name, "getfz0v") == 0) {
		rptr(vnadata_get_fz0_vector(vdp, nint()), ports);
	    } else if (strcmp(name, "setfz0v") == 0) {
		int f = nint();
		double complex *v = vlist(ports);
		rint_(vnadata_set_fz0_vector(vdp, f, v));
		free(v);
	    } else if (strcmp(name, "dims") == 0) {
		rhead("ok");
		printf("d %d %d %d %d\n", (int)vnadata_get_type(vdp), rows, cols, freqs);
	    } else if (strcmp(name, "meta") == 0) {
		const char *fmt = vnadata_get_format(vdp);
		int k = -1;
		if (fmt != NULL) {
		    k = -2;
		    for (int i = 0; i < NFORMATS; ++i) {
			if (strcmp(fmt, format_table[i]) == 0) {
			    k = i;
			}
		    }
		}
		{
		    int ft = (int)vnadata_get_filetype(vdp);
		    int fp = vnadata_get_fprecision(vdp), dp = vnadata_get_dprecision(vdp);
		    rhead("ok");
		    printf("m %d %d %d %d\n", ft, k, fp, dp);
		}
	    } else if (strcmp(name, "setft") == 0) {
		rint_(vnadata_set_filetype(vdp, (vnadata_filetype_t)nint()));
	    } else if (strcmp(name, "setfmt") == 0) {
		int k = nint();
		rint_(vnadata_set_format(vdp, k < 0 || k >= NFORMATS ? NULL : format_table[k]));
	    } else if (strcmp(name, "setfprec") == 0) {
		rint_(vnadata_set_fprecision(vdp, nint()));
	    } else if (strcmp(name, "setdprec") == 0) {
		rint_(vnadata_set_dprecision(vdp, nint()));
	    } else {
		fprintf(stderr, "harness: unknown op %s\n", name);
		return 3;
	    }
	}
	digest(o, vdp);
    }
    fflush(stdout);
    for (int i = 0; i < NOBJ; ++i) {
	vnadata_free(vd[i]);
    }
    return 0;
}

/* ------------------------------------------------------------------ resolve mode */
typedef struct { int len; double complex *v; } tokval_t;
static tokval_t *tokvals;
static int ntokvals;

static int resolve_value(const char *s, double complex *out)
{
    if (s[0] == 'L' && s[1] == ':') {
	int re = 0, im = 0;
	if (sscanf(s + 2, "%d:%d", &re, &im) != 2) {
	    return -1;
	}
	*out = (double)re + I * (double)im;
	return 0;
    }
    if (s[0] == 'T' && s[1] == ':') {
	int k = -1, i = -1;
	if (sscanf(s + 2, "%d:%d", &k, &i) != 2 || k < 0 || k >= ntokvals ||
		tokvals[k].v == NULL || i < 0 || i >= tokvals[k].len) {
	    return -1;
	}
	*out = tokvals[k].v[i];
	return 0;
    }
    return -1;
}

static int resolve(void)
{
    static char line[1 << 20];

    while (fgets(line, sizeof(line), stdin) != NULL) {
	split(line);
	if (ntoks == 0) {
	    continue;
	}
	if (strcmp(toks[0], "def") == 0) {
	    int k, n, nn, nm = 0, nz = 0, len;
	    const char *fname;
	    const fn_entry_t *e;
	    double complex *m, *z, *out;
	    int bar = 0;

	    (void)next();
	    k = nint();
	    fname = next();
	    n = nint();
	    nn = n * n;
	    m = calloc(nn + 8, sizeof(double complex));
	    z = calloc(n + 8, sizeof(double complex));
	    while (curtok < ntoks) {
		const char *s = next();
		double complex v;
		if (strcmp(s, "|") == 0) {
		    bar = 1;
		    continue;
		}
		if (resolve_value(s, &v) == -1) {
		    fprintf(stderr, "resolve: bad value %s\n", s);
		    return 3;
		}
		if (!bar) {
		    if (nm < nn) {
			m[nm++] = v;
		    }
		} else if (nz < n) {
		    z[nz++] = v;
		}
	    }
	    for (e = fn_table; e->name != NULL; ++e) {
		if (strcmp(e->name, fname) == 0) {
		    break;
		}
	    }
	    if (e->name == NULL) {
		fprintf(stderr, "resolve: no function named %s\n", fname);
		return 3;
	    }
	    if ((e->kind <= 2 && n != 2) ||
		    ((e->kind == 0 || e->kind == 3) && nz != 0) ||
		    ((e->kind != 0 && e->kind != 3) && nz != n) || nm != nn) {
		fprintf(stderr, "resolve: %s called with n=%d, %d matrix cells, %d z0 values\n",
			fname, n, nm, nz);
		return 3;
	    }
	    len = (e->kind == 2 || e->kind == 5) ? n : nn;
	    out = calloc(len + 8, sizeof(double complex));
	    switch (e->kind) {
	    case 0:
		((void (*)(const double complex (*)[2], double complex (*)[2]))e->fn)(
			(const double complex (*)[2])m, (double complex (*)[2])out);
		break;
	    case 1:
		((void (*)(const double complex (*)[2], double complex (*)[2],
			   const double complex *))e->fn)(
			(const double complex (*)[2])m, (double complex (*)[2])out, z);
		break;
	    case 2:
		((void (*)(const double complex (*)[2], double complex *,
			   const double complex *))e->fn)((const double complex (*)[2])m, out, z);
		break;
	    case 3:
		((void (*)(const double complex *, double complex *, int))e->fn)(m, out, n);
		break;
	    case 4:
	    case 5:
		((void (*)(const double complex *, double complex *, const double complex *,
			   int))e->fn)(m, out, z, n);
		break;
	    default:
		return 3;
	    }
	    if (k >= ntokvals) {
		int nn2 = k + 64;
		tokvals = realloc(tokvals, nn2 * sizeof(tokval_t));
		memset(&tokvals[ntokvals], 0, (nn2 - ntokvals) * sizeof(tokval_t));
		ntokvals = nn2;
	    }
	    tokvals[k].len = len;
	    tokvals[k].v = out;
	    free(m);
	    free(z);
	    continue;
	}
	for (int i = 0; i < ntoks; ++i) {
	    double complex v;
	    if (i > 0) {
		printf(" ");
	    }
	    if ((toks[i][0] == 'L' || toks[i][0] == 'T') && toks[i][1] == ':') {
		if (resolve_value(toks[i], &v) == -1) {
		    fprintf(stderr, "resolve: bad value %s\n", toks[i]);
		    return 3;
		}
		pv(v);
	    } else {
		printf("%s", toks[i]);
	    }
	}
	printf("\n");
    }
    return 0;
}

int main(int argc, char **argv)
{
    if (argc >= 2 && strcmp(argv[1], "run") == 0) {
	return run();
    }
    if (argc >= 2 && strcmp(argv[1], "resolve") == 0) {
	return resolve();
    }
    fprintf(stderr, "usage: data_harness run|resolve\n");
    return 2;
}
