/*
 * Compiles src/vnacal_new_solve_auto.c from the working tree, unmodified, with its DEBUG prints
 * enabled and routed (like the weight constructor and the solvers) to the taps of
 * selfcal_harness.c.
 */
#define _vnacal_new_solve_calc_weights	wb_calc_weights
#define _vnacommon_qr			wb_qr
#define _vnacommon_mldivide		wb_mldivide
#define DEBUG 2
#define printf wb_printf
#include "vnacal_new_solve_auto.c"
