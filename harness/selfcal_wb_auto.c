/*
 * Compiles src/vnacal_new_solve_auto.c from the working tree, unmodified, with its DEBUG prints
 * enabled and routed (like the weight constructor and the solvers) to the taps of
 * selfcal_harness.c.
 */
#define _vnacal_new_solve_calc_weights	wb_calc_weights
#define _vnacommon_qr			wb_qr
#define _vnacommon_mldivide		wb_mldivide
#define DEBUG 2
#define printf wb_printf
#include "vnacal_new_solve_auto.c"

/* the two static walks, callable from the "wbguard" command of selfcal_harness.c */
#undef printf
void wb_save_v(const vnacal_new_solve_state_t *vnssp, double complex *buf)
{
    save_v_matrices(vnssp, buf);
}
void wb_restore_v(vnacal_new_solve_state_t *vnssp, const double complex *buf)
{
    restore_v_matrices(vnssp, buf);
}
