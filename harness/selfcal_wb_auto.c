/*
 * Compiles src/vnacal_new_solve_auto.c from the working tree, unmodified, with its DEBUG prints
 * enabled and routed (like the weight constructor and the solvers) to the taps of
 * selfcal_harness.c.
 *
 * Per-pass kernel dump (environment variable WBK_DUMP set; property C02, package E): every input
 * and every intermediate result of one pass of the Levenberg-Marquardt loop, for the comparison
 * with coq/SelfCal/AutoKernelModel.v.  The source text of solve_auto is still compiled unmodified:
 *   - _vnacal_new_solve_update_all_v_matrices (called once per pass right after the solve for
 *     x_vector, with the solve state) and the weight constructor are routed through taps that see
 *     the solve state and the weight vector;
 *   - solve_auto's own print_cmatrix() output (DEBUG 2: a, b, x, j, k, j1, k1, d) is caught by the
 *     printf tap and re-printed with 17 significant digits.
 * Lines (all start with "wbk"):
 *   wbk pass <findex> <equations> <x_length> <p_length> <correlated> <systems> <unknowns per system>
 *   wbk p <re im>*p_length                       vnss_p_vector[..][findex] on entry of the pass
 *   wbk eq <sindex> <w | -> <nterms> { <neg 0|1> <m: re im | -> <s: K re im | U idx | -> <v: re im | -> <xindex | -> }*
 *   wbk corr <weight> <pindex1> <U idx | K re im>
 *   wbk eqvj <sindex> <nterms> { <v: re im | -> }*   the v factors as the Jacobian loop reads them
 *   wbk mat <name> <re im>*                      a, b, x, j, k, best_*, j1, k1, d in row-major order
 *   wbk det <re im>                              value returned by _vnacommon_mldivide
 *   wbk qrarray <m> <n> <re im>*, wbk qmat <m> <re im>*   the array and Q after _vnacommon_qr
 */
#define _vnacal_new_solve_calc_weights		wbk_calc_weights
#define _vnacal_new_solve_update_all_v_matrices	wbk_update_all_v
#define _vnacommon_qr				wbk_qr
#define _vnacommon_mldivide			wbk_mldivide
#define DEBUG 2
#define printf wbk_printf
#include "vnacal_new_solve_auto.c"
#undef printf
#undef _vnacal_new_solve_calc_weights
#undef _vnacal_new_solve_update_all_v_matrices
#undef _vnacommon_qr
#undef _vnacommon_mldivide
#include <stdarg.h>

int printf(const char *fmt, ...);

/* the library's function behind the tap */
int _vnacal_new_solve_update_all_v_matrices(const char *function,
	vnacal_new_solve_state_t *vnssp, const double complex *x_vector, int x_length);

/* taps of selfcal_harness.c */
double *wb_calc_weights(vnacal_new_solve_state_t *vnssp);
int wb_qr(complex double *a, complex double *q, complex double *r, int m, int n);
double complex wb_mldivide(complex double *x, complex double *a, const double complex *b,
	int m, int n);
int wb_printf(const char *fmt, ...);

static int wbk_on = -1;
static int wbk_inmat;

static int wbk_enabled(void)
{
    if (wbk_on < 0)
	wbk_on = getenv("WBK_DUMP") != NULL;
    return wbk_on;
}

static void wbk_opt(bool have, double complex v)
{
    if (have)
	printf(" %.17g %.17g", creal(v), cimag(v));
    else
	printf(" -");
}

/*
 * wbk_dump_pass: everything one pass reads.  The equations are walked with the library's own
 * iterator, exactly as the two loops of solve_auto do; the factors of every term are printed
 * separately.  The iterator is restarted by solve_auto (vs_start_system) before its next use.
 */
static void wbk_dump_pass(vnacal_new_solve_state_t *vnssp, const double *w_vector,
	int equations, int x_length)
{
    vnacal_new_t *vnp = vnssp->vnss_vnp;
    const vnacal_layout_t *vlp = &vnp->vn_layout;
    const int findex = vnssp->vnss_findex;
    const double frequency = vnp->vn_frequency_vector[findex];
    const int p_length = vnp->vn_unknown_parameters;
    int equation = 0;

    printf("wbk pass %d %d %d %d %d %d %d\n", findex, equations, x_length, p_length,
	    vnp->vn_correlated_parameters, vnp->vn_systems, vlp->vl_t_terms - 1);
    printf("wbk p");
    for (int i = 0; i < p_length; ++i)
	printf(" %.17g %.17g", creal(vnssp->vnss_p_vector[i][findex]),
		cimag(vnssp->vnss_p_vector[i][findex]));
    printf("\n");
    for (int sindex = 0; sindex < vnp->vn_systems; ++sindex) {
	vs_start_system(vnssp, sindex);
	while (vs_next_equation(vnssp)) {
	    vnacal_new_equation_t *vnep = vnssp->vnss_vnep;
	    vnacal_new_measurement_t *vnmp = vnep->vne_vnmp;
	    int nterms = 0;

	    while (vs_next_term(vnssp))
		++nterms;
	    printf("wbk eq %d", sindex);
	    if (w_vector != NULL)
		printf(" %.17g", w_vector[equation]);
	    else
		printf(" -");
	    printf(" %d", nterms);
	    /* second walk over the same equation: restart the term iterator */
	    vnssp->vnss_iterator_state = VNACAL_NI_EQUATION;
	    vnssp->vnss_vntp = NULL;
	    while (vs_next_term(vnssp)) {
		const int xindex = vs_get_xindex(vnssp);
		const int s_cell = vs_get_s_cell(vnssp);

		printf(" %d", vs_get_negative(vnssp) ? 1 : 0);
		wbk_opt(vs_have_m(vnssp), vs_have_m(vnssp) ? vs_get_m(vnssp) : 0.0);
		if (s_cell < 0) {
		    printf(" -");
		} else {
		    vnacal_new_parameter_t *vnprp = vnmp->vnm_s_matrix[s_cell];

		    if (vnprp != NULL && vnprp->vnpr_unknown) {
			printf(" U %d", vnprp->vnpr_unknown_index);
		    } else {
			double complex s = vs_get_s(vnssp);

			printf(" K %.17g %.17g", creal(s), cimag(s));
		    }
		}
		wbk_opt(vs_have_v(vnssp), vs_have_v(vnssp) ? vs_get_v(vnssp) : 0.0);
		if (xindex >= 0)
		    printf(" %d", xindex);
		else
		    printf(" -");
	    }
	    printf("\n");
	    ++equation;
	}
    }
    for (vnacal_new_parameter_t *vnprp1 = vnp->vn_unknown_parameter_list; vnprp1 != NULL;
	    vnprp1 = vnprp1->vnpr_next_unknown) {
	vnacal_parameter_t *vpmrp1 = vnprp1->vnpr_parameter;
	vnacal_new_parameter_t *vnprp2;

	if (vpmrp1->vpmr_type != VNACAL_CORRELATED)
	    continue;
	vnprp2 = vnprp1->vnpr_correlate;
	printf("wbk corr %.17g %d", 1.0 / _vnacal_get_correlated_sigma(vpmrp1, frequency),
		vnprp1->vnpr_unknown_index);
	if (vnprp2->vnpr_unknown) {
	    printf(" U %d\n", vnprp2->vnpr_unknown_index);
	} else {
	    double complex v = _vnacal_get_parameter_value_i(vnprp2->vnpr_parameter, frequency);

	    printf(" K %.17g %.17g\n", creal(v), cimag(v));
	}
    }
}

/*
 * wbk_dump_vj: the v factor of every term as the SECOND walk of the pass (Jacobian and residual)
 * reads it, i.e. after _vnacal_new_solve_update_all_v_matrices has recomputed the V matrices from
 * the x_vector of this pass (a_matrix and b_vector were formed with the previous ones).
 *   wbk eqvj <sindex> <nterms> { <v: re im | -> }*
 */
static void wbk_dump_vj(vnacal_new_solve_state_t *vnssp)
{
    vnacal_new_t *vnp = vnssp->vnss_vnp;

    for (int sindex = 0; sindex < vnp->vn_systems; ++sindex) {
	vs_start_system(vnssp, sindex);
	while (vs_next_equation(vnssp)) {
	    int nterms = 0;

	    while (vs_next_term(vnssp))
		++nterms;
	    printf("wbk eqvj %d %d", sindex, nterms);
	    vnssp->vnss_iterator_state = VNACAL_NI_EQUATION;
	    vnssp->vnss_vntp = NULL;
	    while (vs_next_term(vnssp))
		wbk_opt(vs_have_v(vnssp), vs_have_v(vnssp) ? vs_get_v(vnssp) : 0.0);
	    printf("\n");
	}
    }
}

static const double *wbk_w_vector;

double *wbk_calc_weights(vnacal_new_solve_state_t *vnssp)
{
    double *w = wb_calc_weights(vnssp);

    wbk_w_vector = w;
    return w;
}

/*
 * wbk_update_all_v: solve_auto calls _vnacal_new_solve_update_all_v_matrices once per pass, after
 * the QR solve for x_vector and before anything else is changed; the pass is dumped here.  The
 * weight vector of the current call is the one last returned by the weight constructor when (and
 * only when) an error model is set -- the condition solve_auto itself uses.
 */
int wbk_update_all_v(const char *function, vnacal_new_solve_state_t *vnssp,
	const double complex *x_vector, int x_length)
{
    vnacal_new_t *vnp = vnssp->vnss_vnp;
    int rv;

    if (wbk_enabled())
	wbk_dump_pass(vnssp, vnp->vn_m_error_vector != NULL ? wbk_w_vector : NULL,
		vnp->vn_equations, x_length);
    rv = _vnacal_new_solve_update_all_v_matrices(function, vnssp, x_vector, x_length);
    if (rv != -1 && wbk_enabled())
	wbk_dump_vj(vnssp);
    return rv;
}

/*
 * wbk_qr: _vnacommon_qr as solve_auto calls it.  After the call the array a holds what
 * _vnacommon_qrd left in it (reflection vectors on and below the diagonal, R above) and q the
 * matrix formed from it; both are printed for the comparison with AutoKernelQrQ.qr_formq.
 *   wbk qrarray <m> <n> <re im>*(m*n)
 *   wbk qmat <m> <re im>*(m*m)
 */
int wbk_qr(complex double *a, complex double *q, complex double *r, int m, int n)
{
    int rank = wb_qr(a, q, r, m, n);

    if (wbk_enabled()) {
	printf("wbk qrarray %d %d", m, n);
	for (int i = 0; i < m * n; ++i)
	    printf(" %.17g %.17g", creal(a[i]), cimag(a[i]));
	printf("\nwbk qmat %d", m);
	for (int i = 0; i < m * m; ++i)
	    printf(" %.17g %.17g", creal(q[i]), cimag(q[i]));
	printf("\n");
    }
    return rank;
}

double complex wbk_mldivide(complex double *x, complex double *a,
	const double complex *b, int m, int n)
{
    double complex d = wb_mldivide(x, a, b, m, n);

    if (wbk_enabled())
	printf("wbk det %.17g %.17g\n", creal(d), cimag(d));
    return d;
}

/*
 * wbk_printf: solve_auto's printf.  The pieces of print_cmatrix ("%s = [\n", " %+.6f%+.6fj", "\n",
 * "]\n") are re-printed in full precision when the kernel dump is on and dropped otherwise; every
 * other format is handed to wb_printf of selfcal_harness.c with its arguments (at most two, all
 * double, or one int).
 */
int wbk_printf(const char *fmt, ...)
{
    va_list ap;
    int rv = 0;

    va_start(ap, fmt);
    if (strcmp(fmt, "%s = [\n") == 0) {
	const char *name = va_arg(ap, const char *);

	wbk_inmat = 1;
	if (wbk_enabled())
	    printf("wbk mat %s", name);
    } else if (strcmp(fmt, " %+.6f%+.6fj") == 0) {
	double re = va_arg(ap, double);
	double im = va_arg(ap, double);

	if (wbk_enabled())
	    printf(" %.17g %.17g", re, im);
    } else if (wbk_inmat && strcmp(fmt, "\n") == 0) {
	/* end of a matrix row */
    } else if (wbk_inmat && strcmp(fmt, "]\n") == 0) {
	wbk_inmat = 0;
	if (wbk_enabled())
	    printf("\n");
    } else {
	int nconv = 0;
	char kind = 0;

	for (const char *p = fmt; *p != '\0'; ++p) {
	    if (*p != '%')
		continue;
	    ++p;
	    if (*p == '%')
		continue;
	    while (*p != '\0' && strchr("+-# 0123456789.", *p) != NULL)
		++p;
	    kind = *p;
	    ++nconv;
	    if (*p == '\0')
		break;
	}
	if (nconv == 0) {
	    rv = wb_printf(fmt);
	} else if (kind == 'd' && nconv == 1) {
	    int i = va_arg(ap, int);

	    rv = wb_printf(fmt, i);
	} else if (nconv == 1) {
	    double a = va_arg(ap, double);

	    rv = wb_printf(fmt, a);
	} else {
	    double a = va_arg(ap, double);
	    double b = va_arg(ap, double);

	    rv = wb_printf(fmt, a, b);
	}
    }
    va_end(ap);
    return rv;
}

/* the two static walks, callable from the "wbguard" command of selfcal_harness.c */
#undef printf
void wb_save_v(const vnacal_new_solve_state_t *vnssp, double complex *buf)
{
    save_v_matrices(vnssp, buf);
}
void wb_restore_v(vnacal_new_solve_state_t *vnssp, const double complex *buf)
{
    restore_v_matrices(vnssp, buf);
}
