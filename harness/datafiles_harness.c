/*
 * Network-data file harness (properties C06, C08, C09): builds vnadata_t objects from a text
 * script, saves them to memory streams, loads byte strings, and prints outcomes and digests
 * obtained through the public getters only.  Doubles are read with strtod (hex accepted) and
 * printed with %a.
 *
 * One command per line, one output line per command:
 *   case ID                          -> CASE ID
 *   new S TYPE ROWS COLS FREQS       -> NEW rc           (TYPE -1: vnadata_alloc only)
 *   freq S I X | z0 S PORT RE IM | fz0 S F PORT RE IM | cell S F R C RE IM
 *   mat S F N re im ...              (row-major cells 0..N-1 through vnadata_set_cell)
 *   filetype S N | format S STR|- | fprec S N | dprec S N     -> SET rc
 *   cksave S NAME                    -> CKSAVE rc errno nerr nwarn # last message
 *   save S NAME                      -> SAVE rc errno nerr nwarn nbytes HEX # last message
 *   load S NAME HEX|@|-              -> LOAD rc errno nerr nwarn lastcat # last message ## first error message
 *                                       (@ = bytes of the last save, - = empty input)
 *   dump S                           -> DUMP type rows cols freqs fz0 filetype fprec dprec format | F .. | Z .. | D ..
 *   free S                           -> FREE
 *   convert S T TYPE                 -> SET rc   (vnadata_convert(slot S, slot T, TYPE); slot T allocated when empty)
 *   z0all S RE                       -> SET rc   (vnadata_set_all_z0)
 * A load or save that runs longer than VERIF_ALARM seconds (default 5) prints HANG and exits with 95.
 *   live                             -> LIVE n   (library blocks still allocated; needs allocwrap)
 */
#include <complex.h>
#include <errno.h>
#include <math.h>
#include <signal.h>
#include <unistd.h>
#include <stdio.h>
#include <stdlib.h>
#include <string.h>
#include <vnadata.h>

#ifdef USE_ALLOCWRAP
extern void verif_alloc_track(int on);
extern long verif_live_blocks(void);
#define TRACK(x) verif_alloc_track(x)
#else
#define TRACK(x) ((void)0)
static long verif_live_blocks(void) { return -1; }
#endif

#define NSLOT 4
static vnadata_t *slot[NSLOT];
static int nerr, nwarn, lastcat;
static char lastmsg[400];
static char firstmsg[400];
static char *lastbuf;
static size_t lastlen;

static void error_fn(const char *message, void *arg, vnaerr_category_t category)
{
    (void)arg;
    if (category == VNAERR_WARNING) {
	++nwarn;
    } else {
	++nerr;
	lastcat = (int)category;
    }
    snprintf(lastmsg, sizeof(lastmsg), "%s", message);
    for (char *p = lastmsg; *p; ++p)
	if (*p == '\n' || *p == '\r')
	    *p = ' ';
    if (firstmsg[0] == 0 && category != VNAERR_WARNING)
	snprintf(firstmsg, sizeof(firstmsg), "%s", lastmsg);
}

static const char *errname(int e)
{
    static char b[32];
    switch (e) {
    case 0: return "0";
    case EINVAL: return "EINVAL";
    case EDOM: return "EDOM";
    case EBADMSG: return "EBADMSG";
    case ENOENT: return "ENOENT";
    case ENOPROTOOPT: return "ENOPROTOOPT";
    case ENOMEM: return "ENOMEM";
    case ENOSYS: return "ENOSYS";
    case ERANGE: return "ERANGE";
    default: snprintf(b, sizeof(b), "E%d", e); return b;
    }
}

static int alarm_seconds = 5;
static void on_alarm(int sig)
{
    static const char msg[] = "HANG\n";
    (void)sig;
    fflush(stdout);
    if (write(1, msg, sizeof(msg) - 1) < 0) { }
    _exit(95);
}

static void reset(void) { nerr = nwarn = 0; lastcat = -1; lastmsg[0] = 0; firstmsg[0] = 0; errno = 0; }

static char *tok(void) { return strtok(NULL, " \t\r\n"); }
static int toki(void) { char *t = tok(); if (!t) { fprintf(stderr, "harness: missing int\n"); exit(3); } return (int)strtol(t, NULL, 0); }
static double tokd(void) { char *t = tok(); if (!t) { fprintf(stderr, "harness: missing double\n"); exit(3); } return strtod(t, NULL); }
static int hexv(int c) { return c <= '9' ? c - '0' : (c | 32) - 'a' + 10; }

static void dump(vnadata_t *v)
{
    if (v == NULL) { printf("DUMP none\n"); return; }
    int type = vnadata_get_type(v), rows = vnadata_get_rows(v), cols = vnadata_get_columns(v);
    int nf = vnadata_get_frequencies(v), fz = vnadata_has_fz0(v) ? 1 : 0;
    int ports = rows > cols ? rows : cols;
    const char *fmt = vnadata_get_format(v);
    printf("DUMP %d %d %d %d %d %d %d %d %s |", type, rows, cols, nf, fz,
	    (int)vnadata_get_filetype(v), vnadata_get_fprecision(v), vnadata_get_dprecision(v),
	    fmt ? fmt : "-");
    printf(" F");
    for (int i = 0; i < nf; ++i) printf(" %a", vnadata_get_frequency(v, i));
    printf(" | Z");
    if (fz) {
	for (int i = 0; i < nf; ++i)
	    for (int p = 0; p < ports; ++p) {
		double complex z = vnadata_get_fz0(v, i, p);
		printf(" %a %a", creal(z), cimag(z));
	    }
    } else {
	for (int p = 0; p < ports; ++p) {
	    double complex z = vnadata_get_z0(v, p);
	    printf(" %a %a", creal(z), cimag(z));
	}
    }
    printf(" | D");
    for (int i = 0; i < nf; ++i)
	for (int r = 0; r < rows; ++r)
	    for (int c = 0; c < cols; ++c) {
		double complex x = vnadata_get_cell(v, i, r, c);
		printf(" %a %a", creal(x), cimag(x));
	    }
    printf("\n");
}

int main(void)
{
    char *line = NULL;
    size_t cap = 0;
    ssize_t n;

    if (getenv("VERIF_ALARM") != NULL) alarm_seconds = atoi(getenv("VERIF_ALARM"));
    signal(SIGALRM, on_alarm);
    while ((n = getline(&line, &cap, stdin)) > 0) {
	char *op = strtok(line, " \t\r\n");
	if (op == NULL || op[0] == '#') continue;
	if (strcmp(op, "case") == 0) {
	    char *id = tok();
	    printf("CASE %s\n", id ? id : "?");
	} else if (strcmp(op, "live") == 0) {
	    printf("LIVE %ld\n", verif_live_blocks());
	} else {
	    int s = toki();
	    if (s < 0 || s >= NSLOT) { fprintf(stderr, "harness: bad slot\n"); return 3; }
	    if (strcmp(op, "new") == 0) {
		int type = toki(), rows = toki(), cols = toki(), nf = toki(), rc = 0;
		reset();
		TRACK(1);
		vnadata_free(slot[s]);
		slot[s] = vnadata_alloc(error_fn, NULL);
		if (slot[s] != NULL && type >= 0) {
		    rc = vnadata_init(slot[s], (vnadata_parameter_type_t)type, rows, cols, nf);
		}
		TRACK(0);
		printf("NEW %d\n", slot[s] == NULL ? -2 : rc);
	    } else if (strcmp(op, "free") == 0) {
		TRACK(1);
		vnadata_free(slot[s]);
		TRACK(0);
		slot[s] = NULL;
		printf("FREE\n");
	    } else if (strcmp(op, "freq") == 0) {
		int i = toki(); double x = tokd();
		TRACK(1); int rc = vnadata_set_frequency(slot[s], i, x); TRACK(0);
		printf("SET %d\n", rc);
	    } else if (strcmp(op, "z0") == 0) {
		int p = toki(); double a = tokd(), b = tokd();
		TRACK(1); int rc = vnadata_set_z0(slot[s], p, a + I * b); TRACK(0);
		printf("SET %d\n", rc);
	    } else if (strcmp(op, "fz0") == 0) {
		int f = toki(), p = toki(); double a = tokd(), b = tokd();
		TRACK(1); int rc = vnadata_set_fz0(slot[s], f, p, a + I * b); TRACK(0);
		printf("SET %d\n", rc);
	    } else if (strcmp(op, "cell") == 0) {
		int f = toki(), r = toki(), c = toki(); double a = tokd(), b = tokd();
		TRACK(1); int rc = vnadata_set_cell(slot[s], f, r, c, a + I * b); TRACK(0);
		printf("SET %d\n", rc);
	    } else if (strcmp(op, "mat") == 0) {
		int f = toki(), cnt = toki(), rc = 0;
		int cols = vnadata_get_columns(slot[s]);
		for (int k = 0; k < cnt; ++k) {
		    double a = tokd(), b = tokd();
		    TRACK(1);
		    if (vnadata_set_cell(slot[s], f, k / cols, k % cols, a + I * b) == -1) rc = -1;
		    TRACK(0);
		}
		printf("SET %d\n", rc);
	    } else if (strcmp(op, "filetype") == 0) {
		int t = toki();
		TRACK(1); int rc = vnadata_set_filetype(slot[s], (vnadata_filetype_t)t); TRACK(0);
		printf("SET %d\n", rc);
	    } else if (strcmp(op, "format") == 0) {
		char *f = strtok(NULL, "\r\n");
		while (f && (*f == ' ' || *f == '\t')) ++f;
		reset();
		TRACK(1);
		int rc = vnadata_set_format(slot[s], (f == NULL || strcmp(f, "-") == 0) ? NULL : f);
		TRACK(0);
		printf("SET %d\n", rc);
	    } else if (strcmp(op, "fprec") == 0) {
		int p = toki();
		TRACK(1); int rc = vnadata_set_fprecision(slot[s], p); TRACK(0);
		printf("SET %d\n", rc);
	    } else if (strcmp(op, "dprec") == 0) {
		int p = toki();
		TRACK(1); int rc = vnadata_set_dprecision(slot[s], p); TRACK(0);
		printf("SET %d\n", rc);
	    } else if (strcmp(op, "cksave") == 0) {
		char *name = tok();
		reset();
		TRACK(1); int rc = vnadata_cksave(slot[s], name); int e = errno; TRACK(0);
		printf("CKSAVE %d %s %d %d # %s\n", rc, errname(rc == -1 ? e : 0), nerr, nwarn, lastmsg);
	    } else if (strcmp(op, "save") == 0) {
		char *name = tok();
		char *buf = NULL; size_t len = 0;
		FILE *fp = open_memstream(&buf, &len);
		reset();
		alarm(alarm_seconds); TRACK(1); int rc = vnadata_fsave(slot[s], fp, name); int e = errno; TRACK(0); alarm(0);
		fclose(fp);
		free(lastbuf);
		lastbuf = buf; lastlen = len;
		printf("SAVE %d %s %d %d %zu ", rc, errname(rc == -1 ? e : 0), nerr, nwarn, len);
		for (size_t i = 0; i < len; ++i) printf("%02x", (unsigned char)buf[i]);
		if (len == 0) printf("-");
		printf(" # %s\n", lastmsg);
	    } else if (strcmp(op, "load") == 0) {
		char *name = tok();
		char *hex = tok();
		char *buf = NULL; size_t len = 0;
		int own = 0;
		if (hex == NULL || strcmp(hex, "-") == 0) {
		    len = 0;
		} else if (strcmp(hex, "@") == 0) {
		    buf = lastbuf; len = lastlen;
		} else {
		    len = strlen(hex) / 2;
		    buf = malloc(len + 1); own = 1;
		    for (size_t i = 0; i < len; ++i)
			buf[i] = (char)(hexv(hex[2 * i]) * 16 + hexv(hex[2 * i + 1]));
		}
		FILE *fp = len ? fmemopen(buf, len, "r") : fopen("/dev/null", "r");
		if (fp == NULL) { fprintf(stderr, "harness: fmemopen failed\n"); return 3; }
		reset();
		alarm(alarm_seconds); TRACK(1); int rc = vnadata_fload(slot[s], fp, name); int e = errno; TRACK(0); alarm(0);
		fclose(fp);
		if (own) free(buf);
		printf("LOAD %d %s %d %d %d # %s ## %s\n", rc, errname(rc == -1 ? e : 0), nerr, nwarn, lastcat, lastmsg, firstmsg);
	    } else if (strcmp(op, "convert") == 0) {
		int t = toki(), type = toki();
		if (t < 0 || t >= NSLOT) { fprintf(stderr, "harness: bad slot\n"); return 3; }
		reset();
		TRACK(1);
		if (slot[t] == NULL) slot[t] = vnadata_alloc(error_fn, NULL);
		int rc = slot[t] == NULL ? -2 : vnadata_convert(slot[s], slot[t], (vnadata_parameter_type_t)type);
		TRACK(0);
		printf("SET %d\n", rc);
	    } else if (strcmp(op, "z0all") == 0) {
		double a = tokd();
		TRACK(1); int rc = vnadata_set_all_z0(slot[s], a); TRACK(0);
		printf("SET %d\n", rc);
	    } else if (strcmp(op, "dump") == 0) {
		dump(slot[s]);
	    } else {
		fprintf(stderr, "harness: unknown op %s\n", op);
		return 3;
	    }
	}
	fflush(stdout);
    }
    for (int i = 0; i < NSLOT; ++i) vnadata_free(slot[i]);
    free(lastbuf);
    free(line);
    return 0;
}
