/*
 * YAML text harness (property C14): ties of coq/PropTree/YamlText.v and of the whole-file model
 * of coq/PropTree/YamlModel.v to the real library.  One op per line, arguments hex-encoded
 * ("-" = empty), one result line per op.
 *
 *   rt HEX      the string is stored as the value of a scalar root and as key and value of a
 *               one-entry map (key through vnaproperty_quote_key), exported with
 *               vnaproperty_export_yaml_to_file and re-imported with
 *               vnaproperty_import_yaml_from_string; prints
 *                  rt <export rc> <import rc> <OK | what differs>
 *   doc HEX     HEX is a complete YAML document (e.g. the text the MODEL emitter of YamlText.v
 *               writes for one scalar); it is parsed with libyaml alone and imported with
 *               vnaproperty_import_yaml_from_string into an empty root; prints
 *                  doc Y:<kind style hex, as prop_harness yamltree | ERR> T:<digest | ERR>
 *   cal KIND    a vnacal_t with global properties {g: G} and one calibration "cal" with
 *               properties {c: C} is saved with vnacal_save; the file text is edited according
 *               to KIND and loaded with vnacal_load; prints
 *                  cal <KIND> NULL            when vnacal_load returns NULL
 *                  cal <KIND> <digest global>|<digest calibration>
 *               KIND: none | version | oldversion | field | nodata | propkey | calpropkey |
 *                     extrakey | dupglobal | dupcal | dupname
 *               (needs the environment variable YAML_TMP = a scratch directory)
 */
#define _GNU_SOURCE
#include <errno.h>
#include <unistd.h>
#include <stdio.h>
#include <stdlib.h>
#include <string.h>
#include <complex.h>
#include <yaml.h>
#include <vnaproperty.h>
#include <vnacal.h>

static void errfn(const char *msg, void *arg, vnaerr_category_t cat)
{
    (void)msg; (void)arg; (void)cat;
}

static char *unhex(const char *h, size_t *np)
{
    size_t n;
    char *s;

    if (strcmp(h, "-") == 0)
	h = "";
    n = strlen(h) / 2;
    s = malloc(n + 1);
    for (size_t i = 0; i < n; ++i) {
	unsigned v;
	sscanf(h + 2 * i, "%2x", &v);
	s[i] = (char)v;
    }
    s[n] = 0;
    if (np != NULL)
	*np = n;
    return s;
}

static void hexn(FILE *o, const char *s, size_t n)
{
    for (size_t i = 0; i < n; ++i)
	fprintf(o, "%02x", (unsigned char)s[i]);
}

static void digest(FILE *o, const vnaproperty_t *n)
{
    if (n == NULL) {
	fputs("N", o);
	return;
    }
    switch (vnaproperty_type(n, ".")) {
    case 's':
	{
	    const char *v = vnaproperty_get(n, ".");
	    fputs("S", o);
	    if (v == NULL) fputs("?", o); else hexn(o, v, strlen(v));
	}
	break;
    case 'm':
	{
	    const char **keys = vnaproperty_keys(n, "{}");
	    int i = 0;
	    fputs("M{", o);
	    if (keys == NULL) {
		fputs("?", o);
	    } else {
		for (const char **k = keys; *k != NULL; ++k, ++i) {
		    char *q = vnaproperty_quote_key(*k);
		    vnaproperty_t *sub;
		    if (i) fputs(";", o);
		    hexn(o, *k, strlen(*k));
		    fputs("=", o);
		    errno = 0;
		    sub = vnaproperty_get_subtree(n, "%s", q);
		    if (sub == NULL && errno != 0) fputs("?", o); else digest(o, sub);
		    free(q);
		}
		free(keys);
	    }
	    fputs("}", o);
	}
	break;
    case 'l':
	{
	    int count = vnaproperty_count(n, "[]");
	    fputs("L[", o);
	    for (int i = 0; i < count; ++i) {
		vnaproperty_t *sub;
		if (i) fputs(";", o);
		errno = 0;
		sub = vnaproperty_get_subtree(n, "[%d]", i);
		if (sub == NULL && errno != 0) fputs("?", o); else digest(o, sub);
	    }
	    fputs("]", o);
	}
	break;
    default:
	fputs("?", o);
    }
}

static void ydump(FILE *o, yaml_document_t *doc, yaml_node_t *n)
{
    switch (n->type) {
    case YAML_SCALAR_NODE:
	{
	    char st = '?';
	    switch (n->data.scalar.style) {
	    case YAML_PLAIN_SCALAR_STYLE: st = 'p'; break;
	    case YAML_SINGLE_QUOTED_SCALAR_STYLE: st = 's'; break;
	    case YAML_DOUBLE_QUOTED_SCALAR_STYLE: st = 'd'; break;
	    case YAML_LITERAL_SCALAR_STYLE: st = 'l'; break;
	    case YAML_FOLDED_SCALAR_STYLE: st = 'f'; break;
	    default: break;
	    }
	    fprintf(o, "s%c", st);
	    hexn(o, (const char *)n->data.scalar.value, n->data.scalar.length);
	}
	break;
    case YAML_MAPPING_NODE:
	fputs("m{", o);
	for (yaml_node_pair_t *p = n->data.mapping.pairs.start; p < n->data.mapping.pairs.top; ++p) {
	    if (p != n->data.mapping.pairs.start) fputs(";", o);
	    ydump(o, doc, yaml_document_get_node(doc, p->key));
	    fputs("=", o);
	    ydump(o, doc, yaml_document_get_node(doc, p->value));
	}
	fputs("}", o);
	break;
    case YAML_SEQUENCE_NODE:
	fputs("q[", o);
	for (yaml_node_item_t *it = n->data.sequence.items.start; it < n->data.sequence.items.top; ++it) {
	    if (it != n->data.sequence.items.start) fputs(";", o);
	    ydump(o, doc, yaml_document_get_node(doc, *it));
	}
	fputs("]", o);
	break;
    default:
	fputs("?", o);
    }
}

/* ------------------------------------------------------------------ rt */
static const char *rt_one(const vnaproperty_t *root, int *erc, int *irc, vnaproperty_t **back)
{
    char *ytext = NULL;
    size_t ylen = 0;
    FILE *yo = open_memstream(&ytext, &ylen);

    *irc = -9;
    *erc = vnaproperty_export_yaml_to_file(root, yo, "mem", errfn, NULL);
    fclose(yo);
    if (*erc == 0)
	*irc = vnaproperty_import_yaml_from_string(back, ytext, errfn, NULL);
    free(ytext);
    return NULL;
}

static void op_rt(const char *s)
{
    vnaproperty_t *root = NULL, *back = NULL;
    int erc = 0, irc = 0, erc2 = 0, irc2 = 0;
    const char *why = "OK";

    if (vnaproperty_set(&root, ".=%s", s) == -1) {
	printf("rt -8 -8 set-failed\n");
	return;
    }
    rt_one(root, &erc, &irc, &back);
    if (erc == 0 && irc == 0) {
	const char *v = vnaproperty_get(back, ".");
	if (vnaproperty_type(back, ".") != 's' || v == NULL || strcmp(v, s) != 0)
	    why = "scalar-differs";
    }
    vnaproperty_delete(&root, ".");
    vnaproperty_delete(&back, ".");
    if (s[0] != 0 && erc == 0 && irc == 0 && strcmp(why, "OK") == 0) {
	char *q = vnaproperty_quote_key(s);

	if (q == NULL || vnaproperty_set(&root, "%s=%s", q, s) == -1) {
	    why = "map-set-failed";
	} else {
	    rt_one(root, &erc2, &irc2, &back);
	    erc = erc2; irc = irc2;
	    if (erc == 0 && irc == 0) {
		const char **keys = vnaproperty_keys(back, "{}");
		const char *v = vnaproperty_get(back, "%s", q);
		if (vnaproperty_type(back, ".") != 'm' || keys == NULL || keys[0] == NULL ||
			keys[1] != NULL || strcmp(keys[0], s) != 0)
		    why = "key-differs";
		else if (v == NULL || strcmp(v, s) != 0)
		    why = "map-value-differs";
		free(keys);
	    }
	}
	free(q);
	vnaproperty_delete(&root, ".");
	vnaproperty_delete(&back, ".");
    }
    printf("rt %d %d %s\n", erc, irc, why);
}

/* ------------------------------------------------------------------ doc */
static void op_doc(const char *text, size_t len)
{
    yaml_parser_t parser;
    yaml_document_t doc;
    yaml_node_t *yr;
    vnaproperty_t *root = NULL;

    printf("doc Y:");
    yaml_parser_initialize(&parser);
    yaml_parser_set_input_string(&parser, (const unsigned char *)text, len);
    if (yaml_parser_load(&parser, &doc)) {
	if ((yr = yaml_document_get_root_node(&doc)) != NULL)
	    ydump(stdout, &doc, yr);
	else
	    printf("EMPTY");
	yaml_document_delete(&doc);
    } else {
	printf("ERR");
    }
    yaml_parser_delete(&parser);
    printf(" T:");
    if (vnaproperty_import_yaml_from_string(&root, text, errfn, NULL) == 0)
	digest(stdout, root);
    else
	printf("ERR");
    vnaproperty_delete(&root, ".");
    printf("\n");
}

/* ------------------------------------------------------------------ cal */
static vnacal_t *make_vnacal(void)
{
    vnacal_t *vcp = vnacal_create(errfn, NULL);
    vnacal_new_t *vnp;
    double f[1] = { 1.0e9 };
    double complex m[1];
    double complex *mp[1] = { m };

    if (vcp == NULL) exit(3);
    /* a one-port, one-frequency T8 calibration from short, open, load */
    vnp = vnacal_new_alloc(vcp, VNACAL_T8, 1, 1, 1);
    if (vnp == NULL || vnacal_new_set_frequency_vector(vnp, f) == -1) exit(3);
    m[0] = -0.9; if (vnacal_new_add_single_reflect_m(vnp, mp, 1, 1, VNACAL_SHORT, 1) == -1) exit(3);
    m[0] = 0.9;  if (vnacal_new_add_single_reflect_m(vnp, mp, 1, 1, VNACAL_OPEN, 1) == -1) exit(3);
    m[0] = 0.1;  if (vnacal_new_add_single_reflect_m(vnp, mp, 1, 1, VNACAL_MATCH, 1) == -1) exit(3);
    if (vnacal_new_solve(vnp) == -1) exit(3);
    if (vnacal_add_calibration(vcp, "cal", vnp) == -1) exit(3);
    vnacal_new_free(vnp);
    return vcp;
}

/* replace the first occurrence of [from] in *text by [to]; exits when [from] is absent */
static void replace1(char **text, const char *from, const char *to)
{
    char *p = strstr(*text, from), *n;
    size_t a;

    if (p == NULL) {
	fprintf(stderr, "yaml_text: cal: pattern not in the saved file: %s\n---\n%s\n", from, *text);
	exit(4);
    }
    a = (size_t)(p - *text);
    n = malloc(strlen(*text) + strlen(to) + 1);
    memcpy(n, *text, a);
    strcpy(n + a, to);
    strcat(n, p + strlen(from));
    free(*text);
    *text = n;
}

static void op_cal(const char *kind)
{
    const char *dir = getenv("YAML_TMP");
    char path[4096];
    vnacal_t *vcp = make_vnacal(), *v2;
    int ci = vnacal_find_calibration(vcp, "cal");
    FILE *fp;
    char *text;
    long n;

    snprintf(path, sizeof(path), "%s/yaml_text_%ld.vnacal", dir ? dir : "/tmp", (long)getpid());
    if (vnacal_property_set(vcp, -1, "g=G") == -1 || vnacal_property_set(vcp, ci, "c=C") == -1) exit(3);
    if (vnacal_save(vcp, path) == -1) exit(3);
    vnacal_free(vcp);
    if ((fp = fopen(path, "r")) == NULL) exit(3);
    fseek(fp, 0, SEEK_END); n = ftell(fp); rewind(fp);
    text = malloc((size_t)n + 1);
    if (fread(text, 1, (size_t)n, fp) != (size_t)n) exit(3);
    text[n] = 0;
    fclose(fp);

    if (strcmp(kind, "none") == 0) {
	;
    } else if (strcmp(kind, "version") == 0) {		/* unsupported major version */
	replace1(&text, "#VNACal 1.", "#VNACal 7.");
    } else if (strcmp(kind, "oldversion") == 0) {	/* old spelling of 1.0 */
	replace1(&text, "#VNACal 1.0", "#VNACAL 3.0");
    } else if (strcmp(kind, "field") == 0) {		/* a scalar field of the calibration does not parse */
	replace1(&text, "frequencies: 1", "frequencies: x");
    } else if (strcmp(kind, "nodata") == 0) {		/* required field missing (after the properties) */
	replace1(&text, "  data:", "  dada:");
    } else if (strcmp(kind, "propkey") == 0) {		/* a global property key that is not a descriptor */
	replace1(&text, "  g: G", "  \"[\": G");
    } else if (strcmp(kind, "calpropkey") == 0) {	/* the same in the calibration's properties */
	replace1(&text, "    c: C", "    \"[\": C");
    } else if (strcmp(kind, "extrakey") == 0) {		/* unknown top-level key: ignored */
	replace1(&text, "calibrations:", "future: [1, 2]\ncalibrations:");
    } else if (strcmp(kind, "dupglobal") == 0) {	/* a second top-level properties entry merges */
	replace1(&text, "calibrations:", "properties:\n  h: H\ncalibrations:");
    } else if (strcmp(kind, "dupcal") == 0) {		/* a second properties entry in the calibration replaces */
	replace1(&text, "  data:", "  properties:\n    d: D\n  data:");
    } else if (strcmp(kind, "dupname") == 0) {		/* second calibration with the same name: add fails */
	char *c = strstr(text, "- name:"), *end, *copy, *tail;
	if (c == NULL || (end = strstr(c, "\n...")) == NULL) exit(4);
	copy = strndup(c, (size_t)(end + 1 - c));	/* the calibration's lines */
	tail = strdup(end + 1);				/* "...\n" */
	end[1] = 0;
	text = realloc(text, strlen(text) + strlen(copy) + strlen(tail) + 1);
	strcat(text, copy);
	strcat(text, tail);
	free(copy);
	free(tail);
    } else {
	fprintf(stderr, "yaml_text: bad cal kind %s\n", kind);
	exit(2);
    }
    if ((fp = fopen(path, "w")) == NULL) exit(3);
    fputs(text, fp);
    fclose(fp);
    v2 = vnacal_load(path, errfn, NULL);
    printf("cal %s ", kind);
    if (v2 == NULL) {
	printf("NULL");
    } else {
	int c2 = vnacal_find_calibration(v2, "cal");
	digest(stdout, vnacal_property_get_subtree(v2, -1, "."));
	printf("|");
	if (c2 >= 0) digest(stdout, vnacal_property_get_subtree(v2, c2, ".")); else printf("?");
	vnacal_free(v2);
    }
    if (getenv("YAML_SHOWFILE")) printf(" FILE:%s", text);
    printf("\n");
    free(text);
    remove(path);
}

int main(void)
{
    char *line = NULL;
    size_t cap = 0;

    while (getline(&line, &cap, stdin) > 0) {
	char *op = strtok(line, " \t\r\n");
	char *arg = strtok(NULL, " \t\r\n");
	char *a;
	size_t n = 0;

	if (op == NULL)
	    continue;
	if (strcmp(op, "cal") == 0) {
	    op_cal(arg ? arg : "none");
	} else {
	    a = unhex(arg ? arg : "-", &n);
	    if (strcmp(op, "rt") == 0) {
		op_rt(a);
	    } else if (strcmp(op, "doc") == 0) {
		op_doc(a, n);
	    } else {
		fprintf(stderr, "yaml_text: bad op %s\n", op);
		exit(2);
	    }
	    free(a);
	}
	fflush(stdout);
    }
    free(line);
    return 0;
}
