/*
 * Compiles src/vnacal_new_solve_simple.c from the working tree, unmodified, with the weight
 * constructor, the two linear solvers and the V-matrix update routed through the taps of
 * harness/selfcal_wb_vmat.c (wbv_*).  The macros also rename the prototypes in the library
 * headers, which is harmless: the taps have the same signatures.
 */
#define _vnacal_new_solve_calc_weights		wbv_calc_weights
#define _vnacommon_qrsolve			wbv_qrsolve
#define _vnacommon_mldivide			wbv_mldivide
#define _vnacal_new_solve_update_v_matrices	wbv_update_v
#include "vnacal_new_solve_simple.c"
