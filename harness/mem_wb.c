/*
 * White-box harness for the model/C tie of C03 / C12 (lib/mem_tie.py).
 * Includes vnaproperty.c to reach the static list functions; build with exclude=("vnaproperty.c",)
 * and wrap=True.  Script (one op per line):  <k> <obj> <op> [args]
 *   k = -1: no fault; k >= 0: request number k+1 made by the library during this op fails.
 *   L new | L append | L set i | L insert i | L delete i | L get i | L free
 *   P new | P alloc | P delete i | P free
 *   D new perf | D resize rows cols freqs | D free   (vnadata_alloc [+ per-frequency z0 flag], vnadata_resize(VPT_UNDEF,...), vnadata_free)
 *   A type frows fcols brows bcols srows scols      (vnacal_new_add_mapped_matrix_m, port_map NULL)
 * Output per op:  <ret class> <errno class> <live blocks of the object>
 */
#define _GNU_SOURCE
#include "vnaproperty.c"
#include <complex.h>
#include <vnacal.h>
#include "vnacal_internal.h"
#include <vnadata.h>
#include "vnadata_internal.h"

extern void verif_alloc_track(int on);
extern void verif_alloc_reset(long fail_at);
extern long verif_live_blocks(void);

static const char *ecls(int e)
{
    switch (e) { case 0: return "E0"; case EINVAL: return "EINVAL"; case ENOENT: return "ENOENT"; case ENOMEM: return "ENOMEM"; default: return "EOTHER"; }
}

/* the tail of vnaproperty_vset: value = scalar_alloc(...); vnaproperty_free(*anchor); *anchor = value */
static int install(vnaproperty_t **anchor)
{
    vnaproperty_t *value = scalar_alloc("v");
    if (value == NULL) return -1;
    vnaproperty_free(*anchor);
    *anchor = value;
    return 0;
}

int main(int argc, char **argv)
{
    char line[256];
    vnaproperty_t *list = NULL;
    vnacal_t *vcp = NULL;
    vnadata_t *vdp = NULL;
    long lbase = 0, pbase = 0, dbase = 0;
    FILE *fp = argc > 1 ? fopen(argv[1], "r") : stdin;
    if (fp == NULL) return 2;
    setvbuf(stdout, NULL, _IOLBF, 0);
    while (fgets(line, sizeof line, fp) != NULL) {
	long k; char obj[8], op[16]; long a[8] = {0};
	int n = sscanf(line, "%ld %7s %15s %ld %ld %ld %ld %ld %ld %ld", &k, obj, op, &a[0], &a[1], &a[2], &a[3], &a[4], &a[5], &a[6]);
	if (n < 3) continue;
	int rc = 0;
	long live = 0;
	verif_alloc_reset(k >= 0 ? k + 1 : 0);
	errno = 0;
	verif_alloc_track(1);
	if (obj[0] == 'L') {
	    vnaproperty_t **anchor = NULL;
	    if (!strcmp(op, "new")) { lbase = verif_live_blocks(); list = list_alloc(); rc = list ? 0 : -1; }
	    else if (list == NULL) { rc = -2; }
	    else if (!strcmp(op, "append")) { anchor = list_append(list); rc = anchor ? install(anchor) : -1; }
	    else if (!strcmp(op, "set")) { anchor = list_subtree(list, true, (int)a[0]); rc = anchor ? install(anchor) : -1; }
	    else if (!strcmp(op, "insert")) { anchor = list_insert(list, (int)a[0]); rc = anchor ? install(anchor) : -1; }
	    else if (!strcmp(op, "delete")) { rc = list_delete(list, (int)a[0]); }
	    else if (!strcmp(op, "get")) { anchor = list_subtree(list, false, (int)a[0]); if (anchor) { volatile vnaproperty_t *x = *anchor; (void)x; rc = 0; } else rc = -1; }
	    else if (!strcmp(op, "free")) { vnaproperty_free(list); list = NULL; rc = 0; }
	    verif_alloc_track(0);
	    live = verif_live_blocks() - lbase;
	} else if (obj[0] == 'P') {
	    if (!strcmp(op, "new")) { pbase = verif_live_blocks() + 1; vcp = vnacal_create(NULL, NULL); rc = vcp ? 0 : -1; }
	    else if (vcp == NULL) { rc = -2; }
	    else if (!strcmp(op, "alloc")) {
		vnacal_parameter_t *p = _vnacal_alloc_parameter("tie", vcp);
		if (p != NULL) { p->vpmr_type = VNACAL_SCALAR; rc = 0; } else rc = -1;
	    }
	    else if (!strcmp(op, "delete")) { rc = vnacal_delete_parameter(vcp, (int)a[0]); }
	    else if (!strcmp(op, "free")) { vnacal_free(vcp); vcp = NULL; pbase = verif_live_blocks(); rc = 0; }
	    verif_alloc_track(0);
	    live = verif_live_blocks() - pbase;
	} else if (obj[0] == 'D') {
	    if (!strcmp(op, "new")) {
		dbase = verif_live_blocks();
		vdp = vnadata_alloc(NULL, NULL);
		rc = vdp ? 0 : -1;
		if (vdp != NULL && a[0] != 0) {		/* per-frequency z0 mode from the start */
		    verif_alloc_track(0);
		    (void)_vnadata_convert_to_fz0(VDP_TO_VDIP(vdp));
		}
	    }
	    else if (vdp == NULL) { rc = -2; }
	    else if (!strcmp(op, "resize")) { rc = vnadata_resize(vdp, VPT_UNDEF, (int)a[0], (int)a[1], (int)a[2]); }
	    else if (!strcmp(op, "free")) { vnadata_free(vdp); vdp = NULL; rc = 0; }
	    verif_alloc_track(0);
	    live = verif_live_blocks() - dbase;
	} else if (obj[0] == 'A') {
	    int type = (int)strtol(op, NULL, 10);
	    int fr = (int)a[0], fc = (int)a[1], br = (int)a[2], bc = (int)a[3], sr = (int)a[4], sc = (int)a[5];
	    verif_alloc_track(0);
	    vnacal_t *v = vnacal_create(NULL, NULL);
	    vnacal_new_t *vnp = vnacal_new_alloc(v, (vnacal_type_t)type, fr, fc, 1);
	    if (vnp == NULL) { rc = -2; }
	    else {
		int cells = (br > 0 && bc > 0) ? br * bc : 0;
		double complex **m = calloc((size_t)cells + 1, sizeof(double complex *));
		for (int i = 0; i < cells; ++i) m[i] = calloc(2, sizeof(double complex));
		int scells = (sr > 0 && sc > 0) ? sr * sc : 0;
		int *s = calloc((size_t)scells + 1, sizeof(int));
		errno = 0;
		rc = vnacal_new_add_mapped_matrix_m(vnp, m, br, bc, s, sr, sc, NULL);
		for (int i = 0; i < cells; ++i) free(m[i]);
		free(m); free(s);
	    }
	    int e = errno;
	    vnacal_free(v);
	    errno = e;
	    live = 0;
	}
	int e = errno;
	verif_alloc_track(0);
	printf("%s %s %ld\n", rc == 0 ? "Done" : rc == -2 ? "SKIP" : "Err", rc == -1 ? ecls(e) : "E0", rc == -2 ? 0 : live);
    }
    if (list != NULL) vnaproperty_free(list);
    if (vcp != NULL) vnacal_free(vcp);
    if (vdp != NULL) vnadata_free(vdp);
    return 0;
}
