/*
 * White-box harness for the model/C tie of C03 / C12 (lib/mem_tie.py).
 * Includes vnaproperty.c and vnacal_new_parameter.c to reach the static list / map / hash functions;
 * build with wrap=True (the archive members vnaproperty.o / vnacal_new_parameter.o are never extracted: this object defines all their globals).
 * Script (one op per line):  <k> <obj> <op> [args]
 *   k = -1: no fault; k >= 0: request number k+1 made by the library during this op fails.
 *   L new | L append | L set i | L insert i | L delete i | L get i | L free
 *   P new | P alloc | P delete i | P free
 *   D new perf | D resize rows cols freqs | D free   (vnadata_alloc [+ per-frequency z0 flag], vnadata_resize(VPT_UNDEF,...), vnadata_free)
 *   A type frows fcols brows bcols srows scols      (vnacal_new_add_mapped_matrix_m, port_map NULL)
 *   Z new | Z resize rows cols freqs | Z setfz0 findex port | Z setfz0v findex src [i] | Z setz0 port | Z setz0v src [i] |
 *   Z setallz0 | Z free      (the z0 modes of a vnadata_t: conversions, setters, the caller's vector taken from a getter)
 *   H new nparams | H get p | H find p | H free
 *        the parameter hash of a vnacal_new_t (vn_parameter_hash): new = _vnacal_new_init_parameter_hash on a
 *        vnacal_t holding nparams scalar parameters, get = _vnacal_new_get_parameter, find = hash_lookup (p < 0:
 *        the "parameter >= 0 &&" guard of the callers), free = _vnacal_new_free_parameter_hash
 *   M new | M set rank hv hexname | M get rank hv hexname | M del rank hv hexname | M keys | M free
 *        one vnaproperty map: map_alloc, map_subtree(add), map_subtree(no add), map_delete, vnaproperty_keys,
 *        vnaproperty_free; rank = position of (crc32c(name), name) in the order of map_compare_keys (given by the
 *        script, checked here against map_compare_keys), hv = crc32c(name) (checked against the library's crc32c)
 * Output per op:  <ret class> <errno class> <live blocks of the object>
 *   H and M ops append:  | <allocation> <count> | <bucket>:<key>,<key>... (chains in link order, non-empty buckets)
 *   M ops append:  | <keys in order-list order>      and M keys:  | <keys returned>
 */
#define _GNU_SOURCE
#include "vnaproperty.c"
/* archdep.h has no include guard: its only definition (struct list / list_t) is renamed for the second inclusion */
#define list verif_list_again
#define list_t verif_list_again_t
#include "vnacal_new_parameter.c"
#undef list
#undef list_t
#include <complex.h>
#include <vnacal.h>
#include "vnacal_internal.h"
#include <vnadata.h>
#include "vnadata_internal.h"

extern void verif_alloc_track(int on);
extern void verif_alloc_reset(long fail_at);
extern long verif_live_blocks(void);

static const char *ecls(int e)
{
    switch (e) { case 0: return "E0"; case EINVAL: return "EINVAL"; case ENOENT: return "ENOENT"; case ENOMEM: return "ENOMEM"; default: return "EOTHER"; }
}

/* the tail of vnaproperty_vset: value = scalar_alloc(...); vnaproperty_free(*anchor); *anchor = value */
static int install(vnaproperty_t **anchor)
{
    vnaproperty_t *value = scalar_alloc("v");
    if (value == NULL) return -1;
    vnaproperty_free(*anchor);
    *anchor = value;
    return 0;
}

/* ------------------------------------------------------------------ parameter hash */
static void dump_phash(const vnacal_new_parameter_hash_t *hp)
{
    printf(" | %d %d |", hp->vnph_allocation, hp->vnph_count);
    for (int b = 0; hp->vnph_table != NULL && b < hp->vnph_allocation; ++b) {
	const vnacal_new_parameter_t *p = hp->vnph_table[b];
	if (p == NULL) continue;
	printf(" %d:", b);
	for (int first = 1; p != NULL; p = p->vnpr_hash_next, first = 0)
	    printf("%s%d", first ? "" : ",", VNACAL_GET_PARAMETER_INDEX(p->vnpr_parameter));
    }
}

/* ------------------------------------------------------------------ property map */
#define MAXKEYS 4096
static struct { char *name; long rank; } keytab[MAXKEYS];
static int nkeys = 0;

static char *unhex(const char *h)
{
    size_t n = strlen(h) / 2;
    char *s = malloc(n + 1);
    for (size_t i = 0; i < n; ++i) { unsigned v; sscanf(h + 2 * i, "%2x", &v); s[i] = (char)v; }
    s[n] = 0;
    return s;
}
static long rank_of(const char *name)
{
    for (int i = 0; i < nkeys; ++i) if (!strcmp(keytab[i].name, name)) return keytab[i].rank;
    return -1;
}
/* remember (name, rank); check that the rank order is the order of map_compare_keys */
static int learn_key(const char *name, long rank, unsigned long hv)
{
    uint32_t h = crc32c(-1, (void *)name, strlen(name));
    if ((unsigned long)h != hv) return -1;
    if (rank_of(name) >= 0) return rank_of(name) == rank ? 0 : -1;
    if (nkeys >= MAXKEYS) return -1;
    for (int i = 0; i < nkeys; ++i) {
	vnaproperty_map_element_t e;
	memset(&e, 0, sizeof e);
	e.vme_pair.vmpr_key = keytab[i].name;
	e.vme_hashval = crc32c(-1, (void *)keytab[i].name, strlen(keytab[i].name));
	int c = map_compare_keys(name, h, &e);
	if ((c < 0) != (rank < keytab[i].rank) || c == 0) return -1;
    }
    keytab[nkeys].name = strdup(name);
    keytab[nkeys].rank = rank;
    ++nkeys;
    return 0;
}
static void dump_map(const vnaproperty_map_t *mp)
{
    printf(" | %zu %zu |", mp->vpm_hash_size, mp->vpm_count);
    for (size_t b = 0; mp->vpm_hash_table != NULL && b < mp->vpm_hash_size; ++b) {
	const vnaproperty_map_element_t *e = mp->vpm_hash_table[b];
	if (e == NULL) continue;
	printf(" %zu:", b);
	for (int first = 1; e != NULL; e = e->vme_hash_next, first = 0)
	    printf("%s%ld", first ? "" : ",", rank_of(e->vme_pair.vmpr_key));
    }
    printf(" |");
    for (const vnaproperty_map_element_t *e = mp->vpm_order_head; e != NULL; e = e->vme_order_next)
	printf(" %ld", rank_of(e->vme_pair.vmpr_key));
}

int main(int argc, char **argv)
{
    char line[1024];
    vnacal_t *hvcp = NULL;
    vnacal_new_t *hvnp = NULL;
    int hlive_ok = 0;
    vnaproperty_t *map = NULL;
    long hbase = 0, mbase = 0;
    vnaproperty_t *list = NULL;
    vnacal_t *vcp = NULL;
    vnadata_t *vdp = NULL;
    long lbase = 0, pbase = 0, dbase = 0, zbase = 0;
    vnadata_t *zdp = NULL;
    FILE *fp = argc > 1 ? fopen(argv[1], "r") : stdin;
    if (fp == NULL) return 2;
    setvbuf(stdout, NULL, _IOLBF, 0);
    while (fgets(line, sizeof line, fp) != NULL) {
	long k; char obj[8], op[16]; long a[8] = {0}; char hexname[600] = "";
	int n = sscanf(line, "%ld %7s %15s %ld %ld %ld %ld %ld %ld %ld", &k, obj, op, &a[0], &a[1], &a[2], &a[3], &a[4], &a[5], &a[6]);
	if (n < 3) continue;
	if (obj[0] == 'M') sscanf(line, "%*d %*s %*s %*d %*d %599s", hexname);
	int rc = 0;
	long live = 0;
	char tail[8] = "";
	verif_alloc_reset(k >= 0 ? k + 1 : 0);
	errno = 0;
	verif_alloc_track(1);
	if (obj[0] == 'L') {
	    vnaproperty_t **anchor = NULL;
	    if (!strcmp(op, "new")) { lbase = verif_live_blocks(); list = list_alloc(); rc = list ? 0 : -1; }
	    else if (list == NULL) { rc = -2; }
	    else if (!strcmp(op, "append")) { anchor = list_append(list); rc = anchor ? install(anchor) : -1; }
	    else if (!strcmp(op, "set")) { anchor = list_subtree(list, true, (int)a[0]); rc = anchor ? install(anchor) : -1; }
	    else if (!strcmp(op, "insert")) { anchor = list_insert(list, (int)a[0]); rc = anchor ? install(anchor) : -1; }
	    else if (!strcmp(op, "delete")) { rc = list_delete(list, (int)a[0]); }
	    else if (!strcmp(op, "get")) { anchor = list_subtree(list, false, (int)a[0]); if (anchor) { volatile vnaproperty_t *x = *anchor; (void)x; rc = 0; } else rc = -1; }
	    else if (!strcmp(op, "free")) { vnaproperty_free(list); list = NULL; rc = 0; }
	    verif_alloc_track(0);
	    live = verif_live_blocks() - lbase;
	} else if (obj[0] == 'P') {
	    if (!strcmp(op, "new")) { pbase = verif_live_blocks() + 1; vcp = vnacal_create(NULL, NULL); rc = vcp ? 0 : -1; }
	    else if (vcp == NULL) { rc = -2; }
	    else if (!strcmp(op, "alloc")) {
		vnacal_parameter_t *p = _vnacal_alloc_parameter("tie", vcp);
		if (p != NULL) { p->vpmr_type = VNACAL_SCALAR; rc = 0; } else rc = -1;
	    }
	    else if (!strcmp(op, "delete")) { rc = vnacal_delete_parameter(vcp, (int)a[0]); }
	    else if (!strcmp(op, "free")) { vnacal_free(vcp); vcp = NULL; pbase = verif_live_blocks(); rc = 0; }
	    verif_alloc_track(0);
	    live = verif_live_blocks() - pbase;
	} else if (obj[0] == 'D') {
	    if (!strcmp(op, "new")) {
		dbase = verif_live_blocks();
		vdp = vnadata_alloc(NULL, NULL);
		rc = vdp ? 0 : -1;
		if (vdp != NULL && a[0] != 0) {		/* per-frequency z0 mode from the start */
		    verif_alloc_track(0);
		    (void)_vnadata_convert_to_fz0(VDP_TO_VDIP(vdp));
		}
	    }
	    else if (vdp == NULL) { rc = -2; }
	    else if (!strcmp(op, "resize")) { rc = vnadata_resize(vdp, VPT_UNDEF, (int)a[0], (int)a[1], (int)a[2]); }
	    else if (!strcmp(op, "free")) { vnadata_free(vdp); vdp = NULL; rc = 0; }
	    verif_alloc_track(0);
	    live = verif_live_blocks() - dbase;
	} else if (obj[0] == 'Z') {
	    /* the z0 modes of a vnadata_t (coq/Mem/DataZ0.v): Z new | Z resize rows cols freqs | Z setfz0 findex port |
	     * Z setfz0v findex src [i] | Z setz0 port | Z setz0v src [i] | Z setallz0 | Z free
	     * src: 0 = a buffer of the harness, 1 = vnadata_get_z0_vector(vdp), 2 = vnadata_get_fz0_vector(vdp, i)
	     * (a getter that fails makes the op fail with the getter's errno: the setter is not called) */
	    static double complex extbuf[256];
	    if (!strcmp(op, "new")) { zbase = verif_live_blocks(); zdp = vnadata_alloc(NULL, NULL); rc = zdp ? 0 : -1; }
	    else if (zdp == NULL) { rc = -2; }
	    else if (!strcmp(op, "resize")) { rc = vnadata_resize(zdp, VPT_UNDEF, (int)a[0], (int)a[1], (int)a[2]); }
	    else if (!strcmp(op, "setfz0")) { rc = vnadata_set_fz0(zdp, (int)a[0], (int)a[1], 50.0); }
	    else if (!strcmp(op, "setz0")) { rc = vnadata_set_z0(zdp, (int)a[0], 75.0); }
	    else if (!strcmp(op, "setallz0")) { rc = vnadata_set_all_z0(zdp, 60.0); }
	    else if (!strcmp(op, "setfz0v") || !strcmp(op, "setz0v")) {
		int isf = !strcmp(op, "setfz0v");
		long src = isf ? a[1] : a[0], si = isf ? a[2] : a[1];
		const double complex *vec = extbuf;
		int ports = vnadata_get_rows(zdp) > vnadata_get_columns(zdp) ? vnadata_get_rows(zdp) : vnadata_get_columns(zdp);
		verif_alloc_track(0);
		errno = 0;
		if (src == 1) vec = vnadata_get_z0_vector(zdp);
		else if (src == 2) vec = vnadata_get_fz0_vector(zdp, (int)si);
		int ge = errno;
		if (ports > 256) { rc = -2; }
		else if (src != 0 && vec == NULL && (ge != 0 || ports > 0)) { rc = -1; errno = ge ? ge : EINVAL; }
		else {
		    verif_alloc_reset(k >= 0 ? k + 1 : 0);
		    errno = 0;
		    verif_alloc_track(1);
		    rc = isf ? vnadata_set_fz0_vector(zdp, (int)a[0], vec) : vnadata_set_z0_vector(zdp, vec);
		}
	    }
	    else if (!strcmp(op, "free")) { vnadata_free(zdp); zdp = NULL; rc = 0; }
	    int e = errno;
	    verif_alloc_track(0);
	    live = verif_live_blocks() - zbase;
	    errno = e;
	} else if (obj[0] == 'H') {
	    if (!strcmp(op, "new")) {
		verif_alloc_track(0);
		if (hvcp != NULL) { vnacal_free(hvcp); hvcp = NULL; hvnp = NULL; }
		hvcp = vnacal_create(NULL, NULL);
		for (long i = 0; i < a[0]; ++i) (void)vnacal_make_scalar_parameter(hvcp, 0.5);
		hvnp = vnacal_new_alloc(hvcp, VNACAL_T8, 1, 1, 1);
		_vnacal_new_free_parameter_hash(&hvnp->vn_parameter_hash);
		hbase = verif_live_blocks();
		verif_alloc_reset(k >= 0 ? k + 1 : 0);
		errno = 0;
		verif_alloc_track(1);
		rc = _vnacal_new_init_parameter_hash("tie", &hvnp->vn_parameter_hash);
		hlive_ok = (rc == 0);
	    }
	    else if (hvnp == NULL || !hlive_ok) { rc = -2; }
	    else if (!strcmp(op, "get")) { rc = _vnacal_new_get_parameter("tie", hvnp, (int)a[0]) != NULL ? 0 : -1; }
	    else if (!strcmp(op, "find")) {
		if (a[0] < 0) { rc = -1; errno = EINVAL; }
		else if (hash_lookup(&hvnp->vn_parameter_hash, (int)a[0]) != NULL) rc = 0;
		else { rc = -1; errno = ENOENT; }
	    }
	    else if (!strcmp(op, "free")) { _vnacal_new_free_parameter_hash(&hvnp->vn_parameter_hash); hlive_ok = 0; rc = 0; }
	    int e = errno;
	    verif_alloc_track(0);
	    live = verif_live_blocks() - hbase;
	    if (rc != -2) { strcpy(tail, "H"); }
	    if (rc == -2 || !hlive_ok) tail[0] = 0;
	    errno = e;
	} else if (obj[0] == 'M') {
	    verif_alloc_track(0);
	    char *name = hexname[0] ? unhex(hexname) : NULL;
	    const char **keys = NULL;
	    verif_alloc_track(1);
	    if (!strcmp(op, "new")) { mbase = verif_live_blocks(); map = map_alloc(); rc = map ? 0 : -1; }
	    else if (map == NULL) { rc = -2; }
	    else if (!strcmp(op, "set") || !strcmp(op, "get") || !strcmp(op, "del")) {
		verif_alloc_track(0);
		if (name == NULL || learn_key(name, a[0], (unsigned long)a[1]) != 0) { rc = -3; }
		else {
		    verif_alloc_track(1);
		    if (!strcmp(op, "set")) rc = map_subtree(map, true, name) != NULL ? 0 : -1;
		    else if (!strcmp(op, "get")) rc = map_subtree(map, false, name) != NULL ? 0 : -1;
		    else rc = map_delete(map, name);
		}
	    }
	    else if (!strcmp(op, "keys")) { keys = vnaproperty_keys(map, "."); rc = keys ? 0 : -1; }
	    else if (!strcmp(op, "free")) { vnaproperty_free(map); map = NULL; rc = 0; }
	    int e = errno;
	    verif_alloc_track(0);
	    live = verif_live_blocks() - mbase - (keys != NULL ? 1 : 0);
	    if (rc == -3) { printf("BADKEY %s\n", hexname); free(name); continue; }
	    printf("%s %s %ld", rc == 0 ? "Done" : rc == -2 ? "SKIP" : "Err", rc == -1 ? ecls(e) : "E0", rc == -2 ? 0 : live);
	    if (map != NULL && rc != -2) dump_map((vnaproperty_map_t *)map);
	    if (!strcmp(op, "keys") && rc != -2) {
		printf(" |");
		for (const char **cpp = keys; cpp != NULL && *cpp != NULL; ++cpp) printf(" %ld", rank_of(*cpp));
	    }
	    printf("\n");
	    free((void *)keys);
	    free(name);
	    continue;
	} else if (obj[0] == 'A') {
	    int type = (int)strtol(op, NULL, 10);
	    int fr = (int)a[0], fc = (int)a[1], br = (int)a[2], bc = (int)a[3], sr = (int)a[4], sc = (int)a[5];
	    verif_alloc_track(0);
	    vnacal_t *v = vnacal_create(NULL, NULL);
	    vnacal_new_t *vnp = vnacal_new_alloc(v, (vnacal_type_t)type, fr, fc, 1);
	    if (vnp == NULL) { rc = -2; }
	    else {
		int cells = (br > 0 && bc > 0) ? br * bc : 0;
		double complex **m = calloc((size_t)cells + 1, sizeof(double complex *));
		for (int i = 0; i < cells; ++i) m[i] = calloc(2, sizeof(double complex));
		int scells = (sr > 0 && sc > 0) ? sr * sc : 0;
		int *s = calloc((size_t)scells + 1, sizeof(int));
		errno = 0;
		rc = vnacal_new_add_mapped_matrix_m(vnp, m, br, bc, s, sr, sc, NULL);
		for (int i = 0; i < cells; ++i) free(m[i]);
		free(m); free(s);
	    }
	    int e = errno;
	    vnacal_free(v);
	    errno = e;
	    live = 0;
	}
	int e = errno;
	verif_alloc_track(0);
	printf("%s %s %ld", rc == 0 ? "Done" : rc == -2 ? "SKIP" : "Err", rc == -1 ? ecls(e) : "E0", rc == -2 ? 0 : live);
	if (tail[0] == 'H') dump_phash(&hvnp->vn_parameter_hash);
	printf("\n");
    }
    if (hvcp != NULL) vnacal_free(hvcp);
    if (map != NULL) vnaproperty_free(map);
    if (list != NULL) vnaproperty_free(list);
    if (vcp != NULL) vnacal_free(vcp);
    if (vdp != NULL) vnadata_free(vdp);
    if (zdp != NULL) vnadata_free(zdp);
    return 0;
}
