/*
 * Interpolation / frequency-range harness (property C10).
 *
 * Reads one case per line from stdin (numbers: anything strtod accepts, the check sends C99 hex
 * floats so that the values are exact) and prints one line per case, doubles as %a.
 *
 *   rfi n m hint x <xp: n> <yp: n pairs>           _vnacal_rfi called directly
 *   run n m hint k <xp> <yp> <q: k>                 k calls sharing one segment variable
 *   spline np <xs: np> <ys: np> k <q: k>            _vnacommon_spline_calc(np-1) + _eval
 *   param np <fs> <gs: np pairs> k <q: k>           vnacal_make_vector_parameter + get_parameter_value
 *   ipar np <fs> <gs> k <q: k>                      same parameter through _vnacal_get_parameter_value_i
 *   corr np <fs> <sig: np> k <q: k>                 vnacal_make_correlated_parameter + _vnacal_get_correlated_sigma
 *   newpar order nf <cal fs> np <par fs>            check_single_frequency_range through
 *                                                   vnacal_new_add_single_reflect_m (order 0: after
 *                                                   set_frequency_vector; 1: before, so that
 *                                                   set_frequency_vector runs the check)
 *   newparh order pre others before nf <cal fs> np <par fs>
 *                                                   the same inside a history that must not matter
 *                                                   (see the code)
 *   merr nf <cal fs> np <fs> <sigma_nf: np> tr      vnacal_new_set_m_error with its own grid
 *                                                   (tr=1: sigma_tr = 2 * sigma_nf also given)
 *   merrh nf <cal fs A: nf> <cal fs B: nf> np <fs> <sigma_nf: np>
 *                                                   history: set_frequency_vector(A), set_m_error on its own
 *                                                   grid (must be accepted), set_frequency_vector(B): prints
 *                                                   REJ, or ACC and the stored noise per frequency afterwards
 *   apply nf <cal fs> k <fs: k>                     1x1 E12 calibration solved from short/open/match,
 *                                                   then vnacal_apply_m on k frequencies
 *   zero                                            frequencies == 0 in set_frequency_vector / apply
 *   chain order nf <cal fs> nn <node>*nn k <q: k>   a chain of parameters, listed from its END to its
 *                                                   HEAD, each node's vpmr_other = the previous node:
 *                                                     S                      scalar
 *                                                     V n <fs: n>            vector
 *                                                     U                      unknown
 *                                                     K ns O <fs: ns> <sigma: ns>   correlated, own sigma grid
 *                                                     K ns N <sigma: ns>            correlated, NULL grid
 *                                                   prints "chain MK <made>" (nodes made before the first
 *                                                   refusal), for every made node its range from
 *                                                   _vnacal_get_parameter_frange, then (all made) the verdict
 *                                                   of adding the HEAD as a reflect standard (order 0: after
 *                                                   set_frequency_vector, 1: before it) and, if the head is
 *                                                   correlated, "SIG" + _vnacal_get_correlated_sigma at q
 */
#include "archdep.h"
#include <complex.h>
#include <errno.h>
#include <math.h>
#include <stdio.h>
#include <stdlib.h>
#include <string.h>
#include <vnacal.h>
#include <vnadata.h>
#include "vnacal_internal.h"
#include "vnacal_new_internal.h"
#include "vnacommon_internal.h"

typedef double complex cx;

static int errors;
static void error_fn(const char *message, void *arg, vnaerr_category_t category)
{
    (void)message; (void)arg; (void)category;
    ++errors;
}

static double rdd(void)
{
    char b[160];
    if (scanf("%159s", b) != 1) { fprintf(stderr, "harness: short input\n"); exit(3); }
    return strtod(b, NULL);
}
static int rdi(void)
{
    int i;
    if (scanf("%d", &i) != 1) { fprintf(stderr, "harness: short input (int)\n"); exit(3); }
    return i;
}
/* exact-size heap vectors so that ASan sees every out-of-bounds access */
static double *rdvec(int n)
{
    double *v = malloc(n > 0 ? n * sizeof(double) : 0);
    for (int i = 0; i < n; ++i) v[i] = rdd();
    return v;
}
static cx *rdcvec(int n)
{
    cx *v = malloc(n > 0 ? n * sizeof(cx) : 0);
    for (int i = 0; i < n; ++i) { double a = rdd(), b = rdd(); v[i] = a + I * b; }
    return v;
}
static void pc(cx v) { printf(" %a %a", creal(v), cimag(v)); }

/* synthetic one-port error box, smooth in f */
static cx e00(double f) { return 0.05 + 0.02 * I + 0.001 * f; }
static cx e11(double f) { return 0.10 - 0.05 * I + 0.0005 * f * I; }
static cx e10e01(double f) { return 0.9 + 0.1 * I - 0.002 * f; }
static cx meas(double f, cx g) { return e00(f) + e10e01(f) * g / (1.0 - e11(f) * g); }

static vnacal_new_t *new_1x1(vnacal_t *vcp, int nf)
{
    return vnacal_new_alloc(vcp, VNACAL_E12, 1, 1, nf);
}

static int add_reflect(vnacal_new_t *vnp, int nf, const double *fs, int param, cx gamma)
{
    cx *v = malloc(nf > 0 ? nf * sizeof(cx) : 0);
    cx *m[1];
    int rc;
    for (int i = 0; i < nf; ++i) v[i] = meas(fs[i], gamma);
    m[0] = v;
    rc = vnacal_new_add_single_reflect_m(vnp, m, 1, 1, param, 1);
    free(v);
    return rc;
}

int main(void)
{
    char op[32];

    while (scanf("%31s", op) == 1) {
	errors = 0;
	if (strcmp(op, "rfi") == 0 || strcmp(op, "run") == 0) {
	    int n = rdi(), m = rdi(), seg = rdi();
	    int k = 1;
	    double x = 0;
	    if (op[1] == 'f') x = rdd(); else k = rdi();
	    double *xp = rdvec(n);
	    cx *yp = rdcvec(n);
	    if (op[1] == 'f') {
		cx y = _vnacal_rfi(xp, yp, n, m, &seg, x);
		printf("rfi"); pc(y); printf(" seg=%d\n", seg);
	    } else {
		double *q = rdvec(k);
		printf("run");
		for (int i = 0; i < k; ++i) pc(_vnacal_rfi(xp, yp, n, m, &seg, q[i]));
		printf(" seg=%d\n", seg);
		free(q);
	    }
	    free(xp); free(yp);
	} else if (strcmp(op, "spline") == 0) {
	    int np = rdi();
	    double *xs = rdvec(np), *ys = rdvec(np);
	    int k = rdi();
	    double *q = rdvec(k);
	    double (*c)[3] = malloc(np > 1 ? (np - 1) * sizeof(double[3]) : 0);
	    errno = 0;
	    if (_vnacommon_spline_calc(np - 1, xs, ys, c) == -1) {
		printf("spline EINVAL errno=%d\n", errno == EINVAL);
	    } else {
		printf("spline");
		for (int i = 0; i < k; ++i) {
		    errno = 0;
		    double v = _vnacommon_spline_eval(np - 1, xs, ys, (const double (*)[3])c, q[i]);
		    if (v == HUGE_VAL && errno == EINVAL) printf(" E"); else printf(" %a", v);
		}
		printf("\n");
	    }
	    free(c); free(q); free(xs); free(ys);
	} else if (strcmp(op, "param") == 0 || strcmp(op, "ipar") == 0) {
	    int np = rdi();
	    double *fs = rdvec(np);
	    cx *gs = rdcvec(np);
	    int k = rdi();
	    double *q = rdvec(k);
	    vnacal_t *vcp = vnacal_create(error_fn, NULL);
	    int p = vnacal_make_vector_parameter(vcp, fs, np, gs);
	    printf("%s", op);
	    if (p < 0) {
		printf(" MAKEFAIL");
	    } else {
		for (int i = 0; i < k; ++i) {
		    if (op[0] == 'p') {
			int e0 = errors;
			cx v = vnacal_get_parameter_value(vcp, p, q[i]);
			if (creal(v) == HUGE_VAL && errors == e0 + 1) printf(" REJ");
			else if (errors != e0) printf(" ERR");
			else pc(v);
		    } else {
			pc(_vnacal_get_parameter_value_i(_vnacal_get_parameter(vcp, p), q[i]));
		    }
		}
		vnacal_delete_parameter(vcp, p);
	    }
	    printf("\n");
	    vnacal_free(vcp);
	    free(fs); free(gs); free(q);
	} else if (strcmp(op, "corr") == 0) {
	    int np = rdi();
	    double *fs = rdvec(np), *sg = rdvec(np);
	    int k = rdi();
	    double *q = rdvec(k);
	    vnacal_t *vcp = vnacal_create(error_fn, NULL);
	    int other = vnacal_make_scalar_parameter(vcp, 0.5);
	    int p = vnacal_make_correlated_parameter(vcp, other, fs, np, sg);
	    printf("corr");
	    if (p < 0) {
		printf(" MAKEFAIL");
	    } else {
		vnacal_parameter_t *vpmrp = _vnacal_get_parameter(vcp, p);
		for (int i = 0; i < k; ++i) printf(" %a", _vnacal_get_correlated_sigma(vpmrp, q[i]));
		vnacal_delete_parameter(vcp, p);
	    }
	    vnacal_delete_parameter(vcp, other);
	    printf("\n");
	    vnacal_free(vcp);
	    free(fs); free(sg); free(q);
	} else if (strcmp(op, "newpar") == 0 || strcmp(op, "newparh") == 0) {
	    /*
	     * newparh: the same decision inside a history that must not matter: `pre` unrelated
	     * parameters exist before the vector parameter is made (so its handle is 3 + pre),
	     * `others` further standards (short, open, match, then unrelated scalar parameters, some
	     * made after the vector parameter) are added to the same vnacal_new_t, `before` of them
	     * before the standard under test.
	     */
	    int hist = op[6] == 'h';
	    int order = rdi();
	    int pre = hist ? rdi() : 0, others = hist ? rdi() : 0, before = hist ? rdi() : 0;
	    int nf = rdi();
	    double *cf = rdvec(nf);
	    int np = rdi();
	    double *pf = rdvec(np);
	    cx *gs = malloc(np * sizeof(cx));
	    for (int i = 0; i < np; ++i) gs[i] = -1.0 + 0.01 * i;
	    vnacal_t *vcp = vnacal_create(error_fn, NULL);
	    int nfill = pre + others;
	    int *fillp = malloc((nfill > 0 ? nfill : 1) * sizeof(int));
	    cx *fillg = malloc((nfill > 0 ? nfill : 1) * sizeof(cx));
	    int setup_bad = 0;
	    for (int i = 0; i < pre; ++i) {
		fillg[i] = 0.3 + 0.01 * i - 0.2 * I;
		if ((fillp[i] = vnacal_make_scalar_parameter(vcp, fillg[i])) < 0) setup_bad = 1;
	    }
	    int p = vnacal_make_vector_parameter(vcp, pf, np, gs);
	    for (int i = pre; i < nfill; ++i) {
		fillg[i] = -0.4 + 0.01 * i + 0.1 * I;
		if ((fillp[i] = vnacal_make_scalar_parameter(vcp, fillg[i])) < 0) setup_bad = 1;
	    }
	    vnacal_new_t *vnp = new_1x1(vcp, nf);
	    int rc1 = 0, rc2;
	    /* the k-th other standard: short, open, match, then the fillers from the last to the first */
#define OTHER_PARAM(k) ((k) == 0 ? VNACAL_SHORT : (k) == 1 ? VNACAL_OPEN : (k) == 2 ? VNACAL_MATCH : \
	    fillp[(nfill - 1 - ((k) - 3)) % (nfill > 0 ? nfill : 1)])
#define OTHER_GAMMA(k) ((k) == 0 ? -1.0 : (k) == 1 ? 1.0 : (k) == 2 ? 0.0 : \
	    fillg[(nfill - 1 - ((k) - 3)) % (nfill > 0 ? nfill : 1)])
	    if (others > 3 && nfill == 0) others = 3;
	    if (before > others) before = others;
	    if (order == 0) {
		rc1 = vnacal_new_set_frequency_vector(vnp, cf);
		for (int k = 0; k < before; ++k)
		    if (add_reflect(vnp, nf, cf, OTHER_PARAM(k), OTHER_GAMMA(k)) != 0) setup_bad = 1;
		errors = 0;
		rc2 = add_reflect(vnp, nf, cf, p, -1.0);
		int e2 = errors;
		for (int k = before; k < others; ++k)
		    if (add_reflect(vnp, nf, cf, OTHER_PARAM(k), OTHER_GAMMA(k)) != 0) setup_bad = 1;
		errors = e2;
	    } else {
		for (int k = 0; k < before; ++k)
		    if (add_reflect(vnp, nf, cf, OTHER_PARAM(k), OTHER_GAMMA(k)) != 0) setup_bad = 1;
		rc1 = add_reflect(vnp, nf, cf, p, -1.0);
		for (int k = before; k < others; ++k)
		    if (add_reflect(vnp, nf, cf, OTHER_PARAM(k), OTHER_GAMMA(k)) != 0) setup_bad = 1;
		errors = 0;
		rc2 = vnacal_new_set_frequency_vector(vnp, cf);
	    }
#undef OTHER_PARAM
#undef OTHER_GAMMA
	    printf("%s %s\n", op, p < 0 || rc1 != 0 || setup_bad ? "SETUPFAIL" :
		    rc2 == 0 && errors == 0 ? "ACC" : rc2 == -1 && errors == 1 ? "REJ" : "ODD");
	    vnacal_new_free(vnp);
	    vnacal_delete_parameter(vcp, p);
	    for (int i = 0; i < nfill; ++i) vnacal_delete_parameter(vcp, fillp[i]);
	    vnacal_free(vcp);
	    free(cf); free(pf); free(gs); free(fillp); free(fillg);
	} else if (strcmp(op, "merr") == 0) {
	    int nf = rdi();
	    double *cf = rdvec(nf);
	    int np = rdi();
	    double *fs = rdvec(np), *sg = rdvec(np);
	    int tr = rdi();
	    double *st = malloc(np * sizeof(double));
	    for (int i = 0; i < np; ++i) st[i] = 2.0 * sg[i];
	    vnacal_t *vcp = vnacal_create(error_fn, NULL);
	    vnacal_new_t *vnp = new_1x1(vcp, nf);
	    int rc1 = vnacal_new_set_frequency_vector(vnp, cf);
	    errors = 0;
	    int rc2 = vnacal_new_set_m_error(vnp, fs, np, sg, tr ? st : NULL);
	    if (rc1 != 0) {
		printf("merr SETUPFAIL\n");
	    } else if (rc2 == -1 && errors == 1) {
		printf("merr REJ\n");
	    } else if (rc2 != 0 || errors != 0) {
		printf("merr ODD\n");
	    } else {
		printf("merr ACC");
		for (int i = 0; i < nf; ++i)
		    printf(" %a %a", vnp->vn_m_error_vector[i].vnme_sigma_nf, vnp->vn_m_error_vector[i].vnme_sigma_tr);
		printf("\n");
	    }
	    vnacal_new_free(vnp);
	    vnacal_free(vcp);
	    free(cf); free(fs); free(sg); free(st);
	} else if (strcmp(op, "merrh") == 0) {
	    int nf = rdi();
	    double *ca = rdvec(nf), *cb = rdvec(nf);
	    int np = rdi();
	    double *fs = rdvec(np), *sg = rdvec(np);
	    vnacal_t *vcp = vnacal_create(error_fn, NULL);
	    vnacal_new_t *vnp = new_1x1(vcp, nf);
	    int rc1 = vnacal_new_set_frequency_vector(vnp, ca);
	    int rc2 = rc1 == 0 ? vnacal_new_set_m_error(vnp, fs, np, sg, NULL) : -1;
	    if (rc1 != 0 || rc2 != 0) {
		printf("merrh SETUPFAIL\n");
	    } else {
		errors = 0;
		int rc3 = vnacal_new_set_frequency_vector(vnp, cb);
		if (rc3 == -1 && errors == 1) {
		    printf("merrh REJ\n");
		} else if (rc3 != 0 || errors != 0) {
		    printf("merrh ODD\n");
		} else {
		    printf("merrh ACC");
		    if (vnp->vn_m_error_vector == NULL) {
			printf(" NONE");
		    } else {
			for (int i = 0; i < nf; ++i)
			    printf(" %a %a", vnp->vn_m_error_vector[i].vnme_sigma_nf, vnp->vn_m_error_vector[i].vnme_sigma_tr);
		    }
		    printf("\n");
		}
	    }
	    vnacal_new_free(vnp);
	    vnacal_free(vcp);
	    free(ca); free(cb); free(fs); free(sg);
	} else if (strcmp(op, "apply") == 0) {
	    int nf = rdi();
	    double *cf = rdvec(nf);
	    int k = rdi();
	    double *fs = rdvec(k);
	    vnacal_t *vcp = vnacal_create(error_fn, NULL);
	    vnacal_new_t *vnp = new_1x1(vcp, nf);
	    int ok = vnacal_new_set_frequency_vector(vnp, cf) == 0
		&& add_reflect(vnp, nf, cf, VNACAL_SHORT, -1.0) == 0
		&& add_reflect(vnp, nf, cf, VNACAL_OPEN, 1.0) == 0
		&& add_reflect(vnp, nf, cf, VNACAL_MATCH, 0.0) == 0
		&& vnacal_new_solve(vnp) == 0;
	    int ci = ok ? vnacal_add_calibration(vcp, "c", vnp) : -1;
	    if (ci < 0) {
		printf("apply SETUPFAIL\n");
	    } else {
		cx *v = malloc(k > 0 ? k * sizeof(cx) : 0);
		cx *m[1];
		vnadata_t *vdp = vnadata_alloc(error_fn, NULL);
		for (int i = 0; i < k; ++i) v[i] = meas(fs[i], 0.3 - 0.4 * I);
		m[0] = v;
		errors = 0;
		int rc = vnacal_apply_m(vcp, ci, fs, k, m, 1, 1, vdp);
		if (rc == -1 && errors == 1) {
		    printf("apply REJ\n");
		} else if (rc != 0 || errors != 0) {
		    printf("apply ODD\n");
		} else {
		    printf("apply ACC");
		    for (int i = 0; i < k; ++i) pc(vnadata_get_cell(vdp, i, 0, 0));
		    printf("\n");
		}
		vnadata_free(vdp);
		free(v);
	    }
	    vnacal_new_free(vnp);
	    vnacal_free(vcp);
	    free(cf); free(fs);
	} else if (strcmp(op, "chain") == 0) {
	    int order = rdi();
	    int nf = rdi();
	    double *cf = rdvec(nf);
	    int nn = rdi();
	    vnacal_t *vcp = vnacal_create(error_fn, NULL);
	    int *ps = malloc((nn > 0 ? nn : 1) * sizeof(int));
	    int made = 0, failed = 0, head_corr = 0;
	    for (int i = 0; i < nn; ++i) {
		char kind[8];
		int p = -1;
		if (scanf("%7s", kind) != 1) { fprintf(stderr, "harness: short input (node)\n"); exit(3); }
		int other = made > 0 ? ps[made - 1] : -1;
		if (kind[0] == 'S') {
		    if (!failed) p = vnacal_make_scalar_parameter(vcp, 0.25 - 0.5 * I);
		} else if (kind[0] == 'V') {
		    int n = rdi();
		    double *fs = rdvec(n);
		    cx *gs = malloc((n > 0 ? n : 1) * sizeof(cx));
		    for (int j = 0; j < n; ++j) gs[j] = -0.9 + 0.01 * j + 0.02 * I;
		    if (!failed) p = vnacal_make_vector_parameter(vcp, fs, n, gs);
		    free(fs); free(gs);
		} else if (kind[0] == 'U') {
		    if (!failed) p = vnacal_make_unknown_parameter(vcp, other);
		} else if (kind[0] == 'K') {
		    int ns = rdi();
		    char mode[8];
		    if (scanf("%7s", mode) != 1) { fprintf(stderr, "harness: short input (mode)\n"); exit(3); }
		    double *fs = mode[0] == 'O' ? rdvec(ns) : NULL;
		    double *sg = rdvec(ns);
		    if (!failed) p = vnacal_make_correlated_parameter(vcp, other, fs, ns, sg);
		    free(fs); free(sg);
		    head_corr = (i == nn - 1);
		} else {
		    fprintf(stderr, "harness: unknown node kind %s\n", kind);
		    return 2;
		}
		if (!failed) {
		    if (p < 0) failed = 1; else ps[made++] = p;
		}
	    }
	    int k = rdi();
	    double *q = rdvec(k);
	    printf("chain MK %d", made);
	    for (int i = 0; i < made; ++i) {
		double lo = -1.0, hi = -1.0;
		_vnacal_get_parameter_frange(_vnacal_get_parameter(vcp, ps[i]), &lo, &hi);
		printf(" %a %a", lo, hi);
	    }
	    if (!failed && made == nn && nn > 0) {
		int head = ps[nn - 1];
		vnacal_new_t *vnp = new_1x1(vcp, nf);
		int rc1, rc2;
		if (order == 0) {
		    rc1 = vnacal_new_set_frequency_vector(vnp, cf);
		    errors = 0;
		    rc2 = add_reflect(vnp, nf, cf, head, -0.9);
		} else {
		    errors = 0;
		    rc1 = add_reflect(vnp, nf, cf, head, -0.9);
		    if (errors != 0) rc1 = -1;
		    errors = 0;
		    rc2 = vnacal_new_set_frequency_vector(vnp, cf);
		}
		printf(" %s", rc1 != 0 ? "SETUPFAIL" : rc2 == 0 && errors == 0 ? "ACC" : rc2 == -1 && errors == 1 ? "REJ" : "ODD");
		vnacal_new_free(vnp);
		printf(" SIG");
		if (head_corr) {
		    vnacal_parameter_t *vpmrp = _vnacal_get_parameter(vcp, head);
		    for (int i = 0; i < k; ++i) printf(" %a", _vnacal_get_correlated_sigma(vpmrp, q[i]));
		}
	    }
	    printf("\n");
	    for (int i = made - 1; i >= 0; --i) vnacal_delete_parameter(vcp, ps[i]);
	    vnacal_free(vcp);
	    free(ps); free(cf); free(q);
	} else if (strcmp(op, "zero") == 0) {
	    /* frequencies == 0: nothing of the (empty) frequency vectors may be read */
	    vnacal_t *vcp = vnacal_create(error_fn, NULL);
	    vnacal_new_t *vnp = new_1x1(vcp, 0);
	    double *none = malloc(0);
	    int rc1 = vnp != NULL ? vnacal_new_set_frequency_vector(vnp, none) : -2;
	    /* a real calibration, applied to zero frequencies */
	    double cf[3] = { 1.0, 2.0, 3.0 };
	    vnacal_new_t *vnp2 = new_1x1(vcp, 3);
	    int ok = vnacal_new_set_frequency_vector(vnp2, cf) == 0
		&& add_reflect(vnp2, 3, cf, VNACAL_SHORT, -1.0) == 0
		&& add_reflect(vnp2, 3, cf, VNACAL_OPEN, 1.0) == 0
		&& add_reflect(vnp2, 3, cf, VNACAL_MATCH, 0.0) == 0
		&& vnacal_new_solve(vnp2) == 0;
	    int ci = ok ? vnacal_add_calibration(vcp, "c", vnp2) : -1;
	    int rc2 = -2;
	    if (ci >= 0) {
		cx *v = malloc(0);
		cx *m[1];
		/* (a vnadata_t that already owns a frequency vector: with a fresh one
		 * vnadata_set_frequency_vector does memcpy(NULL, p, 0)) */
		vnadata_t *vdp = vnadata_alloc_and_init(error_fn, NULL, VPT_S, 1, 1, 1);
		m[0] = v;
		rc2 = vnacal_apply_m(vcp, ci, none, 0, m, 1, 1, vdp);
		vnadata_free(vdp);
		free(v);
	    }
	    printf("zero set=%d apply=%d\n", rc1, rc2);
	    free(none);
	    vnacal_new_free(vnp);
	    vnacal_new_free(vnp2);
	    vnacal_free(vcp);
	} else {
	    fprintf(stderr, "harness: unknown op %s\n", op);
	    return 2;
	}
	fflush(stdout);
    }
    return 0;
}
