/*
 * Second translation unit of harness/tstone_tok.c: includes vnadata_load_npd.c to reach the static
 * scan_line (the two loader sources cannot share a translation unit: archdep.h has no include guard
 * and both define add_char / convert_int / convert_double / T_EOF).  See tstone_tok.c for the format.
 */
#include "vnadata_load_npd.c"

static void puthex(const char *p, size_t n)
{
    if (n == 0) { putchar('-'); return; }
    for (size_t i = 0; i < n; ++i) printf("%02x", (unsigned char)p[i]);
}

static const char *recname(npd_record_type_t t)
{
    switch (t) {
    case T_KVERSION: return "version";
    case T_KROWS: return "rows";
    case T_KCOLUMNS: return "columns";
    case T_KPORTS: return "ports";
    case T_KFREQUENCIES: return "frequencies";
    case T_KPARAMETERS: return "parameters";
    case T_KFPRECISION: return "fprecision";
    case T_KDPRECISION: return "dprecision";
    case T_KZ0: return "z0";
    case T_DATA: return "data";
    default: return "?";
    }
}

void run_npd(vnadata_t *vdp, FILE *fp)
{
    npd_scan_state_t nss;

    /* as _vnadata_load_npd initialises it */
    (void)memset((void *)&nss, 0, sizeof(nss));
    nss.nss_vdip = VDP_TO_VDIP(vdp);
    nss.nss_fp = fp;
    nss.nss_filename = "x";
    nss.nss_start_of_line = true;
    nss.nss_line = 0;
    nss.nss_char = '\n';
    printf("LINES ");
    for (;;) {
	if (scan_line(&nss) == -1) {
	    printf("ERR");
	    break;
	}
	if (nss.nss_record_type == T_EOF) {
	    printf("EOF");
	    break;
	}
	printf("%s:", recname(nss.nss_record_type));
	for (size_t i = 0; i < nss.nss_field_count; ++i) {
	    size_t start = (size_t)nss.nss_fields[i];
	    size_t end = (i + 1 < nss.nss_field_count) ? (size_t)nss.nss_fields[i + 1] : nss.nss_text_size;

	    if (i != 0) putchar(',');
	    if (start > nss.nss_text_size || end > nss.nss_text_size || end <= start) {
		printf("?");		/* offset outside the text of this line */
		continue;
	    }
	    puthex(&nss.nss_text[start], end - 1 - start);
	}
	printf(";");
    }
    printf("\n");
    free(nss.nss_fields);
    free(nss.nss_text);
}

