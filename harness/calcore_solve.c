/*
 * calcore_solve: the script driver of calcore_e2e.c with a white-box dump of the linear systems that
 * _vnacal_new_solve_simple assembles (property C01, SolveSimple tie).  vnacal_new_solve_simple.c is
 * included with _vnacommon_mldivide / _vnacommon_qrsolve renamed to the hooks below, which print the
 * coefficient matrix and the right-hand side (%a) and then call the real routines.  Build with
 * exclude vnacal_new_solve_simple.c.
 *   SYS LU n n   a (n*n complex) b (n complex)
 *   SYS QR m n   a (m*n complex) b (m complex)
 *   X n  x (n complex)                                   the solution returned
 * Leakage tie: the _vnacal_new_solve_simple of the included file is renamed calcore_inner_solve_simple; the
 * function of that name defined here (the one vnacal_new_solve.c calls, once per frequency, right after
 * _vnacal_new_solve_start_frequency) first prints the leakage state of the solve and then calls the real one:
 *   LEAK findex outside=0|1 stds=N
 *   LK findex row col count sum_re sum_im    vnss_leakage_matrix[cell]: vnlt_count, vnlt_sum (%a), off-diagonal cells
 *   LS findex std row col                    standard `std` (vnm_index) is a sample of the cell: the cell was given
 *                                            (vnm_m_matrix != NULL) and vnm_connectivity_matrix says no path
 *   LA findex std cell re im                 vnmm_m_matrix of every given cell (measured value minus leakage mean)
 *   endleak findex
 */
#define _vnacommon_mldivide calcore_hook_mldivide
#define _vnacommon_qrsolve calcore_hook_qrsolve
#define _vnacal_new_solve_simple calcore_inner_solve_simple
#include "vnacal_new_solve_simple.c"
#undef _vnacal_new_solve_simple
#undef _vnacommon_mldivide
#undef _vnacommon_qrsolve
#include <stdio.h>

int _vnacal_new_solve_simple(vnacal_new_solve_state_t *vnssp, double complex *x_vector, int x_length)
{
    vnacal_new_t *vnp = vnssp->vnss_vnp;
    const vnacal_layout_t *vlp = &vnp->vn_layout;
    const int m_rows = VL_M_ROWS(vlp), m_columns = VL_M_COLUMNS(vlp);
    const int s_columns = VL_S_COLUMNS(vlp);
    const int findex = vnssp->vnss_findex;

    printf("LEAK %d outside=%d stds=%d\n", findex, vnssp->vnss_leakage_matrix != NULL ? 1 : 0,
	    vnp->vn_measurement_count);
    if (vnssp->vnss_leakage_matrix != NULL) {
	for (int row = 0; row < m_rows; ++row)
	    for (int column = 0; column < m_columns; ++column) {
		const vnacal_new_leakage_term_t *vnltp = vnssp->vnss_leakage_matrix[row * m_columns + column];
		if (row == column)
		    continue;
		if (vnltp == NULL) { printf("LK %d %d %d null\n", findex, row, column); continue; }
		printf("LK %d %d %d %d %a %a\n", findex, row, column, vnltp->vnlt_count,
			creal(vnltp->vnlt_sum), cimag(vnltp->vnlt_sum));
	    }
    }
    for (vnacal_new_measurement_t *vnmp = vnp->vn_measurement_list; vnmp != NULL; vnmp = vnmp->vnm_next) {
	const vnacal_new_msv_matrices_t *vnmmp = &vnssp->vnss_msv_matrices[vnmp->vnm_index];
	for (int row = 0; row < m_rows; ++row)
	    for (int column = 0; column < m_columns; ++column) {
		const int m_cell = row * m_columns + column;
		if (vnmp->vnm_m_matrix[m_cell] == NULL)
		    continue;
		if (row != column && vnmp->vnm_connectivity_matrix != NULL &&
			!vnmp->vnm_connectivity_matrix[row * s_columns + column])
		    printf("LS %d %d %d %d\n", findex, vnmp->vnm_index, row, column);
		printf("LA %d %d %d %a %a\n", findex, vnmp->vnm_index, m_cell,
			creal(vnmmp->vnmm_m_matrix[m_cell]), cimag(vnmmp->vnmm_m_matrix[m_cell]));
	    }
    }
    printf("endleak %d\n", findex);
    return calcore_inner_solve_simple(vnssp, x_vector, x_length);
}

extern double complex _vnacommon_mldivide(double complex *x, double complex *a,
	const double complex *b, int m, int n);
extern int _vnacommon_qrsolve(complex double *x, complex double *a,
	complex double *b, int m, int n, int o);

static void dumpsys(const char *kind, const double complex *a, const double complex *b, int m, int n)
{
    printf("SYS %s %d %d a", kind, m, n);
    for (int i = 0; i < m * n; ++i) printf(" %a %a", creal(a[i]), cimag(a[i]));
    printf(" b");
    for (int i = 0; i < m; ++i) printf(" %a %a", creal(b[i]), cimag(b[i]));
    printf("\n");
}
static void dumpx(const double complex *x, int n)
{
    printf("X %d", n);
    for (int i = 0; i < n; ++i) printf(" %a %a", creal(x[i]), cimag(x[i]));
    printf("\n");
}

double complex calcore_hook_mldivide(double complex *x, double complex *a,
	const double complex *b, int m, int n)
{
    dumpsys("LU", a, b, m, m);
    double complex d = _vnacommon_mldivide(x, a, b, m, n);
    dumpx(x, m);
    return d;
}

int calcore_hook_qrsolve(complex double *x, complex double *a,
	complex double *b, int m, int n, int o)
{
    dumpsys("QR", a, b, m, n);
    int rank = _vnacommon_qrsolve(x, a, b, m, n, o);
    dumpx(x, n);
    return rank;
}

#define CALCORE_NO_ARCHDEP		/* archdep.h has no include guard and is already in */
#include "calcore_e2e.c"
