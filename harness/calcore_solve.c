/*
 * calcore_solve: the script driver of calcore_e2e.c with a white-box dump of the linear systems that
 * _vnacal_new_solve_simple assembles (property C01, SolveSimple tie).  vnacal_new_solve_simple.c is
 * included with _vnacommon_mldivide / _vnacommon_qrsolve renamed to the hooks below, which print the
 * coefficient matrix and the right-hand side (%a) and then call the real routines.  Build with
 * exclude vnacal_new_solve_simple.c.
 *   SYS LU n n   a (n*n complex) b (n complex)
 *   SYS QR m n   a (m*n complex) b (m complex)
 *   X n  x (n complex)                                   the solution returned
 */
#define _vnacommon_mldivide calcore_hook_mldivide
#define _vnacommon_qrsolve calcore_hook_qrsolve
#include "vnacal_new_solve_simple.c"
#undef _vnacommon_mldivide
#undef _vnacommon_qrsolve
#include <stdio.h>

extern double complex _vnacommon_mldivide(double complex *x, double complex *a,
	const double complex *b, int m, int n);
extern int _vnacommon_qrsolve(complex double *x, complex double *a,
	complex double *b, int m, int n, int o);

static void dumpsys(const char *kind, const double complex *a, const double complex *b, int m, int n)
{
    printf("SYS %s %d %d a", kind, m, n);
    for (int i = 0; i < m * n; ++i) printf(" %a %a", creal(a[i]), cimag(a[i]));
    printf(" b");
    for (int i = 0; i < m; ++i) printf(" %a %a", creal(b[i]), cimag(b[i]));
    printf("\n");
}
static void dumpx(const double complex *x, int n)
{
    printf("X %d", n);
    for (int i = 0; i < n; ++i) printf(" %a %a", creal(x[i]), cimag(x[i]));
    printf("\n");
}

double complex calcore_hook_mldivide(double complex *x, double complex *a,
	const double complex *b, int m, int n)
{
    dumpsys("LU", a, b, m, m);
    double complex d = _vnacommon_mldivide(x, a, b, m, n);
    dumpx(x, m);
    return d;
}

int calcore_hook_qrsolve(complex double *x, complex double *a,
	complex double *b, int m, int n, int o)
{
    dumpsys("QR", a, b, m, n);
    int rank = _vnacommon_qrsolve(x, a, b, m, n, o);
    dumpx(x, n);
    return rank;
}

#define CALCORE_NO_ARCHDEP		/* archdep.h has no include guard and is already in */
#include "calcore_e2e.c"
