/*
 * calcore_e12conv: white-box driver for the static convert_ue14_to_e12 of vnacal_new_solve.c (property C01,
 * tie of its failure exit  um[m_row] == 0.0 -> errno = EDOM, return -1  and of its success path with
 * coq/Cal/EndToEndE12Check.v q_convert_checked).  Includes vnacal_new_solve.c to reach the static function
 * (build with exclude vnacal_new_solve.c).
 * One case per line (numbers read with strtod, printed with %a):
 *   conv MR MC N e(re im)..          N = error terms of the _VNACAL_E12_UE14 layout of MR x MC
 * Output per case:
 *   rc=0 out <3*MR*MC complex>       the vector converted in place to the VNACAL_E12 layout
 *   rc=-1 errno=<n>                  (n as a number; EDOM printed by the harness as "edom=<EDOM>" on the first line)
 *   refused                          N differs from the layout's count, or MR < MC
 */
#include "vnacal_new_solve.c"
#include <stdio.h>

int main(void)
{
    static char line[1 << 20];
    printf("edom=%d\n", EDOM);
    while (fgets(line, sizeof(line), stdin) != NULL) {
	char *p = line;
	if (strncmp(p, "conv", 4) != 0) continue;
	p += 4;
	int mr = (int)strtol(p, &p, 10), mc = (int)strtol(p, &p, 10);
	int n = (int)strtol(p, &p, 10);
	vnacal_layout_t vl_in, vl_out;
	if (mr < 1 || mc < 1 || mr < mc) { printf("refused\n"); continue; }
	_vnacal_layout(&vl_in, _VNACAL_E12_UE14, mr, mc);
	_vnacal_layout(&vl_out, VNACAL_E12, mr, mc);
	if (n != VL_ERROR_TERMS(&vl_in)) { printf("refused\n"); continue; }
	/* the function converts in place: the buffer holds the larger of the two layouts, as in the caller */
	int size = MAX(VL_ERROR_TERMS(&vl_in), VL_ERROR_TERMS(&vl_out));
	double complex *e = calloc(size, sizeof(double complex));
	if (e == NULL) abort();
	for (int i = 0; i < n; ++i) { double a = strtod(p, &p); double b = strtod(p, &p); e[i] = a + I * b; }
	errno = 0;
	int rc = convert_ue14_to_e12(e, &vl_in, &vl_out);
	int en = errno;
	if (rc == 0) {
	    printf("rc=0 out");
	    for (int i = 0; i < VL_ERROR_TERMS(&vl_out); ++i) printf(" %a %a", creal(e[i]), cimag(e[i]));
	    printf("\n");
	} else {
	    printf("rc=%d errno=%d\n", rc, en);
	}
	free(e);
    }
    return 0;
}
