/*
 * Parser-block ledger shared by harness/tstone_mem.c and harness/tstone_mem_npd.c (property C09,
 * package B): the two loader sources are compiled with malloc / calloc / realloc / free renamed to the
 * functions below, so that exactly the requests the parsers make for their OWN buffers (token text,
 * value vector, [Reference] vector; NPD text, field vector, z0 vector) are counted, can be made to fail,
 * and are recorded with their sizes when they are released.
 */
#ifndef TSTONE_MEM_H
#define TSTONE_MEM_H
#include <stddef.h>
void *tm_malloc(size_t n);
void *tm_calloc(size_t a, size_t b);
void *tm_realloc(void *p, size_t n);
void tm_free(void *p);
#endif
