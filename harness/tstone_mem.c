/*
 * White-box harness for the pointer-level models of the parsers' own buffers (C09, package B;
 * coq/Files/TsMem.v, TsMemNpd.v, LoadFail.v).  vnadata_load_touchstone.c is included here and
 * vnadata_load_npd.c in tstone_mem_npd.c, both with malloc / calloc / realloc / free renamed to the ledger
 * functions below; vnadata_load.c of the library then calls these instrumented loaders.
 *
 * One command per line, one output line per command:
 *   mts K NAME HEX|-    load the bytes as a Touchstone file (vnadata_fload with file name NAME) into an object
 *   mnp K NAME HEX|-    the same for an NPD file
 *       K > 0: the K-th request of the parser for one of its own buffers fails (NULL, errno = ENOMEM)
 *       the destination was initialised as a 3 x 3 Z object with 2 frequencies (7 Hz, 9 Hz)
 *     -> MEM rc errno | REQ n | FREED s,s,s | LIVE n | DEST type rows cols freqs filetype fz0 fprecision dprecision | MAX n
 *        n of REQ: requests made; FREED: the sizes in bytes of the blocks handed to free, in call order
 *        ("-" = free(NULL)); LIVE: parser blocks still allocated after the return; MAX: most blocks live at once
 * realloc always moves the block (malloc + copy + free) so that a stale pointer is an ASan report.
 * A call that runs longer than VERIF_ALARM seconds (default 5) prints HANG and exits with 95.
 */
#include <assert.h>
#include <ctype.h>
#include <errno.h>
#include <signal.h>
#include <stdarg.h>
#include <stdbool.h>
#include <stdio.h>
#include <stdlib.h>
#include <string.h>
#include <math.h>
#include <complex.h>
#include <unistd.h>
#include "tstone_mem.h"

#define TM_MAX 64
static struct { void *p; size_t n; } tm_tab[TM_MAX];
static long tm_requests, tm_fail_at, tm_live, tm_max;
static char tm_freed[4096];
static size_t tm_freed_len;

static void tm_add(void *p, size_t n)
{
    for (int i = 0; i < TM_MAX; ++i)
	if (tm_tab[i].p == NULL) { tm_tab[i].p = p; tm_tab[i].n = n; ++tm_live; if (tm_live > tm_max) tm_max = tm_live; return; }
    fprintf(stderr, "harness: ledger full\n");
    exit(3);
}
static int tm_find(void *p)
{
    for (int i = 0; i < TM_MAX; ++i)
	if (tm_tab[i].p == p) return i;
    return -1;
}
static int tm_should_fail(void)
{
    ++tm_requests;
    if (tm_fail_at > 0 && tm_requests == tm_fail_at) { errno = ENOMEM; return 1; }
    return 0;
}
void *tm_malloc(size_t n)
{
    if (tm_should_fail()) return NULL;
    void *p = malloc(n ? n : 1);
    if (p == NULL) { fprintf(stderr, "harness: out of memory\n"); exit(3); }
    tm_add(p, n);
    return p;
}
void *tm_calloc(size_t a, size_t b)
{
    if (tm_should_fail()) return NULL;
    void *p = calloc(a * b ? a * b : 1, 1);
    if (p == NULL) { fprintf(stderr, "harness: out of memory\n"); exit(3); }
    tm_add(p, a * b);
    return p;
}
void tm_free(void *p)
{
    if (p == NULL) {
	tm_freed_len += (size_t)snprintf(tm_freed + tm_freed_len, sizeof(tm_freed) - tm_freed_len, "%s-", tm_freed_len ? "," : "");
	return;
    }
    int i = tm_find(p);
    if (i < 0) {
	tm_freed_len += (size_t)snprintf(tm_freed + tm_freed_len, sizeof(tm_freed) - tm_freed_len, "%s?", tm_freed_len ? "," : "");
	free(p);	/* not a parser block: let ASan judge */
	return;
    }
    tm_freed_len += (size_t)snprintf(tm_freed + tm_freed_len, sizeof(tm_freed) - tm_freed_len, "%s%zu", tm_freed_len ? "," : "", tm_tab[i].n);
    tm_tab[i].p = NULL;
    --tm_live;
    free(p);
}
void *tm_realloc(void *q, size_t n)
{
    if (q == NULL) return tm_malloc(n);
    if (tm_should_fail()) return NULL;
    int i = tm_find(q);
    size_t old = i >= 0 ? tm_tab[i].n : 0;
    void *p = malloc(n ? n : 1);
    if (p == NULL) { fprintf(stderr, "harness: out of memory\n"); exit(3); }
    if (i < 0) { fprintf(stderr, "harness: realloc of a block that is not a parser block\n"); exit(3); }
    memcpy(p, q, old < n ? old : n);
    tm_tab[i].p = NULL;
    --tm_live;
    free(q);
    tm_add(p, n);
    return p;
}

#define malloc tm_malloc
#define calloc tm_calloc
#define realloc tm_realloc
#define free tm_free
#include "vnadata_load_touchstone.c"
#undef malloc
#undef calloc
#undef realloc
#undef free

static int nerr;
static void error_fn(const char *message, void *arg, vnaerr_category_t category)
{
    (void)arg; (void)message;
    if (category != VNAERR_WARNING)
	++nerr;
}
static void on_alarm(int sig)
{
    static const char msg[] = "HANG\n";
    (void)sig;
    fflush(stdout);
    if (write(1, msg, sizeof(msg) - 1) < 0) { }
    _exit(95);
}
static int hexv(int c) { return c <= '9' ? c - '0' : (c | 32) - 'a' + 10; }
static const char *errname(int e)
{
    static char b[32];
    switch (e) {
    case 0: return "0";
    case EINVAL: return "EINVAL";
    case EBADMSG: return "EBADMSG";
    case ENOPROTOOPT: return "ENOPROTOOPT";
    case ENOMEM: return "ENOMEM";
    default: snprintf(b, sizeof(b), "E%d", e); return b;
    }
}

int main(void)
{
    char *line = NULL;
    size_t cap = 0;
    ssize_t n;
    int alarm_seconds = 5;

    if (getenv("VERIF_ALARM") != NULL) alarm_seconds = atoi(getenv("VERIF_ALARM"));
    signal(SIGALRM, on_alarm);
    while ((n = getline(&line, &cap, stdin)) > 0) {
	char *op = strtok(line, " \t\r\n");
	char *a1, *name, *hex;
	char *buf = NULL;
	size_t len = 0;
	FILE *fp;
	vnadata_t *vdp;
	int rc, e;

	if (op == NULL || op[0] == '#') continue;
	if (strcmp(op, "case") == 0) {
	    char *id = strtok(NULL, " \t\r\n");
	    printf("CASE %s\n", id ? id : "?");
	    fflush(stdout);
	    continue;
	}
	if (strcmp(op, "mts") != 0 && strcmp(op, "mnp") != 0) {
	    fprintf(stderr, "harness: unknown op %s\n", op);
	    return 3;
	}
	a1 = strtok(NULL, " \t\r\n");
	name = strtok(NULL, " \t\r\n");
	hex = strtok(NULL, " \t\r\n");
	if (a1 == NULL || name == NULL) { fprintf(stderr, "harness: missing argument\n"); return 3; }
	if (hex != NULL && strcmp(hex, "-") != 0) {
	    len = strlen(hex) / 2;
	    buf = malloc(len + 1);
	    for (size_t i = 0; i < len; ++i)
		buf[i] = (char)(hexv(hex[2 * i]) * 16 + hexv(hex[2 * i + 1]));
	}
	fp = len ? fmemopen(buf, len, "r") : fopen("/dev/null", "r");
	if (fp == NULL) { fprintf(stderr, "harness: fmemopen failed\n"); return 3; }
	vdp = vnadata_alloc_and_init(error_fn, NULL, VPT_Z, 3, 3, 2);
	if (vdp == NULL) { fprintf(stderr, "harness: vnadata_alloc_and_init failed\n"); return 3; }
	(void)vnadata_set_frequency(vdp, 0, 7.0);
	(void)vnadata_set_frequency(vdp, 1, 9.0);
	tm_requests = 0; tm_fail_at = strtol(a1, NULL, 0); tm_live = 0; tm_max = 0; tm_freed_len = 0; tm_freed[0] = 0;
	memset(tm_tab, 0, sizeof(tm_tab));
	nerr = 0;
	errno = 0;
	alarm(alarm_seconds);
	rc = vnadata_fload(vdp, fp, name);
	e = errno;
	alarm(0);
	printf("MEM %d %s | REQ %ld | FREED %s | LIVE %ld | DEST %d %d %d %d %d %d %d %d | MAX %ld\n", rc, errname(rc == -1 ? e : 0),
		tm_requests, tm_freed_len ? tm_freed : "none", tm_live,
		(int)vnadata_get_type(vdp), vnadata_get_rows(vdp), vnadata_get_columns(vdp),
		vnadata_get_frequencies(vdp), (int)vnadata_get_filetype(vdp), vnadata_has_fz0(vdp) ? 1 : 0,
		vnadata_get_fprecision(vdp), vnadata_get_dprecision(vdp), tm_max);
	/* the object must still be usable: read every cell, frequency and impedance, then free it */
	{
	    int rows = vnadata_get_rows(vdp), cols = vnadata_get_columns(vdp), nf = vnadata_get_frequencies(vdp);
	    volatile double sink = 0.0;
	    for (int f = 0; f < nf; ++f) {
		sink += vnadata_get_frequency(vdp, f);
		for (int r = 0; r < rows; ++r)
		    for (int c = 0; c < cols; ++c)
			sink += creal(vnadata_get_cell(vdp, f, r, c));
	    }
	    for (int p = 0; p < (rows > cols ? rows : cols); ++p)
		sink += creal(vnadata_has_fz0(vdp) ? (nf > 0 ? vnadata_get_fz0(vdp, 0, p) : 0.0) : vnadata_get_z0(vdp, p));
	    (void)sink;
	}
	vnadata_free(vdp);
	fclose(fp);
	free(buf);
	fflush(stdout);
    }
    free(line);
    return 0;
}
