/*
 * Failure atomicity and error class of the YAML importers (properties C09 / C11 / C12 / C14; fixes DO90, DO91).
 * Linked with allocwrap.c (allocation counting / fault injection on libvna's own requests).
 *
 * stdin: one command per line, fields separated by one space, strings hex-encoded ("-" = empty):
 *
 *   imp <s|f> <sweep 0|1> <text> <setup,setup,...|->
 *       the caller's root is built with vnaproperty_set(&root, setup) for every setup string (old content);
 *       the YAML text is imported with vnaproperty_import_yaml_from_string (s) / _from_file (f, a tmpfile());
 *       output
 *         D <document>   what libyaml ALONE parses from the text: !syntax | !empty | tree with
 *                        s<p|d><hex> scalar (p = plain style, d = any other; cut at the first NUL), m{k=v;...}, q[...;...],
 *                        c = an alias to a node that encloses it (recursive alias)
 *         R <ret> <errno> <cat> <ncb> <digest before> <digest after> <requests> <leaked blocks>
 *                        cat = category of the last non-warning error callback (-1 none), ncb = their number;
 *                        leaked = tracked blocks still live after the root has been deleted again
 *       with sweep = 1 additionally, for k = 1 .. requests (at most 600), the same call on a freshly built
 *       root with the k-th allocation request of the import failing:
 *         K <k> <fired> <ret> <errno> <cat> <ncb> <digest after> <leaked blocks>
 *       then END
 *
 *   cal <text>
 *       the text is written to $PROP_TMP/atomic_<pid>.vnacal and loaded with vnacal_load; output
 *         C <0 = NULL | 1> <errno> <cat> <ncb> <leaked blocks> <digest global>|<digest cal 0>|...
 *       then END
 *
 *   exp <setup,setup,...|->
 *       the tree is built as above and exported with vnaproperty_export_yaml_to_file to a memory stream, once
 *       without fault and once per allocation request k of the export failing; output
 *         O <digest of the tree> <requests> <ret> <digest of the re-imported text | ->
 *         X <k> <fired> <ret> <errno> <cat> <ncb> <digest of the re-imported text | -> <blocks left by the export>
 *       (the text of an export that returned 0 is imported, without fault, into a fresh root) then END
 *
 *   sav <setup,setup,...|->
 *       a vnacal_t with one T8 calibration gets the tree as global AND as per-calibration properties; vnacal_save
 *       to $PROP_TMP/atomic_<pid>.vnacal once without fault and once per allocation request failing; a save that
 *       returned 0 is read back with vnacal_load (no fault); output
 *         O <digest global>|<digest cal> <requests> <ret> <digests read back | ->
 *         X <k> <fired> <ret> <errno> <cat> <ncb> <digests read back | - | !load errno>
 *       then END
 *
 * Digests are taken through the public getters only (type / count / keys / get / get_subtree with quote_key),
 * except the list allocation (vnaproperty_internal.h), as in prop_harness.c.
 */
#define _GNU_SOURCE
#include <errno.h>
#include <unistd.h>
#include <stdio.h>
#include <stdlib.h>
#include <string.h>
#include <complex.h>
#include <yaml.h>
#include <vnaproperty.h>
#include <vnacal.h>
#include "vnaproperty_internal.h"

extern long verif_alloc_count, verif_failed;
extern void verif_alloc_track(int on);
extern void verif_alloc_reset(long fail_at);
extern long verif_live_blocks(void);

static int cb_count, cb_cat;
static void errfn(const char *msg, void *arg, vnaerr_category_t cat)
{
    (void)msg; (void)arg;
    if (cat != VNAERR_WARNING) {
	++cb_count;
	cb_cat = (int)cat;
    }
}

static char *unhex(const char *h)
{
    size_t n;
    char *s;

    if (strcmp(h, "-") == 0)
	h = "";
    n = strlen(h) / 2;
    s = malloc(n + 1);
    for (size_t i = 0; i < n; ++i) {
	unsigned v;
	sscanf(h + 2 * i, "%2x", &v);
	s[i] = (char)v;
    }
    s[n] = 0;
    return s;
}

static void hexn(FILE *o, const char *s, size_t n)
{
    for (size_t i = 0; i < n; ++i)
	fprintf(o, "%02x", (unsigned char)s[i]);
}
static void hex(FILE *o, const char *s) { hexn(o, s, strlen(s)); }

static void digest(FILE *o, const vnaproperty_t *n)
{
    if (n == NULL) {
	fputs("N", o);
	return;
    }
    switch (vnaproperty_type(n, ".")) {
    case 's':
	{
	    const char *v = vnaproperty_get(n, ".");
	    fputs("S", o);
	    if (v == NULL) fputs("?", o); else hex(o, v);
	}
	break;
    case 'm':
	{
	    const char **keys = vnaproperty_keys(n, "{}");
	    int count = vnaproperty_count(n, "{}"), i = 0;
	    fputs("M{", o);
	    if (keys == NULL) {
		fputs("?", o);
	    } else {
		for (const char **k = keys; *k != NULL; ++k, ++i) {
		    char *q = vnaproperty_quote_key(*k);
		    vnaproperty_t *sub;
		    if (i) fputs(";", o);
		    hex(o, *k);
		    fputs("=", o);
		    errno = 0;
		    sub = vnaproperty_get_subtree(n, "%s", q);
		    if (sub == NULL && errno != 0) fputs("?", o); else digest(o, sub);
		    free(q);
		}
		if (i != count) fprintf(o, "?count=%d", count);
		free(keys);
	    }
	    fputs("}", o);
	}
	break;
    case 'l':
	{
	    int count = vnaproperty_count(n, "[]");
	    fprintf(o, "L%zu[", ((const vnaproperty_list_t *)n)->vpl_allocation);
	    for (int i = 0; i < count; ++i) {
		vnaproperty_t *sub;
		if (i) fputs(";", o);
		errno = 0;
		sub = vnaproperty_get_subtree(n, "[%d]", i);
		if (sub == NULL && errno != 0) fputs("?", o); else digest(o, sub);
	    }
	    fputs("]", o);
	}
	break;
    default:
	fputs("?", o);
    }
}

/* the document as libyaml alone parses it; an alias to an enclosing node is printed as c */
typedef struct chain { const yaml_node_t *node; const struct chain *up; } chain_t;

static void ydump(FILE *o, yaml_document_t *doc, yaml_node_t *n, const chain_t *up)
{
    chain_t self = { n, up };

    for (const chain_t *c = up; c != NULL; c = c->up) {
	if (c->node == n) {
	    fputs("c", o);
	    return;
	}
    }
    switch (n->type) {
    case YAML_SCALAR_NODE:
	fprintf(o, "s%c", n->data.scalar.style == YAML_PLAIN_SCALAR_STYLE ? 'p' : 'd');
	/* the importer reads the value as a C string: cut at the first NUL ("\0" escapes) */
	hexn(o, (const char *)n->data.scalar.value, strnlen((const char *)n->data.scalar.value, n->data.scalar.length));
	break;
    case YAML_MAPPING_NODE:
	fputs("m{", o);
	for (yaml_node_pair_t *p = n->data.mapping.pairs.start; p < n->data.mapping.pairs.top; ++p) {
	    if (p != n->data.mapping.pairs.start) fputs(";", o);
	    ydump(o, doc, yaml_document_get_node(doc, p->key), &self);
	    fputs("=", o);
	    ydump(o, doc, yaml_document_get_node(doc, p->value), &self);
	}
	fputs("}", o);
	break;
    case YAML_SEQUENCE_NODE:
	fputs("q[", o);
	for (yaml_node_item_t *it = n->data.sequence.items.start; it < n->data.sequence.items.top; ++it) {
	    if (it != n->data.sequence.items.start) fputs(";", o);
	    ydump(o, doc, yaml_document_get_node(doc, *it), &self);
	}
	fputs("]", o);
	break;
    default:
	fputs("?", o);
    }
}

static void dump_document(FILE *o, const char *text)
{
    yaml_parser_t parser;
    yaml_document_t doc;
    yaml_node_t *yr;

    yaml_parser_initialize(&parser);
    yaml_parser_set_input_string(&parser, (const unsigned char *)text, strlen(text));
    if (!yaml_parser_load(&parser, &doc)) {
	fputs("!syntax", o);
    } else {
	if ((yr = yaml_document_get_root_node(&doc)) == NULL)
	    fputs("!empty", o);
	else
	    ydump(o, &doc, yr, NULL);
	yaml_document_delete(&doc);
    }
    yaml_parser_delete(&parser);
}

/* build the old content; returns the number of setup strings the library refused (must be 0) */
static int build_root(vnaproperty_t **rootptr, char *setups)
{
    int bad = 0;
    char *save = NULL;

    *rootptr = NULL;
    if (strcmp(setups, "-") == 0)
	return 0;
    for (char *t = strtok_r(setups, ",", &save); t != NULL; t = strtok_r(NULL, ",", &save)) {
	char *s = unhex(t);
	if (vnaproperty_set(rootptr, "%s", s) == -1)
	    ++bad;
	free(s);
    }
    return bad;
}

/* one import; prints "<ret> <errno> <cat> <ncb>" */
static int do_import(vnaproperty_t **rootptr, int entry, const char *text, int *errno_out)
{
    int ret;

    cb_count = 0;
    cb_cat = -1;
    errno = 0;
    if (entry == 'f') {
	FILE *yi;
	verif_alloc_track(0);
	yi = tmpfile();
	if (yi == NULL) { perror("tmpfile"); exit(3); }
	fwrite(text, 1, strlen(text), yi);
	rewind(yi);
	verif_alloc_track(1);
	errno = 0;
	ret = vnaproperty_import_yaml_from_file(rootptr, yi, "mem", errfn, NULL);
	*errno_out = errno;
	verif_alloc_track(0);
	fclose(yi);
	verif_alloc_track(1);
    } else {
	ret = vnaproperty_import_yaml_from_string(rootptr, text, errfn, NULL);
	*errno_out = errno;
    }
    return ret;
}

int main(void)
{
    char *line = NULL;
    size_t cap = 0;
    FILE *o = stdout;

    while (getline(&line, &cap, stdin) > 0) {
	char *w[6];
	int nw = 0;
	char *save = NULL;

	line[strcspn(line, "\n")] = 0;
	for (char *t = strtok_r(line, " ", &save); t != NULL && nw < 6; t = strtok_r(NULL, " ", &save))
	    w[nw++] = t;
	if (nw == 0)
	    continue;
	if (strcmp(w[0], "imp") == 0 && nw == 5) {
	    int entry = w[1][0], sweep = atoi(w[2]);
	    char *text = unhex(w[3]);
	    long requests = 0;

	    fputs("D ", o); dump_document(o, text); fputs("\n", o);
	    for (long k = 0; k == 0 || (sweep && k <= requests && k <= 600); ++k) {
		vnaproperty_t *root = NULL;
		char *setups = strdup(w[4]);
		long live0 = verif_live_blocks(), leaked;
		int ret, e, bad;
		char *before = NULL, *after = NULL;
		size_t bl = 0, al = 0;
		FILE *bo, *ao;

		verif_alloc_reset(0);
		verif_alloc_track(1);
		bad = build_root(&root, setups);
		verif_alloc_track(0);
		if (bad) { fprintf(stderr, "setup refused\n"); exit(2); }
		bo = open_memstream(&before, &bl); digest(bo, root); fclose(bo);
		verif_alloc_reset(k);
		verif_alloc_track(1);
		ret = do_import(&root, entry, text, &e);
		verif_alloc_track(0);
		if (k == 0)
		    requests = verif_alloc_count;
		ao = open_memstream(&after, &al); digest(ao, root); fclose(ao);
		{
		    long fired = verif_failed;
		    verif_alloc_reset(0);
		    _vnaproperty_free_tree(&root);
		    leaked = verif_live_blocks() - live0;
		    if (k == 0)
			fprintf(o, "R %d %d %d %d %s %s %ld %ld\n", ret, e, cb_cat, cb_count, before, after, requests, leaked);
		    else
			fprintf(o, "K %ld %ld %d %d %d %d %s %ld\n", k, fired, ret, e, cb_cat, cb_count, after, leaked);
		}
		free(before); free(after); free(setups);
	    }
	    fputs("END\n", o);
	    free(text);
	} else if (strcmp(w[0], "cal") == 0 && nw == 2) {
	    char *text = unhex(w[1]);
	    const char *dir = getenv("PROP_TMP");
	    char path[4096];
	    FILE *fp;
	    vnacal_t *vcp;
	    long live0 = verif_live_blocks(), leaked;
	    int e;

	    snprintf(path, sizeof(path), "%s/atomic_%ld.vnacal", dir ? dir : "/tmp", (long)getpid());
	    if ((fp = fopen(path, "w")) == NULL) { perror(path); exit(3); }
	    fwrite(text, 1, strlen(text), fp);
	    fclose(fp);
	    cb_count = 0; cb_cat = -1;
	    verif_alloc_reset(0);
	    verif_alloc_track(1);
	    errno = 0;
	    vcp = vnacal_load(path, errfn, NULL);
	    e = errno;
	    verif_alloc_track(0);
	    if (vcp == NULL) {
		leaked = verif_live_blocks() - live0;
		fprintf(o, "C 0 %d %d %d %ld -\n", e, cb_cat, cb_count, leaked);
	    } else {
		char *dg = NULL; size_t dl = 0;
		FILE *d = open_memstream(&dg, &dl);
		int end = vnacal_get_calibration_end(vcp);
		digest(d, vnacal_property_get_subtree(vcp, -1, "."));
		for (int ci = 0; ci < end; ++ci) {
		    fputs("|", d);
		    if (vnacal_get_name(vcp, ci) == NULL) fputs("-", d);
		    else digest(d, vnacal_property_get_subtree(vcp, ci, "."));
		}
		fclose(d);
		vnacal_free(vcp);
		leaked = verif_live_blocks() - live0;
		fprintf(o, "C 1 0 %d %d %ld %s\n", cb_cat, cb_count, leaked, dg);
		free(dg);
	    }
	    remove(path);
	    fputs("END\n", o);
	    free(text);
	} else if (strcmp(w[0], "exp") == 0 && nw == 2) {
	    vnaproperty_t *root = NULL;
	    char *setups = strdup(w[1]);
	    char *orig = NULL; size_t ol = 0;
	    FILE *oo;
	    long requests = 0;

	    verif_alloc_reset(0);
	    verif_alloc_track(1);
	    if (build_root(&root, setups)) { fprintf(stderr, "setup refused\n"); exit(2); }
	    verif_alloc_track(0);
	    oo = open_memstream(&orig, &ol); digest(oo, root); fclose(oo);
	    for (long k = 0; k <= requests && k <= 2000; ++k) {
		char *text = NULL; size_t tl = 0;
		FILE *tf = open_memstream(&text, &tl);
		long live0 = verif_live_blocks(), left, fired;
		int ret, e;
		char *re = NULL; size_t rl = 0;

		cb_count = 0; cb_cat = -1;
		verif_alloc_reset(k);
		verif_alloc_track(1);
		errno = 0;
		ret = vnaproperty_export_yaml_to_file(root, tf, "mem", errfn, NULL);
		e = errno;
		verif_alloc_track(0);
		fired = verif_failed;
		if (k == 0)
		    requests = verif_alloc_count;
		verif_alloc_reset(0);
		left = verif_live_blocks() - live0;
		fclose(tf);
		if (ret == 0) {
		    vnaproperty_t *r2 = NULL;
		    FILE *ro = open_memstream(&re, &rl);
		    int saved_count = cb_count, saved_cat = cb_cat;
		    if (vnaproperty_import_yaml_from_string(&r2, text, errfn, NULL) == -1)
			fputs("!import", ro);
		    else
			digest(ro, r2);
		    fclose(ro);
		    _vnaproperty_free_tree(&r2);
		    cb_count = saved_count; cb_cat = saved_cat;
		}
		if (k == 0)
		    fprintf(o, "O %s %ld %d %s\n", orig, requests, ret, re ? re : "-");
		else
		    fprintf(o, "X %ld %ld %d %d %d %d %s %ld\n", k, fired, ret, e, cb_cat, cb_count, re ? re : "-", left);
		free(re); free(text);
	    }
	    _vnaproperty_free_tree(&root);
	    free(orig); free(setups);
	    fputs("END\n", o);
	} else if (strcmp(w[0], "sav") == 0 && nw == 2) {
	    const char *dir = getenv("PROP_TMP");
	    char path[4096];
	    vnacal_t *vcp;
	    vnacal_new_t *vnp;
	    double f[1] = { 1.0e9 };
	    double complex m[1];
	    double complex *mp[1] = { m };
	    int ci;
	    long requests = 0;
	    char *orig = NULL; size_t ol = 0;
	    FILE *oo;

	    snprintf(path, sizeof(path), "%s/atomic_%ld.vnacal", dir ? dir : "/tmp", (long)getpid());
	    verif_alloc_track(0);
	    verif_alloc_reset(0);
	    if ((vcp = vnacal_create(errfn, NULL)) == NULL) exit(3);
	    vnp = vnacal_new_alloc(vcp, VNACAL_T8, 1, 1, 1);
	    if (vnp == NULL || vnacal_new_set_frequency_vector(vnp, f) == -1) exit(3);
	    m[0] = -0.9; if (vnacal_new_add_single_reflect_m(vnp, mp, 1, 1, VNACAL_SHORT, 1) == -1) exit(3);
	    m[0] = 0.9;  if (vnacal_new_add_single_reflect_m(vnp, mp, 1, 1, VNACAL_OPEN, 1) == -1) exit(3);
	    m[0] = 0.1;  if (vnacal_new_add_single_reflect_m(vnp, mp, 1, 1, VNACAL_MATCH, 1) == -1) exit(3);
	    if (vnacal_new_solve(vnp) == -1) exit(3);
	    if (vnacal_add_calibration(vcp, "cal", vnp) == -1) exit(3);
	    if ((ci = vnacal_find_calibration(vcp, "cal")) == -1) exit(3);
	    vnacal_new_free(vnp);
	    if (strcmp(w[1], "-") != 0) {
		char *setups = strdup(w[1]), *save2 = NULL;
		for (char *t = strtok_r(setups, ",", &save2); t != NULL; t = strtok_r(NULL, ",", &save2)) {
		    char *st = unhex(t);
		    if (vnacal_property_set(vcp, -1, "%s", st) == -1 || vnacal_property_set(vcp, ci, "%s", st) == -1) {
			fprintf(stderr, "setup refused\n"); exit(2);
		    }
		    free(st);
		}
		free(setups);
	    }
	    oo = open_memstream(&orig, &ol);
	    digest(oo, vnacal_property_get_subtree(vcp, -1, ".")); fputs("|", oo);
	    digest(oo, vnacal_property_get_subtree(vcp, ci, "."));
	    fclose(oo);
	    for (long k = 0; k <= requests && k <= 2000; ++k) {
		int ret, e;
		long fired;
		char *re = NULL; size_t rl = 0;

		cb_count = 0; cb_cat = -1;
		remove(path);
		verif_alloc_reset(k);
		verif_alloc_track(1);
		errno = 0;
		ret = vnacal_save(vcp, path);
		e = errno;
		verif_alloc_track(0);
		fired = verif_failed;
		if (k == 0)
		    requests = verif_alloc_count;
		verif_alloc_reset(0);
		if (ret == 0) {
		    int saved_count = cb_count, saved_cat = cb_cat;
		    FILE *ro = open_memstream(&re, &rl);
		    vnacal_t *v2;
		    errno = 0;
		    v2 = vnacal_load(path, errfn, NULL);
		    if (v2 == NULL) {
			fprintf(ro, "!load%d", errno);
		    } else {
			int c2 = vnacal_find_calibration(v2, "cal");
			digest(ro, vnacal_property_get_subtree(v2, -1, ".")); fputs("|", ro);
			if (c2 < 0) fputs("!nocal", ro); else digest(ro, vnacal_property_get_subtree(v2, c2, "."));
			vnacal_free(v2);
		    }
		    fclose(ro);
		    cb_count = saved_count; cb_cat = saved_cat;
		}
		if (k == 0)
		    fprintf(o, "O %s %ld %d %s\n", orig, requests, ret, re ? re : "-");
		else
		    fprintf(o, "X %ld %ld %d %d %d %d %s 0\n", k, fired, ret, e, cb_cat, cb_count, re ? re : "-");
		free(re);
	    }
	    remove(path);
	    vnacal_free(vcp);
	    free(orig);
	    fputs("END\n", o);
	} else {
	    fprintf(stderr, "bad command %s\n", w[0]);
	    exit(2);
	}
	fflush(o);
    }
    free(line);
    return 0;
}
