/*
 * yamltree: dump the libyaml node tree of a file as text.  Uses libyaml and libc only
 * (shares no code with libvna), so that it can serve both as the independent reader of the
 * files written by vnacal_save (C07) and as the supplier of the node tree consumed by the
 * Coq model of the loader (C09).
 *
 *   yamltree cal  file...    mimic vnacal_load: fgets(81 bytes) the version line, then let the
 *                            YAML parser continue from the current stdio position
 *   yamltree str  file...    mimic vnaproperty_import_yaml_from_string: file content cut at the
 *                            first NUL byte, parsed from memory
 *   yamltree file file...    whole file through yaml_parser_set_input_file
 *
 * Output per file (every scalar hex encoded, "-" for the empty string):
 *   FILE <path>
 *   FIRST <hex>              (cal mode only: what fgets returned; "EOF" if nothing)
 *   ERROR <line> <hex text>  the parser rejected the input        -- or --
 *   EMPTY                    no root node                         -- or --
 *   the tree in preorder:
 *     M <pairs>              mapping; then key node, value node for each pair
 *     Q <items>              sequence; then each item
 *     S <style> <hex>        scalar; style p(lain) s(ingle) d(ouble) l(iteral) f(olded) a(ny)
 *     CYCLE                  an alias pointing at a node that is still being expanded
 *     TOOBIG                 more than MAXNODES nodes after alias expansion (rest cut)
 *   END
 */
#include <stdio.h>
#include <stdlib.h>
#include <string.h>
#include <yaml.h>

#define MAXNODES 400000

static long emitted;
static int toobig;

static void hex(const unsigned char *s, size_t n)
{
    if (n == 0) {
	putchar('-');
	return;
    }
    for (size_t i = 0; i < n; ++i)
	printf("%02x", s[i]);
}

static void walk(yaml_document_t *doc, int id, char *onstack)
{
    yaml_node_t *node = yaml_document_get_node(doc, id);

    if (toobig)
	return;
    if (++emitted > MAXNODES) {
	toobig = 1;
	printf("TOOBIG\n");
	return;
    }
    if (node == NULL) {
	printf("S p -\n");
	return;
    }
    if (onstack[id]) {
	printf("CYCLE\n");
	return;
    }
    switch (node->type) {
    case YAML_SCALAR_NODE:
	{
	    char st = 'a';
	    switch (node->data.scalar.style) {
	    case YAML_PLAIN_SCALAR_STYLE:         st = 'p'; break;
	    case YAML_SINGLE_QUOTED_SCALAR_STYLE: st = 's'; break;
	    case YAML_DOUBLE_QUOTED_SCALAR_STYLE: st = 'd'; break;
	    case YAML_LITERAL_SCALAR_STYLE:       st = 'l'; break;
	    case YAML_FOLDED_SCALAR_STYLE:        st = 'f'; break;
	    default: break;
	    }
	    printf("S %c ", st);
	    hex(node->data.scalar.value, node->data.scalar.length);
	    putchar('\n');
	}
	break;
    case YAML_SEQUENCE_NODE:
	printf("Q %ld\n", (long)(node->data.sequence.items.top -
				 node->data.sequence.items.start));
	onstack[id] = 1;
	for (yaml_node_item_t *it = node->data.sequence.items.start;
	     it < node->data.sequence.items.top; ++it)
	    walk(doc, *it, onstack);
	onstack[id] = 0;
	break;
    case YAML_MAPPING_NODE:
	printf("M %ld\n", (long)(node->data.mapping.pairs.top -
				 node->data.mapping.pairs.start));
	onstack[id] = 1;
	for (yaml_node_pair_t *p = node->data.mapping.pairs.start;
	     p < node->data.mapping.pairs.top; ++p) {
	    walk(doc, p->key, onstack);
	    walk(doc, p->value, onstack);
	}
	onstack[id] = 0;
	break;
    default:
	printf("S p -\n");
	break;
    }
}

static void dump(const char *mode, const char *path)
{
    FILE *fp = fopen(path, "r");
    yaml_parser_t parser;
    yaml_document_t doc;
    char *mem = NULL;

    printf("FILE %s\n", path);
    if (fp == NULL) {
	printf("ERROR 0 ");
	hex((const unsigned char *)"open", 4);
	printf("\nEND\n");
	return;
    }
    yaml_parser_initialize(&parser);
    if (strcmp(mode, "cal") == 0) {
	char line[81];
	if (fgets(line, sizeof(line), fp) == NULL) {
	    printf("FIRST EOF\nEND\n");
	    yaml_parser_delete(&parser);
	    fclose(fp);
	    return;
	}
	line[sizeof(line) - 1] = 0;
	printf("FIRST ");
	hex((const unsigned char *)line, strlen(line));
	putchar('\n');
	yaml_parser_set_input_file(&parser, fp);
    } else if (strcmp(mode, "str") == 0) {
	long n;
	fseek(fp, 0, SEEK_END);
	n = ftell(fp);
	fseek(fp, 0, SEEK_SET);
	mem = calloc(n + 1, 1);
	if (fread(mem, 1, n, fp) != (size_t)n) {
	    /* ignore */
	}
	yaml_parser_set_input_string(&parser, (const unsigned char *)mem, strlen(mem));
    } else {
	yaml_parser_set_input_file(&parser, fp);
    }
    if (!yaml_parser_load(&parser, &doc)) {
	const char *pb = parser.problem ? parser.problem : "?";
	printf("ERROR %ld ", (long)parser.problem_mark.line + 1);
	hex((const unsigned char *)pb, strlen(pb));
	printf("\nEND\n");
    } else {
	yaml_node_t *root = yaml_document_get_root_node(&doc);
	if (root == NULL) {
	    printf("EMPTY\nEND\n");
	} else {
	    long count = doc.nodes.top - doc.nodes.start;
	    char *onstack = calloc(count + 2, 1);
	    emitted = 0;
	    toobig = 0;
	    walk(&doc, 1, onstack);
	    free(onstack);
	    printf("END\n");
	}
	yaml_document_delete(&doc);
    }
    yaml_parser_delete(&parser);
    fclose(fp);
    free(mem);
}

int main(int argc, char **argv)
{
    if (argc < 3) {
	fprintf(stderr, "usage: yamltree cal|str|file path...\n");
	return 2;
    }
    if (strcmp(argv[2], "-") == 0) {		/* paths from stdin, one per line */
	char path[4096];
	while (fgets(path, sizeof(path), stdin) != NULL) {
	    path[strcspn(path, "\n")] = 0;
	    if (path[0] != 0)
		dump(argv[1], path);
	    fflush(stdout);
	}
	return 0;
    }
    for (int i = 2; i < argc; ++i)
	dump(argv[1], argv[i]);
    return 0;
}
