/* config.h.  Generated from config.h.in by configure.  */
/* config.h.in.  Generated from configure.ac by autoheader.  */

/* Define to 1 if you have the <arpa/inet.h> header file. */
#define HAVE_ARPA_INET_H 1

/* Define to 1 if you have the <dlfcn.h> header file. */
#define HAVE_DLFCN_H 1

/* Define to 1 if you have the <float.h> header file. */
#define HAVE_FLOAT_H 1

/* Define to 1 if you have the `insque' function. */
#define HAVE_INSQUE 1

/* Define to 1 if you have the <inttypes.h> header file. */
#define HAVE_INTTYPES_H 1

/* Define to 1 if you have the `isascii' function. */
#define HAVE_ISASCII 1

/* Define to 1 if you have the `m' library (-lm). */
#define HAVE_LIBM 1

/* Define to 1 if you have the `yaml' library (-lyaml). */
#define HAVE_LIBYAML 1

/* Define to 1 if your system has a GNU libc compatible `malloc' function, and
   to 0 otherwise. */
#define HAVE_MALLOC 1

/* Define to 1 if you have the `mkdir' function. */
#define HAVE_MKDIR 1

/* Define to 1 if you have the `random' function. */
#define HAVE_RANDOM 1

/* Define to 1 if your system has a GNU libc compatible `realloc' function,
   and to 0 otherwise. */
#define HAVE_REALLOC 1

/* Define to 1 if you have the `remque' function. */
#define HAVE_REMQUE 1

/* Define to 1 if you have the <search.h> header file. */
#define HAVE_SEARCH_H 1

/* Define to 1 if you have the <stdint.h> header file. */
#define HAVE_STDINT_H 1

/* Define to 1 if you have the <stdio.h> header file. */
#define HAVE_STDIO_H 1

/* Define to 1 if you have the <stdlib.h> header file. */
#define HAVE_STDLIB_H 1

/* Define to 1 if you have the `strcasecmp' function. */
#define HAVE_STRCASECMP 1

/* Define to 1 if you have the `strdup' function. */
#define HAVE_STRDUP 1

/* Define to 1 if you have the <strings.h> header file. */
#define HAVE_STRINGS_H 1

/* Define to 1 if you have the <string.h> header file. */
#define HAVE_STRING_H 1

/* Define to 1 if you have the <sys/stat.h> header file. */
#define HAVE_SYS_STAT_H 1

/* Define to 1 if you have the <sys/types.h> header file. */
#define HAVE_SYS_TYPES_H 1

/* Define to 1 if you have the <unistd.h> header file. */
#define HAVE_UNISTD_H 1

/* Define to 1 if you have the `vasprintf' function. */
#define HAVE_VASPRINTF 1

/* Define to 1 if you have the <winsock2.h> header file. */
/* #undef HAVE_WINSOCK2_H */

/* Define to 1 if the system has the type `_Bool'. */
#define HAVE__BOOL 1

/* Define to the sub-directory where libtool stores uninstalled libraries. */
#define LT_OBJDIR ".libs/"

/* Name of package */
#define PACKAGE "libvna"

/* Define to the address where bug reports for this package should be sent. */
#define PACKAGE_BUGREPORT "bugs@rompromity.net"

/* Define to the full name of this package. */
#define PACKAGE_NAME "libvna"

/* Define to the full name and version of this package. */
#define PACKAGE_STRING "libvna 0.3.10"

/* Define to the one symbol short name of this package. */
#define PACKAGE_TARNAME "libvna"

/* Define to the home page for this package. */
#define PACKAGE_URL ""

/* Define to the version of this package. */
#define PACKAGE_VERSION "0.3.10"

/* Define to 1 if all of the C90 standard headers exist (not just the ones
   required in a freestanding environment). This macro is provided for
   backward compatibility; new code need not use it. */
#define STDC_HEADERS 1

/* Version number of package */
#define VERSION "0.3.10"

/* Define for Solaris 2.5.1 so the uint32_t typedef from <sys/synch.h>,
   <pthread.h>, or <semaphore.h> is not used. If the typedef were allowed, the
   #define below would cause a syntax error. */
/* #undef _UINT32_T */

/* Define for Solaris 2.5.1 so the uint8_t typedef from <sys/synch.h>,
   <pthread.h>, or <semaphore.h> is not used. If the typedef were allowed, the
   #define below would cause a syntax error. */
/* #undef _UINT8_T */

/* Define to `__inline__' or `__inline' if that's what the C compiler
   calls it, or to nothing if 'inline' is not supported under any name.  */
#ifndef __cplusplus
/* #undef inline */
#endif

/* Define to rpl_malloc if the replacement function should be used. */
/* #undef malloc */

/* Define to rpl_realloc if the replacement function should be used. */
/* #undef realloc */

/* Define to `unsigned int' if <sys/types.h> does not define. */
/* #undef size_t */

/* Define to the type of an unsigned integer type of width exactly 32 bits if
   such a type exists and the standard includes do not define it. */
/* #undef uint32_t */

/* Define to the type of an unsigned integer type of width exactly 8 bits if
   such a type exists and the standard includes do not define it. */
/* #undef uint8_t */
