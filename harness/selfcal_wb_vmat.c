/*
 * selfcal_wb_vmat: white-box variant of selfcal_harness for the V-matrix machinery of
 * _vnacal_new_solve_simple (coq/SelfCal/VMatrixModel.v).  Same scenario language as
 * selfcal_harness.c / selfcal_wb.c.  Build with
 *   extra = [selfcal_wb_vmat_simple.c, selfcal_wb_auto.c, selfcal_wb_pvalue.c, selfcal_wb_trl.c],
 *   exclude = (vnacal_new_solve_simple.c, vnacal_new_solve_auto.c, vnacal_new_solve_pvalue.c,
 *              vnacal_new_solve_trl.c).
 * Lines printed by the taps (all start with "wbv"), per frequency of a solve with the model on:
 *   wbv prob findex=<f> type=<vl_type> rows=<r> cols=<c> unknowns=<u> nstd=<n> nsys=<k> nf=<sigma_nf> tr=<sigma_tr>
 *           tol=<et_tolerance> limit=<iteration_limit>
 *   wbv std <idx> m <cells> {re im | n n}* s <cells> {<known 0|1> re im | 0 n n}*
 *   wbv conn <idx> <cells> {0|1}*  /  wbv szero <idx> <cells> {0|1}*    vnm_connectivity_matrix, vnm_s_matrix[c] == vn_zero
 *   wbv eq <sindex> <std> <row> <col> <nterms> { <neg> <m_cell> <s_cell> <v_cell> <xindex> }*     (full vne_term_list)
 *   wbv nov <sindex> <eq number> <nterms> { <v_cell> <xindex> <m_cell> <s_cell> }*               (the vnt_next_no_v thread)
 *   wbv xinit <n> {re im}*                 _vnacal_new_solve_init_x_vector
 *   wbv vst <tag> <idx> ( - | V <nsys> { N | P <n> {re im}* }* )        V matrices of every standard; tag = init | upd
 *   wbv w <n> <w>*                         the vector returned by _vnacal_new_solve_calc_weights
 *   wbv solve <qr|lu> <m> <n>  /  wbv A ... / wbv b ... / wbv x <n> {re im}* rank=<r>|det=<re im>
 *   wbv upd sindex=<s> rc=<rc>             followed by the "wbv vst upd" lines
 */
#define SELFCAL_WB 1
#include "selfcal_harness.c"

static void wbv_cx(double complex z)
{
    if (isnan(creal(z)) || isnan(cimag(z)))
	printf(" n n");
    else
	printf(" %.17g %.17g", creal(z), cimag(z));
}

static void wbv_state(const vnacal_new_solve_state_t *vnssp, const char *tag)
{
    vnacal_new_t *vnp = vnssp->vnss_vnp;
    const vnacal_layout_t *vlp = &vnp->vn_layout;
    const int v_cells = VL_V_ROWS(vlp) * VL_V_COLUMNS(vlp);

    for (int i = 0; i < vnp->vn_measurement_count; ++i) {
	const vnacal_new_msv_matrices_t *vnmmp = &vnssp->vnss_msv_matrices[i];

	printf("wbv vst %s %d", tag, i);
	if (vnmmp->vnsm_v_matrices == NULL) {
	    printf(" -\n");
	    continue;
	}
	printf(" V %d", vnp->vn_systems);
	for (int s = 0; s < vnp->vn_systems; ++s) {
	    if (vnmmp->vnsm_v_matrices[s] == NULL) {
		printf(" N");
		continue;
	    }
	    printf(" P %d", v_cells);
	    for (int c = 0; c < v_cells; ++c)
		wbv_cx(vnmmp->vnsm_v_matrices[s][c]);
	}
	printf("\n");
    }
}

double *wbv_calc_weights(vnacal_new_solve_state_t *vnssp)
{
    vnacal_new_t *vnp = vnssp->vnss_vnp;
    const vnacal_layout_t *vlp = &vnp->vn_layout;
    const int m_cells = VL_M_ROWS(vlp) * VL_M_COLUMNS(vlp);
    const int s_cells = VL_S_ROWS(vlp) * VL_S_COLUMNS(vlp);
    const int findex = vnssp->vnss_findex;
    const int x_length = vnp->vn_systems * (vlp->vl_t_terms - 1);
    double complex xinit[x_length];
    double *w;

    printf("wbv prob findex=%d type=%d rows=%d cols=%d unknowns=%d nstd=%d nsys=%d nf=%.17g tr=%.17g tol=%.17g limit=%d\n",
	    findex, (int)VL_TYPE(vlp), VL_M_ROWS(vlp), VL_M_COLUMNS(vlp), vlp->vl_t_terms - 1,
	    vnp->vn_measurement_count, vnp->vn_systems,
	    vnp->vn_m_error_vector[findex].vnme_sigma_nf, vnp->vn_m_error_vector[findex].vnme_sigma_tr,
	    vnp->vn_et_tolerance, vnp->vn_iteration_limit);
    for (int i = 0; i < vnp->vn_measurement_count; ++i) {
	const vnacal_new_msv_matrices_t *vnmmp = &vnssp->vnss_msv_matrices[i];

	printf("wbv std %d m %d", i, m_cells);
	for (int c = 0; c < m_cells; ++c)
	    wbv_cx(vnmmp->vnmm_m_matrix[c]);
	printf(" s %d", s_cells);
	for (int c = 0; c < s_cells; ++c) {
	    printf(" %d", vnmmp->vnmm_vnmp->vnm_s_matrix[c] != NULL ? 1 : 0);
	    wbv_cx(vnmmp->vnmm_s_matrix[c]);
	}
	printf("\n");
	/* the inputs of vnacal_new_build_equation_terms.c: connectivity, S cell entered as vn_zero */
	if (vnmmp->vnmm_vnmp->vnm_connectivity_matrix == NULL)	/* T16 / U16: not computed */
	    continue;
	printf("wbv conn %d %d", i, s_cells);
	for (int c = 0; c < s_cells; ++c)
	    printf(" %d", vnmmp->vnmm_vnmp->vnm_connectivity_matrix[c] ? 1 : 0);
	printf("\nwbv szero %d %d", i, s_cells);
	for (int c = 0; c < s_cells; ++c)
	    printf(" %d", vnmmp->vnmm_vnmp->vnm_s_matrix[c] == vnp->vn_zero ? 1 : 0);
	printf("\n");
    }
    for (int s = 0; s < vnp->vn_systems; ++s) {
	int k = 0;

	for (vnacal_new_equation_t *vnep = vnp->vn_system_vector[s].vns_equation_list;
		vnep != NULL; vnep = vnep->vne_next, ++k) {
	    int n = 0;

	    for (vnacal_new_term_t *t = vnep->vne_term_list; t != NULL; t = t->vnt_next)
		++n;
	    printf("wbv eq %d %d %d %d %d", s, vnep->vne_vnmp->vnm_index, vnep->vne_row, vnep->vne_column, n);
	    for (vnacal_new_term_t *t = vnep->vne_term_list; t != NULL; t = t->vnt_next)
		printf(" %d %d %d %d %d", t->vnt_negative ? 1 : 0, t->vnt_m_cell, t->vnt_s_cell,
			t->vnt_v_cell, t->vnt_xindex);
	    printf("\n");
	    n = 0;
	    for (vnacal_new_term_t *t = vnep->vne_term_list_no_v; t != NULL; t = t->vnt_next_no_v)
		++n;
	    printf("wbv nov %d %d %d", s, k, n);
	    for (vnacal_new_term_t *t = vnep->vne_term_list_no_v; t != NULL; t = t->vnt_next_no_v)
		printf(" %d %d %d %d", t->vnt_v_cell, t->vnt_xindex, t->vnt_m_cell, t->vnt_s_cell);
	    printf("\n");
	}
    }
    _vnacal_new_solve_init_x_vector(vnssp, xinit, x_length);
    printf("wbv xinit %d", x_length);
    for (int i = 0; i < x_length; ++i)
	wbv_cx(xinit[i]);
    printf("\n");
    wbv_state(vnssp, "init");
    w = _vnacal_new_solve_calc_weights(vnssp);
    if (w != NULL) {
	printf("wbv w %d", vnp->vn_equations);
	for (int i = 0; i < vnp->vn_equations; ++i)
	    printf(" %.17g", w[i]);
	printf("\n");
    }
    return w;
}

static void wbv_matrix(const char *tag, const double complex *a, int m, int n)
{
    printf("wbv %s %d %d", tag, m, n);
    for (int i = 0; i < m * n; ++i)
	wbv_cx(a[i]);
    printf("\n");
}

int wbv_qrsolve(complex double *x, complex double *a, complex double *b, int m, int n, int o)
{
    int rank;

    printf("wbv solve qr %d %d\n", m, n);
    wbv_matrix("A", a, m, n);
    wbv_matrix("b", b, m, o);
    rank = _vnacommon_qrsolve(x, a, b, m, n, o);
    printf("wbv x %d", n);
    for (int i = 0; i < n; ++i)
	wbv_cx(x[i]);
    printf(" rank=%d\n", rank);
    return rank;
}

double complex wbv_mldivide(complex double *x, complex double *a, const double complex *b, int m, int n)
{
    double complex d;

    printf("wbv solve lu %d %d\n", m, m);
    wbv_matrix("A", a, m, m);
    wbv_matrix("b", b, m, n);
    d = _vnacommon_mldivide(x, a, b, m, n);
    printf("wbv x %d", m);
    for (int i = 0; i < m; ++i)
	wbv_cx(x[i]);
    printf(" det=%.17g,%.17g\n", creal(d), cimag(d));
    return d;
}

int wbv_update_v(const char *function, vnacal_new_solve_state_t *vnssp, int sindex,
	const double complex *x_vector, int x_length)
{
    int rc = _vnacal_new_solve_update_v_matrices(function, vnssp, sindex, x_vector, x_length);

    printf("wbv upd sindex=%d rc=%d\n", sindex, rc);
    wbv_state(vnssp, "upd");
    return rc;
}
