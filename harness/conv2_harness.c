/*
 * Two-port conversion harness (property C04).
 *
 * mode "eval": stdin lines  "<fname> <alias 0|1> m11r m11i m12r m12i m21r m21i m22r m22i z1r z1i z2r z2i"
 *              stdout lines "<fname> o1r o1i ... " (8 or 4 numbers, %.17g)
 * mode "rel <seed> <n>": for each of the 72 conversions and 9 zi functions draw n random
 *              inputs, build electrical states of the input relation with an implementation of
 *              vnaconv(3)'s definitions that is independent of the library, and report the
 *              largest residual of the output relation (and the first input above 1e-7).
 *
 * The function table (conv2_table.inc) is generated from the translator's view of the sources.
 */
#include <complex.h>
#include <math.h>
#include <stdio.h>
#include <stdlib.h>
#include <string.h>
#include <vnaconv.h>

typedef double complex cx;
typedef void (*f2_t)(const cx (*)[2], cx (*)[2]);
typedef void (*f3_t)(const cx (*)[2], cx (*)[2], const cx *);
typedef void (*fz_t)(const cx (*)[2], cx *, const cx *);

struct entry {
    const char *name;
    int kind;			/* 2: (in,out)  3: (in,out,z0)  4: zi (in,zi,z0) */
    void *fn;
};
static struct entry table[] = {
#include "conv2_table.inc"
    { NULL, 0, NULL }
};

static struct entry *lookup(const char *name)
{
    for (struct entry *e = table; e->name != NULL; ++e)
	if (strcmp(e->name, name) == 0)
	    return e;
    return NULL;
}

static void call(struct entry *e, cx in[2][2], cx out[2][2], cx zi[2], const cx *z0)
{
    switch (e->kind) {
    case 2: ((f2_t)e->fn)((const cx (*)[2])in, out); break;
    case 3: ((f3_t)e->fn)((const cx (*)[2])in, out, z0); break;
    case 4: ((fz_t)e->fn)((const cx (*)[2])in, zi, z0); break;
    }
}

/* ------------------------------------------------------------------ independent oracle */
struct state { cx v1, v2, i1, i2; };

static cx wa(cx v, cx i, cx z) { return (v + z * i) / (2.0 * sqrt(fabs(creal(z)))); }
static cx wb(cx v, cx i, cx z) { return (v - conj(z) * i) / (2.0 * sqrt(fabs(creal(z)))); }

static struct state of_waves(cx a1, cx a2, cx b1, cx b2, const cx *z)
{
    double k1 = sqrt(fabs(creal(z[0]))), k2 = sqrt(fabs(creal(z[1])));
    struct state s;
    s.v1 = (conj(z[0]) * a1 + z[0] * b1) / k1;
    s.v2 = (conj(z[1]) * a2 + z[1] * b2) / k2;
    s.i1 = (a1 - b1) / k1;
    s.i2 = (a2 - b2) / k2;
    return s;
}

/* state of relation type t with free quantities p, q */
static struct state param(char t, cx m[2][2], cx p, cx q, const cx *z)
{
    struct state s;
    cx r1 = m[0][0] * p + m[0][1] * q, r2 = m[1][0] * p + m[1][1] * q;
    switch (t) {
    case 's': return of_waves(p, q, r1, r2, z);
    case 't': return of_waves(r2, p, r1, q, z);
    case 'u': return of_waves(q, r1, p, r2, z);
    case 'z': s.v1 = r1; s.v2 = r2; s.i1 = p; s.i2 = q; return s;
    case 'y': s.i1 = r1; s.i2 = r2; s.v1 = p; s.v2 = q; return s;
    case 'h': s.v1 = r1; s.i2 = r2; s.i1 = p; s.v2 = q; return s;
    case 'g': s.i1 = r1; s.v2 = r2; s.v1 = p; s.i2 = q; return s;
    case 'a': s.v2 = p; s.i2 = q;
	      s.v1 = m[0][0] * p - m[0][1] * q; s.i1 = m[1][0] * p - m[1][1] * q; return s;
    case 'b': s.v1 = p; s.i1 = q; s.v2 = r1; s.i2 = -r2; return s;
    }
    abort();
}

/* residual of relation t for matrix m on state s, relative to the state's magnitude */
static double resid(char t, cx m[2][2], struct state s, const cx *z)
{
    cx a1 = wa(s.v1, s.i1, z[0]), a2 = wa(s.v2, s.i2, z[1]);
    cx b1 = wb(s.v1, s.i1, z[0]), b2 = wb(s.v2, s.i2, z[1]);
    cx l1, l2, x1, x2;
    switch (t) {
    case 's': l1 = b1; l2 = b2; x1 = a1; x2 = a2; break;
    case 't': l1 = b1; l2 = a1; x1 = a2; x2 = b2; break;
    case 'u': l1 = a2; l2 = b2; x1 = b1; x2 = a1; break;
    case 'z': l1 = s.v1; l2 = s.v2; x1 = s.i1; x2 = s.i2; break;
    case 'y': l1 = s.i1; l2 = s.i2; x1 = s.v1; x2 = s.v2; break;
    case 'h': l1 = s.v1; l2 = s.i2; x1 = s.i1; x2 = s.v2; break;
    case 'g': l1 = s.i1; l2 = s.v2; x1 = s.v1; x2 = s.i2; break;
    case 'a': l1 = s.v1; l2 = s.i1; x1 = s.v2; x2 = -s.i2; break;
    case 'b': l1 = s.v2; l2 = -s.i2; x1 = s.v1; x2 = s.i1; break;
    default: abort();
    }
    cx r1 = l1 - (m[0][0] * x1 + m[0][1] * x2);
    cx r2 = l2 - (m[1][0] * x1 + m[1][1] * x2);
    double scale = cabs(l1) + cabs(l2) + cabs(m[0][0] * x1) + cabs(m[0][1] * x2)
	+ cabs(m[1][0] * x1) + cabs(m[1][1] * x2) + 1e-300;
    return (cabs(r1) + cabs(r2)) / scale;
}

static unsigned long long rs;
static double rnd(void)		/* uniform in (-1,1), splitmix64 */
{
    rs += 0x9E3779B97F4A7C15ULL;
    unsigned long long z = rs;
    z = (z ^ (z >> 30)) * 0xBF58476D1CE4E5B9ULL;
    z = (z ^ (z >> 27)) * 0x94D049BB133111EBULL;
    z ^= z >> 31;
    return (double)(z >> 11) / 9007199254740992.0 * 2.0 - 1.0;
}
static cx crnd(void) { double a = rnd(), b = rnd(); return 2.0 * (a + I * b); }

static int finite4(cx m[2][2])
{
    for (int i = 0; i < 2; ++i)
	for (int j = 0; j < 2; ++j)
	    if (!isfinite(creal(m[i][j])) || !isfinite(cimag(m[i][j])))
		return 0;
    return 1;
}
static double maxabs(cx m[2][2])
{
    double r = 0;
    for (int i = 0; i < 2; ++i)
	for (int j = 0; j < 2; ++j)
	    if (cabs(m[i][j]) > r) r = cabs(m[i][j]);
    return r;
}

static int mode_rel(unsigned long long seed, int n)
{
    for (struct entry *e = table; e->name != NULL; ++e) {
	char x = e->name[0];
	char y = e->name[3];
	int is_zi = e->kind == 4;
	double worst = 0.0;
	int used = 0;
	int reported = 0;
	rs = seed * 1000003ULL + (unsigned long long)(e - table) * 7919ULL;
	for (int k = 0; k < n; ++k) {
	    cx m[2][2], out[2][2], zi[2], z[2];
	    for (int i = 0; i < 2; ++i)
		for (int j = 0; j < 2; ++j)
		    m[i][j] = crnd();
	    z[0] = 50.0 * (1.05 + rnd()) + I * 40.0 * rnd();
	    z[1] = 75.0 * (1.05 + rnd()) + I * 60.0 * rnd();
	    if (k % 4 == 0) { z[0] = 50.0; z[1] = 50.0; }		/* equal real */
	    if (k % 4 == 1) { z[1] = z[0]; }				/* equal complex */
	    /* aliased and separate calls must agree bit for bit */
	    cx tmp[2][2];
	    memcpy(tmp, m, sizeof(tmp));
	    call(e, m, out, zi, z);
	    if (is_zi) {
		/* zi overlaying the first row of the input matrix, the call the in-place
		 * vnadata_convert(vdp, vdp, VPT_ZIN) makes */
		call(e, tmp, tmp, &tmp[0][0], z);
		if (isfinite(creal(zi[0])) && isfinite(cimag(zi[0])) && isfinite(creal(zi[1])) &&
			isfinite(cimag(zi[1])) && memcmp(&tmp[0][0], zi, 2 * sizeof(cx)) != 0 && !reported) {
		    printf("ALIAS %s in=[%.17g%+.17gi %.17g%+.17gi %.17g%+.17gi %.17g%+.17gi] z0=[%.17g%+.17gi %.17g%+.17gi]\n",
			   e->name, creal(m[0][0]), cimag(m[0][0]), creal(m[0][1]), cimag(m[0][1]),
			   creal(m[1][0]), cimag(m[1][0]), creal(m[1][1]), cimag(m[1][1]),
			   creal(z[0]), cimag(z[0]), creal(z[1]), cimag(z[1]));
		    reported = 1;
		}
	    }
	    if (!is_zi) {
		call(e, tmp, tmp, zi, z);
		if (finite4(out) && memcmp(tmp, out, sizeof(out)) != 0 && !reported) {
		    printf("ALIAS %s in=[%.17g%+.17gi %.17g%+.17gi %.17g%+.17gi %.17g%+.17gi] z0=[%.17g%+.17gi %.17g%+.17gi]\n",
			   e->name, creal(m[0][0]), cimag(m[0][0]), creal(m[0][1]), cimag(m[0][1]),
			   creal(m[1][0]), cimag(m[1][0]), creal(m[1][1]), cimag(m[1][1]),
			   creal(z[0]), cimag(z[0]), creal(z[1]), cimag(z[1]));
		    reported = 1;
		}
	    }
	    if (!is_zi) {
		/* skip ill-conditioned draws: output much larger than input */
		if (!finite4(out) || maxabs(out) > 1e4 * (maxabs(m) + 1.0))
		    continue;
		++used;
		for (int w = 0; w < 2; ++w) {
		    cx p = crnd(), q = crnd();
		    double r1 = resid(y, out, param(x, m, p, q, z), z);   /* forward  */
		    double r2 = resid(x, m, param(y, out, p, q, z), z);   /* backward */
		    double r = r1 > r2 ? r1 : r2;
		    if (r > worst) worst = r;
		    if (r > 1e-7 && !reported) {
			printf("FAIL %s resid=%.3g in=[%.17g%+.17gi %.17g%+.17gi %.17g%+.17gi %.17g%+.17gi] z0=[%.17g%+.17gi %.17g%+.17gi]\n",
			       e->name, r, creal(m[0][0]), cimag(m[0][0]), creal(m[0][1]), cimag(m[0][1]),
			       creal(m[1][0]), cimag(m[1][0]), creal(m[1][1]), cimag(m[1][1]),
			       creal(z[0]), cimag(z[0]), creal(z[1]), cimag(z[1]));
			reported = 1;
		    }
		}
	    } else {
		/* terminated states: the S matrix of the network via the library is avoided:
		   terminate port 2 (a2 = 0) by solving the input relation directly */
		if (!isfinite(creal(zi[0])) || !isfinite(creal(zi[1])) ||
		    cabs(zi[0]) > 1e6 || cabs(zi[1]) > 1e6)
		    continue;
		++used;
		for (int port = 0; port < 2; ++port) {
		    /* states param(x, m, p, q): wa(other port) is linear in (p,q): find the
		       combination with wa_other = 0 from two basis states */
		    struct state s10 = param(x, m, 1.0, 0.0, z), s01 = param(x, m, 0.0, 1.0, z);
		    cx c10, c01;
		    if (port == 0) { c10 = wa(s10.v2, s10.i2, z[1]); c01 = wa(s01.v2, s01.i2, z[1]); }
		    else           { c10 = wa(s10.v1, s10.i1, z[0]); c01 = wa(s01.v1, s01.i1, z[0]); }
		    /* alpha*c10 + beta*c01 = 0 */
		    cx alpha, beta;
		    if (cabs(c10) > cabs(c01)) { beta = 1.0; alpha = -c01 / c10; }
		    else                       { alpha = 1.0; beta = -c10 / c01; }
		    struct state s = param(x, m, alpha, beta, z);
		    cx v = port == 0 ? s.v1 : s.v2, i = port == 0 ? s.i1 : s.i2;
		    double r = cabs(v - zi[port] * i) / (cabs(v) + cabs(zi[port] * i) + 1e-300);
		    if (cabs(v) + cabs(zi[port] * i) < 1e-6)
			continue;
		    if (r > worst) worst = r;
		    if (r > 1e-7 && !reported) {
			printf("FAIL %s port=%d resid=%.3g in=[%.17g%+.17gi %.17g%+.17gi %.17g%+.17gi %.17g%+.17gi] z0=[%.17g%+.17gi %.17g%+.17gi]\n",
			       e->name, port + 1, r, creal(m[0][0]), cimag(m[0][0]), creal(m[0][1]), cimag(m[0][1]),
			       creal(m[1][0]), cimag(m[1][0]), creal(m[1][1]), cimag(m[1][1]),
			       creal(z[0]), cimag(z[0]), creal(z[1]), cimag(z[1]));
			reported = 1;
		    }
		}
	    }
	}
	printf("REL %s used=%d worst=%.3g\n", e->name, used, worst);
    }
    return 0;
}

static int mode_eval(void)
{
    char name[64];
    int alias;
    double v[12];
    while (scanf("%63s %d", name, &alias) == 2) {
	for (int i = 0; i < 12; ++i)
	    if (scanf("%lf", &v[i]) != 1)
		return 2;
	struct entry *e = lookup(name);
	if (e == NULL) { printf("%s UNKNOWN\n", name); continue; }
	cx m[2][2] = { { v[0] + I * v[1], v[2] + I * v[3] }, { v[4] + I * v[5], v[6] + I * v[7] } };
	cx z[2] = { v[8] + I * v[9], v[10] + I * v[11] };
	cx out[2][2], zi[2];
	if (alias && e->kind == 4) {
	    call(e, m, m, &m[0][0], z);
	    zi[0] = m[0][0];
	    zi[1] = m[0][1];
	} else if (alias) {
	    call(e, m, m, zi, z);
	    memcpy(out, m, sizeof(out));
	} else {
	    call(e, m, out, zi, z);
	}
	printf("%s", name);
	if (e->kind == 4)
	    printf(" %.17g %.17g %.17g %.17g\n", creal(zi[0]), cimag(zi[0]), creal(zi[1]), cimag(zi[1]));
	else
	    printf(" %.17g %.17g %.17g %.17g %.17g %.17g %.17g %.17g\n",
		   creal(out[0][0]), cimag(out[0][0]), creal(out[0][1]), cimag(out[0][1]),
		   creal(out[1][0]), cimag(out[1][0]), creal(out[1][1]), cimag(out[1][1]));
    }
    return 0;
}

int main(int argc, char **argv)
{
    if (argc >= 2 && strcmp(argv[1], "eval") == 0)
	return mode_eval();
    if (argc >= 4 && strcmp(argv[1], "rel") == 0)
	return mode_rel(strtoull(argv[2], NULL, 10), atoi(argv[3]));
    fprintf(stderr, "usage: %s eval | rel seed n\n", argv[0]);
    return 2;
}
