/*
 * White-box harness for the frequency side of vnacal_apply (property C10, checks/c10_apply.py).
 *
 * The unmodified src/vnacal_apply.c is compiled into this program with every call of _vnacal_rfi
 * routed through a tap that records its arguments, the segment variable before and after the call
 * and the value (the library is linked without vnacal_apply.o).  A calibration is built directly
 * (_vnacal_calibration_alloc + _vnacal_add_calibration_common) from the given frequency and error
 * term vectors, then vnacal_apply_m is called on the request.
 *
 *   layout <type> <rows> <cols>            -> layout T=<number of error terms> P=<ports>
 *   wb <type> <rows> <cols> nf <cal fs: nf> <terms: T x nf pairs, term-major> k <req fs: k>
 *      -> wb rc=<rc> err=<error callbacks> T=<T> calls=<N> then per call
 *         <term> <n> <m> <x> <segment before> <re> <im> <segment after>
 *         then  S  and per accepted request frequency the c_ports^2 corrected cells (re im)
 * Numbers: anything strtod accepts (the check sends hex floats); doubles are printed with %a.
 */
#include <complex.h>

/* (src/archdep.h has no include guard: everything comes in through vnacal_apply.c itself) */
extern double complex _vnacal_rfi(const double *xp, double complex *yp, int n, int m, int *segment, double x);
static double complex tap_rfi(const double *xp, double complex *yp, int n, int m, int *segment, double x);

#define _vnacal_rfi tap_rfi
#include "vnacal_apply.c"
#undef _vnacal_rfi

#include <stdio.h>
#include <stdlib.h>
#include <string.h>
#include <vnadata.h>

typedef struct {
    int term, n, m, seg_in, seg_out;
    double x;
    double complex v;
} call_t;
static call_t *calls;
static int ncalls, calls_alloc;
static const vnacal_calibration_t *tap_calp;

static double complex tap_rfi(const double *xp, double complex *yp, int n, int m, int *segment, double x)
{
    call_t c;
    c.term = -1;
    if (tap_calp != NULL && xp == tap_calp->cal_frequency_vector) {
	for (int t = 0; t < tap_calp->cal_error_terms; ++t)
	    if (yp == tap_calp->cal_error_term_vector[t]) c.term = t;
    }
    c.n = n; c.m = m; c.x = x; c.seg_in = *segment;
    c.v = _vnacal_rfi(xp, yp, n, m, segment, x);
    c.seg_out = *segment;
    if (ncalls == calls_alloc) {
	calls_alloc = calls_alloc ? 2 * calls_alloc : 256;
	calls = realloc(calls, calls_alloc * sizeof(call_t));
    }
    calls[ncalls++] = c;
    return c.v;
}

static int errors;
static void error_fn(const char *message, void *arg, vnaerr_category_t category)
{
    (void)message; (void)arg; (void)category;
    ++errors;
}
static double rdd(void)
{
    char b[160];
    if (scanf("%159s", b) != 1) { fprintf(stderr, "harness: short input\n"); exit(3); }
    return strtod(b, NULL);
}
static int rdi(void)
{
    int i;
    if (scanf("%d", &i) != 1) { fprintf(stderr, "harness: short input (int)\n"); exit(3); }
    return i;
}
static vnacal_type_t rdtype(void)
{
    char b[32];
    vnacal_type_t t;
    if (scanf("%31s", b) != 1) { fprintf(stderr, "harness: short input (type)\n"); exit(3); }
    t = vnacal_name_to_type(b);
    if ((int)t < 0) { fprintf(stderr, "harness: unknown type %s\n", b); exit(3); }
    return t;
}

int main(void)
{
    char op[32];

    while (scanf("%31s", op) == 1) {
	if (strcmp(op, "layout") == 0) {
	    vnacal_type_t type = rdtype();
	    int rows = rdi(), cols = rdi();
	    vnacal_layout_t vl;
	    _vnacal_layout(&vl, type, rows, cols);
	    printf("layout T=%d P=%d\n", (int)VL_ERROR_TERMS(&vl), rows > cols ? rows : cols);
	} else if (strcmp(op, "wb") == 0) {
	    vnacal_type_t type = rdtype();
	    int rows = rdi(), cols = rdi(), nf = rdi();
	    vnacal_layout_t vl;
	    _vnacal_layout(&vl, type, rows, cols);
	    int T = VL_ERROR_TERMS(&vl);
	    int ports = rows > cols ? rows : cols;
	    vnacal_t *vcp = vnacal_create(error_fn, NULL);
	    vnacal_calibration_t *calp = _vnacal_calibration_alloc(vcp, type, rows, cols, nf, T);
	    if (vcp == NULL || calp == NULL) { fprintf(stderr, "harness: cannot allocate\n"); exit(3); }
	    for (int i = 0; i < nf; ++i) calp->cal_frequency_vector[i] = rdd();
	    for (int t = 0; t < T; ++t)
		for (int i = 0; i < nf; ++i) { double a = rdd(), b = rdd(); calp->cal_error_term_vector[t][i] = a + I * b; }
	    calp->cal_z0 = 50.0;
	    int k = rdi();
	    /* exact-size heap vectors so that ASan sees every out-of-bounds access */
	    double *req = malloc(k > 0 ? k * sizeof(double) : 0);
	    for (int i = 0; i < k; ++i) req[i] = rdd();
	    int ci = _vnacal_add_calibration_common("apply_wb", vcp, calp, "wb");
	    if (ci < 0) { fprintf(stderr, "harness: add_calibration failed\n"); exit(3); }
	    double complex **m = malloc(ports * ports * sizeof(double complex *));
	    for (int c = 0; c < ports * ports; ++c) {
		m[c] = malloc(k > 0 ? k * sizeof(double complex) : 0);
		for (int i = 0; i < k; ++i)
		    m[c][i] = (c / ports == c % ports ? 0.5 - 0.25 * I : 0.125 + 0.0625 * I) + 0.03125 * c;
	    }
	    vnadata_t *vdp = vnadata_alloc_and_init(error_fn, NULL, VPT_S, 1, 1, 1);
	    ncalls = 0;
	    errors = 0;
	    tap_calp = calp;
	    int rc = vnacal_apply_m(vcp, ci, req, k, m, ports, ports, vdp);
	    tap_calp = NULL;
	    printf("wb rc=%d err=%d T=%d calls=%d", rc, errors, T, ncalls);
	    for (int i = 0; i < ncalls; ++i)
		printf(" %d %d %d %a %d %a %a %d", calls[i].term, calls[i].n, calls[i].m, calls[i].x,
			calls[i].seg_in, creal(calls[i].v), cimag(calls[i].v), calls[i].seg_out);
	    printf(" S");
	    if (rc == 0) {
		for (int i = 0; i < k; ++i)
		    for (int r = 0; r < ports; ++r)
			for (int c = 0; c < ports; ++c) {
			    double complex s = vnadata_get_cell(vdp, i, r, c);
			    printf(" %a %a", creal(s), cimag(s));
			}
	    }
	    printf("\n");
	    vnadata_free(vdp);
	    for (int c = 0; c < ports * ports; ++c) free(m[c]);
	    free(m); free(req);
	    vnacal_free(vcp);
	} else {
	    fprintf(stderr, "harness: unknown op %s\n", op);
	    return 2;
	}
	fflush(stdout);
    }
    free(calls);
    return 0;
}
