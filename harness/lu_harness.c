/*
 * Linear-systems harness for property C19.  Calls the real _vnacommon_* routines and the public
 * conversion functions that use them.  Input: one case per line, numbers as C99 hex (or
 * decimal) doubles, complex = two numbers:
 *   lu n <A>                         -> lu piv=<row_index> det= re im
 *   lua n <A>                        -> lua piv=<row_index> det= re im x= <the n*n working array
 *                                       after _vnacommon_lu: L below, U on and above the diagonal>
 *   mldivide m n <A: m*m> <B: m*n>   -> mldivide det= re im x= ...
 *   mrdivide m n <B: m*n> <A: n*n>   -> mrdivide det= re im x= ...
 *   minverse n <A>                   -> minverse det= re im x= ...
 *   qrsolve m n o <A: m*n> <B: m*o>  -> qrsolve rank=r x= ...      (_vnacommon_qrsolve)
 *   qr2 m n o <A: m*n> <B: m*o>      -> qr2 rank=r x= ... qerr= e  (_vnacommon_qr, _vnacommon_qrsolve2;
 *                                       e = max |Q^H Q - I| entry, max |Q R - A| entry)
 *   ztoyn|ytozn n <M>                -> <op> x= ...
 *   stozn|ztosn|stoyn|ytosn n <M> <z0: n> -> <op> x= ...
 *   ytozin|ztozin|stozin n <M> <z0: n>    -> <op> x= <zin: n>
 *   add_a <a: 2*2> <b: 2*2>          -> add_a rc=<r> callbacks=<n> category=<c>
 *        (vnacal_new_add_through on a 2x2 T8 calibration with one frequency, `a` and `b`
 *         given: the a/b -> m reduction through the public API)
 *   add_an n <a: n*n> <b: n*n>       -> add_an rc=<r> callbacks=<n> category=<c>
 *        (vnacal_new_add_mapped_matrix on an n x n T8 calibration, all-match standard)
 * All values are printed with %a so that the check can read them back exactly.
 */
#include <complex.h>
#include <math.h>
#include <stdio.h>
#include <stdlib.h>
#include <string.h>
#include <vnaconv.h>
#include <vnacal.h>
#include "vnacommon_internal.h"

typedef double complex cx;

static int rd(double *d) { char b[128]; if (scanf("%127s", b) != 1) return 0; *d = strtod(b, NULL); return 1; }
static int rcx(cx *c) { double a, b; if (!rd(&a) || !rd(&b)) return 0; *c = a + I * b; return 1; }
static cx *rmat(int r, int c)
{
    cx *m = malloc(sizeof(cx) * (r * c + 1));
    for (int i = 0; i < r * c; ++i)
	if (!rcx(&m[i])) exit(3);
    return m;
}
static void pmat(const cx *m, int n)
{
    for (int i = 0; i < n; ++i)
	printf(" %a %a", creal(m[i]), cimag(m[i]));
}

static int eh_calls, eh_cat;
static void eh(const char *msg, void *arg, vnaerr_category_t cat) { (void)msg; (void)arg; ++eh_calls; eh_cat = (int)cat; }

int main(void)
{
    char op[64];
    while (scanf("%63s", op) == 1) {
	if (strcmp(op, "lu") == 0) {
	    int n; if (scanf("%d", &n) != 1) return 2;
	    cx *a = rmat(n, n);
	    int *ri = malloc(sizeof(int) * (n + 1));
	    cx d = _vnacommon_lu(a, ri, n);
	    printf("lu piv=");
	    for (int i = 0; i < n; ++i) printf("%s%d", i ? "," : "", ri[i]);
	    printf(" det= %a %a\n", creal(d), cimag(d));
	    free(a); free(ri);
	} else if (strcmp(op, "lua") == 0) {
	    int n; if (scanf("%d", &n) != 1) return 2;
	    cx *a = rmat(n, n);
	    int *ri = malloc(sizeof(int) * (n + 1));
	    cx d = _vnacommon_lu(a, ri, n);
	    printf("lua piv=");
	    for (int i = 0; i < n; ++i) printf("%s%d", i ? "," : "", ri[i]);
	    printf(" det= %a %a x=", creal(d), cimag(d)); pmat(a, n * n); printf("\n");
	    free(a); free(ri);
	} else if (strcmp(op, "mldivide") == 0) {
	    int m, n; if (scanf("%d %d", &m, &n) != 2) return 2;
	    cx *a = rmat(m, m), *b = rmat(m, n), *x = calloc(m * n + 1, sizeof(cx));
	    cx d = _vnacommon_mldivide(x, a, b, m, n);
	    printf("mldivide det= %a %a x=", creal(d), cimag(d)); pmat(x, m * n); printf("\n");
	    free(a); free(b); free(x);
	} else if (strcmp(op, "mrdivide") == 0) {
	    int m, n; if (scanf("%d %d", &m, &n) != 2) return 2;
	    cx *b = rmat(m, n), *a = rmat(n, n), *x = calloc(m * n + 1, sizeof(cx));
	    cx d = _vnacommon_mrdivide(x, b, a, m, n);
	    printf("mrdivide det= %a %a x=", creal(d), cimag(d)); pmat(x, m * n); printf("\n");
	    free(a); free(b); free(x);
	} else if (strcmp(op, "minverse") == 0) {
	    int n; if (scanf("%d", &n) != 1) return 2;
	    cx *a = rmat(n, n), *x = calloc(n * n + 1, sizeof(cx));
	    cx d = _vnacommon_minverse(x, a, n);
	    printf("minverse det= %a %a x=", creal(d), cimag(d)); pmat(x, n * n); printf("\n");
	    free(a); free(x);
	} else if (strcmp(op, "qrsolve") == 0) {
	    int m, n, o; if (scanf("%d %d %d", &m, &n, &o) != 3) return 2;
	    cx *a = rmat(m, n), *b = rmat(m, o), *x = calloc(n * o + 1, sizeof(cx));
	    int rank = _vnacommon_qrsolve(x, a, b, m, n, o);
	    printf("qrsolve rank=%d x=", rank); pmat(x, n * o); printf("\n");
	    free(a); free(b); free(x);
	} else if (strcmp(op, "qr2") == 0) {
	    int m, n, o; if (scanf("%d %d %d", &m, &n, &o) != 3) return 2;
	    cx *a = rmat(m, n), *b = rmat(m, o), *x = calloc(n * o + 1, sizeof(cx));
	    cx *a0 = malloc(sizeof(cx) * (m * n + 1));
	    cx *q = calloc(m * m + 1, sizeof(cx)), *r = calloc(m * n + 1, sizeof(cx));
	    memcpy(a0, a, sizeof(cx) * m * n);
	    int rank = _vnacommon_qr(a, q, r, m, n);
	    _vnacommon_qrsolve2(x, q, r, b, m, n, o);
	    double e1 = 0.0, e2 = 0.0;
	    for (int i = 0; i < m; ++i)
		for (int j = 0; j < m; ++j) {
		    cx s = 0.0;
		    for (int k = 0; k < m; ++k) s += conj(q[k * m + i]) * q[k * m + j];
		    double e = cabs(s - (i == j ? 1.0 : 0.0));
		    if (!(e <= e1)) e1 = e;
		}
	    for (int i = 0; i < m; ++i)
		for (int j = 0; j < n; ++j) {
		    cx s = 0.0;
		    for (int k = 0; k < m; ++k) s += q[i * m + k] * r[k * n + j];
		    double e = cabs(s - a0[i * n + j]);
		    if (!(e <= e2)) e2 = e;
		}
	    printf("qr2 rank=%d x=", rank); pmat(x, n * o); printf(" qerr= %a %a\n", e1, e2);
	    free(a); free(b); free(x); free(a0); free(q); free(r);
	} else if (!strcmp(op, "ztoyn") || !strcmp(op, "ytozn")) {
	    int n; if (scanf("%d", &n) != 1) return 2;
	    cx *m = rmat(n, n), *out = calloc(n * n + 1, sizeof(cx));
	    if (!strcmp(op, "ztoyn")) vnaconv_ztoyn(m, out, n); else vnaconv_ytozn(m, out, n);
	    printf("%s x=", op); pmat(out, n * n); printf("\n");
	    free(m); free(out);
	} else if (!strcmp(op, "stozn") || !strcmp(op, "ztosn") || !strcmp(op, "stoyn") || !strcmp(op, "ytosn")) {
	    int n; if (scanf("%d", &n) != 1) return 2;
	    cx *m = rmat(n, n), *z0 = rmat(1, n), *out = calloc(n * n + 1, sizeof(cx));
	    if (!strcmp(op, "stozn")) vnaconv_stozn(m, out, z0, n);
	    else if (!strcmp(op, "ztosn")) vnaconv_ztosn(m, out, z0, n);
	    else if (!strcmp(op, "stoyn")) vnaconv_stoyn(m, out, z0, n);
	    else vnaconv_ytosn(m, out, z0, n);
	    printf("%s x=", op); pmat(out, n * n); printf("\n");
	    free(m); free(z0); free(out);
	} else if (!strcmp(op, "ytozin") || !strcmp(op, "ztozin") || !strcmp(op, "stozin")) {
	    /* <op> n <M: n*n> <z0: n>  -> <op> x= <zin: n>   (input impedances, the other ports terminated in z0) */
	    int n; if (scanf("%d", &n) != 1) return 2;
	    cx *m = rmat(n, n), *z0 = rmat(1, n), *out = calloc(n + 1, sizeof(cx));
	    if (!strcmp(op, "ytozin")) vnaconv_ytozin(m, out, z0, n);
	    else if (!strcmp(op, "ztozin")) vnaconv_ztozin(m, out, z0, n);
	    else vnaconv_stozin(m, out, z0, n);
	    printf("%s x=", op); pmat(out, n); printf("\n");
	    free(m); free(z0); free(out);
	} else if (strcmp(op, "add_a") == 0) {
	    cx *a = rmat(2, 2), *b = rmat(2, 2);
	    double f[1] = { 1e9 };
	    cx *ap[4] = { &a[0], &a[1], &a[2], &a[3] }, *bp[4] = { &b[0], &b[1], &b[2], &b[3] };
	    eh_calls = 0; eh_cat = -1;
	    vnacal_t *vcp = vnacal_create(eh, NULL);
	    vnacal_new_t *vnp = vnacal_new_alloc(vcp, VNACAL_T8, 2, 2, 1);
	    vnacal_new_set_frequency_vector(vnp, f);
	    int rc = vnacal_new_add_through(vnp, ap, 2, 2, bp, 2, 2, 1, 2);
	    printf("add_a rc=%d callbacks=%d category=%s\n", rc, eh_calls,
		    eh_cat == (int)VNAERR_MATH ? "MATH" : eh_cat == -1 ? "none" : "other");
	    vnacal_new_free(vnp); vnacal_free(vcp);
	    free(a); free(b);
	} else if (strcmp(op, "add_an") == 0) {
	    int n; if (scanf("%d", &n) != 1) return 2;
	    cx *a = rmat(n, n), *b = rmat(n, n);
	    double f[1] = { 1e9 };
	    cx **ap = malloc(sizeof(cx *) * (n * n + 1)), **bp = malloc(sizeof(cx *) * (n * n + 1));
	    int *sm = malloc(sizeof(int) * (n * n + 1));
	    for (int i = 0; i < n * n; ++i) { ap[i] = &a[i]; bp[i] = &b[i]; sm[i] = VNACAL_MATCH; }
	    eh_calls = 0; eh_cat = -1;
	    vnacal_t *vcp = vnacal_create(eh, NULL);
	    vnacal_new_t *vnp = vnacal_new_alloc(vcp, VNACAL_T8, n, n, 1);
	    vnacal_new_set_frequency_vector(vnp, f);
	    int rc = vnacal_new_add_mapped_matrix(vnp, ap, n, n, bp, n, n, sm, n, n, NULL);
	    printf("add_an rc=%d callbacks=%d category=%s\n", rc, eh_calls,
		    eh_cat == (int)VNAERR_MATH ? "MATH" : eh_cat == -1 ? "none" : "other");
	    vnacal_new_free(vnp); vnacal_free(vcp);
	    free(a); free(b); free(ap); free(bp); free(sm);
	} else {
	    printf("unknown %s\n", op);
	    return 2;
	}
    }
    return 0;
}
