/*
 * selfcal_wb: white-box variant of selfcal_harness (same scenario language plus
 *   wb <mode> <trace> <dump>
 * see the SELFCAL_WB section of selfcal_harness.c).  Build with
 * extra=[selfcal_wb_simple.c, selfcal_wb_auto.c],
 * exclude=("vnacal_new_solve_simple.c", "vnacal_new_solve_auto.c").
 */
#define SELFCAL_WB 1
#include "selfcal_harness.c"
