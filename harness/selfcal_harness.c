/*
 * selfcal_harness: scenario interpreter for the public vnacal_new / vnacal_apply API
 * (properties C02 and C18).  Reads scenarios from stdin, one command per line, and
 * prints one result line per observable.  Nothing here knows the mathematics of the
 * library: measurements, truths and expectations are computed by the python side.
 *
 *   begin <id>                       start a scenario (prints "begin <id>")
 *   cal <type> <rows> <cols> <nfreq> <f0> ... <fn-1>
 *   newcal <type> <rows> <cols> <nfreq> <f...>   free the vnacal_new_t and start another one (same parameters)
 *   getparamat <name> <n> <f...>     prints "paramat <name> <re im> ..." at the given frequencies
 *   scalar <name> <re> <im>
 *   vector <name> <n> <f...> <re im ...>
 *   unknown <name> <guess-name>
 *   correlated <name> <other-name> <n> <f...|-> <sigma...>   ("-" = NULL frequency vector)
 *   ptol <x> | ettol <x> | itlimit <n> | pvalue <x>
 *   merror <n> <f...|-> <nf...> <tr...|->                    ("-" for tr = NULL)
 *   merror off
 *   merror_nonf <n> <tr...>          sigma_nf_vector NULL, sigma_tr_vector given (an invalid call)
 *   dumpmerror                       prints "merrorvec <nf tr> ..." per calibration frequency (or none)
 *   single <pname> <port> <mr> <mc> <cells: per cell, per frequency re im>
 *   double <p1> <p2> <port1> <port2> <mr> <mc> <cells>
 *   through <port1> <port2> <mr> <mc> <cells>
 *   line <s11> <s12> <s21> <s22> <port1> <port2> <mr> <mc> <cells>
 *   mapped <sr> <sc> <names...> <map...|-> <mr> <mc> <cells>
 *   solve                            prints "solve rc=.. errno=.. cb=.. cat=.. pvalues=..."
 *   getparam <name>                  prints "param <name> <re im> ..." at every calibration frequency
 *   apply <mr> <mc> <cells>          prints "apply rc=.. errno=.. cb=.." and "S <findex> <re im ...>"
 *   wbguard                          (white-box build only) see wb_guard below
 *   end                              frees everything, prints "end <id>"
 * Names match, open, short, zero, one are predefined.
 */
#include "archdep.h"

#include <assert.h>
#include <complex.h>
#include <errno.h>
#include <math.h>
#include <stdio.h>
#include <stdlib.h>
#include <string.h>
#include <stdbool.h>
#include <unistd.h>
#include "vnacal_new_internal.h"
#include "vnadata.h"

#define MAXNAMES 256
#define MAXTOK   200000

static char *toks[MAXTOK];
static int ntok, tpos;
static int callbacks;
static int last_cat;
static char last_msg[256];

static void error_fn(const char *message, void *arg, vnaerr_category_t category)
{
    ++callbacks;
    last_cat = (int)category;
    {
	size_t i;

	for (i = 0; message[i] != '\0' && i < sizeof(last_msg) - 1; ++i) {
	    char c = message[i];

	    last_msg[i] = ((c >= 'a' && c <= 'z') || (c >= 'A' && c <= 'Z') ||
		    (c >= '0' && c <= '9') || c == '.' || c == '-' || c == '+') ? c : '_';
	}
	last_msg[i] = '\0';
    }
    if (getenv("SELFCAL_VERBOSE") != NULL)
	fprintf(stderr, "libvna: %s\n", message);
}

static const char *errno_class(int e)
{
    switch (e) {
    case 0:           return "0";
    case EINVAL:      return "EINVAL";
    case EDOM:        return "EDOM";
    case ENOMEM:      return "ENOMEM";
    case EBADMSG:     return "EBADMSG";
    case ENOENT:      return "ENOENT";
    case ENOPROTOOPT: return "ENOPROTOOPT";
    case ENOSYS:      return "ENOSYS";
    default:          return "OTHER";
    }
}

static const char *cat_name(int c)
{
    switch (c) {
    case -1:              return "-";
    case VNAERR_SYSTEM:   return "SYSTEM";
    case VNAERR_USAGE:    return "USAGE";
    case VNAERR_VERSION:  return "VERSION";
    case VNAERR_SYNTAX:   return "SYNTAX";
    case VNAERR_WARNING:  return "WARNING";
    case VNAERR_MATH:     return "MATH";
    case VNAERR_INTERNAL: return "INTERNAL";
    default:              return "?";
    }
}


#ifdef SELFCAL_WB
/*
 * White-box build (harness/selfcal_wb.c): _vnacal_new_solve_simple and _vnacal_new_solve_auto
 * are compiled from the working tree's source text by the wrappers selfcal_wb_simple.c and
 * selfcal_wb_auto.c, with
 *   - the weight vector constructor and the linear solvers they call routed through taps, and
 *   - solve_auto's own DEBUG prints (DEBUG 2) routed to a tap that records the values with
 *     full precision (the library's printf is redirected; matrix dumps are discarded).
 * The source is not modified.  Output lines start with "wb".
 */
static int wb_mode;		/* 0: real weights; 1: all ones; 2: w[i] = i + 2 (index markers) */
static int wb_trace;		/* print the per-iteration trajectory of solve_auto */
static int wb_dump;		/* bit 0: dump coefficient matrices handed to the solvers;
				   bit 1: dump every input of _vnacal_new_solve_calc_pvalue */
/* taps, called from harness/selfcal_wb_simple.c and harness/selfcal_wb_auto.c */
double *wb_calc_weights(vnacal_new_solve_state_t *vnssp);
int wb_qr(complex double *a, complex double *q, complex double *r, int m, int n);
int wb_qrsolve(complex double *x, complex double *a, complex double *b, int m, int n, int o);
int wb_qrsolve_trl(complex double *x, complex double *a, complex double *b, int m, int n, int o);
double complex wb_mldivide(complex double *x, complex double *a, const double complex *b,
	int m, int n);
int wb_printf(const char *fmt, ...);
double wb_exp(double x);
#include <stdarg.h>

static void wb_matrix(const char *tag, const double complex *a, int m, int n)
{
    printf("wb %s %d %d", tag, m, n);
    for (int i = 0; i < m * n; ++i)
	printf(" %.17g %.17g", creal(a[i]), cimag(a[i]));
    printf("\n");
}

double *wb_calc_weights(vnacal_new_solve_state_t *vnssp)
{
    vnacal_new_t *vnp = vnssp->vnss_vnp;
    const int m_columns = VL_M_COLUMNS(&vnp->vn_layout);
    double *w = _vnacal_new_solve_calc_weights(vnssp);

    if (w == NULL)
	return NULL;
    /* the vector as computed by the library */
    printf("wb weights findex=%d n=%d", vnssp->vnss_findex, vnp->vn_equations);
    for (int i = 0; i < vnp->vn_equations; ++i)
	printf(" %.17g", w[i]);
    printf("\n");
    /* the measurement value belonging to every equation, in system / equation order */
    for (int sindex = 0; sindex < vnp->vn_systems; ++sindex) {
	printf("wb eqm findex=%d sys=%d", vnssp->vnss_findex, sindex);
	for (vnacal_new_equation_t *vnep = vnp->vn_system_vector[sindex].vns_equation_list;
		vnep != NULL; vnep = vnep->vne_next) {
	    int cell = vnep->vne_row * m_columns + vnep->vne_column;
	    double complex m = vnssp->vnss_msv_matrices[vnep->vne_vnmp->vnm_index].vnmm_m_matrix[cell];
	    printf(" %.17g %.17g", creal(m), cimag(m));
	}
	printf("\n");
    }
    if (wb_mode == 1)
	for (int i = 0; i < vnp->vn_equations; ++i) w[i] = 1.0;
    if (wb_mode == 2)
	for (int i = 0; i < vnp->vn_equations; ++i) w[i] = (double)(i + 2);
    return w;
}

int wb_qr(complex double *a, complex double *q, complex double *r, int m, int n)
{
    printf("wb qr %d %d\n", m, n);		/* one per entry of solve_auto's loop body */
    if (wb_dump & 1)
	wb_matrix("A", a, m, n);
    return _vnacommon_qr(a, q, r, m, n);
}

int wb_qrsolve(complex double *x, complex double *a, complex double *b, int m, int n, int o)
{
    printf("wb qrsolve %d %d\n", m, n);
    if (wb_dump & 1) {
	wb_matrix("A", a, m, n);
	wb_matrix("b", b, m, o);
    }
    return _vnacommon_qrsolve(x, a, b, m, n, o);
}

/* the solver call of _vnacal_new_solve_trl (harness/selfcal_wb_trl.c): its own tag, so that the
   solver path remains observable */
int wb_qrsolve_trl(complex double *x, complex double *a, complex double *b, int m, int n, int o)
{
    printf("wb trlsolve %d %d\n", m, n);
    if (wb_dump & 1) {
	wb_matrix("A", a, m, n);
	wb_matrix("b", b, m, o);
    }
    return _vnacommon_qrsolve(x, a, b, m, n, o);
}

double complex wb_mldivide(complex double *x, complex double *a, const double complex *b,
	int m, int n)
{
    printf("wb mldivide %d %d\n", m, n);
    if (wb_dump & 1) {
	wb_matrix("A", a, m, m);
	wb_matrix("b", b, m, n);
    }
    return _vnacommon_mldivide(x, a, b, m, n);
}

/* exp() as called by chisq_pvalue (harness/selfcal_wb_pvalue.c): the argument is -chisq / 2 */
double wb_exp(double x)
{
    double y = exp(x);

    printf("wb exp %.17g %.17g\n", x, y);	/* argument, value */
    return y;
}

/*
 * _vnacal_new_solve_calc_pvalue as the rest of the library sees it in the white-box build: the real
 * function (src/vnacal_new_solve_pvalue.c, unmodified, renamed by harness/selfcal_wb_pvalue.c) is
 * called with the same arguments; before the call the inputs of its degrees-of-freedom count are
 * printed from the solve state: unknowns per system, the equation count of every system, and for
 * every off-diagonal leakage cell the accumulated vnlt_count together with, per standard, whether
 * the cell was measured (vnm_m_matrix != NULL) and whether the standard connects the two ports
 * (vnm_connectivity_matrix) -- the two tests of _vnacal_new_solve_start_frequency.
 *   wb pvin findex=<f> unknowns=<u> eqs=<n,...>
 *   wb leakcell <row> <col> count=<vnlt_count> std=<gc>,<gc>...   (g, c in {0,1})
 *   wb pvout <p-value>
 */
double wb_real_calc_pvalue(vnacal_new_solve_state_t *vnssp, const double complex *x_vector,
	int x_length);

static void wb_opt(bool have, double complex v)
{
    if (have)
	printf(" %.17g %.17g", creal(v), cimag(v));
    else
	printf(" -");
}

/*
 * wb_pvalue_inputs ("wb <mode> <trace> 2"): everything _vnacal_new_solve_calc_pvalue reads, for the
 * exact-rational model coq/SelfCal/PvalueModel.v.  The equations are walked with the library's own
 * iterator (vs_start_system / vs_next_equation / vs_next_term); the FACTORS of every term are printed
 * separately (sign, m, s, v, index of the unknown), not their product.
 *   wb pvnoise <sigma_nf> <sigma_tr>            the element of vn_m_error_vector of this frequency
 *   wb pvx <n> <re im>*n                        x_vector
 *   wb pveq <sindex> <own m: re im> { <neg 0|1> <m: re im | -> <s: re im | -> <v: re im | -> <xindex | -> }*
 *   wb pvleak <row> <col> <count> <sum re im> <sumsq> <nstd> { <given><connected> <m re im> }*nstd
 */
static void wb_pvalue_inputs(vnacal_new_solve_state_t *vnssp, const double complex *x_vector,
	int x_length)
{
    vnacal_new_t *vnp = vnssp->vnss_vnp;
    const vnacal_layout_t *vlp = &vnp->vn_layout;
    const int m_rows = VL_M_ROWS(vlp), m_columns = VL_M_COLUMNS(vlp);
    const int s_columns = VL_S_COLUMNS(vlp);
    const int findex = vnssp->vnss_findex;

    printf("wb pvnoise %.17g %.17g\n", vnp->vn_m_error_vector[findex].vnme_sigma_nf,
	    vnp->vn_m_error_vector[findex].vnme_sigma_tr);
    printf("wb pvx %d", x_length);
    for (int i = 0; i < x_length; ++i)
	printf(" %.17g %.17g", creal(x_vector[i]), cimag(x_vector[i]));
    printf("\n");
    for (int sindex = 0; sindex < vnp->vn_systems; ++sindex) {
	vs_start_system(vnssp, sindex);
	while (vs_next_equation(vnssp)) {
	    vnacal_new_equation_t *vnep = vnssp->vnss_vnep;
	    vnacal_new_msv_matrices_t *vnmmp = &vnssp->vnss_msv_matrices[vnep->vne_vnmp->vnm_index];
	    double complex own = vnmmp->vnmm_m_matrix[vnep->vne_row * m_columns + vnep->vne_column];

	    printf("wb pveq %d %.17g %.17g", sindex, creal(own), cimag(own));
	    while (vs_next_term(vnssp)) {
		int xindex = vs_get_xindex(vnssp);

		printf(" %d", vs_get_negative(vnssp) ? 1 : 0);
		wb_opt(vs_have_m(vnssp), vs_have_m(vnssp) ? vs_get_m(vnssp) : 0.0);
		wb_opt(vs_have_s(vnssp), vs_have_s(vnssp) ? vs_get_s(vnssp) : 0.0);
		wb_opt(vs_have_v(vnssp), vs_have_v(vnssp) ? vs_get_v(vnssp) : 0.0);
		if (xindex >= 0)
		    printf(" %d", xindex);
		else
		    printf(" -");
	    }
	    printf("\n");
	}
    }
    if (vnssp->vnss_leakage_matrix != NULL) {
	for (int row = 0; row < m_rows; ++row) {
	    for (int column = 0; column < m_columns; ++column) {
		const int m_cell = row * m_columns + column;
		const int s_cell = row * s_columns + column;
		const vnacal_new_leakage_term_t *ltp = vnssp->vnss_leakage_matrix[m_cell];

		if (row == column)
		    continue;
		printf("wb pvleak %d %d %d %.17g %.17g %.17g %d", row, column, ltp->vnlt_count,
			creal(ltp->vnlt_sum), cimag(ltp->vnlt_sum), ltp->vnlt_sumsq,
			vnp->vn_measurement_count);
		for (vnacal_new_measurement_t *vnmp = vnp->vn_measurement_list; vnmp != NULL;
			vnmp = vnmp->vnm_next) {
		    bool given = vnmp->vnm_m_matrix[m_cell] != NULL;
		    double complex m = given ? vnmp->vnm_m_matrix[m_cell][findex] : 0.0;

		    printf(" %d%d %.17g %.17g", given ? 1 : 0,
			    vnmp->vnm_connectivity_matrix != NULL &&
			    vnmp->vnm_connectivity_matrix[s_cell] ? 1 : 0, creal(m), cimag(m));
		}
		printf("\n");
	    }
	}
    }
}

double _vnacal_new_solve_calc_pvalue(vnacal_new_solve_state_t *vnssp,
	const double complex *x_vector, int x_length)
{
    vnacal_new_t *vnp = vnssp->vnss_vnp;
    const vnacal_layout_t *vlp = &vnp->vn_layout;
    const int m_rows = VL_M_ROWS(vlp), m_columns = VL_M_COLUMNS(vlp);
    const int s_columns = VL_S_COLUMNS(vlp);
    double p;

    printf("wb pvin findex=%d unknowns=%d eqs=", vnssp->vnss_findex, vlp->vl_t_terms - 1);
    for (int s = 0; s < vnp->vn_systems; ++s)
	printf("%s%d", s ? "," : "", vnp->vn_system_vector[s].vns_equation_count);
    printf("\n");
    if (vnssp->vnss_leakage_matrix != NULL) {
	for (int row = 0; row < m_rows; ++row) {
	    for (int column = 0; column < m_columns; ++column) {
		const int m_cell = row * m_columns + column;
		const int s_cell = row * s_columns + column;
		int k = 0;

		if (row == column)
		    continue;
		printf("wb leakcell %d %d count=%d std=", row, column,
			vnssp->vnss_leakage_matrix[m_cell]->vnlt_count);
		for (vnacal_new_measurement_t *vnmp = vnp->vn_measurement_list; vnmp != NULL;
			vnmp = vnmp->vnm_next) {
		    printf("%s%d%d", k++ ? "," : "", vnmp->vnm_m_matrix[m_cell] != NULL ? 1 : 0,
			    vnmp->vnm_connectivity_matrix != NULL &&
			    vnmp->vnm_connectivity_matrix[s_cell] ? 1 : 0);
		}
		printf("\n");
	    }
	}
    }
    if (wb_dump & 2)
	wb_pvalue_inputs(vnssp, x_vector, x_length);
    p = wb_real_calc_pvalue(vnssp, x_vector, x_length);
    printf("wb pvout %.17g\n", p);
    return p;
}

/* wrappers around the static save_v_matrices / restore_v_matrices (harness/selfcal_wb_auto.c) */
void wb_save_v(const vnacal_new_solve_state_t *vnssp, double complex *buf);
void wb_restore_v(vnacal_new_solve_state_t *vnssp, const double complex *buf);

/*
 * wb_guard: "wbguard" command.  Builds the solve state of the current vnacal_new_t exactly as
 * vnacal_new_solve does (_vnacal_new_solve_init, _vnacal_new_solve_start_frequency(0)), fills
 * the value matrices with integer markers, and runs the UNMODIFIED
 *   _vnacal_new_solve_update_s_matrices, save_v_matrices, restore_v_matrices
 * on it, printing the pointer shapes before and the values after, for comparison with
 * coq/SelfCal/GuardModel.v.  The buffer handed to save_v_matrices has exactly the size the
 * caller in solve_auto allocates (the sanitizer sees any overrun).
 */
static void wb_guard(vnacal_new_t *vnp)
{
    vnacal_new_solve_state_t vnss;
    const vnacal_layout_t *vlp = &vnp->vn_layout;
    const int s_rows = VL_S_ROWS(vlp), s_columns = VL_S_COLUMNS(vlp);
    const int v_cells = VL_V_ROWS(vlp) * VL_V_COLUMNS(vlp);
    const int nstd = vnp->vn_measurement_count;
    const int systems = vnp->vn_systems;
    int marker;

    if (_vnacal_new_solve_init(&vnss, vnp) == -1) {
	printf("wb guard initfailed\n");
	return;
    }
    _vnacal_new_solve_start_frequency(&vnss, 0);

    /* ---- update_s_matrices ---- */
    printf("wb sdim %d %d %d %d %d\n", s_rows, s_columns, nstd, vnp->vn_unknown_parameters,
	    vnp->vn_frequencies);
    for (int u = 0; u < vnp->vn_unknown_parameters; ++u)
	for (int f = 0; f < vnp->vn_frequencies; ++f)
	    vnss.vnss_p_vector[u][f] = 1000.0 * (u + 1) + f;
    marker = 1;
    for (vnacal_new_measurement_t *vnmp = vnp->vn_measurement_list; vnmp != NULL;
	    vnmp = vnmp->vnm_next) {
	vnacal_new_msv_matrices_t *vnmmp = &vnss.vnss_msv_matrices[vnmp->vnm_index];

	printf("wb scells %d", vnmp->vnm_index);
	for (int c = 0; c < s_rows * s_columns; ++c) {
	    vnacal_new_parameter_t *p = vnmp->vnm_s_matrix[c];

	    if (p == NULL)
		printf(" N");
	    else if (p->vnpr_unknown)
		printf(" U%d", p->vnpr_unknown_index);
	    else
		printf(" K");
	    vnmmp->vnmm_s_matrix[c] = (double)marker++;
	}
	printf("\nwb sbefore %d", vnmp->vnm_index);
	for (int c = 0; c < s_rows * s_columns; ++c)
	    printf(" %.0f", creal(vnmmp->vnmm_s_matrix[c]));
	printf("\n");
    }
    _vnacal_new_solve_update_s_matrices(&vnss);
    for (int i = 0; i < nstd; ++i) {
	printf("wb safter %d", i);
	for (int c = 0; c < s_rows * s_columns; ++c)
	    printf(" %.0f", creal(vnss.vnss_msv_matrices[i].vnmm_s_matrix[c]));
	printf("\n");
    }

    /* ---- V matrices ---- */
    printf("wb vdim %d %d %d %d %d", systems, v_cells, nstd, vlp->vl_t_terms - 1,
	    vnp->vn_m_error_vector != NULL ? 1 : 0);
    for (int s = 0; s < systems; ++s)
	printf(" %d", vnp->vn_system_vector[s].vns_equation_count);
    printf("\n");
    marker = 1;
    for (int i = 0; i < nstd; ++i) {
	double complex **v = vnss.vnss_msv_matrices[i].vnsm_v_matrices;

	printf("wb vshape %d", i);
	if (v == NULL) {
	    printf(" -");
	} else {
	    for (int s = 0; s < systems; ++s) {
		printf(" %s", v[s] != NULL ? "P" : "N");
		if (v[s] != NULL)
		    for (int c = 0; c < v_cells; ++c)
			v[s][c] = (double)marker++;
	    }
	}
	printf("\n");
    }
    {
	size_t n = (size_t)nstd * systems * v_cells;
	double complex *buf = malloc((n ? n : 1) * sizeof(double complex));

	for (size_t k = 0; k < n; ++k)
	    buf[k] = 7777.0;
	wb_save_v(&vnss, buf);
	printf("wb vbuf");
	for (size_t k = 0; k < n; ++k)
	    printf(" %.0f", creal(buf[k]));
	printf("\n");
	/* what _vnacal_new_solve_update_all_v_matrices would do: overwrite every existing matrix */
	for (int i = 0; i < nstd; ++i) {
	    double complex **v = vnss.vnss_msv_matrices[i].vnsm_v_matrices;

	    if (v != NULL)
		for (int s = 0; s < systems; ++s)
		    if (v[s] != NULL)
			for (int c = 0; c < v_cells; ++c)
			    v[s][c] = 9000.0 + c;
	}
	wb_restore_v(&vnss, buf);
	for (int i = 0; i < nstd; ++i) {
	    double complex **v = vnss.vnss_msv_matrices[i].vnsm_v_matrices;

	    if (v != NULL)
		for (int s = 0; s < systems; ++s)
		    if (v[s] != NULL) {
			printf("wb vafter %d %d", i, s);
			for (int c = 0; c < v_cells; ++c)
			    printf(" %.0f", creal(v[s][c]));
			printf("\n");
		    }
	}
	free(buf);
    }
    _vnacal_new_solve_free(&vnss);
    printf("wb guard done\n");
}

int wb_printf(const char *fmt, ...)
{
    static const struct { const char *prefix; const char *tag; int kind; } tab[] = {
	{ "# sum_k_squared ",          "sum_k",      1 },
	{ "# best_sum_k_squared ",     "best_sum_k", 1 },
	{ "# best\n",                  "best",       0 },
	{ "# increasing marquardt",    "reject",     0 },
	{ "# marquardt_multiplier ",   "mult",       1 },
	{ "# lambda ",                 "lambda",     1 },
	{ "# sum_d_squared ",          "sum_d",      1 },
	{ "# sum_dx_squared ",         "sum_dx",     1 },
	{ "# vn_p_tolerance ",         "ptol",       1 },
	{ "# vn_et_tolerance ",        "ettol",      1 },
	{ "# stop: converged",         "converged",  2 },
    };
    va_list ap;

    if (!wb_trace)
	return 0;
    /* "p = [" / "  %9.6f%+9.6fj" / "]": the unknown parameter vector, printed by solve_auto
       before its loop (the starting point) and after every update */
    if (strncmp(fmt, "p = [", 5) == 0) {
	printf("wb pstart\n");
	return 0;
    }
    if (strncmp(fmt, "  %9.6f%+9.6fj", 14) == 0) {
	double re, im;

	va_start(ap, fmt);
	re = va_arg(ap, double);
	im = va_arg(ap, double);
	va_end(ap);
	printf("wb p %.17g %.17g\n", re, im);
	return 0;
    }
    va_start(ap, fmt);
    for (size_t i = 0; i < sizeof(tab) / sizeof(tab[0]); ++i) {
	if (strncmp(fmt, tab[i].prefix, strlen(tab[i].prefix)) == 0) {
	    if (tab[i].kind == 1)
		printf("wb ev %s %.17g\n", tab[i].tag, va_arg(ap, double));
	    else if (tab[i].kind == 2)
		printf("wb ev %s %d\n", tab[i].tag, va_arg(ap, int));
	    else
		printf("wb ev %s\n", tab[i].tag);
	    break;
	}
    }
    va_end(ap);
    return 0;
}
#endif /* SELFCAL_WB */

static struct { char name[64]; int handle; } names[MAXNAMES];
static int nnames;

static void fail(const char *what)
{
    printf("HARNESS-ERROR %s\n", what);
    fflush(stdout);
    exit(3);
}

static const char *next(void)
{
    if (tpos >= ntok)
	fail("short line");
    return toks[tpos++];
}
static int nexti(void) { return atoi(next()); }
static double nextd(void) { return strtod(next(), NULL); }

static int lookup(const char *name)
{
    if (strcmp(name, "match") == 0 || strcmp(name, "zero") == 0) return VNACAL_MATCH;
    if (strcmp(name, "open") == 0 || strcmp(name, "one") == 0)   return VNACAL_OPEN;
    if (strcmp(name, "short") == 0)                              return VNACAL_SHORT;
    for (int i = 0; i < nnames; ++i)
	if (strcmp(names[i].name, name) == 0)
	    return names[i].handle;
    fail("unknown parameter name");
    return -1;
}

static void define(const char *name, int handle)
{
    if (nnames >= MAXNAMES)
	fail("too many names");
    snprintf(names[nnames].name, sizeof(names[nnames].name), "%s", name);
    names[nnames].handle = handle;
    ++nnames;
}

/* read an mr x mc matrix of per-frequency vectors */
static double complex **read_m(int mr, int mc, int nf)
{
    double complex **m = calloc(mr * mc, sizeof(double complex *));
    for (int cell = 0; cell < mr * mc; ++cell) {
	m[cell] = calloc(nf, sizeof(double complex));
	for (int f = 0; f < nf; ++f) {
	    double re = nextd();
	    double im = nextd();
	    m[cell][f] = re + I * im;
	}
    }
    return m;
}

static void free_m(double complex **m, int mr, int mc)
{
    for (int cell = 0; cell < mr * mc; ++cell)
	free(m[cell]);
    free(m);
}

static void report(const char *op, int rc)
{
    printf("%s rc=%d errno=%s cb=%d cat=%s\n", op, rc, rc == 0 ? "0" : errno_class(errno),
	    callbacks, callbacks ? cat_name(last_cat) : "-");
}

int main(int argc, char **argv)
{
    static char line[4 * 1024 * 1024];
    vnacal_t *vcp = NULL;
    vnacal_new_t *vnp = NULL;
    char id[128] = "";
    int rows = 0, cols = 0, nf = 0;
    double *fv = NULL;
    int have_cal = 0;

    while (fgets(line, sizeof(line), stdin) != NULL) {
	ntok = 0;
	tpos = 0;
	for (char *p = strtok(line, " \t\r\n"); p != NULL; p = strtok(NULL, " \t\r\n")) {
	    if (ntok >= MAXTOK)
		fail("line too long");
	    toks[ntok++] = p;
	}
	if (ntok == 0 || toks[0][0] == '#')
	    continue;
	const char *op = next();
	callbacks = 0;
	last_cat = -1;
	errno = 0;

	if (strcmp(op, "begin") == 0) {
	    snprintf(id, sizeof(id), "%s", next());
	    printf("begin %s\n", id);
	    fflush(stdout);
	    /* wall-clock limit per scenario: a solve that does not return kills the process
	       with SIGALRM and the runner attributes the hang to this scenario */
	    alarm(getenv("SELFCAL_ALARM") != NULL ? (unsigned)atoi(getenv("SELFCAL_ALARM")) : 30u);
	    nnames = 0;
	    have_cal = 0;
	    if ((vcp = vnacal_create(error_fn, NULL)) == NULL)
		fail("vnacal_create");

	} else if (strcmp(op, "cal") == 0) {
	    vnacal_type_t type = vnacal_name_to_type(next());
	    rows = nexti();
	    cols = nexti();
	    nf = nexti();
	    fv = calloc(nf, sizeof(double));
	    for (int i = 0; i < nf; ++i)
		fv[i] = nextd();
	    if ((vnp = vnacal_new_alloc(vcp, type, rows, cols, nf)) == NULL) {
		report("cal", -1);
		fail("vnacal_new_alloc");
	    }
	    int rc = vnacal_new_set_frequency_vector(vnp, fv);
	    report("cal", rc);

	} else if (strcmp(op, "newcal") == 0) {
	    /* a further vnacal_new_t in the same vnacal_t (parameters are kept) */
	    vnacal_type_t type = vnacal_name_to_type(next());
	    if (vnp != NULL)
		vnacal_new_free(vnp);
	    vnp = NULL;
	    free(fv);
	    have_cal = 0;
	    rows = nexti();
	    cols = nexti();
	    nf = nexti();
	    fv = calloc(nf, sizeof(double));
	    for (int i = 0; i < nf; ++i)
		fv[i] = nextd();
	    if ((vnp = vnacal_new_alloc(vcp, type, rows, cols, nf)) == NULL) {
		report("newcal", -1);
		fail("vnacal_new_alloc");
	    }
	    report("newcal", vnacal_new_set_frequency_vector(vnp, fv));

	} else if (strcmp(op, "getparamat") == 0) {
	    /* getparamat <name> <n> <f...>: values at explicit frequencies */
	    const char *name = next();
	    int h = lookup(name);
	    int n = nexti();
	    printf("paramat %s", name);
	    for (int i = 0; i < n; ++i) {
		double complex v = vnacal_get_parameter_value(vcp, h, nextd());
		printf(" %.17g %.17g", creal(v), cimag(v));
	    }
	    printf(" cb=%d\n", callbacks);

	} else if (strcmp(op, "scalar") == 0) {
	    const char *name = next();
	    double re = nextd(), im = nextd();
	    int h = vnacal_make_scalar_parameter(vcp, re + I * im);
	    if (h < 0) { report("scalar", -1); fail("scalar"); }
	    define(name, h);

	} else if (strcmp(op, "vector") == 0) {
	    const char *name = next();
	    int n = nexti();
	    double f[n];
	    double complex g[n];
	    for (int i = 0; i < n; ++i) f[i] = nextd();
	    for (int i = 0; i < n; ++i) { double re = nextd(), im = nextd(); g[i] = re + I * im; }
	    int h = vnacal_make_vector_parameter(vcp, f, n, g);
	    if (h < 0) { report("vector", -1); fail("vector"); }
	    define(name, h);

	} else if (strcmp(op, "unknown") == 0) {
	    const char *name = next();
	    int g = lookup(next());
	    int h = vnacal_make_unknown_parameter(vcp, g);
	    if (h < 0) { report("unknown", -1); fail("unknown"); }
	    define(name, h);

	} else if (strcmp(op, "correlated") == 0) {
	    const char *name = next();
	    int other = lookup(next());
	    int n = nexti();
	    double f[n], s[n];
	    bool havef = true;
	    if (strcmp(toks[tpos], "-") == 0) { havef = false; ++tpos; }
	    else for (int i = 0; i < n; ++i) f[i] = nextd();
	    for (int i = 0; i < n; ++i) s[i] = nextd();
	    int h = vnacal_make_correlated_parameter(vcp, other, havef ? f : NULL, n, s);
	    if (h < 0) { report("correlated", -1); fail("correlated"); }
	    define(name, h);

#ifdef SELFCAL_WB
	} else if (strcmp(op, "wb") == 0) {
	    wb_mode = nexti();
	    wb_trace = nexti();
	    wb_dump = nexti();
	} else if (strcmp(op, "wbguard") == 0) {
	    wb_guard(vnp);
#endif
	} else if (strcmp(op, "ptol") == 0) {
	    report("ptol", vnacal_new_set_p_tolerance(vnp, nextd()));
	} else if (strcmp(op, "ettol") == 0) {
	    report("ettol", vnacal_new_set_et_tolerance(vnp, nextd()));
	} else if (strcmp(op, "itlimit") == 0) {
	    report("itlimit", vnacal_new_set_iteration_limit(vnp, nexti()));
	} else if (strcmp(op, "pvalue") == 0) {
	    report("pvalue", vnacal_new_set_pvalue_limit(vnp, nextd()));

	} else if (strcmp(op, "merror") == 0) {
	    if (strcmp(toks[tpos], "off") == 0) {
		report("merror", vnacal_new_set_m_error(vnp, NULL, 1, NULL, NULL));
	    } else {
		int n = nexti();
		double f[n], nfv[n], trv[n];
		bool havef = true, havetr = true;
		if (strcmp(toks[tpos], "-") == 0) { havef = false; ++tpos; }
		else for (int i = 0; i < n; ++i) f[i] = nextd();
		for (int i = 0; i < n; ++i) nfv[i] = nextd();
		if (strcmp(toks[tpos], "-") == 0) { havetr = false; ++tpos; }
		else for (int i = 0; i < n; ++i) trv[i] = nextd();
		report("merror", vnacal_new_set_m_error(vnp, havef ? f : NULL, n, nfv,
			    havetr ? trv : NULL));
	    }

	} else if (strcmp(op, "merror_nonf") == 0) {
	    /* merror_nonf <n> <tr...>: sigma_nf_vector NULL with a sigma_tr_vector (must be rejected) */
	    int n = nexti();
	    double trv[n];
	    for (int i = 0; i < n; ++i) trv[i] = nextd();
	    report("merror", vnacal_new_set_m_error(vnp, NULL, n, NULL, trv));

	} else if (strcmp(op, "dumpmerror") == 0) {
	    /* the per-calibration-frequency noise model as stored (internal structure) */
	    if (vnp->vn_m_error_vector == NULL) {
		printf("merrorvec none\n");
	    } else {
		printf("merrorvec");
		for (int i = 0; i < nf; ++i)
		    printf(" %.17g %.17g", vnp->vn_m_error_vector[i].vnme_sigma_nf,
			    vnp->vn_m_error_vector[i].vnme_sigma_tr);
		printf("\n");
	    }

	} else if (strcmp(op, "single") == 0) {
	    int p = lookup(next());
	    int port = nexti(), mr = nexti(), mc = nexti();
	    double complex **m = read_m(mr, mc, nf);
	    report("add", vnacal_new_add_single_reflect_m(vnp, m, mr, mc, p, port));
	    free_m(m, mr, mc);

	} else if (strcmp(op, "double") == 0) {
	    int p1 = lookup(next());
	    int p2 = lookup(next());
	    int port1 = nexti(), port2 = nexti(), mr = nexti(), mc = nexti();
	    double complex **m = read_m(mr, mc, nf);
	    report("add", vnacal_new_add_double_reflect_m(vnp, m, mr, mc, p1, p2, port1, port2));
	    free_m(m, mr, mc);

	} else if (strcmp(op, "through") == 0) {
	    int port1 = nexti(), port2 = nexti(), mr = nexti(), mc = nexti();
	    double complex **m = read_m(mr, mc, nf);
	    report("add", vnacal_new_add_through_m(vnp, m, mr, mc, port1, port2));
	    free_m(m, mr, mc);

	} else if (strcmp(op, "line") == 0) {
	    int s[4];
	    for (int i = 0; i < 4; ++i) s[i] = lookup(next());
	    int port1 = nexti(), port2 = nexti(), mr = nexti(), mc = nexti();
	    double complex **m = read_m(mr, mc, nf);
	    report("add", vnacal_new_add_line_m(vnp, m, mr, mc, s, port1, port2));
	    free_m(m, mr, mc);

	} else if (strcmp(op, "mapped") == 0) {
	    int sr = nexti(), sc = nexti();
	    int s[sr * sc];
	    int np = sr > sc ? sr : sc;
	    int map[np];
	    bool havemap = true;
	    for (int i = 0; i < sr * sc; ++i) s[i] = lookup(next());
	    if (strcmp(toks[tpos], "-") == 0) { havemap = false; ++tpos; }
	    else for (int i = 0; i < np; ++i) map[i] = nexti();
	    int mr = nexti(), mc = nexti();
	    double complex **m = read_m(mr, mc, nf);
	    report("add", vnacal_new_add_mapped_matrix_m(vnp, m, mr, mc, s, sr, sc,
			havemap ? map : NULL));
	    free_m(m, mr, mc);

	} else if (strcmp(op, "solve") == 0) {
	    double pv[nf];
	    for (int i = 0; i < nf; ++i) pv[i] = -1.0;
	    vnp->vn_pvalue_vector = pv;		/* same hidden hook the repository's tests use */
	    int rc = vnacal_new_solve(vnp);
	    int e = errno;
#ifdef SELFCAL_WB
	    printf("wb endsolve\n");
#endif
	    vnp->vn_pvalue_vector = NULL;
	    printf("solve rc=%d errno=%s cb=%d cat=%s msg=%s eqs=%d sys=%d maxeq=%d xlen=%d unk=%d corr=%d pvalues=",
		    rc, rc == 0 ? "0" : errno_class(e),
		    callbacks, callbacks ? cat_name(last_cat) : "-", callbacks ? last_msg : "-",
		    vnp->vn_equations, vnp->vn_systems, vnp->vn_max_equations,
		    vnp->vn_systems * (vnp->vn_layout.vl_t_terms - 1),
		    vnp->vn_unknown_parameters, vnp->vn_correlated_parameters);
	    for (int i = 0; i < nf; ++i)
		printf("%s%.17g", i ? "," : "", pv[i]);
	    printf("\n");
	    have_cal = (rc == 0);

	} else if (strcmp(op, "getparam") == 0) {
	    const char *name = next();
	    int h = lookup(name);
	    printf("param %s", name);
	    for (int i = 0; i < nf; ++i) {
		double complex v = vnacal_get_parameter_value(vcp, h, fv[i]);
		printf(" %.17g %.17g", creal(v), cimag(v));
	    }
	    printf(" cb=%d\n", callbacks);

	} else if (strcmp(op, "apply") == 0) {
	    int mr = nexti(), mc = nexti();
	    double complex **m = read_m(mr, mc, nf);
	    if (!have_cal) {
		printf("apply rc=-2 errno=0 cb=0 cat=-\n");
	    } else {
		int ci = vnacal_add_calibration(vcp, "c", vnp);
		if (ci < 0) {
		    report("apply", -1);
		} else {
		    int np = rows > cols ? rows : cols;
		    vnadata_t *vdp = vnadata_alloc_and_init(error_fn, NULL, VPT_S, np, np, nf);
		    int rc = vnacal_apply_m(vcp, ci, fv, nf, m, mr, mc, vdp);
		    report("apply", rc);
		    if (rc == 0) {
			for (int f = 0; f < nf; ++f) {
			    printf("S %d", f);
			    for (int r = 0; r < np; ++r)
				for (int c = 0; c < np; ++c) {
				    double complex v = vnadata_get_cell(vdp, f, r, c);
				    printf(" %.17g %.17g", creal(v), cimag(v));
				}
			    printf("\n");
			}
		    }
		    vnadata_free(vdp);
		    vnacal_delete_calibration(vcp, ci);
		}
	    }
	    free_m(m, mr, mc);

	} else if (strcmp(op, "end") == 0) {
	    if (vnp != NULL)
		vnacal_new_free(vnp);
	    vnp = NULL;
	    vnacal_free(vcp);
	    vcp = NULL;
	    free(fv);
	    fv = NULL;
	    printf("end %s\n", id);
	    fflush(stdout);

	} else {
	    fail("unknown command");
	}
	fflush(stdout);
    }
    return 0;
}
