/*
 * calfile_harness: script driven driver for vnacal_load / vnacal_save / the precision setters /
 * calibration add-replace-delete / vnacal_apply_m / vnaproperty_import_yaml_* (C07, C09 cal half).
 *
 * Reads one command per line from the script file given as argv[1] (or stdin), starting at the
 * case whose number is argv[2] (default 0).  Strings are hex encoded ("-" = empty string).
 * Every answer is one line (dump: several lines ending with ENDDUMP) and is flushed, so that
 * after a sanitizer abort the driver knows which case died and can resume behind it.
 *
 *   case <n>                         -> CASE <n>
 *   create <slot>                    -> create rc=0|-1
 *   load <slot> <path>               -> load ok | load fail errno=<name> cb=<n> cat=<last category>
 *   save <slot> <path>               -> save rc=<rc> errno=<name> cb=<n>
 *   setfp|setdp <slot> <precision>   -> set rc=<rc> errno=<name>
 *   dump <slot>                      -> state dump (see dump_vcp), ENDDUMP
 *   delete <slot> <ci>               -> delete rc=<rc>
 *   xfer <src> <ci> <dst> <hexname>  -> xfer rc=<rc>   move a calibration between containers
 *                                       through _vnacal_add_calibration_common (add / replace)
 *   pset <slot> <ci> <hexexpr>       -> pset rc=<rc>   vnacal_property_set(vcp, ci, "%s", expr)
 *   apply <slot> <ci> <F> f.. m..    -> apply rc=<rc> errno=<name> S <re>,<im> ...   (%a)
 *   solve <slot> <hexname> <type> <rows> <cols> <F> <variant> -> solve rc=<rc> ci=<found index>
 *   free <slot>                      -> free
 *   import <path> | importf <path>   -> import rc=<rc> errno=<name> cb=<n> cat=<c>, P lines, ENDDUMP
 *   fmt <precision> <double>         -> fmt <hex of "%.*e" text> <hex of "%a" text> (libc reference for NumText)
 *   abi                              -> sizes, VNACAL_MAX_PRECISION, default precisions, setter acceptance probes
 *   leak                             -> leak <0|1>     (LSan recoverable check, attributes leaks)
 *   live                             -> live <n>       (allocwrap live block count, -1 without wrap)
 * At the end of the script: DONE (its absence tells the driver that the last case died).
 */
#include "archdep.h"
#include <complex.h>
#include <errno.h>
#include <math.h>
#include <stdio.h>
#include <stdlib.h>
#include <string.h>
#include <vnacal.h>
#include <vnadata.h>
#include <vnaproperty.h>
#include "vnacal_internal.h"

#if defined(__SANITIZE_ADDRESS__)
#include <sanitizer/lsan_interface.h>
#define HAVE_LSAN 1
#endif

extern long verif_live_blocks(void) __attribute__((weak));
extern void verif_alloc_track(int) __attribute__((weak));

#define SLOTS 8
static vnacal_t *slot[SLOTS];
static int cb_count;
static int cb_last = -1;
static char cb_message[512];	/* text of the last non-warning message given to the error callback */

static void error_fn(const char *message, void *arg, vnaerr_category_t category)
{
    (void)arg;
    if (getenv("CALFILE_VERBOSE") != NULL)
	fprintf(stderr, "callback[%d]: %s\n", (int)category, message);
    if (category != VNAERR_WARNING) {
	++cb_count;
	cb_last = (int)category;
	(void)snprintf(cb_message, sizeof(cb_message), "%s", message);
    }
}

static const char *ename(int e)
{
    static char buf[32];
    switch (e) {
    case 0: return "0";
    case EBADMSG: return "EBADMSG";
    case ENOPROTOOPT: return "ENOPROTOOPT";
    case EINVAL: return "EINVAL";
    case ENOMEM: return "ENOMEM";
    case ENOENT: return "ENOENT";
    case EDOM: return "EDOM";
    case ENOSYS: return "ENOSYS";
    case EISDIR: return "EISDIR";
    case EACCES: return "EACCES";
    default:
	snprintf(buf, sizeof(buf), "E%d", e);
	return buf;
    }
}

static void phex(const char *s)
{
    if (s == NULL) {
	printf("NULL");
	return;
    }
    if (*s == 0) {
	putchar('-');
	return;
    }
    for (; *s; ++s)
	printf("%02x", (unsigned char)*s);
}

static char *unhex(const char *h)
{
    size_t n = strlen(h);
    char *out = calloc(n / 2 + 2, 1);
    if (strcmp(h, "-") == 0)
	return out;
    for (size_t i = 0; i + 1 < n; i += 2) {
	unsigned v;
	sscanf(h + i, "%2x", &v);
	out[i / 2] = (char)v;
    }
    return out;
}

/* property tree through the public vnaproperty API */
static void dump_prop(const vnaproperty_t *node)
{
    int t = (node == NULL) ? -1 : vnaproperty_type(node, ".");

    switch (t) {
    case 's':
	printf("V ");
	phex(vnaproperty_get(node, "."));
	putchar('\n');
	break;
    case 'm':
	{
	    const char **keys = vnaproperty_keys(node, "{}");
	    int n = vnaproperty_count(node, "{}");
	    printf("M %d\n", n);
	    if (keys != NULL) {
		for (const char **k = keys; *k != NULL; ++k) {
		    char *q = vnaproperty_quote_key(*k);
		    printf("K ");
		    phex(*k);
		    putchar('\n');
		    dump_prop(q ? vnaproperty_get_subtree(node, "%s", q) : NULL);
		    free(q);
		}
		free((void *)keys);
	    }
	}
	break;
    case 'l':
	{
	    int n = vnaproperty_count(node, "[]");
	    printf("L %d\n", n);
	    for (int i = 0; i < n; ++i)
		dump_prop(vnaproperty_get_subtree(node, "[%d]", i));
	}
	break;
    default:
	printf("N\n");
	break;
    }
}

static void dump_vcp(vnacal_t *vcp)
{
    int end;

    if (vcp == NULL) {
	printf("NOVCP\nENDDUMP\n");
	return;
    }
    end = vnacal_get_calibration_end(vcp);
    printf("NCAL end=%d\n", end);
    for (int ci = 0; ci < end; ++ci) {
	const char *name = vnacal_get_name(vcp, ci);
	vnacal_calibration_t *calp;
	const double *fv;
	double complex z0;
	int F;

	if (name == NULL) {
	    printf("HOLE %d\n", ci);
	    continue;
	}
	calp = _vnacal_get_calibration(vcp, ci);
	F = vnacal_get_frequencies(vcp, ci);
	z0 = vnacal_get_z0(vcp, ci);
	printf("CAL %d name=", ci);
	phex(name);
	printf(" type=%s rows=%d cols=%d F=%d z0=%a,%a terms=%d\n",
		vnacal_type_to_name(vnacal_get_type(vcp, ci)),
		vnacal_get_rows(vcp, ci), vnacal_get_columns(vcp, ci), F,
		creal(z0), cimag(z0), calp->cal_error_terms);
	fv = vnacal_get_frequency_vector(vcp, ci);
	printf("F");
	for (int i = 0; i < F; ++i)
	    printf(" %a", fv[i]);
	putchar('\n');
	for (int t = 0; t < calp->cal_error_terms; ++t) {
	    printf("T %d", t);
	    for (int i = 0; i < F; ++i)
		printf(" %a,%a", creal(calp->cal_error_term_vector[t][i]),
			cimag(calp->cal_error_term_vector[t][i]));
	    putchar('\n');
	}
	printf("PROP\n");
	dump_prop(vnacal_property_get_subtree(vcp, ci, "."));
	printf("ENDCAL\n");
    }
    printf("GPROP\n");
    dump_prop(vnacal_property_get_subtree(vcp, -1, "."));
    printf("ENDDUMP\n");
}

/* simulated measurement of a standard with 2x2 S through a fixed error model M = A S B + C */
static void measure(int seed, int findex, const double complex s[2][2], double complex m[2][2])
{
    double t = 0.05 * (findex + 1) + 0.013 * seed;
    double complex a[2] = { 0.9 + 0.05 * I + 0.02 * t, 1.1 - 0.03 * I - 0.01 * t };
    double complex b[2] = { 1.05 + 0.02 * I * t, 0.95 + 0.04 * I };
    double complex c[2] = { 0.02 + 0.01 * I * t, -0.015 + 0.005 * t };

    for (int i = 0; i < 2; ++i)
	for (int j = 0; j < 2; ++j)
	    m[i][j] = a[i] * s[i][j] * b[j] + (i == j ? c[i] : 0.0);
}

static int do_solve(vnacal_t *vcp, const char *name, const char *tname, int rows, int cols,
	int F, int variant)
{
    vnacal_type_t type = vnacal_name_to_type(tname);
    vnacal_new_t *vnp;
    double fv[F > 0 ? F : 1];
    double complex mv[4][F > 0 ? F : 1];
    double complex *mp[4];
    int ports = rows > cols ? rows : cols;
    int rc = -1;
    static const int refl[3] = { VNACAL_SHORT, VNACAL_OPEN, VNACAL_MATCH };
    static const double complex gam[3] = { -1.0, 1.0, 0.0 };

    if ((vnp = vnacal_new_alloc(vcp, type, rows, cols, F)) == NULL)
	return -1;
    for (int i = 0; i < F; ++i)
	fv[i] = 1.0e6 * (i + 1) * (1 + variant) + 12345.678 * variant;
    if (vnacal_new_set_frequency_vector(vnp, fv) == -1)
	goto out;
    if (variant & 1) {
	if (vnacal_new_set_z0(vnp, 75.0 - 2.5 * I) == -1)
	    goto out;
    }
    for (int k = 0; k < rows * cols; ++k)
	mp[k] = mv[k];
    if (ports == 1) {
	for (int st = 0; st < 3; ++st) {
	    for (int i = 0; i < F; ++i) {
		double complex s[2][2] = { { gam[st], 0 }, { 0, 0 } }, m[2][2];
		measure(variant, i, s, m);
		mv[0][i] = m[0][0];
	    }
	    if (vnacal_new_add_single_reflect_m(vnp, mp, 1, 1, refl[st], 1) == -1)
		goto out;
	}
    } else if (ports == 2) {
	for (int st = 0; st < 4; ++st) {
	    for (int i = 0; i < F; ++i) {
		double complex s[2][2], m[2][2];
		if (st < 3) {
		    s[0][0] = gam[st]; s[1][1] = gam[(st + 1) % 3];
		    s[0][1] = s[1][0] = 0.0;
		} else {
		    s[0][0] = s[1][1] = 0.0;
		    s[0][1] = s[1][0] = 1.0;
		}
		measure(variant, i, s, m);
		for (int r = 0; r < rows; ++r)
		    for (int c = 0; c < cols; ++c)
			mv[r * cols + c][i] = m[r][c];
	    }
	    if (st < 3) {
		if (vnacal_new_add_double_reflect_m(vnp, mp, rows, cols,
			    refl[st], refl[(st + 1) % 3], 1, 2) == -1)
		    goto out;
	    } else {
		if (vnacal_new_add_through_m(vnp, mp, rows, cols, 1, 2) == -1)
		    goto out;
	    }
	}
    } else {
	goto out;
    }
    if (vnacal_new_solve(vnp) == -1)
	goto out;
    if (vnacal_add_calibration(vcp, name, vnp) == -1)
	goto out;
    rc = 0;
out:
    vnacal_new_free(vnp);
    return rc;
}

static char *slurp(const char *path)
{
    FILE *fp = fopen(path, "r");
    long n;
    char *mem;

    if (fp == NULL)
	return NULL;
    fseek(fp, 0, SEEK_END);
    n = ftell(fp);
    fseek(fp, 0, SEEK_SET);
    mem = calloc(n + 1, 1);
    if (fread(mem, 1, n, fp) != (size_t)n) {
	/* ignore */
    }
    fclose(fp);
    return mem;
}

int main(int argc, char **argv)
{
    FILE *in = stdin;
    long start = 0;
    int skipping = 0;
    static char line[1 << 22];

    if (argc > 1 && strcmp(argv[1], "-") != 0) {
	if ((in = fopen(argv[1], "r")) == NULL) {
	    perror(argv[1]);
	    return 2;
	}
    }
    if (argc > 2)
	start = atol(argv[2]);
    skipping = start > 0;
    if (verif_alloc_track)
	verif_alloc_track(1);
    while (fgets(line, sizeof(line), in) != NULL) {
	char *save = NULL;
	char *op = strtok_r(line, " \n", &save);
	if (op == NULL)
	    continue;
#define TOK() strtok_r(NULL, " \n", &save)
	if (strcmp(op, "case") == 0) {
	    long n = atol(TOK());
	    if (skipping && n >= start)
		skipping = 0;
	    if (!skipping)
		printf("CASE %ld\n", n);
	    fflush(stdout);
	    continue;
	}
	if (skipping)
	    continue;
	cb_count = 0;
	cb_last = -1;
	errno = 0;
	if (strcmp(op, "save") == 0 || strcmp(op, "setfp") == 0 || strcmp(op, "setdp") == 0 ||
		strcmp(op, "delete") == 0 || strcmp(op, "pset") == 0 || strcmp(op, "apply") == 0 ||
		strcmp(op, "solve") == 0 || strcmp(op, "xfer") == 0) {
	    /* the library does not accept a NULL container: answer without calling it */
	    char *copy = strdup(save ? save : "");
	    char *s2 = NULL;
	    char *a1 = strtok_r(copy, " \n", &s2);
	    int s = a1 ? atoi(a1) : 0;
	    int bad = (s < 0 || s >= SLOTS || slot[s] == NULL);
	    if (!bad && strcmp(op, "xfer") == 0) {
		char *a2 = strtok_r(NULL, " \n", &s2);
		char *a3 = strtok_r(NULL, " \n", &s2);
		int dst = a3 ? atoi(a3) : 0;
		(void)a2;
		bad = (dst < 0 || dst >= SLOTS || slot[dst] == NULL);
	    }
	    free(copy);
	    if (bad) {
		printf("%s rc=-1 errno=NOVCP\n", (op[0] == 's' && op[1] == 'e') ? "set" : op);
		fflush(stdout);
		continue;
	    }
	}
	if (strcmp(op, "create") == 0) {
	    int s = atoi(TOK());
	    slot[s] = vnacal_create(error_fn, NULL);
	    printf("create rc=%d\n", slot[s] ? 0 : -1);
	} else if (strcmp(op, "load") == 0) {
	    int s = atoi(TOK());
	    const char *path = TOK();
	    errno = 0;
	    slot[s] = vnacal_load(path, error_fn, NULL);
	    if (slot[s] != NULL)
		printf("load ok cb=%d\n", cb_count);
	    else
		printf("load fail errno=%s cb=%d cat=%d\n", ename(errno), cb_count, cb_last);
	} else if (strcmp(op, "save") == 0) {
	    int s = atoi(TOK());
	    const char *path = TOK();
	    int rc;
	    errno = 0;
	    rc = vnacal_save(slot[s], path);
	    printf("save rc=%d errno=%s cb=%d\n", rc, ename(rc ? errno : 0), cb_count);
	} else if (strcmp(op, "setfp") == 0 || strcmp(op, "setdp") == 0) {
	    int s = atoi(TOK());
	    int p = atoi(TOK());
	    int rc;
	    errno = 0;
	    rc = (op[3] == 'f') ? vnacal_set_fprecision(slot[s], p) : vnacal_set_dprecision(slot[s], p);
	    printf("set rc=%d errno=%s\n", rc, ename(rc ? errno : 0));
	} else if (strcmp(op, "dump") == 0) {
	    dump_vcp(slot[atoi(TOK())]);
	} else if (strcmp(op, "delete") == 0) {
	    int s = atoi(TOK());
	    int ci = atoi(TOK());
	    printf("delete rc=%d\n", vnacal_delete_calibration(slot[s], ci));
	} else if (strcmp(op, "xfer") == 0) {
	    int src = atoi(TOK());
	    int ci = atoi(TOK());
	    int dst = atoi(TOK());
	    char *name = unhex(TOK());
	    vnacal_calibration_t *calp = _vnacal_get_calibration(slot[src], ci);
	    int rc = -1;
	    if (calp != NULL) {
		slot[src]->vc_calibration_vector[ci] = NULL;
		free(calp->cal_name);
		calp->cal_name = NULL;
		calp->cal_vcp = slot[dst];
		rc = _vnacal_add_calibration_common("xfer", slot[dst], calp, name);
		if (rc == -1)
		    _vnacal_calibration_free(calp);
	    }
	    printf("xfer rc=%d\n", rc == -1 ? -1 : 0);
	    free(name);
	} else if (strcmp(op, "pset") == 0) {
	    int s = atoi(TOK());
	    int ci = atoi(TOK());
	    char *expr = unhex(TOK());
	    printf("pset rc=%d\n", vnacal_property_set(slot[s], ci, "%s", expr));
	    free(expr);
	} else if (strcmp(op, "apply") == 0) {
	    int s = atoi(TOK());
	    int ci = atoi(TOK());
	    int F = atoi(TOK());
	    int rows = vnacal_get_rows(slot[s], ci), cols = vnacal_get_columns(slot[s], ci);
	    int ports = rows > cols ? rows : cols;
	    double *fv = calloc(F + 1, sizeof(double));
	    double complex **mp = calloc(ports * ports + 1, sizeof(*mp));
	    vnadata_t *vdp = vnadata_alloc(error_fn, NULL);
	    int rc;
	    for (int i = 0; i < F; ++i)
		fv[i] = strtod(TOK(), NULL);
	    for (int k = 0; k < ports * ports; ++k) {
		mp[k] = calloc(F + 1, sizeof(double complex));
		for (int i = 0; i < F; ++i) {
		    double re = strtod(TOK(), NULL);
		    double im = strtod(TOK(), NULL);
		    mp[k][i] = re + I * im;
		}
	    }
	    errno = 0;
	    rc = vnacal_apply_m(slot[s], ci, fv, F, mp, ports, ports, vdp);
	    printf("apply rc=%d errno=%s S", rc, ename(rc ? errno : 0));
	    if (rc == 0) {
		for (int i = 0; i < F; ++i)
		    for (int r = 0; r < ports; ++r)
			for (int c = 0; c < ports; ++c) {
			    double complex v = vnadata_get_cell(vdp, i, r, c);
			    printf(" %a,%a", creal(v), cimag(v));
			}
	    }
	    putchar('\n');
	    vnadata_free(vdp);
	    for (int k = 0; k < ports * ports; ++k)
		free(mp[k]);
	    free(mp);
	    free(fv);
	} else if (strcmp(op, "solve") == 0) {
	    int s = atoi(TOK());
	    char *name = unhex(TOK());
	    const char *tname = TOK();
	    int rows = atoi(TOK()), cols = atoi(TOK()), F = atoi(TOK()), variant = atoi(TOK());
	    int rc = do_solve(slot[s], name, tname, rows, cols, F, variant);
	    printf("solve rc=%d ci=%d\n", rc, rc == 0 ? vnacal_find_calibration(slot[s], name) : -1);
	    free(name);
	} else if (strcmp(op, "free") == 0) {
	    int s = atoi(TOK());
	    vnacal_free(slot[s]);
	    slot[s] = NULL;
	    printf("free\n");
	} else if (strcmp(op, "import") == 0 || strcmp(op, "importf") == 0) {
	    const char *path = TOK();
	    vnaproperty_t *root = NULL;
	    int rc;
	    errno = 0;
	    if (op[6] == 0) {
		char *text = slurp(path);
		errno = 0;
		rc = vnaproperty_import_yaml_from_string(&root, text ? text : "", error_fn, NULL);
		{
		    int e = errno;
		    free(text);
		    errno = e;
		}
	    } else {
		FILE *fp = fopen(path, "r");
		errno = 0;
		rc = vnaproperty_import_yaml_from_file(&root, fp, path, error_fn, NULL);
		{
		    int e = errno;
		    fclose(fp);
		    errno = e;
		}
	    }
	    printf("import rc=%d errno=%s cb=%d cat=%d\n", rc, ename(rc ? errno : 0), cb_count, cb_last);
	    dump_prop(root);
	    printf("ENDDUMP\n");
	    (void)vnaproperty_delete(&root, ".");
	} else if (strcmp(op, "fmt") == 0) {
	    int p = atoi(TOK());
	    double v = strtod(TOK(), NULL);
	    char buf[2048];
	    snprintf(buf, sizeof(buf), "%.*e", p - 1, v);
	    printf("fmt ");
	    phex(buf);
	    snprintf(buf, sizeof(buf), "%a", v);
	    printf(" ");
	    phex(buf);
	    putchar('\n');
	} else if (strcmp(op, "msg") == 0) {	/* the last message of the error callback, in hex */
	    printf("msg ");
	    for (const unsigned char *p = (const unsigned char *)cb_message; *p != 0; ++p)
		printf("%02x", *p);
	    printf("\n");
	} else if (strcmp(op, "abi") == 0) {
	    vnacal_t *v = vnacal_create(error_fn, NULL);
	    int probes[] = { -1, 0, 1, 2, 25, 26, 27, 28, 40, 999, 1000, 1001, 2147483647 };
	    printf("abi int=%zu double=%zu complex=%zu maxp=%d deff=%d defd=%d acceptf",
		    sizeof(int), sizeof(double), sizeof(double complex), VNACAL_MAX_PRECISION,
		    v->vc_fprecision, v->vc_dprecision);
	    for (size_t i = 0; i < sizeof(probes) / sizeof(probes[0]); ++i)
		printf(" %d:%d", probes[i], vnacal_set_fprecision(v, probes[i]) == 0);
	    printf(" acceptd");
	    for (size_t i = 0; i < sizeof(probes) / sizeof(probes[0]); ++i)
		printf(" %d:%d", probes[i], vnacal_set_dprecision(v, probes[i]) == 0);
	    putchar('\n');
	    vnacal_free(v);
	} else if (strcmp(op, "leak") == 0) {
#ifdef HAVE_LSAN
	    printf("leak %d\n", __lsan_do_recoverable_leak_check() ? 1 : 0);
#else
	    printf("leak -1\n");
#endif
	} else if (strcmp(op, "live") == 0) {
	    printf("live %ld\n", verif_live_blocks ? verif_live_blocks() : -1L);
	} else {
	    printf("unknown %s\n", op);
	}
	fflush(stdout);
    }
    printf("DONE\n");
    fflush(stdout);
    return 0;
}
