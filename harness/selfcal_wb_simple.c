/*
 * Compiles src/vnacal_new_solve_simple.c from the working tree, unmodified, with the weight
 * constructor and the linear solvers it calls routed through the taps of selfcal_harness.c.
 * (The macros also rename the prototypes in the library headers, which is harmless: the taps
 * have the same signatures.)
 */
#define _vnacal_new_solve_calc_weights	wb_calc_weights
#define _vnacommon_qrsolve		wb_qrsolve
#define _vnacommon_mldivide		wb_mldivide
#include "vnacal_new_solve_simple.c"
