/*
 * Calibration-table / parameter-handle harness (property C16).
 *
 * Reads an operation script on stdin (one op per line, see checks/C16.py for the grammar), runs
 * each op through the public libvna API on one vnacal_t and up to MAXVN vnacal_new_t objects and
 * prints one canonical line per op:
 *
 *   <op> r=<ret> e=<errno class> cb=<error-callback invocations> | <digest>
 *
 * digest = public getters (calibration_end, name/type/rows/columns/frequencies/fmin/fmax of every
 * live ci, property tag of every root, get_parameter_value(h, probe) for every table index) plus
 * a white-box dump of the integer bookkeeping (allocation, count, first_free, per-slot type /
 * deleted / hold count / other index) read through vnacal_internal.h of the working tree.
 * Values are scaled by 64 and printed as exact integers when they are exact, else as %.17g.
 *
 * Measurements for the standards are supplied by the script (ideal VNA: M = S).
 *
 * With -DCALTAB_WRAP (linked with allocwrap.c) the op "failnext k" makes the k-th allocation
 * request of the next op fail.
 */
#include "archdep.h"
#include <complex.h>
#include <errno.h>
#include <math.h>
#include <stdio.h>
#include <stdlib.h>
#include <string.h>
#include <vnacal.h>
#include "vnacal_internal.h"

#ifdef CALTAB_WRAP
extern void verif_alloc_track(int on);
extern void verif_alloc_reset(long fail_at);
#endif

#define MAXVN 8
#define MAXTOK 4096

typedef double complex cx;

static int callbacks = 0;
static void error_fn(const char *message, void *arg, vnaerr_category_t category)
{
    (void)message; (void)arg; (void)category;
    ++callbacks;
}

static const char *errclass(int e)
{
    switch (e) {
    case 0:       return "none";
    case EINVAL:  return "EINVAL";
    case ENOENT:  return "ENOENT";
    case EDOM:    return "EDOM";
    case ENOMEM:  return "ENOMEM";
    default:      return "other";
    }
}

static char *toks[MAXTOK];
static int ntok, ptok;
static const char *nexts(void) { if (ptok >= ntok) { fprintf(stderr, "short line\n"); exit(3); } return toks[ptok++]; }
static long nexti(void) { return strtol(nexts(), NULL, 10); }

static void pval64(double x)
{
    double s = x * 64.0;
    if (isfinite(s) && s == floor(s) && fabs(s) < 1e15)
	printf("%lld", (long long)s);
    else
	printf("~%.17g", s);
}
static void pcx(cx v)
{
    if (creal(v) == HUGE_VAL) { printf("HUGE"); return; }
    pval64(creal(v)); printf(","); pval64(cimag(v));
}

static vnacal_t *vcp = NULL;
/* fmin:fmax of a calibration.  A calibration without frequency points (vnacal_new_alloc accepts 0) has
   none: both getters must return HUGE_VAL; that is printed as nofreq:nofreq (what the model driver prints
   for c_nf = 0), anything else as the numbers returned. */
static void pfrange(int ci)
{
    double fmin, fmax;
    int e1, e2, saved = errno;
    errno = 0; fmin = vnacal_get_fmin(vcp, ci); e1 = errno;
    errno = 0; fmax = vnacal_get_fmax(vcp, ci); e2 = errno;
    errno = saved;
    /* nofreq only when BOTH getters answer HUGE_VAL with errno EINVAL */
    if (vnacal_get_frequencies(vcp, ci) == 0 && fmin == HUGE_VAL && fmax == HUGE_VAL && e1 == EINVAL && e2 == EINVAL) {
	printf("nofreq:nofreq");
	return;
    }
    pval64(fmin); printf(":"); pval64(fmax);
}
static vnacal_new_t *vn[MAXVN];
static int vn_dim[MAXVN], vn_nf[MAXVN];
static double probe_f = 2.0;

static void digest(void)
{
    int saved_cb = callbacks;
    int saved_errno = errno;

    if (vcp == NULL) { printf("| freed\n"); return; }
    int end = vnacal_get_calibration_end(vcp);
    printf("| E=%d C=[", end);
    for (int ci = 0; ci < end; ++ci) {
	const char *name = vnacal_get_name(vcp, ci);
	if (name == NULL) continue;
	const char *tag = vnacal_property_get(vcp, ci, "tag");
	printf("%d:%s:%d:%d:%d:%d:", ci, name, (int)vnacal_get_type(vcp, ci), vnacal_get_rows(vcp, ci),
		vnacal_get_columns(vcp, ci), vnacal_get_frequencies(vcp, ci));
	pfrange(ci);
	if (vnacal_get_z0(vcp, ci) != 50.0) printf(":z0bad");
	printf(":%s;", tag ? tag : "-");
    }
    {
	const char *tag = vnacal_property_get(vcp, -1, "tag");
	printf("] G=%s", tag ? tag : "-");
    }
    const vnacal_parameter_collection_t *pc = &vcp->vc_parameter_collection;
    printf(" W=%d:%d:%d:%d P=[", pc->vprmc_allocation, pc->vprmc_count, pc->vprmc_first_free,
	    vcp->vc_calibration_allocation);
    for (int h = 0; h < pc->vprmc_allocation; ++h) {
	const vnacal_parameter_t *p = pc->vprmc_vector[h];
	if (p == NULL) continue;
	const vnacal_parameter_t *o = VNACAL_GET_PARAMETER_OTHER(p);
	printf("%d:%d:%d:%d:%d:", h, (int)p->vpmr_type, p->vpmr_deleted ? 1 : 0, p->vpmr_hold_count,
		o ? o->vpmr_index : -1);
	pcx(vnacal_get_parameter_value(vcp, h, probe_f));
	printf(";");
    }
    printf("]\n");
    callbacks = saved_cb;
    errno = saved_errno;
}

static void result_int(const char *op, long r, int failed)
{
    printf("%s r=%ld e=%s cb=%d ", op, r, failed ? errclass(errno) : "-", callbacks);
}

int main(void)
{
    static char line[1 << 16];

    vcp = vnacal_create(error_fn, NULL);
    if (vcp == NULL) { fprintf(stderr, "vnacal_create failed\n"); return 4; }
    while (fgets(line, sizeof(line), stdin) != NULL) {
	ntok = 0; ptok = 0;
	for (char *t = strtok(line, " \t\r\n"); t != NULL && ntok < MAXTOK; t = strtok(NULL, " \t\r\n"))
	    toks[ntok++] = t;
	if (ntok == 0) continue;
	const char *op = nexts();
	callbacks = 0;
	errno = 0;
	if (vcp == NULL) { printf("%s r=gone e=- cb=0 | freed\n", op); continue; }
#ifdef CALTAB_WRAP
	if (strcmp(op, "failnext") == 0) {
	    long k = nexti();
	    printf("failnext r=0 e=- cb=0 "); digest();
	    fflush(stdout);
	    verif_alloc_reset(k);
	    verif_alloc_track(1);
	    continue;
	}
#endif
	if (strcmp(op, "mks") == 0) {
	    double re = nexti() / 64.0, im = nexti() / 64.0;
	    int r = vnacal_make_scalar_parameter(vcp, re + I * im);
	    result_int(op, r, r == -1);
	} else if (strcmp(op, "mkv") == 0) {
	    /* the two arrays have EXACTLY n entries (heap blocks of that size), so that ASan reports any
	       read of vnacal_make_vector_parameter beyond the `frequencies` entries the caller passes:
	       the model (OMakeVector) says that exactly that many entries of each array are used */
	    int n = (int)nexti();
	    double *f = malloc((n > 0 ? n : 1) * sizeof(double));
	    cx *g = malloc((n > 0 ? n : 1) * sizeof(cx));
	    for (int i = 0; i < n; ++i) f[i] = (double)nexti();
	    for (int i = 0; i < n; ++i) { double re = nexti() / 64.0, im = nexti() / 64.0; g[i] = re + I * im; }
	    int r = vnacal_make_vector_parameter(vcp, f, n, g);
	    result_int(op, r, r == -1);
	    free(f); free(g);
	} else if (strcmp(op, "mku") == 0) {
	    int h = (int)nexti();
	    int r = vnacal_make_unknown_parameter(vcp, h);
	    result_int(op, r, r == -1);
	} else if (strcmp(op, "mkc") == 0) {
	    /* mkc h n: n sigma values 1/8, sigma_frequency_vector NULL (n > 1: taken from the vector
	       parameter at the end of the chain).
	       mkc h n f1 .. fk: the parameter's OWN sigma frequency grid, a heap array of exactly the k
	       entries given (k = n in generated scripts), so that ASan sees any read beyond them. */
	    int h = (int)nexti(); int n = (int)nexti();
	    int k = ntok - ptok;
	    double *sf = NULL;
	    double *sigma = calloc((n > 0 ? n : 0) + 1, sizeof(double));
	    for (int i = 0; i < n; ++i) sigma[i] = 0.125;
	    if (k > 0) {
		sf = malloc((size_t)k * sizeof(double));
		for (int i = 0; i < k; ++i) sf[i] = (double)nexti();
	    }
	    int r = vnacal_make_correlated_parameter(vcp, h, sf, n, sigma);
	    result_int(op, r, r == -1);
	    free(sigma);
	    free(sf);
	} else if (strcmp(op, "delp") == 0) {
	    int h = (int)nexti();
	    int r = vnacal_delete_parameter(vcp, h);
	    result_int(op, r, r == -1);
	} else if (strcmp(op, "getv") == 0) {
	    int h = (int)nexti();
	    double f = (double)nexti();
	    cx v = vnacal_get_parameter_value(vcp, h, f);
	    int failed = creal(v) == HUGE_VAL;
	    printf("getv r="); pcx(v);
	    printf(" e=%s cb=%d ", failed ? errclass(errno) : "-", callbacks);
	} else if (strcmp(op, "nalloc") == 0) {
	    int id = (int)nexti(), type = (int)nexti(), dim = (int)nexti(), nf = (int)nexti();
	    if (id < 0 || id >= MAXVN || vn[id] != NULL) {
		printf("nalloc r=nosuch e=- cb=0 ");
	    } else {
		vn[id] = vnacal_new_alloc(vcp, (vnacal_type_t)type, dim, dim, nf);
		vn_dim[id] = dim; vn_nf[id] = nf;
		printf("nalloc r=%s e=%s cb=%d ", vn[id] ? "ok" : "null", vn[id] ? "-" : errclass(errno), callbacks);
	    }
	} else if (strcmp(op, "setf") == 0) {
	    int id = (int)nexti(); long f0 = nexti();
	    if (id < 0 || id >= MAXVN || vn[id] == NULL) {
		printf("setf r=nosuch e=- cb=0 ");
	    } else {
		double *f = malloc((size_t)vn_nf[id] * sizeof(double));	/* exactly nf entries (0 bytes for nf = 0: any read is an ASan report) */
		for (int i = 0; i < vn_nf[id]; ++i) f[i] = (double)(f0 + i);
		int r = vnacal_new_set_frequency_vector(vn[id], f);
		result_int(op, r, r == -1);
		free(f);
	    }
	} else if (strcmp(op, "addstd") == 0) {
	    /* addstd id nh h1..hnh nm re im ...   nh = 1: single reflect (dim 1), 2: double reflect (dim 2),
	       4: through (dim 2; the handles 0 1 1 0 are those vnacal_new_add_through uses).  nm = nh * frequencies measured diagonal values. */
	    int id = (int)nexti(); int nh = (int)nexti(); int hs[4] = { 0, 0, 0, 0 };
	    for (int i = 0; i < nh; ++i) { int h = (int)nexti(); if (i < 4) hs[i] = h; }
	    int nm = (int)nexti();
	    cx *mv = calloc(nm + 1, sizeof(cx));
	    for (int i = 0; i < nm; ++i) { double re = nexti() / 64.0, im = nexti() / 64.0; mv[i] = re + I * im; }
	    if (id < 0 || id >= MAXVN || vn[id] == NULL) {
		printf("addstd r=nosuch e=- cb=0 ");
	    } else {
		int dim = vn_dim[id], nf = vn_nf[id];
		cx *cells[4]; cx *m[4];
		for (int c = 0; c < dim * dim; ++c) { cells[c] = calloc(nf + 1, sizeof(cx)); m[c] = cells[c]; }
		int r;
		if (dim == 1 && nh == 1) {
		    for (int k = 0; k < nf && k < nm; ++k) cells[0][k] = mv[k];
		    r = vnacal_new_add_single_reflect_m(vn[id], m, 1, 1, hs[0], 1);
		} else if (dim == 2 && nh == 2) {
		    for (int k = 0; k < nf && k < nm; ++k) cells[0][k] = mv[k];
		    for (int k = 0; k < nf && nf + k < nm; ++k) cells[3][k] = mv[nf + k];
		    r = vnacal_new_add_double_reflect_m(vn[id], m, 2, 2, hs[0], hs[1], 1, 2);
		} else if (dim == 2 && nh == 4) {
		    for (int k = 0; k < nf; ++k) { cells[1][k] = 1.0; cells[2][k] = 1.0; }
		    r = vnacal_new_add_through_m(vn[id], m, 2, 2, 1, 2);
		} else {
		    r = -2;	/* shape not supported by the harness; the generator never emits it */
		}
		result_int(op, r, r == -1);
		for (int c = 0; c < dim * dim; ++c) free(cells[c]);
	    }
	    free(mv);
	} else if (strcmp(op, "solve") == 0) {
	    int id = (int)nexti(); (void)nexti();
	    if (id < 0 || id >= MAXVN || vn[id] == NULL) {
		printf("solve r=nosuch e=- cb=0 ");
	    } else {
		int r = vnacal_new_solve(vn[id]);
		result_int(op, r, r == -1);
	    }
	} else if (strcmp(op, "addcal") == 0) {
	    int id = (int)nexti(); const char *name = nexts();
	    if (id < 0 || id >= MAXVN || vn[id] == NULL) {
		printf("addcal r=nosuch e=- cb=0 ");
	    } else {
		int r = vnacal_add_calibration(vcp, name, vn[id]);
		result_int(op, r, r == -1);
	    }
	} else if (strcmp(op, "delcal") == 0) {
	    int ci = (int)nexti();
	    int r = vnacal_delete_calibration(vcp, ci);
	    result_int(op, r, r == -1);
	} else if (strcmp(op, "find") == 0) {
	    const char *name = nexts();
	    int r = vnacal_find_calibration(vcp, name);
	    result_int(op, r, r == -1);
	} else if (strcmp(op, "getcal") == 0) {
	    int ci = (int)nexti();
	    const char *name = vnacal_get_name(vcp, ci);
	    int e1 = errno;
	    errno = 0;
	    int type = (int)vnacal_get_type(vcp, ci);
	    int rows = vnacal_get_rows(vcp, ci), cols = vnacal_get_columns(vcp, ci);
	    int nf = vnacal_get_frequencies(vcp, ci);
	    int e2 = errno;
	    if (name == NULL) {
		/* every getter must refuse alike */
		double fmin = vnacal_get_fmin(vcp, ci), fmax = vnacal_get_fmax(vcp, ci);
		const double *fv = vnacal_get_frequency_vector(vcp, ci);
		int consistent = type == -1 && rows == -1 && cols == -1 && nf == -1 && fmin == HUGE_VAL
		    && fmax == HUGE_VAL && fv == NULL && e1 == e2;
		errno = e1;
		printf("getcal r=%s e=%s cb=%d ", consistent ? "none" : "inconsistent", errclass(errno), callbacks);
	    } else {
		const double *fv = vnacal_get_frequency_vector(vcp, ci);
		int okv = nf == 0 ? 1 : (fv != NULL && nf >= 1 && fv[0] == vnacal_get_fmin(vcp, ci) && fv[nf - 1] == vnacal_get_fmax(vcp, ci));
		printf("getcal r=%s:%d:%d:%d:%d:", name, type, rows, cols, nf);
		pfrange(ci);
		printf("%s e=- cb=%d ", okv ? "" : ":fvbad", callbacks);
	    }
	} else if (strcmp(op, "end") == 0) {
	    int r = vnacal_get_calibration_end(vcp);
	    result_int(op, r, r == -1);
	} else if (strcmp(op, "pset") == 0) {
	    int ci = (int)nexti(); long tok = nexti();
	    int r = vnacal_property_set(vcp, ci, "tag=%ld", tok);
	    result_int(op, r, r == -1);
	} else if (strcmp(op, "pget") == 0) {
	    int ci = (int)nexti();
	    const char *v = vnacal_property_get(vcp, ci, "tag");
	    printf("pget r=%s e=%s cb=%d ", v ? v : "null", v ? "-" : errclass(errno), callbacks);
	} else if (strcmp(op, "nfree") == 0) {
	    int id = (int)nexti();
	    if (id < 0 || id >= MAXVN || vn[id] == NULL) {
		printf("nfree r=nosuch e=- cb=0 ");
	    } else {
		vnacal_new_free(vn[id]);
		vn[id] = NULL;
		printf("nfree r=0 e=- cb=%d ", callbacks);
	    }
	} else if (strcmp(op, "free") == 0) {
	    vnacal_free(vcp);
	    vcp = NULL;
	    for (int i = 0; i < MAXVN; ++i) vn[i] = NULL;
	    printf("free r=0 e=- cb=%d ", callbacks);
	} else {
	    fprintf(stderr, "unknown op %s\n", op);
	    return 2;
	}
#ifdef CALTAB_WRAP
	verif_alloc_track(0);
	verif_alloc_reset(0);
#endif
	digest();
	fflush(stdout);
    }
    if (vcp != NULL) vnacal_free(vcp);
    return 0;
}
