/*
 * Compiles src/vnacal_new_solve_trl.c from the working tree, unmodified, with the linear solver
 * it calls routed through the tap of selfcal_harness.c (which prints the 10 x 7 coefficient
 * matrix and the right-hand side when dumping is on).
 */
#define _vnacommon_qrsolve		wb_qrsolve_trl
#include "vnacal_new_solve_trl.c"
