/*
 * White-box harness for the model/C tie of the vnacal_new_t allocation skeleton (coq/Mem/NewAlloc.v,
 * lib/mem_tie.py: run_new_tie).  Build with wrap=True (allocation interposer).
 *
 * Script, one op per line:  <k> <op> args      (k = -1: no fault; k >= 0: request k+1 of the op fails)
 *   cfg <kind>...       start a segment: vnacal_create (untracked), then the user parameters in creation order:
 *                       s = scalar, u<o> = unknown with initial guess o, c<o> = correlated with o (one sigma
 *                       frequency).  Indices 0,1,2 are the predefined parameters.
 *   N <type> <rows> <cols> <freqs>      vnacal_new_alloc                -> handle = number of earlier N that succeeded
 *   T <h>                               vnacal_new_set_frequency_vector
 *   A <h> sr <port> <s11> | A <h> dr <p1> <p2> <s11> <s22> | A <h> th <p1> <p2> | A <h> bad
 *                                       vnacal_new_add_single_reflect_m / double_reflect_m / through_m with the
 *                                       full m matrix (bad: one row too many)
 *   E <h> bad | clear | inv | set <n> | close   vnacal_new_set_m_error: frequencies 0 | NULL NULL | sigma_nf NULL |
 *                                       n = 0: one value, 1: spline of sigma_nf, 2: splines of both | two frequencies closer than the spline accepts
 *   S <h>                               vnacal_new_solve
 *   F <h>                               vnacal_new_free
 *   V <h>                               (C side only, one line "D ...") the solved error terms of the handle: values, finite or not
 *   P <i> <f>                           (C side only, one line "D ...") vnacal_get_parameter_value of parameter i at frequency f
 *   end                                 delete the user parameters, vnacal_free (tracked)
 * Before every op with a fault (k >= 0) a forked child runs the same op without fault and prints the argument class the model
 * needs ("I ..."); an op without fault prints it itself.  Then the op runs with the requested fault and prints
 *   R <Done|Err> <errno class> <live tracked blocks> <requests made> | <holds taken on each parameter> | <per handle summary>
 */
#define _GNU_SOURCE
#include "archdep.h"
#include <complex.h>
#include <errno.h>
#include <math.h>
#include <stdio.h>
#include <stdlib.h>
#include <string.h>
#include <unistd.h>
#include <sys/wait.h>
#include <vnacal.h>
#include "vnacal_internal.h"
#include "vnacal_new_internal.h"

extern void verif_alloc_track(int on);
extern void verif_alloc_reset(long fail_at);
extern long verif_live_blocks(void);
extern long verif_alloc_count;

#define MAXP 64
#define MAXH 16
static vnacal_t *vcp;
static int nprm;                       /* parameters incl. the three predefined */
static int pidx[MAXP];                 /* library index of model parameter i */
static int base_hold[MAXP];
static double complex gam[MAXP];
static vnacal_new_t *hv[MAXH];
static int hrows[MAXH], hcols[MAXH], hfreqs[MAXH];
static int nh;
static long base_live;

static const char *ecls(int e)
{
    switch (e) { case 0: return "E0"; case EINVAL: return "EINVAL"; case ENOENT: return "ENOENT"; case ENOMEM: return "ENOMEM"; default: return "EOTHER"; }
}

static vnacal_parameter_t *prm(int i) { return vcp->vc_parameter_collection.vprmc_vector[pidx[i]]; }

static void summary(void)
{
    printf(" |");
    for (int i = 0; i < nprm; ++i) {
	vnacal_parameter_t *p = prm(i);
	{ int unk = p->vpmr_type == VNACAL_UNKNOWN || p->vpmr_type == VNACAL_CORRELATED; printf(" %d:%d:%d", p->vpmr_hold_count - base_hold[i], unk ? p->vpmr_frequencies : 0, unk && p->vpmr_gamma_vector != NULL); }
    }
    printf(" |");
    for (int h = 0; h < nh; ++h) {
	vnacal_new_t *v = hv[h];
	if (v == NULL) { printf(" -"); continue; }
	/* keys of the hash, ascending */
	int keys[MAXP], nk = 0;
	for (int b = 0; b < v->vn_parameter_hash.vnph_allocation; ++b)
	    for (vnacal_new_parameter_t *q = v->vn_parameter_hash.vnph_table[b]; q != NULL; q = q->vnpr_hash_next)
		if (nk < MAXP) keys[nk++] = VNACAL_GET_PARAMETER_INDEX(q->vnpr_parameter);
	for (int i = 0; i < nk; ++i) for (int j = i + 1; j < nk; ++j) if (keys[j] < keys[i]) { int t = keys[i]; keys[i] = keys[j]; keys[j] = t; }
	printf(" k");
	for (int i = 0; i < nk; ++i) printf("%s%d", i ? "," : "", keys[i]);
	printf(";u");
	int first = 1;
	for (vnacal_new_parameter_t *q = v->vn_unknown_parameter_list; q != NULL; q = q->vnpr_next_unknown, first = 0)
	    printf("%s%d", first ? "" : ",", VNACAL_GET_PARAMETER_INDEX(q->vnpr_parameter));
	int neq = 0;
	for (int s = 0; s < v->vn_systems; ++s) neq += v->vn_system_vector[s].vns_equation_count;
	printf(";c%d;n%d;m%d;q%d;e%d;l%d", v->vn_parameter_hash.vnph_allocation, v->vn_parameter_hash.vnph_count,
		v->vn_measurement_count, neq, v->vn_m_error_vector != NULL, v->vn_calibration != NULL);
    }
}

/* the equations the last measurement generated, in generation order: (system, terms) */
static void print_shape(vnacal_new_t *v)
{
    vnacal_new_measurement_t *last = v->vn_measurement_list;
    if (last == NULL) { printf(" 0"); return; }
    while (last->vnm_next != NULL) last = last->vnm_next;
    int n = 0;
    for (int s = 0; s < v->vn_systems; ++s)
	for (vnacal_new_equation_t *e = v->vn_system_vector[s].vns_equation_list; e != NULL; e = e->vne_next)
	    if (e->vne_vnmp == last) ++n;
    printf(" %d", n);
    for (int s = 0; s < v->vn_systems; ++s)
	for (vnacal_new_equation_t *e = v->vn_system_vector[s].vns_equation_list; e != NULL; e = e->vne_next)
	    if (e->vne_vnmp == last) {
		int t = 0;
		for (vnacal_new_term_t *q = e->vne_term_list; q != NULL; q = q->vnt_next) ++t;
		printf(" %d:%d", s, t);
	    }
}

static double complex **mk_m(int rows, int cols, int freqs)
{
    double complex **m = calloc((size_t)rows * cols + 1, sizeof(*m));
    for (int i = 0; i < rows * cols; ++i) m[i] = calloc((size_t)freqs + 1, sizeof(double complex));
    return m;
}
static void free_m(double complex **m, int rows, int cols)
{
    for (int i = 0; i < rows * cols; ++i) free(m[i]);
    free(m);
}
static void put_m(double complex **m, int rows, int cols, int r, int c, int freqs, double complex v)
{
    if (r < rows && c < cols && r >= 0 && c >= 0) for (int f = 0; f < freqs; ++f) m[r * cols + c][f] = v;
}

/* run one op; info != 0: print the "I" line of the argument class afterwards (child) */
static int run_op(const char *op, char **tok, int ntok, long k, int info, int *perrno)
{
    int rc = -2;
    long a[8] = {0};
    for (int i = 0; i < 8 && i < ntok; ++i) a[i] = strtol(tok[i], NULL, 10);
    int h = (int)a[0];
    vnacal_new_t *v = (op[0] != 'N' && h >= 0 && h < nh) ? hv[h] : NULL;
    verif_alloc_reset(k >= 0 ? k + 1 : 0);
    errno = 0;
    if (op[0] == 'N') {
	int type = (int)a[0], rows = (int)a[1], cols = (int)a[2], freqs = (int)a[3];
	verif_alloc_track(1);
	vnacal_new_t *n = vnacal_new_alloc(vcp, (vnacal_type_t)type, rows, cols, freqs);
	*perrno = errno;
	verif_alloc_track(0);
	rc = n != NULL ? 0 : -1;
	if (info) {
	    if (n == NULL) printf("I 0 0 0 0 -1 0 0 0 0\n");
	    else {
		const vnacal_layout_t *vlp = &n->vn_layout;
		vnacal_layout_t e12;
		int eterms = VL_ERROR_TERMS(vlp);
		if (VL_TYPE(vlp) == _VNACAL_E12_UE14) { _vnacal_layout(&e12, VNACAL_E12, rows, cols); eterms = VL_ERROR_TERMS(&e12); }
		int mn = rows < cols ? rows : cols, mx = rows > cols ? rows : cols;
		int leak = VL_HAS_OUTSIDE_LEAKAGE_TERMS(vlp) ? rows * cols - mn : -1;
		int conn = !(VL_TYPE(vlp) == VNACAL_T16 || VL_TYPE(vlp) == VNACAL_U16);
		printf("I 1 %d %d %d %d %d %d %d %d\n", rows * cols, mx * mx, eterms, leak, n->vn_systems, conn, vlp->vl_t_terms, freqs);
	    }
	}
	if (info != 1 && n != NULL && nh < MAXH) { hv[nh] = n; hrows[nh] = rows; hcols[nh] = cols; hfreqs[nh] = freqs; ++nh; }
	return rc;
    }
    if (v == NULL) {
	if (info) printf("I none\n");
	if (op[0] == 'F') { vnacal_new_free(NULL); *perrno = 0; return 0; }	/* a void no-op */
	*perrno = EINVAL;
	return -1;
    }
    int rows = hrows[h], cols = hcols[h], freqs = hfreqs[h];
    if (op[0] == 'T') {
	double *f = calloc((size_t)freqs + 1, sizeof(double));
	for (int i = 0; i < freqs; ++i) f[i] = 1e9 * (i + 1);
	verif_alloc_track(1);
	rc = vnacal_new_set_frequency_vector(v, f);
	*perrno = errno;
	verif_alloc_track(0);
	free(f);
	if (info) printf("I\n");
    } else if (op[0] == 'A') {
	const char *kind = ntok > 1 ? tok[1] : "";
	int mr = rows, mc = cols;
	if (!strcmp(kind, "bad")) mr = rows + 1;
	double complex **m = mk_m(mr, mc, freqs);
	int np = 0, pl[4];
	if (!strcmp(kind, "sr") || !strcmp(kind, "bad")) {
	    int port = !strcmp(kind, "bad") ? 1 : (int)a[2], s11 = !strcmp(kind, "bad") ? 0 : (int)a[3];
	    put_m(m, mr, mc, port - 1, port - 1, freqs, (s11 >= 0 && s11 < nprm) ? gam[s11] : 0.0);
	    pl[np++] = s11;
	    verif_alloc_track(1);
	    rc = vnacal_new_add_single_reflect_m(v, m, mr, mc, (s11 >= 0 && s11 < nprm) ? pidx[s11] : 1000 + s11, port);
	} else if (!strcmp(kind, "dr")) {
	    int p1 = (int)a[2], p2 = (int)a[3], s11 = (int)a[4], s22 = (int)a[5];
	    put_m(m, mr, mc, p1 - 1, p1 - 1, freqs, (s11 >= 0 && s11 < nprm) ? gam[s11] : 0.0);
	    put_m(m, mr, mc, p2 - 1, p2 - 1, freqs, (s22 >= 0 && s22 < nprm) ? gam[s22] : 0.0);
	    pl[np++] = s11; pl[np++] = s22;
	    verif_alloc_track(1);
	    rc = vnacal_new_add_double_reflect_m(v, m, mr, mc, (s11 >= 0 && s11 < nprm) ? pidx[s11] : 1000 + s11,
		    (s22 >= 0 && s22 < nprm) ? pidx[s22] : 1000 + s22, p1, p2);
	} else {
	    int p1 = (int)a[2], p2 = (int)a[3];
	    put_m(m, mr, mc, p1 - 1, p2 - 1, freqs, 1.0);
	    put_m(m, mr, mc, p2 - 1, p1 - 1, freqs, 1.0);
	    /* through: s = { ZERO, ONE, ONE, ZERO } */
	    pl[np++] = 0; pl[np++] = 1; pl[np++] = 1; pl[np++] = 0;
	    verif_alloc_track(1);
	    rc = vnacal_new_add_through_m(v, m, mr, mc, p1, p2);
	}
	*perrno = errno;
	verif_alloc_track(0);
	free_m(m, mr, mc);
	if (info) {
	    /* 0: refused before any request; 1: accepted; 2: refused after the measurement was allocated (incomplete S with measurement errors) */
	    printf("I %d %d %d", rc == 0 ? 1 : (verif_alloc_count > 0 && *perrno == EINVAL) ? 2 : 0, mr * mc, np);
	    for (int i = 0; i < np; ++i) printf(" %d", pl[i]);
	    if (rc == 0) print_shape(v); else printf(" 0");
	    printf("\n");
	}
    } else if (op[0] == 'E') {
	const char *kind = ntok > 1 ? tok[1] : "";
	int n = (int)a[2];
	double fv[3] = { 0.5e9, 1e9 * (freqs > 0 ? freqs : 1) * 0.6, 1e9 * (freqs > 0 ? freqs : 1) * 1.5 };
	double nf[3] = { 1e-4, 2e-4, 3e-4 }, tr[3] = { 1e-3, 1e-3, 2e-3 };
	verif_alloc_track(1);
	if (!strcmp(kind, "bad")) rc = vnacal_new_set_m_error(v, NULL, 0, nf, tr);
	else if (!strcmp(kind, "clear")) rc = vnacal_new_set_m_error(v, NULL, 1, NULL, NULL);
	else if (!strcmp(kind, "inv")) rc = vnacal_new_set_m_error(v, NULL, 1, NULL, tr);
	else if (!strcmp(kind, "close")) { double fc[3] = { fv[0], fv[0] + 5e-5, fv[2] }; rc = vnacal_new_set_m_error(v, fc, 3, nf, tr); }
	else if (n == 0) rc = vnacal_new_set_m_error(v, NULL, 1, nf, tr);
	else if (n == 1) rc = vnacal_new_set_m_error(v, fv, 3, nf, NULL);
	else rc = vnacal_new_set_m_error(v, fv, 3, nf, tr);
	*perrno = errno;
	verif_alloc_track(0);
	if (info) {
	    int cls = !strcmp(kind, "bad") ? 0 : !strcmp(kind, "clear") ? 1 : !strcmp(kind, "inv") ? 2 : 3;
	    if (!strcmp(kind, "close")) {
		/* the spline refuses the frequencies after its five requests (class 4), unless an earlier check refused the call (class 2) */
		cls = (rc != 0 && *perrno == EINVAL && verif_alloc_count >= 5) ? 4 : 2;
		n = 0;
	    } else if (cls == 3 && rc != 0) cls = 2;
	    printf("I %d %d\n", cls, n);
	}
    } else if (op[0] == 'S') {
	vnacal_new_trl_indices_t vnti;
	int trl = v->vn_frequencies_valid ? _vnacal_new_solve_is_trl(v, &vnti) : 0;
	long n_init = -1, n_cal = -1;
	if (info && v->vn_frequencies_valid) {
	    /* the requests of _vnacal_new_solve_init and of _vnacal_calibration_alloc on their own (same arguments as
	     * _vnacal_new_solve_internal passes), so that the model's lists are compared one by one and not only in total */
	    vnacal_new_solve_state_t vnss;
	    const vnacal_layout_t *vlp = &v->vn_layout;
	    vnacal_layout_t e12;
	    vnacal_type_t type_out = VL_TYPE(vlp);
	    int eterms = VL_ERROR_TERMS(vlp);
	    if (VL_TYPE(vlp) == _VNACAL_E12_UE14) { _vnacal_layout(&e12, VNACAL_E12, rows, cols); type_out = VNACAL_E12; eterms = VL_ERROR_TERMS(&e12); }
	    verif_alloc_reset(0);
	    verif_alloc_track(1);
	    if (_vnacal_new_solve_init(&vnss, v) == 0) { n_init = verif_alloc_count; _vnacal_new_solve_free(&vnss); }
	    verif_alloc_reset(0);
	    vnacal_calibration_t *calp = _vnacal_calibration_alloc(vcp, type_out, rows, cols, freqs, eterms);
	    if (calp != NULL) { n_cal = verif_alloc_count; _vnacal_calibration_free(calp); }
	    verif_alloc_track(0);
	    verif_alloc_reset(0);
	    errno = 0;
	}
	verif_alloc_track(1);
	rc = vnacal_new_solve(v);
	*perrno = errno;
	verif_alloc_track(0);
	if (info) {
	    /* total requests, TRL shortcut, requests of solve_init / calibration_alloc alone, and whether a numeric kernel gave up
	     * (a failure that is neither a refused call nor an allocation failure) */
	    printf("I %ld %d %ld %ld %d\n", verif_alloc_count, trl, n_init, n_cal, rc != 0 && *perrno != EINVAL);
	}
    } else if (op[0] == 'F') {
	verif_alloc_track(1);
	vnacal_new_free(v);
	*perrno = 0;
	verif_alloc_track(0);
	rc = 0;
	if (info != 1) hv[h] = NULL;
	if (info) printf("I\n");
    }
    return rc;
}

static void end_segment(void)
{
    if (vcp == NULL) return;
    /* the holds left on the parameters when every vnacal_new_t is gone */
    verif_alloc_track(1);
    for (int h = 0; h < nh; ++h) if (hv[h] != NULL) { vnacal_new_free(hv[h]); hv[h] = NULL; }
    verif_alloc_track(0);
    printf("R Done E0 %ld 0 |", verif_live_blocks() - base_live);
    for (int i = 0; i < nprm; ++i) printf(" %d", prm(i)->vpmr_hold_count - base_hold[i]);
    verif_alloc_track(1);
    for (int i = nprm - 1; i >= 3; --i) (void)vnacal_delete_parameter(vcp, pidx[i]);
    int left = vcp->vc_parameter_collection.vprmc_count;
    vnacal_free(vcp);
    verif_alloc_track(0);
    printf(" | %ld %d\n", verif_live_blocks() - base_live, left);
    vcp = NULL; nh = 0; nprm = 0;
}

int main(int argc, char **argv)
{
    char line[1024];
    FILE *fp = argc > 1 ? fopen(argv[1], "r") : stdin;
    if (fp == NULL) return 2;
    setvbuf(stdout, NULL, _IOLBF, 0);
    while (fgets(line, sizeof line, fp) != NULL) {
	char *tok[32]; int ntok = 0;
	for (char *t = strtok(line, " \n"); t != NULL && ntok < 32; t = strtok(NULL, " \n")) tok[ntok++] = t;
	if (ntok < 2) {
	    if (ntok == 1 && !strcmp(tok[0], "end")) end_segment();
	    continue;
	}
	long k = strtol(tok[0], NULL, 10);
	const char *op = tok[1];
	if (!strcmp(op, "end")) { end_segment(); continue; }
	if (!strcmp(op, "cfg")) {
	    end_segment();
	    verif_alloc_track(0);
	    vcp = vnacal_create(NULL, NULL);
	    nprm = 3; nh = 0;
	    pidx[0] = 0; pidx[1] = 1; pidx[2] = 2;
	    gam[0] = 0.0; gam[1] = 1.0; gam[2] = -1.0;
	    for (int i = 2; i < ntok && nprm < MAXP; ++i) {
		int o = tok[i][1] ? atoi(tok[i] + 1) : 0, id = -1;
		double sigma = 0.05;
		if (o < 0 || o >= nprm) o = 0;
		if (tok[i][0] == 's') { gam[nprm] = 0.3 + 0.1 * nprm + 0.05 * I * nprm; id = vnacal_make_scalar_parameter(vcp, gam[nprm]); }
		else if (tok[i][0] == 'u') { gam[nprm] = gam[o]; id = vnacal_make_unknown_parameter(vcp, pidx[o]); }
		else { gam[nprm] = gam[o]; id = vnacal_make_correlated_parameter(vcp, pidx[o], NULL, 1, &sigma); }
		if (id < 0) { printf("BADCFG\n"); return 3; }
		pidx[nprm++] = id;
	    }
	    for (int i = 0; i < nprm; ++i) base_hold[i] = prm(i)->vpmr_hold_count;
	    base_live = verif_live_blocks();
	    printf("R Done E0 0 0 |");
	    for (int i = 0; i < nprm; ++i) printf(" 0:0:0");
	    printf(" |\n");
	    continue;
	}
	if (vcp == NULL) { printf("R SKIP E0 0 0 | |\n"); continue; }
	if (!strcmp(op, "P")) {
	    /* C side only: vnacal_get_parameter_value of model parameter i at frequency f */
	    int i = ntok > 2 ? atoi(tok[2]) : -1;
	    double f = ntok > 3 ? atof(tok[3]) : 1e9;
	    if (i < 0 || i >= nprm) { printf("D none\n"); continue; }
	    double complex z = vnacal_get_parameter_value(vcp, pidx[i], f);
	    if (creal(z) == HUGE_VAL) printf("D novalue\n"); else printf("D %.9g,%.9g\n", creal(z) + 0.0, cimag(z) + 0.0);
	    continue;
	}
	if (!strcmp(op, "V")) {
	    /* C side only: the solved error terms of handle h (are they finite, their values to 9 digits) */
	    int h = ntok > 2 ? atoi(tok[2]) : -1;
	    vnacal_new_t *v = (h >= 0 && h < nh) ? hv[h] : NULL;
	    if (v == NULL || v->vn_calibration == NULL) { printf("D none\n"); continue; }
	    vnacal_calibration_t *calp = v->vn_calibration;
	    int finite = 1;
	    printf("D");
	    for (int t = 0; t < calp->cal_error_terms; ++t)
		for (int f = 0; f < calp->cal_frequencies; ++f) {
		    double complex z = calp->cal_error_term_vector[t][f];
		    if (!isfinite(creal(z)) || !isfinite(cimag(z))) finite = 0;
		    printf(" %.9g,%.9g", creal(z) + 0.0, cimag(z) + 0.0);
		}
	    printf(" finite=%d\n", finite);
	    continue;
	}
	if (k < 0) {
	    /* no fault requested: the op itself yields its argument class (info = 2: print the I line and keep the effects) */
	    int e = 0;
	    int rc = run_op(op, tok + 2, ntok - 2, -1, 2, &e);
	    long made = verif_alloc_count;
	    printf("R %s %s %ld %ld", rc == 0 ? "Done" : "Err", rc == 0 ? "E0" : ecls(e), verif_live_blocks() - base_live, made);
	    summary();
	    printf("\n");
	    continue;
	}
	/* the argument class, from a child that runs the same op without fault */
	fflush(stdout);
	pid_t pid = fork();
	if (pid == 0) {
	    int e = 0;
	    int crc = run_op(op, tok + 2, ntok - 2, -1, 1, &e);
	    fflush(stdout);
	    (void)crc;
	    _exit(0);
	}
	int st = 0;
	waitpid(pid, &st, 0);
	if (WIFEXITED(st) && WEXITSTATUS(st) == 7) { printf("R SKIP E0 0 0 | |\n"); continue; }
	if (!WIFEXITED(st) || WEXITSTATUS(st) != 0) { printf("I childdied %d\n", st); }
	int e = 0;
	int rc = run_op(op, tok + 2, ntok - 2, k, 0, &e);
	long made = verif_alloc_count;
	printf("R %s %s %ld %ld", rc == 0 ? "Done" : "Err", rc == 0 ? "E0" : ecls(e), verif_live_blocks() - base_live, made);
	summary();
	printf("\n");
    }
    end_segment();
    return 0;
}
