/*
 * API failure-contract harness (property C11).
 *
 *   err_harness errno                 validate the category -> errno table of _vnaerr_verror
 *   err_harness run <tmpdir> < script one case per input line (grammar below)
 *
 * Every case builds a fresh, realistic object (seeded), computes a digest of everything the public
 * getters / savers can observe, performs ONE call under test with a recording error function,
 * computes the digest again, and then runs a fixed suffix of valid calls on the same object
 * (resize / set / save / convert / solve after adding the missing standards / add_calibration /
 * free).  Output, one line per case:
 *
 *   BEGIN <id>
 *   RES <id> ret=<m1|null|huge|zero|val[:n]> errno=<class> cb=<n> warn=<n> cats=<digits> nl=<n>
 *            ecb=<errno class seen inside the last callback> d0=<hex> d1=<hex> [x0= x1=] w0=.. w1=..
 *            sfx=<ok|fail:step> sfxcb=<n>
 *
 * Case grammar (blank separated; <str> is hex encoded, "-" = empty):
 *   data <id> <type> <rows> <cols> <freqs> <fz0> <seed> <func> <a1> <a2> <a3> <a4> <str>
 *   cal  <id> <ncal> <holemask> <seed> <func> <a1> <a2> <a3> <a4> <str>
 *   new  <id> <type> <rows> <cols> <freqs> <nstd> <seed> <func> <a1> ... <a8> <str>
 *        <func>@skip: everything as for <func> (same objects, same pseudo-random stream) but the call under
 *        test is NOT made: the twin run "that never made the rejected call"; sd= (digest of the vnacal_new_t
 *        after the suffix has completed and solved the calibration) of a refused call must equal its twin's
 *        add_chains: <str> = "<parameter script>/<numbers as for add_generic>"; the script creates further
 *        parameters after the four of every run (handles 6, 7, ... in order), items separated by ';':
 *          s | v:<lo>:<hi> (vector, MHz) | u:<other> | c:<other>:<slo>:<shi> | c:<other>:- (correlated, own sigma
 *          frequencies slo..shi MHz / none) | d:<handle> (vnacal_delete_parameter)
 *   prop <id> <variant> <func> <str>
 *   ptie <id> <set|subtree> <str>          (model tie of vnaproperty_vset / _vset_subtree, see run_ptie)
 *   dhist / nhist                          histories of calls on one vnadata_t / vnacal_new_t, see run_dhist, run_nhist
 * <func>@null gives the function under test a NULL object pointer (data, cal: query / parameter
 * functions, new).
 */
#include "archdep.h"
#include <complex.h>
#include <errno.h>
#include <math.h>
#include <stdarg.h>
#include <stdbool.h>
#include <stdint.h>
#include <stdio.h>
#include <stdlib.h>
#include <string.h>
#include <unistd.h>
#include <vnacal.h>
#include <vnadata.h>
#include <vnaproperty.h>
#include "vnaerr_internal.h"
#include "vnacal_internal.h"
#include "vnacal_new_internal.h"
#include "vnadata_internal.h"
#include "vnaproperty_internal.h"

typedef double complex cx;

/* ------------------------------------------------------------------ recording error function */
static struct {
    int enabled;
    int count, warn, nl, ecb, cb_errno_differs;
    char cats[40];
    char msg[160];
} R;

static void error_fn(const char *message, void *arg, vnaerr_category_t category)
{
    int e = errno;
    (void)arg;
    if (!R.enabled)
	return;
    if (category == VNAERR_WARNING)
	++R.warn;
    else
	++R.count;
    if (strlen(R.cats) < sizeof(R.cats) - 2) {
	size_t n = strlen(R.cats);
	R.cats[n] = (char)('0' + ((int)category >= 0 && (int)category <= 8 ? (int)category : 9));
	R.cats[n + 1] = 0;
    }
    for (const char *p = message; p != NULL && *p; ++p)
	if (*p == '\n')
	    ++R.nl;
    R.ecb = e;
    snprintf(R.msg, sizeof(R.msg), "%s", message ? message : "(null)");
    for (char *p = R.msg; *p; ++p)
	if (*p == ' ' || *p == '\n' || *p == '\t')
	    *p = '_';    /* an error function may change errno (it calls stdio, ...): the library must set errno again after the call
     * (differential evidence for the final "errno = new_errno" of _vnaerr_verror) */
    errno = ERANGE;
}
static void rec_reset(void)
{
    memset(&R, 0, sizeof(R));
    R.enabled = 1;
    strcpy(R.msg, "-");
}

static const char *eclass(int e)
{
    static char buf[24];
    switch (e) {
    case 0:		return "0";
    case EINVAL:	return "EINVAL";
    case EDOM:		return "EDOM";
    case EBADMSG:	return "EBADMSG";
    case ENOENT:	return "ENOENT";
    case ENOPROTOOPT:	return "ENOPROTOOPT";
    case ENOSYS:	return "ENOSYS";
    case ENOMEM:	return "ENOMEM";
    default:
	snprintf(buf, sizeof(buf), "E%d", e);
	return buf;
    }
}

/* ------------------------------------------------------------------ digest */
static uint64_t H;
static void h_init(void) { H = 1469598103934665603ULL; }
static void h_bytes(const void *p, size_t n)
{
    const unsigned char *c = p;
    for (size_t i = 0; i < n; ++i) {
	H ^= c[i];
	H *= 1099511628211ULL;
    }
}
static void h_int(long v) { h_bytes(&v, sizeof(v)); }
static void h_dbl(double v)
{
    if (v == 0.0) v = 0.0;		/* -0.0 == 0.0 */
    if (isnan(v)) { h_int(0x7ff8); return; }
    h_bytes(&v, sizeof(v));
}
static void h_cx(cx v) { h_dbl(creal(v)); h_dbl(cimag(v)); }
static void h_str(const char *s) { if (s == NULL) h_int(-7); else { h_int((long)strlen(s)); h_bytes(s, strlen(s)); } }

/* ------------------------------------------------------------------ small PRNG */
static uint64_t rs;
static void rseed(uint64_t s) { rs = s * 2862933555777941757ULL + 3037000493ULL; }
static double rnd(void)
{
    rs ^= rs << 13; rs ^= rs >> 7; rs ^= rs << 17;
    return (double)((rs >> 11) % 2001) / 1000.0 - 1.0;	/* multiples of 1/1000 in [-1, 1] */
}
static cx rcx(void) { double a = rnd(); double b = rnd(); return a + I * b; }

/* ------------------------------------------------------------------ tokens */
#define MAXTOK 64
static char *tok[MAXTOK];
static int ntok;
static char *unhex(const char *h)
{
    size_t n;
    char *out;
    if (h == NULL || strcmp(h, "-") == 0)
	return strdup("");
    n = strlen(h) / 2;
    out = malloc(n + 1);
    for (size_t i = 0; i < n; ++i) {
	unsigned v;
	sscanf(h + 2 * i, "%2x", &v);
	out[i] = (char)v;
    }
    out[n] = 0;
    return out;
}
static long A(int i) { return i < ntok ? strtol(tok[i], NULL, 10) : 0; }

/* result of the call under test */
static char retbuf[64];
static void ret_int(long r)
{
    if (r == -1) strcpy(retbuf, "m1");
    else if (r == 0) strcpy(retbuf, "zero");
    else snprintf(retbuf, sizeof(retbuf), "val:%ld", r);
}
static void ret_ptr(const void *p) { strcpy(retbuf, p == NULL ? "null" : "val"); }
static void ret_dbl(double v) { strcpy(retbuf, v == HUGE_VAL ? "huge" : "val"); }
static void ret_cx(cx v) { strcpy(retbuf, (creal(v) == HUGE_VAL && cimag(v) == 0.0) ? "huge" : "val"); }

static const char *tmpdir = "/tmp";

/* =================================================================== vnadata family */
static void data_digest(const vnadata_t *vdp)
{
    int rows, cols, freqs, ports;
    R.enabled = 0;
    rows = vnadata_get_rows(vdp);
    cols = vnadata_get_columns(vdp);
    freqs = vnadata_get_frequencies(vdp);
    ports = rows > cols ? rows : cols;
    h_int(vnadata_get_type(vdp)); h_int(rows); h_int(cols); h_int(freqs);
    for (int f = 0; f < freqs; ++f) {
	h_dbl(vnadata_get_frequency(vdp, f));
	for (int r = 0; r < rows; ++r)
	    for (int c = 0; c < cols; ++c)
		h_cx(vnadata_get_cell(vdp, f, r, c));
    }
    h_int(vnadata_has_fz0(vdp) ? 1 : 0);
    if (vnadata_has_fz0(vdp)) {
	for (int f = 0; f < freqs; ++f)
	    for (int p = 0; p < ports; ++p)
		h_cx(vnadata_get_fz0(vdp, f, p));
    } else {
	for (int p = 0; p < ports; ++p)
	    h_cx(vnadata_get_z0(vdp, p));
    }
    h_int(vnadata_get_filetype(vdp));
    h_str(vnadata_get_format(vdp));
    h_int(vnadata_get_fprecision(vdp));
    h_int(vnadata_get_dprecision(vdp));
    R.enabled = 1;
}

static vnadata_t *data_build(int type, int rows, int cols, int freqs, int fz0, long seed)
{
    vnadata_t *vdp;
    int ports = rows > cols ? rows : cols;
    R.enabled = 0;
    rseed((uint64_t)seed);
    vdp = vnadata_alloc_and_init(error_fn, NULL, type, rows, cols, freqs);
    if (vdp == NULL) {
	printf("STATE-ERROR data %d %d %d %d\n", type, rows, cols, freqs);
	exit(3);
    }
    for (int f = 0; f < freqs; ++f) {
	vnadata_set_frequency(vdp, f, 1.0e9 * (f + 1));
	for (int r = 0; r < rows; ++r)
	    for (int c = 0; c < cols; ++c)
		vnadata_set_cell(vdp, f, r, c, rcx() + (r == c ? 2.0 : 0.0));
    }
    for (int p = 0; p < ports; ++p)
	vnadata_set_z0(vdp, p, 50.0 + 5.0 * p + I * rnd());
    if (fz0 && freqs > 0 && ports > 0) {
	for (int f = 0; f < freqs; ++f)
	    for (int p = 0; p < ports; ++p)
		vnadata_set_fz0(vdp, f, p, 40.0 + f + 3.0 * p + I * rnd());
    }
    vnadata_set_fprecision(vdp, 8);
    vnadata_set_dprecision(vdp, 5);
    if (seed & 1)
	vnadata_set_format(vdp, type == VPT_S ? "Sma" : NULL);
    R.enabled = 1;
    return vdp;
}

/* fixed suffix of valid calls: returns 0 or the number of the failing step */
static int data_suffix(vnadata_t *vdp)
{
    char *buf = NULL;
    size_t len = 0;
    FILE *fp;
    cx m[4] = { 0.1, 0.2 + 0.1 * I, 0.3, -0.2 * I };
    if (vnadata_resize(vdp, VPT_S, 2, 2, 3) != 0) return 1;
    for (int f = 0; f < 3; ++f) {
	if (vnadata_set_frequency(vdp, f, 1e6 * (f + 1)) != 0) return 2;
	if (vnadata_set_matrix(vdp, f, m) != 0) return 3;
    }
    if (vnadata_set_cell(vdp, 2, 1, 1, 0.25) != 0) return 4;
    if (vnadata_set_all_z0(vdp, 50.0) != 0) return 5;
    if (vnadata_get_z0(vdp, 1) != 50.0) return 6;
    if (vnadata_set_format(vdp, "Sri") != 0) return 7;
    if ((fp = open_memstream(&buf, &len)) == NULL) return 8;
    if (vnadata_fsave(vdp, fp, "sfx.npd") != 0) { fclose(fp); free(buf); return 9; }
    fclose(fp);
    if (len < 20) { free(buf); return 10; }
    free(buf);
    if (vnadata_convert(vdp, vdp, VPT_Z) != 0) return 11;
    if (vnadata_get_type(vdp) != VPT_Z) return 12;
    if (!isfinite(creal(vnadata_get_cell(vdp, 2, 1, 1)))) return 13;
    if (vnadata_init(vdp, VPT_S, 1, 1, 1) != 0) return 14;
    if (vnadata_get_cell(vdp, 0, 0, 0) != 0.0) return 15;
    return 0;
}

static void run_data(void)
{
    /* data <id> <type> <rows> <cols> <freqs> <fz0> <seed> <func> <a1> <a2> <a3> <a4> <str> */
    const char *id = tok[1];
    int type = (int)A(2), rows = (int)A(3), cols = (int)A(4), freqs = (int)A(5), fz0 = (int)A(6);
    long seed = A(7);
    const char *fn = tok[8];
    long a1 = A(9), a2 = A(10), a3 = A(11), a4 = A(12);
    char *str = unhex(ntok > 13 ? tok[13] : "-");
    vnadata_t *vdp = data_build(type, rows, cols, freqs, fz0, seed);
    vnadata_t *other = NULL;		/* destination of a convert into another object */
    vnadata_t *made = NULL;
    uint64_t d0, d1, x0 = 0, x1 = 0;
    int sfx, err, sfxcb;
    int ports = rows > cols ? rows : cols;
    int cells = rows * cols;
    cx *vec = calloc((size_t)(cells + ports + freqs + 8), sizeof(cx));
    vnadata_t *subject = vdp;
    bool null_handle = false;
    char fname[64];

    snprintf(fname, sizeof(fname), "%s", fn);
    if (strlen(fname) > 5 && strcmp(fname + strlen(fname) - 5, "@null") == 0) {
	fname[strlen(fname) - 5] = 0;
	subject = NULL;
	null_handle = true;
    }
    fn = fname;
    for (int i = 0; i < cells + ports + freqs + 8; ++i)
	vec[i] = 0.5 + 0.01 * i + 0.25 * I;
    if (strcmp(fn, "convert") == 0 && a2 == 1) {
	other = data_build(VPT_S, 3, 3, 2, 0, seed + 17);
    }
    h_init(); data_digest(vdp); d0 = H;
    if (other != NULL) { h_init(); data_digest(other); x0 = H; }
    rec_reset();
    errno = 0;
    strcpy(retbuf, "?");
    if (!strcmp(fn, "alloc_and_init")) {
	made = vnadata_alloc_and_init(error_fn, NULL, (int)a1, (int)a2, (int)a3, (int)a4);
	ret_ptr(made);
    } else if (!strcmp(fn, "init")) ret_int(vnadata_init(subject, (int)a1, (int)a2, (int)a3, (int)a4));
    else if (!strcmp(fn, "resize")) ret_int(vnadata_resize(subject, (int)a1, (int)a2, (int)a3, (int)a4));
    else if (!strcmp(fn, "set_type")) ret_int(vnadata_set_type(subject, (int)a1));
    else if (!strcmp(fn, "get_frequency")) ret_dbl(vnadata_get_frequency(subject, (int)a1));
    else if (!strcmp(fn, "set_frequency")) ret_int(vnadata_set_frequency(subject, (int)a1, 2.5e9));
    else if (!strcmp(fn, "get_fmin")) ret_dbl(vnadata_get_fmin(subject));
    else if (!strcmp(fn, "get_fmax")) ret_dbl(vnadata_get_fmax(subject));
    else if (!strcmp(fn, "get_cell")) ret_cx(vnadata_get_cell(subject, (int)a1, (int)a2, (int)a3));
    else if (!strcmp(fn, "set_cell")) ret_int(vnadata_set_cell(subject, (int)a1, (int)a2, (int)a3, 0.75 - 0.5 * I));
    else if (!strcmp(fn, "get_matrix")) ret_ptr(vnadata_get_matrix(subject, (int)a1));
    else if (!strcmp(fn, "set_matrix")) ret_int(vnadata_set_matrix(subject, (int)a1, vec));
    else if (!strcmp(fn, "get_to_vector")) ret_int(vnadata_get_to_vector(subject, (int)a1, (int)a2, vec));
    else if (!strcmp(fn, "set_from_vector")) ret_int(vnadata_set_from_vector(subject, (int)a1, (int)a2, vec));
    else if (!strcmp(fn, "get_z0")) ret_cx(vnadata_get_z0(subject, (int)a1));
    else if (!strcmp(fn, "set_z0")) ret_int(vnadata_set_z0(subject, (int)a1, 75.0 + I));
    else if (!strcmp(fn, "get_z0_vector")) ret_ptr(vnadata_get_z0_vector(subject));
    else if (!strcmp(fn, "set_z0_vector")) ret_int(vnadata_set_z0_vector(subject, vec));
    else if (!strcmp(fn, "set_all_z0")) ret_int(vnadata_set_all_z0(subject, 60.0));
    else if (!strcmp(fn, "get_fz0")) ret_cx(vnadata_get_fz0(subject, (int)a1, (int)a2));
    else if (!strcmp(fn, "set_fz0")) ret_int(vnadata_set_fz0(subject, (int)a1, (int)a2, 33.0 - I));
    else if (!strcmp(fn, "get_fz0_vector")) ret_ptr(vnadata_get_fz0_vector(subject, (int)a1));
    else if (!strcmp(fn, "set_fz0_vector")) ret_int(vnadata_set_fz0_vector(subject, (int)a1, vec));
    else if (!strcmp(fn, "add_frequency")) ret_int(vnadata_add_frequency(subject, (double)a1 * 1e9));
    else if (!strcmp(fn, "set_filetype")) ret_int(vnadata_set_filetype(subject, (int)a1));
    else if (!strcmp(fn, "set_fprecision")) ret_int(vnadata_set_fprecision(subject, (int)a1));
    else if (!strcmp(fn, "set_dprecision")) ret_int(vnadata_set_dprecision(subject, (int)a1));
    else if (!strcmp(fn, "get_fprecision")) ret_int(vnadata_get_fprecision(subject) == -1 ? -1 : 0);
    else if (!strcmp(fn, "get_filetype")) ret_int((int)vnadata_get_filetype(subject) == -1 ? -1 : 0);
    else if (!strcmp(fn, "get_format")) ret_ptr(vnadata_get_format(subject));
    else if (!strcmp(fn, "set_format")) ret_int(vnadata_set_format(subject, str));
    else if (!strcmp(fn, "convert")) {
	/* a1 = new type; a2: 0 in place, 1 into another object, 2 NULL destination */
	vnadata_t *out = a2 == 0 ? vdp : a2 == 1 ? other : NULL;
	ret_int(vnadata_convert(subject, null_handle ? vdp : out, (int)a1));
    } else if (!strcmp(fn, "fload")) {
	/* str = "<filename>\n<file text>" */
	char *nl = strchr(str, '\n');
	FILE *fp;
	if (nl == NULL) nl = str + strlen(str); else *nl++ = 0;
	fp = fmemopen(nl, strlen(nl) > 0 ? strlen(nl) : 1, "r");
	if (strlen(nl) == 0) { fclose(fp); fp = fopen("/dev/null", "r"); }
	ret_int(vnadata_fload(subject, fp, str));
	fclose(fp);
    } else if (!strcmp(fn, "load_text")) {
	/* str = "<filename>\n<file text>": written under the scratch directory and loaded by name, so that
	 * vnadata_load's own clean-up (fclose) runs after the parser has reported */
	char *nl = strchr(str, '\n');
	char path[600];
	FILE *fp;
	if (nl == NULL) nl = str + strlen(str); else *nl++ = 0;
	snprintf(path, sizeof(path), "%s/%s", tmpdir, str);
	fp = fopen(path, "w"); fputs(nl, fp); fclose(fp);
	ret_int(vnadata_load(subject, path));
	unlink(path);
    } else if (!strcmp(fn, "load")) ret_int(vnadata_load(subject, str));
    else if (!strcmp(fn, "save")) ret_int(vnadata_save(subject, str));
    else if (!strcmp(fn, "fsave") || !strcmp(fn, "cksave")) {
	char *buf = NULL; size_t len = 0;
	FILE *fp = open_memstream(&buf, &len);
	if (!strcmp(fn, "fsave")) ret_int(vnadata_fsave(subject, fp, str));
	else ret_int(vnadata_cksave(subject, str));
	fclose(fp); free(buf);
    } else {
	printf("UNKNOWN-FUNC %s\n", fn);
	exit(4);
    }
    err = errno;
    R.enabled = 0;
    h_init(); data_digest(vdp); d1 = H;
    if (other != NULL) { h_init(); data_digest(other); x1 = H; }
    printf("RES %s ret=%s errno=%s cb=%d warn=%d cats=%s nl=%d ecb=%s d0=%016llx d1=%016llx x0=%016llx x1=%016llx post=%d,%d,%d,%d,%d msg=%s",
	    id, retbuf, eclass(err), R.count, R.warn, R.cats[0] ? R.cats : "-", R.nl,
	    R.count + R.warn ? eclass(R.ecb) : "-",
	    (unsigned long long)d0, (unsigned long long)d1, (unsigned long long)x0, (unsigned long long)x1,
	    (int)vnadata_get_type(vdp), vnadata_get_rows(vdp), vnadata_get_columns(vdp), vnadata_get_frequencies(vdp),
	    (int)vnadata_has_fz0(vdp), R.msg);
    /* the object(s) must still be usable */
    rec_reset();
    if (other != NULL) {
	/* a failed convert leaves a destination that can be queried, saved, re-initialised, freed */
	char *buf = NULL; size_t len = 0;
	FILE *fp = open_memstream(&buf, &len);
	R.enabled = 0;
	(void)vnadata_fsave(other, fp, "o.npd");	/* may legitimately fail (undefined type) */
	R.enabled = 1;
	fclose(fp); free(buf);
	sfx = data_suffix(other);
	if (sfx != 0) sfx += 100;
	vnadata_free(other);
    } else sfx = 0;
    if (sfx == 0) {
	if (!strcmp(fn, "fload") || !strcmp(fn, "load") || !strcmp(fn, "load_text")) {
	    char *buf = NULL; size_t len = 0;
	    FILE *fp = open_memstream(&buf, &len);
	    R.enabled = 0;
	    (void)vnadata_fsave(vdp, fp, "o.npd");
	    R.enabled = 1;
	    fclose(fp); free(buf);
	}
	sfx = data_suffix(vdp);
    }
    sfxcb = R.count + R.warn;
    if (made != NULL) {
	if (data_suffix(made) != 0) sfx = 200;
	vnadata_free(made);
    }
    vnadata_free(vdp);
    if (sfx == 0) printf(" sfx=ok sfxcb=%d\n", sfxcb);
    else printf(" sfx=fail:%d sfxcb=%d smsg=%s\n", sfx, sfxcb, R.msg);
    free(vec);
    free(str);
}

/* ------------------------------------------------------------------ histories (model tie of hrun / kept) */
/* one call of the vnadata family on a valid object; returns 0, or -1 when the function is not in the table */
static int data_dispatch(vnadata_t *vdp, const char *fn, long a1, long a2, long a3, long a4, cx *vec)
{
    if (!strcmp(fn, "init")) ret_int(vnadata_init(vdp, (int)a1, (int)a2, (int)a3, (int)a4));
    else if (!strcmp(fn, "resize")) ret_int(vnadata_resize(vdp, (int)a1, (int)a2, (int)a3, (int)a4));
    else if (!strcmp(fn, "set_type")) ret_int(vnadata_set_type(vdp, (int)a1));
    else if (!strcmp(fn, "get_frequency")) ret_dbl(vnadata_get_frequency(vdp, (int)a1));
    else if (!strcmp(fn, "set_frequency")) ret_int(vnadata_set_frequency(vdp, (int)a1, 2.5e9));
    else if (!strcmp(fn, "get_fmin")) ret_dbl(vnadata_get_fmin(vdp));
    else if (!strcmp(fn, "get_fmax")) ret_dbl(vnadata_get_fmax(vdp));
    else if (!strcmp(fn, "get_cell")) ret_cx(vnadata_get_cell(vdp, (int)a1, (int)a2, (int)a3));
    else if (!strcmp(fn, "set_cell")) ret_int(vnadata_set_cell(vdp, (int)a1, (int)a2, (int)a3, 0.75 - 0.5 * I));
    else if (!strcmp(fn, "get_matrix")) ret_ptr(vnadata_get_matrix(vdp, (int)a1));
    else if (!strcmp(fn, "set_matrix")) ret_int(vnadata_set_matrix(vdp, (int)a1, vec));
    else if (!strcmp(fn, "get_to_vector")) ret_int(vnadata_get_to_vector(vdp, (int)a1, (int)a2, vec));
    else if (!strcmp(fn, "set_from_vector")) ret_int(vnadata_set_from_vector(vdp, (int)a1, (int)a2, vec));
    else if (!strcmp(fn, "get_z0")) ret_cx(vnadata_get_z0(vdp, (int)a1));
    else if (!strcmp(fn, "set_z0")) ret_int(vnadata_set_z0(vdp, (int)a1, 75.0 + I));
    else if (!strcmp(fn, "get_z0_vector")) ret_ptr(vnadata_get_z0_vector(vdp));
    else if (!strcmp(fn, "set_z0_vector")) ret_int(vnadata_set_z0_vector(vdp, vec));
    else if (!strcmp(fn, "set_all_z0")) ret_int(vnadata_set_all_z0(vdp, 60.0));
    else if (!strcmp(fn, "get_fz0")) ret_cx(vnadata_get_fz0(vdp, (int)a1, (int)a2));
    else if (!strcmp(fn, "set_fz0")) ret_int(vnadata_set_fz0(vdp, (int)a1, (int)a2, 33.0 - I));
    else if (!strcmp(fn, "get_fz0_vector")) ret_ptr(vnadata_get_fz0_vector(vdp, (int)a1));
    else if (!strcmp(fn, "set_fz0_vector")) ret_int(vnadata_set_fz0_vector(vdp, (int)a1, vec));
    else if (!strcmp(fn, "add_frequency")) ret_int(vnadata_add_frequency(vdp, (double)a1 * 1e9));
    else if (!strcmp(fn, "set_filetype")) ret_int(vnadata_set_filetype(vdp, (int)a1));
    else if (!strcmp(fn, "set_fprecision")) ret_int(vnadata_set_fprecision(vdp, (int)a1));
    else if (!strcmp(fn, "set_dprecision")) ret_int(vnadata_set_dprecision(vdp, (int)a1));
    else return -1;
    return 0;
}

/*
 * dhist <id> <type> <rows> <cols> <freqs> <fz0> <seed> <op;op;...>    op = func:a1:a2:a3:a4
 * runs the calls one after the other on one object;
 * RES <id> ans=<ret/errno/callbacks/type,rows,cols,freqs,fz0;...> d=<digest at the end> sfx=..
 */
static void run_dhist(void)
{
    const char *id = tok[1];
    long seed = A(7);
    vnadata_t *vdp = data_build((int)A(2), (int)A(3), (int)A(4), (int)A(5), (int)A(6), seed);
    char *ops = strdup(ntok > 8 && strcmp(tok[8], "-") != 0 ? tok[8] : "");
    char *save = NULL;
    cx *vec = calloc(64 * 64 + 64, sizeof(cx));
    int sfx, first = 1;
    for (int i = 0; i < 64 * 64 + 64; ++i) vec[i] = 0.5 + 0.01 * i + 0.25 * I;
    printf("RES %s ans=", id);
    for (char *q = strtok_r(ops, ";", &save); q != NULL; q = strtok_r(NULL, ";", &save)) {
	char fn[40];
	long a[4] = { 0, 0, 0, 0 };
	int n = 0;
	char *save2 = NULL;
	fn[0] = 0;
	for (char *w = strtok_r(q, ":", &save2); w != NULL; w = strtok_r(NULL, ":", &save2), ++n) {
	    if (n == 0) snprintf(fn, sizeof(fn), "%s", w);
	    else if (n <= 4) a[n - 1] = strtol(w, NULL, 10);
	}
	rec_reset();
	errno = 0;
	strcpy(retbuf, "?");
	if ((!strcmp(fn, "resize") || !strcmp(fn, "init")) && (a[1] > 60 || a[2] > 60)) { printf("UNKNOWN-ARGS\n"); exit(4); }
	if (data_dispatch(vdp, fn, a[0], a[1], a[2], a[3], vec) != 0) { printf("\nUNKNOWN-FUNC %s\n", fn); exit(4); }
	{
	    int err = errno;
	    R.enabled = 0;
	    printf("%s%s/%s/%d/%d,%d,%d,%d,%d", first ? "" : ";", retbuf, eclass(err), R.count,
		    (int)vnadata_get_type(vdp), vnadata_get_rows(vdp), vnadata_get_columns(vdp), vnadata_get_frequencies(vdp),
		    (int)vnadata_has_fz0(vdp));
	    first = 0;
	}
    }
    if (first) printf("-");
    R.enabled = 0;
    h_init(); data_digest(vdp);
    printf(" d=%016llx", (unsigned long long)H);
    rec_reset();
    sfx = data_suffix(vdp);
    vnadata_free(vdp);
    if (sfx == 0) printf(" sfx=ok\n"); else printf(" sfx=fail:%d\n", sfx);
    free(vec);
    free(ops);
}

/* =================================================================== calibration helpers */
#define NF 3
static const double fvec[NF] = { 1.0e9, 2.0e9, 3.0e9 };

/* measurement of standard number k (see std_add) by an almost ideal VNA: M = S + small error */
static cx *mrow[32];
static cx mstore[32][NF];
static void fill_m(const cx *s, int rows, int cols)
{
    for (int c = 0; c < rows * cols; ++c) {
	for (int f = 0; f < NF; ++f)
	    mstore[c][f] = s[c] + 0.01 * rcx();
	mrow[c] = mstore[c];
    }
}

/*
 * The list of standards for a rows x cols calibration (ports = max): standard k of the list is
 * added with the _m functions.  1 port: short, open, match (+ scalar load).  2 ports: short-open,
 * open-short, match-match, through, short-short.  Returns -2 when k is past the list.
 */
static int std_count(int rows, int cols) { return (rows > 1 || cols > 1) ? 5 : 4; }
static int std_add(vnacal_new_t *vnp, int rows, int cols, int k, int scalar_handle)
{
    if (rows == 1 && cols == 1) {
	static const int s11[4] = { VNACAL_SHORT, VNACAL_OPEN, VNACAL_MATCH, -1 };
	static const cx g[4] = { -1.0, 1.0, 0.0, 0.3 + 0.1 * I };
	int h;
	if (k > 3) return -2;
	h = k == 3 ? scalar_handle : s11[k];
	fill_m(&g[k], 1, 1);
	return vnacal_new_add_single_reflect_m(vnp, mrow, 1, 1, h, 1);
    } else {
	cx s[4];
	int full = rows * cols == 4;
	if (k > 4) return -2;
	switch (k) {
	case 0: s[0] = -1; s[1] = 0; s[2] = 0; s[3] = 1; break;
	case 1: s[0] = 1; s[1] = 0; s[2] = 0; s[3] = -1; break;
	case 2: s[0] = 0; s[1] = 0; s[2] = 0; s[3] = 0; break;
	case 3: s[0] = 0; s[1] = 1; s[2] = 1; s[3] = 0; break;
	default: s[0] = -1; s[1] = 0; s[2] = 0; s[3] = -1; break;
	}
	if (full) {
	    fill_m(s, 2, 2);
	} else if (rows == 2) {	/* 2x1: first column */
	    cx t[2] = { s[0], s[2] };
	    fill_m(t, 2, 1);
	} else {			/* 1x2: first row */
	    cx t[2] = { s[0], s[1] };
	    fill_m(t, 1, 2);
	}
	switch (k) {
	case 0: return vnacal_new_add_double_reflect_m(vnp, mrow, rows, cols, VNACAL_SHORT, VNACAL_OPEN, 1, 2);
	case 1: return vnacal_new_add_double_reflect_m(vnp, mrow, rows, cols, VNACAL_OPEN, VNACAL_SHORT, 1, 2);
	case 2: return vnacal_new_add_double_reflect_m(vnp, mrow, rows, cols, VNACAL_MATCH, VNACAL_MATCH, 1, 2);
	case 3: return vnacal_new_add_through_m(vnp, mrow, rows, cols, 1, 2);
	default: return vnacal_new_add_double_reflect_m(vnp, mrow, rows, cols, VNACAL_SHORT, VNACAL_SHORT, 1, 2);
	}
    }
}

static vnacal_new_t *new_build(vnacal_t *vcp, int type, int rows, int cols, int nstd, int scalar_handle)
{
    vnacal_new_t *vnp = vnacal_new_alloc(vcp, type, rows, cols, NF);
    if (vnp == NULL) return NULL;
    if (vnacal_new_set_frequency_vector(vnp, fvec) != 0) return NULL;
    for (int k = 0; k < nstd; ++k)
	if (std_add(vnp, rows, cols, k, scalar_handle) != 0) return NULL;
    return vnp;
}

/* =================================================================== vnacal_t family */
static int h_scalar, h_vector, h_unknown, h_deleted;

static void prop_tree_digest(const vnaproperty_t *root)
{
    char *buf = NULL; size_t len = 0;
    FILE *fp = open_memstream(&buf, &len);
    if (vnaproperty_export_yaml_to_file(root, fp, "digest", NULL, NULL) == -1) h_int(-99);
    fclose(fp);
    h_bytes(buf, len);
    free(buf);
}

static void cal_digest(vnacal_t *vcp, int with_save)
{
    int end;
    R.enabled = 0;
    end = vnacal_get_calibration_end(vcp);
    h_int(end);
    for (int ci = 0; ci <= end + 1; ++ci) {
	const char *name = vnacal_get_name(vcp, ci);
	h_str(name);
	if (name == NULL) continue;
	h_int(vnacal_find_calibration(vcp, name));
	h_int(vnacal_get_type(vcp, ci)); h_int(vnacal_get_rows(vcp, ci)); h_int(vnacal_get_columns(vcp, ci));
	h_int(vnacal_get_frequencies(vcp, ci)); h_dbl(vnacal_get_fmin(vcp, ci)); h_dbl(vnacal_get_fmax(vcp, ci));
	h_cx(vnacal_get_z0(vcp, ci));
	{
	    const double *fv = vnacal_get_frequency_vector(vcp, ci);
	    for (int f = 0; fv != NULL && f < vnacal_get_frequencies(vcp, ci); ++f) h_dbl(fv[f]);
	}
	errno = 0;
	prop_tree_digest(vnacal_property_get_subtree(vcp, ci, "."));
    }
    prop_tree_digest(vnacal_property_get_subtree(vcp, -1, "."));
    for (int h = 0; h < 12; ++h) {
	cx v = vnacal_get_parameter_value(vcp, h, 2.0e9);
	h_cx(v);
    }
    if (with_save && end > 0) {
	char path[512];
	FILE *fp;
	snprintf(path, sizeof(path), "%s/digest.vnacal", tmpdir);
	if (vnacal_save(vcp, path) != 0) h_int(-98);
	else if ((fp = fopen(path, "r")) != NULL) {
	    char b[4096]; size_t n;
	    while ((n = fread(b, 1, sizeof(b), fp)) > 0) h_bytes(b, n);
	    fclose(fp);
	}
    }
    R.enabled = 1;
}

static vnacal_t *cal_build(int ncal, int holemask, long seed)
{
    vnacal_t *vcp;
    cx gv[NF] = { 0.1, 0.2 + 0.1 * I, 0.3 };
    R.enabled = 0;
    rseed((uint64_t)seed + 99);
    vcp = vnacal_create(error_fn, NULL);
    if (vcp == NULL) { printf("STATE-ERROR create\n"); exit(3); }
    h_scalar = vnacal_make_scalar_parameter(vcp, 0.3 + 0.1 * I);
    h_vector = vnacal_make_vector_parameter(vcp, fvec, NF, gv);
    h_unknown = vnacal_make_unknown_parameter(vcp, h_scalar);
    h_deleted = vnacal_make_scalar_parameter(vcp, 0.7);
    vnacal_delete_parameter(vcp, h_deleted);
    for (int i = 0; i < ncal; ++i) {
	static const int types[4] = { VNACAL_T8, VNACAL_E12, VNACAL_UE10, VNACAL_TE10 };
	int two = (int)((seed >> i) & 1);
	int type = types[(seed + i) & 3];
	int rows = two ? 2 : 1, cols = two ? 2 : 1;
	char name[16];
	vnacal_new_t *vnp = new_build(vcp, type, rows, cols, std_count(rows, cols), h_scalar);
	int ci;
	snprintf(name, sizeof(name), "cal%d", i);
	if (vnp == NULL || vnacal_new_solve(vnp) != 0 || (ci = vnacal_add_calibration(vcp, name, vnp)) < 0) {
	    printf("STATE-ERROR cal %d type %d %dx%d errno %s\n", i, type, rows, cols, eclass(errno));
	    exit(3);
	}
	vnacal_new_free(vnp);
	vnacal_property_set(vcp, ci, "label=%s", name);
	vnacal_property_set(vcp, ci, "switches[0]=%d", i);
	vnacal_property_set(vcp, ci, "switches[1]=%d", i + 1);
    }
    vnacal_property_set(vcp, -1, "instrument.model=VNA-%ld", seed % 7);
    vnacal_property_set(vcp, -1, "instrument.ports=2");
    for (int i = 0; i < ncal; ++i)
	if (holemask & (1 << i))
	    vnacal_delete_calibration(vcp, vnacal_find_calibration(vcp, (char[]){ 'c', 'a', 'l', (char)('0' + i), 0 }));
    R.enabled = 1;
    return vcp;
}

/* white-box view of the slot table for the model tie: "cal<i>" -> i, "nw" -> 50, other -> 99 */
static void print_slots(const vnacal_t *vcp)
{
    printf(" slots=");
    if (vcp->vc_calibration_allocation == 0) printf("empty");
    for (int i = 0; i < vcp->vc_calibration_allocation; ++i) {
	const vnacal_calibration_t *c = vcp->vc_calibration_vector[i];
	if (i) printf(",");
	if (c == NULL) printf("-");
	else if (strncmp(c->cal_name, "cal", 3) == 0) printf("%s", c->cal_name + 3);
	else if (strcmp(c->cal_name, "nw") == 0) printf("50");
	else printf("99");
    }
}

static int cal_suffix(vnacal_t *vcp)
{
    vnacal_new_t *vnp;
    vnacal_t *vcp2;
    char path[512];
    int ci;
    if ((vnp = new_build(vcp, VNACAL_T8, 2, 2, 5, h_scalar)) == NULL) return 1;
    if (vnacal_new_solve(vnp) != 0) return 2;
    if ((ci = vnacal_add_calibration(vcp, "sfx", vnp)) < 0) return 3;
    vnacal_new_free(vnp);
    if (vnacal_find_calibration(vcp, "sfx") != ci) return 4;
    if (vnacal_get_name(vcp, ci) == NULL || strcmp(vnacal_get_name(vcp, ci), "sfx") != 0) return 5;
    if (vnacal_get_rows(vcp, ci) != 2 || vnacal_get_frequencies(vcp, ci) != NF) return 6;
    if (vnacal_property_set(vcp, ci, "a.b=c") != 0) return 7;
    if (vnacal_property_get(vcp, ci, "a.b") == NULL) return 8;
    snprintf(path, sizeof(path), "%s/sfx.vnacal", tmpdir);
    if (vnacal_save(vcp, path) != 0) return 9;
    if ((vcp2 = vnacal_load(path, error_fn, NULL)) == NULL) return 10;
    if (vnacal_find_calibration(vcp2, "sfx") < 0) { vnacal_free(vcp2); return 11; }
    vnacal_free(vcp2);
    if (vnacal_delete_calibration(vcp, ci) != 0) return 12;
    return 0;
}

static void run_cal(void)
{
    /* cal <id> <ncal> <holemask> <seed> <func> <a1> <a2> <a3> <a4> <str> */
    const char *id = tok[1];
    int ncal = (int)A(2), holemask = (int)A(3);
    long seed = A(4);
    const char *fn = tok[5];
    long a1 = A(6), a2 = A(7), a3 = A(8), a4 = A(9);
    char *str = unhex(ntok > 10 ? tok[10] : "-");
    vnacal_t *vcp = cal_build(ncal, holemask, seed);
    vnacal_t *q;			/* the handle given to the query / parameter functions: vcp, or NULL for <func>@null */
    char fname[64];
    vnacal_t *vcp_other = NULL, *loaded = NULL;
    vnacal_new_t *vnp = NULL;
    vnadata_t *sp = NULL;
    uint64_t d0, d1;
    int err, sfx, sfxcb, added_ci = -2, honour = 1;
    (void)a3; (void)a4;

    snprintf(fname, sizeof(fname), "%s", fn);
    q = vcp;
    if (strlen(fname) > 5 && strcmp(fname + strlen(fname) - 5, "@null") == 0) {
	fname[strlen(fname) - 5] = 0;
	q = NULL;
    }
    fn = fname;

    /* objects some calls need, built before the first digest */
    R.enabled = 0;
    if (!strcmp(fn, "add_calibration")) {
	switch (a1) {
	case 0: case 4:	/* solved */
	    vnp = new_build(vcp, VNACAL_T8, 1, 1, 4, h_scalar);
	    if (vnp == NULL || vnacal_new_solve(vnp) != 0) { printf("STATE-ERROR add\n"); exit(3); }
	    break;
	case 1:		/* not solved */
	    vnp = new_build(vcp, VNACAL_T8, 1, 1, 2, h_scalar);
	    break;
	case 3:		/* belongs to another vnacal_t */
	    vcp_other = vnacal_create(error_fn, NULL);
	    vnp = new_build(vcp_other, VNACAL_T8, 1, 1, 3, 0);
	    if (vnp == NULL || vnacal_new_solve(vnp) != 0) { printf("STATE-ERROR add3\n"); exit(3); }
	    break;
	default:
	    break;
	}
    }
    if (!strcmp(fn, "apply_m"))
	sp = vnadata_alloc(error_fn, NULL);
    R.enabled = 1;
    h_init(); cal_digest(vcp, 1); d0 = H;
    rec_reset();
    errno = 0;
    strcpy(retbuf, "?");
    if (!strcmp(fn, "find")) { added_ci = vnacal_find_calibration(q, str); ret_int(added_ci < 0 ? -1 : 0); }
    else if (!strcmp(fn, "delete_calibration")) ret_int(vnacal_delete_calibration(q, (int)a1));
    else if (!strcmp(fn, "get_name")) ret_ptr(vnacal_get_name(q, (int)a1));
    else if (!strcmp(fn, "get_type")) ret_int((int)vnacal_get_type(q, (int)a1) == -1 ? -1 : 0);
    else if (!strcmp(fn, "get_rows")) ret_int(vnacal_get_rows(q, (int)a1) == -1 ? -1 : 0);
    else if (!strcmp(fn, "get_columns")) ret_int(vnacal_get_columns(q, (int)a1) == -1 ? -1 : 0);
    else if (!strcmp(fn, "get_frequencies")) ret_int(vnacal_get_frequencies(q, (int)a1) == -1 ? -1 : 0);
    else if (!strcmp(fn, "get_fmin")) ret_dbl(vnacal_get_fmin(q, (int)a1));
    else if (!strcmp(fn, "get_fmax")) ret_dbl(vnacal_get_fmax(q, (int)a1));
    else if (!strcmp(fn, "get_frequency_vector")) ret_ptr(vnacal_get_frequency_vector(q, (int)a1));
    else if (!strcmp(fn, "get_z0")) ret_cx(vnacal_get_z0(q, (int)a1));
    else if (!strcmp(fn, "add_calibration")) {
	/* a1: 0 solved, 1 unsolved, 2 NULL vnp, 3 vnp of another vnacal_t, 4 solved + existing name */
	added_ci = vnacal_add_calibration(vcp, str, a1 == 2 ? NULL : vnp);
	ret_int(added_ci < 0 ? -1 : 0);
	if (added_ci >= 0) {
	    const char *nm = vnacal_get_name(q, added_ci);
	    honour = (vnacal_find_calibration(q, str) == added_ci) && nm != NULL && strcmp(nm, str) == 0
		&& vnacal_get_rows(q, added_ci) == 1 && added_ci < vnacal_get_calibration_end(vcp);
	}
    } else if (!strcmp(fn, "set_fprecision")) ret_int(vnacal_set_fprecision(vcp, (int)a1));
    else if (!strcmp(fn, "set_dprecision")) ret_int(vnacal_set_dprecision(vcp, (int)a1));
    else if (!strcmp(fn, "make_vector")) {
	/* a1: 0 valid, 1 frequencies = 0, 2 NULL frequency vector, 3 NULL gamma vector,
	 *     4 negative first frequency, 5 descending, 6 repeated frequency, 7 frequencies = -1 */
	double fv[NF] = { 1e9, 2e9, 3e9 };
	cx gv[NF] = { 0.5, 0.4, 0.3 };
	int n = NF;
	if (a1 == 1) n = 0;
	if (a1 == 7) n = -1;
	if (a1 == 4) fv[0] = -1.0;
	if (a1 == 5) { fv[1] = 3e9; fv[2] = 2e9; }
	if (a1 == 6) fv[2] = fv[1];
	ret_int(vnacal_make_vector_parameter(q, a1 == 2 ? NULL : fv, n, a1 == 3 ? NULL : gv) < 0 ? -1 : 0);
    } else if (!strcmp(fn, "make_scalar")) ret_int(vnacal_make_scalar_parameter(q, 0.25 + 0.5 * I) < 0 ? -1 : 0);
    else if (!strcmp(fn, "make_unknown")) ret_int(vnacal_make_unknown_parameter(q, (int)a1) < 0 ? -1 : 0);
    else if (!strcmp(fn, "make_correlated")) {
	/* a1 = other handle; a2: 0 valid sigma, 1 sigma_frequencies = 0, 2 NULL sigma vector,
	 *                       3 descending sigma frequencies, 4 negative sigma frequency */
	double sf[NF] = { 1e9, 2e9, 3e9 };
	double sv[NF] = { 0.1, 0.1, 0.2 };
	int n = NF;
	if (a2 == 1) n = 0;
	if (a2 == 3) { sf[1] = 3e9; sf[2] = 2e9; }
	if (a2 == 4) sf[0] = -1.0;
	ret_int(vnacal_make_correlated_parameter(q, (int)a1, sf, n, a2 == 2 ? NULL : sv) < 0 ? -1 : 0);
    } else if (!strcmp(fn, "delete_parameter")) ret_int(vnacal_delete_parameter(q, (int)a1));
    else if (!strcmp(fn, "get_parameter_value")) ret_cx(vnacal_get_parameter_value(q, (int)a1, (double)a2 * 1e8));
    else if (!strcmp(fn, "property_type")) ret_int(vnacal_property_type(q, (int)a1, "%s", str) == -1 ? -1 : 0);
    else if (!strcmp(fn, "property_count")) ret_int(vnacal_property_count(q, (int)a1, "%s", str) == -1 ? -1 : 0);
    else if (!strcmp(fn, "property_keys")) {
	const char **k = vnacal_property_keys(q, (int)a1, "%s", str);
	ret_ptr(k); free((void *)k);
    } else if (!strcmp(fn, "property_get")) ret_ptr(vnacal_property_get(q, (int)a1, "%s", str));
    else if (!strcmp(fn, "property_set")) ret_int(vnacal_property_set(q, (int)a1, "%s", str));
    else if (!strcmp(fn, "property_delete")) ret_int(vnacal_property_delete(q, (int)a1, "%s", str));
    else if (!strcmp(fn, "property_set_subtree")) ret_ptr(vnacal_property_set_subtree(q, (int)a1, "%s", str));
    else if (!strcmp(fn, "load")) {
	/* a1: 0 = str is the file text (written to a temporary file), 1 = str is a path */
	char path[512];
	if (a1 == 0) {
	    FILE *fp;
	    snprintf(path, sizeof(path), "%s/load.vnacal", tmpdir);
	    fp = fopen(path, "w"); fputs(str, fp); fclose(fp);
	} else snprintf(path, sizeof(path), "%s", str);
	loaded = vnacal_load(path, error_fn, NULL);
	ret_ptr(loaded);
    } else if (!strcmp(fn, "save")) ret_int(vnacal_save(vcp, str));
    else if (!strcmp(fn, "apply_m")) {
	/* a1 = ci, a2 = m_rows, a3 = m_columns, a4: 0 in-range frequencies, 1 out of range,
	 *  2 NULL frequency vector, 3 NULL result, 4 frequencies = -1 */
	double fv[2] = { 1.5e9, 2.5e9 };
	cx m0[2] = { 0.1, 0.2 }, m1[2] = { 0.0, 0.1 }, m2[2] = { 0.1, 0.0 }, m3[2] = { 0.3, 0.2 };
	cx *m[4] = { m0, m1, m2, m3 };
	if (a4 == 1) fv[1] = 9e9;
	ret_int(vnacal_apply_m(vcp, (int)a1, a4 == 2 ? NULL : fv, a4 == 4 ? -1 : 2, m, (int)a2, (int)a3,
		    a4 == 3 ? NULL : sp));
    } else {
	printf("UNKNOWN-FUNC %s\n", fn);
	exit(4);
    }
    err = errno;
    R.enabled = 0;
    h_init(); cal_digest(vcp, 1); d1 = H;
    printf("RES %s ret=%s errno=%s cb=%d warn=%d cats=%s nl=%d ecb=%s d0=%016llx d1=%016llx honour=%d ci=%d msg=%s",
	    id, retbuf, eclass(err), R.count, R.warn, R.cats[0] ? R.cats : "-", R.nl,
	    R.count + R.warn ? eclass(R.ecb) : "-", (unsigned long long)d0, (unsigned long long)d1, honour, added_ci, R.msg);
    print_slots(vcp);
    rec_reset();
    sfx = cal_suffix(vcp);
    sfxcb = R.count + R.warn;
    if (sfx == 0 && vnp != NULL && a1 == 1) {
	/* the unsolved vnacal_new_t can be completed, solved and added afterwards */
	if (std_add(vnp, 1, 1, 2, h_scalar) != 0 || vnacal_new_solve(vnp) != 0 ||
		vnacal_add_calibration(vcp, "late", vnp) < 0) sfx = 50;
    }
    if (loaded != NULL) vnacal_free(loaded);
    if (sp != NULL) vnadata_free(sp);
    if (vnp != NULL && vcp_other == NULL) vnacal_new_free(vnp);
    vnacal_free(vcp);
    if (vcp_other != NULL) vnacal_free(vcp_other);
    if (sfx == 0) printf(" sfx=ok sfxcb=%d\n", sfxcb);
    else printf(" sfx=fail:%d sfxcb=%d smsg=%s\n", sfx, sfxcb, R.msg);
    free(str);
}

/* =================================================================== vnacal_new_t family */
static char wbuf[160];
static void new_digest(vnacal_new_t *vnp)
{
    /* no public getter exists for a vnacal_new_t: white-box bookkeeping (vnacal_new_internal.h) */
    int eqs = 0;
    h_int(vnp->vn_measurement_count); h_int(vnp->vn_equations); h_int(vnp->vn_max_equations);
    h_int(vnp->vn_unknown_parameters); h_int(vnp->vn_correlated_parameters);
    h_int(vnp->vn_parameter_hash.vnph_count); h_int(vnp->vn_frequencies_valid);
    for (int s = 0; s < vnp->vn_systems; ++s) { h_int(vnp->vn_system_vector[s].vns_equation_count); eqs += vnp->vn_system_vector[s].vns_equation_count; }
    h_cx(vnp->vn_z0); h_dbl(vnp->vn_p_tolerance); h_dbl(vnp->vn_et_tolerance);
    h_int(vnp->vn_iteration_limit); h_dbl(vnp->vn_pvalue_limit);
    h_int(vnp->vn_calibration != NULL); h_int(vnp->vn_m_error_vector != NULL);
    for (int f = 0; f < vnp->vn_frequencies; ++f) h_dbl(vnp->vn_frequency_vector[f]);
    for (vnacal_new_measurement_t *m = vnp->vn_measurement_list; m != NULL; m = m->vnm_next) h_int(m->vnm_index);
    if (vnp->vn_calibration != NULL) {
	vnacal_calibration_t *c = vnp->vn_calibration;
	for (int t = 0; t < c->cal_error_terms; ++t)
	    for (int f = 0; f < c->cal_frequencies; ++f) h_cx(c->cal_error_term_vector[t][f]);
    }
    snprintf(wbuf, sizeof(wbuf), "m%d,e%d/%d,u%d,c%d,p%d,fv%d,cal%d", vnp->vn_measurement_count, vnp->vn_equations,
	    eqs, vnp->vn_unknown_parameters, vnp->vn_correlated_parameters, vnp->vn_parameter_hash.vnph_count,
	    (int)vnp->vn_frequencies_valid, vnp->vn_calibration != NULL);
}

static void run_new(void)
{
    /* new <id> <type> <rows> <cols> <freqs:ignored> <nstd> <seed> <func> <a1..a8> <str> */
    const char *id = tok[1];
    int type = (int)A(2), rows = (int)A(3), cols = (int)A(4), nstd = (int)A(6);
    long seed = A(7);
    const char *fn = tok[8];
    long a[9];
    vnacal_t *vcp;
    vnacal_new_t *vnp, *made = NULL;
    uint64_t d0, d1, c0, c1;
    char w0[160], w1[160];
    int err, sfx = 0, sfxcb;
    cx gv[NF] = { 0.1, 0.2 + 0.1 * I, 0.3 };
    cx one[1] = { 0.5 };
    vnacal_new_t *subj;		/* the handle given to the function under test: vnp, or NULL for <func>@null */
    char fname[64];
    (void)one;
    int skip = 0;
    char *chain_csv = NULL, *chain_str = NULL;
    char phbuf[200] = "-";
    uint64_t sd = 0;
    snprintf(fname, sizeof(fname), "%s", fn);
    if (strlen(fname) > 5 && strcmp(fname + strlen(fname) - 5, "@null") == 0)
	fname[strlen(fname) - 5] = 0;
    if (strlen(fname) > 5 && strcmp(fname + strlen(fname) - 5, "@skip") == 0) {
	fname[strlen(fname) - 5] = 0;
	skip = 1;
    }
    for (int i = 1; i <= 8; ++i) a[i] = A(8 + i);
    R.enabled = 0;
    rseed((uint64_t)seed + 7);
    vcp = vnacal_create(error_fn, NULL);
    h_scalar = vnacal_make_scalar_parameter(vcp, 0.3 + 0.1 * I);
    h_vector = vnacal_make_vector_parameter(vcp, fvec, NF, gv);
    h_unknown = vnacal_make_unknown_parameter(vcp, h_scalar);
    h_deleted = vnacal_make_scalar_parameter(vcp, 0.7);
    vnacal_delete_parameter(vcp, h_deleted);
    if (!strcmp(fname, "add_chains")) {
	/* further parameters: see the grammar at the top */
	char *save = NULL;
	size_t n = 0;
	chain_str = unhex(ntok > 17 ? tok[17] : "-");
	chain_csv = strchr(chain_str, '/');
	if (chain_csv != NULL) *chain_csv++ = 0; else chain_csv = chain_str + strlen(chain_str);
	phbuf[0] = 0;
	for (char *q = strtok_r(chain_str, ";", &save); q != NULL; q = strtok_r(NULL, ";", &save)) {
	    int h = -99;
	    long x1 = 0, x2 = 0, x3 = 0;
	    if (q[0] == 's') h = vnacal_make_scalar_parameter(vcp, 0.2 - 0.1 * I);
	    else if (q[0] == 'v' && sscanf(q, "v:%ld:%ld", &x1, &x2) == 2) {
		double pf[NF] = { 1e6 * (double)x1, 0.5e6 * (double)(x1 + x2), 1e6 * (double)x2 };
		h = vnacal_make_vector_parameter(vcp, pf, NF, gv);
	    } else if (q[0] == 'u' && sscanf(q, "u:%ld", &x1) == 1) h = vnacal_make_unknown_parameter(vcp, (int)x1);
	    else if (q[0] == 'c' && sscanf(q, "c:%ld:%ld:%ld", &x1, &x2, &x3) == 3) {
		double sf[2] = { 1e6 * (double)x2, 1e6 * (double)x3 };
		double sg[2] = { 0.01, 0.02 };
		h = vnacal_make_correlated_parameter(vcp, (int)x1, sf, 2, sg);
	    } else if (q[0] == 'c' && sscanf(q, "c:%ld:-", &x1) == 1) {
		double sg[1] = { 0.01 };
		h = vnacal_make_correlated_parameter(vcp, (int)x1, NULL, 1, sg);
	    } else if (q[0] == 'd' && sscanf(q, "d:%ld", &x1) == 1) h = vnacal_delete_parameter(vcp, (int)x1) == 0 ? -1 : -98;
	    else { printf("STATE-ERROR parameter script item %s\n", q); exit(3); }
	    if (h < -1) { printf("STATE-ERROR parameter script item %s failed (%s)\n", q, R.msg); exit(3); }
	    if (h >= 0 && n + 12 < sizeof(phbuf)) n += (size_t)snprintf(phbuf + n, sizeof(phbuf) - n, "%s%d", n ? "," : "", h);
	}
	if (phbuf[0] == 0) strcpy(phbuf, "-");
    }
    if (!strcmp(fname, "set_frequency_vector") || !strcmp(fname, "set_fv3") || (!strcmp(fname, "solve") && a[1] == 1)) {
	vnp = vnacal_new_alloc(vcp, type, rows, cols, NF);	/* frequency vector not yet given */
    } else {
	vnp = new_build(vcp, type, rows, cols, nstd, h_scalar);
    }
    if (vnp == NULL) { printf("STATE-ERROR new type %d %dx%d nstd %d errno %s\n", type, rows, cols, nstd, eclass(errno)); exit(3); }
    subj = (strcmp(fname, fn) != 0 && !skip) ? NULL : vnp;
    fn = fname;
    if (!strcmp(fn, "solve") && a[1] == 2) {
	/* a calibration solved earlier must survive a later failed solve: solve now with all
	 * standards, then make the system unsolvable by ... nothing public can remove standards,
	 * so this mode is only used with the frequency-range failure below */
    }
    h_init(); new_digest(vnp); d0 = H; strcpy(w0, wbuf);
    h_init(); cal_digest(vcp, 0); c0 = H;
    R.enabled = 1;
    rec_reset();
    errno = 0;
    strcpy(retbuf, "?");
    {
	cx s4[4] = { 0, 0, 0, 0 };
	int r_ = (int)a[5], c_ = (int)a[6];
	fill_m(s4, r_ > 0 && r_ <= 2 ? r_ : 1, c_ > 0 && c_ <= 2 ? c_ : 1);
    }
    if (skip && strcmp(fn, "add_generic") != 0 && strcmp(fn, "add_chains") != 0) {
	strcpy(retbuf, "skipped");
    } else if (!strcmp(fn, "new_alloc")) {
	made = vnacal_new_alloc(vcp, (int)a[1], (int)a[2], (int)a[3], (int)a[4]);
	ret_ptr(made);
    } else if (!strcmp(fn, "set_frequency_vector")) {
	/* a1: 0 valid, 1 NULL, 2 negative, 3 descending, 4 repeated, 5 NaN */
	double fv[NF] = { 1e9, 2e9, 3e9 };
	if (a[1] == 2) fv[0] = -1.0;
	if (a[1] == 3) { fv[1] = 3e9; fv[2] = 2e9; }
	if (a[1] == 4) fv[1] = fv[0];
	if (a[1] == 5) fv[2] = NAN;
	ret_int(vnacal_new_set_frequency_vector(subj, a[1] == 1 ? NULL : fv));
    } else if (!strcmp(fn, "set_fv3")) {
	/* a1..a3 = the three frequencies in GHz (-999 = NaN), a4 = 1: NULL vector */
	double fv[NF];
	for (int i = 0; i < NF; ++i) fv[i] = a[1 + i] == -999 ? NAN : (double)a[1 + i] * 1e9;
	ret_int(vnacal_new_set_frequency_vector(subj, a[4] == 1 ? NULL : fv));
    } else if (!strcmp(fn, "add_generic") || !strcmp(fn, "add_chains")) {
	/* str: b_null a_rows a_cols b_rows b_cols s_rows s_cols nmap p1 p2 p3 p4 ncells h1 .. h16 asing
	 * (a_rows = a_cols = 0: no 'a' matrix; nmap = -1: NULL port map) */
	long v[40];
	int nv = 0;
	int smat[16], map[4];
	cx av[NF] = { 1.0, 1.0, 1.0 }, zv[NF] = { 0.0, 0.0, 0.0 };
	cx *ap[32];
	char *str2 = chain_csv != NULL ? strdup(chain_csv) : unhex(ntok > 17 ? tok[17] : "-");
	for (char *q = strtok(str2, ","); q != NULL && nv < 40; q = strtok(NULL, ",")) v[nv++] = strtol(q, NULL, 10);
	while (nv < 40) v[nv++] = 0;
	for (int i = 0; i < 4; ++i) map[i] = (int)v[8 + i];
	for (int i = 0; i < 16; ++i) smat[i] = (int)v[13 + i];
	{
	    cx s25[32];
	    for (int i = 0; i < 32; ++i) s25[i] = 0.1 * (i % 5);
	    for (int c = 0; c < 32; ++c) { for (int f = 0; f < NF; ++f) mstore[c][f] = s25[c] + 0.01 * rcx(); mrow[c] = mstore[c]; }
	}
	{
	    int ac = (int)v[2] > 0 ? (int)v[2] : 1;
	    for (int i = 0; i < 32; ++i) ap[i] = (v[1] == 1 || i / ac == i % ac) ? av : zv;	/* identity, or a row of ones */
	    if (v[29] == 1) av[1] = 0.0;
	}
	if (skip)
	    strcpy(retbuf, "skipped");
	else if (v[1] == 0 && v[2] == 0)
	    ret_int(vnacal_new_add_mapped_matrix_m(subj, v[0] ? NULL : mrow, (int)v[3], (int)v[4], smat, (int)v[5], (int)v[6],
			v[7] == -1 ? NULL : map));
	else
	    ret_int(vnacal_new_add_mapped_matrix(subj, ap, (int)v[1], (int)v[2], v[0] ? NULL : mrow, (int)v[3], (int)v[4],
			smat, (int)v[5], (int)v[6], v[7] == -1 ? NULL : map));
	free(str2);
    } else if (!strcmp(fn, "set_z0")) ret_int(vnacal_new_set_z0(subj, 75.0));
    else if (!strcmp(fn, "add_single_reflect_m")) {
	/* a1 = s11 handle, a2 = port, a5 = m_rows, a6 = m_columns, a7: 1 = NULL m */
	ret_int(vnacal_new_add_single_reflect_m(subj, a[7] == 1 ? NULL : mrow, (int)a[5], (int)a[6], (int)a[1], (int)a[2]));
    } else if (!strcmp(fn, "add_single_reflect")) {
	/* a1 = s11, a2 = port, a3 = a_rows, a4 = a_columns, a5 = b_rows, a6 = b_columns, a7: 1 = singular a */
	/* a = identity (or, for UE14 / E12, a row of ones) */
	cx av[NF] = { 1.0, 1.0, 1.0 };
	cx zv[NF] = { 0.0, 0.0, 0.0 };
	cx *ap[6] = { av, zv, zv, av, zv, zv };
	if (a[3] == 1) { ap[1] = av; ap[2] = av; }
	if (a[7] == 1) av[1] = 0.0;
	ret_int(vnacal_new_add_single_reflect(subj, ap, (int)a[3], (int)a[4], mrow, (int)a[5], (int)a[6], (int)a[1], (int)a[2]));
    } else if (!strcmp(fn, "add_double_reflect_m")) {
	/* a1 = s11, a2 = s22, a3 = port1, a4 = port2, a5 = m_rows, a6 = m_columns */
	ret_int(vnacal_new_add_double_reflect_m(subj, mrow, (int)a[5], (int)a[6], (int)a[1], (int)a[2], (int)a[3], (int)a[4]));
    } else if (!strcmp(fn, "add_through_m")) {
	ret_int(vnacal_new_add_through_m(subj, mrow, (int)a[5], (int)a[6], (int)a[3], (int)a[4]));
    } else if (!strcmp(fn, "add_line_m")) {
	/* a1, a2 = s11 and s22 handles (s12 = s21 = a7), a3 = port1, a4 = port2 */
	int s[4] = { (int)a[1], (int)a[7], (int)a[7], (int)a[2] };
	ret_int(vnacal_new_add_line_m(subj, mrow, (int)a[5], (int)a[6], s, (int)a[3], (int)a[4]));
    } else if (!strcmp(fn, "add_mapped_matrix_m")) {
	/* a1, a2 = diagonal handles, a3, a4 = port map, a5, a6 = m dims, a7 = s_rows, a8 = s_columns */
	int s[4] = { (int)a[1], VNACAL_ZERO, VNACAL_ZERO, (int)a[2] };
	int map[2] = { (int)a[3], (int)a[4] };
	ret_int(vnacal_new_add_mapped_matrix_m(subj, mrow, (int)a[5], (int)a[6], s, (int)a[7], (int)a[8],
		    a[3] == 0 ? NULL : map));
    } else if (!strcmp(fn, "set_m_error")) {
	/* a1: 0 valid (1 point), 1 frequencies = 0, 2 NULL sigma_nf with sigma_tr, 3 negative sigma,
	 *     4 range does not cover the calibration, 5 descending */
	double mf[2] = { 0.5e9, 4e9 };
	double nf[2] = { 1e-4, 1e-4 }, tr[2] = { 1e-3, 1e-3 };
	int n = 2;
	if (a[1] == 1) n = 0;
	if (a[1] == 3) nf[0] = -1.0;
	if (a[1] == 4) mf[1] = 2e9;
	if (a[1] == 5) { mf[0] = 4e9; mf[1] = 0.5e9; }
	ret_int(vnacal_new_set_m_error(subj, mf, n, a[1] == 2 ? NULL : nf, tr));
    } else if (!strcmp(fn, "set_pvalue_limit")) ret_int(vnacal_new_set_pvalue_limit(subj, a[1] == -999 ? NAN : (double)a[1] / 1000.0));
    else if (!strcmp(fn, "set_et_tolerance")) ret_int(vnacal_new_set_et_tolerance(subj, a[1] == -999 ? NAN : (double)a[1] / 1000.0));
    else if (!strcmp(fn, "set_p_tolerance")) ret_int(vnacal_new_set_p_tolerance(subj, a[1] == -999 ? NAN : (double)a[1] / 1000.0));
    else if (!strcmp(fn, "set_iteration_limit")) ret_int(vnacal_new_set_iteration_limit(subj, (int)a[1]));
    else if (!strcmp(fn, "solve")) ret_int(vnacal_new_solve(subj));
    else {
	printf("UNKNOWN-FUNC %s\n", fn);
	exit(4);
    }
    err = errno;
    R.enabled = 0;
    h_init(); new_digest(vnp); d1 = H; strcpy(w1, wbuf);
    h_init(); cal_digest(vcp, 0); c1 = H;
    printf("RES %s ret=%s errno=%s cb=%d warn=%d cats=%s nl=%d ecb=%s d0=%016llx d1=%016llx x0=%016llx x1=%016llx w0=%s w1=%s ph=%s msg=%s",
	    id, retbuf, eclass(err), R.count, R.warn, R.cats[0] ? R.cats : "-", R.nl,
	    R.count + R.warn ? eclass(R.ecb) : "-", (unsigned long long)d0, (unsigned long long)d1,
	    (unsigned long long)c0, (unsigned long long)c1, w0, w1, phbuf, R.msg);
    /* suffix: give the frequency vector if still missing, add the standards that are still
     * missing, solve, add the calibration, query it */
    rec_reset();
    if (!vnp->vn_frequencies_valid && vnacal_new_set_frequency_vector(vnp, fvec) != 0) sfx = 1;
    if (sfx == 0) {
	int have = vnp->vn_measurement_count;
	int skip = (!strcmp(fn, "set_frequency_vector") || !strcmp(fn, "set_fv3") || (!strcmp(fn, "solve") && a[1] == 1)) ? 0 : nstd;
	(void)have;
	for (int k = skip; sfx == 0; ++k) {
	    int rc = std_add(vnp, rows, cols, k, h_scalar);
	    if (rc == -2) break;
	    if (rc != 0) sfx = 2;
	}
    }
    if (sfx == 0 && vnacal_new_solve(vnp) != 0) sfx = 3;
    R.enabled = 0;
    h_init(); new_digest(vnp); sd = H;		/* the completed (and, when sfx == 0, solved) calibration */
    R.enabled = 1;
    if (sfx == 0) {
	int ci = vnacal_add_calibration(vcp, "after", vnp);
	if (ci < 0) sfx = 4;
	else if (vnacal_find_calibration(vcp, "after") != ci || vnacal_get_rows(vcp, ci) != rows) sfx = 5;
    }
    sfxcb = R.count + R.warn;
    if (made != NULL) vnacal_new_free(made);
    vnacal_new_free(vnp);
    vnacal_free(vcp);
    free(chain_str);
    printf(" sd=%016llx", (unsigned long long)sd);
    if (sfx == 0) printf(" sfx=ok sfxcb=%d\n", sfxcb);
    else printf(" sfx=fail:%d sfxcb=%d smsg=%s\n", sfx, sfxcb, R.msg);
}

/*
 * nhist <id> <type> <rows> <cols> <nstd> <seed> <op;op;...>    op = func:a1:..:a4
 *   func: pv (set_pvalue_limit a1/1000), et, pt (tolerances a1/1000), it (set_iteration_limit a1), z0 (set_z0 a1),
 *         sr (add_single_reflect_m s11=a1 port=a2), dr (add_double_reflect_m s11=a1 s22=a2 ports a3 a4),
 *         th (add_through_m ports a1 a2), solve
 * one vnacal_new_t (frequency vector given, nstd standards of the list), the calls one after the other, then the
 * suffix (remaining standards, solve);
 * RES <id> ans=<ret/errno/callbacks;...> d=<digest after the history> sd=<digest after the suffix> sfx=..
 */
static void run_nhist(void)
{
    const char *id = tok[1];
    int type = (int)A(2), rows = (int)A(3), cols = (int)A(4), nstd = (int)A(5);
    long seed = A(6);
    char *ops = strdup(ntok > 7 && strcmp(tok[7], "-") != 0 ? tok[7] : "");
    char *save = NULL;
    cx gv[NF] = { 0.1, 0.2 + 0.1 * I, 0.3 };
    vnacal_t *vcp;
    vnacal_new_t *vnp;
    int sfx = 0, first = 1;
    uint64_t d, sd;
    R.enabled = 0;
    rseed((uint64_t)seed + 7);
    vcp = vnacal_create(error_fn, NULL);
    h_scalar = vnacal_make_scalar_parameter(vcp, 0.3 + 0.1 * I);
    h_vector = vnacal_make_vector_parameter(vcp, fvec, NF, gv);
    h_unknown = vnacal_make_unknown_parameter(vcp, h_scalar);
    h_deleted = vnacal_make_scalar_parameter(vcp, 0.7);
    vnacal_delete_parameter(vcp, h_deleted);
    vnp = new_build(vcp, type, rows, cols, nstd, h_scalar);
    if (vnp == NULL) { printf("STATE-ERROR nhist\n"); exit(3); }
    printf("RES %s ans=", id);
    for (char *q = strtok_r(ops, ";", &save); q != NULL; q = strtok_r(NULL, ";", &save)) {
	char fn[40];
	long a[4] = { 0, 0, 0, 0 };
	int n = 0;
	char *save2 = NULL;
	cx s4[4] = { 0.1, 0, 0, -0.2 };
	fn[0] = 0;
	for (char *w = strtok_r(q, ":", &save2); w != NULL; w = strtok_r(NULL, ":", &save2), ++n) {
	    if (n == 0) snprintf(fn, sizeof(fn), "%s", w);
	    else if (n <= 4) a[n - 1] = strtol(w, NULL, 10);
	}
	/* the measurement values do not depend on whether earlier calls were made: no draw from the stream here */
	for (int c = 0; c < 4; ++c) { for (int f = 0; f < NF; ++f) mstore[c][f] = s4[c] + 0.001 * (f + c); mrow[c] = mstore[c]; }
	rec_reset();
	errno = 0;
	strcpy(retbuf, "?");
	if (!strcmp(fn, "pv")) ret_int(vnacal_new_set_pvalue_limit(vnp, (double)a[0] / 1000.0));
	else if (!strcmp(fn, "et")) ret_int(vnacal_new_set_et_tolerance(vnp, (double)a[0] / 1000.0));
	else if (!strcmp(fn, "pt")) ret_int(vnacal_new_set_p_tolerance(vnp, (double)a[0] / 1000.0));
	else if (!strcmp(fn, "it")) ret_int(vnacal_new_set_iteration_limit(vnp, (int)a[0]));
	else if (!strcmp(fn, "z0")) ret_int(vnacal_new_set_z0(vnp, (double)a[0]));
	else if (!strcmp(fn, "sr")) ret_int(vnacal_new_add_single_reflect_m(vnp, mrow, rows, cols, (int)a[0], (int)a[1]));
	else if (!strcmp(fn, "dr")) ret_int(vnacal_new_add_double_reflect_m(vnp, mrow, rows, cols, (int)a[0], (int)a[1], (int)a[2], (int)a[3]));
	else if (!strcmp(fn, "th")) ret_int(vnacal_new_add_through_m(vnp, mrow, rows, cols, (int)a[0], (int)a[1]));
	else if (!strcmp(fn, "solve")) ret_int(vnacal_new_solve(vnp));
	else { printf("\nUNKNOWN-FUNC %s\n", fn); exit(4); }
	{
	    int err = errno;
	    printf("%s%s/%s/%d", first ? "" : ";", retbuf, eclass(err), R.count);
	    first = 0;
	}
    }
    if (first) printf("-");
    R.enabled = 0;
    h_init(); new_digest(vnp); d = H;
    rec_reset();
    rseed((uint64_t)seed + 1007);		/* the suffix draws its measurement noise from a stream of its own */
    for (int k = nstd; sfx == 0; ++k) {
	int rc = std_add(vnp, rows, cols, k, h_scalar);
	if (rc == -2) break;
	if (rc != 0) sfx = 2;
    }
    if (sfx == 0 && vnacal_new_solve(vnp) != 0) sfx = 3;
    R.enabled = 0;
    h_init(); new_digest(vnp); sd = H;
    printf(" d=%016llx sd=%016llx w=%s", (unsigned long long)d, (unsigned long long)sd, wbuf);
    vnacal_new_free(vnp);
    vnacal_free(vcp);
    if (sfx == 0) printf(" sfx=ok\n"); else printf(" sfx=fail:%d smsg=%s\n", sfx, R.msg);
    free(ops);
}

/* =================================================================== vnaproperty family */
static vnaproperty_t *prop_build(int variant)
{
    vnaproperty_t *root = NULL;
    vnaproperty_set(&root, "a=1");
    vnaproperty_set(&root, "b.c=2");
    vnaproperty_set(&root, "b.d=three words");
    vnaproperty_set(&root, "l[0]=x");
    vnaproperty_set(&root, "l[1]=y");
    vnaproperty_set(&root, "l[2].k=z");
    vnaproperty_set(&root, "m.n[0]=q");
    vnaproperty_set(&root, "s=scalar text");
    if (variant & 1) vnaproperty_set(&root, "extra%d=v", variant);
    if (variant & 2) vnaproperty_set(&root, "l[+]=w");
    if (variant & 4) vnaproperty_set(&root, "nul#");
    return root;
}

static void run_prop(void)
{
    /* prop <id> <variant> <func> <str> */
    const char *id = tok[1];
    int variant = (int)A(2);
    const char *fn = tok[3];
    char *str = unhex(ntok > 4 ? tok[4] : "-");
    vnaproperty_t *root = prop_build(variant);
    uint64_t d0, d1;
    int err, sfx = 0, sfxcb;
    h_init(); prop_tree_digest(root); d0 = H;
    rec_reset();
    errno = 0;
    strcpy(retbuf, "?");
    if (!strcmp(fn, "type")) ret_int(vnaproperty_type(root, "%s", str) == -1 ? -1 : 0);
    else if (!strcmp(fn, "count")) ret_int(vnaproperty_count(root, "%s", str) == -1 ? -1 : 0);
    else if (!strcmp(fn, "keys")) { const char **k = vnaproperty_keys(root, "%s", str); ret_ptr(k); free((void *)k); }
    else if (!strcmp(fn, "get")) ret_ptr(vnaproperty_get(root, "%s", str));
    else if (!strcmp(fn, "get_subtree")) ret_ptr(vnaproperty_get_subtree(root, "%s", str));
    else if (!strcmp(fn, "set")) ret_int(vnaproperty_set(&root, "%s", str));
    else if (!strcmp(fn, "delete")) ret_int(vnaproperty_delete(&root, "%s", str));
    else if (!strcmp(fn, "set_subtree")) ret_ptr(vnaproperty_set_subtree(&root, "%s", str));
    else if (!strcmp(fn, "import")) ret_int(vnaproperty_import_yaml_from_string(&root, str, error_fn, NULL));
    else if (!strcmp(fn, "import_silent")) ret_int(vnaproperty_import_yaml_from_string(&root, str, NULL, NULL));
    else {
	printf("UNKNOWN-FUNC %s\n", fn);
	exit(4);
    }
    err = errno;
    R.enabled = 0;
    h_init(); prop_tree_digest(root); d1 = H;
    printf("RES %s ret=%s errno=%s cb=%d warn=%d cats=%s nl=%d ecb=%s d0=%016llx d1=%016llx msg=%s",
	    id, retbuf, eclass(err), R.count, R.warn, R.cats[0] ? R.cats : "-", R.nl,
	    R.count + R.warn ? eclass(R.ecb) : "-", (unsigned long long)d0, (unsigned long long)d1, R.msg);
    rec_reset();
    if (vnaproperty_set(&root, "zz.y[0]=1") != 0) sfx = 1;
    else if (vnaproperty_get(root, "zz.y[0]") == NULL || strcmp(vnaproperty_get(root, "zz.y[0]"), "1") != 0) sfx = 2;
    else if (vnaproperty_count(root, "zz.y") != 1) sfx = 3;
    else if (vnaproperty_delete(&root, "zz") != 0) sfx = 4;
    else if (vnaproperty_type(root, ".") != 'm') sfx = 5;
    else {
	char *buf = NULL; size_t len = 0;
	FILE *fp = open_memstream(&buf, &len);
	if (vnaproperty_export_yaml_to_file(root, fp, "sfx", error_fn, NULL) != 0) sfx = 6;
	fclose(fp); free(buf);
    }
    if (sfx == 0 && vnaproperty_delete(&root, ".") != 0) sfx = 7;
    if (sfx == 0 && root != NULL) sfx = 8;
    sfxcb = R.count + R.warn;
    if (root != NULL) (void)vnaproperty_delete(&root, ".");
    if (sfx == 0) printf(" sfx=ok sfxcb=%d\n", sfxcb);
    else printf(" sfx=fail:%d sfxcb=%d\n", sfx, sfxcb);
    free(str);
}

/* =================================================================== property-set model tie */
static void prop_dump(const vnaproperty_t *node)
{
    /* canonical text of a tree of maps, scalars and nulls (white box: vnaproperty_internal.h):
     * ~ | s<text> | {key:tree,...} in insertion order | [..] for a list */
    if (node == NULL) { printf("~"); return; }
    switch (node->vpr_type) {
    case VNAPROPERTY_SCALAR:
	printf("s%s", ((const vnaproperty_scalar_t *)node)->vps_value);
	return;
    case VNAPROPERTY_MAP:
	{
	    const vnaproperty_map_t *m = (const vnaproperty_map_t *)node;
	    int first = 1;
	    printf("{");
	    for (const vnaproperty_map_element_t *e = m->vpm_order_head; e != NULL; e = e->vme_order_next) {
		if (!first) printf(",");
		first = 0;
		printf("%s:", e->vme_pair.vmpr_key);
		prop_dump(e->vme_pair.vmpr_value);
	    }
	    printf("}");
	}
	return;
    case VNAPROPERTY_LIST:
	{
	    const vnaproperty_list_t *l = (const vnaproperty_list_t *)node;
	    printf("[");
	    for (size_t i = 0; i < l->vpl_length; ++i) { if (i) printf(","); prop_dump(l->vpl_vector[i]); }
	    printf("]");
	}
	return;
    default:
	printf("?");
    }
}

static void run_ptie(void)
{
    /* ptie <id> <set|subtree> <str>: str = descriptors separated by ';', applied in turn to a NULL root with
     * vnaproperty_set (set) / vnaproperty_set_subtree (subtree); reports the last call and the tree after it */
    const char *id = tok[1];
    const char *fn = tok[2];
    char *str = unhex(ntok > 3 ? tok[3] : "-");
    vnaproperty_t *root = NULL;
    int err = 0;
    rec_reset();
    strcpy(retbuf, "?");
    for (char *d = str; d != NULL; ) {
	char *next = strchr(d, ';');
	if (next != NULL) *next++ = 0;
	errno = 0;
	if (!strcmp(fn, "set")) ret_int(vnaproperty_set(&root, "%s", d));
	else ret_ptr(vnaproperty_set_subtree(&root, "%s", d));
	err = errno;
	d = next;
    }
    printf("RES %s ret=%s errno=%s cb=%d warn=%d cats=%s nl=%d ecb=- d0=0 d1=0 tree=", id, retbuf, eclass(err), R.count, R.warn,
	    R.cats[0] ? R.cats : "-", R.nl);
    prop_dump(root);
    printf(" sfx=ok sfxcb=0\n");
    if (root != NULL) (void)vnaproperty_delete(&root, ".");
    free(str);
}

/* =================================================================== errno table */
static void call_verror(vnaerr_error_fn_t *fn, void *arg, vnaerr_category_t cat, const char *format, ...)
{
    va_list ap;
    va_start(ap, format);
    _vnaerr_verror(fn, arg, cat, format, ap);
    va_end(ap);
}

static void run_errno(void)
{
    /* for every category value -1..8, with and without an error function, with two different
     * "system" errno values on entry: errno inside the callback, errno on return, callbacks */
    static const int entry[2] = { ENOENT, ENOMEM };
    vnacal_t *vcp = vnacal_create(error_fn, NULL);
    vnadata_t *vdp = vnadata_alloc(error_fn, NULL);
    for (int cat = -1; cat <= 8; ++cat) {
	for (int k = 0; k < 2; ++k) {
	    for (int with_fn = 0; with_fn < 2; ++with_fn) {
		int e;
		rec_reset();
		errno = entry[k];
		call_verror(with_fn ? error_fn : NULL, NULL, (vnaerr_category_t)cat, "harness: %s %d", "category", cat);
		e = errno;
		printf("ERRNO path=verror cat=%d entry=%s fn=%d ret=%s incb=%s cb=%d nl=%d\n", cat, eclass(entry[k]), with_fn,
			eclass(e), R.count + R.warn ? eclass(R.ecb) : "-", R.count + R.warn, R.nl);
	    }
	    /* the per-object reporters */
	    {
		int e;
		rec_reset();
		errno = entry[k];
		_vnacal_error(vcp, (vnaerr_category_t)cat, "harness: cal %d", cat);
		e = errno;
		printf("ERRNO path=vnacal cat=%d entry=%s fn=1 ret=%s incb=%s cb=%d nl=%d\n", cat, eclass(entry[k]),
			eclass(e), R.count + R.warn ? eclass(R.ecb) : "-", R.count + R.warn, R.nl);
		rec_reset();
		errno = entry[k];
		_vnadata_error(VDP_TO_VDIP(vdp), (vnaerr_category_t)cat, "harness: data %d", cat);
		e = errno;
		printf("ERRNO path=vnadata cat=%d entry=%s fn=1 ret=%s incb=%s cb=%d nl=%d\n", cat, eclass(entry[k]),
			eclass(e), R.count + R.warn ? eclass(R.ecb) : "-", R.count + R.warn, R.nl);
	    }
	}
    }
    vnadata_free(vdp);
    vnacal_free(vcp);
}

/* =================================================================== main */
int main(int argc, char **argv)
{
    static char line[1 << 16];
    setvbuf(stdout, NULL, _IOLBF, 0);
    if (argc >= 2 && strcmp(argv[1], "errno") == 0) {
	run_errno();
	return 0;
    }
    if (argc < 3 || strcmp(argv[1], "run") != 0) {
	fprintf(stderr, "usage: err_harness errno | run <tmpdir> < script\n");
	return 2;
    }
    tmpdir = argv[2];
    while (fgets(line, sizeof(line), stdin) != NULL) {
	ntok = 0;
	for (char *p = strtok(line, " \t\r\n"); p != NULL && ntok < MAXTOK; p = strtok(NULL, " \t\r\n"))
	    tok[ntok++] = p;
	if (ntok < 3)
	    continue;
	printf("BEGIN %s\n", tok[1]);
	if (!strcmp(tok[0], "data")) run_data();
	else if (!strcmp(tok[0], "cal")) run_cal();
	else if (!strcmp(tok[0], "new")) run_new();
	else if (!strcmp(tok[0], "prop")) run_prop();
	else if (!strcmp(tok[0], "ptie")) run_ptie();
	else if (!strcmp(tok[0], "dhist")) run_dhist();
	else if (!strcmp(tok[0], "nhist")) run_nhist();
	else { printf("UNKNOWN-FAMILY %s\n", tok[0]); return 4; }
    }
    return 0;
}
