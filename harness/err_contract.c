/*
 * C11: tie of the generated contracts (coq/Gen/ContractGen.v run by coq/Err/New2Base.v) to the library.
 *
 *   err_contract run <tmpdir> < script
 *
 * One call per line with EXPLICIT argument values (the catalogue of err_harness.c codes its arguments
 * as modes); builders, digests and the recording error function are those of err_harness.c.
 *
 *   ct <id> <func> <h> <a1> ... <a14>
 *     h: 0 the object, 1 NULL, 2 a pointer to zeroed memory (wrong magic number)
 *   new_alloc t r c f                       set_z0
 *   set_dbl <which 0 pvalue 1 p_tol 2 et_tol> <num> <den> (den 0 = NaN)      set_iter n
 *   set_fv <fvalid state 0/1> <null> f0 f1 f2   (MHz; -999999 = NaN)
 *   set_m_error <fvalid> n <fv 0 null 1 given> g0 g1 <nf 0 null 1 given> s0 s1 <tr 0 null 1 given> t0 t1   (MHz, 1/1000)
 *   solve <fvalid>                           add_calibration <mode 0 solved 1 unsolved 2 vnp NULL 3 other vcp 4 vnp wrong magic>
 *   precision <f|d: 0/1> p                   get <getter 0..8> ncal holes ci          prop <fn 0..7> ncal holes ci
 *   apply ncal holes ci <m:0 apply_m 1 apply> fvnull n f0 f1 bnull brows bcols bcellnull <a: 0 none 1 given> arows acols acellnull outnull
 *
 * Output: BEGIN <id> / RES <id> ret= errno= cb= cats= ecb= nl= d0= d1= [tab=<type:rows:cols:freqs|->,...]
 */
#define main err_harness_main
#include "err_harness.c"
#undef main

static char junk[8192] __attribute__((aligned(16)));

static void print_tab(const vnacal_t *vcp)
{
    printf(" tab=");
    if (vcp->vc_calibration_allocation == 0) printf("empty");
    for (int i = 0; i < vcp->vc_calibration_allocation; ++i) {
	const vnacal_calibration_t *c = vcp->vc_calibration_vector[i];
	if (i) printf(",");
	if (c == NULL) printf("-");
	else printf("%d:%d:%d:%d", (int)c->cal_type, c->cal_rows, c->cal_columns, c->cal_frequencies);
    }
}

/* -999999 = NaN, -999998 = +infinity, -999997 = -infinity */
static double special(long v, double scale)
{
    return v == -999999 ? NAN : v == -999998 ? INFINITY : v == -999997 ? -INFINITY : scale * (double)v;
}
static double mhz(long v) { return special(v, 1.0e6); }

static void run_ct(void)
{
    const char *id = tok[1], *fn = tok[2];
    int h = (int)A(3);
    long a[16];
    vnacal_t *vcp = NULL, *vcp_other = NULL, *qv;
    vnacal_new_t *vnp = NULL, *qn, *made = NULL;
    vnadata_t *sp = NULL;
    uint64_t d0, d1;
    int err, is_cal = 0;

    for (int i = 0; i < 16; ++i) a[i] = A(4 + i);
    R.enabled = 0;
    rseed(12345);
    if (!strcmp(fn, "get") || !strcmp(fn, "prop") || !strcmp(fn, "apply")) {
	/* ncal >= 10: ncal % 10 calibrations plus one WITHOUT frequency points ("zf", solved from a vnacal_new_t with 0 frequencies) */
	int nc = (int)a[!strcmp(fn, "apply") ? 0 : 1];
	vcp = cal_build(nc % 10, (int)a[!strcmp(fn, "apply") ? 1 : 2], 77);
	is_cal = 1;
	if (nc >= 10) {
	    vnacal_new_t *z = vnacal_new_alloc(vcp, VNACAL_T8, 1, 1, 0);
	    R.enabled = 0;
	    if (z == NULL || vnacal_new_set_frequency_vector(z, fvec) != 0 || std_add(z, 1, 1, 0, h_scalar) != 0 ||
		    std_add(z, 1, 1, 1, h_scalar) != 0 || std_add(z, 1, 1, 2, h_scalar) != 0 || vnacal_new_solve(z) != 0 ||
		    vnacal_add_calibration(vcp, "zf", z) < 0 ||
		    vnacal_property_set(vcp, vnacal_find_calibration(vcp, "zf"), "label=zf") != 0) {
		printf("STATE-ERROR zero-frequency calibration %s\n", R.msg); exit(3);
	    }
	    vnacal_new_free(z);
	}
    } else {
	cx gv[NF] = { 0.1, 0.2 + 0.1 * I, 0.3 };
	vcp = vnacal_create(error_fn, NULL);
	h_scalar = vnacal_make_scalar_parameter(vcp, 0.3 + 0.1 * I);
	h_vector = vnacal_make_vector_parameter(vcp, fvec, NF, gv);
	h_unknown = vnacal_make_unknown_parameter(vcp, h_scalar);
	h_deleted = vnacal_make_scalar_parameter(vcp, 0.7);
	vnacal_delete_parameter(vcp, h_deleted);
	if (!strcmp(fn, "add_calibration")) {
	    switch (a[0]) {
	    case 0: vnp = new_build(vcp, VNACAL_T8, 1, 1, 4, h_scalar);
		    if (vnp == NULL || vnacal_new_solve(vnp) != 0) { printf("STATE-ERROR add\n"); exit(3); } break;
	    case 1: vnp = new_build(vcp, VNACAL_T8, 1, 1, 2, h_scalar); break;
	    case 3: vcp_other = vnacal_create(error_fn, NULL);
		    vnp = new_build(vcp_other, VNACAL_T8, 1, 1, 3, 0);
		    if (vnp == NULL || vnacal_new_solve(vnp) != 0) { printf("STATE-ERROR add3\n"); exit(3); } break;
	    default: break;
	    }
	} else if (strcmp(fn, "new_alloc") && strcmp(fn, "precision")) {
	    /* state of the vnacal_new_t: 0 allocated only (no frequency vector), 1 T8 2x2 with frequency vector and two standards,
	     * 3 (set_fv) as 1 and a measurement error model set
	     * 2 (set_fv) allocated, a double reflect of the VECTOR parameter (1..3 GHz) added, no frequency vector yet
	     *   (set_m_error) T16 2x2 with frequency vector and a single reflect standard: S matrix incomplete
	     * 3 (set_m_error) T16 2x2 with frequency vector and a double reflect standard: S matrix complete */
	    int st = (!strcmp(fn, "set_fv") || !strcmp(fn, "set_m_error") || !strcmp(fn, "solve")) ? (int)a[0] : 1;
	    cx sv[4] = { 0.2, 0, 0, 0.2 };
	    if (st == 1) vnp = new_build(vcp, VNACAL_T8, 2, 2, 2, h_scalar);
	    else if (st == 0) vnp = vnacal_new_alloc(vcp, VNACAL_T8, 2, 2, NF);
	    else if (!strcmp(fn, "set_fv") && st == 3) {
		/* frequency vector 1, 2, 3 GHz in force and a measurement error model set */
		double nf1[1] = { 1.0e-3 };
		vnp = new_build(vcp, VNACAL_T8, 2, 2, 2, h_scalar);
		if (vnp == NULL || vnacal_new_set_m_error(vnp, NULL, 1, nf1, NULL) != 0) {
		    printf("STATE-ERROR error model %s\n", R.msg); exit(3);
		}
	    } else if (!strcmp(fn, "set_fv")) {
		vnp = vnacal_new_alloc(vcp, VNACAL_T8, 2, 2, NF);
		fill_m(sv, 2, 2);
		if (vnp == NULL || vnacal_new_add_double_reflect_m(vnp, mrow, 2, 2, h_vector, h_vector, 1, 2) != 0) {
		    printf("STATE-ERROR vector standard %s\n", R.msg); exit(3);
		}
	    } else {
		vnp = vnacal_new_alloc(vcp, VNACAL_T16, 2, 2, NF);
		fill_m(sv, 2, 2);
		if (vnp == NULL || vnacal_new_set_frequency_vector(vnp, fvec) != 0 ||
			(st == 2 ? vnacal_new_add_single_reflect_m(vnp, mrow, 2, 2, VNACAL_SHORT, 1)
			         : vnacal_new_add_double_reflect_m(vnp, mrow, 2, 2, VNACAL_SHORT, VNACAL_OPEN, 1, 2)) != 0) {
		    printf("STATE-ERROR T16 standard %s\n", R.msg); exit(3);
		}
	    }
	    if (vnp == NULL) { printf("STATE-ERROR new\n"); exit(3); }
	}
    }
    qv = h == 0 ? vcp : h == 1 ? NULL : (vnacal_t *)junk;
    qn = h == 0 ? vnp : h == 1 ? NULL : (vnacal_new_t *)junk;
    if (!strcmp(fn, "apply")) sp = vnadata_alloc(error_fn, NULL);
    h_init(); cal_digest(vcp, 0); if (vnp != NULL && vcp_other == NULL) new_digest(vnp); d0 = H;
    R.enabled = 1;
    rec_reset();
    errno = 0;
    strcpy(retbuf, "?");
    if (!strcmp(fn, "new_alloc")) {
	made = vnacal_new_alloc(qv, (vnacal_type_t)a[0], (int)a[1], (int)a[2], (int)a[3]);
	ret_ptr(made);
    } else if (!strcmp(fn, "set_z0")) ret_int(vnacal_new_set_z0(qn, 75.0));
    else if (!strcmp(fn, "set_dbl")) {
	double x = a[2] == 0 ? NAN : (double)a[1] / (double)a[2];
	ret_int(a[0] == 0 ? vnacal_new_set_pvalue_limit(qn, x) : a[0] == 1 ? vnacal_new_set_p_tolerance(qn, x) :
		vnacal_new_set_et_tolerance(qn, x));
    } else if (!strcmp(fn, "set_iter")) ret_int(vnacal_new_set_iteration_limit(qn, (int)a[0]));
    else if (!strcmp(fn, "set_fv")) {
	double fv[NF] = { mhz(a[2]), mhz(a[3]), mhz(a[4]) };
	ret_int(vnacal_new_set_frequency_vector(qn, a[1] ? NULL : fv));
    } else if (!strcmp(fn, "set_m_error")) {
	/* frequency_vector: the third entry is the second + 1000 MHz (or the same special value) */
	double fv[3] = { mhz(a[3]), mhz(a[4]), (a[4] <= -999997 && a[4] >= -999999) ? mhz(a[4]) : mhz(a[4] + 1000) };
	double nf[3] = { special(a[6], 1e-3), special(a[7], 1e-3), special(a[7], 1e-3) };
	double tr[3] = { special(a[9], 1e-3), special(a[10], 1e-3), special(a[10], 1e-3) };
	ret_int(vnacal_new_set_m_error(qn, a[2] ? fv : NULL, (int)a[1], a[5] ? nf : NULL, a[8] ? tr : NULL));
    } else if (!strcmp(fn, "solve")) ret_int(vnacal_new_solve(qn));
    else if (!strcmp(fn, "add_calibration")) {
	int ci = vnacal_add_calibration(qv, "nw", a[0] == 2 ? NULL : a[0] == 4 ? (vnacal_new_t *)junk : vnp);
	ret_int(ci < 0 ? -1 : 0);
    } else if (!strcmp(fn, "precision")) ret_int(a[0] ? vnacal_set_dprecision(qv, (int)a[1]) : vnacal_set_fprecision(qv, (int)a[1]));
    else if (!strcmp(fn, "get")) {
	int ci = (int)a[3];
	switch (a[0]) {
	case 0: ret_ptr(vnacal_get_name(qv, ci)); break;
	case 1: ret_int((int)vnacal_get_type(qv, ci) == -1 ? -1 : 0); break;
	case 2: ret_int(vnacal_get_rows(qv, ci) == -1 ? -1 : 0); break;
	case 3: ret_int(vnacal_get_columns(qv, ci) == -1 ? -1 : 0); break;
	case 4: ret_int(vnacal_get_frequencies(qv, ci) == -1 ? -1 : 0); break;
	case 5: ret_dbl(vnacal_get_fmin(qv, ci)); break;
	case 6: ret_dbl(vnacal_get_fmax(qv, ci)); break;
	case 7: ret_ptr(vnacal_get_frequency_vector(qv, ci)); break;
	default: ret_cx(vnacal_get_z0(qv, ci)); break;
	}
    } else if (!strcmp(fn, "prop")) {
	int ci = (int)a[3];
	switch (a[0]) {
	case 0: ret_int(vnacal_property_type(qv, ci, ".") == -1 ? -1 : 0); break;
	case 1: ret_int(vnacal_property_count(qv, ci, ".") == -1 ? -1 : 0); break;
	case 2: { const char **k = vnacal_property_keys(qv, ci, "."); ret_ptr(k); free((void *)k); } break;
	case 3: ret_ptr(vnacal_property_get(qv, ci, ci == -1 ? "instrument.model" : "label")); break;
	case 4: ret_int(vnacal_property_set(qv, ci, "tie=1")); break;
	case 5: ret_int(vnacal_property_delete(qv, ci, ci == -1 ? "instrument.ports" : "label")); break;
	case 6: ret_ptr(vnacal_property_get_subtree(qv, ci, ".")); break;
	default: ret_ptr(vnacal_property_set_subtree(qv, ci, "sub")); break;
	}
    } else if (!strcmp(fn, "apply")) {
	/* a: 0 ncal 1 holes 2 ci 3 variant 4 fvnull 5 n 6 f0 7 f1 8 bnull 9 brows 10 bcols 11 bcellnull 12 a given 13 arows 14 acols 15 acellnull; outnull = h >> 4 */
	double fv[2] = { mhz(a[6]), mhz(a[7]) };
	static cx cell[16][2];
	cx *b[16], *am[16];
	for (int i = 0; i < 16; ++i) {
	    cell[i][0] = 0.1 + 0.01 * i; cell[i][1] = 0.2 - 0.01 * i * I;
	    b[i] = cell[i]; am[i] = cell[(i * 5 + 3) % 16];
	}
	for (int i = 0; i < 4; ++i) { am[i * 5 % 16] = cell[i]; }
	if (a[11]) b[0] = NULL;
	if (a[15]) am[0] = NULL;
	if (a[3] == 0)
	    ret_int(vnacal_apply_m(qv, (int)a[2], a[4] ? NULL : fv, (int)a[5], a[8] ? NULL : b, (int)a[9], (int)a[10],
			(A(20) ? NULL : sp)));
	else
	    ret_int(vnacal_apply(qv, (int)a[2], a[4] ? NULL : fv, (int)a[5], a[12] ? am : NULL, (int)a[13], (int)a[14],
			a[8] ? NULL : b, (int)a[9], (int)a[10], (A(20) ? NULL : sp)));
    } else if (!strcmp(fn, "make_vector")) {
	/* vnacal_make_vector_parameter with three frequencies (MHz) */
	double pf[3] = { mhz(a[0]), mhz(a[1]), mhz(a[2]) };
	cx gv3[3] = { 0.1, 0.2, 0.3 };
	ret_int(vnacal_make_vector_parameter(qv, pf, 3, gv3) < 0 ? -1 : 0);
    } else if (!strcmp(fn, "make_corr")) {
	/* vnacal_make_correlated_parameter of the scalar parameter: two sigma frequencies (MHz), two sigma values (1/1000) */
	double sf[2] = { mhz(a[0]), mhz(a[1]) };
	double sg[2] = { special(a[2], 1e-3), special(a[3], 1e-3) };
	ret_int(vnacal_make_correlated_parameter(qv, h_scalar, sf, 2, sg) < 0 ? -1 : 0);
    } else if (!strcmp(fn, "get_pv")) {
	ret_cx(vnacal_get_parameter_value(qv, h_vector, mhz(a[0])));
    } else if (!strcmp(fn, "nan_down")) {
	/* what a NaN handed to a scalar setter does later: a[0] = 0 p-value limit, 1 p tolerance, 2 et tolerance, 3 none
	 * (base line); T8 2x2, five standards plus a double reflect of an unknown parameter (iterative solver), measurement
	 * error model with sigma far below the noise the harness puts on the measurements (the p-value test must reject) */
	double nf[1] = { 1.0e-6 };
	cx s[4] = { 0.3 + 0.1 * I, 0, 0, 0.3 + 0.1 * I };
	int rc1 = 0, rc2, rc3;
	vnacal_new_free(vnp);
	vnp = new_build(vcp, VNACAL_T8, 2, 2, 5, h_scalar);
	fill_m(s, 2, 2);
	rc2 = vnacal_new_add_double_reflect_m(vnp, mrow, 2, 2, h_unknown, h_unknown, 1, 2);
	rc3 = vnacal_new_set_m_error(vnp, NULL, 1, nf, NULL);
	if (a[0] == 0) rc1 = vnacal_new_set_pvalue_limit(vnp, NAN);
	else if (a[0] == 1) rc1 = vnacal_new_set_p_tolerance(vnp, NAN);
	else if (a[0] == 2) rc1 = vnacal_new_set_et_tolerance(vnp, NAN);
	rec_reset();
	errno = 0;
	ret_int(vnacal_new_solve(vnp));
	printf("NOTE %s setter=%d add=%d m_error=%d\n", id, rc1, rc2, rc3);
    } else {
	printf("UNKNOWN-FUNC %s\n", fn);
	exit(4);
    }
    err = errno;
    R.enabled = 0;
    h_init(); cal_digest(vcp, 0); if (vnp != NULL && vcp_other == NULL) new_digest(vnp); d1 = H;
    printf("RES %s ret=%s errno=%s cb=%d warn=%d cats=%s nl=%d ecb=%s d0=%016llx d1=%016llx msg=%s",
	    id, retbuf, eclass(err), R.count, R.warn, R.cats[0] ? R.cats : "-", R.nl,
	    R.count + R.warn ? eclass(R.ecb) : "-", (unsigned long long)d0, (unsigned long long)d1, R.msg);
    if (is_cal) print_tab(vcp);
    printf("\n");
    if (made != NULL) vnacal_new_free(made);
    if (sp != NULL) vnadata_free(sp);
    if (vnp != NULL) vnacal_new_free(vnp);
    if (vcp_other != NULL) vnacal_free(vcp_other);
    vnacal_free(vcp);
}

int main(int argc, char **argv)
{
    static char line[1 << 14];
    setvbuf(stdout, NULL, _IOLBF, 0);
    if (argc < 3 || strcmp(argv[1], "run") != 0) {
	fprintf(stderr, "usage: err_contract run <tmpdir> < script\n");
	return 2;
    }
    tmpdir = argv[2];
    while (fgets(line, sizeof(line), stdin) != NULL) {
	ntok = 0;
	for (char *p = strtok(line, " \t\r\n"); p != NULL && ntok < MAXTOK; p = strtok(NULL, " \t\r\n"))
	    tok[ntok++] = p;
	if (ntok < 3)
	    continue;
	printf("BEGIN %s\n", tok[1]);
	if (!strcmp(tok[0], "ct")) run_ct();
	else { printf("UNKNOWN-FAMILY %s\n", tok[0]); return 4; }
    }
    return 0;
}
