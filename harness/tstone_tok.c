/*
 * White-box harness for the byte-level models of the network-data loaders (C08 / C09, agent tstone):
 * includes vnadata_load_touchstone.c and vnadata_load_npd.c to reach the static tokenizer
 * (next_char / next_token) and the static NPD line scanner (scan_line), runs them over a byte string
 * exactly as the loaders set them up, and dumps what they return.
 *
 * One command per line, one output line per command:
 *   tok FLAGS HEX|-   next_token(FLAGS) (1 F_NOCONV, 2 F_INT, 4 F_EOL) until T_EOF or -1:
 *                       TOKS tok tok ...   with tok one of
 *                       KW:<name> OP:<name> OPTION WORD:<hex> INT:<decimal> DBL:<%a> EOL EOF
 *                       ERR:brace ERR:keyword ERR:char:<hh> ERR:other
 *                     and finally ALLOC:<tps_text_allocation>
 *   npd HEX|-         scan_line until T_EOF or -1:
 *                       LINES rec;rec;...  with rec = <record type name>:<hex field>,<hex field>,...
 *                       (each field as the bytes between its start and its terminating NUL in nss_text;
 *                       an empty field is "-") and a final EOF or ERR
 * A call that runs longer than VERIF_ALARM seconds (default 5) prints HANG and exits with 95.
 */
#include <signal.h>
#include <unistd.h>

#define add_char ts_add_char
#define convert_int ts_convert_int
#define convert_double ts_convert_double
#include "vnadata_load_touchstone.c"
#undef add_char
#undef convert_int
#undef convert_double

static char lastmsg[400];
static int nerr;

static void error_fn(const char *message, void *arg, vnaerr_category_t category)
{
    (void)arg;
    if (category != VNAERR_WARNING)
	++nerr;
    snprintf(lastmsg, sizeof(lastmsg), "%s", message);
}

static void on_alarm(int sig)
{
    static const char msg[] = "HANG\n";
    (void)sig;
    fflush(stdout);
    if (write(1, msg, sizeof(msg) - 1) < 0) { }
    _exit(95);
}

static int hexv(int c) { return c <= '9' ? c - '0' : (c | 32) - 'a' + 10; }

static const char *kwname(ts_token_t t)
{
    switch (t) {
    case T_KW_BEGIN_INFORMATION: return "KW:BEGIN_INFORMATION";
    case T_KW_END_INFORMATION: return "KW:END_INFORMATION";
    case T_KW_MATRIX_FORMAT: return "KW:MATRIX_FORMAT";
    case T_KW_MIXED_MODE_ORDER: return "KW:MIXED_MODE_ORDER";
    case T_KW_NETWORK_DATA: return "KW:NETWORK_DATA";
    case T_KW_NOISE_DATA: return "KW:NOISE_DATA";
    case T_KW_NUMBER_OF_FREQUENCIES: return "KW:NUMBER_OF_FREQUENCIES";
    case T_KW_NUMBER_OF_NOISE_FREQUENCIES: return "KW:NUMBER_OF_NOISE_FREQUENCIES";
    case T_KW_NUMBER_OF_PORTS: return "KW:NUMBER_OF_PORTS";
    case T_KW_REFERENCE: return "KW:REFERENCE";
    case T_KW_TWO_PORT_ORDER: return "KW:TWO_PORT_ORDER";
    case T_KW_VERSION: return "KW:VERSION";
    case T_KW_END: return "KW:END";
    case T_OP_HZ: return "OP:HZ";
    case T_OP_KHZ: return "OP:KHZ";
    case T_OP_MHZ: return "OP:MHZ";
    case T_OP_GHZ: return "OP:GHZ";
    case T_OP_THZ: return "OP:THZ";
    case T_OP_S: return "OP:S";
    case T_OP_Y: return "OP:Y";
    case T_OP_Z: return "OP:Z";
    case T_OP_H: return "OP:H";
    case T_OP_G: return "OP:G";
    case T_OP_DB: return "OP:DB";
    case T_OP_MA: return "OP:MA";
    case T_OP_RI: return "OP:RI";
    case T_OP_R: return "OP:R";
    case T_OPTION: return "OPTION";
    case T_EOL: return "EOL";
    case T_EOF: return "EOF";
    default: return NULL;
    }
}

static void puthex(const char *p, size_t n)
{
    if (n == 0) { putchar('-'); return; }
    for (size_t i = 0; i < n; ++i) printf("%02x", (unsigned char)p[i]);
}

static void run_tok(vnadata_t *vdp, FILE *fp, unsigned flags)
{
    ts_parser_state_t tps;

    /* as _vnadata_load_touchstone initialises it */
    (void)memset((void *)&tps, 0, sizeof(tps));
    tps.tps_vdip = VDP_TO_VDIP(vdp);
    tps.tps_fp = fp;
    tps.tps_filename = "x";
    tps.tps_line = 1;
    tps.tps_char = '\000';
    tps.tps_in_option_line = false;
    tps.tps_token = T_EOL;
    tps.tps_frequency_multiplier = 1.0e+9;
    tps.tps_parameter_type = VPT_S;
    tps.tps_data_format = 'M';
    tps.tps_z0 = 50.0;
    tps.tps_ports = -1;
    tps.tps_text = malloc(VNADATA_LOAD_INITIAL_TEXT_ALLOCATION);
    tps.tps_text_allocation = VNADATA_LOAD_INITIAL_TEXT_ALLOCATION;
    next_char(&tps);
    printf("TOKS");
    for (;;) {
	int rc;
	const char *name;

	lastmsg[0] = 0;
	rc = next_token(&tps, flags);
	if (rc == -1 || tps.tps_token == T_ERROR) {
	    if (strstr(lastmsg, "missing closing brace") != NULL) printf(" ERR:brace");
	    else if (strstr(lastmsg, "unknown keyword") != NULL) printf(" ERR:keyword");
	    else if (strstr(lastmsg, "unexpected character '\\x") != NULL) {
		printf(" ERR:char:%.2s", strstr(lastmsg, "'\\x") + 3);
	    } else if (strstr(lastmsg, "unexpected character '") != NULL) {
		printf(" ERR:char:%02x", (unsigned char)strstr(lastmsg, "character '")[11]);
	    } else printf(" ERR:other");
	    if (rc != -1) printf("(rc=%d)", rc);
	    if (tps.tps_token != T_ERROR) printf("(token=%d)", (int)tps.tps_token);
	    break;
	}
	name = kwname(tps.tps_token);
	if (name != NULL) {
	    printf(" %s", name);
	} else if (tps.tps_token == T_WORD) {
	    printf(" WORD:");
	    puthex(tps.tps_text, tps.tps_text_length);
	} else if (tps.tps_token == T_INT) {
	    printf(" INT:%d", tps.u.tps_int);
	} else if (tps.tps_token == T_DOUBLE) {
	    printf(" DBL:%a", tps.u.tps_double);
	} else {
	    printf(" ?%d", (int)tps.tps_token);
	}
	if (tps.tps_token == T_EOF)
	    break;
    }
    printf(" ALLOC:%zu\n", tps.tps_text_allocation);
    free(tps.tps_text);
    free(tps.tps_value_vector);
}

extern void run_npd(vnadata_t *vdp, FILE *fp);

int main(void)
{
    char *line = NULL;
    size_t cap = 0;
    ssize_t n;
    int alarm_seconds = 5;
    vnadata_t *vdp = vnadata_alloc(error_fn, NULL);

    if (getenv("VERIF_ALARM") != NULL) alarm_seconds = atoi(getenv("VERIF_ALARM"));
    signal(SIGALRM, on_alarm);
    while ((n = getline(&line, &cap, stdin)) > 0) {
	char *op = strtok(line, " \t\r\n");
	char *a1, *hex;
	char *buf = NULL;
	size_t len = 0;
	unsigned flags = 0;
	FILE *fp;

	if (op == NULL || op[0] == '#') continue;
	if (strcmp(op, "case") == 0) {
	    char *id = strtok(NULL, " \t\r\n");
	    printf("CASE %s\n", id ? id : "?");
	    fflush(stdout);
	    continue;
	}
	if (strcmp(op, "tok") == 0) {
	    a1 = strtok(NULL, " \t\r\n");
	    flags = a1 ? (unsigned)strtoul(a1, NULL, 0) : 0;
	} else if (strcmp(op, "npd") != 0) {
	    fprintf(stderr, "harness: unknown op %s\n", op);
	    return 3;
	}
	hex = strtok(NULL, " \t\r\n");
	if (hex != NULL && strcmp(hex, "-") != 0) {
	    len = strlen(hex) / 2;
	    buf = malloc(len + 1);
	    for (size_t i = 0; i < len; ++i)
		buf[i] = (char)(hexv(hex[2 * i]) * 16 + hexv(hex[2 * i + 1]));
	}
	fp = len ? fmemopen(buf, len, "r") : fopen("/dev/null", "r");
	if (fp == NULL) { fprintf(stderr, "harness: fmemopen failed\n"); return 3; }
	alarm(alarm_seconds);
	if (op[0] == 't') run_tok(vdp, fp, flags); else run_npd(vdp, fp);
	alarm(0);
	fclose(fp);
	free(buf);
	fflush(stdout);
    }
    vnadata_free(vdp);
    free(line);
    return 0;
}
