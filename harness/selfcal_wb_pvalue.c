/*
 * Compiles src/vnacal_new_solve_pvalue.c from the working tree, unmodified, with exp() routed
 * through a tap of selfcal_harness.c: for an even number of degrees of freedom chisq_pvalue
 * evaluates exp(-chisq / 2), which together with the returned p-value determines the number
 * of degrees of freedom the library used.
 */
#define _GNU_SOURCE
#include <math.h>
#include <complex.h>
double wb_exp(double x);
#define exp wb_exp
#include "vnacal_new_solve_pvalue.c"
