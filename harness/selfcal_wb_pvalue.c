/*
 * Compiles src/vnacal_new_solve_pvalue.c from the working tree, unmodified, with exp() routed
 * through a tap of selfcal_harness.c: for an even number of degrees of freedom chisq_pvalue
 * evaluates exp(-chisq / 2), which together with the returned p-value determines the number
 * of degrees of freedom the library used.
 */
#define _GNU_SOURCE
#include <math.h>
#include <complex.h>
double wb_exp(double x);
#define exp wb_exp
/* the function itself is renamed: the library's callers reach it through the tap
   _vnacal_new_solve_calc_pvalue of selfcal_harness.c, which prints the inputs of the
   degrees-of-freedom count from the solve state and then calls it unchanged */
#define _vnacal_new_solve_calc_pvalue wb_real_calc_pvalue
#include "vnacal_new_solve_pvalue.c"
