(* MODELS: tstone *)
(* Driver for the extracted byte-level models Files/TsTok.v, Files/TsParse.v, Files/NpdLoad.v.
   One command per line (the formats of harness/tstone_tok.c, numbers as exact rationals):
     tok FLAGS HEX|-  -> TOKS tok ...      (DBL:<num>/<den> | DBL:inf | DBL:-inf | DBL:nan)
     npd HEX|-        -> LINES rec;...;EOF|ERR
     ts HEX|-         -> ERR <class>  |  OK <1|2> <type> <fmt> <ports> | F x .. | Z x .. | D a b s ..
     nl HEX|-         -> ERR <class>  |  OK <type> <form> <rows> <cols> <fprec|-> <dprec|-> <z0 0|1> <fz0 0|1> | F x .. | Z re im .. | P re im .. | D a b ..
   Glue (trusted): conversions between OCaml ints / Zarith and the extracted N, Z, positive, Qc. *)
module ZZ = Z
module M = Models_tstone
let rec pos_of_int (x : int) : M.positive =
  if x = 1 then M.XH else if x land 1 = 0 then M.XO (pos_of_int (x lsr 1)) else M.XI (pos_of_int (x lsr 1))
let n_of_int (x : int) : M.n = if x = 0 then M.N0 else M.Npos (pos_of_int x)
let rec z_of_pos = function
  | M.XH -> ZZ.one
  | M.XO p -> ZZ.shift_left (z_of_pos p) 1
  | M.XI p -> ZZ.succ (ZZ.shift_left (z_of_pos p) 1)
let z_of_coqz = function M.Z0 -> ZZ.zero | M.Zpos p -> z_of_pos p | M.Zneg p -> ZZ.neg (z_of_pos p)
let int_of_n = function M.N0 -> 0 | M.Npos p -> ZZ.to_int (z_of_pos p)
let rec int_of_nat = function M.O -> 0 | M.S n -> 1 + int_of_nat n
let bytes_of_hex (h : string) : M.n list =
  if h = "-" then [] else
  List.init (String.length h / 2) (fun i -> n_of_int (int_of_string ("0x" ^ String.sub h (2 * i) 2)))
let hex_of_bytes (l : M.n list) : string =
  if l = [] then "-" else String.concat "" (List.map (fun c -> Printf.sprintf "%02x" (int_of_n c)) l)
let string_of_qc (q : M.qc) : string =
  ZZ.to_string (z_of_coqz q.M.this.M.qnum) ^ "/" ^ ZZ.to_string (z_of_pos q.M.this.M.qden)
let string_of_x = function
  | M.XQ q -> string_of_qc q
  | M.XInf neg -> if neg then "-inf" else "inf"
  | M.XNaN -> "nan"
let kwname = function
  | M.KBeginInformation -> "BEGIN_INFORMATION" | M.KEndInformation -> "END_INFORMATION" | M.KMatrixFormat -> "MATRIX_FORMAT"
  | M.KMixedModeOrder -> "MIXED_MODE_ORDER" | M.KNetworkData -> "NETWORK_DATA" | M.KNoiseData -> "NOISE_DATA"
  | M.KNumberOfFrequencies -> "NUMBER_OF_FREQUENCIES" | M.KNumberOfNoiseFrequencies -> "NUMBER_OF_NOISE_FREQUENCIES"
  | M.KNumberOfPorts -> "NUMBER_OF_PORTS" | M.KReference -> "REFERENCE" | M.KTwoPortOrder -> "TWO_PORT_ORDER"
  | M.KVersion -> "VERSION" | M.KEnd -> "END"
let opname = function
  | M.OHz -> "HZ" | M.OKHz -> "KHZ" | M.OMHz -> "MHZ" | M.OGHz -> "GHZ" | M.OTHz -> "THZ" | M.OS -> "S" | M.OY -> "Y"
  | M.OZ -> "Z" | M.OH -> "H" | M.OG -> "G" | M.ODB -> "DB" | M.OMA -> "MA" | M.ORI -> "RI" | M.OR -> "R"
let errname (raw : M.rtok list) : string =
  (* the error token that ended the raw stream *)
  let rec last = function [] -> "other" | [M.RErr e] -> (match e with
      | M.EBrace _ -> "brace" | M.EKeyword _ -> "keyword" | M.EChar c -> Printf.sprintf "char:%02x" (int_of_n c))
    | _ :: r -> last r in
  last raw
let string_of_token raw = function
  | M.TKw k -> "KW:" ^ kwname k
  | M.TOp o -> "OP:" ^ opname o
  | M.TOption -> "OPTION"
  | M.TWord w -> "WORD:" ^ hex_of_bytes w
  | M.TInt z -> "INT:" ^ ZZ.to_string (z_of_coqz z)
  | M.TDouble x -> "DBL:" ^ string_of_x x
  | M.TEol -> "EOL"
  | M.TEof -> "EOF"
  | M.TError -> "ERR:" ^ errname raw
let ptname = function M.PS -> "S" | M.PY -> "Y" | M.PZ -> "Z" | M.PH -> "H" | M.PG -> "G"
let fmtname = function M.FDB -> "DB" | M.FMA -> "MA" | M.FRI -> "RI"
let eclass = function M.EBADMSG -> "EBADMSG" | M.ENOPROTOOPT -> "ENOPROTOOPT" | M.EINVAL -> "EINVAL" | M.EINTERNAL -> "EINTERNAL"
let nptname = function
  | M.PUNDEF -> "UNDEF" | M.PS0 -> "S" | M.PT -> "T" | M.PU -> "U" | M.PZ0 -> "Z" | M.PY0 -> "Y" | M.PH0 -> "H" | M.PG0 -> "G"
  | M.PA -> "A" | M.PB -> "B" | M.PZIN -> "ZIN"
let formname = function
  | M.DB -> "DB" | M.MA -> "MA" | M.RI -> "RI" | M.PRC -> "PRC" | M.PRL -> "PRL" | M.SRC -> "SRC" | M.SRL -> "SRL"
  | M.IL -> "IL" | M.RL -> "RL" | M.VSWR -> "VSWR"
let nkeyname = function
  | M.NKVersion -> "version" | M.NKRows -> "rows" | M.NKColumns -> "columns" | M.NKPorts -> "ports"
  | M.NKFrequencies -> "frequencies" | M.NKParameters -> "parameters" | M.NKFprecision -> "fprecision"
  | M.NKDprecision -> "dprecision" | M.NKZ0 -> "z0"
let optz = function None -> "-" | Some z -> ZZ.to_string (z_of_coqz z)
let pairs l = String.concat " " (List.map (fun (a, b) -> string_of_x a ^ " " ^ string_of_x b) l)
let () =
  try
    while true do
      let line = input_line stdin in
      let t = List.filter (fun s -> s <> "") (String.split_on_char ' ' (String.trim line)) in
      (match t with
       | ["case"; id] -> print_string ("CASE " ^ id)
       | ["tok"; fl; hex] ->
         let f = int_of_string fl in
         let flags = { M.f_noconv = (f land 1 <> 0); M.f_int = (f land 2 <> 0); M.f_eol = (f land 4 <> 0) } in
         let raw = M.tokens (bytes_of_hex hex) in
         let toks = M.pull_all flags raw in
         print_string ("TOKS " ^ String.concat " " (List.map (string_of_token raw) toks)
                       ^ " ALLOC:" ^ string_of_int (int_of_n (M.final_allocation raw)))
       | ["npd"; hex] ->
         let lines = M.npd_lines (bytes_of_hex hex) in
         let buf = Buffer.create 256 in
         let rec go = function
           | [] -> Buffer.add_string buf "EOF"
           | l :: r ->
             (match M.record_of l with
              | M.RecBad -> Buffer.add_string buf "ERR"
              | M.RecKey (k, fs) ->
                Buffer.add_string buf (nkeyname k ^ ":" ^ String.concat "," (List.map hex_of_bytes fs) ^ ";"); go r
              | M.RecData fs ->
                Buffer.add_string buf ("data:" ^ String.concat "," (List.map hex_of_bytes fs) ^ ";"); go r) in
         go lines;
         print_string ("LINES " ^ Buffer.contents buf)
       | ["ts"; hex] ->
         (match M.load_ts (bytes_of_hex hex) with
          | M.Error c -> print_string ("ERR " ^ eclass c)
          | M.Ok o ->
            print_string (Printf.sprintf "OK %d %s %s %d | F %s | Z %s | D %s"
                            (if o.M.o_v2 then 2 else 1) (ptname o.M.o_type) (fmtname o.M.o_fmt) (int_of_nat o.M.o_ports)
                            (String.concat " " (List.map string_of_x o.M.o_freqs))
                            (String.concat " " (List.map string_of_x o.M.o_z0))
                            (String.concat " ; " (List.map (fun m -> String.concat " " (List.map (fun c ->
                                 string_of_x c.M.c_a ^ " " ^ string_of_x c.M.c_b ^ " " ^ string_of_x c.M.c_scale) m)) o.M.o_cells))))
       | ["nl"; hex] ->
         (match M.load_npd (bytes_of_hex hex) with
          | M.NError c -> print_string ("ERR " ^ (match c with M.NEBADMSG -> "EBADMSG" | M.NEINVAL -> "EINVAL" | M.NEINTERNAL -> "EINTERNAL"))
          | M.NOk o ->
            print_string (Printf.sprintf "OK %s %s %s %s %s %s | F %s | Z %s | P %s | D %s"
                            (nptname o.M.b_type) (formname o.M.b_form) (ZZ.to_string (z_of_coqz o.M.b_rows))
                            (ZZ.to_string (z_of_coqz o.M.b_columns)) (optz o.M.b_fprec) (optz o.M.b_dprec)
                            (String.concat " " (List.map string_of_x o.M.b_freqs))
                            (match o.M.b_z0 with None -> "-" | Some l -> if l = [] then "=" else pairs l)
                            (match o.M.b_fz0 with None -> "-" | Some l -> String.concat " ; " (List.map pairs l))
                            (String.concat " ; " (List.map pairs o.M.b_cells))))
       | _ -> print_string ("? " ^ line));
      print_newline ()
    done
  with End_of_file -> ()
