(* MODELS: prop *)
(* Driver for the property-tree model (C13, C14).  Reads one op per line (strings hex-encoded,
   "-" = empty string) and prints one outcome line per op:
       <ret> <errno> <payload> <digest root> <digest aux>
   ops: set D | del D | get D | type D | count D | keys D | getsub D | setsub D | subset D D2 |
        subdel D D2 | copyout D | copyin D | copywithin D D2 | quote K | reset |
        yamlrt      (C14: aux := import (ideal_rt (export root)); prints both digests)
        yamltree    (C14: prints the abstract YAML tree the model exports for root)
        yamlinto    (C14: aux := import_document (ideal_rt (export root)) aux, aux may hold a tree)
        ydocimp Y   (C14: root := import_public Y root; Y = !syntax | !empty | a document tree in the notation of
                    ydigest / the harness's ydump, styles p plain, l literal, anything else non-plain)
        hset K | hlook K | hget K | hdel K | hreset     (C13: coq/PropTree/HashModel.v, h_step with h := crc32c, on a
                    separate table state; prints  <found 1/0> H:<size>,<count>|<bucket>:<hexkey>,...;...)
   The conversions below (int <-> extracted N / Z / nat, hex) are trusted glue. *)
open MODELS
let rec pos_of_int n = if n = 1 then XH else if n land 1 = 0 then XO (pos_of_int (n lsr 1)) else XI (pos_of_int (n lsr 1))
let n_of_int n = if n = 0 then N0 else Npos (pos_of_int n)
let rec int_of_pos = function XH -> 1 | XO p -> 2 * int_of_pos p | XI p -> 2 * int_of_pos p + 1
let int_of_n = function N0 -> 0 | Npos p -> int_of_pos p
let int_of_z = function Z0 -> 0 | Zpos p -> int_of_pos p | Zneg p -> - (int_of_pos p)
let rec int_of_nat = function O -> 0 | S n -> 1 + int_of_nat n
let unhex (s : string) : n list =
  if s = "-" then [] else begin
    let l = String.length s / 2 in
    List.init l (fun i -> n_of_int (int_of_string ("0x" ^ String.sub s (2 * i) 2)))
  end
let hex (b : n list) : string =
  String.concat "" (List.map (fun c -> Printf.sprintf "%02x" (int_of_n c)) b)
let rec digest (nd : node) : string =
  match nd with
  | NNull -> "N"
  | NScalar v -> "S" ^ hex v
  | NMap kv -> "M{" ^ String.concat ";" (List.map (fun (k, v) -> hex k ^ "=" ^ digest v) kv) ^ "}"
  | NList (vec, al) -> "L" ^ string_of_int (int_of_nat al) ^ "[" ^ String.concat ";" (List.map digest vec) ^ "]"
let errno = function E0 -> "0" | EINVAL -> "EINVAL" | ENOENT -> "ENOENT"
let payload = function
  | PNone -> "-"
  | PStr s -> "S:" ^ hex s
  | PKeys ks -> "K:" ^ String.concat "," (List.map hex ks)
  | PNode nd -> "T:" ^ digest nd
let style = function YPlain -> "p" | YAny -> "a" | YDouble -> "d" | YLiteral -> "l"
let rec ydigest (y : ynode) : string =
  match y with
  | YScalar (v, st) -> "s" ^ style st ^ hex v
  | YMapping kv -> "m{" ^ String.concat ";" (List.map (fun (k, v) -> ydigest k ^ "=" ^ ydigest v) kv) ^ "}"
  | YSequence l -> "q[" ^ String.concat ";" (List.map ydigest l) ^ "]"
let parse_y (s : string) : ynode =
  let pos = ref 0 in
  let ishex c = (c >= '0' && c <= '9') || (c >= 'a' && c <= 'f') in
  let rec node () =
    match s.[!pos] with
    | 's' ->
      let stc = s.[!pos + 1] in
      let j = ref (!pos + 2) in
      while !j < String.length s && ishex s.[!j] do incr j done;
      let h = String.sub s (!pos + 2) (!j - !pos - 2) in
      pos := !j;
      YScalar ((if h = "" then [] else unhex h), (match stc with 'p' -> YPlain | 'l' -> YLiteral | 'a' -> YAny | _ -> YDouble))
    | 'm' ->
      pos := !pos + 2;
      let items = ref [] in
      while s.[!pos] <> '}' do
        let k = node () in
        if s.[!pos] <> '=' then failwith "ydigest: = expected";
        incr pos;
        let v = node () in
        items := (k, v) :: !items;
        if s.[!pos] = ';' then incr pos
      done;
      incr pos;
      YMapping (List.rev !items)
    | 'q' ->
      pos := !pos + 2;
      let items = ref [] in
      while s.[!pos] <> ']' do
        items := node () :: !items;
        if s.[!pos] = ';' then incr pos
      done;
      incr pos;
      YSequence (List.rev !items)
    | _ -> failwith "ydigest: bad node" in
  let y = node () in
  if !pos <> String.length s then failwith "ydigest: trailing text";
  y
let hdump ((t, c) : hstate) : string =
  let parts = List.filter (fun x -> x <> "") (List.mapi (fun i ch ->
      if ch = [] then "" else Printf.sprintf "%d:%s" i (String.concat "," (List.map hex ch))) t) in
  Printf.sprintf "H:%d,%d|%s" (List.length t) (int_of_nat c) (String.concat ";" parts)
let () =
  let st = ref init_state in
  let hst = ref h_empty in
  try
    while true do
      let line = input_line stdin in
      let w = List.filter (fun s -> s <> "") (String.split_on_char ' ' line) in
      match w with
      | [] -> ()
      | ["reset"] -> st := init_state; print_string "RESET\n"
      | ["hreset"] -> hst := h_empty; print_string "HRESET\n"
      | [("hset" | "hlook" | "hget" | "hdel") as o; k] ->
        let k = unhex k in
        let op = (match o with "hset" -> HSet k | "hlook" -> HLook k | "hget" -> HGet k | _ -> HDel k) in
        let (s', found) = h_step crc32c !hst op in
        hst := s';
        Printf.printf "%d %s\n" (if found then 1 else 0) (hdump s')
      | ["yamlrt"] | ["yamlrtf"] ->
        let y = yaml_export !st.st_root in
        let (r, ok) = yaml_import (yaml_rt_ideal y) NNull in
        Printf.printf "%d 0 T:%s %s %s\n" (if ok then 0 else -1) (digest r) (digest !st.st_root) (digest !st.st_aux)
      | ["yamlinto"] | ["yamlintof"] ->
        let y = yaml_export !st.st_root in
        let (r, ok) = import_document (yaml_rt_ideal y) !st.st_aux in
        st := { st_root = !st.st_root; st_aux = r };
        Printf.printf "%d 0 - %s %s\n" (if ok then 0 else -1) (digest !st.st_root) (digest r)
      | ["ydocimp"; y] ->
        let l = if y = "!syntax" then YSyntaxError else if y = "!empty" then YEmptyDocument else YDocument (parse_y y) in
        let (r, ok) = import_public l !st.st_root in
        st := { st_root = r; st_aux = !st.st_aux };
        Printf.printf "%d 0 - %s %s\n" (if ok then 0 else -1) (digest r) (digest !st.st_aux)
      | ["yamltree"] -> Printf.printf "0 0 Y:%s %s %s\n" (ydigest (yaml_export !st.st_root)) (digest !st.st_root) (digest !st.st_aux)
      | opn :: args ->
        let a i = unhex (List.nth args i) in
        let o = (match opn with
            | "set" -> OSet (a 0) | "del" -> ODel (a 0) | "get" -> OGet (a 0) | "type" -> OType (a 0)
            | "count" -> OCount (a 0) | "keys" -> OKeys (a 0) | "getsub" -> OGetSub (a 0)
            | "setsub" -> OSetSub (a 0) | "subset" -> OSubSet (a 0, a 1) | "subdel" -> OSubDel (a 0, a 1)
            | "copyout" -> OCopyOut (a 0) | "copyin" -> OCopyIn (a 0) | "quote" -> OQuote (a 0)
            | "copywithin" -> OCopyWithin (a 0, a 1)
            | _ -> failwith ("bad op " ^ opn)) in
        let (s', out) = step !st o in
        st := s';
        Printf.printf "%d %s %s %s %s\n" (int_of_z out.o_ret) (errno out.o_err) (payload out.o_pay)
          (digest s'.st_root) (digest s'.st_aux)
    done
  with End_of_file -> ()
