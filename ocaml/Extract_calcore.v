(* NEEDS: Gen/LayoutGen.vo Cal/TermsModel.vo Cal/AddModel.vo *)
(* Extraction of the structural calibration models (AddModel, TermsModel, LayoutGen). *)
Require Extraction.
Require Import ExtrOcamlBasic.
Require Import List ZArith.
Require Import LV.Gen.LayoutGen LV.Cal.TermsModel LV.Cal.AddModel.
Extraction Language OCaml.
Set Extraction KeepSingleton.
Extraction "models_calcore.ml"
  add_step add_common store_m system_equations systems_of t_nov v_columns_of
  add_single_reflect add_double_reflect add_line add_through add_mapped_matrix
  layout caltype_code all_caltypes.
