(* NEEDS: Files/TsTok.vo Files/TsParse.vo Files/NpdLoad.vo *)
(* Extraction of the byte-level models of the Touchstone and NPD loaders (C08, C09; agent tstone).
   Only ExtrOcamlBasic's directives are in effect; N, Z, positive, Q stay the extracted inductive types. *)
Require Extraction.
Require Import ExtrOcamlBasic.
Require Import List NArith ZArith QArith Qcanon.
Require Import LV.Files.TsTok LV.Files.TsParse LV.Files.NpdScan LV.Files.NpdLoad.
Extraction Language OCaml.
Set Extraction KeepSingleton.
Extraction "models_tstone.ml"
  this Qnum Qden
  tokens pull_all tok_of F_NONE Build_flags final_allocation
  parse load_ts
  npd_lines record_of load_npd.
