(* NEEDS: PropTree/PropModel.vo PropTree/YamlModel.vo PropTree/HashModel.vo *)
(* Extraction of the property-tree models (C13, C14).  Only ExtrOcamlBasic's directives are in
   effect; nat, positive, N, Z stay the extracted inductive types. *)
Require Extraction.
Require Import ExtrOcamlBasic.
Require Import List NArith ZArith.
Require Import LV.PropTree.PropModel LV.PropTree.YamlModel LV.PropTree.HashModel.
Extraction Language OCaml.
Extraction "models_prop.ml"
  step init_state quote_key parse scan
  yaml_export yaml_import import_document import_public yaml_rt_ideal
  h_step h_empty crc32c.
