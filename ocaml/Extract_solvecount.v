(* NEEDS: SolveCount/CountModel.vo *)
(* Extraction of the C20 counting model.  Only ExtrOcamlBasic's directives are in effect; nat stays
   the extracted inductive type. *)
Require Extraction.
Require Import ExtrOcamlBasic.
Require Import List.
Require Import LV.SolveCount.CountModel.
Extraction Language OCaml.
Set Extraction KeepSingleton.
Extraction "models_solvecount.ml"
  init add_std solve set_m_error take_cal count_deficient solve_path is_trl sys_count
  unknowns systems t_terms alloc_ok x_length unknown_list pv_get
  single_reflect double_reflect through line mapped_matrix.
