(* NEEDS: Data/DataModel.vo Data/ConvertModel.vo Data/AccessorsModel.vo Data/TwoObjModel.vo *)
(* Extraction of the vnadata_t container model and of the vnadata_convert model (C15, C05).
   Only ExtrOcamlBasic's directives are in effect; nat, Z, string stay the extracted inductive
   types.  store_results / conv_results are kept as functions so that the (effectful, logging)
   `conv` argument supplied by the driver is called exactly once per frequency. *)
Require Extraction.
Require Import ExtrOcamlBasic.
Require Import List ZArith String.
Require Import LV.Data.DataModel LV.Data.ArraySpec LV.Data.ConvertModel LV.Data.AccessorsModel LV.Data.TwoObjModel.
Extraction Language OCaml.
Set Extraction KeepSingleton.
Extraction NoInline store_results conv_results setup_out convert.
Extraction "models_data.ml"
  mstep minit observe fixed as_found fname_str conv_spec vpt_code vpt_of_Z
  p_alloc f_alloc m_alloc per_f sel put kstep nput ninit alloc_and_init type_name vd_alloc set_format_c f_new ptr_null.
