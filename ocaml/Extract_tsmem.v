(* NEEDS: Files/TsTok.vo Files/TsParse.vo Mem/Alloc.vo Files/TsMem.vo Files/NpdScan.vo Files/NpdLoad.vo Files/TsMemNpd.vo Data/DataModel.vo Files/LoadFail.vo *)
(* Extraction of the pointer-level models of the Touchstone and NPD loaders' own buffers (C09, package B).
   Only ExtrOcamlBasic's directives are in effect. *)
Require Extraction.
Require Import ExtrOcamlBasic.
Require Import List NArith ZArith.
Require Import LV.Files.TsTok LV.Files.TsParse LV.Mem.Alloc LV.Files.TsMem LV.Files.NpdScan LV.Files.NpdLoad LV.Files.TsMemNpd LV.Files.LoadFail.
Extraction Language OCaml.
Set Extraction KeepSingleton.
Extraction "models_tsmem.ml" mem_load_ts mem_load_npd start live fresh fail_at ts_digest npd_digest ts_accepted npd_accepted.
