(* NEEDS: Gen/LayoutGen.vo Cal/CalQI.vo *)
(* Extraction of the numeric calibration models at the Gaussian rationals (ApplyModel, SolveSimple). *)
Require Extraction.
Require Import ExtrOcamlBasic.
Require Import List ZArith QArith Qcanon.
Require Import LV.Base.CField LV.Base.QcI LV.Gen.LayoutGen LV.Cal.Sym LV.Cal.TermsModel LV.Cal.AddModel LV.Cal.SolveSimple LV.Cal.CalQI.
Extraction Language OCaml.
Set Extraction KeepSingleton.
Extraction "models_calcore2.ml"
  QI qre qim qq Qnum Qden this
  q_apply caltype_code all_caltypes
  add_step q_solve_system q_error_terms q_assemble q_unknowns systems_of mkMV.
