(* MODELS: format *)
(* Driver for the extracted format-language model (Data/FormatModel.v).  Reads the script language of
   harness/format_harness.c and prints the lines that harness prints, computed by the model:
     drv_format <sgn>      sgn = 1: plain char is signed and the copy loop compares `*cp > 0x7e`
                           sgn = 0: the comparison is made on unsigned char (fix DN90)
   The model's state stands for the one object of the harness. *)
module M = Models_format
let rec pos_of_int n : M.positive =
  if n = 1 then M.XH else if n land 1 = 0 then M.XO (pos_of_int (n lsr 1)) else M.XI (pos_of_int (n lsr 1))
let n_of_int n : M.n = if n = 0 then M.N0 else M.Npos (pos_of_int n)
let rec int_of_pos = function M.XH -> 1 | M.XO p -> 2 * int_of_pos p | M.XI p -> 2 * int_of_pos p + 1
let int_of_n = function M.N0 -> 0 | M.Npos p -> int_of_pos p
let rec nat_of_int n = if n <= 0 then M.O else M.S (nat_of_int (n - 1))
let rec int_of_nat = function M.O -> 0 | M.S n -> 1 + int_of_nat n
let ptypes = [| M.PUNDEF; M.PS; M.PT; M.PU; M.PZ; M.PY; M.PH; M.PG; M.PA; M.PB; M.PZIN |]
let forms = [| M.DB; M.MA; M.RI; M.PRC; M.PRL; M.SRC; M.SRL; M.IL; M.RL; M.VSWR |]
let index a x = let r = ref (-1) in Array.iteri (fun i y -> if y = x then r := i) a; !r
let hex_of_bytes (l : M.n list) =
  if l = [] then "-" else String.concat "" (List.map (fun c -> Printf.sprintf "%02x" (int_of_n c land 0xff)) l)
let bytes_of_hex (s : string) : int list =
  if s = "-" then [] else List.init (String.length s / 2) (fun i -> int_of_string ("0x" ^ String.sub s (2 * i) 2))
let state = ref M.init_state
let fail_of k = if k <= 0 then None else Some (nat_of_int (k - 1))
let report tag (r : M.result) =
  match r with
  | M.Abort -> Printf.printf "%s abort\n" tag
  | M.Ret (ok, why, st) ->
    state := st;
    let w = (match why with
        | None -> "none"
        | Some (M.BadChar c) -> Printf.sprintf "char:%02x" (int_of_n c land 0xff)
        | Some (M.BadSpec f) -> "spec:" ^ hex_of_bytes f
        | Some M.NoMem -> "nomem") in
    let errno = if ok then "0" else (match why with Some M.NoMem -> "ENOMEM" | _ -> "EINVAL") in
    let str = (match M.get_format st with None -> "NULL" | Some b -> hex_of_bytes b) in
    let vec = (match st.M.f_vec with
        | [] -> "NULL"
        | v -> String.concat "," (List.map (fun e -> Printf.sprintf "%d.%d" (index ptypes e.M.e_par) (index forms e.M.e_form)) v)) in
    Printf.printf "%s rc=%d errno=%s cb=%d why=%s str=%s vec=%s count=%d live=%d\n" tag (if ok then 0 else -1) errno
      (if ok then 0 else 1) w str vec (List.length st.M.f_vec) (int_of_nat (M.live_blocks st))
let do_set sgn k (bytes : int list) =
  let b = List.map n_of_int bytes in
  report (hex_of_bytes b) (M.set_format sgn (fail_of k) !state (M.AStr b))
let () =
  let sgn = (Array.length Sys.argv > 1 && Sys.argv.(1) = "1") in
  try
    while true do
      let line = input_line stdin in
      let t = List.filter (fun s -> s <> "") (String.split_on_char ' ' (String.trim line)) in
      (match t with
       | ["new"; _; _; _] -> state := M.init_state; print_string "new live=0\n"
       | ["set"; k; h] -> do_set sgn (int_of_string k) (bytes_of_hex h)
       | ["null"; k] -> report "NULL" (M.set_format sgn (fail_of (int_of_string k)) !state M.ANull)
       | ["simple"; k; p; f] ->
         let pi = int_of_string p and fi = int_of_string f in
         report ("simple." ^ hex_of_bytes [n_of_int pi; n_of_int fi])
           (M.set_simple_format (fail_of (int_of_string k)) !state ptypes.(pi) forms.(fi))
       | ["enum"; ml; h] ->
         let alpha = Array.of_list (bytes_of_hex h) in
         let na = Array.length alpha in
         for len = 0 to int_of_string ml do
           let idx = Array.make (max len 1) 0 in
           let fin = ref false in
           while not !fin do
             do_set sgn 0 (List.init len (fun i -> alpha.(idx.(i))));
             let i = ref (len - 1) in
             let carry = ref true in
             while !carry && !i >= 0 do
               idx.(!i) <- idx.(!i) + 1;
               if idx.(!i) < na then carry := false else (idx.(!i) <- 0; decr i)
             done;
             if !carry then fin := true
           done
         done
       | [] -> ()
       | _ -> print_string "?\n")
    done
  with End_of_file -> print_string "end live=0\n"
