(* MODELS: calcore3 *)
(* Driver for the leakage part of Cal/SolveSimple.v at the Gaussian rationals (property C01, leakage tie).
     cfg TYPECODE MR MC NVALID | pval .. (ignored) | add <as drv_calcore2> NM m.. | leak
   "leak" prints, for the standards added since cfg (complex = two rationals "p/q"):
     LEAK outside=0|1 stds=N
     LK row col count sum_re sum_im        leak_acc of every off-diagonal cell (row-major)
     LM row col none | mean_re mean_im     leak_mean
     LS i row col                          standard i alone gives a sample for the cell (leak_acc [mv_i] counts 1)
     LA i cell re im                       m_adjusted of every given cell of standard i
     LT n t..                              leak_terms
     endleak *)
#include "glue.ml.inc"
let toks = ref []
let next () = match !toks with [] -> failwith "short line" | x :: r -> toks := r; x
let nint () = int_of_string (next ())
let cx () = let a = qc_of_string (next ()) in let b = qc_of_string (next ()) in { qre = a; qim = b }
let rec times n f = if n <= 0 then [] else let x = f () in x :: times (n - 1) f
let zi (x : z) = ZZ.to_int (z_of_coqz x)
let ty_of_code k = List.find (fun t -> zi (caltype_code t) = k) all_caltypes
let ty = ref T8 and mr = ref 1 and mc = ref 1 and nvalid = ref 3
let st = ref [] and mvs = ref []
let sq (x : qi) = string_of_qi x
let () =
  try
    while true do
      let line = input_line stdin in
      toks := List.filter (fun s -> s <> "") (String.split_on_char ' ' line);
      if !toks <> [] then begin
        match next () with
        | "cfg" ->
          ty := ty_of_code (nint ()); mr := nint (); mc := nint (); nvalid := nint ();
          st := []; mvs := []
        | "pval" -> ()
        | "add" ->
          let nz () = coqz_of_z (ZZ.of_string (next ())) in
          let ag = nint () <> 0 in
          let ar = nz () in let ac = nz () in let br = nz () in let bc = nz () in
          let sr = nz () in let sc = nz () in let diag = nint () <> 0 in
          let mg = nint () <> 0 in let nmap = nint () in
          let mp = times nmap nz in
          let ns = nint () in let s = times ns nz in
          let nv = !nvalid in
          let valid (h : z) = let k = zi h in k >= 0 && k < nv in
          let args = { aa_ty = !ty; aa_mr = nat_of_int !mr; aa_mc = nat_of_int !mc; aa_merr = false;
                       aa_valid = valid; aa_a_given = ag; aa_a_rows = ar; aa_a_cols = ac;
                       aa_b_rows = br; aa_b_cols = bc; aa_s = s; aa_s_rows = sr; aa_s_cols = sc;
                       aa_s_diag = diag; aa_map = (if mg then Some mp else None) } in
          let nm = nint () in let mv = times nm cx in
          let (st', o) = add_step !st args in
          st := st';
          (match o with
           | Accepted m -> mvs := !mvs @ [ { mv_meas = m; mv_m = Obj.magic mv } ]; print_string "add rc=0\n"
           | Rejected k -> Printf.printf "add rc=-1 check=%d\n" (int_of_nat k)
           | Aborts k -> Printf.printf "add abort=%d\n" (int_of_nat k))
        | "leak" ->
          let nmr = nat_of_int !mr and nmc = nat_of_int !mc in
          let cells = q_offdiag_cells nmr nmc in
          Printf.printf "LEAK outside=%d stds=%d\n" (if q_has_outside_leakage !ty then 1 else 0) (List.length !mvs);
          List.iter (fun (r, c) ->
            let (s, n) = Obj.magic (q_leak_acc nmr nmc !mvs (r, c)) in
            Printf.printf "LK %d %d %d %s\n" (int_of_nat r) (int_of_nat c) (int_of_nat n) (sq s);
            (match Obj.magic (q_leak_mean nmr nmc !mvs (r, c)) with
             | Some (x : qi) -> Printf.printf "LM %d %d %s\n" (int_of_nat r) (int_of_nat c) (sq x)
             | None -> Printf.printf "LM %d %d none\n" (int_of_nat r) (int_of_nat c))) cells;
          List.iteri (fun i mv ->
            List.iter (fun (r, c) ->
              let ((_ : qi), n) = Obj.magic (q_leak_acc nmr nmc [mv] (r, c)) in
              if int_of_nat n > 0 then Printf.printf "LS %d %d %d\n" i (int_of_nat r) (int_of_nat c)) cells;
            List.iteri (fun cell given ->
              if given then
                Printf.printf "LA %d %d %s\n" i cell (sq (Obj.magic (q_m_adjusted !ty nmr nmc !mvs mv (nat_of_int cell)))))
              (ms_m_given mv.mv_meas)) !mvs;
          let lt : qi list = Obj.magic (q_leak_terms !ty nmr nmc !mvs) in
          Printf.printf "LT %d %s\n" (List.length lt) (String.concat " " (List.map sq lt));
          print_string "endleak\n"
        | s -> Printf.printf "unknown %s\n" s
      end
    done
  with End_of_file -> ()
