(* MODELS: tsfmt *)
(* Driver for the extracted convert_value_pair / unnorm_value (Files/TsFormat.v) and npd_convert (Files/NpdCols.v).
   The abstract field of the model is instantiated with OCaml's binary64 complex numbers: cexp := Complex.exp,
   LOG10 := log 10, RAD_PER_DEG := pi / 180, pow10 x := 10 ** re x (trusted glue; values cross the extracted code as Obj.t).
   One command per line, numbers as C99 hex floats:
     conv  DB|MA|RI v0 v1           -> V re im        (convert_value_pair)
     unn   S|Y|Z|H|G z0 i re im     -> V re im        (unnorm_value of cell number i)
     npd   DB|MA|RI v1 v2           -> V re im        (npd_convert) *)
module M = Models_tsfmt
let r (x : Complex.t) : M.f = Obj.repr x
let o (x : M.f) : Complex.t = Obj.obj x
let lift2 f = fun a b -> r (f (o a) (o b))
let lift1 f = fun a -> r (f (o a))
let cx x = { Complex.re = x; im = 0.0 }
let field : M.cField =
  { M.c0 = r Complex.zero; c1 = r Complex.one; cadd = lift2 Complex.add; cmul = lift2 Complex.mul; csub = lift2 Complex.sub;
    copp = lift1 Complex.neg; cdiv = lift2 Complex.div; cinv = lift1 Complex.inv; cj = lift1 Complex.conj;
    re = lift1 (fun z -> cx z.Complex.re); ksq = lift1 (fun z -> cx (sqrt (abs_float z.Complex.re))) }
let pi = 4.0 *. atan 1.0
let cexp = lift1 Complex.exp
let pow10 = lift1 (fun z -> cx (10.0 ** z.Complex.re))
let rec nat_of_int n = if n <= 0 then M.O else M.S (nat_of_int (n - 1))
let out (z : Complex.t) = Printf.printf "V %h %h\n" z.Complex.re z.Complex.im
let () =
  try
    while true do
      let line = input_line stdin in
      let t = List.filter (fun s -> s <> "") (String.split_on_char ' ' (String.trim line)) in
      (match t with
       | ["conv"; f; a; b] ->
         let fm = (match f with "DB" -> M.FDB | "MA" -> M.FMA | _ -> M.FRI) in
         out (o (M.convert_value_pair field (r Complex.i) cexp (r (cx (log 10.0))) (r (cx (pi /. 180.0))) (r (cx 20.0)) fm
                   (r (cx (float_of_string a))) (r (cx (float_of_string b)))))
       | ["unn"; ty; z; i; re; im] ->
         let pt = (match ty with "S" -> M.PS | "Y" -> M.PY | "Z" -> M.PZ | "H" -> M.PH | _ -> M.PG) in
         out (o (M.unnorm_value field pt (r (cx (float_of_string z))) (nat_of_int (int_of_string i))
                   (r { Complex.re = float_of_string re; im = float_of_string im })))
       | ["npd"; f; a; b] ->
         let fm = (match f with "DB" -> M.DB | "MA" -> M.MA | _ -> M.RI) in
         (match M.npd_convert field (r Complex.i) cexp pow10 (r (cx 20.0)) (r (cx pi)) (r (cx 180.0)) fm
                  (r (cx (float_of_string a))) (r (cx (float_of_string b))) with
          | Some v -> out (o v)
          | None -> print_string "NONE\n")
       | _ -> print_string "?\n")
    done
  with End_of_file -> ()
