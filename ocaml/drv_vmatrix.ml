(* MODELS: vmatrix *)
(* Driver for VMatrixModel (the V-matrix machinery of _vnacal_new_solve_simple) at Q[i].  One case per line.
   Reals are exact rationals "p/q", complex numbers two reals.
     problem  P := <type 0 T8|1 U8|2 T16|3 U16|4 UE14> <rows> <cols> <unknowns> ( - | <nf> <tr> )
                   <nstd> { <nm> {re im}*nm <ns> {<known 0|1> re im}*ns }*nstd
                   <nsys> { <neq> { <std> <row> <col> <nterms> { <neg 0|1> <m_cell|-1> <s_cell|-1> <v_cell> <xindex|-1> }*nterms }*neq }*nsys
     V state  S := <nstd> { - | V <nsys> { N | P <n> {re im}*n }*nsys }*nstd
     table    T := <n> { <radicand> <value of 1/sqrt> }*n
   Commands:
     vinit P                                    -> "vinit S"            solve_init's allocation + init_v_matrices
     vweights T P                               -> "vweights - | <n> <w>*n"
     vrows P S <sindex> ( - | <n> <w>*n ) <woff> -> "vrows <neq> <u> { {re im}*u re im }*neq"   rows of a_matrix, b_vector
     vhave P S <sindex>                         -> "vhave 0|1"          vs_have_v after the equation loop
     vupd P S <sindex> <n> {re im}*n            -> "vupd S" | "vupd singular"
     vvi P <sindex> <n> {re im}*n               -> "vvi <nstd> { <cells> {re im}*cells }*nstd"   vi_matrix of every standard
     vupdt P S <sindex> <n> {re im}*n <ntab> { <cells> {re im}*cells <ok 0|1> [{re im}*cells] }*ntab
                                                -> as vupd, _vnacommon_minverse answered from the table
     vconv <tol> <unknowns> <n> {re im}*n {re im}*n -> "vconv 0|1"      (x, prev_x)
     vsolve T <tol> <limit> <n> {xinit re im}*n <nfreq> P*nfreq
                                                -> "vsolve <nok> { <n> {re im}*n <nsys> <passes>*nsys }*nok <end: ok|insufficient|singular|vsingular|noconv>"
     vplain P                                   -> "vplain ok <n> {re im}*n" | "vplain err"
     vexact P <nsys> { <n> {re im}*n }*nsys     -> "vexact <all wf 0|1> <all exact 0|1>"
     vterms <0 T8|1 U8> <rows> <cols> <eq_row> <eq_col> <cells> {conn 0|1}*cells {szero 0|1}*cells
                                                -> "vterms <n> { <neg> <m_cell|-1> <s_cell|-1> <v_cell> <xindex|-1> }*n"   build_terms_t8 / _u8
     vspline <min_dx> <n> <x>*n <y>*n <nq> <q>*nq -> "vspline einval" | "vspline { <v> | - }*nq"   C10's SplineModel *)
#include "glue.ml.inc"
let toks = ref []
let next () = match !toks with [] -> failwith "short line" | x :: r -> toks := r; x
let rec times n f = if n = 0 then [] else let x = f () in x :: times (n - 1) f
let nint () = int_of_string (next ())
let nnat () = nat_of_int (nint ())
let nq () = qc_of_string (next ())
let ncx () = let a = nq () in let b = nq () in o { qre = a; qim = b }
let nopt () = let i = nint () in if i < 0 then None else Some (nat_of_int i)
let rd_prob () =
  let t = (match nint () with 0 -> CT8 | 1 -> CU8 | 2 -> CT16 | 3 -> CU16 | _ -> CUE14) in
  let r = nnat () in let c = nnat () in let un = nnat () in
  let noise = (match !toks with "-" :: rest -> toks := rest; None
                              | _ -> let a = nq () in let b = nq () in Some (a, b)) in
  let nstd = nint () in
  let stds = times nstd (fun () ->
      let nm = nint () in let m = times nm (fun () -> u (ncx ())) in
      let ns = nint () in
      let sk = times ns (fun () -> let k = nint () <> 0 in let v = u (ncx ()) in (k, v)) in
      v_mkstd m (List.map snd sk) (List.map fst sk)) in
  let nsys = nint () in
  let sys = times nsys (fun () ->
      let neq = nint () in
      times neq (fun () ->
          let sd = nnat () in let row = nnat () in let col = nnat () in
          let nt = nint () in
          let ts = times nt (fun () ->
              let neg = nint () <> 0 in let m = nopt () in let s = nopt () in
              let v = nnat () in let x = nopt () in
              { vt_neg = neg; vt_m = m; vt_s = s; vt_v = v; vt_x = x }) in
          { ve_std = sd; ve_row = row; ve_col = col; ve_terms = ts })) in
  v_mkprob t r c un stds sys noise
let rd_state () =
  let nstd = nint () in
  times nstd (fun () ->
      match next () with
      | "-" -> None
      | _ -> let nsys = nint () in
        Some (times nsys (fun () ->
            match next () with
            | "N" -> None
            | _ -> let n = nint () in Some (times n ncx))))
let pr_cx (z : Obj.t) = string_of_qi (u z)
let pr_state st =
  string_of_int (List.length st) ^
  String.concat "" (List.map (function
      | None -> " -"
      | Some vs -> " V " ^ string_of_int (List.length vs) ^
                   String.concat "" (List.map (function
                       | None -> " N"
                       | Some m -> " P " ^ string_of_int (List.length m) ^
                                   String.concat "" (List.map (fun z -> " " ^ pr_cx z) m)) vs)) st)
let rd_tab () = let n = nint () in times n (fun () -> let a = nq () in let b = nq () in (a, b))
let rd_ws () = match !toks with "-" :: rest -> toks := rest; None
                              | _ -> let n = nint () in Some (times n nq)
let pr_vec l = string_of_int (List.length l) ^ String.concat "" (List.map (fun z -> " " ^ pr_cx z) l)
let () =
  try
    while true do
      let line = input_line stdin in
      toks := List.filter (fun s -> s <> "") (String.split_on_char ' ' line);
      if !toks <> [] then begin
        let op = next () in
        (match op with
         | "vinit" ->
           let p = rd_prob () in
           let n = if (match p.vp_type with CT8 | CT16 -> true | _ -> false) then p.vp_cols else p.vp_rows in
           Printf.printf "vinit %s\n" (pr_state (v_init n (v_alloc p)))
         | "vweights" ->
           let tab = rd_tab () in let p = rd_prob () in
           (match v_weights tab p with
            | None -> print_string "vweights -\n"
            | Some w -> Printf.printf "vweights %d%s\n" (List.length w)
                          (String.concat "" (List.map (fun q -> " " ^ string_of_qc q) w)))
         | "vrows" ->
           let p = rd_prob () in let st = rd_state () in let s = nint () in
           let ws = rd_ws () in let woff = nnat () in
           let es = List.nth p.vp_systems s in
           let rows = v_rows p st (nat_of_int s) ws woff es in
           Printf.printf "vrows %d %d%s\n" (List.length rows) (int_of_nat p.vp_unknowns)
             (String.concat "" (List.map (fun (a, b) ->
                  String.concat "" (List.map (fun z -> " " ^ pr_cx z) a) ^ " " ^ pr_cx b) rows))
         | "vhave" ->
           let p = rd_prob () in let st = rd_state () in let s = nint () in
           Printf.printf "vhave %d\n" (if v_have_after st (nat_of_int s) (List.nth p.vp_systems s) then 1 else 0)
         | "vupd" ->
           let p = rd_prob () in let st = rd_state () in let s = nnat () in
           let n = nint () in let x = times n ncx in
           (match v_update p s x p.vp_stds st with
            | None -> print_string "vupd singular\n"
            | Some st' -> Printf.printf "vupd %s\n" (pr_state st'))
         | "vvi" ->
           let p = rd_prob () in let s = nnat () in
           let n = nint () in let x = times n ncx in
           Printf.printf "vvi %d%s\n" (List.length p.vp_stds)
             (String.concat "" (List.map (fun sd -> " " ^ pr_vec (v_vi p s sd x)) p.vp_stds))
         | "vupdt" ->
           let p = rd_prob () in let st = rd_state () in let s = nnat () in
           let n = nint () in let x = times n ncx in
           let nt = nint () in
           let tab = times nt (fun () ->
               let k = nint () in let key = times k (fun () -> u (ncx ())) in
               let ok = nint () <> 0 in
               let v = if ok then Some (times k (fun () -> u (ncx ()))) else None in (key, v)) in
           (match v_update_tab tab p s x p.vp_stds st with
            | None -> print_string "vupd singular\n"
            | Some st' -> Printf.printf "vupd %s\n" (pr_state st'))
         | "vconv" ->
           let tol = nq () in let un = nnat () in let n = nint () in
           let x = times n ncx in let prev = times n ncx in
           Printf.printf "vconv %d\n" (if v_converged tol un x prev then 1 else 0)
         | "vsolve" ->
           let tab = rd_tab () in let tol = nq () in let limit = nnat () in
           let n = nint () in let xinit = times n ncx in
           let nf = nint () in let ps = times nf rd_prob in
           let st0 = (match ps with p :: _ -> v_alloc p | [] -> []) in
           let (oks, fin) = v_solve_freqs tab tol limit xinit st0 ps in
           Printf.printf "vsolve %d%s %s\n" (List.length oks)
             (String.concat "" (List.map (fun (x, ns) ->
                  " " ^ pr_vec x ^ " " ^ string_of_int (List.length ns) ^
                  String.concat "" (List.map (fun k -> " " ^ string_of_int (int_of_nat k)) ns)) oks))
             (match fin with None -> "ok" | Some SInsufficient -> "insufficient" | Some SSingular -> "singular"
                           | Some SVSingular -> "vsingular" | Some SNoConv -> "noconv" | Some (SOk _) -> "ok")
         | "vplain" ->
           let p = rd_prob () in
           (match v_plain p p.vp_systems with
            | SOk x -> Printf.printf "vplain ok %s\n" (pr_vec x)
            | _ -> print_string "vplain err\n")
         | "vexact" ->
           let p = rd_prob () in let ns = nint () in
           let xs = times ns (fun () -> let n = nint () in times n ncx) in
           let wf = ref true and ex = ref true in
           List.iteri (fun s es -> List.iter (fun e ->
               if not (v_wfb p e) then wf := false;
               if not (v_exactb p (List.nth xs s) e) then ex := false) es) p.vp_systems;
           Printf.printf "vexact %d %d\n" (if !wf then 1 else 0) (if !ex then 1 else 0)
         | "vterms" ->
           let ty = nint () in let r = nnat () in let c = nnat () in
           let er = nnat () in let ec = nnat () in
           let n = nint () in
           let conn = Array.of_list (times n (fun () -> nint () <> 0)) in
           let sz = Array.of_list (times n (fun () -> nint () <> 0)) in
           let get a k = let i = int_of_nat k in i < Array.length a && a.(i) in
           let ts = (if ty = 0 then build_terms_t8 else build_terms_u8) r c er ec (get conn) (get sz) in
           let oi = function None -> -1 | Some k -> int_of_nat k in
           Printf.printf "vterms %d%s\n" (List.length ts)
             (String.concat "" (List.map (fun t ->
                  Printf.sprintf " %d %d %d %d %d" (if t.vt_neg then 1 else 0) (oi t.vt_m) (oi t.vt_s)
                    (int_of_nat t.vt_v) (oi t.vt_x)) ts))
         | "vspline" ->
           let mindx = nq () in let n = nint () in
           let xs = times n nq in let ys = times n nq in
           let nqr = nint () in let qs = times nqr nq in
           (match v_spline mindx xs ys qs with
            | None -> print_string "vspline einval\n"
            | Some vs -> Printf.printf "vspline%s\n"
                           (String.concat "" (List.map (function Some v -> " " ^ string_of_qc v | None -> " -") vs)))
         | _ -> Printf.printf "unknown %s\n" op);
        flush stdout
      end
    done
  with End_of_file -> ()
