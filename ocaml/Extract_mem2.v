(* NEEDS: Mem/NewAlloc.vo *)
(* Extraction of the vnacal_new_t allocation-skeleton model (C03 / C12).  Only ExtrOcamlBasic's directives. *)
Require Extraction.
Require Import ExtrOcamlBasic.
Require Import List ZArith.
Require Import LV.Mem.Alloc LV.Mem.PropList LV.Mem.NewAlloc.
Extraction Language OCaml.
Set Extraction KeepSingleton.
Extraction "models_mem2.ml"
  start live fail_at fresh mkA
  wstep solve free_ring free_prms mkprms mkW w_prm w_new handle
  mkCfg mkAdd mkPr mkVn solve_init_requests cal_requests.
