(* NEEDS: SelfCal/AutoKernelModel.vo SelfCal/AutoKernelQrQ.vo *)
(* Extraction of the Levenberg-Marquardt kernel model (one pass of _vnacal_new_solve_auto,
   coq/SelfCal/AutoKernelModel.v).  Only ExtrOcamlBasic's directives are in effect. *)
Require Extraction.
Require Import ExtrOcamlBasic.
Require Import List ZArith QArith Qcanon.
Require Import LV.Base.CField LV.Base.QcI LV.Lin.MatL LV.SelfCal.AutoLoop LV.SelfCal.AutoKernelModel LV.SelfCal.AutoKernelQrQ.

(* the Q-forming loop of _vnacommon_qr and the Q2^H accumulation of solve_auto at Q[i] *)
Definition q_formq (m n : nat) (a : mat QIF) : mat QIF := qr_formq QIF m n a.
Definition q_q2h (m n : nat) (q : mat QIF) (y : list qi) : list qi :=
  map (q2h QIF m n q (fun e => nth e y qi0)) (seq 0 (m - n)).

Extraction Language OCaml.
Set Extraction KeepSingleton.
Extraction "models_autokernel.ml"
  QI qre qim qq Qnum Qden this
  Term Eqn Corr Problem SKnown SUnk
  q_formq q_q2h a_matrix b_vector kernel_pass kernel_step apply_d norm2 kernel_run
  Converged pd_x pd_jtj pd_jtk pd_sumk e_best e_mult e_lambda e_converged.
