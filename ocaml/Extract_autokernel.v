(* NEEDS: SelfCal/AutoKernelModel.vo *)
(* Extraction of the Levenberg-Marquardt kernel model (one pass of _vnacal_new_solve_auto,
   coq/SelfCal/AutoKernelModel.v).  Only ExtrOcamlBasic's directives are in effect. *)
Require Extraction.
Require Import ExtrOcamlBasic.
Require Import List ZArith QArith Qcanon.
Require Import LV.Base.CField LV.Base.QcI LV.Lin.MatL LV.SelfCal.AutoLoop LV.SelfCal.AutoKernelModel.

Extraction Language OCaml.
Set Extraction KeepSingleton.
Extraction "models_autokernel.ml"
  QI qre qim qq Qnum Qden this
  Term Eqn Corr Problem SKnown SUnk
  a_matrix b_vector kernel_pass kernel_step apply_d norm2 kernel_run
  pd_x pd_jtj pd_jtk pd_sumk e_best e_mult e_lambda e_converged.
