(* MODELS: selfcal *)
(* Driver for the self-calibration models.  One case per input line:
     auto <ptol> <ettol> <plen> <xlen> <limit> <n> { <solve_ok> <sumk> <step_ok> <sumd> <sumdx> }*n
          -> "auto tag=<0 converged|1 singular|2 notconverged|3 fuel> entries=<k> { <best> <mult> <lambda> <conv> }*k"
     weights <restart> <nsys> <len>*nsys   -> "weights <v>*total"   (equation number + 1, 0 = untouched)
     sindex <offset> <nsys> <len>*nsys     -> "sindex <i>*total"    (index read for every equation, system by system)
     aindex <nsys> <len>*nsys              -> "aindex <i>*total"
     trl <mt: 4 complex> <mr: 4 complex> <ml: 4 complex> <lguess> <rguess> <disc> <sqrt disc> <n/d> <sqrt n/d>
          -> "trl <l> <r>"   the model's trl_solve with csqrt answered by the nearer of the two given
             (argument, root) pairs
     dispatch <type> <rows> <cols> <unknowns> <correlated> <m_error> <nstd> {Z|O|K<id>|U<id>|C<id>}*4*nstd
          -> "dispatch trl|simple|auto"
     dof <unknowns> <nsys> <eq count>*nsys <ncells> <leak count>*ncells  -> "dof <df>"
   Reals are exact rationals "p/q", complex numbers two reals. *)
#include "glue.ml.inc"
let toks = ref []
let next () = match !toks with [] -> failwith "short line" | x :: r -> toks := r; x
let rec times n f = if n = 0 then [] else let x = f () in x :: times (n - 1) f
let b_of s = s <> "0"
let systems lens =
  (* equations numbered consecutively over all systems *)
  let k = ref 0 in
  List.map (fun len -> times len (fun () -> let v = nat_of_int !k in incr k; v)) lens
let () =
  try
    while true do
      let line = input_line stdin in
      toks := List.filter (fun s -> s <> "") (String.split_on_char ' ' line);
      if !toks <> [] then begin
        let op = next () in
        (match op with
         | "auto" ->
           let ptol = qc_of_string (next ()) in let ettol = qc_of_string (next ()) in
           let plen = qc_of_string (next ()) in let xlen = qc_of_string (next ()) in
           let limit = int_of_string (next ()) in
           let n = int_of_string (next ()) in
           let ob = times n (fun () ->
               let so = b_of (next ()) in let sk = qc_of_string (next ()) in
               let st = b_of (next ()) in let sd = qc_of_string (next ()) in
               let sx = qc_of_string (next ()) in
               { o_solve_ok = so; o_sumk = sk; o_step_ok = st; o_sumd = sd; o_sumdx = sx }) in
           let (o, tr) = replay_run ob ptol ettol plen xlen (nat_of_int limit) in
           Printf.printf "auto tag=%d entries=%d%s\n" (int_of_nat (outcome_tag o)) (List.length tr)
             (String.concat "" (List.map (fun e ->
                  Printf.sprintf " %d %s %s %d" (if e.e_best then 1 else 0) (string_of_qc e.e_mult)
                    (string_of_qc e.e_lambda) (if e.e_converged then 1 else 0)) tr))
         | "trl" ->
           let cx () = let a = qc_of_string (next ()) in let b = qc_of_string (next ()) in { qre = a; qim = b } in
           let m2 () = let a = cx () in let b = cx () in let c = cx () in let d = cx () in
             { m11 = o a; m12 = o b; m21 = o c; m22 = o d } in
           let mt = m2 () in let mr = m2 () in let ml = m2 () in
           let lg = cx () in let rg = cx () in
           let disc = cx () in let sdisc = cx () in let nd = cx () in let snd_ = cx () in
           let qcf (x : qc) = ZZ.to_float (z_of_coqz x.this.qnum) /. ZZ.to_float (z_of_pos x.this.qden) in
           let dist a b = qcf (qi_nrm (qi_sub a b)) in
           let sq (z : qi) : qi = if dist z disc <= dist z nd then sdisc else snd_ in
           let (l, r) = q_trl_solve sq mt mr ml (o lg) (o rg) in
           Printf.printf "trl %s %s\n" (string_of_qi (u l)) (string_of_qi (u r))
         | "dispatch" ->
           (* dispatch <type> <rows> <cols> <unknowns> <correlated> <m_error> <nstd> { 4 cells }*nstd
              cell: Z | O | K<id> | U<id> | C<id> *)
           let ty = (match next () with
               | "T8" -> T8 | "U8" -> U8 | "TE10" -> TE10 | "UE10" -> UE10 | "T16" -> T16
               | "U16" -> U16 | "UE14" -> UE14 | _ -> E12) in
           let rows = int_of_string (next ()) in let cols = int_of_string (next ()) in
           let unk = int_of_string (next ()) in let corr = int_of_string (next ()) in
           let me = b_of (next ()) in
           let nstd = int_of_string (next ()) in
           let cell () = let t = next () in
             let id () = nat_of_int (int_of_string (String.sub t 1 (String.length t - 1))) in
             (match t.[0] with 'Z' -> Zero | 'O' -> One | 'K' -> Known (id ()) | 'U' -> Unknown (id ()) | _ -> Corr (id ())) in
           let stds = times nstd (fun () ->
               let a = cell () in let b = cell () in let c = cell () in let d = cell () in (((a, b), c), d)) in
           let p = dispatch ty (nat_of_int rows) (nat_of_int cols) stds (nat_of_int unk) (nat_of_int corr) me in
           Printf.printf "dispatch %s\n" (match p with PathTrl -> "trl" | PathSimple -> "simple" | PathAuto -> "auto")
         | "dof" ->
           (* dof <unknowns> <nsys> <eq count>*nsys <ncells> <leak count>*ncells *)
           let zi () = coqz_of_z (ZZ.of_string (next ())) in
           let unk = zi () in
           let nsys = int_of_string (next ()) in
           let eqs = times nsys zi in
           let nc = int_of_string (next ()) in
           let lk = times nc zi in
           Printf.printf "dof %s\n" (ZZ.to_string (z_of_coqz (dof unk eqs lk)))
         | "weights" ->
           let restart = b_of (next ()) in
           let nsys = int_of_string (next ()) in
           let lens = times nsys (fun () -> int_of_string (next ())) in
           let w = n_calc_weights restart (systems lens) in
           Printf.printf "weights %s\n" (String.concat " " (List.map (fun v -> string_of_int (int_of_nat v)) w))
         | "sindex" | "aindex" ->
           let offset = if op = "sindex" then b_of (next ()) else true in
           let nsys = int_of_string (next ()) in
           let lens = times nsys (fun () -> int_of_string (next ())) in
           let sys = systems lens in
           let out = List.concat (List.mapi (fun s len ->
               List.init len (fun e ->
                   let i = if op = "sindex" then n_simple_index offset sys (nat_of_int s) (nat_of_int e)
                     else n_auto_index sys (nat_of_int s) (nat_of_int e) in
                   string_of_int (int_of_nat i))) lens) in
           Printf.printf "%s %s\n" op (String.concat " " out)
         | _ -> Printf.printf "unknown %s\n" op)
      end
    done
  with End_of_file -> ()
