(* MODELS: selfcal *)
(* Driver for the self-calibration models.  One case per input line:
     auto <ptol> <ettol> <plen> <xlen> <limit> <n> { <solve_ok> <sumk> <step_ok> <sumd> <sumdx> }*n
          -> "auto tag=<0 converged|1 singular|2 notconverged|3 fuel> entries=<k> { <best> <mult> <lambda> <conv> }*k"
     weights <restart> <nsys> <len>*nsys   -> "weights <v>*total"   (equation number + 1, 0 = untouched)
     sindex <offset> <nsys> <len>*nsys     -> "sindex <i>*total"    (index read for every equation, system by system)
     aindex <nsys> <len>*nsys              -> "aindex <i>*total"
     trl <mt: 4 complex> <mr: 4 complex> <ml: 4 complex> <lguess> <rguess> <disc> <sqrt disc> <n/d> <sqrt n/d>
          -> "trl <l> <r>"   the model's trl_solve with csqrt answered by the nearer of the two given
             (argument, root) pairs
     dispatch <type> <rows> <cols> <unknowns> <correlated> <m_error> <nstd> {A|Z|O|K<id>|U<id>|C<id>}*4*nstd
          -> "dispatch trl|simple|auto|fault"      (A = absent / NULL cell)
     trlrows <T|U> <order, e.g. TRL> <mt> <mr> <ml> <l> <r>   -> "trlrows <n> { 7 coefficients, rhs }*n" (complex = re im)
     updates <s_rows> <s_cols> <nunk> <nf> <findex> <p values nunk*nf> <nstd> { <cell N|K|U<i>>*cells <value>*cells }*nstd
          -> "updates ok <values of all standards>" | "updates null" | "updates oob"
     vinit <v_cells> <m_error> <unknowns per system> <nsys> <eq count>*nsys  -> "vinit -" | "vinit {P|N}*nsys"
     vsave / vrestore <systems> <v_cells> <nstd> { - | v {N | P <value>*v_cells}*systems }*nstd <buflen> <buf>*buflen
          -> "vsave ok <buf>" / "vrestore ok <values of the present matrices in order>" | "... null" | "... oob"
     dof <unknowns> <nsys> <eq count>*nsys <ncells> <leak count>*ncells  -> "dof <df>"
     sindexloop <nsys> <len>*nsys          -> "sindexloop <i>*total"   (w_offset advanced by every system's own count)
     sindexclosed <nsys> <len>*nsys        -> "sindexclosed <i>*total" (model variant w_offset = sindex * equations)
     woffsets <nsys> <len>*nsys            -> "woffsets <w_offset>*nsys"
     dofstd <unknowns> <nsys> <eq count>*nsys <ncells> { <nstd> { <given 0|1><connected 0|1> }*nstd }*ncells
          -> "dofstd <df> <vnlt_count>*ncells"
     merr <reinit> <F> <ncalls> { clear | invalid | set <nf id>*F (- | <tr id>*F) <fresh nf id, tr id>*F }*ncalls
          -> "merr none" | "merr <nf id> <tr id> ..." (F pairs); ids are numbers, 0 = the value 0.0
     weight2 <nf> <tr> <re> <im>           -> "weight2 <nf^2 + tr^2 |m|^2 as coded>"   (exact rational)
     chisqp <df> <x2> <value of exp(-x2/2)>  -> "chisqp <p>"   PvalueModel.chisq_pvalue with exp answered by the given value
     pvstat <unknowns> <nf> <tr> <xlen> {re im}*xlen <nsys> { <neq> { <own m re im> <nterms> { <neg 0|1> <m: - | re im>
            <s: - | re im> <v: - | re im> <xindex | -> }*nterms }*neq }*nsys ( - | <ncells> { <nstd> { <given><connected> re im }*nstd }*ncells )
          -> "pvstat <chisq> <df> { <count> <sum re> <sum im> <sumsq> }*ncells"   PvalueModel.calc_stat, leak_of_samples, cell_samples
     merra <F> <cal f>*F <frequencies_valid> <lo> <hi> <full_s_ok> <ntab> { <n> <fv>*n <ys>*n <values at the cal f>*F }*ntab
           <ncalls> { <n> ( - | <fv>*n ) ( - | <nf>*n ) ( - | <tr>*n ) { <fresh nf> <fresh tr> }*F }*ncalls
          -> "merra { r=<0|1> s=<none | nf,tr;nf,tr;...> }*ncalls"  return value and stored vector after every call
             (C18MErrorModel.run_args / returns; the interpolation is answered from the table)
   Reals are exact rationals "p/q", complex numbers two reals. *)
#include "glue.ml.inc"
let toks = ref []
let next () = match !toks with [] -> failwith "short line" | x :: r -> toks := r; x
let rec times n f = if n = 0 then [] else let x = f () in x :: times (n - 1) f
let b_of s = s <> "0"
let systems lens =
  (* equations numbered consecutively over all systems *)
  let k = ref 0 in
  List.map (fun len -> times len (fun () -> let v = nat_of_int !k in incr k; v)) lens
let () =
  try
    while true do
      let line = input_line stdin in
      toks := List.filter (fun s -> s <> "") (String.split_on_char ' ' line);
      if !toks <> [] then begin
        let op = next () in
        (match op with
         | "auto" ->
           let ptol = qc_of_string (next ()) in let ettol = qc_of_string (next ()) in
           let plen = qc_of_string (next ()) in let xlen = qc_of_string (next ()) in
           let limit = int_of_string (next ()) in
           let n = int_of_string (next ()) in
           let ob = times n (fun () ->
               let so = b_of (next ()) in let sk = qc_of_string (next ()) in
               let st = b_of (next ()) in let sd = qc_of_string (next ()) in
               let sx = qc_of_string (next ()) in
               { o_solve_ok = so; o_sumk = sk; o_step_ok = st; o_sumd = sd; o_sumdx = sx }) in
           let (o, tr) = replay_run ob ptol ettol plen xlen (nat_of_int limit) in
           Printf.printf "auto tag=%d entries=%d%s\n" (int_of_nat (outcome_tag o)) (List.length tr)
             (String.concat "" (List.map (fun e ->
                  Printf.sprintf " %d %s %s %d" (if e.e_best then 1 else 0) (string_of_qc e.e_mult)
                    (string_of_qc e.e_lambda) (if e.e_converged then 1 else 0)) tr))
         | "trl" ->
           let cx () = let a = qc_of_string (next ()) in let b = qc_of_string (next ()) in { qre = a; qim = b } in
           let m2 () = let a = cx () in let b = cx () in let c = cx () in let d = cx () in
             { m11 = o a; m12 = o b; m21 = o c; m22 = o d } in
           let mt = m2 () in let mr = m2 () in let ml = m2 () in
           let lg = cx () in let rg = cx () in
           let disc = cx () in let sdisc = cx () in let nd = cx () in let snd_ = cx () in
           let qcf (x : qc) = ZZ.to_float (z_of_coqz x.this.qnum) /. ZZ.to_float (z_of_pos x.this.qden) in
           let dist a b = qcf (qi_nrm (qi_sub a b)) in
           let sq (z : qi) : qi = if dist z disc <= dist z nd then sdisc else snd_ in
           let (l, r) = q_trl_solve sq mt mr ml (o lg) (o rg) in
           Printf.printf "trl %s %s\n" (string_of_qi (u l)) (string_of_qi (u r))
         | "dispatch" ->
           (* dispatch <type> <rows> <cols> <unknowns> <correlated> <m_error> <nstd> { 4 cells }*nstd
              cell: Z | O | K<id> | U<id> | C<id> *)
           let ty = (match next () with
               | "T8" -> T8 | "U8" -> U8 | "TE10" -> TE10 | "UE10" -> UE10 | "T16" -> T16
               | "U16" -> U16 | "UE14" -> UE14 | _ -> E12) in
           let rows = int_of_string (next ()) in let cols = int_of_string (next ()) in
           let unk = int_of_string (next ()) in let corr = int_of_string (next ()) in
           let me = b_of (next ()) in
           let nstd = int_of_string (next ()) in
           let cell () = let t = next () in
             let id () = nat_of_int (int_of_string (String.sub t 1 (String.length t - 1))) in
             (match t.[0] with 'A' -> Absent | 'Z' -> Zero | 'O' -> One | 'K' -> Known (id ()) | 'U' -> Unknown (id ()) | _ -> Corr (id ())) in
           let stds = times nstd (fun () ->
               let a = cell () in let b = cell () in let c = cell () in let d = cell () in (((a, b), c), d)) in
           let p = dispatch ty (nat_of_int rows) (nat_of_int cols) stds (nat_of_int unk) (nat_of_int corr) me in
           Printf.printf "dispatch %s\n" (match p with Val PathTrl -> "trl" | Val PathSimple -> "simple" | Val PathAuto -> "auto" | Fault -> "fault")
         | "trlrows" ->
           let kind = next () in
           let order = List.map (fun c -> match c with 'T' -> KT | 'R' -> KR | _ -> KL)
               (List.init (String.length (List.hd !toks)) (String.get (List.hd !toks))) in
           let _ = next () in
           let cx () = let a = qc_of_string (next ()) in let b = qc_of_string (next ()) in { qre = a; qim = b } in
           let m2 () = let a = cx () in let b = cx () in let c = cx () in let d = cx () in
             { m11 = o a; m12 = o b; m21 = o c; m22 = o d } in
           let mt = m2 () in let mr = m2 () in let ml = m2 () in
           let l = cx () in let r = cx () in
           let rows = if kind = "T" then q_trl_rows_t order mt mr ml (o l) (o r)
             else q_trl_rows_u order mt mr ml (o l) (o r) in
           Printf.printf "trlrows %d%s\n" (List.length rows)
             (String.concat "" (List.map (fun (cs, b) ->
                  String.concat "" (List.map (fun c -> " " ^ string_of_qi (u c)) cs) ^ " " ^ string_of_qi (u b)) rows))
         | "updates" ->
           let ni () = int_of_string (next ()) in
           let sr = ni () in let sc = ni () in let nunk = ni () in let nf = ni () in let findex = ni () in
           let pv = times nunk (fun () -> times nf (fun () -> nat_of_int (ni ()))) in
           let nstd = ni () in
           let stds = times nstd (fun () ->
               let cells = times (sr * sc) (fun () -> let t = next () in
                                             match t.[0] with
                                             | 'N' -> None
                                             | 'K' -> Some { sp_unknown = false; sp_uindex = O }
                                             | _ -> Some { sp_unknown = true;
                                                           sp_uindex = nat_of_int (int_of_string (String.sub t 1 (String.length t - 1))) }) in
               let vals = times (sr * sc) (fun () -> nat_of_int (ni ())) in
               { ss_cells = cells; ss_vals = vals }) in
           (match n_update_s (nat_of_int sr) (nat_of_int sc) pv (nat_of_int findex) stds with
            | MOk r -> Printf.printf "updates ok%s\n"
                         (String.concat "" (List.map (fun s -> String.concat "" (List.map (fun v -> " " ^ string_of_int (int_of_nat v)) s.ss_vals)) r))
            | MNull -> Printf.printf "updates null\n"
            | MOob -> Printf.printf "updates oob\n")
         | "vinit" ->
           let ni () = int_of_string (next ()) in
           let vc = ni () in let me = b_of (next ()) in let ups = ni () in let nsys = ni () in
           let eqs = times nsys (fun () -> nat_of_int (ni ())) in
           (match n_init_vvec (nat_of_int vc) O me (nat_of_int ups) eqs with
            | None -> Printf.printf "vinit -\n"
            | Some vs -> Printf.printf "vinit%s\n" (String.concat "" (List.map (fun e -> match e with None -> " N" | Some _ -> " P") vs)))
         | "vsave" | "vrestore" ->
           let ni () = int_of_string (next ()) in
           let systems = ni () in let vc = ni () in let nstd = ni () in
           let stds = times nstd (fun () ->
               match next () with
               | "-" -> None
               | _ -> Some (times systems (fun () ->
                   match next () with
                   | "N" -> None
                   | _ -> Some (times vc (fun () -> nat_of_int (ni ())))))) in
           let bl = ni () in
           let buf = times bl (fun () -> nat_of_int (ni ())) in
           let pr l = String.concat "" (List.map (fun v -> " " ^ string_of_int (int_of_nat v)) l) in
           if op = "vsave" then
             (match n_save_v (nat_of_int systems) (nat_of_int vc) stds buf with
              | MOk b -> Printf.printf "vsave ok%s\n" (pr b)
              | MNull -> Printf.printf "vsave null\n" | MOob -> Printf.printf "vsave oob\n")
           else
             (match n_restore_v (nat_of_int systems) (nat_of_int vc) stds buf with
              | MOk r -> Printf.printf "vrestore ok%s\n"
                           (String.concat "" (List.map (fun vv -> match vv with
                                | None -> ""
                                | Some vs -> String.concat "" (List.map (fun e -> match e with None -> "" | Some m -> pr m) vs)) r))
              | MNull -> Printf.printf "vrestore null\n" | MOob -> Printf.printf "vrestore oob\n")
         | "dof" ->
           (* dof <unknowns> <nsys> <eq count>*nsys <ncells> <leak count>*ncells *)
           let zi () = coqz_of_z (ZZ.of_string (next ())) in
           let unk = zi () in
           let nsys = int_of_string (next ()) in
           let eqs = times nsys zi in
           let nc = int_of_string (next ()) in
           let lk = times nc zi in
           Printf.printf "dof %s\n" (ZZ.to_string (z_of_coqz (dof unk eqs lk)))
         | "weights" ->
           let restart = b_of (next ()) in
           let nsys = int_of_string (next ()) in
           let lens = times nsys (fun () -> int_of_string (next ())) in
           let w = n_calc_weights restart (systems lens) in
           Printf.printf "weights %s\n" (String.concat " " (List.map (fun v -> string_of_int (int_of_nat v)) w))
         | "sindex" | "aindex" ->
           let offset = if op = "sindex" then b_of (next ()) else true in
           let nsys = int_of_string (next ()) in
           let lens = times nsys (fun () -> int_of_string (next ())) in
           let sys = systems lens in
           let out = List.concat (List.mapi (fun s len ->
               List.init len (fun e ->
                   let i = if op = "sindex" then n_simple_index offset sys (nat_of_int s) (nat_of_int e)
                     else n_auto_index sys (nat_of_int s) (nat_of_int e) in
                   string_of_int (int_of_nat i))) lens) in
           Printf.printf "%s %s\n" op (String.concat " " out)
         | "sindexloop" | "sindexclosed" ->
           let nsys = int_of_string (next ()) in
           let lens = times nsys (fun () -> int_of_string (next ())) in
           let sys = systems lens in
           let out = List.concat (List.mapi (fun s len ->
               List.init len (fun e ->
                   let i = if op = "sindexloop" then n_simple_index_loop sys (nat_of_int s) (nat_of_int e)
                     else n_simple_index_closed sys (nat_of_int s) (nat_of_int e) in
                   string_of_int (int_of_nat i))) lens) in
           Printf.printf "%s %s\n" op (String.concat " " out)
         | "woffsets" ->
           let nsys = int_of_string (next ()) in
           let lens = times nsys (fun () -> int_of_string (next ())) in
           let offs = n_running_offsets O (systems lens) in
           Printf.printf "woffsets %s\n" (String.concat " " (List.map (fun v -> string_of_int (int_of_nat v)) offs))
         | "dofstd" ->
           let zi () = coqz_of_z (ZZ.of_string (next ())) in
           let unk = zi () in
           let nsys = int_of_string (next ()) in
           let eqs = times nsys zi in
           let nc = int_of_string (next ()) in
           let cells = times nc (fun () ->
               let nstd = int_of_string (next ()) in
               times nstd (fun () -> let t = next () in (t.[0] = '1', t.[1] = '1'))) in
           Printf.printf "dofstd %s%s\n" (ZZ.to_string (z_of_coqz (dof_of_standards unk eqs cells)))
             (String.concat "" (List.map (fun c -> " " ^ ZZ.to_string (z_of_coqz (leak_count c))) cells))
         | "merr" ->
           let reinit = b_of (next ()) in
           let f = int_of_string (next ()) in
           let ncalls = int_of_string (next ()) in
           let ni () = nat_of_int (int_of_string (next ())) in
           let h = times ncalls (fun () ->
               match next () with
               | "clear" -> ([], MClear)
               | "invalid" -> ([], MInvalid)
               | _ ->
                 let nf = times f ni in
                 let tr = (match !toks with
                     | "-" :: r -> toks := r; None
                     | _ -> Some (times f ni)) in
                 let fresh = times f (fun () -> let a = ni () in let b = ni () in (a, b)) in
                 (fresh, MSet (nf, tr))) in
           (match n_merr_run reinit None h with
            | None -> Printf.printf "merr none\n"
            | Some v -> Printf.printf "merr%s\n"
                          (String.concat "" (List.map (fun (a, b) -> Printf.sprintf " %d %d" (int_of_nat a) (int_of_nat b)) v)))
         | "weight2" ->
           let nf = qc_of_string (next ()) in let tr = qc_of_string (next ()) in
           let re = qc_of_string (next ()) in let im = qc_of_string (next ()) in
           Printf.printf "weight2 %s\n" (string_of_qc (q_weight2 nf tr { qre = re; qim = im }))
         | "chisqp" ->
           let df = coqz_of_z (ZZ.of_string (next ())) in
           let x2 = qc_of_string (next ()) in let ev = qc_of_string (next ()) in
           let z = qc_of_string "0" in
           Printf.printf "chisqp %s\n" (string_of_qc (q_chisq_pvalue (fun _ -> ev) (fun _ -> z) (fun _ -> z) z df x2))
         | "pvstat" ->
           let ni () = int_of_string (next ()) in
           let qn () = qc_of_string (next ()) in
           let cx () = let a = qn () in let b = qn () in { qre = a; qim = b } in
           let ocx () = (match !toks with "-" :: r -> toks := r; None | _ -> Some (cx ())) in
           let unk = ni () in let nf = qn () in let tr = qn () in
           let xlen = ni () in let x = times xlen cx in
           let nsys = ni () in
           let systems = times nsys (fun () ->
               let neq = ni () in
               times neq (fun () ->
                   let own = cx () in
                   let nt = ni () in
                   let terms = times nt (fun () ->
                       let neg = b_of (next ()) in
                       let m = ocx () in let s_ = ocx () in let v = ocx () in
                       let xi = (match next () with "-" -> None | t -> Some (nat_of_int (int_of_string t))) in
                       { t_neg = neg; t_m = m; t_s = s_; t_v = v; t_x = xi }) in
                   { e_m = own; e_terms = terms })) in
           let leak = (match !toks with
               | "-" :: r -> toks := r; None
               | _ -> let nc = ni () in
                 Some (times nc (fun () ->
                     let nstd = ni () in
                     let stds = times nstd (fun () -> let t = next () in let m = cx () in ((t.[0] = '1', t.[1] = '1'), m)) in
                     q_leak_of_samples (q_cell_samples stds)))) in
           let (chisq, df) = q_calc_stat (nat_of_int unk) nf tr x systems leak in
           Printf.printf "pvstat %s %s%s\n" (string_of_qc chisq) (ZZ.to_string (z_of_coqz df))
             (match leak with None -> "" | Some cells ->
                String.concat "" (List.map (fun l -> Printf.sprintf " %s %s %s" (ZZ.to_string (z_of_coqz l.l_count))
                                              (string_of_qi l.l_sum) (string_of_qc l.l_sumsq)) cells))
         | "merra" ->
           let ni () = int_of_string (next ()) in
           let qn () = qc_of_string (next ()) in
           let f = ni () in
           let calf = times f qn in
           let fvalid = b_of (next ()) in let lo = qn () in let hi = qn () in let fullok = b_of (next ()) in
           let key l = String.concat "," (List.map string_of_qc l) in
           let ntab = ni () in
           let tab = times ntab (fun () -> let n = ni () in let fv = times n qn in let ys = times n qn in
                                  let vals = times f qn in ((key fv, key ys), vals)) in
           let interp fv ys fq =
             let vals = List.assoc (key fv, key ys) tab in
             let rec find l v = (match l, v with
                 | a :: r, b :: r' -> if string_of_qc a = string_of_qc fq then b else find r r'
                 | _, _ -> failwith "interp: not a calibration frequency") in
             find calf vals in
           (* MIN_DX of src/vnacommon_spline.c: the binary64 value of 0.0001 *)
           let env = { en_calf = calf; en_fvalid = fvalid; en_lo = lo; en_hi = hi; en_full_s_ok = fullok;
                       en_gaps_ok = q_gaps_ok (qc_of_string "7378697629483821/73786976294838206464") } in
           let ncalls = ni () in
           let opt n = (match !toks with "-" :: r -> toks := r; None | _ -> Some (times n qn)) in
           let h = times ncalls (fun () ->
               let n = ni () in
               let fv = opt n in let nfv = opt n in let trv = opt n in
               let fresh = times f (fun () -> let a = qn () in let b = qn () in (a, b)) in
               (fresh, { a_fv = fv; a_n = nat_of_int n; a_nf = nfv; a_tr = trv })) in
           let rec prefixes acc l = (match l with [] -> [] | a :: r -> let p = acc @ [a] in p :: prefixes p r) in
           let out = List.map (fun p ->
               let rets = q_merr_returns interp env p in
               let r = List.nth rets (List.length rets - 1) in
               let st = q_merr_run_args interp true env None p in
               Printf.sprintf " r=%d s=%s" (if r then 1 else 0)
                 (match st with None -> "none"
                              | Some v -> String.concat ";" (List.map (fun (a, b) -> string_of_qc a ^ "," ^ string_of_qc b) v)))
               (prefixes [] h) in
           Printf.printf "merra%s\n" (String.concat "" out)
         | _ -> Printf.printf "unknown %s\n" op)
      end
    done
  with End_of_file -> ()
