(* MODELS: mem2 *)
(* Driver for the vnacal_new_t allocation-skeleton model (coq/Mem/NewAlloc.v).  Input: the script of
   harness/mem_wb2.c, every op line followed by the "I ..." line (argument class) the harness printed for it:
     <k> cfg <kind>...                 (no I line)
     <k> N type rows cols freqs        I valid mcells scells eterms leak systems conn tterms freqs
     <k> T h                           I
     <k> A h ...                       I check cells nprm p... neq sys:terms...   (check 0 refused before any request, 1 ok, 2 refused after vnm_s_matrix)
     <k> E h ...                       I class n            (class 0 bad count, 1 clear, 2 invalid, 3 set, 4 the spline refuses the frequencies)
     <k> S h                           I total trl ninit ncal fails   (requests of the fault-free call: total, of solve_init alone, of calibration_alloc alone; a kernel gives up)
     <k> F h                           I
     <k> end                           (no I line)
   A first argument "variant=<NFixed|NClearDangling|NHoldEarly|NSplineLate|NWriteBackLate>" selects the model variant.
   Output per op, as the harness:  R <Done|Err> <errno> <live> <requests> | <held:freqs:gamma>... | <per handle> *)
open MODELS
let rec nat_of_int n = if n <= 0 then O else S (nat_of_int (n - 1))
let rec int_of_nat = function O -> 0 | S n -> 1 + int_of_nat n
let rec length = function [] -> 0 | _ :: t -> 1 + length t
let fault_name = function OOB -> "OOB" | UseUninit -> "UseUninit" | UseAfterFree -> "UseAfterFree" | NullDeref -> "NullDeref" | IntOverflow -> "IntOverflow" | VlaBound -> "VlaBound"
let errno_name = function E0 -> "E0" | EINVAL -> "EINVAL" | ENOENT -> "ENOENT" | ENOMEM -> "ENOMEM"
let out_str = function Done -> "Done E0" | Err e -> "Err " ^ errno_name e
let with_fault k (s : astate) : astate = { fail_at = (if k < 0 then None else Some (nat_of_int k)); live = s.live; fresh = s.fresh }
let toks line = List.filter (fun s -> s <> "") (String.split_on_char ' ' line)
let requests (s : astate) (s' : astate) =
  int_of_nat s'.fresh - int_of_nat s.fresh + (match s.fail_at, s'.fail_at with Some _, None -> 1 | _ -> 0)
let summary (w : world) =
  let b = Buffer.create 128 in
  Buffer.add_string b " |";
  List.iter (fun p -> Buffer.add_string b (Printf.sprintf " %d:%d:%d" (int_of_nat p.pheld) (int_of_nat p.pfn) (match p.pgv with Some _ -> 1 | None -> 0))) w.w_prm;
  Buffer.add_string b " |";
  List.iter (fun o -> match o with
      | None -> Buffer.add_string b " -"
      | Some v ->
        let keys = List.sort compare (List.map (fun (k, _) -> int_of_nat k) v.vn_nodes) in
        Buffer.add_string b (Printf.sprintf " k%s;u%s;c%d;n%d;m%d;q%d;e%d;l%d"
                               (String.concat "," (List.map string_of_int keys))
                               (String.concat "," (List.map (fun k -> string_of_int (int_of_nat k)) v.vn_unk))
                               (int_of_nat v.vn_cap) (length v.vn_nodes) (int_of_nat v.vn_nmeas) (length v.vn_eqs)
                               (match v.vn_merr with Some _ -> 1 | None -> 0) (match v.vn_cal with [] -> 0 | _ -> 1))) w.w_new;
  Buffer.contents b
let () =
  let nv = ref NFixed in
  Array.iter (fun a -> match a with
      | "variant=NClearDangling" -> nv := NClearDangling
      | "variant=NHoldEarly" -> nv := NHoldEarly
      | "variant=NSplineLate" -> nv := NSplineLate
      | "variant=NWriteBackLate" -> nv := NWriteBackLate
      | _ -> ()) Sys.argv;
  let w = ref None and st = ref (start None) in
  let finish () =
    (match !w with
     | None -> ()
     | Some (wd : world) ->
       (match free_ring wd.w_new wd.w_prm !st with
        | Fault f -> Printf.printf "FAULT %s\n" (fault_name f)
        | Ok (ps, s1) ->
          let held = String.concat "" (List.map (fun p -> " " ^ string_of_int (int_of_nat p.pheld)) ps) in
          (match free_prms ps s1 with
           | Fault f -> Printf.printf "FAULT %s\n" (fault_name f)
           | Ok (_, s2) -> Printf.printf "R Done E0 %d 0 |%s | %d 3\n" (length s1.live) held (length s2.live))));
    w := None; st := start None in
  (try
    while true do
      let line = input_line stdin in
      match toks line with
      | _ :: "end" :: _ | "end" :: _ -> finish ()
      | _ :: "cfg" :: kinds ->
        finish ();
        let kind t = (match t.[0] with
            | 's' -> KScalar
            | 'u' -> KUnknown (nat_of_int (int_of_string (String.sub t 1 (String.length t - 1))))
            | _ -> KCorr (nat_of_int (int_of_string (String.sub t 1 (String.length t - 1))))) in
        let ks = [KScalar; KScalar; KScalar] @ List.map kind kinds in
        let wd = { w_prm = mkprms ks; w_new = [] } in
        w := Some wd; st := start None;
        Printf.printf "R Done E0 0 0%s\n" (summary wd)
      | k :: op :: args ->
        let info = toks (input_line stdin) in
        let ia i = int_of_string (List.nth info (i + 1)) in
        let a i = int_of_string (List.nth args i) in
        let k = int_of_string k in
        (match !w with
         | None -> print_string "R SKIP E0 0 0 | |\n"
         | Some wd ->
           let s = with_fault k !st in
           let h () = nat_of_int (a 0) in
           let solve_fails = ref false and count_note = ref "" in
           let wop = (match op with
               | "N" ->
                 Some (WNew { c_valid = (ia 0 <> 0); c_freqs = nat_of_int (ia 8); c_mcells = nat_of_int (ia 1); c_scells = nat_of_int (ia 2);
                              c_eterms = nat_of_int (ia 3); c_leak = (if ia 4 < 0 then None else Some (nat_of_int (ia 4)));
                              c_systems = nat_of_int (ia 5); c_conn = (ia 6 <> 0); c_tterms = nat_of_int (ia 7) })
               | "T" -> Some (WSetF (h ()))
               | "A" ->
                 if List.length info < 2 || List.nth info 1 = "none" then Some (WAdd (h (), { a_ok = ABad; a_cells = O; a_prm = []; a_eqs = [] }))
                 else begin
                   let np = ia 2 in
                   let prm = List.init np (fun i -> let p = ia (3 + i) in if p < 0 then nat_of_int 100000 else nat_of_int p) in
                   let neq = ia (3 + np) in
                   let eqs = List.init neq (fun i ->
                       match String.split_on_char ':' (List.nth info (5 + np + i)) with
                       | [sy; t] -> (nat_of_int (int_of_string sy), nat_of_int (int_of_string t))
                       | _ -> (O, O)) in
                   Some (WAdd (h (), { a_ok = (match ia 0 with 1 -> AOk | 2 -> ANeedFullS | 3 -> ASingular | _ -> ABad); a_cells = nat_of_int (ia 1); a_prm = prm; a_eqs = eqs }))
                 end
               | "E" ->
                 if List.length info < 2 || List.nth info 1 = "none" then Some (WMErr (h (), MEBadCount))
                 else Some (WMErr (h (), (match ia 0 with 0 -> MEBadCount | 1 -> MEClear | 2 -> MEInvalid | 4 -> MESplineInvalid (nat_of_int (ia 1)) | _ -> MESet (nat_of_int (ia 1)))))
               | "S" ->
                 if List.length info < 2 || List.nth info 1 = "none" then Some (WSolve (h (), O, false, false))
                 else begin
                   let total = ia 0 and trl = (ia 1 <> 0) and ninit = ia 2 and ncal = ia 3 and fails = (ia 4 <> 0) in
                   solve_fails := fails;
                   (match handle wd (h ()) with
                    | Some v when ninit >= 0 && ncal >= 0 ->
                      (* the request lists of _vnacal_new_solve_init and _vnacal_calibration_alloc, one by one *)
                      let mi = int_of_nat (solve_init_requests v) and mc = int_of_nat (cal_requests v.vn_cfg) in
                      if mi <> ninit || mc <> ncal then count_note := Printf.sprintf " !requests solve_init model %d C %d, calibration_alloc model %d C %d" mi ninit mc ncal
                    | _ -> ());
                   (* temporary requests of the numeric kernels = total of the fault-free call - the requests the model accounts for *)
                   let base = (match handle wd (h ()) with
                       | None -> 0
                       | Some v ->
                         let s0 = with_fault (-1) !st in
                         (match solve !nv v wd.w_prm O trl fails s0 with Ok (_, s1) -> requests s0 s1 | Fault _ -> 0)) in
                   Some (WSolve (h (), nat_of_int (max 0 (total - base)), trl, fails))
                 end
               | "F" -> Some (WFree (h ()))
               | _ -> None) in
           (match wop with
            | None -> print_string "R SKIP E0 0 0 | |\n"
            | Some o ->
              (match wstep !nv wd o s with
               | Fault f -> Printf.printf "FAULT %s\n" (fault_name f)
               | Ok ((wd', out), s') ->
                 w := Some wd'; st := s';
                 (* a kernel that gives up reports a math error (EDOM): errno class EOTHER on the C side *)
                 let os = (match out with Err EINVAL when !solve_fails && op = "S" && (match handle wd (h ()) with Some v -> v.vn_fvalid | None -> false) -> "Err EOTHER" | _ -> out_str out) in
                 Printf.printf "R %s %d %d%s%s\n" os (length s'.live) (requests s s') (summary wd') !count_note)))
      | _ -> ()
    done
  with End_of_file -> ());
  finish ()
