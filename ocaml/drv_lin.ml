(* MODELS: lin *)
(* Driver for the linear-algebra and n-port conversion models.  One case per input line:
     lu n <2*n*n rationals>
     mldivide m n <A: m*m complex> <B: m*n complex>
     mrdivide m n <B: m*n complex> <A: n*n complex>
     minverse n <A>
     stozn|ztosn|stoyn|ytosn n <M: n*n> <z0: n>      ztoyn|ytozn n <M>
     stozin|ztozin|ytozin n <M> <z0>
   complex = two rationals "p/q".  Output: one line per case (exact rationals). *)
#include "glue.ml.inc"
let toks = ref []
let next () = match !toks with [] -> failwith "short line" | x :: r -> toks := r; x
let cx () = let a = qc_of_string (next ()) in let b = qc_of_string (next ()) in o { qre = a; qim = b }
let rec times n f = if n = 0 then [] else let x = f () in x :: times (n - 1) f
let matrix r c = times r (fun () -> times c cx)
let pm (m : Obj.t list list) = String.concat " " (List.map (fun r -> String.concat " " (List.map (fun x -> string_of_qi (u x)) r)) m)
let pv (v : Obj.t list) = String.concat " " (List.map (fun x -> string_of_qi (u x)) v)
let () =
  try
    while true do
      let line = input_line stdin in
      toks := List.filter (fun s -> s <> "") (String.split_on_char ' ' line);
      if !toks <> [] then begin
        let op = next () in
        (match op with
         | "lu" ->
           let n = int_of_string (next ()) in
           let a = matrix n n in
           let st = q_lu a (nat_of_int n) in
           Printf.printf "lu piv=%s det=%s cands=%s a=%s\n"
             (String.concat "," (List.map (fun k -> string_of_int (int_of_nat k)) st.lu_pivots))
             (string_of_qi (u st.lu_d))
             (String.concat ";" (List.map (fun l -> String.concat "," (List.map string_of_qc l)) st.lu_cands))
             (pm st.lu_a)
         | "mldivide" ->
           let m = int_of_string (next ()) in let n = int_of_string (next ()) in
           let a = matrix m m in let b = matrix m n in
           let (x, d) = q_mldivide a b (nat_of_int m) (nat_of_int n) in
           Printf.printf "mldivide det=%s x=%s\n" (string_of_qi (u d)) (pm x)
         | "mrdivide" ->
           let m = int_of_string (next ()) in let n = int_of_string (next ()) in
           let b = matrix m n in let a = matrix n n in
           let (x, d) = q_mrdivide b a (nat_of_int m) (nat_of_int n) in
           Printf.printf "mrdivide det=%s x=%s\n" (string_of_qi (u d)) (pm x)
         | "minverse" ->
           let n = int_of_string (next ()) in
           let a = matrix n n in
           let (x, d) = q_minverse a (nat_of_int n) in
           Printf.printf "minverse det=%s x=%s\n" (string_of_qi (u d)) (pm x)
         | "stozn" | "ztosn" | "stoyn" | "ytosn" ->
           let n = int_of_string (next ()) in
           let m = matrix n n in let z0 = times n cx in
           let f = (match op with "stozn" -> q_stozn | "ztosn" -> q_ztosn | "stoyn" -> q_stoyn | _ -> q_ytosn) in
           Printf.printf "%s %s\n" op (pm (f (nat_of_int n) m z0))
         | "ztoyn" | "ytozn" ->
           let n = int_of_string (next ()) in
           let m = matrix n n in
           let f = (match op with "ztoyn" -> q_ztoyn | _ -> q_ytozn) in
           Printf.printf "%s %s\n" op (pm (f (nat_of_int n) m))
         | "stozin" | "ztozin" | "ytozin" ->
           let n = int_of_string (next ()) in
           let m = matrix n n in let z0 = times n cx in
           let f = (match op with "stozin" -> q_stozin | "ztozin" -> q_ztozin | _ -> q_ytozin) in
           Printf.printf "%s %s\n" op (pv (f (nat_of_int n) m z0))
         | _ -> Printf.printf "unknown %s\n" op)
      end
    done
  with End_of_file -> ()
