(* NEEDS: SelfCal/AutoReplay.vo SelfCal/WeightModel.vo SelfCal/TrlQI.vo SelfCal/DispatchModel.vo SelfCal/TrlTermsQI.vo SelfCal/GuardModel.vo *)
(* Extraction of the executable self-calibration models (AutoLoop replay kernel, weight-vector
   indexing).  Only ExtrOcamlBasic's directives are in effect. *)
Require Extraction.
Require Import ExtrOcamlBasic.
Require Import List ZArith QArith Qcanon.
Require Import LV.Base.CField LV.Base.QcI LV.SelfCal.AutoLoop LV.SelfCal.AutoReplay LV.SelfCal.WeightModel.
Require Import LV.SelfCal.TrlModel LV.SelfCal.TrlQI LV.SelfCal.DispatchModel.
Require Import LV.SelfCal.TrlTermsModel LV.SelfCal.TrlTermsQI LV.SelfCal.GuardModel.

(* the checked-memory walks over integer markers *)
Definition n_update_s := update_s_matrices nat.
Definition n_save_v := save_v_matrices nat.
Definition n_restore_v := restore_v_matrices nat.
Definition n_init_vvec := init_vvec nat.

(* the weight model over equation numbers: the "weight" of equation number m is m + 1, the
   calloc zero is 0; the correspondence maps the numbers back to measurements *)
Definition n_calc_weights := calc_weights nat nat S O.
Definition n_simple_index := simple_index nat.
Definition n_auto_index := auto_index nat.

Extraction Language OCaml.
Set Extraction KeepSingleton.
Extraction "models_selfcal.ml"
  QI qre qim qq Qnum Qden this
  replay_run Obs outcome_tag e_best e_mult e_lambda e_converged
  n_calc_weights n_simple_index n_auto_index
  q_trl_solve M2 qi_nrm qi_sub
  dof
  dispatch
  q_trl_rows_t q_trl_rows_u
  n_update_s n_save_v n_restore_v n_init_vvec.
