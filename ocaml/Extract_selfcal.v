(* NEEDS: SelfCal/AutoReplay.vo SelfCal/WeightModel.vo SelfCal/TrlQI.vo SelfCal/DispatchModel.vo SelfCal/TrlTermsQI.vo SelfCal/GuardModel.vo SelfCal/C18MErrorModel.vo SelfCal/PvalueModel.vo SelfCal/PvalueQI.vo SelfCal/VMatrixNoise.vo *)
(* Extraction of the executable self-calibration models (AutoLoop replay kernel, weight-vector
   indexing).  Only ExtrOcamlBasic's directives are in effect. *)
Require Extraction.
Require Import ExtrOcamlBasic.
Require Import List ZArith QArith Qcanon.
Require Import LV.Base.CField LV.Base.QcI LV.SelfCal.AutoLoop LV.SelfCal.AutoReplay LV.SelfCal.WeightModel.
Require Import LV.SelfCal.TrlModel LV.SelfCal.TrlQI LV.SelfCal.DispatchModel.
Require Import LV.SelfCal.TrlTermsModel LV.SelfCal.TrlTermsQI LV.SelfCal.GuardModel.
Require Import LV.SelfCal.C18MErrorModel LV.SelfCal.PvalueModel LV.SelfCal.PvalueQI LV.SelfCal.VMatrixNoise.

(* the checked-memory walks over integer markers *)
Definition n_update_s := update_s_matrices nat.
Definition n_save_v := save_v_matrices nat.
Definition n_restore_v := restore_v_matrices nat.
Definition n_init_vvec := init_vvec nat.

(* the weight model over equation numbers: the "weight" of equation number m is m + 1, the
   calloc zero is 0; the correspondence maps the numbers back to measurements *)
Definition n_calc_weights := calc_weights nat nat S O.
Definition n_simple_index := simple_index nat.
Definition n_auto_index := auto_index nat.
(* w_offset as the loop of solve_simple computes it, and the closed-form model variant *)
Definition n_simple_index_loop := simple_index_loop nat.
Definition n_simple_index_closed := simple_index_closed nat.
Definition n_running_offsets := running_offsets nat.
(* vnacal_new_set_m_error as a state machine over numbered values (0 = 0.0) *)
Definition n_merr_run := run nat O.

Extraction Language OCaml.
Set Extraction KeepSingleton.
Extraction "models_selfcal.ml"
  QI qre qim qq Qnum Qden this
  replay_run Obs outcome_tag e_best e_mult e_lambda e_converged
  n_calc_weights n_simple_index n_auto_index
  q_trl_solve M2 qi_nrm qi_sub
  dof
  dispatch
  q_trl_rows_t q_trl_rows_u
  n_update_s n_save_v n_restore_v n_init_vvec
  n_simple_index_loop n_simple_index_closed n_running_offsets
  leak_count dof_of_standards
  n_merr_run
  q_weight2 q_calc_stat q_chisq_pvalue q_leak_of_samples q_cell_samples pvalue_of_stat
  q_merr_run_args q_merr_returns q_gaps_ok.
