(* MODELS: data *)
(* Driver for the vnadata_t container model and the vnadata_convert model (C15, C05).
   usage: drv_data [--as-found | --quirks d4,d5,d6,d40] [--dd2-fixed]  < script  > transcript
   (--dd2-fixed: the model variant with the repair of finding DD2, ConvertModel.dd2_fixed = true)
   Script: one operation per line (see harness/data_harness.c for the grammar, both programs read
   the same file).  Values are Gaussian integers "re,im".
   Transcript: per operation
       [def <k> <function> <n> <matrix values> | <z0 values>]*     (one per vnaconv call)
       R <ret> <errno class> <callbacks> <payload>
       D <object> <digest of the object the operation wrote to>
   Values are printed symbolically: L:re:im for a literal, T:k:i for cell i of the result of
   vnaconv call number k.  harness/data_harness.c (mode "resolve") turns them into doubles by
   calling the named functions, so that model and implementation are compared bit for bit.
   Trusted glue: integer conversions, parsing, printing. *)
open MODELS

type value = Lit of int * int | Tok of int * int

let rec nat_of_int n = if n <= 0 then O else S (nat_of_int (n - 1))
let rec int_of_nat = function O -> 0 | S n -> 1 + int_of_nat n
let rec pos_of_int n = if n = 1 then XH else if n land 1 = 0 then XO (pos_of_int (n lsr 1)) else XI (pos_of_int (n lsr 1))
let z_of_int n = if n = 0 then Z0 else if n > 0 then Zpos (pos_of_int n) else Zneg (pos_of_int (- n))
let rec int_of_pos = function XH -> 1 | XO p -> 2 * int_of_pos p | XI p -> 2 * int_of_pos p + 1
let int_of_z = function Z0 -> 0 | Zpos p -> int_of_pos p | Zneg p -> - (int_of_pos p)
let char_of_ascii (Ascii (b0, b1, b2, b3, b4, b5, b6, b7)) =
  let b x k = if x then 1 lsl k else 0 in
  Char.chr (b b0 0 + b b1 1 + b b2 2 + b b3 3 + b b4 4 + b b5 5 + b b6 6 + b b7 7)
let rec ocaml_string = function EmptyString -> "" | String (c, r) -> Stdlib.String.make 1 (char_of_ascii c) ^ ocaml_string r

let sv = function Lit (a, b) -> Printf.sprintf "L:%d:%d" a b | Tok (k, i) -> Printf.sprintf "T:%d:%d" k i
let svs l = Stdlib.String.concat " " (List.map sv l)
let sz x = string_of_int (int_of_z x)
let sn x = string_of_int (int_of_nat x)

let parse_value s =
  match Stdlib.String.split_on_char ',' s with
  | [a; b] -> Lit (int_of_string a, int_of_string b)
  | [a] -> Lit (int_of_string a, 0)
  | _ -> failwith ("bad value " ^ s)

let next_id = ref 0
let conv fn n m z =
  let k = !next_id in
  incr next_id;
  let nn = int_of_nat n in
  let len = (match fn with FI2 _ | FIN _ -> nn | _ -> nn * nn) in
  Printf.printf "def %d %s %d %s | %s\n" k (ocaml_string (fname_str fn)) nn (svs m) (svs z);
  List.init len (fun i -> Tok (k, i))

let payload = function
  | PNone -> "-"
  | PVal v -> "v " ^ sv v
  | PFreq x -> "f " ^ sz x
  | PVals l -> Printf.sprintf "V %d %s" (List.length l) (svs l)
  | PFreqs l -> Printf.sprintf "F %d %s" (List.length l) (Stdlib.String.concat " " (List.map sz l))
  | PBool b -> if b then "b 1" else "b 0"
  | PDims (t, r, c, f) -> Printf.sprintf "d %s %s %s %s" (sz (vpt_code t)) (sn r) (sn c) (sn f)
  | PMeta (ft, fm, fp, dp) ->
    Printf.sprintf "m %s %s %s %s" (sz ft) (match fm with None -> "-1" | Some k -> sn k) (sz fp) (sz dp)

(* number of allocated cells beyond the logical sizes that do not hold their initial value
   (0 on every reachable state of the repaired model: DataProofs.inv_reachable) *)
let junk vzero vdef d =
  let o = observe d in
  let freqs = int_of_nat o.ob_freqs and rows = int_of_nat o.ob_rows and cols = int_of_nat o.ob_cols in
  let ports = max rows cols and cells = rows * cols in
  let pa = int_of_nat (p_alloc d) and fa = int_of_nat (f_alloc d) and ma = int_of_nat (m_alloc d) in
  let n = ref 0 in
  for f = 0 to fa - 1 do
    let nf = nat_of_int f in
    if f >= freqs && int_of_z (d.fv nf) <> 0 then incr n;
    for j = 0 to ma - 1 do
      if (f >= freqs || j >= cells) && d.dat nf (nat_of_int j) <> vzero then incr n
    done;
    if per_f d then
      for j = 0 to pa - 1 do
        if (f >= freqs || j >= ports) && d.z0vv nf (nat_of_int j) <> vdef then incr n
      done
  done;
  if not (per_f d) then
    for j = ports to pa - 1 do
      if d.z0v (nat_of_int j) <> vdef then incr n
    done;
  !n

let digest i d =
  let o = observe d in
  let (((ft, fm), fp), dp) = o.ob_meta in
  Printf.sprintf "D %d t %s %s %s %s A %s %s %s J %d F %s M %s Z %d %s X %s %s %s %s"
    i (sz (vpt_code o.ob_ty)) (sn o.ob_rows) (sn o.ob_cols) (sn o.ob_freqs)
    (sn (p_alloc d)) (sn (f_alloc d)) (sn (m_alloc d)) (junk (Lit (0, 0)) (Lit (50, 0)) d)
    (Stdlib.String.concat " " (List.map sz o.ob_fv))
    (Stdlib.String.concat " ; " (List.map svs o.ob_dat))
    (if o.ob_perf then 1 else 0)
    (Stdlib.String.concat " ; " (List.map svs o.ob_z0))
    (sz ft) (match fm with None -> "-1" | Some k -> sn k) (sz fp) (sz dp)

let () =
  let q = ref fixed and dd2 = ref false in
  let i = ref 1 in
  while !i < Array.length Sys.argv do
    (match Sys.argv.(!i) with
     | "--as-found" -> q := as_found
     | "--quirks" ->
       incr i;
       let l = Stdlib.String.split_on_char ',' Sys.argv.(!i) in
       q := { q_d4 = List.mem "d4" l; q_d5 = List.mem "d5" l; q_d6 = List.mem "d6" l; q_d40 = List.mem "d40" l }
     | "--dd2-fixed" -> dd2 := true
     | s -> failwith ("unknown option " ^ s));
    incr i
  done;
  let q = !q and dd2 = !dd2 in
  let vzero = Lit (0, 0) and vdef = Lit (50, 0) in
  (* state of TwoObjModel.kstep: identifiers -> objects; after every step the glue re-tabulates the
     NOBJ slots the harness has, so that look-ups stay constant time *)
  let nobj = 4 in
  let tabulate (f : nat -> _ vd) =
    let a = Array.init nobj (fun i -> f (nat_of_int i)) in
    let fresh = vd_alloc vzero vdef in
    (fun k -> let i = int_of_nat k in if i < nobj then a.(i) else fresh) in
  let st = ref (tabulate (ninit vzero vdef)) in
  let obj i = !st (nat_of_int i) in
  let ptr_tok = ref "" in
  let toks = ref [] in
  let next () = match !toks with [] -> failwith "short line" | x :: r -> toks := r; x in
  let zi () = z_of_int (int_of_string (next ())) in
  let v () = parse_value (next ()) in
  let vl () = let n = int_of_string (next ()) in List.init n (fun _ -> v ()) in
  let zl () = let n = int_of_string (next ()) in List.init n (fun _ -> zi ()) in
  try
    while true do
      let line = input_line stdin in
      toks := List.filter (fun s -> s <> "") (Stdlib.String.split_on_char ' ' line);
      (* the accessors of Data/AccessorsModel.v, outside the two-object machine's op type *)
      let special =
        (match !toks with
         | [o; "allocinit"; t; r; c; f] ->
           let i = int_of_string o in
           let z x = z_of_int (int_of_string x) in
           let (res, x) = alloc_and_init vzero vdef (z t) (z r) (z c) (z f) in
           (* NULL: the harness puts a fresh vnadata_alloc object into the slot *)
           let d = (match res with Some d -> d | None -> vd_alloc vzero vdef) in
           st := tabulate (nput !st (nat_of_int i) d);
           let rs = (match x.o_ret with ROk -> "ok" | RFail -> "fail" | RFault -> "fault") in
           let es = (match x.o_ret with RFail -> "EINVAL" | _ -> "0") in
           Printf.printf "R %s %s %d -\n" rs es (int_of_nat x.o_cb);
           Printf.printf "%s\n" (digest i d); true
         | [o; "typename"; k] ->
           let i = int_of_string o in
           Printf.printf "R ok 0 0 s %s\n"
             (match type_name (z_of_int (int_of_string k)) with Some s -> ocaml_string s | None -> "NULL");
           Printf.printf "%s\n" (digest i (obj i)); true
         | [o; "setfmtbad"; _] ->
           (* a string with a field that does not parse: AccessorsModel.set_format_c refuses it and
              leaves the format alone, whatever the current format is *)
           let i = int_of_string o in
           let (_, accepted) = set_format_c false f_new (Some [None]) in
           Printf.printf "R %s\n" (if accepted then "ok 0 0 -" else "fail EINVAL 1 -");
           Printf.printf "%s\n" (digest i (obj i)); true
         | _ -> false) in
      if not special && !toks <> [] && (List.hd !toks).[0] <> '#' then begin
        let first = next () in
        let (mops, target) =
          if first = "reset" then (List.init nobj (fun i -> NFree (nat_of_int i)), 0)
          else if first = "conv" then begin
            let a = int_of_string (next ()) in let b = int_of_string (next ()) in
            let nt = zi () in
            ([NConv (nat_of_int a, nat_of_int b, nt)], b)
          end else begin
            let i = int_of_string first in
            let name = next () in
            let o = (match name with
              | "init" -> let t = zi () in let r = zi () in let c = zi () in let f = zi () in OInit (t, r, c, f)
              | "resize" -> let t = zi () in let r = zi () in let c = zi () in let f = zi () in OResize (t, r, c, f)
              | "settype" -> OSetType (zi ())
              | "addfreq" -> OAddFreq (zi ())
              | "getfreq" -> OGetFreq (zi ())
              | "setfreq" -> let i = zi () in let x = zi () in OSetFreq (i, x)
              | "fmin" -> OGetFmin
              | "fmax" -> OGetFmax
              | "getfv" -> OGetFreqVec
              | "setfv" -> OSetFreqVec (zl ())
              | "setfvself" -> OSetFreqVec ((observe (obj i)).ob_fv)
              | "getcell" -> let f = zi () in let r = zi () in let c = zi () in OGetCell (f, r, c)
              | "setcell" -> let f = zi () in let r = zi () in let c = zi () in let x = v () in OSetCell (f, r, c, x)
              | "getmat" -> OGetMatrix (zi ())
              | "setmat" -> let f = zi () in OSetMatrix (f, vl ())
              | "gettovec" -> let r = zi () in let c = zi () in OGetToVec (r, c)
              | "setfromvec" -> let r = zi () in let c = zi () in OSetFromVec (r, c, vl ())
              | "getz0" -> OGetZ0 (zi ())
              | "setz0" -> let p = zi () in OSetZ0 (p, v ())
              | "setallz0" -> OSetAllZ0 (v ())
              | "getz0v" -> OGetZ0Vec
              | "setz0v" -> OSetZ0Vec (vl ())
              | "hasfz0" -> OHasFz0
              | "getfz0" -> let f = zi () in let p = zi () in OGetFz0 (f, p)
              | "setfz0" -> let f = zi () in let p = zi () in OSetFz0 (f, p, v ())
              | "getfz0v" -> OGetFz0Vec (zi ())
              | "setfz0v" -> let f = zi () in OSetFz0Vec (f, vl ())
              | "dims" -> OGetDims
              | "meta" -> OGetMeta
              | "setft" -> OSetFiletype (zi ())
              | "setfmt" -> let k = int_of_string (next ()) in OSetFormat (if k < 0 then None else Some (nat_of_int k))
              | "setfprec" -> OSetFprec (zi ())
              | "setdprec" -> OSetDprec (zi ())
              | _ -> failwith ("unknown op " ^ name)) in
            (* the four pointer getters: is the pointer the library returns NULL (allocation 0)? *)
            (match o with
             | OGetFreqVec | OGetMatrix _ | OGetZ0Vec | OGetFz0Vec _ ->
               ptr_tok := (if ptr_null (obj i) o then " @N" else " @P")
             | _ -> ());
            ([NOn (nat_of_int i, o)], i)
          end in
        let r = List.fold_left (fun _ m ->
            let (s', r) = kstep vzero vdef conv q dd2 !st m in
            st := tabulate s'; r) { o_ret = ROk; o_cb = O; o_pay = PNone } mops in
        let rs = (match r.o_ret with ROk -> "ok" | RFail -> "fail" | RFault -> "fault") in
        let es = (match r.o_ret with RFail -> "EINVAL" | _ -> "0") in
        let tok = (match r.o_ret with ROk -> !ptr_tok | _ -> "") in
        ptr_tok := "";
        Printf.printf "R %s %s %d %s%s\n" rs es (int_of_nat r.o_cb) (payload r.o_pay) tok;
        Printf.printf "%s\n" (digest target (obj target))
      end
    done
  with End_of_file -> ()
