(* MODELS: caltab *)
(* Driver for the calibration-table / parameter-handle model (property C16).  Reads the same
   operation script as harness/caltab_harness.c and prints one line per op in the same format:
     <op> r=<ret> e=<errno class> cb=<n> | E=.. C=[..] G=.. W=alloc:count:first_free:calalloc P=[..]
   "asis" as first argument runs step_asis (the code before the fixes D08, D11, D42). *)
(* integer glue (the shared glue.ml.inc also needs the rational types, which this model does not extract) *)
module ZZ = Z
open MODELS
let rec nat_of_int n = if n <= 0 then O else S (nat_of_int (n - 1))
let rec int_of_nat = function O -> 0 | S n -> 1 + int_of_nat n
let rec pos_of_z (x : ZZ.t) : positive =
  if ZZ.equal x ZZ.one then XH
  else if ZZ.is_even x then XO (pos_of_z (ZZ.shift_right x 1))
  else XI (pos_of_z (ZZ.shift_right x 1))
let rec z_of_pos = function
  | XH -> ZZ.one
  | XO p -> ZZ.shift_left (z_of_pos p) 1
  | XI p -> ZZ.succ (ZZ.shift_left (z_of_pos p) 1)
let coqz_of_z (x : ZZ.t) : z =
  if ZZ.sign x = 0 then Z0 else if ZZ.sign x > 0 then Zpos (pos_of_z x) else Zneg (pos_of_z (ZZ.neg x))
let z_of_coqz = function Z0 -> ZZ.zero | Zpos p -> z_of_pos p | Zneg p -> ZZ.neg (z_of_pos p)
let asis = Array.length Sys.argv > 1 && Sys.argv.(1) = "asis"
let toks = ref []
let next () = match !toks with [] -> failwith "short line" | x :: r -> toks := r; x
let nexti () = int_of_string (next ())
let zi n = coqz_of_z (ZZ.of_int n)
let iz z = ZZ.to_int (z_of_coqz z)
let rec times n f = if n <= 0 then [] else let x = f () in x :: times (n - 1) f
let sval (v : z * z) = Printf.sprintf "%d,%d" (iz (fst v)) (iz (snd v))
let sret = function
  | RInt z -> string_of_int (iz z)
  | RValue v -> sval v
  | RApprox v -> Printf.sprintf "~%d,~%d" (iz (fst v)) (iz (snd v))
  | RInterp -> "?,?"
  | RHuge -> "HUGE"
  | RPtr b -> if b then "ok" else "null"
  | RCal (name, ty, rows, cols, nf, fmin, fmax) ->
    (* CalTabModel.frange_opt: None = both getters answer HUGE_VAL / EINVAL (no frequency points) *)
    (match frange_opt nf fmin fmax with
     | None -> Printf.sprintf "c%d:%d:%d:%d:%d:nofreq:nofreq" (iz name) (iz ty) (iz rows) (iz cols) (iz nf)
     | Some (a, b) -> Printf.sprintf "c%d:%d:%d:%d:%d:%d:%d" (iz name) (iz ty) (iz rows) (iz cols) (iz nf) (64 * iz a) (64 * iz b))
  | RTok None -> "none"
  | RTok (Some k) -> string_of_int (iz k)
  | RNoSuch -> "nosuch"
  | RGone -> "gone"
  | RUndef -> "UNDEF-OUT-OF-MODEL"   (* caller error the model makes no prediction for: never equals a library line *)
  | RFault -> "FAULT"
let serr = function ENone -> "-" | EINVAL -> "EINVAL" | ENOENT -> "ENOENT" | EDOM -> "EDOM" | ENOMEM -> "ENOMEM"
let stok = function None -> "-" | Some k -> string_of_int (iz k)
let digest (s : state) =
  if s.st_freed then "| freed" else begin
    let b = Buffer.create 256 in
    let cals = s.st_cals in
    let e = int_of_nat (cal_end cals) in
    Buffer.add_string b (Printf.sprintf "| E=%d C=[" e);
    List.iteri (fun ci c -> match c with
        | None -> ()
        | Some c ->
          (match cal_frange c with
           | None ->
             Buffer.add_string b (Printf.sprintf "%d:c%d:%d:%d:%d:%d:nofreq:nofreq:%s;" ci (iz c.c_name) (iz c.c_type)
                                    (iz c.c_rows) (iz c.c_cols) (iz c.c_nf) (stok c.c_prop))
           | Some (fa, fb) ->
             Buffer.add_string b (Printf.sprintf "%d:c%d:%d:%d:%d:%d:%d:%d:%s;" ci (iz c.c_name) (iz c.c_type)
                                    (iz c.c_rows) (iz c.c_cols) (iz c.c_nf) (64 * iz fa) (64 * iz fb)
                                    (stok c.c_prop)))) cals;
    let t = s.st_pt in
    Buffer.add_string b (Printf.sprintf "] G=%s W=%d:%d:%d:%d P=[" (stok s.st_gprop) (List.length t.pt_slots)
                           (int_of_nat t.pt_count) (int_of_nat t.pt_first_free) (List.length cals));
    List.iteri (fun h p -> match p with
        | None -> ()
        | Some p ->
          let ty = (match p.p_kind with KScalar _ -> 1 | KVector _ -> 2 | KUnknown _ -> 3 | KCorrelated _ -> 4) in
          let o = (match other_of p.p_kind with Some o -> int_of_nat o | None -> -1) in
          let v = sret (get_value t (zi h) (zi 2)).o_ret in
          Buffer.add_string b (Printf.sprintf "%d:%d:%d:%d:%d:%s;" h ty (if p.p_deleted then 1 else 0)
                                 (int_of_nat p.p_hold) o v)) t.pt_slots;
    Buffer.add_string b "]";
    (* the executable invariant of CalTab/TableSpec.v is evaluated on every state reached *)
    if not (inv_b s) then Buffer.add_string b " INV-BROKEN";
    Buffer.contents b
  end
let cname s = if String.length s > 1 && s.[0] = 'c' then (try int_of_string (String.sub s 1 (String.length s - 1)) with _ -> -1) else -1
let () =
  let st = ref st_initial in
  let fail = ref 0 in
  try
    while true do
      let line = input_line stdin in
      toks := List.filter (fun s -> s <> "") (String.split_on_char ' ' (String.trim line));
      if !toks <> [] then begin
        let opn = next () in
        if opn = "failnext" then begin
          let k = nexti () in
          Printf.printf "failnext r=0 e=- cb=0 %s\n%!" (digest !st);
          fail := k
        end else begin
          let fl = nat_of_int !fail in
          fail := 0;
          let vals n = times n (fun () -> let a = nexti () in let b = nexti () in (zi a, zi b)) in
          let o = (match opn with
              | "mks" -> let a = nexti () in let b = nexti () in OMakeScalar ((zi a, zi b), fl)
              | "mkv" -> let n = nexti () in let fs = times n (fun () -> zi (nexti ())) in let gs = vals n in OMakeVector (fs, gs, fl)
              | "mku" -> let h = nexti () in OMakeUnknown (zi h, fl)
              | "mkc" -> let h = nexti () in let n = nexti () in
                (* further tokens: the parameter's own sigma frequency grid (none: NULL) *)
                let k = List.length !toks in
                let sf = if k = 0 then None else Some (times k (fun () -> zi (nexti ()))) in
                OMakeCorrelated (zi h, zi n, sf, fl)
              | "delp" -> ODeleteParam (zi (nexti ()))
              | "getv" -> let h = nexti () in let f = nexti () in OGetValue (zi h, zi f)
              | "nalloc" -> let id = nexti () in let ty = nexti () in let dim = nexti () in let nf = nexti () in
                ONewAlloc (nat_of_int id, zi ty, zi dim, nat_of_int nf)
              | "setf" -> let id = nexti () in let f0 = nexti () in OSetFreq (nat_of_int id, zi f0)
              | "addstd" -> let id = nexti () in let nh = nexti () in let hs = times nh (fun () -> zi (nexti ())) in
                let nm = nexti () in let ms = vals nm in OAddStd (nat_of_int id, hs, ms)
              | "solve" -> let id = nexti () in let ok = nexti () in OSolve (nat_of_int id, ok <> 0)
              | "addcal" -> let id = nexti () in let nm = next () in OAddCal (nat_of_int id, zi (cname nm))
              | "delcal" -> ODelCal (zi (nexti ()))
              | "find" -> OFind (zi (cname (next ())))
              | "getcal" -> OGetCal (zi (nexti ()))
              | "end" -> OEnd
              | "pset" -> let ci = nexti () in let k = nexti () in OPropSet (zi ci, zi k)
              | "pget" -> OPropGet (zi (nexti ()))
              | "nfree" -> ONewFree (nat_of_int (nexti ()))
              | "free" -> OFree
              | _ -> failwith ("unknown op " ^ opn)) in
          let (s1, out) = (if asis then step_asis else step) !st o in
          st := s1;
          (* between the knots of a vector parameter the integer model answers RInterp; the number is
             CalTabVectorModel.get_value_q (_vnacal_rfi of property C10 on the supplied points), printed as exact
             fractions of 1/64 units: q<num>/<den>,q<num>/<den> *)
          let rs = (match o, out.o_ret with
              | OGetValue (h, f), RInterp ->
                (match get_value_q s1.st_pt h f with
                 | Some v ->
                   let qs (x : qc) = let q = x.this in
                     Printf.sprintf "q%s/%s" (ZZ.to_string (ZZ.mul (ZZ.of_int 64) (z_of_coqz q.qnum))) (ZZ.to_string (z_of_pos q.qden)) in
                   qs v.qre ^ "," ^ qs v.qim
                 | None -> "NOVALUE")
              | _, _ -> if opn = "pget" && out.o_ret = RTok None then "null" else sret out.o_ret) in
          Printf.printf "%s r=%s e=%s cb=%d %s\n%!" opn rs (serr out.o_err) (int_of_nat out.o_cb) (digest !st)
        end
      end
    done
  with End_of_file -> ()
