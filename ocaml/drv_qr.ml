(* MODELS: qr *)
(* Driver for the Householder-QR model of property C19 (coq/Lin/QrModel.v at Q[i], coq/Lin/QrQI.v).
   One case per input line, complex = two rationals "p/q":
     qrd m n <A: m*n>
         -> qrd laws=<0|1> nan=<k|none> rank=<r> d= <qr_d: re im ...> a= <qr_a, m*n, row major: re im ...>
            laws = QrQI.qq_run_lawsb (the sqrt / phase oracles behaved like sqrt() and cexp(I carg())
            on every diagonal of this run); nan = the diagonal at which the C code divides 0 by 0
            (d then has k+1 entries, the last one 0, a is the array before that step)
     qrsolve m n o <A: m*n> <B: m*o>
         -> qrsolve laws=<0|1> rank=<r> sol=none b= <m*o>
          | qrsolve laws=<0|1> rank=<r> sol=some x= <n*o> b= <m*o>
   Output: exact rationals. *)
#include "glue.ml.inc"
let toks = ref []
let next () = match !toks with [] -> failwith "short line" | x :: r -> toks := r; x
let cx () = let a = qc_of_string (next ()) in let b = qc_of_string (next ()) in o { qre = a; qim = b }
let rec times n f = if n = 0 then [] else let x = f () in x :: times (n - 1) f
let matrix r c = times r (fun () -> times c cx)
let pv (v : Obj.t list) = String.concat " " (List.map (fun x -> string_of_qi (u x)) v)
let pm (m : Obj.t list list) = String.concat " " (List.filter (fun s -> s <> "") (List.map pv m))
let b01 b = if b then 1 else 0
let () =
  try
    while true do
      let line = input_line stdin in
      toks := List.filter (fun s -> s <> "") (String.split_on_char ' ' line);
      if !toks <> [] then begin
        let op = next () in
        (match op with
         | "qrd" ->
           let m = int_of_string (next ()) in let n = int_of_string (next ()) in
           let a = matrix m n in
           let laws = qq_run_lawsb (nat_of_int m) (nat_of_int n) a in
           let st = qq_qrd (nat_of_int m) (nat_of_int n) a in
           Printf.printf "qrd laws=%d nan=%s rank=%d d= %s a= %s\n" (b01 laws)
             (match qr_nan_opt st with None -> "none" | Some k -> string_of_int (int_of_nat k))
             (int_of_nat (qq_rank st)) (pv st.qr_d) (pm st.qr_a)
         | "qrsolve" ->
           let m = int_of_string (next ()) in let n = int_of_string (next ()) in
           let oo = int_of_string (next ()) in
           let a = matrix m n in let b = matrix m oo in
           let laws = qq_run_lawsb (nat_of_int m) (nat_of_int n) a in
           let ((xo, b'), rank) = qq_qrsolve (nat_of_int m) (nat_of_int n) (nat_of_int oo) a b in
           Printf.printf "qrsolve laws=%d rank=%d %s b= %s\n" (b01 laws) (int_of_nat rank)
             (match xo with None -> "sol=none" | Some x -> "sol=some x= " ^ pm x) (pm b')
         | _ -> Printf.printf "unknown %s\n" op);
        flush stdout
      end
    done
  with End_of_file -> ()
