(* MODELS: mem *)
(* Driver for the memory models (coq/Mem).  Same script as harness/mem_wb.c:
     <k> L new|append|set i|insert i|delete i|get i|free
     <k> P new|alloc|delete i|free
     <k> D new perf|resize rows cols freqs|free
     <k> A type frows fcols brows bcols srows scols
     <k> Z new|resize rows cols freqs|setfz0 findex port|setfz0v findex src [i]|setz0 port|setz0v src [i]|setallz0|free   (coq/Mem/DataZ0.v)
     <k> H new nparams|get p|find p|free                       (vnacal_new_t parameter hash, coq/Mem/HashTab.v)
     <k> M new|set rank hv name|get rank hv name|del rank hv name|keys|free     (vnaproperty map)
   H and M ops append  | <allocation> <count> | <bucket>:<key>,<key>...  and M ops  | <order list>  (keys: | <keys>)
   k = -1: no fault; k >= 0: request number k+1 of this op fails.
   Output per op: <ret class> <errno class> <live blocks>  or  FAULT <kind>. *)
open MODELS
let rec nat_of_int n = if n <= 0 then O else S (nat_of_int (n - 1))
let rec int_of_nat = function O -> 0 | S n -> 1 + int_of_nat n
let rec pos_of_int n = if n = 1 then XH else if n land 1 = 0 then XO (pos_of_int (n lsr 1)) else XI (pos_of_int (n lsr 1))
let z_of_int n = if n = 0 then Z0 else if n > 0 then Zpos (pos_of_int n) else Zneg (pos_of_int (- n))
let rec length = function [] -> 0 | _ :: t -> 1 + length t
let fault_name = function OOB -> "OOB" | UseUninit -> "UseUninit" | UseAfterFree -> "UseAfterFree" | NullDeref -> "NullDeref" | IntOverflow -> "IntOverflow" | VlaBound -> "VlaBound"
let errno_name = function E0 -> "E0" | EINVAL -> "EINVAL" | ENOENT -> "ENOENT" | ENOMEM -> "ENOMEM"
let out_str = function Done -> "Done E0" | Err e -> "Err " ^ errno_name e
(* ledgers: the list and the parameter table are separate objects with separate ledgers *)
let n_of_int n = if n = 0 then N0 else Npos (pos_of_int n)
let dump_tab (h : htab) =
  let b = Buffer.create 64 in
  Buffer.add_string b (Printf.sprintf " | %d %d |" (length h.hbuckets) (int_of_nat h.hcount));
  List.iteri (fun i c -> if c <> [] then
      Buffer.add_string b (Printf.sprintf " %d:%s" i (String.concat "," (List.map (fun n -> string_of_int (int_of_nat n.nkey)) c)))) h.hbuckets;
  Buffer.contents b
let dump_keys l = " |" ^ String.concat "" (List.map (fun k -> " " ^ string_of_int (int_of_nat k)) l)
let with_fault k (s : astate) : astate = { fail_at = (if k < 0 then None else Some (nat_of_int k)); live = s.live; fresh = s.fresh }
let () =
  let lst = ref None and ls = ref (start None) in
  let pc = ref None and ps = ref (start None) in
  let dd = ref None and ds = ref (start None) in
  let zz = ref None and zs = ref (start None) in
  let hh = ref None and hs = ref (start None) in
  let mm = ref None and ms = ref (start None) in
  (try
    while true do
      let line = input_line stdin in
      let toks = List.filter (fun s -> s <> "") (String.split_on_char ' ' line) in
      match toks with
      | k :: "L" :: op :: args ->
        let k = int_of_string k in
        let arg i = z_of_int (int_of_string (List.nth args i)) in
        let s = with_fault k !ls in
        (match op, !lst with
         | "new", _ ->
           (match lnew s with
            | Ok (Some l, s') -> lst := Some l; ls := s'; Printf.printf "Done E0 %d\n" (length s'.live)
            | Ok (None, s') -> ls := s'; Printf.printf "Err ENOMEM %d\n" (length s'.live)
            | Fault f -> Printf.printf "FAULT %s\n" (fault_name f))
         | "free", Some l ->
           (match lfree l s with
            | Ok (_, s') -> lst := None; ls := s'; Printf.printf "Done E0 %d\n" (length s'.live)
            | Fault f -> Printf.printf "FAULT %s\n" (fault_name f))
         | _, None -> print_string "SKIP E0 0\n"
         | _, Some l ->
           let o = (match op with
               | "append" -> LAppend | "set" -> LSet (arg 0) | "insert" -> LInsert (arg 0)
               | "delete" -> LDelete (arg 0) | _ -> LGet (arg 0)) in
           (match lstep Fixed l o s with
            | Ok ((l', out), s') -> lst := Some l'; ls := s'; Printf.printf "%s %d\n" (out_str out) (length s'.live)
            | Fault f -> Printf.printf "FAULT %s\n" (fault_name f)))
      | k :: "P" :: op :: args ->
        let k = int_of_string k in
        let s = with_fault k !ps in
        (match op, !pc with
         | "new", _ ->
           (* vnacal_create: _vnacal_setup_parameter_collection allocates the three predefined parameters *)
           let rec three n c s = if n = 0 then Some (c, s) else
               (match pstep Fixed c PAlloc s with Ok ((c', Done), s') -> three (n - 1) c' s' | _ -> None) in
           (match three 3 pempty s with
            | Some (c, s') -> pc := Some c; ps := s'; Printf.printf "Done E0 %d\n" (length s'.live)
            | None -> print_string "Err ENOMEM 0\n")
         | "free", Some c ->
           (match teardown c s with
            | Ok (_, s') -> pc := None; ps := s'; Printf.printf "Done E0 %d\n" (length s'.live)
            | Fault f -> Printf.printf "FAULT %s\n" (fault_name f))
         | _, None -> print_string "SKIP E0 0\n"
         | _, Some c ->
           let o = (match op with "alloc" -> PAlloc | _ -> PDelete (z_of_int (int_of_string (List.nth args 0)))) in
           (match pstep Fixed c o s with
            | Ok ((c', out), s') -> pc := Some c'; ps := s'; Printf.printf "%s %d\n" (out_str out) (length s'.live)
            | Fault f -> Printf.printf "FAULT %s\n" (fault_name f)))
      | k :: "D" :: op :: args ->
        let k = int_of_string k in
        let a i = int_of_string (List.nth args i) in
        let s = with_fault k !ds in
        (match op, !dd with
         | "new", _ ->
           (match dnew (a 0 <> 0) s with
            | Ok (Some d, s') -> dd := Some d; ds := s'; Printf.printf "Done E0 %d\n" (length s'.live)
            | Ok (None, s') -> ds := s'; Printf.printf "Err ENOMEM %d\n" (length s'.live)
            | Fault f -> Printf.printf "FAULT %s\n" (fault_name f))
         | "free", Some d ->
           (match dfree d s with
            | Ok (_, s') -> dd := None; ds := s'; Printf.printf "Done E0 %d\n" (length s'.live)
            | Fault f -> Printf.printf "FAULT %s\n" (fault_name f))
         | _, None -> print_string "SKIP E0 0\n"
         | _, Some d ->
           (* vnadata_resize(vdp, VPT_UNDEF, rows, columns, frequencies): ports = max, cells = product *)
           let r = a 0 and c = a 1 and f = a 2 in
           let ports = if r < 0 || c < 0 then (-1) else max r c in
           let cells = if r < 0 || c < 0 then (-1) else r * c in
           (match resize Fixed d (z_of_int ports) (z_of_int cells) (z_of_int f) s with
            | Ok ((d', out), s') -> dd := Some d'; ds := s'; Printf.printf "%s %d\n" (out_str out) (length s'.live)
            | Fault f -> Printf.printf "FAULT %s\n" (fault_name f)))
      | k :: "Z" :: op :: args ->
        let k = int_of_string k in
        let a i = int_of_string (List.nth args i) in
        let s = with_fault k !zs in
        (match op, !zz with
         | "new", _ ->
           (match dnew false s with
            | Ok (Some d, s') -> zz := Some { od = d; ofr = O; opt = O }; zs := s'; Printf.printf "Done E0 %d\n" (length s'.live)
            | Ok (None, s') -> zs := s'; Printf.printf "Err ENOMEM %d\n" (length s'.live)
            | Fault f -> Printf.printf "FAULT %s\n" (fault_name f))
         | "free", Some o ->
           (match dfree o.od s with
            | Ok (_, s') -> zz := None; zs := s'; Printf.printf "Done E0 %d\n" (length s'.live)
            | Fault f -> Printf.printf "FAULT %s\n" (fault_name f))
         | _, None -> print_string "SKIP E0 0\n"
         | _, Some o ->
           let src j = (match a j with 0 -> SExt | 1 -> SOwnZ0 | _ -> SOwnRow (z_of_int (a (j + 1)))) in
           let zo = (match op with
               | "resize" ->
                 let r = a 0 and c = a 1 and f = a 2 in
                 let ports = if r < 0 || c < 0 then (-1) else max r c in
                 let cells = if r < 0 || c < 0 then (-1) else r * c in
                 ZResize (z_of_int ports, z_of_int cells, z_of_int f)
               | "setfz0" -> ZSetFz0 (z_of_int (a 0), z_of_int (a 1))
               | "setfz0v" -> ZSetFz0Vec (z_of_int (a 0), src 1)
               | "setz0" -> ZSetZ0 (z_of_int (a 0))
               | "setz0v" -> ZSetZ0Vec (src 0)
               | _ -> ZSetAllZ0) in
           (match zstep ZFixed o zo s with
            | Ok ((o', out), s') -> zz := Some o'; zs := s'; Printf.printf "%s %d\n" (out_str out) (length s'.live)
            | Fault f -> Printf.printf "FAULT %s\n" (fault_name f)))
      | k :: "H" :: op :: args ->
        let k = int_of_string k in
        (match op, !hh with
         | "new", _ ->
           let s = with_fault k (start None) in
           (match ph_init s with
            | Ok (Some h, s') -> hh := Some h; hs := s'; Printf.printf "Done E0 %d%s\n" (length s'.live) (dump_tab h)
            | Ok (None, s') -> hh := None; hs := s'; Printf.printf "Err ENOMEM %d\n" (length s'.live)
            | Fault f -> Printf.printf "FAULT %s\n" (fault_name f))
         | "free", Some h ->
           (match table_free h (with_fault k !hs) with
            | Ok (_, s') -> hh := None; hs := s'; Printf.printf "Done E0 %d\n" (length s'.live)
            | Fault f -> Printf.printf "FAULT %s\n" (fault_name f))
         | _, None -> print_string "SKIP E0 0\n"
         | _, Some h ->
           let p = z_of_int (int_of_string (List.nth args 0)) in
           let o = (match op with "get" -> PHGet p | _ -> PHFind p) in
           (match phstep HFixed h o (with_fault k !hs) with
            | Ok ((h', out), s') -> hh := Some h'; hs := s'; Printf.printf "%s %d%s\n" (out_str out) (length s'.live) (dump_tab h')
            | Fault f -> Printf.printf "FAULT %s\n" (fault_name f)))
      | k :: "M" :: op :: args ->
        let k = int_of_string k in
        (match op, !mm with
         | "new", _ ->
           let s = with_fault k (start None) in
           (match map_new s with
            | Ok (Some m, s') -> mm := Some m; ms := s'; Printf.printf "Done E0 %d%s%s\n" (length s'.live) (dump_tab m.mtab) (dump_keys m.morder)
            | Ok (None, s') -> mm := None; ms := s'; Printf.printf "Err ENOMEM %d\n" (length s'.live)
            | Fault f -> Printf.printf "FAULT %s\n" (fault_name f))
         | "free", Some m ->
           (match map_free m (with_fault k !ms) with
            | Ok (_, s') -> mm := None; ms := s'; Printf.printf "Done E0 %d\n" (length s'.live)
            | Fault f -> Printf.printf "FAULT %s\n" (fault_name f))
         | _, None -> print_string "SKIP E0 0\n"
         | _, Some m ->
           let key () = nat_of_int (int_of_string (List.nth args 0)) and hv () = n_of_int (int_of_string (List.nth args 1)) in
           let o = (match op with "set" -> MSet (key (), hv ()) | "get" -> MGet (key (), hv ()) | "del" -> MDel (key (), hv ()) | _ -> MKeys) in
           (match mstep HFixed m o (with_fault k !ms) with
            | Ok (((m', out), ks), s') ->
              mm := Some m'; ms := s';
              Printf.printf "%s %d%s%s%s\n" (out_str out) (length s'.live) (dump_tab m'.mtab) (dump_keys m'.morder)
                (if op = "keys" then dump_keys ks else "")
            | Fault f -> Printf.printf "FAULT %s\n" (fault_name f)))
      | _ :: "A" :: ty :: args ->
        let a i = int_of_string (List.nth args i) in
        let ty = int_of_string ty in
        let fr = a 0 and fc = a 1 and br = a 2 and bc = a 3 and sr = a 4 and sc = a 5 in
        let fs = max fr fc in
        let sports = max sr sc in
        (* min_b_rows / min_b_columns by calibration type, as in the switch of _vnacal_new_add_common *)
        let (mbr, mbc) = (match ty with
            | 4 -> (sr, fc)            (* T16 *)
            | 5 -> (fr, sc)            (* U16 *)
            | _ -> (sports, sports)) in
        let args = { full_m_rows = z_of_int fr; full_m_columns = z_of_int fc; full_s = z_of_int fs;
                     b_rows = z_of_int br; b_columns = z_of_int bc; s_rows = z_of_int sr; s_columns = z_of_int sc;
                     min_b_rows = z_of_int mbr; min_b_columns = z_of_int mbc } in
        (match add_arrays Fixed args (start None) with
         | Ok (out, _) -> Printf.printf "%s 0\n" (out_str out)
         | Fault f -> Printf.printf "FAULT %s\n" (fault_name f))
      | _ -> ()
    done
  with End_of_file -> ())
