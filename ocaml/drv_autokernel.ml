(* MODELS: autokernel *)
(* Driver for coq/SelfCal/AutoKernelModel.v (one pass of the Levenberg-Marquardt loop of
   _vnacal_new_solve_auto, exact over Q[i]).  One case per input line; reals are exact rationals
   "p/q", complex numbers two reals.
     kpass <xl> <pl> <nsys> { <neq> { <w | -> <nterms> { <neg 0|1> <m: - | re im> <s: - | K re im | U i>
           <v: - | re im> <vj: - | re im> <xindex | -> }*nterms }*neq }*nsys <ncorr> { <w> <i> <U i | K re im> }*ncorr <p: re im>*pl
        -> "kpass none"                                   (rank deficient: "singular linear system")
         | "kpass m=<equations> n=<x_length> a <re im>*(m*n) b <re im>*m x <re im>*n jtj <re im>*(pl*pl)
                  jtk <re im>*pl sumk <q>"
     kstep <pl> <jtj: re im>*(pl*pl) <jtk: re im>*pl <lambda> <p: re im>*pl
        -> "kstep none" | "kstep d <re im>*pl p <re im>*pl"      (d = J1 \ k1, p - d)
     krun <ptol> <ettol> <limit> <the arguments of kpass>
        -> "krun converged passes=<k> x <re im>*n p <re im>*pl" | "krun failed passes=<k>"   (AutoKernelModel.kernel_run)
     formq <m> <n> <array after _vnacommon_qrd: re im>*(m*n) <y: re im>*m
        -> "formq q <re im>*(m*m) k <re im>*(m-n)"   AutoKernelQrQ.qr_formq, and q2h of that Q on y *)
#include "glue.ml.inc"
let toks = ref []
let next () = match !toks with [] -> failwith "short line" | x :: r -> toks := r; x
let rec times n f = if n = 0 then [] else let x = f () in x :: times (n - 1) f
let cx () = let a = qc_of_string (next ()) in let b = qc_of_string (next ()) in { qre = a; qim = b }
let ocx () = match !toks with "-" :: r -> toks := r; None | _ -> Some (cx ())
let nat () = nat_of_int (int_of_string (next ()))
let scell () = match next () with
  | "K" -> SKnown (cx ())
  | "U" -> SUnk (nat ())
  | s -> failwith ("scell " ^ s)
let oscell () = match !toks with "-" :: r -> toks := r; None | _ -> Some (scell ())
let onat () = match !toks with "-" :: r -> toks := r; None | _ -> Some (nat ())
let real_as_qi () = let a = qc_of_string (next ()) in { qre = a; qim = qc_of_string "0" }
let oreal () = match !toks with "-" :: r -> toks := r; None | _ -> Some (real_as_qi ())
let mat_str (a : qi list list) = String.concat " " (List.map string_of_qi (List.concat a))
let vec_str (v : qi list) = String.concat " " (List.map string_of_qi v)
let () =
  try
    while true do
      let line = input_line stdin in
      toks := List.filter (fun s -> s <> "") (String.split_on_char ' ' line);
      if !toks <> [] then begin
        let op = next () in
        (match op with
         | "kpass" | "krun" ->
           let ptol, ettol, limit =
             if op = "krun" then
               (let a = qc_of_string (next ()) in let b = qc_of_string (next ()) in
                let l = int_of_string (next ()) in (a, b, l))
             else (qc_of_string "0", qc_of_string "0", 0) in
           let xl = nat () in let pl = int_of_string (next ()) in
           let nsys = int_of_string (next ()) in
           let sys = times nsys (fun () ->
               let neq = int_of_string (next ()) in
               times neq (fun () ->
                   let w = oreal () in
                   let nt = int_of_string (next ()) in
                   let ts = times nt (fun () ->
                       let neg = next () <> "0" in
                       let m = ocx () in let s = oscell () in let v = ocx () in let vj = ocx () in let x = onat () in
                       { t_neg = neg; t_m = m; t_s = s; t_v = v; t_vj = vj; t_x = x }) in
                   { e_w = w; e_terms = ts })) in
           let nc = int_of_string (next ()) in
           let corr = times nc (fun () ->
               let w = real_as_qi () in let i = nat () in let o = scell () in
               { c_w = w; c_i = i; c_other = o }) in
           let p = times pl cx in
           let pr = { pr_xl = xl; pr_sys = sys; pr_corr = corr; pr_pl = nat_of_int pl } in
           if op = "krun" then begin
             let (o, tr) = kernel_run pr ptol ettol (nat_of_int limit) p in
             (match o with
              | Converged (x, p1) -> Printf.printf "krun converged passes=%d x %s p %s\n" (List.length tr) (vec_str x) (vec_str p1)
              | _ -> Printf.printf "krun failed passes=%d\n" (List.length tr))
           end else
           (match kernel_pass pr p with
            | None -> print_string "kpass none\n"
            | Some pd ->
              let a = a_matrix pr p and b = b_vector pr p in
              Printf.printf "kpass m=%d n=%d a %s b %s x %s jtj %s jtk %s sumk %s\n"
                (List.length a) (match a with [] -> 0 | r :: _ -> List.length r)
                (mat_str (Obj.magic a)) (mat_str (Obj.magic b)) (vec_str pd.pd_x)
                (mat_str (Obj.magic pd.pd_jtj)) (mat_str (Obj.magic pd.pd_jtk)) (string_of_qc pd.pd_sumk))
         | "kstep" ->
           let pl = int_of_string (next ()) in
           let jtj = times pl (fun () -> times pl cx) in
           let jtk = times pl (fun () -> [cx ()]) in
           let lam = qc_of_string (next ()) in
           let p = times pl cx in
           (match kernel_step (nat_of_int pl) (Obj.magic jtj) (Obj.magic jtk) lam with
            | None -> print_string "kstep none\n"
            | Some d -> Printf.printf "kstep d %s p %s\n" (vec_str d) (vec_str (apply_d p d)))
         | "formq" ->
           let m = int_of_string (next ()) in let n = int_of_string (next ()) in
           let a = times m (fun () -> times n cx) in
           let y = times m cx in
           let q = q_formq (nat_of_int m) (nat_of_int n) (Obj.magic a) in
           let k = q_q2h (nat_of_int m) (nat_of_int n) q y in
           Printf.printf "formq q %s k %s\n" (mat_str (Obj.magic q)) (vec_str k)
         | _ -> Printf.printf "unknown %s\n" op);
        flush stdout
      end
    done
  with End_of_file -> ()
