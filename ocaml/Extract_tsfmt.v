(* NEEDS: Files/TsFormat.vo Files/NpdCols.vo *)
(* Extraction of convert_value_pair (Files/TsFormat.v), cell_value / unnorm_value and npd_convert (Files/NpdCols.v):
   the Section variables (field, embedding, I, cexp, constants) become function arguments, which ocaml/drv_tsfmt.ml
   instantiates with binary64 complex arithmetic.  Only ExtrOcamlBasic's directives are in effect. *)
Require Extraction.
Require Import ExtrOcamlBasic.
Require Import List NArith ZArith QArith Qcanon.
Require Import LV.Base.CField LV.Files.TsTok LV.Files.TsParse LV.Files.TsFormat LV.Files.NpdScan LV.Files.NpdCols.
Extraction Language OCaml.
Set Extraction KeepSingleton.
Extraction "models_tsfmt.ml" convert_value_pair unnorm_value npd_convert.
