(* NEEDS: Lin/LuQI.vo *)
(* Extraction of the executable models.  Only ExtrOcamlBasic's directives are in effect
   (bool, option, unit, list, prod, sumbool, sumor -> OCaml types; andb/orb inlined);
   nat, positive, N, Z, Q, Qc stay as the extracted inductive types. *)
Require Extraction.
Require Import ExtrOcamlBasic.
Require Import List ZArith QArith Qcanon.
Require Import LV.Base.CField LV.Base.QcI LV.Lin.MatL LV.Lin.LuModel LV.Conv.ConvN LV.Lin.LuQI.
Extraction Language OCaml.
Set Extraction KeepSingleton.
Extraction "models_lin.ml"
  QI qre qim qq Qnum Qden this
  q_lu q_mldivide q_mrdivide q_minverse
  q_stozn q_ztosn q_stoyn q_ytosn q_ztoyn q_ytozn q_stozin q_ztozin q_ytozin
  lu_a lu_ri lu_d lu_pivots lu_cands.
