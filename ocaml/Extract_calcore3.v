(* NEEDS: Gen/LayoutGen.vo Cal/CalQI.vo *)
(* Extraction of the leakage part of Cal/SolveSimple.v at the Gaussian rationals (leak_acc = vnlt_sum /
   vnlt_count, leak_mean, m_adjusted = vnmm_m_matrix, leak_terms = the saved leakage terms) for the
   leakage tie of property C01 (lib/calcore_num.py leak_tie, harness/calcore_solve.c).  The definitions
   below only instantiate the section variables of SolveSimple.v at CalQI.qops. *)
Require Extraction.
Require Import ExtrOcamlBasic.
Require Import List ZArith QArith Qcanon.
Require Import LV.Base.CField LV.Base.QcI LV.Gen.LayoutGen LV.Cal.Sym LV.Cal.TermsModel LV.Cal.AddModel LV.Cal.SolveSimple LV.Cal.CalQI.
Definition q_leak_acc (mr mc : nat) (ms : list (mvals qops)) (rc : nat * nat) := leak_acc qops mr mc ms rc.
Definition q_leak_mean (mr mc : nat) (ms : list (mvals qops)) (rc : nat * nat) := leak_mean qops mr mc ms rc.
Definition q_offdiag_cells (mr mc : nat) := offdiag_cells mr mc.
Definition q_m_adjusted (ty : caltype) (mr mc : nat) (ms : list (mvals qops)) (mv : mvals qops) (cell : nat) :=
  m_adjusted qops ty mr mc ms mv cell.
Definition q_leak_terms (ty : caltype) (mr mc : nat) (ms : list (mvals qops)) := leak_terms qops ty mr mc ms.
Definition q_has_outside_leakage (ty : caltype) := has_outside_leakage ty.
Extraction Language OCaml.
Set Extraction KeepSingleton.
Extraction "models_calcore3.ml"
  QI qre qim qq Qnum Qden this
  caltype_code all_caltypes add_step mkMV ms_m_given
  q_leak_acc q_leak_mean q_offdiag_cells q_m_adjusted q_leak_terms q_has_outside_leakage.
