(* NEEDS: Lin/LuQI2.vo *)
(* Extraction of the C19 models: LuModel at Q[i] with both row-scale variants, LsSpec at Q[i].
   Only ExtrOcamlBasic's directives are in effect. *)
Require Extraction.
Require Import ExtrOcamlBasic.
Require Import List ZArith QArith Qcanon.
Require Import LV.Base.CField LV.Base.QcI LV.Lin.MatL LV.Lin.LuModel LV.Lin.LuPartial LV.Lin.LuQI LV.Lin.LsSpec LV.Lin.LuQI2.
Extraction Language OCaml.
Set Extraction KeepSingleton.
Extraction "models_lu2.ml"
  QI qre qim qq Qnum Qden this
  q2_lu_max q2_lu_recip q2_mldivide_max q2_mldivide_recip q2_mrdivide_max q2_mrdivide_recip
  q2_minverse_max q2_minverse_recip q2_ls_solve q2_ls_lu
  q2_lu_c_max q2_lu_c_recip q2_mldivide_c_max q2_mldivide_c_recip q2_mrdivide_c_max q2_mrdivide_c_recip
  q2_minverse_c_max q2_minverse_c_recip
  lu_a lu_ri lu_d lu_pivots lu_cands.
