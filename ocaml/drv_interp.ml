(* MODELS: interp *)
(* Driver for the interpolation models (property C10).  One case per input line, rationals "p/q":
     const eps cut min_dx                          (constants regenerated from the C text)
     rfi n m hint x <xp: n> <yp: n pairs>          -> rfi <re> <im> seg=<new hint> cond=<float>
     run n m hint k <xp> <yp> <q: k>               -> run <re> <im> ...          (F = fault)
     spline np <xs> <ys> k <q: k>                  -> spline <v> ...  | spline EINVAL   (E = EINVAL)
     sigma nx <xs: nx> np <ys: np> k <q: k>        -> sigma <v> ...   | sigma EINVAL    (SigmaSplineModel:
                                                    sigma of a correlated parameter; nx = 0 when the
                                                    frequency vector is not given / ignored)
     applytrace n maxm t k <xp: n> <terms: t x n pairs, term-major> <req: k>
                                                   -> applytrace then per _vnacal_rfi call of the request
                                                      (request-major, term-minor) <segment before> <re> <im>
                                                      <segment after>  (F F F = fault)   (ApplyFreqModel.apply_trace)
   cond = min over the recorded recurrence steps of |den|^2 / (|dx1 d[j]|^2 + |dx2 c[j+1]|^2)
   (cancellation in the denominators; the check asserts the 1e-12 tolerance only when it is
   not tiny).  Output: exact rationals. *)
#include "glue.ml.inc"
let toks = ref []
let next () = match !toks with [] -> failwith "short line" | x :: r -> toks := r; x
let rec times n f = if n <= 0 then [] else let x = f () in x :: times (n - 1) f
let qc () = qc_of_string (next ())
let cx () = let a = qc () in let b = qc () in { qre = a; qim = b }
let zq (x : qc) = Q.make (z_of_coqz x.this.qnum) (z_of_pos x.this.qden)
let eps = ref (qc_of_string "0") and cut = ref (qc_of_string "0") and min_dx = ref (qc_of_string "0")
let cond tr =
  List.fold_left (fun acc ((den, a), b) ->
      let s = Q.add (zq (qi_nrm a)) (zq (qi_nrm b)) in
      let c = if Q.sign s = 0 then 0.0 else Q.to_float (Q.div (zq (qi_nrm den)) s) in
      if c < acc then c else acc) 1.0 tr
let () =
  try
    while true do
      let line = input_line stdin in
      toks := List.filter (fun s -> s <> "") (String.split_on_char ' ' line);
      if !toks <> [] then begin
        let op = next () in
        (match op with
         | "const" -> eps := qc (); cut := qc (); min_dx := qc (); print_string "const\n"
         | "rfi" ->
           let n = int_of_string (next ()) in let m = int_of_string (next ()) in
           let hint = ZZ.of_string (next ()) in let x = qc () in
           let xp = times n qc in let yp = times n cx in
           (match rfi_full !eps !cut xp yp (coqz_of_z (ZZ.of_int n)) (coqz_of_z (ZZ.of_int m)) x (coqz_of_z hint) with
            | None -> print_string "rfi FAULT\n"
            | Some ((v, h), tr) ->
              Printf.printf "rfi %s seg=%s cond=%.3e steps=%d\n" (string_of_qi v) (ZZ.to_string (z_of_coqz h)) (cond tr) (List.length tr))
         | "run" ->
           let n = int_of_string (next ()) in let m = int_of_string (next ()) in
           let hint = ZZ.of_string (next ()) in let k = int_of_string (next ()) in
           let xp = times n qc in let yp = times n cx in let qs = times k qc in
           let r = rfi_run !eps !cut xp yp (coqz_of_z (ZZ.of_int n)) (coqz_of_z (ZZ.of_int m)) (coqz_of_z hint) qs in
           Printf.printf "run %s\n" (String.concat " " (List.map (function None -> "F F" | Some v -> string_of_qi v) r))
         | "spline" ->
           let np = int_of_string (next ()) in
           let xs = times np qc in let ys = times np qc in
           let k = int_of_string (next ()) in let qs = times k qc in
           (match spline_interp !min_dx xs ys qs with
            | None -> print_string "spline EINVAL\n"
            | Some l -> Printf.printf "spline %s\n" (String.concat " " (List.map (function None -> "E" | Some v -> string_of_qc v) l)))
         | "sigma" ->
           let nx = int_of_string (next ()) in
           let xs = times nx qc in
           let np = int_of_string (next ()) in
           let ys = times np qc in
           let k = int_of_string (next ()) in let qs = times k qc in
           (match sigma_interp !min_dx xs ys qs with
            | None -> print_string "sigma EINVAL\n"
            | Some l -> Printf.printf "sigma %s\n" (String.concat " " (List.map (function None -> "E" | Some v -> string_of_qc v) l)))
         | "applytrace" ->
           let n = int_of_string (next ()) in let maxm = int_of_string (next ()) in
           let t = int_of_string (next ()) in let k = int_of_string (next ()) in
           let xp = times n qc in
           let terms = times t (fun () -> times n cx) in
           let req = times k qc in
           let tr = apply_trace !eps !cut xp (coqz_of_z (ZZ.of_int n)) (coqz_of_z (ZZ.of_int maxm)) terms req (coqz_of_z ZZ.zero) in
           let one (sin, r) = match r with
             | None -> Printf.sprintf "%s F F F" (ZZ.to_string (z_of_coqz sin))
             | Some (v, sout) -> Printf.sprintf "%s %s %s" (ZZ.to_string (z_of_coqz sin)) (string_of_qi v) (ZZ.to_string (z_of_coqz sout)) in
           Printf.printf "applytrace %s\n" (String.concat " " (List.map one (List.concat tr)))
         | _ -> Printf.printf "unknown %s\n" op);
        flush stdout
      end
    done
  with End_of_file -> ()
