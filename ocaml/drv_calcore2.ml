(* MODELS: calcore2 *)
(* Driver for the numeric calibration models at the Gaussian rationals.  One case per line:
     apply TYPECODE MR MC NE e.. NM m..        (complex = two rationals "p/q")
     cfg TYPECODE MR MC NVALID | pval HANDLE re im | add <as drv_calcore> NM m.. | system
        -> per system "SYS k ok|insufficient|singular nrows", rows "R a.. | b", "X x..", then "E e.." 
   Output: "apply ok a <..> b <..> s <..>" | "apply singular a <..> b <..>" | "apply refused" | "apply assert" *)
#include "glue.ml.inc"
let toks = ref []
let next () = match !toks with [] -> failwith "short line" | x :: r -> toks := r; x
let nint () = int_of_string (next ())
let cx () = let a = qc_of_string (next ()) in let b = qc_of_string (next ()) in { qre = a; qim = b }
let rec times n f = if n <= 0 then [] else let x = f () in x :: times (n - 1) f
let zi (x : z) = ZZ.to_int (z_of_coqz x)
let ty_of_code k = List.find (fun t -> zi (caltype_code t) = k) all_caltypes
let pv (v : qi list) = String.concat " " (List.map string_of_qi v)
let ty = ref T8 and mr = ref 1 and mc = ref 1 and nvalid = ref 3
let st = ref [] and mvs = ref [] and pvals = ref []
let () =
  try
    while true do
      let line = input_line stdin in
      toks := List.filter (fun s -> s <> "") (String.split_on_char ' ' line);
      if !toks <> [] then begin
        match next () with
        | "apply" ->
          let ty = ty_of_code (nint ()) in
          let mr = nint () in let mc = nint () in
          let ne = nint () in let e = times ne cx in
          let nm = nint () in let m = times nm cx in
          (match q_apply ty (nat_of_int mr) (nat_of_int mc) e m with
           | AOk (a, b, s) -> Printf.printf "apply ok a %s b %s s %s\n" (pv a) (pv b) (pv s)
           | ASingular (a, b) -> Printf.printf "apply singular a %s b %s\n" (pv a) (pv b)
           | ARefused -> print_string "apply refused\n"
           | AAssert -> print_string "apply assert\n")
        | "cfg" ->
          ty := ty_of_code (nint ()); mr := nint (); mc := nint (); nvalid := nint ();
          st := []; mvs := []; pvals := []
        | "pval" ->
          let h = nint () in let v = cx () in pvals := (h, v) :: !pvals
        | "add" ->
          let nz () = coqz_of_z (ZZ.of_string (next ())) in
          let ag = nint () <> 0 in
          let ar = nz () in let ac = nz () in let br = nz () in let bc = nz () in
          let sr = nz () in let sc = nz () in let diag = nint () <> 0 in
          let mg = nint () <> 0 in let nmap = nint () in
          let mp = times nmap nz in
          let ns = nint () in let s = times ns nz in
          let nv = !nvalid in
          let valid (h : z) = let k = zi h in k >= 0 && k < nv in
          let args = { aa_ty = !ty; aa_mr = nat_of_int !mr; aa_mc = nat_of_int !mc; aa_merr = false;
                       aa_valid = valid; aa_a_given = ag; aa_a_rows = ar; aa_a_cols = ac;
                       aa_b_rows = br; aa_b_cols = bc; aa_s = s; aa_s_rows = sr; aa_s_cols = sc;
                       aa_s_diag = diag; aa_map = (if mg then Some mp else None) } in
          let nm = nint () in let mv = times nm cx in
          let (st', o) = add_step !st args in
          st := st';
          (match o with
           | Accepted m -> mvs := !mvs @ [ { mv_meas = m; mv_m = Obj.magic mv } ]; print_string "add rc=0\n"
           | Rejected k -> Printf.printf "add rc=-1 check=%d\n" (int_of_nat k)
           | Aborts k -> Printf.printf "add abort=%d\n" (int_of_nat k))
        | "system" ->
          let pv_ (h : z) = (try List.assoc (zi h) !pvals with Not_found -> { qre = qc_of_string "0"; qim = qc_of_string "0" }) in
          let nsys = int_of_nat (systems_of !ty (nat_of_int !mc)) in
          let prow (a, b) = Printf.sprintf "%s | %s" (pv a) (string_of_qi b) in
          let big = int_of_nat (q_unknowns !ty (nat_of_int !mr) (nat_of_int !mc)) > 8 in
          if big then begin
            (* exact elimination of larger systems over Coq's binary rationals is slow: assembly only *)
            for sys = 0 to nsys - 1 do
              let rows : (qi list * qi) list = Obj.magic (q_assemble !ty (nat_of_int !mr) (nat_of_int !mc) !mvs (Obj.magic pv_) (nat_of_int sys)) in
              Printf.printf "SYS %d rows %d\n" sys (List.length rows);
              List.iter (fun r -> print_string ("R " ^ prow r ^ "\n")) rows
            done;
            print_string "E none\n"
          end else begin
          for sys = 0 to nsys - 1 do
            (match q_solve_system !ty (nat_of_int !mr) (nat_of_int !mc) !mvs pv_ (nat_of_int sys) with
             | SysOk (rows, x) ->
               Printf.printf "SYS %d ok %d\n" sys (List.length rows);
               List.iter (fun r -> print_string ("R " ^ prow r ^ "\n")) rows;
               Printf.printf "X %s\n" (pv x)
             | SysInsufficient rows ->
               Printf.printf "SYS %d insufficient %d\n" sys (List.length rows);
               List.iter (fun r -> print_string ("R " ^ prow r ^ "\n")) rows
             | SysSingular rows ->
               Printf.printf "SYS %d singular %d\n" sys (List.length rows);
               List.iter (fun r -> print_string ("R " ^ prow r ^ "\n")) rows)
          done;
          (match q_error_terms !ty (nat_of_int !mr) (nat_of_int !mc) !mvs pv_ with
           | Some e -> Printf.printf "E %s\n" (pv e)
           | None -> print_string "E none\n")
          end;
          print_string "endsystem\n"
        | s -> Printf.printf "unknown %s\n" s
      end
    done
  with End_of_file -> ()
