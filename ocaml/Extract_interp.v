(* NEEDS: Interp/RfiModel.vo Interp/SplineModel.vo Interp/SigmaSplineModel.vo Interp/ApplyFreqModel.vo *)
(* Extraction of the interpolation models (C10).  Only ExtrOcamlBasic's directives are in effect;
   nat, positive, Z, Q, Qc stay as the extracted inductive types.  The constants EPS, 10*EPS and
   MIN_DX are arguments of the models; the driver receives the regenerated values from the check. *)
Require Extraction.
Require Import ExtrOcamlBasic.
Require Import List ZArith QArith Qcanon.
Require Import LV.Base.QcI LV.Interp.QOrd LV.Interp.RfiModel LV.Interp.SplineModel LV.Interp.SigmaSplineModel LV.Interp.ApplyFreqModel.
Extraction Language OCaml.
Set Extraction KeepSingleton.
Extraction "models_interp.ml"
  QI qre qim qq Qnum Qden this qi_nrm
  rfi_full rfi rfi_run rfi_order spline_interp sigma_interp apply_trace apply_terms.
