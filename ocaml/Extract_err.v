(* NEEDS: Gen/ErrnoGen.vo Err/ContractModel.vo Err/ContractProofs.vo Err/RefutedModel.vo Err/NewModel.vo *)
(* Extraction of the C11 decision functions (argument-checking prologues).  Only ExtrOcamlBasic's
   directives are in effect; Z, positive, nat stay the extracted inductive types. *)
Require Extraction.
Require Import ExtrOcamlBasic.
Require Import List ZArith QArith.
Require Import LV.Err.ErrBase LV.Gen.ErrnoGen LV.Err.ContractModel LV.Err.ContractProofs LV.Err.RefutedModel LV.Err.NewModel.
Extraction Language OCaml.
Set Extraction KeepSingleton.
Extraction "models_err.ml"
  check_data sum_after sum_refused doc_fval check_query query_step add_calibration find_slot
  actual_errno callbacks gen_errno_of_code gen_errno_of doc_errno add_standard_current
  check_new_alloc check_new check_param check_convert gen_f_extrapolation
  gen_get_z0_strict gen_set_z0_strict gen_get_fz0_strict gen_set_fz0_strict gen_add_common_prevalidates.
