(* NEEDS: Gen/ErrnoGen.vo Err/OrderModel.vo Err/ContractModel.vo Err/ContractProofs.vo Err/RefutedModel.vo Err/NewModel.vo Err/HistModel.vo *)
(* Extraction of the C11 models: decision functions (argument-checking prologues), the check / write
   machine and the steps built on the generated orders.  Only ExtrOcamlBasic's directives are in
   effect; Z, positive, nat stay the extracted inductive types. *)
Require Extraction.
Require Import ExtrOcamlBasic.
Require Import List ZArith QArith.
Require Import LV.Err.ErrBase LV.Gen.ErrnoGen LV.Err.OrderModel LV.Err.ContractModel LV.Err.ContractProofs LV.Err.RefutedModel LV.Err.NewModel LV.Err.HistModel.
Extraction Language OCaml.
Set Extraction KeepSingleton.
Extraction "models_err.ml"
  check_data data_step doc_fval check_query query_step add_calibration find_slot
  actual_errno callbacks gen_errno_of_code gen_errno_of doc_errno add_standard_current
  check_new_alloc check_new new_step check_param param_step check_convert gen_f_extrapolation
  vset vset_subtree flat_cell hrun kept data_run
  gen_get_z0_strict gen_set_z0_strict gen_get_fz0_strict gen_set_fz0_strict gen_add_common_prevalidates gen_check_parameter_recurses gen_get_parameter_recurses
  gen_orders_digest.
