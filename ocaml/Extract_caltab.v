(* NEEDS: CalTab/CalTabModel.vo CalTab/TableSpec.vo CalTab/CalTabVectorModel.vo Interp/RfiModel.vo *)
(* Extraction of the calibration-table / parameter-handle model (property C16).  Only
   ExtrOcamlBasic's directives; nat, positive, Z stay the extracted inductive types. *)
Require Extraction.
Require Import ExtrOcamlBasic.
Require Import List ZArith.
Require Import QArith Qcanon.
Require Import LV.Base.QcI LV.CalTab.CalTabModel LV.CalTab.TableSpec LV.CalTab.CalTabVectorModel.
Extraction Language OCaml.
Set Extraction KeepSingleton.
Extraction "models_caltab.ml"
  step step_asis st_initial inv_b get_value frange_opt cal_frange get_value_q qre qim this Qnum Qden cal_end slot
  st_pt st_cals st_news st_gprop st_freed pt_slots pt_count pt_first_free
  p_kind p_deleted p_hold other_of
  c_name c_type c_rows c_cols c_nf c_fmin c_fmax c_prop
  o_ret o_err o_cb.
