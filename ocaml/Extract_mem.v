(* NEEDS: Mem/PropList.vo Mem/ParamSlots.vo Mem/AddArrays.vo Mem/DataAlloc.vo Mem/DataZ0.vo Mem/HashTab.vo *)
(* Extraction of the executable memory models (C03 / C12).  Only ExtrOcamlBasic's directives. *)
Require Extraction.
Require Import ExtrOcamlBasic.
Require Import List ZArith.
Require Import LV.Mem.Alloc LV.Mem.PropList LV.Mem.ParamSlots LV.Mem.AddArrays LV.Mem.DataAlloc LV.Mem.DataZ0 LV.Mem.HashTab.
Extraction Language OCaml.
Set Extraction KeepSingleton.
Extraction "models_mem.ml"
  start live fail_at fresh mkA
  lnew lstep lfree items
  pempty pstep teardown slots
  add_arrays mkAdd
  dnew resize dfree
  zstep mkO od ofr opt
  ph_init phstep table_free hblk hcount hbuckets nkey
  map_new mstep map_free mblk mtab morder.
