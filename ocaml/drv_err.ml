(* MODELS: err *)
(* Driver for the C11 decision functions.  One case per input line:
     d <null 0|1> <type> <rows> <cols> <freqs> <fz0 0|1> <func> <a1> <a2> <a3> <a4>
        -> "<ret> <errno> <callbacks> <type>,<rows>,<cols>,<freqs>,<fz0> <writes>"
           (summary after the call and number of write events made: a run of the ordered body, data_step,
            with the rest of the object a counter of the writes; "fault - 0 ..." = NULL handle dereferenced)
     q <slots: comma separated name ids, '-' = free, "empty" = no slots> <func> <a1>
        func: get_name|get_type|...|get_z0|find|delete|prop_type|prop_keys|...|add
        -> "<ret> <errno> <callbacks> <slots after> [<index>]"
     v <set|subtree> <descriptor>;<descriptor>;...     vnaproperty_vset / _vset_subtree applied in turn to a NULL root
        descriptor = <parse ok 0|1>,<path k.k.k or ->,<tail assignable 0|1>,<token: =<int> | # | eof | other>
        -> "<outcome of the last call> <tree after>"   tree = ~ | s<int> | {k:tree,...}
     na <type> <rows> <cols> <freqs>                                  vnacal_new_alloc
     nf <freqs> <fv: null | q,q,..>  (q = p/d or nan)                 vnacal_new_set_frequency_vector
     nx <pv|et|pt> <q>   |  nx it <int>                               scalar setters
     nm <type> <freqs> <fvalid> <n> <fv> <nf> <tr>                    vnacal_new_set_m_error (calibration range 1..3)
     nd <type> <rows> <cols> <b_null> <a_rows> <a_cols> <b_rows> <b_cols> <s_rows> <s_cols> <map: null | p,p,..>
        <cells: h,h,..> <a singular 0|1>                              _vnacal_new_add_common (handles 0..5 valid)
     nc <type> <rows> <cols> <registered: h,h,..> <unknowns> <correlated> <measurements> <calrange: none | lo~hi>
        <b_rows> <b_cols> <s_rows> <s_cols> <map: null | p,p,..> <cells: chain;chain;..>
        _vnacal_new_add_common through new_step on S cells that are parameter chains:
        chain = node>node>..., node = n:<h> | e:<h>:<live>:<unknown>:<fmin>:<fmax|inf> | c:<h>:<live>:<sigma: - | lo~hi>
        -> "<ret> <errno> <callbacks> <registered count> <unknowns> <correlated> <measurements>"
     ns <fvalid> <kernel: - | MATH>                                   vnacal_new_solve
     nn <fv|z0|add|me|pv|et|pt|it|solve>                              the same functions with a NULL vnacal_new_t pointer
     pp <null 0|1> <ms | mv n fv gnull | mu h | mc h n fv sigma | dl h | gv h q>
        parameter family on the table [predefined x 3; scalar; vector 3 points 1..3; unknown; deleted]
     cv <null 0|1> <type> <rows> <cols> <out null 0|1> <newtype>      vnadata_convert
     g          -> the five generated flags this executable was extracted with (z0 port tests, add_common order)
     e <code>   -> errno class of category code
     r <registered handles, comma separated> <unknowns> <cells, comma separated>
        (handles 0..5 valid, 5 = unknown parameter; the order - validate first or register as you go -
         is the one the translator found in vnacal_new_add_common.c)
        -> "<ret> <errno> <callbacks> <registered count> <unknowns> <measurements added>" *)
(* conversions between OCaml/Zarith values and the extracted Coq datatypes (the shared glue.ml.inc
   also needs the rational types, which this extraction does not contain) *)
module ZZ = Z
open MODELS
let rec int_of_nat = function O -> 0 | S n -> 1 + int_of_nat n
let rec pos_of_z (x : ZZ.t) : positive =
  if ZZ.equal x ZZ.one then XH
  else if ZZ.is_even x then XO (pos_of_z (ZZ.shift_right x 1))
  else XI (pos_of_z (ZZ.shift_right x 1))
let rec z_of_pos = function
  | XH -> ZZ.one
  | XO p -> ZZ.shift_left (z_of_pos p) 1
  | XI p -> ZZ.succ (ZZ.shift_left (z_of_pos p) 1)
let coqz_of_z (x : ZZ.t) : z =
  if ZZ.sign x = 0 then Z0 else if ZZ.sign x > 0 then Zpos (pos_of_z x) else Zneg (pos_of_z (ZZ.neg x))
let z_of_coqz = function Z0 -> ZZ.zero | Zpos p -> z_of_pos p | Zneg p -> ZZ.neg (z_of_pos p)
let zi s = coqz_of_z (ZZ.of_string s)
let iz z = ZZ.to_string (z_of_coqz z)
let errno_s = function
  | E_SYS -> "SYS" | E_ZERO -> "0" | E_INVAL -> "EINVAL" | E_DOM -> "EDOM" | E_BADMSG -> "EBADMSG"
  | E_NOENT -> "ENOENT" | E_NOPROTOOPT -> "ENOPROTOOPT" | E_NOSYS -> "ENOSYS"
let fval_s = function VM1 -> "m1" | VNULL -> "null" | VHUGE -> "huge"
let outcome_s = function
  | Pass -> "pass - 0"
  | Refuse (v, r) -> Printf.sprintf "%s %s %d" (fval_s v) (errno_s (actual_errno r)) (int_of_nat (callbacks r))
  | Fault -> "fault - 0"
let rec nat_of_int n = if n <= 0 then O else S (nat_of_int (n - 1))
let rec tree_s = function
  | PNull -> "~"
  | PScalar v -> "s" ^ iz v
  | PMap es -> "{" ^ String.concat "," (List.map (fun (k, t) -> iz k ^ ":" ^ tree_s t) es) ^ "}"
let pdesc_of (x : string) : pdesc =
  match String.split_on_char ',' x with
  | [ok; path; asg; tok] ->
    { pd_parse_ok = (ok = "1");
      pd_path = (if path = "-" then [] else List.map zi (String.split_on_char '.' path));
      pd_tail_assignable = (asg = "1");
      pd_token = (if tok = "#" then TkHash else if tok = "eof" then TkEof else if tok = "other" then TkOther
                  else TkAssign (zi (String.sub tok 1 (String.length tok - 1)))) }
  | _ -> failwith ("bad descriptor " ^ x)
let getter_of = function
  | "get_name" -> GName | "get_type" -> GType | "get_rows" -> GRows | "get_columns" -> GColumns
  | "get_frequencies" -> GFrequencies | "get_fmin" -> GFmin | "get_fmax" -> GFmax
  | "get_frequency_vector" -> GFrequencyVector | "get_z0" -> GZ0 | f -> failwith ("unknown getter " ^ f)
let propfn_of = function
  | "prop_type" -> PfType | "prop_count" -> PfCount | "prop_keys" -> PfKeys | "prop_get" -> PfGet | "prop_set" -> PfSet
  | "prop_delete" -> PfDelete | "prop_get_subtree" -> PfGetSubtree | "prop_set_subtree" -> PfSetSubtree
  | f -> failwith ("unknown property function " ^ f)
let dcall f a1 a2 a3 a4 =
  match f with
  | "init" -> CInit (a1, a2, a3, a4) | "resize" -> CResize (a1, a2, a3, a4) | "set_type" -> CSetType a1
  | "get_frequency" -> CGetFrequency a1 | "set_frequency" -> CSetFrequency a1
  | "get_fmin" -> CGetFmin | "get_fmax" -> CGetFmax
  | "get_cell" -> CGetCell (a1, a2, a3) | "set_cell" -> CSetCell (a1, a2, a3)
  | "get_matrix" -> CGetMatrix a1 | "set_matrix" -> CSetMatrix a1
  | "get_to_vector" -> CGetToVector (a1, a2) | "set_from_vector" -> CSetFromVector (a1, a2)
  | "get_z0" -> CGetZ0 a1 | "set_z0" -> CSetZ0 a1 | "get_z0_vector" -> CGetZ0Vector
  | "set_z0_vector" -> CSetZ0Vector | "set_all_z0" -> CSetAllZ0
  | "get_fz0" -> CGetFz0 (a1, a2) | "set_fz0" -> CSetFz0 (a1, a2)
  | "get_fz0_vector" -> CGetFz0Vector a1 | "set_fz0_vector" -> CSetFz0Vector a1
  | "add_frequency" -> CAddFrequency (ZZ.sign (z_of_coqz a1) < 0)
  | "set_filetype" -> CSetFiletype a1 | "set_fprecision" -> CSetFprecision a1 | "set_dprecision" -> CSetDprecision a1
  | _ -> failwith ("unknown data function " ^ f)
let sum_s s = Printf.sprintf "%s,%s,%s,%s,%d" (iz s.d_type) (iz s.d_rows) (iz s.d_cols) (iz s.d_freqs) (if s.d_fz0 then 1 else 0)
let slots_of s = if s = "empty" then [] else List.map (fun x -> if x = "-" then None else Some (zi x)) (String.split_on_char ',' s)
let slots_s l = if l = [] then "empty" else String.concat "," (List.map (function None -> "-" | Some z -> iz z) l)
let q_of_string (x : string) : q =
  match String.index_opt x '/' with
  | None -> { qnum = zi x; qden = XH }
  | Some i -> { qnum = zi (String.sub x 0 i); qden = pos_of_z (ZZ.of_string (String.sub x (i + 1) (String.length x - i - 1))) }
let dval_of x = if x = "nan" then None else Some (q_of_string x)
let dlist x = if x = "null" then None else Some (if x = "empty" then [] else List.map dval_of (String.split_on_char ',' x))
let zlist x = if x = "empty" then [] else List.map zi (String.split_on_char ',' x)
let valid05 h = let v = z_of_coqz h in ZZ.sign v >= 0 && ZZ.leq v (ZZ.of_int 5)
let unknown5 h = ZZ.equal (z_of_coqz h) (ZZ.of_int 5)
let flat05 hs = List.map (flat_cell valid05 unknown5) hs
let new0 = { n_registered = [Z0]; n_unknowns = Z0; n_correlated = Z0; n_measurements = Z0; n_calrange = None }
let qpair x = match String.split_on_char '~' x with
  | [a; b] -> (q_of_string a, q_of_string b) | _ -> failwith ("bad range " ^ x)
let rec chain_of (nodes : string list) : pchain =
  match nodes with
  | [] -> failwith "empty chain"
  | n :: rest ->
    (match String.split_on_char ':' n with
     | ["n"; h] -> ChNone (zi h)
     | ["e"; h; live; unk; a; b] -> ChEnd (zi h, live = "1", unk = "1", q_of_string a, (if b = "inf" then None else Some (q_of_string b)))
     | ["c"; h; live; sg] -> ChCorr (zi h, live = "1", (if sg = "-" then None else Some (qpair sg)), chain_of rest)
     | _ -> failwith ("bad chain node " ^ n))
let chains_of x = if x = "empty" then [] else List.map (fun c -> chain_of (String.split_on_char '>' c)) (String.split_on_char ';' x)
let nsum t r c f fv me = { v_type = t; v_rows = r; v_cols = c; v_freqs = f; v_fvalid = fv; v_merror = me; v_params = new0 }
let qi n = { qnum = coqz_of_z (ZZ.of_int n); qden = XH }
let ptab = [PScalarP; PScalarP; PScalarP; PScalarP; PVectorP (zi "3", qi 1, qi 3); PUnknownP (None, Some ((zi "3", qi 1), qi 3)); PFree]
let () =
  try
    while true do
      let line = input_line stdin in
      let t = Array.of_list (List.filter (fun s -> s <> "") (String.split_on_char ' ' line)) in
      if Array.length t > 0 then begin
        match t.(0) with
        | "d" ->
          let s = { d_type = zi t.(2); d_rows = zi t.(3); d_cols = zi t.(4); d_freqs = zi t.(5); d_fz0 = (t.(6) = "1") } in
          let c = dcall t.(7) (zi t.(8)) (zi t.(9)) (zi t.(10)) (zi t.(11)) in
          if t.(1) = "1" then Printf.printf "%s %s 0\n" (outcome_s (check_data None c)) (sum_s s)
          else begin
            (* the ordered body: the rest of the object counts the write events *)
            let (o', oc) = data_step (fun _ _ o -> S o.o_rest) { o_sum = s; o_rest = O } c in
            Printf.printf "%s %s %d\n" (outcome_s oc) (sum_s o'.o_sum) (int_of_nat o'.o_rest)
          end
        | "dh" ->
          (* dh <type> <rows> <cols> <freqs> <fz0> <op;op;..>   op = func:a1:a2:a3:a4
             the extracted hrun / kept over data_run (the rest of the object counts the write events)
             -> "<outcome/summary after;...> kept=<indices of the calls no argument check refused>" *)
          let s = { d_type = zi t.(1); d_rows = zi t.(2); d_cols = zi t.(3); d_freqs = zi t.(4); d_fz0 = (t.(5) = "1") } in
          let op_of x = (match String.split_on_char ':' x with
              | f :: a -> let g i = (match List.nth_opt a i with Some v -> zi v | None -> Z0) in dcall f (g 0) (g 1) (g 2) (g 3)
              | [] -> failwith "empty op") in
          let ops = List.map op_of (String.split_on_char ';' t.(6)) in
          let step = data_run (fun _ _ o -> S o.o_rest) in
          let o0 = { o_sum = s; o_rest = O } in
          let (_, answers) = hrun step o0 ops in
          (* the summaries after each call: prefixes of the history *)
          let rec sums o = function [] -> [] | c :: r -> let (o1, _) = step o c in o1.o_sum :: sums o1 r in
          let mres_s = function
            | MPass -> "pass/-/0"
            | MRefused (v, r) | MLate (v, r) -> Printf.sprintf "%s/%s/%d" (fval_s v) (errno_s (actual_errno r)) (int_of_nat (callbacks r)) in
          let k = kept step o0 ops in
          (* the indices of the calls no argument check refused; kept must be exactly that sublist *)
          let sel = List.concat (List.mapi (fun i m -> (match m with MRefused (_, _) -> [] | _ -> [i])) answers) in
          let sub = List.filteri (fun i _ -> List.mem i sel) ops in
          let idx _ _ _ = if sub = k then sel else [-1] in
          Printf.printf "%s kept=%s\n"
            (String.concat ";" (List.map2 (fun m su -> mres_s m ^ "/" ^ sum_s su) answers (sums o0 ops)))
            (match idx 0 ops k with [] -> "-" | l -> String.concat "," (List.map string_of_int l))
        | "q" ->
          let nullh = (t.(1) = "null") in
          let sl = if nullh then [] else slots_of t.(1) in
          let a1 = zi t.(3) in
          (match t.(2) with
           | "add" ->
             let (sl', k) = add_calibration sl a1 in
             Printf.printf "pass - 0 %s %s\n" (slots_s sl') (iz k)
           | f ->
             let c = (match f with
                 | "find" -> QFind a1 | "delete" -> QDelete a1
                 | _ when String.length f > 4 && String.sub f 0 4 = "get_" -> QGet (getter_of f, a1)
                 | _ -> QProperty (propfn_of f, a1)) in
             let (sl', o) = (if nullh then (sl, check_query None c) else query_step (fun x -> x) sl c) in
             let idx = (match c, o with QFind n, Pass -> (match find_slot sl n with Some k -> " " ^ iz k | None -> "") | _ -> "") in
             Printf.printf "%s %s%s\n" (outcome_s o) (slots_s sl') idx)
        | "r" ->
          let ints x = List.map zi (String.split_on_char ',' x) in
          let s0 = { n_registered = ints t.(1); n_unknowns = zi t.(2); n_correlated = Z0; n_measurements = Z0;
                     n_calrange = Some (qi 1, qi 3) } in
          (* through the step of the whole vnacal_new_t (T8 2x2, frequency vector given): argument checks of
             _vnacal_new_add_common, then the registration in the order found in the C text *)
          let o0 = { no_sum = { v_type = Z0; v_rows = zi "2"; v_cols = zi "2"; v_freqs = zi "3"; v_fvalid = true;
                                v_merror = false; v_params = s0 }; no_rest = () } in
          let a = { aa_b_null = false; aa_a = None; aa_b_rows = zi "2"; aa_b_cols = zi "2"; aa_s_rows = zi "2";
                    aa_s_cols = zi "2"; aa_map = Some [zi "1"; zi "2"]; aa_cells = flat05 (ints t.(3)); aa_a_singular = false;
                    aa_s_incomplete = false } in
          let (o1, o) = new_step (fun x _ -> x) (fun x -> x) o0 (NAdd a) in
          let s1 = o1.no_sum.v_params in
          Printf.printf "%s %d %s %s\n" (outcome_s o) (List.length s1.n_registered) (iz s1.n_unknowns) (iz s1.n_measurements)
        | "na" -> Printf.printf "%s\n" (outcome_s (check_new_alloc (zi t.(1)) (zi t.(2)) (zi t.(3)) (zi t.(4))))
        | "nf" ->
          let s = nsum Z0 (zi "2") (zi "2") (zi t.(1)) false false in
          Printf.printf "%s\n" (outcome_s (check_new (Some s) (NSetFv (dlist t.(2), false))))
        | "nx" ->
          let s = nsum Z0 (zi "2") (zi "2") (zi "3") true false in
          let c = (match t.(1) with
              | "pv" -> NSetPvalue (dval_of t.(2)) | "et" -> NSetEtTol (dval_of t.(2)) | "pt" -> NSetPTol (dval_of t.(2))
              | _ -> NSetIter (zi t.(2))) in
          Printf.printf "%s\n" (outcome_s (check_new (Some s) c))
        | "nm" ->
          let s = nsum (zi t.(1)) (zi "2") (zi "2") (zi t.(2)) (t.(3) = "1") false in
          let c = NSetMError (gen_f_extrapolation, qi 1, qi 3, zi t.(4), dlist t.(5), dlist t.(6), dlist t.(7), false) in
          Printf.printf "%s\n" (outcome_s (check_new (Some s) c))
        | "nd" ->
          let s = nsum (zi t.(1)) (zi t.(2)) (zi t.(3)) (zi "3") true false in
          let a = { aa_b_null = (t.(4) = "1");
                    aa_a = (if t.(5) = "0" && t.(6) = "0" then None else Some (zi t.(5), zi t.(6)));
                    aa_b_rows = zi t.(7); aa_b_cols = zi t.(8); aa_s_rows = zi t.(9); aa_s_cols = zi t.(10);
                    aa_map = (if t.(11) = "null" then None else Some (zlist t.(11)));
                    aa_cells = flat05 (zlist t.(12)); aa_a_singular = (t.(13) = "1"); aa_s_incomplete = false } in
          Printf.printf "%s\n" (outcome_s (check_new (Some s) (NAdd a)))
        | "nc" ->
          let s0 = { n_registered = zlist t.(4); n_unknowns = zi t.(5); n_correlated = zi t.(6); n_measurements = zi t.(7);
                     n_calrange = (if t.(8) = "none" then None else Some (qpair t.(8))) } in
          let o0 = { no_sum = { v_type = zi t.(1); v_rows = zi t.(2); v_cols = zi t.(3); v_freqs = zi "3"; v_fvalid = true;
                                v_merror = false; v_params = s0 }; no_rest = () } in
          let a = { aa_b_null = false; aa_a = None; aa_b_rows = zi t.(9); aa_b_cols = zi t.(10); aa_s_rows = zi t.(11);
                    aa_s_cols = zi t.(12); aa_map = (if t.(13) = "null" then None else Some (zlist t.(13)));
                    aa_cells = chains_of t.(14); aa_a_singular = false; aa_s_incomplete = false } in
          let (o1, o) = new_step (fun x _ -> x) (fun x -> x) o0 (NAdd a) in
          let s1 = o1.no_sum.v_params in
          Printf.printf "%s %d %s %s %s\n" (outcome_s o) (List.length s1.n_registered) (iz s1.n_unknowns) (iz s1.n_correlated)
            (iz s1.n_measurements)
        | "ns" ->
          let s = nsum Z0 (zi "2") (zi "2") (zi "3") (t.(1) = "1") false in
          Printf.printf "%s\n" (outcome_s (check_new (Some s) (NSolve (if t.(2) = "MATH" then Some MATH else None))))
        | "nn" ->
          (* NULL vnacal_new_t pointer *)
          let a0 = { aa_b_null = false; aa_a = None; aa_b_rows = zi "2"; aa_b_cols = zi "2"; aa_s_rows = zi "2"; aa_s_cols = zi "2";
                     aa_map = None; aa_cells = []; aa_a_singular = false; aa_s_incomplete = false } in
          let c = (match t.(1) with
              | "fv" -> NSetFv (None, false) | "z0" -> NSetZ0 | "add" -> NAdd a0
              | "me" -> NSetMError (gen_f_extrapolation, qi 1, qi 3, zi "1", None, None, None, false)
              | "pv" -> NSetPvalue None | "et" -> NSetEtTol None | "pt" -> NSetPTol None | "it" -> NSetIter (zi "1")
              | _ -> NSolve None) in
          Printf.printf "%s\n" (outcome_s (check_new None c))
        | "pp" ->
          let h = if t.(1) = "1" then None else Some ptab in
          let c = (match t.(2) with
              | "ms" -> PMakeScalar
              | "mv" -> PMakeVector (zi t.(3), dlist t.(4), t.(5) = "1")
              | "mu" -> PMakeUnknown (zi t.(3))
              | "mc" -> PMakeCorrelated (zi t.(3), zi t.(4), dlist t.(5), dlist t.(6))
              | "dl" -> PDelete (zi t.(3))
              | _ -> PGetValue (gen_f_extrapolation, zi t.(3), dval_of t.(4))) in
          Printf.printf "%s\n" (outcome_s (check_param h c))
        | "cv" ->
          let s = { d_type = zi t.(2); d_rows = zi t.(3); d_cols = zi t.(4); d_freqs = zi "1"; d_fz0 = false } in
          Printf.printf "%s\n" (outcome_s (check_convert (if t.(1) = "1" then None else Some s) (t.(5) = "1") (zi t.(6))))
        | "v" ->
          let ds = List.map pdesc_of (String.split_on_char ';' t.(2)) in
          let f = (if t.(1) = "set" then vset else vset_subtree) in
          let (tr, oc) = List.fold_left (fun (tr, _) d -> f tr d) (PNull, Pass) ds in
          Printf.printf "%s %s\n" (outcome_s oc) (tree_s tr)
        | "g" ->
          (* the facts taken from the C text that are baked into this executable *)
          let b x = if x then "1" else "0" in
          Printf.printf "%s%s%s%s%s%s%s-%s\n" (b gen_get_z0_strict) (b gen_set_z0_strict) (b gen_get_fz0_strict)
            (b gen_set_fz0_strict) (b gen_add_common_prevalidates) (b gen_check_parameter_recurses)
            (b gen_get_parameter_recurses) (iz gen_orders_digest)
        | "e" -> Printf.printf "%s\n" (errno_s (gen_errno_of_code (zi t.(1))))
        | _ -> failwith "unknown line"
      end
    done
  with End_of_file -> ()
