(* MODELS: solvecount *)
(* Driver for the C20 counting model.  Reads the model form of the scripts of checks/C20.py:
     new|nofreq TYPE R C F / par K / unk K G / cor K O / merr on|off /
     add r1 BR BC s11 port | add r2 BR BC s11 s22 p1 p2 | add th BR BC p1 p2 |
     add ln BR BC s11 s12 s21 s22 p1 p2 | add mm BR BC SR SC <cells> NMAP <ports> /
     solve V [early | wb J] (V = numeric verdict fed to the model's oracle; injected allocation failure:
     before the write-back / at the J-th calloc of the write-back) / takecal / end
   and prints one line per operation in the format of harness/solvecount_harness.c (the fields the
   model determines).  Parsing and printing only. *)
open MODELS
let rec nat_of_int n = if n <= 0 then O else S (nat_of_int (n - 1))
let rec int_of_nat = function O -> 0 | S n -> 1 + int_of_nat n
let ni s = nat_of_int (int_of_string s)

let type_of = function
  | "T8" -> T8 | "U8" -> U8 | "TE10" -> TE10 | "UE10" -> UE10
  | "T16" -> T16 | "U16" -> U16 | "UE14" -> UE14 | "E12" -> E12
  | s -> failwith ("bad type " ^ s)

let errno_s = function EDOM -> "EDOM" | EINVAL -> "EINVAL" | ENOMEM -> "ENOMEM"
let out_s = function
  | Ok -> "rc=0 errno=0"
  | Err e -> "rc=-1 errno=" ^ errno_s e
  | OutOfModel -> "rc=? errno=OUT-OF-MODEL"

let counts st =
  let cf = st.st_cf in
  let ns = int_of_nat (systems cf.cf_ty cf.cf_c) in
  let eq = String.concat "," (List.init ns (fun k -> string_of_int (int_of_nat (sys_count st (nat_of_int k))))) in
  let lst = String.concat "" (List.concat (List.mapi (fun k l ->
      List.map (fun (m, (r, c)) -> Printf.sprintf "%d:%d:%d,%d;" k (int_of_nat m) (int_of_nat r) (int_of_nat c)) l) st.st_sys)) in
  Printf.sprintf "systems=%d unknowns=%d eq=%s tot=%d max=%d meas=%d unk=%d corr=%d list=%s"
    ns (int_of_nat (unknowns cf.cf_ty cf.cf_r cf.cf_c)) eq (int_of_nat st.st_equations) (int_of_nat st.st_max)
    (List.length st.st_meas) (int_of_nat st.st_unknown) (int_of_nat st.st_corr) lst

let () =
  let pending = ref None in            (* (ty, r, c, f, fvalid) until the first operation on the object *)
  let kinds = ref [] in
  let state = ref None in
  let get () =
    (match !state, !pending with
     | None, Some (ty, r, c, f, fv) ->
       state := Some (init { cf_ty = ty; cf_r = r; cf_c = c; cf_kinds = List.rev !kinds } f fv)
     | _ -> ());
    match !state with Some s -> s | None -> failwith "no object" in
  try
    while true do
      let text = input_line stdin in
      let t = List.filter (fun s -> s <> "") (String.split_on_char ' ' text) in
      match t with
      | [] -> ()
      | ("new" | "nofreq" as w) :: ty :: r :: c :: f :: _ ->
        let ty = type_of ty in
        kinds := []; state := None;
        if alloc_ok ty (ni r) (ni c) then begin
          pending := Some (ty, ni r, ni c, ni f, w = "new");
          let st = init { cf_ty = ty; cf_r = ni r; cf_c = ni c; cf_kinds = [] } (ni f) (w = "new") in
          Printf.printf "N rc=0 %s\n" (counts st)
        end else begin
          pending := None;
          Printf.printf "N rc=-1 errno=EINVAL\n"
        end
      | ["par"; k] -> Printf.printf "P %s ok\n" k
      | ["unk"; k; _] -> kinds := (ni k, PUnknown) :: !kinds; Printf.printf "U %s ok\n" k
      | ["cor"; k; o] -> kinds := (ni k, PCorrelated (ni o)) :: !kinds; Printf.printf "C %s ok\n" k
      | ["merr"; x] ->
        let (st, out) = set_m_error (get ()) (x = "on") in
        state := Some st;
        Printf.printf "E %s\n" (out_s out)
      | "add" :: kind :: br :: bc :: rest ->
        let br = ni br and bc = ni bc in
        let a = (match kind, rest with
            | "r1", [s11; p] -> single_reflect br bc (ni s11) (ni p)
            | "r2", [s11; s22; p1; p2] -> double_reflect br bc (ni s11) (ni s22) (ni p1) (ni p2)
            | "th", [p1; p2] -> through br bc (ni p1) (ni p2)
            | "ln", [a; b; c; d; p1; p2] -> line br bc (ni a) (ni b) (ni c) (ni d) (ni p1) (ni p2)
            | "mm", sr :: sc :: more ->
              let n = int_of_string sr * int_of_string sc in
              let cells = List.filteri (fun i _ -> i < n) more in
              let tail = List.filteri (fun i _ -> i >= n) more in
              (match tail with
               | nm :: ports ->
                 let nm = int_of_string nm in
                 let map = if nm = 0 then None else Some (List.map ni (List.filteri (fun i _ -> i < nm) ports)) in
                 mapped_matrix br bc (ni sr) (ni sc) (List.map ni cells) map
               | [] -> failwith "short mm")
            | _ -> failwith ("bad add: " ^ text)) in
        let (st, out) = add_std (get ()) a in
        state := Some st;
        Printf.printf "A %s %s\n" (out_s out) (counts st)
      | "solve" :: v :: fault ->
        let st0 = get () in
        let verdict = (v = "1") in
        let af = (match fault with
            | [] -> NoFault
            | ["early"] -> FaultEarly
            | ["wb"; j] -> FaultWriteback (ni j)
            | _ -> failwith ("bad fault: " ^ text)) in
        let (st, out) = solve (fun _ _ _ -> verdict) af st0 in
        state := Some st;
        let path = (match solve_path st0 with PTrl -> "trl" | PSimple -> "simple" | PAuto -> "auto") in
        let ul = unknown_list st0 in
        let pv = String.concat "" (List.map (fun k ->
            let v = pv_get st.st_pv k in
            Printf.sprintf "%d:%d:%d;" (int_of_nat k) (int_of_nat v.pv_freqs) (match v.pv_gamma with Some _ -> 1 | None -> 0)) ul) in
        let pvsame = String.concat "" (List.map (fun k ->
            if pv_get st.st_pv k = pv_get st0.st_pv k then "1" else "0") ul) in
        Printf.printf "S %s cal=%d calsame=%d deficient=%d path=%s trl=%d %s pv=%s pvsame=%s\n" (out_s out)
          (match st.st_cal with Some _ -> 1 | None -> 0)
          (match out with Ok -> 0 | _ -> 1)
          (if count_deficient st0 then 1 else 0) path (if is_trl st0 then 1 else 0) (counts st) pv pvsame
      | ["takecal"] ->
        let (st, out) = take_cal (get ()) in
        state := Some st;
        Printf.printf "Y %s\n" (out_s out)
      | ["end"] -> state := None; pending := None; Printf.printf "Z\n"
      | _ -> failwith ("bad line: " ^ text)
    done
  with End_of_file -> ()
