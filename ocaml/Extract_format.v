(* NEEDS: Files/NpdScan.vo Data/FormatModel.vo *)
(* Extraction of the format-language model (Data/FormatModel.v): the setters on the format state, the
   parser and the printers.  Only ExtrOcamlBasic's directives are in effect. *)
Require Extraction.
Require Import ExtrOcamlBasic.
Require Import List NArith.
Require Import LV.Files.NpdScan LV.Data.FormatModel.
Extraction Language OCaml.
Set Extraction KeepSingleton.
Extraction "models_format.ml" set_format set_simple_format get_format init_state live_blocks parse print print_checked.
