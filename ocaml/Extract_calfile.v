(* NEEDS: CalFile/CalFileModel.vo CalFile/CalSaveModel.vo CalFile/NumText.vo Base/QcI.vo *)
(* Extraction of the calibration-file loader model and of the saver model (C07, C09 cal half).  Only
   ExtrOcamlBasic's directives are in effect; string, ascii, Z, Q stay as the extracted inductive types. *)
Require Extraction.
Require Import ExtrOcamlBasic.
Require Import List ZArith QArith Qcanon String.
Require Import LV.Base.CField LV.Base.QcI LV.CalFile.NumText LV.CalFile.CalFileModel LV.CalFile.CalSaveModel.
Extraction Language OCaml.
Set Extraction KeepSingleton.
Extraction "models_calfile.ml"
  QI qre qim qq Qnum Qden this
  load wf_cal wf_shape wf_cells mk_layout l_terms psteps parse_entries doc_gprops
  c_name c_type c_rows c_cols c_freqs c_z0 c_props c_data
  save_doc save_vline save_cal save_entry
  len_e len_a len_d max_text fits first_unfit buf_size.
