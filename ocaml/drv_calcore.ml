(* MODELS: calcore *)
(* Driver for the structural calibration model (coq/Cal/AddModel.v, TermsModel.v).  Input lines:
     cfg TYPECODE MR MC MERR NVALID        start a new calibration (handles 0..NVALID-1 are valid)
     add AG AR AC BR BC SR SC DIAG MAPGIVEN NMAP map.. NS s..      one _vnacal_new_add_common call
     addfn FN AG AR AC BR BC args                                  one call of a model ENTRY POINT of AddModel:
        sr S11 PORT | dr S11 S22 P1 P2 | th P1 P2 | ln S11 S12 S21 S22 P1 P2 | mm SR SC NS s.. MAPGIVEN NMAP map..
     dump                                  print the structure in the format of harness/calcore_e2e.c
   Output: "add rc=0" | "add rc=-1 check=K" | "add abort=K", and the dump lines ("B i map=cell:tag,.." is the
   result of the copy loop store_m on a caller's matrix whose cells carry the tags 1, 2, ..). *)
(* integer glue (the shared glue.ml.inc also needs the rational types, which this model does not extract) *)
module ZZ = Z
open MODELS
let rec nat_of_int n = if n <= 0 then O else S (nat_of_int (n - 1))
let rec int_of_nat = function O -> 0 | S n -> 1 + int_of_nat n
let rec pos_of_z (x : ZZ.t) : positive =
  if ZZ.equal x ZZ.one then XH
  else if ZZ.is_even x then XO (pos_of_z (ZZ.shift_right x 1))
  else XI (pos_of_z (ZZ.shift_right x 1))
let rec z_of_pos = function
  | XH -> ZZ.one
  | XO p -> ZZ.shift_left (z_of_pos p) 1
  | XI p -> ZZ.succ (ZZ.shift_left (z_of_pos p) 1)
let coqz_of_z (x : ZZ.t) : z =
  if ZZ.sign x = 0 then Z0 else if ZZ.sign x > 0 then Zpos (pos_of_z x) else Zneg (pos_of_z (ZZ.neg x))
let z_of_coqz = function Z0 -> ZZ.zero | Zpos p -> z_of_pos p | Zneg p -> ZZ.neg (z_of_pos p)
let toks = ref []
let next () = match !toks with [] -> failwith "short line" | x :: r -> toks := r; x
let nint () = int_of_string (next ())
let nz () = coqz_of_z (ZZ.of_string (next ()))
let rec times n f = if n <= 0 then [] else let x = f () in x :: times (n - 1) f
let zi (x : z) = ZZ.to_int (z_of_coqz x)
let ty_of_code k = List.find (fun t -> zi (caltype_code t) = k) all_caltypes
let () =
  let ty = ref T8 and mr = ref 1 and mc = ref 1 and merr = ref false and nvalid = ref 3 in
  let st = ref [] in
  try
    while true do
      let line = input_line stdin in
      toks := List.filter (fun s -> s <> "") (String.split_on_char ' ' line);
      if !toks <> [] then begin
        match next () with
        | "cfg" ->
          ty := ty_of_code (nint ()); mr := nint (); mc := nint (); merr := (nint () <> 0); nvalid := nint ();
          st := []
        | "add" ->
          let ag = nint () <> 0 in
          let ar = nz () in let ac = nz () in let br = nz () in let bc = nz () in
          let sr = nz () in let sc = nz () in let diag = nint () <> 0 in
          let mg = nint () <> 0 in let nmap = nint () in
          let mp = times nmap nz in
          let ns = nint () in let s = times ns nz in
          let nv = !nvalid in
          let valid (h : z) = let k = zi h in k >= 0 && k < nv in
          let args = { aa_ty = !ty; aa_mr = nat_of_int !mr; aa_mc = nat_of_int !mc; aa_merr = !merr;
                       aa_valid = valid; aa_a_given = ag; aa_a_rows = ar; aa_a_cols = ac;
                       aa_b_rows = br; aa_b_cols = bc; aa_s = s; aa_s_rows = sr; aa_s_cols = sc;
                       aa_s_diag = diag; aa_map = (if mg then Some mp else None) } in
          let (st', o) = add_step !st args in
          st := st';
          (match o with
           | Accepted _ -> print_string "add rc=0\n"
           | Rejected k -> Printf.printf "add rc=-1 check=%d\n" (int_of_nat k)
           | Aborts k -> Printf.printf "add abort=%d\n" (int_of_nat k))
        | "addfn" ->
          let fn = next () in
          let ag = nint () <> 0 in
          let ar = nz () in let ac = nz () in let br = nz () in let bc = nz () in
          let nv = !nvalid in
          let valid (h : z) = let k = zi h in k >= 0 && k < nv in
          let mr_ = nat_of_int !mr and mc_ = nat_of_int !mc in
          let o =
            match fn with
            | "sr" -> let s11 = nz () in let port = nz () in
              add_single_reflect !ty mr_ mc_ !merr valid ag ar ac br bc s11 port
            | "dr" -> let s11 = nz () in let s22 = nz () in let p1 = nz () in let p2 = nz () in
              add_double_reflect !ty mr_ mc_ !merr valid ag ar ac br bc s11 s22 p1 p2
            | "th" -> let p1 = nz () in let p2 = nz () in
              add_through !ty mr_ mc_ !merr valid ag ar ac br bc p1 p2
            | "ln" -> let s11 = nz () in let s12 = nz () in let s21 = nz () in let s22 = nz () in
              let p1 = nz () in let p2 = nz () in
              add_line !ty mr_ mc_ !merr valid ag ar ac br bc s11 s12 s21 s22 p1 p2
            | "mm" -> let sr = nz () in let sc = nz () in let ns = nint () in let s = times ns nz in
              let mg = nint () <> 0 in let nmap = nint () in let mp = times nmap nz in
              add_mapped_matrix !ty mr_ mc_ !merr valid ag ar ac br bc s sr sc (if mg then Some mp else None)
            | s -> failwith ("addfn " ^ s) in
          (match o with
           | Accepted m -> st := !st @ [m]; print_string "add rc=0\n"
           | Rejected k -> Printf.printf "add rc=-1 check=%d\n" (int_of_nat k)
           | Aborts k -> Printf.printf "add abort=%d\n" (int_of_nat k))
        | "dump" ->
          let nsys = int_of_nat (systems_of !ty (nat_of_int !mc)) in
          let neq = List.fold_left (fun a m -> a + List.length m.ms_eqs) 0 !st in
          let maxeq = ref 0 in
          for sys = 0 to nsys - 1 do
            maxeq := max !maxeq (List.length (system_equations !ty !st (nat_of_int sys)))
          done;
          Printf.printf "dump type=%d rows=%d cols=%d systems=%d measurements=%d equations=%d max_equations=%d\n"
            (zi (caltype_code !ty)) !mr !mc nsys (List.length !st) neq !maxeq;
          List.iteri (fun i m ->
            Printf.printf "M %d cells=" i;
            List.iteri (fun c g -> if g then Printf.printf "%d," c) m.ms_m_given;
            print_string "\n";
            let ncells = !mr * !mc in
            let tags = List.mapi (fun k _ -> k + 1) m.ms_m_cells in
            Printf.printf "B %d map=" i;
            List.iteri (fun c v -> match v with Some tag -> Printf.printf "%d:%d," c tag | None -> ())
              (store_m (nat_of_int ncells) m.ms_m_cells tags);
            print_string "\nS";
            List.iteri (fun c s -> match s with
              | SNull -> Printf.printf " %d:-" c
              | SZero -> Printf.printf " %d:Z" c
              | SParam h -> Printf.printf " %d:%d" c (zi h)) m.ms_s;
            print_string "\nC ";
            (match m.ms_conn with
             | None -> print_string "-"
             | Some l -> List.iter (fun b -> print_string (if b then "1" else "0")) l);
            print_string "\n") !st;
          let vcols = v_columns_of !ty (nat_of_int !mr) (nat_of_int !mc) in
          for sys = 0 to nsys - 1 do
            let eqs = system_equations !ty !st (nat_of_int sys) in
            List.iter (fun (i, e) ->
              Printf.printf "E %d %d %d %d\n" sys (int_of_nat i) (int_of_nat e.e_row) (int_of_nat e.e_col);
              List.iter (fun t ->
                Printf.printf "T %d %d %d %d %d %d\n" (zi t.t_x) (if t.t_neg then 1 else 0)
                  (zi t.t_m) (zi t.t_s) (zi t.t_v) (if t_nov vcols t then 1 else 0)) e.e_terms) eqs;
            Printf.printf "Y %d count=%d walked=%d\n" sys (List.length eqs) (List.length eqs)
          done;
          print_string "enddump\n"
        | s -> Printf.printf "unknown %s\n" s
      end
    done
  with End_of_file -> ()
