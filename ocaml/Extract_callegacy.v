(* NEEDS: CalFile/CalFileModel.vo CalFile/CalSaveModel.vo CalFile/LegacyModel.vo *)
(* Extraction of the generator of "#VNACAL 2.x" trees (CalFile/LegacyModel.v, property C07 legacy_versions)
   together with the saver model it is stated against.  Only ExtrOcamlBasic's directives are in effect. *)
Require Extraction.
Require Import ExtrOcamlBasic.
Require Import List ZArith QArith String.
Require Import LV.CalFile.CalFileModel LV.CalFile.CalSaveModel LV.CalFile.LegacyModel.
Extraction Language OCaml.
Set Extraction KeepSingleton.
Extraction "models_callegacy.ml" legacy_doc legacy_vline v3_vline save_doc save_vline ls_sets_key ls_type_key.
