(* MODELS: callegacy *)
(* Driver for the generator of "#VNACAL 2.x" node trees CalFile/LegacyModel.v (C07, legacy_versions).
   Input: LEGACY <sets 0|1> <type 0|1> <minor> <fprecision> <dprecision> <global properties 0|1> <slots>
   followed by the slot lines of ocaml/drv_calfile.ml's SAVE command (HOLE | CAL ... / F ... / T ...).
   Output: VLINE O 2 <minor>, the tree legacy_doc builds in the format of harness/yamltree.c with the
   same value placeholders as drv_calfile.ml, END. *)
(* own glue (ocaml/glue.ml.inc opens the extracted module, whose type [string] and module [String]
   would shadow OCaml's): conversions between Zarith / OCaml strings and the extracted datatypes *)
module ZZ = Z
module M = Models_callegacy
let rec pos_of_z (x : ZZ.t) : M.positive =
  if ZZ.equal x ZZ.one then M.XH
  else if ZZ.is_even x then M.XO (pos_of_z (ZZ.shift_right x 1))
  else M.XI (pos_of_z (ZZ.shift_right x 1))
let rec z_of_pos = function
  | M.XH -> ZZ.one
  | M.XO p -> ZZ.shift_left (z_of_pos p) 1
  | M.XI p -> ZZ.succ (ZZ.shift_left (z_of_pos p) 1)
let coqz_of_z (x : ZZ.t) : M.z =
  if ZZ.sign x = 0 then M.Z0 else if ZZ.sign x > 0 then M.Zpos (pos_of_z x) else M.Zneg (pos_of_z (ZZ.neg x))
let z_of_coqz = function M.Z0 -> ZZ.zero | M.Zpos p -> z_of_pos p | M.Zneg p -> ZZ.neg (z_of_pos p)
let rec coq_string_of (s : Stdlib.String.t) (i : int) : M.string =
  if i >= Stdlib.String.length s then M.EmptyString
  else
    let c = Char.code s.[i] in
    let b k = (c lsr k) land 1 = 1 in
    M.String (M.Ascii (b 0, b 1, b 2, b 3, b 4, b 5, b 6, b 7), coq_string_of s (i + 1))
let ocaml_string_of (s : M.string) : Stdlib.String.t =
  let buf = Buffer.create 16 in
  let rec go = function
    | M.EmptyString -> ()
    | M.String (M.Ascii (b0, b1, b2, b3, b4, b5, b6, b7), r) ->
      let v x k = if x then 1 lsl k else 0 in
      Buffer.add_char buf (Char.chr (v b0 0 + v b1 1 + v b2 2 + v b3 3 + v b4 4 + v b5 5 + v b6 6 + v b7 7));
      go r in
  go s; Buffer.contents buf
let unhex h = if h = "-" then "" else Stdlib.String.init (Stdlib.String.length h / 2) (fun i -> Char.chr (int_of_string ("0x" ^ Stdlib.String.sub h (2 * i) 2)))
let hex s = if s = "" then "-" else Stdlib.String.concat "" (Stdlib.List.map (fun c -> Printf.sprintf "%02x" (Char.code c)) (Stdlib.List.init (Stdlib.String.length s) (Stdlib.String.get s)))
let ctype_of = function
  | "T8" -> Some M.T8 | "U8" -> Some M.U8 | "TE10" -> Some M.TE10 | "UE10" -> Some M.UE10 | "T16" -> Some M.T16
  | "U16" -> Some M.U16 | "UE14" -> Some M.UE14 | "E12" -> Some M.E12 | _ -> None
let ctype_name = function
  | M.T8 -> "T8" | M.U8 -> "U8" | M.TE10 -> "TE10" | M.UE10 -> "UE10" | M.T16 -> "T16" | M.U16 -> "U16" | M.UE14 -> "UE14" | M.E12 -> "E12"
let coq_q num den : M.q = { M.qnum = coqz_of_z (ZZ.of_string num); M.qden = pos_of_z (ZZ.of_string den) }
let split line = Array.of_list (Stdlib.List.filter (fun s -> s <> "") (Stdlib.String.split_on_char ' ' line))
let rec read_node () : M.node =
  let line = input_line stdin in
  let t = split line in
  match t.(0) with
  | "S" ->
    let text = unhex t.(1) in
    let si = if t.(2) = "-" then None else Some (coqz_of_z (ZZ.of_string t.(2))) in
    let (sr, k) = (match t.(3) with
        | "B" -> (M.RBad, 4) | "N" -> (M.RNaN, 4) | "M" -> (M.RNeg, 4) | "I" -> (M.RPInf, 4)
        | "P" -> (M.RNonneg (coq_q t.(4) t.(5)), 6)
        | _ -> failwith "rclass") in
    M.NS { M.s_text = coq_string_of text 0; M.s_int = si; M.s_real = sr; M.s_cx = (t.(k) = "1");
           M.s_type = (if t.(k + 1) = "-" then None else ctype_of t.(k + 1)); M.s_keyok = (t.(k + 2) = "1") }
  | "Q" ->
    let n = int_of_string t.(1) in
    let rec go i acc = if i = 0 then Stdlib.List.rev acc else let x = read_node () in go (i - 1) (x :: acc) in
    M.NQ (go n [])
  | "M" ->
    let n = int_of_string t.(1) in
    let rec go i acc = if i = 0 then Stdlib.List.rev acc else let k = read_node () in let v = read_node () in go (i - 1) ((k, v) :: acc) in
    M.NM (go n [])
  | "C" -> M.NCYC
  | _ -> failwith ("node line: " ^ line)
(* ---- saver *)
let mk_scalar (text : Stdlib.String.t) : M.scalar =
  { M.s_text = coq_string_of text 0; M.s_int = None; M.s_real = M.RBad; M.s_cx = false; M.s_type = None; M.s_keyok = false }
let sc_int (n : M.z) = mk_scalar ("\001I " ^ ZZ.to_string (z_of_coqz n))
let sc_real (p : M.z) (x : Stdlib.String.t) = mk_scalar ("\001R " ^ ZZ.to_string (z_of_coqz p) ^ " " ^ x)
let sc_cx (p : M.z) ((a, b) : Stdlib.String.t * Stdlib.String.t) = mk_scalar ("\001C " ^ ZZ.to_string (z_of_coqz p) ^ " " ^ a ^ " " ^ b)
let sc_name (n : M.string) = mk_scalar ("\001N" ^ ocaml_string_of n)
let sc_type (t : M.ctype) = mk_scalar ("\001T" ^ ctype_name t)
let props_node = M.NS (mk_scalar "\001P")
let rec print_node (n : M.node) =
  match n with
  | M.NS s -> Printf.printf "S a %s\n" (hex (ocaml_string_of s.M.s_text))
  | M.NQ items -> Printf.printf "Q %d\n" (Stdlib.List.length items); Stdlib.List.iter print_node items
  | M.NM pairs -> Printf.printf "M %d\n" (Stdlib.List.length pairs); Stdlib.List.iter (fun (k, v) -> print_node k; print_node v) pairs
  | M.NCYC -> print_string "CYCLE\n"
let read_save (t : Stdlib.String.t array) =
  let z s = coqz_of_z (ZZ.of_string s) in
  let nslots = int_of_string t.(4) in
  let slots = Stdlib.List.init nslots (fun _ ->
      let l = split (input_line stdin) in
      if l.(0) = "HOLE" then None
      else begin
        let ty = (match ctype_of l.(2) with Some x -> x | None -> failwith "type") in
        let nterms = int_of_string l.(9) in
        let fl = split (input_line stdin) in
        let fvec = Stdlib.List.tl (Array.to_list fl) in
        let terms = Stdlib.List.init nterms (fun _ ->
            let tl = split (input_line stdin) in
            Stdlib.List.map (fun c -> match Stdlib.String.split_on_char ',' c with [a; b] -> (a, b) | _ -> failwith "term")
              (Stdlib.List.tl (Array.to_list tl))) in
        Some { M.k_name = coq_string_of (unhex l.(1)) 0; M.k_type = ty; M.k_rows = z l.(3); M.k_cols = z l.(4);
               M.k_fvec = fvec; M.k_z0 = (l.(6), l.(7)); M.k_props = (if l.(8) = "1" then Some props_node else None);
               M.k_terms = terms }
      end) in
  { M.v_fprec = z t.(1); M.v_dprec = z t.(2); M.v_props = (if t.(3) = "1" then Some props_node else None); M.v_slots = slots }
let do_legacy (t : Stdlib.String.t array) =
  let st = { M.ls_sets_key = (t.(1) = "1"); M.ls_type_key = (t.(2) = "1") } in
  let minor = coqz_of_z (ZZ.of_string t.(3)) in
  let v = read_save (Array.sub t 3 (Array.length t - 3)) in
  (match M.legacy_vline minor with
   | M.VBad -> print_string "VLINE B\n"
   | M.VNew (a, b) -> Printf.printf "VLINE N %s %s\n" (ZZ.to_string (z_of_coqz a)) (ZZ.to_string (z_of_coqz b))
   | M.VOld (a, b) -> Printf.printf "VLINE O %s %s\n" (ZZ.to_string (z_of_coqz a)) (ZZ.to_string (z_of_coqz b)));
  print_node (M.legacy_doc "nan" sc_int sc_real sc_cx sc_name sc_type st v);
  print_string "END\n"; flush stdout

let () =
  try
    while true do
      let line = input_line stdin in
      let t = split line in
      if Array.length t > 0 && t.(0) = "LEGACY" then do_legacy t
    done
  with End_of_file -> ()
