(* NEEDS: Lin/QrQI.vo *)
(* Extraction of the Householder-QR model of property C19 (Lin/QrModel.v at the Gaussian rationals,
   Lin/QrQI.v).  Only ExtrOcamlBasic's directives are in effect. *)
Require Extraction.
Require Import ExtrOcamlBasic.
Require Import List ZArith QArith Qcanon.
Require Import LV.Base.CField LV.Base.QcI LV.Lin.MatL LV.Lin.QrModel LV.Lin.QrQI.
Extraction Language OCaml.
Set Extraction KeepSingleton.
Extraction "models_qr.ml"
  QI qre qim qq Qnum Qden this
  qq_qrd qq_qrsolve qq_rank qq_run_lawsb qr_nan_opt qr_a qr_d qr_nan.
