(* MODELS: tsmem *)
(* Driver for the extracted pointer-level model Files/TsMem.v (the Touchstone loader's own buffers in the
   checked-memory monad).  One command per line, the format of harness/tstone_mem.c:
     mts K NAME HEX|-  ->  MEM rc errno | REQ n | FREED ref,text,vv | LIVE n | DEST type rows cols freqs filetype fz0 fprec dprec | ACC 0|1
                           or   FAULT <kind>     (DEST: Files/LoadFail.v, the destination of the harness after the recorded calls)
     mnp K NAME HEX|-  ->  MEM rc errno | REQ n | FREED z0,fields,text | LIVE n   (Files/TsMemNpd.v, variant NFixed)
   K > 0: the K-th request of the parser fails (start (Some (K-1))).  REQ = blocks handed out + the failed request.
   Glue (trusted): conversions between OCaml ints / Zarith and the extracted N, Z, positive, nat. *)
module ZZ = Z
module M = Models_tsmem
let rec pos_of_int (x : int) : M.positive =
  if x = 1 then M.XH else if x land 1 = 0 then M.XO (pos_of_int (x lsr 1)) else M.XI (pos_of_int (x lsr 1))
let n_of_int (x : int) : M.n = if x = 0 then M.N0 else M.Npos (pos_of_int x)
let rec z_of_pos = function
  | M.XH -> ZZ.one
  | M.XO p -> ZZ.shift_left (z_of_pos p) 1
  | M.XI p -> ZZ.succ (ZZ.shift_left (z_of_pos p) 1)
let z_of_coqz = function M.Z0 -> ZZ.zero | M.Zpos p -> z_of_pos p | M.Zneg p -> ZZ.neg (z_of_pos p)
let rec int_of_nat = function M.O -> 0 | M.S n -> 1 + int_of_nat n
let rec nat_of_int n = if n <= 0 then M.O else M.S (nat_of_int (n - 1))
let bytes_of_hex (h : string) : M.n list =
  if h = "-" then [] else
  List.init (String.length h / 2) (fun i -> n_of_int (int_of_string ("0x" ^ String.sub h (2 * i) 2)))
let optz = function None -> "-" | Some z -> ZZ.to_string (z_of_coqz z)
let faultname = function
  | M.OOB -> "OOB" | M.UseUninit -> "UseUninit" | M.UseAfterFree -> "UseAfterFree" | M.NullDeref -> "NullDeref"
  | M.IntOverflow -> "IntOverflow" | M.VlaBound -> "VlaBound"
let name_ft (name : string) : int =
  let n = String.length name in
  let suf = match String.rindex_opt name '.' with Some i -> String.sub name (i + 1) (n - i - 1) | None -> "" in
  let digits s = s <> "" && String.for_all (fun c -> c >= '0' && c <= '9') s in
  if suf = "ts" then 2 else if suf = "npd" then 3
  else if String.length suf >= 3 && suf.[0] = 's' && suf.[String.length suf - 1] = 'p'
          && digits (String.sub suf 1 (String.length suf - 2)) then 1 else 0
let coqz_of_int (x : int) : M.z = if x = 0 then M.Z0 else if x > 0 then M.Zpos (pos_of_int x) else M.Zneg (pos_of_int (- x))
let dest_string_of (((((((t, r), c), f), ft), pf), fp), dp) : string =
  Printf.sprintf "DEST %s %d %d %d %s %d %s %s" (ZZ.to_string (z_of_coqz t)) (int_of_nat r) (int_of_nat c) (int_of_nat f)
    (ZZ.to_string (z_of_coqz ft)) (if pf then 1 else 0) (ZZ.to_string (z_of_coqz fp)) (ZZ.to_string (z_of_coqz dp))
let dest_string (name : string) (calls : M.dop list) : string =
  dest_string_of (M.ts_digest (coqz_of_int (name_ft name)) calls) ^ (if M.ts_accepted (coqz_of_int (name_ft name)) calls then " | ACC 1" else " | ACC 0")
let ndest_string (name : string) (calls : M.ndop list) : string =
  dest_string_of (M.npd_digest (coqz_of_int (name_ft name)) calls) ^ (if M.npd_accepted (coqz_of_int (name_ft name)) calls then " | ACC 1" else " | ACC 0")
let eclass = function M.EBADMSG -> "EBADMSG" | M.ENOPROTOOPT -> "ENOPROTOOPT" | M.EINVAL -> "EINVAL" | M.EINTERNAL -> "EINTERNAL"

let () =
  try
    while true do
      let line = input_line stdin in
      (match List.filter (fun s -> s <> "") (String.split_on_char ' ' (String.trim line)) with
       | ["case"; id] -> print_string ("CASE " ^ id)
       | ["mts"; k; name; hex] ->
         let k = int_of_string k in
         let s0 = M.start (if k > 0 then Some (nat_of_int (k - 1)) else None) in
         (match M.mem_load_ts (bytes_of_hex hex) s0 with
          | M.Fault f -> print_string ("FAULT " ^ faultname f)
          | M.Ok0 ((r, rep), s) ->
            let failed = (k > 0) && (match M.fail_at s with None -> true | Some _ -> false) in
            let req = int_of_nat (M.fresh s) + (if failed then 1 else 0) in
            let rc = match r with
              | M.MOk _ -> "0 0"
              | M.MErr c -> "-1 " ^ eclass c
              | M.MENOMEM -> "-1 ENOMEM" in
            print_string (Printf.sprintf "MEM %s | REQ %d | FREED %s,%s,%s | LIVE %d | %s" rc req
                            (optz rep.M.r_ref) (optz rep.M.r_text) (optz rep.M.r_vv) (List.length (M.live s))
                            (dest_string name rep.M.r_calls)))
       | ["mnp"; k; name; hex] ->
         let k = int_of_string k in
         let s0 = M.start (if k > 0 then Some (nat_of_int (k - 1)) else None) in
         (match M.mem_load_npd M.NFixed (bytes_of_hex hex) s0 with
          | M.Fault f -> print_string ("FAULT " ^ faultname f)
          | M.Ok0 ((r, rep), s) ->
            let failed = (k > 0) && (match M.fail_at s with None -> true | Some _ -> false) in
            let req = int_of_nat (M.fresh s) + (if failed then 1 else 0) in
            let rc = match r with
              | M.NMOk -> "0 0"
              | M.NMErr c -> "-1 " ^ (match c with M.NEBADMSG -> "EBADMSG" | M.NEINVAL -> "EINVAL" | M.NEINTERNAL -> "EINTERNAL")
              | M.NMENOMEM -> "-1 ENOMEM" in
            print_string (Printf.sprintf "MEM %s | REQ %d | FREED %s,%s,%s | LIVE %d | %s" rc req
                            (optz rep.M.nr_z0) (optz rep.M.nr_fld) (optz rep.M.nr_text) (List.length (M.live s))
                            (ndest_string name rep.M.nr_calls)))
       | _ -> print_string ("? " ^ line));
      print_newline ()
    done
  with End_of_file -> ()
