(* NEEDS: SelfCal/VMatrixModel.vo SelfCal/VMatrixQI.vo SelfCal/ExactOverModel.vo Lin/LuQI2.vo Lin/LsSpec.vo Interp/SplineModel.vo *)
(* Extraction of the V-matrix model of _vnacal_new_solve_simple (VMatrixModel.v) at Q[i]: the
   linear-algebra Section variables are instantiated with the LU model (minverse, mldivide) and the
   least-squares oracle on the normal equations (LsLu.ls_lu) of coq/Lin; rsqrt is answered from a
   table supplied by the caller (exact for rational squares).  Only ExtrOcamlBasic's directives. *)
Require Extraction.
Require Import ExtrOcamlBasic.
Require Import List ZArith QArith Qcanon.
Import ListNotations.
Require Import LV.Base.CField LV.Base.QcI LV.Lin.MatL LV.Lin.LuModel LV.Lin.LuQI LV.Lin.LuQI2 LV.Lin.LsSpec.
Require Import LV.SelfCal.PvalueModel LV.SelfCal.GuardModel LV.SelfCal.VMatrixModel LV.SelfCal.VMatrixQI LV.SelfCal.ExactOverModel.
Require Import LV.Interp.SplineModel.

Definition v_alloc := alloc_v QIF.
Definition v_init := init_v_matrices QIF.
Definition v_weights (tab : list (Qc * Qc)) := calc_weights QIF qi_nrm (tab_rsqrt tab).
Definition v_rows := build_eqs QIF qi_of_Qc.
Definition v_update := update_v_matrices QIF q_minv.
Definition v_update_tab (tab : list (list qi * option (list qi))) := update_v_matrices QIF (tab_minv tab).
Definition v_vi := vi_matrix QIF.
Definition v_converged := converged QIF qi_nrm.
Definition v_have_after := have_v_after QIF.
Definition v_solve_freqs (tab : list (Qc * Qc)) :=
  solve_frequencies QIF qi_nrm (tab_rsqrt tab) qi_of_Qc q_minv q_solve_sq q_solve_ls.
Definition v_plain := plain_systems QIF qi_of_Qc q_solve_sq q_solve_ls.
Definition v_exactb := eq_exactb QIF qi_of_Qc qi_isz.
Definition v_wfb := eq_wfb QIF.
Definition v_mkstd (m s : list qi) (k : list bool) : vstd QIF := Build_vstd QIF m s k.
Definition v_mkprob (t : caltype) (r c u : nat) (stds : list (vstd QIF)) (sys : list (list veq))
           (noise : option (Qc * Qc)) : vprob QIF :=
  Build_vprob QIF t r c u stds sys noise.
(* C10's spline: coefficients once, then one evaluation per query *)
Definition v_spline := spline_interp.

Extraction Language OCaml.
Set Extraction KeepSingleton.
Extraction "models_vmatrix.ml"
  QI qre qim qq Qnum Qden this qi_nrm qi_sub
  v_alloc v_init v_weights v_rows v_update v_update_tab v_vi v_converged v_have_after v_solve_freqs v_plain
  v_exactb v_wfb v_mkstd v_mkprob v_spline build_terms_t8 build_terms_u8
  Build_vterm Build_veq CT8 CU8 CT16 CU16 CUE14 SOk.
