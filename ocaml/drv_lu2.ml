(* MODELS: lu2 *)
(* Driver for the C19 models.  One case per input line; <v> is "max" or "recip" (which reading of
   the row-scale statement of vnacommon_lu.c the model follows):
     lu <v> n <A: n*n complex>
     mldivide <v> m n <A: m*m> <B: m*n>
     mrdivide <v> m n <B: m*n> <A: n*n>
     minverse <v> n <A>
     ls m n o <A: m*n> <B: m*o>          least squares by normal equations on the LU model (LsLu.ls_lu:
                                         sound and complete, LsLuProofs.v); "ls none" = rank deficient
     lsgj m n o <A: m*n> <B: m*o>        the same by Gauss-Jordan + a posteriori check (LsSpec.ls_solve)
     luc <v> n <A>                       LuPartial.lu_c: what the C code returns when a pivot is exactly 0
         -> luc stop=<j|none> det=<nan| re im> piv=<row_index of the last finite state>
            a= <working array of that state (stop=j: the state BEFORE column j)>
     mldivide_c|mrdivide_c|minverse_c    same arguments as mldivide / mrdivide / minverse
         -> <op> det=<nan| re im> sol=none | x= ...
   complex = two rationals "p/q".  Output: one line per case (exact rationals). *)
#include "glue.ml.inc"
let toks = ref []
let next () = match !toks with [] -> failwith "short line" | x :: r -> toks := r; x
let cx () = let a = qc_of_string (next ()) in let b = qc_of_string (next ()) in o { qre = a; qim = b }
let rec times n f = if n = 0 then [] else let x = f () in x :: times (n - 1) f
let matrix r c = times r (fun () -> times c cx)
let pm (m : Obj.t list list) = String.concat " " (List.map (fun r -> String.concat " " (List.map (fun x -> string_of_qi (u x)) r)) m)
let variant () = match next () with "max" -> false | "recip" -> true | s -> failwith ("variant " ^ s)
let () =
  try
    while true do
      let line = input_line stdin in
      toks := List.filter (fun s -> s <> "") (String.split_on_char ' ' line);
      if !toks <> [] then begin
        let op = next () in
        (match op with
         | "lu" ->
           let v = variant () in
           let n = int_of_string (next ()) in
           let a = matrix n n in
           let st = (if v then q2_lu_recip else q2_lu_max) a (nat_of_int n) in
           Printf.printf "lu piv=%s det= %s cands=%s\n"
             (String.concat "," (List.map (fun k -> string_of_int (int_of_nat k)) st.lu_pivots))
             (string_of_qi (u st.lu_d))
             (String.concat ";" (List.map (fun l -> String.concat "," (List.map string_of_qc l)) st.lu_cands))
         | "mldivide" ->
           let v = variant () in
           let m = int_of_string (next ()) in let n = int_of_string (next ()) in
           let a = matrix m m in let b = matrix m n in
           let (x, d) = (if v then q2_mldivide_recip else q2_mldivide_max) a b (nat_of_int m) (nat_of_int n) in
           Printf.printf "mldivide det= %s x= %s\n" (string_of_qi (u d)) (pm x)
         | "mrdivide" ->
           let v = variant () in
           let m = int_of_string (next ()) in let n = int_of_string (next ()) in
           let b = matrix m n in let a = matrix n n in
           let (x, d) = (if v then q2_mrdivide_recip else q2_mrdivide_max) b a (nat_of_int m) (nat_of_int n) in
           Printf.printf "mrdivide det= %s x= %s\n" (string_of_qi (u d)) (pm x)
         | "minverse" ->
           let v = variant () in
           let n = int_of_string (next ()) in
           let a = matrix n n in
           let (x, d) = (if v then q2_minverse_recip else q2_minverse_max) a (nat_of_int n) in
           Printf.printf "minverse det= %s x= %s\n" (string_of_qi (u d)) (pm x)
         | "luc" ->
           let v = variant () in
           let n = int_of_string (next ()) in
           let a = matrix n n in
           let r = (if v then q2_lu_c_recip else q2_lu_c_max) a (nat_of_int n) in
           let (stop, det, st) = (match r with
             | LuFinite st -> ("none", string_of_qi (u st.lu_d), st)
             | LuNonFinite (j, st) -> (string_of_int (int_of_nat j), "nan", st)) in
           Printf.printf "luc stop=%s det= %s piv=%s a= %s\n" stop det
             (String.concat "," (List.map (fun k -> string_of_int (int_of_nat k)) st.lu_ri))
             (pm st.lu_a)
         | "mldivide_c" | "mrdivide_c" | "minverse_c" ->
           let v = variant () in
           let (xo, d) =
             (match op with
              | "mldivide_c" ->
                let m = int_of_string (next ()) in let n = int_of_string (next ()) in
                let a = matrix m m in let b = matrix m n in
                (if v then q2_mldivide_c_recip else q2_mldivide_c_max) a b (nat_of_int m) (nat_of_int n)
              | "mrdivide_c" ->
                let m = int_of_string (next ()) in let n = int_of_string (next ()) in
                let b = matrix m n in let a = matrix n n in
                (if v then q2_mrdivide_c_recip else q2_mrdivide_c_max) b a (nat_of_int m) (nat_of_int n)
              | _ ->
                let n = int_of_string (next ()) in
                let a = matrix n n in
                (if v then q2_minverse_c_recip else q2_minverse_c_max) a (nat_of_int n)) in
           Printf.printf "%s det= %s %s\n" op
             (match d with DetNaN -> "nan" | DetFin x -> string_of_qi (u x))
             (match xo with None -> "sol=none" | Some x -> "x= " ^ pm x)
         | "ls" | "lsgj" ->
           let m = int_of_string (next ()) in let n = int_of_string (next ()) in
           let oo = int_of_string (next ()) in
           let a = matrix m n in let b = matrix m oo in
           (match (if op = "ls" then q2_ls_lu else q2_ls_solve) (nat_of_int m) (nat_of_int n) (nat_of_int oo) a b with
            | None -> Printf.printf "%s none\n" op
            | Some x -> Printf.printf "%s x= %s\n" op (pm x))
         | _ -> Printf.printf "unknown %s\n" op)
      end
    done
  with End_of_file -> ()
