"""T4 (interpolation part) + T6: constants and frequency-range decision functions -> coq/Gen/RangeGen.v

Regenerated from the C text on every run of checks/C10.py.  Everything that is not in the accepted
idiom raises TranslateError (= broken tie, reported by the check together with a search for a
failing input).

Constants (exact decimal -> exact rational):
    vnacal_internal.h     #define VNACAL_F_EXTRAPOLATION <dec>      #define VNACAL_MAX_M <int>
    vnacal_rfi.c          #define EPS <dec>        if (cabs(den) < <dec> * EPS) {    (cut-off factor)
    vnacommon_spline.c    #define MIN_DX <dec>
    order idiom           MIN(<count>, VNACAL_MAX_M) at the three _vnacal_rfi call sites

Range checks.  Each site is a pair of assignments followed by one comparison

    lower = <expr>;  upper = <expr>;  if (<a> <op> <b> || <c> <op> <d>) { ...error...; return <fail>; }

(for vnacal_apply the two bounds come from _vnacal_calibration_get_fmin_bound /
_vnacal_calibration_get_fmax_bound, each a single `return <expr>;`, and the two comparisons are two
consecutive `if`s).  <expr> is built from decimal literals, + - * and parentheses, the macro
VNACAL_F_EXTRAPOLATION and the site's variables.  Every site is mapped to a function

    <site>_reject (need_lo need_hi have_lo have_hi : Q) : bool

where [need_lo, need_hi] is the band that has to be covered (calibration range, or the queried
frequency) and [have_lo, have_hi] the band that is supplied (parameter / noise vector /
calibration range).  The variable bindings of every site (fmin = ...[0], ...) are checked as well.

Parameter chains (_vnacal_get_parameter_frange, vnacal_parameter.c).  The walk is checked to be

    case VNACAL_SCALAR: *fmin = 0.0; *fmax = INFINITY; break;
    case VNACAL_VECTOR: *fmin = ...frequency_vector[0]; *fmax = ...[frequencies - 1]; break;
    case VNACAL_UNKNOWN: case VNACAL_CORRELATED: vpmrp = vpmrp->vpmr_other; continue;

followed by the restriction to the sigma grid of the ORIGINAL parameter

    if (vpmrp_orig->vpmr_type == VNACAL_CORRELATED && vpmrp_orig->vpmr_sigma_frequency_vector != NULL) {
        int sf = ...; double smin = ...sigma_frequency_vector[0]; double smax = ...[sf - 1];
        if (<a> <op> <b>) { *<t> = <c>; }        (two such stanzas, a, b, c in smin smax *fmin *fmax)
        if (<a> <op> <b>) { *<t> = <c>; }
    }

The two stanzas are regenerated (operands, operator, target, value - executed in sequence) as

    frange_clamp (smin smax fmin fmax : xq) : xq * xq

over the frequencies extended by +infinity (LV.Interp.FrangeBase.xq), and the decision function of
check_single_frequency_range is emitted a second time with the supplied band in xq
(range_new_parameter_reject_x); the supplied ends may then only occur as bare comparison operands.
The sites that fix which sigma frequency vector a correlated parameter carries
(vnacal_make_correlated_parameter.c: NULL for one point, its own copy, or the vector of the parameter
at the end of the chain) and the recursion of _vnacal_new_get_parameter / _vnacal_new_check_parameter
into the correlate are checked to be in the accepted idiom.
"""
import os
import re
from fractions import Fraction


class TranslateError(Exception):
    pass


def _read(repo, name):
    p = os.path.join(repo, "src", name)
    try:
        txt = open(p).read()
    except IOError as e:
        raise TranslateError("%s: cannot read (%s)" % (name, e))
    # strip comments
    txt = re.sub(r"/\*.*?\*/", " ", txt, flags=re.S)
    txt = re.sub(r"//[^\n]*", " ", txt)
    return txt


def _dec(s, where):
    m = re.fullmatch(r"(\d+)(?:\.(\d*))?(?:[eE]([-+]?\d+))?", s.strip())
    if not m:
        raise TranslateError("%s: not a decimal literal: %r" % (where, s))
    ip, fp, ex = m.group(1), m.group(2) or "", int(m.group(3) or 0)
    return Fraction(int(ip + fp), 10 ** len(fp)) * Fraction(10) ** ex


def _define(txt, name, where):
    ms = re.findall(r"(?m)^[ \t]*#[ \t]*define[ \t]+%s[ \t]+(\S+)[ \t]*$" % re.escape(name), txt)
    if len(ms) != 1:
        raise TranslateError("%s: expected exactly one '#define %s <literal>' (found %d)" % (where, name, len(ms)))
    return ms[0]


# ----------------------------------------------------------------------------- expression parser
TOK = re.compile(r"\s*(?:(\d+\.\d*(?:[eE][-+]?\d+)?|\d+(?:[eE][-+]?\d+)?)|([A-Za-z_][A-Za-z_0-9]*)|(\|\||<=|>=|.))")


def _lex(s, where):
    out, pos = [], 0
    s = s.strip()
    while pos < len(s):
        m = TOK.match(s, pos)
        if not m:
            raise TranslateError("%s: cannot tokenise %r" % (where, s[pos:pos + 20]))
        pos = m.end()
        if m.group(1) is not None:
            out.append(("num", m.group(1)))
        elif m.group(2) is not None:
            out.append(("id", m.group(2)))
        else:
            out.append(("op", m.group(3)))
    return out


class _P(object):
    def __init__(self, toks, names, where):
        self.t, self.i, self.names, self.where = toks, 0, names, where

    def peek(self):
        return self.t[self.i] if self.i < len(self.t) else ("eof", "")

    def eat(self, val=None):
        k, v = self.peek()
        if val is not None and v != val:
            raise TranslateError("%s: expected %r, found %r" % (self.where, val, v))
        self.i += 1
        return v

    def expr(self):
        e = self.term()
        while self.peek() in (("op", "+"), ("op", "-")):
            op = self.eat()
            e = ("add" if op == "+" else "sub", e, self.term())
        return e

    def term(self):
        e = self.atom()
        while self.peek() == ("op", "*"):
            self.eat()
            e = ("mul", e, self.atom())
        return e

    def atom(self):
        k, v = self.peek()
        if k == "num":
            self.eat()
            return ("num", _dec(v, self.where))
        if k == "id":
            self.eat()
            if v == "VNACAL_F_EXTRAPOLATION":
                return ("fext",)
            if v not in self.names:
                raise TranslateError("%s: unexpected identifier %r in a range expression" % (self.where, v))
            return ("var", self.names[v])
        if (k, v) == ("op", "("):
            self.eat()
            e = self.expr()
            self.eat(")")
            return e
        raise TranslateError("%s: unexpected token %r" % (self.where, v))

    def cmp(self):
        a = self.expr()
        k, op = self.peek()
        if op not in ("<", ">", "<=", ">="):
            raise TranslateError("%s: expected a comparison, found %r" % (self.where, op))
        self.eat()
        b = self.expr()
        return (op, a, b)

    def disj(self):
        cs = [self.cmp()]
        while self.peek() == ("op", "||"):
            self.eat()
            cs.append(self.cmp())
        if self.peek()[0] != "eof":
            raise TranslateError("%s: trailing tokens in condition: %r" % (self.where, self.peek()[1]))
        return cs


def _parse_expr(s, names, where):
    p = _P(_lex(s, where), names, where)
    e = p.expr()
    if p.peek()[0] != "eof":
        raise TranslateError("%s: trailing tokens in expression %r" % (where, s))
    return e


def _parse_cond(s, names, where):
    return _P(_lex(s, where), names, where).disj()


def _subst(s, table):
    """Replace C lvalues (longest first) by plain identifiers."""
    for c, v in sorted(table.items(), key=lambda kv: -len(kv[0])):
        s = re.sub(r"(?<![A-Za-z_0-9>.])" + re.escape(c).replace(r"\ ", r"\s*") + r"(?![A-Za-z_0-9\[])", v, s)
    return s


def _function_body(txt, name, where):
    m = re.search(r"\b%s\s*\([^;{]*\)\s*\{" % re.escape(name), txt)
    if not m:
        raise TranslateError("%s: function %s not found" % (where, name))
    i = m.end()
    depth = 1
    while i < len(txt) and depth:
        depth += {"{": 1, "}": -1}.get(txt[i], 0)
        i += 1
    return txt[m.end():i - 1]


def _need(body, pattern, where, what):
    m = re.search(pattern, body, flags=re.S)
    if not m:
        raise TranslateError("%s: %s not found (idiom changed)" % (where, what))
    return m


def _lower_upper_site(body, where, lvalues, bindings, fail):
    """lower = e; upper = e; if (cond) { ... return fail; }"""
    for pat, what in bindings:
        _need(body, pat, where, what)
    m = _need(body, r"\blower\s*=\s*([^;]+);\s*upper\s*=\s*([^;]+);\s*if\s*\((.*?)\)\s*\{(.*?)\}", where,
              "'lower = ...; upper = ...; if (...) {' sequence")
    if len(re.findall(r"\blower\s*=[^=]", body)) != 1 or len(re.findall(r"\bupper\s*=[^=]", body)) != 1:
        raise TranslateError("%s: lower/upper assigned more than once" % where)
    if not re.search(r"return\s+%s\s*;" % re.escape(fail), m.group(4)) or "_vnacal_error" not in m.group(4):
        raise TranslateError("%s: the range test no longer reports an error and returns %s" % (where, fail))
    names = dict((v, v) for v in lvalues.values())
    lo = _parse_expr(_subst(m.group(1), lvalues), names, where + ": lower")
    hi = _parse_expr(_subst(m.group(2), lvalues), names, where + ": upper")
    names2 = dict(names)
    names2.update({"lower": "lower", "upper": "upper"})
    ctext = _subst(m.group(3), lvalues)
    # leading `isnan(<variable>) ||` disjuncts: a NaN is refused before the comparisons (which are all
    # false for NaN); the decision functions are stated on Q, the guard is recorded and emitted as the
    # None case of <site>_reject_nan
    nan_guard = []
    while True:
        g = re.match(r"\s*isnan\s*\(\s*([A-Za-z_][A-Za-z_0-9]*)\s*\)\s*\|\|", ctext)
        if not g:
            break
        if g.group(1) not in names:
            raise TranslateError("%s: isnan() of %r, which is not a variable of the range test" % (where, g.group(1)))
        nan_guard.append(names[g.group(1)])
        ctext = ctext[g.end():]
    cond = _parse_cond(ctext, names2, where + ": condition")
    return {"lets": [("lower", lo), ("upper", hi)], "cond": cond, "nan_guard": nan_guard}


def _frange_part(repo):
    """_vnacal_get_parameter_frange: walk idiom checked, the two clamp stanzas parsed."""
    where = "vnacal_parameter.c:_vnacal_get_parameter_frange"
    fr = _function_body(_read(repo, "vnacal_parameter.c"), "_vnacal_get_parameter_frange", "vnacal_parameter.c")
    _need(fr, r"vnacal_parameter_t\s*\*\s*vpmrp_orig\s*=\s*vpmrp\s*;\s*for\s*\(\s*;\s*;\s*\)\s*\{\s*switch\s*\(\s*vpmrp->vpmr_type\s*\)\s*\{",
          where, "'vpmrp_orig = vpmrp; for (;;) { switch (vpmrp->vpmr_type) {'")
    _need(fr, r"case\s+VNACAL_SCALAR\s*:\s*\*fmin\s*=\s*0\.0\s*;\s*\*fmax\s*=\s*INFINITY\s*;\s*break\s*;", where,
          "scalar parameter range = 0.0 .. INFINITY")
    _need(fr, r"case\s+VNACAL_VECTOR\s*:\s*\*fmin\s*=\s*vpmrp->vpmr_frequency_vector\[0\]\s*;\s*"
              r"\*fmax\s*=\s*vpmrp->vpmr_frequency_vector\[vpmrp->vpmr_frequencies\s*-\s*1\]\s*;\s*break\s*;", where,
          "vector parameter range = first and last frequency")
    _need(fr, r"case\s+VNACAL_UNKNOWN\s*:\s*case\s+VNACAL_CORRELATED\s*:\s*vpmrp\s*=\s*vpmrp->vpmr_other\s*;\s*continue\s*;", where,
          "unknown / correlated: continue with vpmr_other")
    m = _need(fr, r"\}\s*break\s*;\s*\}\s*if\s*\(\s*vpmrp_orig->vpmr_type\s*==\s*VNACAL_CORRELATED\s*&&\s*"
                  r"vpmrp_orig->vpmr_sigma_frequency_vector\s*!=\s*NULL\s*\)\s*\{(.*)\}\s*$", where,
              "'if (vpmrp_orig->vpmr_type == VNACAL_CORRELATED && vpmrp_orig->vpmr_sigma_frequency_vector != NULL) {' after the walk")
    blk = m.group(1)
    m = _need(blk, r"^\s*int\s+sf\s*=\s*vpmrp_orig->vpmr_sigma_frequencies\s*;\s*"
                   r"double\s+smin\s*=\s*vpmrp_orig->vpmr_sigma_frequency_vector\[0\]\s*;\s*"
                   r"double\s+smax\s*=\s*vpmrp_orig->vpmr_sigma_frequency_vector\[sf\s*-\s*1\]\s*;(.*)$", where,
              "'int sf = ...; double smin = ...[0]; double smax = ...[sf - 1];'")
    rest = m.group(1)
    names = {"smin": "smin", "smax": "smax", "*fmin": "fmin", "*fmax": "fmax"}
    opnd = r"(smin|smax|\*\s*fmin|\*\s*fmax)"
    stz = re.compile(r"\s*if\s*\(\s*%s\s*(<=|>=|<|>)\s*%s\s*\)\s*\{\s*\*\s*(fmin|fmax)\s*=\s*%s\s*;\s*\}" % (opnd, opnd, opnd))
    stanzas, pos = [], 0
    while True:
        mm = stz.match(rest, pos)
        if not mm:
            break
        nm = lambda t: names[re.sub(r"\s+", "", t)]
        stanzas.append({"a": nm(mm.group(1)), "op": mm.group(2), "b": nm(mm.group(3)), "target": mm.group(4), "value": nm(mm.group(5))})
        pos = mm.end()
    if rest[pos:].strip() != "" or len(stanzas) != 2:
        raise TranslateError("%s: expected exactly two stanzas 'if (a op b) { *f = c; }' in the sigma restriction, found %d, rest %r"
                             % (where, len(stanzas), rest[pos:].strip()[:60]))
    if sorted(s["target"] for s in stanzas) != ["fmax", "fmin"]:
        raise TranslateError("%s: the two stanzas no longer assign *fmin and *fmax once each" % where)

    # which frequency vector a correlated parameter carries
    mk = _function_body(_read(repo, "vnacal_make_correlated_parameter.c"), "vnacal_make_correlated_parameter",
                        "vnacal_make_correlated_parameter.c")
    w2 = "vnacal_make_correlated_parameter.c"
    _need(mk, r"if\s*\(\s*sigma_frequencies\s*==\s*1\s*\)\s*\{\s*free\s*\(\s*\(void\s*\*\)\s*frequency_vector_copy\s*\)\s*;\s*"
              r"vpmrp->vpmr_sigma_frequency_vector\s*=\s*NULL\s*;\s*\}\s*else\s+if\s*\(\s*frequency_vector_copy\s*!=\s*NULL\s*\)\s*\{\s*"
              r"vpmrp->vpmr_sigma_frequency_vector\s*=\s*frequency_vector_copy\s*;\s*\}\s*else\s*\{\s*"
              r"assert\s*\([^;]*\)\s*;\s*vpmrp->vpmr_sigma_frequency_vector\s*=\s*vpmrp_end->vpmr_frequency_vector\s*;\s*\}", w2,
          "sigma frequency vector: NULL for one point / own copy / vector at the end of the chain")
    _need(mk, r"vpmrp_end\s*=\s*vpmrp_other\s*;\s*while\s*\(\s*vpmrp_end->vpmr_type\s*==\s*VNACAL_UNKNOWN\s*\|\|\s*"
              r"vpmrp_end->vpmr_type\s*==\s*VNACAL_CORRELATED\s*\)\s*\{\s*vpmrp_end\s*=\s*vpmrp_end->vpmr_other\s*;\s*\}", w2,
          "walk to the end of the chain of the correlate")
    _need(mk, r"vpmrp->vpmr_sigma_frequencies\s*=\s*sigma_frequencies\s*;", w2, "vpmr_sigma_frequencies = sigma_frequencies")
    sg = _function_body(_read(repo, "vnacal_make_correlated_parameter.c"), "_vnacal_get_correlated_sigma", w2)
    _need(sg, r"if\s*\(\s*vpmrp->vpmr_sigma_frequencies\s*==\s*1\s*\)\s*\{\s*return\s+vpmrp->vpmr_sigma_vector\[0\]\s*;\s*\}\s*"
              r"return\s+_vnacommon_spline_eval\s*\(\s*vpmrp->vpmr_sigma_frequencies\s*-\s*1\s*,\s*vpmrp->vpmr_sigma_frequency_vector\s*,\s*"
              r"vpmrp->vpmr_sigma_vector\s*,\s*vpmrp->vpmr_sigma_spline\s*,\s*frequency\s*\)\s*;", w2 + ":_vnacal_get_correlated_sigma",
          "one point: sigma_vector[0]; else _vnacommon_spline_eval(n - 1, sigma grid, sigma values, spline, frequency)")
    _need(mk, r"_vnacommon_spline_calc\s*\(\s*sigma_frequencies\s*-\s*1\s*,\s*frequency_vector_copy\s*!=\s*NULL\s*\?\s*"
              r"frequency_vector_copy\s*:\s*vpmrp_end->vpmr_frequency_vector\s*,\s*sigma_vector_copy\s*,\s*spline_vector\s*\)", w2,
          "_vnacommon_spline_calc(sigma_frequencies - 1, own copy or borrowed vector, sigma_vector_copy, spline_vector)")

    # the add-time decision recurses into the correlate, with the same band
    t = _read(repo, "vnacal_new_parameter.c")
    for fn in ("_vnacal_new_get_parameter", "_vnacal_new_check_parameter"):
        g = _function_body(t, fn, "vnacal_new_parameter.c")
        _need(g, r"if\s*\(\s*vnp->vn_frequencies_valid\s*&&\s*vnp->vn_frequencies\s*>\s*0\s*\)\s*\{\s*if\s*\(\s*check_single_frequency_range\s*\("
                 r"\s*function\s*,\s*vnp\s*,\s*vnp->vn_frequency_vector\[0\]\s*,\s*vnp->vn_frequency_vector\[vnp->vn_frequencies\s*-\s*1\]\s*,\s*"
                 r"vpmrp\s*\)\s*==\s*-1\s*\)\s*\{\s*return\s+(?:NULL|-1)\s*;", "vnacal_new_parameter.c:" + fn,
              "range check of the parameter itself when the frequency vector is valid")
        _need(g, r"vnacal_parameter_t\s*\*\s*vpmrp_correlate\s*=\s*VNACAL_GET_PARAMETER_OTHER\s*\(\s*vpmrp\s*\)\s*;[^;]*%s\s*\(\s*function\s*,\s*vnp\s*,\s*"
                 r"VNACAL_GET_PARAMETER_INDEX\s*\(\s*vpmrp_correlate\s*\)\s*\)" % re.escape(fn), "vnacal_new_parameter.c:" + fn,
              "recursion into the correlate of a correlated parameter")
    ca = _function_body(t, "_vnacal_new_check_all_frequency_ranges", "vnacal_new_parameter.c")
    _need(ca, r"for\s*\(\s*int\s+bucket\s*=\s*0\s*;\s*bucket\s*<\s*vnphp->vnph_allocation\s*;\s*\+\+bucket\s*\)\s*\{.*?"
              r"vnprp\s*=\s*vnphp->vnph_table\[bucket\]\s*;\s*for\s*\(\s*;\s*vnprp\s*!=\s*NULL\s*;\s*vnprp\s*=\s*vnprp->vnpr_hash_next\s*\)\s*\{\s*"
              r"if\s*\(\s*check_single_frequency_range\s*\(\s*function\s*,\s*vnp\s*,\s*fmin\s*,\s*fmax\s*,\s*vnprp->vnpr_parameter\s*\)\s*==\s*-1\s*\)\s*\{\s*return\s+-1\s*;",
          "vnacal_new_parameter.c:_vnacal_new_check_all_frequency_ranges", "every member of the parameter hash is range-checked with the same band")
    return {"stanzas": stanzas}


def _apply_part(repo):
    """_vnacal_apply_common: the tests on the request vector and the interpolation loop are in the
    idiom modelled by coq/Interp/ApplyFreqRange.v / ApplyFreqModel.v (checked, nothing generated
    beyond range_apply_reject)."""
    where = "vnacal_apply.c:_vnacal_apply_common"
    body = _function_body(_read(repo, "vnacal_apply.c"), "_vnacal_apply_common", "vnacal_apply.c")
    _need(body, r"\bint\s+segment\s*=\s*0\s*;", where, "'int segment = 0;'")
    if len(re.findall(r"\bsegment\b", body)) != 2:
        raise TranslateError("%s: the segment variable is used in %d places (expected its declaration and one '&segment')"
                             % (where, len(re.findall(r"\bsegment\b", body))))
    m = _need(body, r"for\s*\(\s*int\s+i\s*=\s*0\s*;\s*i\s*<\s*vaa\.vaa_frequencies\s*-\s*1\s*;\s*\+\+i\s*\)\s*\{\s*"
                    r"if\s*\(\s*vaa\.vaa_frequency_vector\[i\]\s*>=\s*vaa\.vaa_frequency_vector\[i\s*\+\s*1\]\s*\)\s*\{(.*?)\}\s*\}\s*"
                    r"if\s*\(\s*vaa\.vaa_frequencies\s*==\s*0\s*\)\s*\{\s*goto\s+range_ok\s*;\s*\}\s*"
                    r"if\s*\(\s*calp->cal_frequencies\s*==\s*0\s*\)\s*\{(.*?)\}\s*fmin\s*=", where,
              "'for (i < frequencies - 1) if (f[i] >= f[i + 1]) {error}; if (frequencies == 0) goto range_ok; if (cal_frequencies == 0) {error}; fmin = ...'")
    for blk in (m.group(1), m.group(2)):
        if not re.search(r"return\s+-1\s*;", blk) or "_vnacal_error" not in blk:
            raise TranslateError("%s: a test on the request frequencies no longer reports an error and returns -1" % where)
    # a NaN in the request is refused before the order test (every comparison is false for NaN); the model's
    # frequencies are rationals, so this exit has no counterpart in ApplyFreqRange.apply_check
    _need(body, r"for\s*\(\s*int\s+i\s*=\s*0\s*;\s*i\s*<\s*vaa\.vaa_frequencies\s*;\s*\+\+i\s*\)\s*\{\s*if\s*\(\s*isnan\s*\(\s*vaa\.vaa_frequency_vector\[i\]\s*\)\s*\)\s*\{"
                r"[^{}]*return\s+-1\s*;\s*\}\s*\}\s*for\s*\(\s*int\s+i\s*=\s*0\s*;\s*i\s*<\s*vaa\.vaa_frequencies\s*-\s*1", where,
          "NaN test on the request frequencies immediately before the order test")
    _need(body, r"range_ok\s*:", where, "label range_ok")
    _need(body, r"for\s*\(\s*int\s+findex\s*=\s*0\s*;\s*findex\s*<\s*vaa\.vaa_frequencies\s*;\s*\+\+findex\s*\)\s*\{\s*"
                r"double\s+f\s*=\s*vaa\.vaa_frequency_vector\[findex\]\s*;", where,
          "'for (findex = 0; findex < vaa_frequencies; ++findex) { double f = vaa_frequency_vector[findex];'")
    _need(body, r"for\s*\(\s*int\s+term\s*=\s*0\s*;\s*term\s*<\s*calp->cal_error_terms\s*;\s*\+\+term\s*\)\s*\{\s*"
                r"t\[term\]\s*=\s*_vnacal_rfi\s*\(\s*calp->cal_frequency_vector\s*,\s*calp->cal_error_term_vector\[term\]\s*,\s*"
                r"calp->cal_frequencies\s*,\s*MIN\s*\(\s*calp->cal_frequencies\s*,\s*VNACAL_MAX_M\s*\)\s*,\s*&segment\s*,\s*f\s*\)\s*;\s*\}", where,
          "'for (term < cal_error_terms) t[term] = _vnacal_rfi(cal_frequency_vector, cal_error_term_vector[term], cal_frequencies, "
          "MIN(cal_frequencies, VNACAL_MAX_M), &segment, f);'")
    return True


def translate(repo):
    out = {"consts": {}, "sites": {}}
    h = _read(repo, "vnacal_internal.h")
    out["consts"]["f_extrapolation"] = _dec(_define(h, "VNACAL_F_EXTRAPOLATION", "vnacal_internal.h"), "VNACAL_F_EXTRAPOLATION")
    mm = _define(h, "VNACAL_MAX_M", "vnacal_internal.h")
    if not re.fullmatch(r"\d+", mm):
        raise TranslateError("vnacal_internal.h: VNACAL_MAX_M is not an integer literal: %r" % mm)
    out["consts"]["vnacal_max_m"] = int(mm)

    rfi = _read(repo, "vnacal_rfi.c")
    out["consts"]["rfi_eps"] = _dec(_define(rfi, "EPS", "vnacal_rfi.c"), "EPS")
    m = _need(rfi, r"if\s*\(\s*cabs\s*\(\s*den\s*\)\s*<\s*([0-9.eE+-]+)\s*\*\s*EPS\s*\)\s*\{\s*goto\s+done\s*;", "vnacal_rfi.c",
              "'if (cabs(den) < <k> * EPS) { goto done;'")
    out["consts"]["rfi_cut_factor"] = _dec(m.group(1), "rfi cut-off factor")
    for pat, what in [(r"dx1\s*<=\s*EPS", "dx1 <= EPS"), (r"dx2\s*<=\s*EPS", "dx2 <= EPS"),
                      (r"d\s*\[\s*i\s*\]\s*=\s*yp\s*\[\s*base\s*\+\s*i\s*\]\s*\+\s*EPS\s*;", "d[i] = yp[base + i] + EPS")]:
        _need(rfi, pat, "vnacal_rfi.c", what)
    if len(re.findall(r"\bEPS\b", rfi)) != 5:
        raise TranslateError("vnacal_rfi.c: EPS is used in %d places (expected define + 4 uses)" % len(re.findall(r"\bEPS\b", rfi)))

    spl = _read(repo, "vnacommon_spline.c")
    out["consts"]["spline_min_dx"] = _dec(_define(spl, "MIN_DX", "vnacommon_spline.c"), "MIN_DX")
    _need(spl, r"if\s*\(\s*hp\s*\[\s*i\s*\]\s*<\s*MIN_DX\s*\)", "vnacommon_spline.c", "'if (hp[i] < MIN_DX)'")

    for f, cnt in (("vnacal_get_parameter_value.c", "vpmrp->vpmr_frequencies"), ("vnacal_parameter.c", "vpmrp->vpmr_frequencies"),
                   ("vnacal_apply.c", "calp->cal_frequencies")):
        t = _read(repo, f)
        calls = re.findall(r"_vnacal_rfi\s*\(([^;]*)\)\s*;", t)
        if len(calls) != 1:
            raise TranslateError("%s: expected one call of _vnacal_rfi" % f)
        args = re.sub(r"\s+", "", calls[0])
        c = re.sub(r"\s+", "", cnt)
        if ",%s,MIN(%s,VNACAL_MAX_M)," % (c, c) not in args:
            raise TranslateError("%s: order argument of _vnacal_rfi is no longer MIN(%s, VNACAL_MAX_M)" % (f, cnt))
    a = _read(repo, "archdep.h")
    _need(a, r"#\s*define\s+MIN\(a,\s*b\)\s+\(\(a\)\s*<=\s*\(b\)\s*\?\s*\(a\)\s*:\s*\(b\)\)", "archdep.h", "MIN macro")

    # ---- site 1: check_single_frequency_range (vnacal_new_parameter.c)
    t = _read(repo, "vnacal_new_parameter.c")
    body = _function_body(t, "check_single_frequency_range", "vnacal_new_parameter.c")
    out["sites"]["range_new_parameter"] = _lower_upper_site(
        body, "vnacal_new_parameter.c:check_single_frequency_range",
        {"fmin": "need_lo", "fmax": "need_hi", "pfmin": "have_lo", "pfmax": "have_hi"},
        [(r"_vnacal_get_parameter_frange\s*\(\s*vpmrp\s*,\s*&pfmin\s*,\s*&pfmax\s*\)\s*;", "_vnacal_get_parameter_frange(vpmrp, &pfmin, &pfmax)")],
        "-1")
    # the two callers pass the calibration frequency vector's first and last element
    g = _function_body(t, "_vnacal_new_get_parameter", "vnacal_new_parameter.c")
    _need(g, r"check_single_frequency_range\s*\(\s*function\s*,\s*vnp\s*,\s*vnp->vn_frequency_vector\[0\]\s*,\s*"
             r"vnp->vn_frequency_vector\[vnp->vn_frequencies\s*-\s*1\]\s*,\s*vpmrp\s*\)", "vnacal_new_parameter.c:_vnacal_new_get_parameter",
          "call check_single_frequency_range(function, vnp, f[0], f[n-1], vpmrp)")
    fr = _function_body(_read(repo, "vnacal_parameter.c"), "_vnacal_get_parameter_frange", "vnacal_parameter.c")
    _need(fr, r"case\s+VNACAL_VECTOR\s*:\s*\*fmin\s*=\s*vpmrp->vpmr_frequency_vector\[0\]\s*;\s*"
              r"\*fmax\s*=\s*vpmrp->vpmr_frequency_vector\[vpmrp->vpmr_frequencies\s*-\s*1\]\s*;", "vnacal_parameter.c:_vnacal_get_parameter_frange",
          "vector parameter range = first and last frequency")
    nw = _function_body(_read(repo, "vnacal_new.c"), "vnacal_new_set_frequency_vector", "vnacal_new.c")
    _need(nw, r"_vnacal_new_check_all_frequency_ranges\s*\(\s*__func__\s*,\s*vnp\s*,\s*frequency_vector\[0\]\s*,\s*"
              r"frequency_vector\[vnp->vn_frequencies\s*-\s*1\]\s*\)\s*==\s*-1", "vnacal_new.c:vnacal_new_set_frequency_vector",
          "call _vnacal_new_check_all_frequency_ranges(__func__, vnp, f[0], f[n-1])")

    # ---- site 2: vnacal_new_set_m_error
    t = _read(repo, "vnacal_new_set_m_error.c")
    body = _function_body(t, "vnacal_new_set_m_error", "vnacal_new_set_m_error.c")
    out["sites"]["range_m_error"] = _lower_upper_site(
        body, "vnacal_new_set_m_error.c",
        {"fmin": "need_lo", "fmax": "need_hi", "frequency_vector[0]": "have_lo", "frequency_vector[frequencies - 1]": "have_hi"},
        [(r"\bfmin\s*=\s*vnp->vn_frequency_vector\[0\]\s*;", "fmin = vnp->vn_frequency_vector[0]"),
         (r"\bfmax\s*=\s*vnp->vn_frequency_vector\[vnp->vn_frequencies\s*-\s*1\]\s*;", "fmax = vnp->vn_frequency_vector[vnp->vn_frequencies - 1]")],
        "-1")

    # the range test of set_m_error sits under `if (frequency_vector != NULL && frequencies > 1) { ... if (vn_frequencies > 0) {`:
    # a single value (frequencies == 1) applies to every frequency and its frequency vector is not looked at
    g = _need(body, r"if\s*\(\s*frequency_vector\s*!=\s*NULL\s*&&\s*frequencies\s*(>=|>)\s*(\d+)\s*\)\s*\{\s*double\s+fmin\s*,\s*fmax\s*;\s*double\s+lower\s*,\s*upper\s*;",
              "vnacal_new_set_m_error.c", "'if (frequency_vector != NULL && frequencies > <k>) { double fmin, fmax; double lower, upper;'")
    out["sites"]["range_m_error"]["applies"] = (g.group(1), int(g.group(2)))
    _need(body, r"if\s*\(\s*vnp->vn_frequencies\s*>\s*0\s*\)\s*\{\s*fmin\s*=\s*vnp->vn_frequency_vector\[0\]\s*;", "vnacal_new_set_m_error.c",
          "'if (vnp->vn_frequencies > 0) { fmin = ...' around the range test")
    _need(body, r"\}\s*else\s+if\s*\(\s*frequencies\s*!=\s*1\s*&&\s*frequencies\s*!=\s*vnp->vn_frequencies\s*\)\s*\{", "vnacal_new_set_m_error.c",
          "'} else if (frequencies != 1 && frequencies != vnp->vn_frequencies) {' (NULL frequency vector)")

    # ---- site 3: vnacal_get_parameter_value
    t = _read(repo, "vnacal_get_parameter_value.c")
    body = _function_body(t, "vnacal_get_parameter_value", "vnacal_get_parameter_value.c")
    out["sites"]["range_get_value"] = _lower_upper_site(
        body, "vnacal_get_parameter_value.c",
        {"fmin": "have_lo", "fmax": "have_hi", "frequency": "need_lo"},
        [(r"\bfmin\s*=\s*vpmrp->vpmr_frequency_vector\[0\]\s*;", "fmin = vpmrp->vpmr_frequency_vector[0]"),
         (r"\bfmax\s*=\s*vpmrp->vpmr_frequency_vector\[vpmrp->vpmr_frequencies\s*-\s*1\]\s*;", "fmax = ...[vpmr_frequencies - 1]")],
        "HUGE_VAL")

    # ---- site 4: _vnacal_apply_common + the two bound functions of vnacal_calibration.c
    c = _read(repo, "vnacal_calibration.c")
    names = {"have_lo": "have_lo", "have_hi": "have_hi"}
    lets = []
    for fn, var, lv in (("_vnacal_calibration_get_fmin_bound", "fmin", {"calp->cal_frequency_vector[0]": "have_lo"}),
                        ("_vnacal_calibration_get_fmax_bound", "fmax", {"calp->cal_frequency_vector[calp->cal_frequencies - 1]": "have_hi"})):
        b = _function_body(c, fn, "vnacal_calibration.c")
        m = re.fullmatch(r"\s*return\s+([^;]+);\s*", b, flags=re.S)
        if not m:
            raise TranslateError("vnacal_calibration.c:%s: body is no longer a single return statement" % fn)
        lets.append((var, _parse_expr(_subst(m.group(1), lv), names, "vnacal_calibration.c:" + fn)))
    t = _read(repo, "vnacal_apply.c")
    body = _function_body(t, "_vnacal_apply_common", "vnacal_apply.c")
    m = _need(body, r"\bfmin\s*=\s*_vnacal_calibration_get_fmin_bound\s*\(\s*calp\s*\)\s*;\s*if\s*\((.*?)\)\s*\{(.*?)\}\s*"
                    r"fmax\s*=\s*_vnacal_calibration_get_fmax_bound\s*\(\s*calp\s*\)\s*;\s*if\s*\((.*?)\)\s*\{(.*?)\}",
              "vnacal_apply.c:_vnacal_apply_common", "'fmin = ..._fmin_bound(calp); if (...) {...} fmax = ..._fmax_bound(calp); if (...) {...}'")
    for blk in (m.group(2), m.group(4)):
        if not re.search(r"return\s+-1\s*;", blk) or "_vnacal_error" not in blk:
            raise TranslateError("vnacal_apply.c: a frequency range test no longer reports an error and returns -1")
    lv = {"vaa.vaa_frequency_vector[0]": "need_lo", "vaa.vaa_frequency_vector[vaa.vaa_frequencies - 1]": "need_hi"}
    nm = {"need_lo": "need_lo", "need_hi": "need_hi", "fmin": "fmin", "fmax": "fmax"}
    cond = _parse_cond(_subst(m.group(1), lv), nm, "vnacal_apply.c: low test") + \
        _parse_cond(_subst(m.group(3), lv), nm, "vnacal_apply.c: high test")
    out["sites"]["range_apply"] = {"lets": lets, "cond": cond}
    for k, s in out["sites"].items():
        if len(s["cond"]) != 2:
            raise TranslateError("%s: expected two comparisons, found %d" % (k, len(s["cond"])))
    for k in ("range_new_parameter", "range_m_error"):
        if out["sites"][k].get("nan_guard"):
            raise TranslateError("%s: unexpected isnan() disjunct in the range test" % k)
    out["frange"] = _frange_part(repo)
    out["apply_loop_idiom"] = _apply_part(repo)
    _check_x_form(out["sites"]["range_new_parameter"], "vnacal_new_parameter.c:check_single_frequency_range")
    return out


# ----------------------------------------------------------------------------- emission
def _q(fr):
    if fr.numerator < 0:
        return "((%d) # %d)" % (fr.numerator, fr.denominator)
    return "(%d # %d)" % (fr.numerator, fr.denominator)


def _e(e):
    k = e[0]
    if k == "num":
        return _q(e[1])
    if k == "fext":
        return "f_extrapolation"
    if k == "var":
        return e[1]
    return "(%s %s %s)" % (_e(e[1]), {"add": "+", "sub": "-", "mul": "*"}[k], _e(e[2]))


def _c(c):
    op, a, b = c
    a, b = _e(a), _e(b)
    if op == "<":
        return "Qltb %s %s" % (a, b)
    if op == ">":
        return "Qltb %s %s" % (b, a)
    if op == "<=":
        return "Qle_bool %s %s" % (a, b)
    return "Qle_bool %s %s" % (b, a)


def _has_var(e, names):
    if e[0] == "var":
        return e[1] in names
    if e[0] in ("num", "fext"):
        return False
    return _has_var(e[1], names) or _has_var(e[2], names)


def _check_x_form(site, where):
    """The xq form needs the supplied ends as bare comparison operands only (they may be +infinity)."""
    hv = ("have_lo", "have_hi")
    for v, e in site["lets"]:
        if _has_var(e, hv):
            raise TranslateError("%s: %s is computed from the parameter's range (not expressible with an infinite upper end)" % (where, v))
    for op, a, b in site["cond"]:
        for e in (a, b):
            if e[0] != "var" and _has_var(e, hv):
                raise TranslateError("%s: the parameter's range occurs inside an arithmetic expression of the comparison" % where)


def _xe(e):
    if e[0] == "var" and e[1] in ("have_lo", "have_hi"):
        return e[1]
    return "(Fin %s)" % _e(e)


def _xc(c):
    op, a, b = c
    a, b = _xe(a), _xe(b)
    if op == "<":
        return "xltb %s %s" % (a, b)
    if op == ">":
        return "xltb %s %s" % (b, a)
    if op == "<=":
        return "xleb %s %s" % (a, b)
    return "xleb %s %s" % (b, a)


def _xcmp(op, a, b):
    if op == "<":
        return "xltb %s %s" % (a, b)
    if op == ">":
        return "xltb %s %s" % (b, a)
    if op == "<=":
        return "xleb %s %s" % (a, b)
    return "xleb %s %s" % (b, a)


def emit_frange(tr):
    L = []
    s = tr["sites"]["range_new_parameter"]
    L.append("Definition range_new_parameter_reject_x (need_lo need_hi : Q) (have_lo have_hi : xq) : bool :=")
    for v, e in s["lets"]:
        L.append("  let %s := %s in" % (v, _e(e)))
    L.append("  orb (%s) (%s)." % (_xc(s["cond"][0]), _xc(s["cond"][1])))
    L.append("")
    L.append("Definition frange_clamp (smin smax fmin fmax : xq) : xq * xq :=")
    for st in tr["frange"]["stanzas"]:
        L.append("  let %s := (if %s then %s else %s) in" % (st["target"], _xcmp(st["op"], st["a"], st["b"]), st["value"], st["target"]))
    L.append("  (fmin, fmax).")
    L.append("")
    return L


INF = "inf"


def py_clamp(tr, smin, smax, fmin, fmax):
    """frange_clamp evaluated in Python; values are Fractions or INF (= +infinity)."""
    def lt(a, b):
        return (a != INF) and (b == INF or a < b)

    def le(a, b):
        return b == INF or (a != INF and a <= b)
    env = {"smin": smin, "smax": smax, "fmin": fmin, "fmax": fmax}
    for st in tr["frange"]["stanzas"]:
        a, b = env[st["a"]], env[st["b"]]
        c = {"<": lt(a, b), ">": lt(b, a), "<=": le(a, b), ">=": le(b, a)}[st["op"]]
        if c:
            env[st["target"]] = env[st["value"]]
    return env["fmin"], env["fmax"]


def py_decide_x(tr, need_lo, need_hi, have_lo, have_hi):
    """range_new_parameter_reject_x evaluated in Python (have_hi may be INF)."""
    def lt(a, b):
        return (a != INF) and (b == INF or a < b)

    def le(a, b):
        return b == INF or (a != INF and a <= b)
    env = {"need_lo": need_lo, "need_hi": need_hi, "have_lo": have_lo, "have_hi": have_hi}

    def ev(e):
        k = e[0]
        if k == "num":
            return e[1]
        if k == "fext":
            return tr["consts"]["f_extrapolation"]
        if k == "var":
            return env[e[1]]
        a, b = ev(e[1]), ev(e[2])
        return a + b if k == "add" else a - b if k == "sub" else a * b
    s = tr["sites"]["range_new_parameter"]
    for v, e in s["lets"]:
        env[v] = ev(e)
    res = False
    for op, a, b in s["cond"]:
        a, b = ev(a), ev(b)
        res = res or {"<": lt(a, b), ">": lt(b, a), "<=": le(a, b), ">=": le(b, a)}[op]
    return res


def emit(tr):
    c = tr["consts"]
    L = ["(* GENERATED by translate/ranges.py from the C sources - do not edit. *)",
         "Require Import ZArith QArith.", "Require Import LV.Interp.QOrd LV.Interp.FrangeBase.", "Local Open Scope Q_scope.", "",
         "Definition f_extrapolation : Q := %s." % _q(c["f_extrapolation"]),
         "Definition rfi_eps : Q := %s." % _q(c["rfi_eps"]),
         "Definition rfi_cut_factor : Q := %s." % _q(c["rfi_cut_factor"]),
         "Definition spline_min_dx : Q := %s." % _q(c["spline_min_dx"]),
         "Definition vnacal_max_m : Z := %d%%Z." % c["vnacal_max_m"], ""]
    for name in ("range_new_parameter", "range_m_error", "range_get_value", "range_apply"):
        s = tr["sites"][name]
        L.append("Definition %s_reject (need_lo need_hi have_lo have_hi : Q) : bool :=" % name)
        for v, e in s["lets"]:
            L.append("  let %s := %s in" % (v, _e(e)))
        L.append("  orb (%s) (%s)." % (_c(s["cond"][0]), _c(s["cond"][1])))
        L.append("")
    # set_m_error: the range test applies to calls with more than <k> points only
    op, k = tr["sites"]["range_m_error"].get("applies", (">", 1))
    L.append("Definition range_m_error_applies (frequencies : Z) : bool := %s." % ("Z.ltb %d frequencies" % k if op == ">" else "Z.leb %d frequencies" % k))
    L.append("Definition range_m_error_reject_n (frequencies : Z) (need_lo need_hi have_lo have_hi : Q) : bool :=")
    L.append("  if range_m_error_applies frequencies then range_m_error_reject need_lo need_hi have_lo have_hi else false.")
    L.append("")
    # vnacal_get_parameter_value: None = a NaN frequency.  With the isnan() disjunct it is refused before the
    # comparisons; without it every comparison is false for NaN and the value is accepted.
    ng = tr["sites"]["range_get_value"].get("nan_guard", [])
    if [v for v in ng if v != "need_lo"]:
        raise TranslateError("vnacal_get_parameter_value.c: isnan() guard on %s (only the queried frequency is expected)" % ng)
    L.append("Definition range_get_value_reject_nan (frequency : option Q) (have_lo have_hi : Q) : bool :=")
    L.append("  match frequency with")
    L.append("  | None => %s" % ("true" if "need_lo" in ng else "false"))
    L.append("  | Some f => range_get_value_reject f f have_lo have_hi")
    L.append("  end.")
    L.append("")
    L += emit_frange(tr)
    return "\n".join(L)


def py_decide(tr, name, need_lo, need_hi, have_lo, have_hi):
    """The same decision evaluated in Python with Fractions (used only to cross-check coq_eval)."""
    env = {"need_lo": need_lo, "need_hi": need_hi, "have_lo": have_lo, "have_hi": have_hi}

    def ev(e):
        k = e[0]
        if k == "num":
            return e[1]
        if k == "fext":
            return tr["consts"]["f_extrapolation"]
        if k == "var":
            return env[e[1]]
        a, b = ev(e[1]), ev(e[2])
        return a + b if k == "add" else a - b if k == "sub" else a * b
    s = tr["sites"][name]
    for v, e in s["lets"]:
        env[v] = ev(e)
    res = False
    for op, a, b in s["cond"]:
        a, b = ev(a), ev(b)
        res = res or {"<": a < b, ">": a > b, "<=": a <= b, ">=": a >= b}[op]
    return res


def generate(ctx, repo=None):
    """Write coq/Gen/RangeGen.v; returns the translation (raises TranslateError)."""
    import vplib
    tr = translate(repo or ctx.repo)
    os.makedirs(os.path.join(vplib.COQDIR, "Gen"), exist_ok=True)
    ctx.write_if_changed(os.path.join(vplib.COQDIR, "Gen", "RangeGen.v"), emit(tr) + "\n")
    return tr


if __name__ == "__main__":
    import sys
    print(emit(translate(sys.argv[1] if len(sys.argv) > 1 else "/repo")))
