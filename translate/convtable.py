"""T2: vnadata_convert.c -> coq/Gen/ConvTableGen.v.

Accepted idiom (anything else raises TranslateError):
  * `enum conversion_group { NAME = (a << b) | NAME = n, ... }`
  * `typedef enum conversion_code { INVAL = 0x0000, NAME = MAKE_CODE(G1 | G2 | G3, index), ... }`
  * `static const conversion_code_t conversion_table[VPT_NTYPES][VPT_NTYPES] = { {NAME, ...}, ... }` 11 x 11
  * six `static void (*group_<g>[])(...) = { [GET_INDEX(NAME)] = vnaconv_fn, ... };`
  * the `switch (group)` of vnadata_convert dispatching `case DIM_x | Z0_y | CONV_z:` to `group_<g>[index]`
  * prototypes `extern void vnaconv_xtoy(...)` of vnaconv.h (argument shape of each function)
Output: for every (from, to) pair the decoded entry
  None | Some (dimension class, needs z0, kind, name of the selected function)
and for every function named in a group table its prototype shape (has z0, has n, vector output).
"""
import os
import re

TYPES = ["VUNDEF", "VS", "VT", "VU", "VZ", "VY", "VH", "VG", "VA", "VB", "VZIN"]


class TranslateError(Exception):
    pass


def strip_comments(s):
    return re.sub(r"/\*.*?\*/", "", s, flags=re.S)


def eval_int(expr, env):
    e = expr.strip()
    if not re.match(r"^[\w\s|<()x]+$", e):
        raise TranslateError("unexpected expression: %s" % expr)
    try:
        return int(eval(e, {"__builtins__": {}}, dict(env)))
    except Exception as ex:
        raise TranslateError("cannot evaluate %s: %s" % (expr, ex))


def parse(repo):
    src = strip_comments(open(os.path.join(repo, "src", "vnadata_convert.c")).read())
    # conversion_group
    m = re.search(r"enum\s+conversion_group\s*\{(.*?)\};", src, flags=re.S)
    if not m:
        raise TranslateError("enum conversion_group not found")
    genv = {}
    for item in m.group(1).split(","):
        if not item.strip():
            continue
        mm = re.match(r"\s*(\w+)\s*=\s*(.+?)\s*$", item, flags=re.S)
        if not mm:
            raise TranslateError("conversion_group item: %s" % item)
        genv[mm.group(1)] = eval_int(mm.group(2), genv)
    for k in ("CONV_xtoy", "CONV_xtoI", "CONV_NONE", "CONV_MASK", "DIM_ANY", "DIM_VEC", "DIM_2x2", "DIM_NxN",
              "DIM_MASK", "Z0_NO", "Z0_YES", "Z0_MASK"):
        if k not in genv:
            raise TranslateError("conversion_group lacks %s" % k)
    shifts = {}
    for name in ("GROUP_SHIFT", "GROUP_MASK", "INDEX_SHIFT", "INDEX_MASK"):
        mm = re.search(r"#define\s+%s\s+\(?\s*(0x[0-9A-Fa-f]+|\d+)\s*\)?" % name, src)
        if not mm:
            raise TranslateError("#define %s not found" % name)
        shifts[name] = int(mm.group(1), 0)
    if not re.search(r"#define\s+MAKE_CODE\(group,\s*index\)\s*\\\s*\(\(group\)\s*<<\s*GROUP_SHIFT\s*\|\s*\(index\)\s*<<\s*INDEX_SHIFT\)", src):
        raise TranslateError("MAKE_CODE has an unexpected definition")
    # conversion_code
    m = re.search(r"typedef\s+enum\s+conversion_code\s*\{(.*?)\}\s*conversion_code_t\s*;", src, flags=re.S)
    if not m:
        raise TranslateError("enum conversion_code not found")
    codes = {}
    body = m.group(1)
    for mm in re.finditer(r"(\w+)\s*=\s*(MAKE_CODE\(([^,]+),\s*(\d+)\s*\)|0x[0-9A-Fa-f]+)\s*,", body + ","):
        name = mm.group(1)
        if mm.group(3) is None:
            codes[name] = int(mm.group(2), 0)
        else:
            g = eval_int(mm.group(3), genv)
            codes[name] = (g << shifts["GROUP_SHIFT"]) | (int(mm.group(4)) << shifts["INDEX_SHIFT"])
    if codes.get("INVAL") != 0:
        raise TranslateError("INVAL is not 0")
    # conversion_table
    m = re.search(r"conversion_table\s*\[VPT_NTYPES\]\s*\[VPT_NTYPES\]\s*=\s*\{(.*?)\};", src, flags=re.S)
    if not m:
        raise TranslateError("conversion_table not found")
    rows = re.findall(r"\{([^{}]*)\}", m.group(1))
    if len(rows) != 11:
        raise TranslateError("conversion_table has %d rows" % len(rows))
    table = []
    for r in rows:
        names = [x.strip() for x in r.split(",") if x.strip()]
        if len(names) != 11:
            raise TranslateError("conversion_table row with %d entries" % len(names))
        for n in names:
            if n not in codes:
                raise TranslateError("conversion_table names unknown code %s" % n)
        table.append(names)
    # group tables
    groups = {}
    for m in re.finditer(r"static\s+void\s*\(\*\s*(group_\w+)\s*\[\]\s*\)\s*\(.*?\)\s*=\s*\{(.*?)\};", src, flags=re.S):
        ent = {}
        for mm in re.finditer(r"\[GET_INDEX\((\w+)\)\]\s*=\s*(\w+)", m.group(2)):
            if mm.group(1) not in codes:
                raise TranslateError("%s indexes by unknown code %s" % (m.group(1), mm.group(1)))
            idx = (codes[mm.group(1)] & shifts["INDEX_MASK"]) >> shifts["INDEX_SHIFT"]
            if idx in ent:
                raise TranslateError("%s: index %d initialised twice" % (m.group(1), idx))
            ent[idx] = (mm.group(2), mm.group(1))
        groups[m.group(1)] = ent
    if len(groups) != 6:
        raise TranslateError("expected six group tables, found %d" % len(groups))
    # dispatch: group value -> group table
    dispatch = {}
    body = src[src.index("switch (group) {"):]
    for mm in re.finditer(r"case\s+([\w\s|]+?):\s*\{.*?fn\s*=\s*(group_\w+)\[index\];", body, flags=re.S):
        dispatch[eval_int(mm.group(1), genv)] = mm.group(2)
    if len(dispatch) != 6 or set(dispatch.values()) != set(groups):
        raise TranslateError("dispatch switch does not cover the six group tables")
    # the code of a group-table entry must belong to the group that dispatches to this table
    for gval, gname in dispatch.items():
        for idx, (fn, cname) in groups[gname].items():
            if (codes[cname] & shifts["GROUP_MASK"]) >> shifts["GROUP_SHIFT"] != gval:
                raise TranslateError("%s: entry %s belongs to another group" % (gname, cname))
    # prototypes
    hdr = strip_comments(open(os.path.join(repo, "src", "vnaconv.h")).read())
    protos = {}
    for m in re.finditer(r"extern\s+void\s+(vnaconv_\w+)\s*\(([^;]*?)\)\s*;", hdr, flags=re.S):
        a = " ".join(m.group(2).split())
        nargs = len([x for x in a.split(",") if x.strip()])
        has_z0 = bool(re.search(r"\bz0\b", a))
        has_n = bool(re.search(r"\bint\s+n\b", a))
        vec = not re.search(r"\(\*\s*\w+\s*\)\s*\[2\]\s*,\s*double complex\s*\(\*", a) and not has_n
        if has_n:
            vec = m.group(1).endswith("zin")
        protos[m.group(1)] = (has_z0, has_n, vec, nargs)
    return {"genv": genv, "shifts": shifts, "codes": codes, "table": table, "groups": groups,
            "dispatch": dispatch, "protos": protos}


def decode(info, frm, to):
    """-> None or (dim, z0, kind, fname)"""
    g = info["genv"]
    code = info["codes"][info["table"][frm][to]]
    if code == 0:
        return None
    group = (code & info["shifts"]["GROUP_MASK"]) >> info["shifts"]["GROUP_SHIFT"]
    index = (code & info["shifts"]["INDEX_MASK"]) >> info["shifts"]["INDEX_SHIFT"]
    dim = {g["DIM_ANY"]: "DAny", g["DIM_VEC"]: "DVec", g["DIM_2x2"]: "D2x2", g["DIM_NxN"]: "DNxN"}[group & g["DIM_MASK"]]
    z0 = (group & g["Z0_MASK"]) == g["Z0_YES"]
    conv = group & g["CONV_MASK"]
    if conv == g["CONV_NONE"]:
        return (dim, z0, "KSame", "")
    kind = "KXtoY" if conv == g["CONV_xtoy"] else "KXtoI" if conv == g["CONV_xtoI"] else None
    if kind is None or group not in info["dispatch"]:
        raise TranslateError("code %s has a group without dispatch" % info["table"][frm][to])
    ent = info["groups"][info["dispatch"][group]]
    if index not in ent:
        raise TranslateError("code %s: no function at index %d of %s" % (info["table"][frm][to], index, info["dispatch"][group]))
    return (dim, z0, kind, ent[index][0])


def emit(info):
    out = ["(* GENERATED by translate/convtable.py from src/vnadata_convert.c and src/vnaconv.h - do not edit *)",
           "Require Import List String Bool.", "Require Import LV.Data.DataModel LV.Data.ConvertModel.",
           "Import ListNotations.", "Local Open Scope string_scope.", "",
           "(* decoded conversion_table[from][to]: None = INVAL, else (dimension class, needs z0, kind,",
           "   name of the function found in the group table the dispatch switch uses for this code) *)",
           "Definition gen_table : list (list (option (dimclass * bool * ckind * string))) := ["]
    rows = []
    used = []
    for f in range(11):
        ents = []
        for t in range(11):
            d = decode(info, f, t)
            if d is None:
                ents.append("None")
            else:
                ents.append('Some (%s, %s, %s, "%s")' % (d[0], "true" if d[1] else "false", d[2], d[3]))
                if d[3]:
                    used.append(d[3])
        rows.append("  [" + ";\n   ".join(ents) + "]")
    out.append(";\n".join(rows) + "].")
    out += ["", "(* prototype shape in vnaconv.h of every function the table can select:",
            "   (name, (has a z0 argument, has an `int n` argument, output is a vector)) *)",
            "Definition gen_protos : list (string * (bool * bool * bool)) := ["]
    ps = []
    for fn in sorted(set(used)):
        if fn not in info["protos"]:
            raise TranslateError("vnaconv.h has no prototype for %s" % fn)
        z, n, v, _ = info["protos"][fn]
        ps.append('  ("%s", (%s, %s, %s))' % (fn, str(z).lower(), str(n).lower(), str(v).lower()))
    out.append(";\n".join(ps) + "].")
    out.append("")
    return "\n".join(out)


def generate(ctx, repo=None):
    import vplib
    info = parse(repo or ctx.repo)
    ctx.write_if_changed(os.path.join(vplib.COQDIR, "Gen", "ConvTableGen.v"), emit(info))
    return info
