"""T4 (calibration-file part): regenerate coq/Gen/SaveBufGen.v from the C text.

Sources and accepted idioms (anything else raises TranslateError):
  vnacal.h                  #define VNACAL_MAX_PRECISION <int>
  vnacal_internal.h         #define VNACAL_DEFAULT_FREQUENCY_PRECISION <int>, ..._DATA_PRECISION <int>
  vnacal_create.c           vcp->vc_fprecision = <macro>;  vcp->vc_dprecision = <macro>;
  vnacal_set_[fd]precision.c   if (precision < L)   or   if (precision < L || precision > U) ... return -1;
                               followed by  vcp->vc_Xprecision = precision;
  vnacal_save.c             static int add_integer / add_double / add_complex:
                               char buf[<sum of: int | int * sizeof(T) | [int *] MAX(precision, 1)>];
                               [if (precision == VNACAL_MAX_PRECISION) {] (void)s[n]printf(buf, [sizeof(buf),] "<fmt>", ...);
                               [} else { (void)s[n]printf(buf, ..."<fmt>", ...); }]
                            formats made of  %d  %a  %+a  %.*e  %+.*e  and literal characters
                            call sites: add_double(..., vcp->vc_fprecision), add_complex(..., vcp->vc_dprecision)
"""
import os
import re


class TranslateError(Exception):
    pass


SIZEOF = {"int": 4, "double": 8, "double complex": 16}


def _read(src, f):
    p = os.path.join(src, f)
    try:
        return open(p).read()
    except IOError:
        raise TranslateError("%s: cannot read" % f)


def _nocomment(s):
    return re.sub(r"/\*.*?\*/", " ", s, flags=re.S)


def _define(text, name, f):
    m = re.search(r"^#define\s+%s\s+(-?\d+)\s*$" % name, text, flags=re.M)
    if not m:
        raise TranslateError("%s: #define %s <integer> not found" % (f, name))
    return int(m.group(1))


def _func_body(text, name, f):
    m = re.search(r"\n(?:static\s+)?int\s+%s\s*\(([^)]*)\)\s*\{" % name, text)
    if not m:
        raise TranslateError("%s: function %s not found" % (f, name))
    i = m.end()
    depth = 1
    while depth and i < len(text):
        if text[i] == "{":
            depth += 1
        elif text[i] == "}":
            depth -= 1
        i += 1
    return m.group(1), text[m.end():i - 1]


def parse_decl(expr, where):
    """'3 * sizeof(double) + 10' / 'MAX(precision, 1) + 3 * sizeof(double) + 10' -> (coef, const)."""
    coef = const = 0
    for term in expr.split("+"):
        t = re.sub(r"\s+", " ", term.strip())
        m = re.match(r"^(\d+)$", t)
        if m:
            const += int(t)
            continue
        m = re.match(r"^(?:(\d+) \* )?sizeof ?\(([a-z ]+)\)$", t)
        if m and m.group(2).strip() in SIZEOF:
            const += int(m.group(1) or 1) * SIZEOF[m.group(2).strip()]
            continue
        m = re.match(r"^(?:(\d+) \* )?MAX\(precision, 1\)$", t)
        if m:
            coef += int(m.group(1) or 1)
            continue
        raise TranslateError("%s: buffer declarator term %r not understood" % (where, t))
    return coef, const


def parse_format(fmt, where):
    items = []
    i = 0
    while i < len(fmt):
        if fmt[i] != "%":
            if fmt[i] == "\\":
                raise TranslateError("%s: escape in format %r" % (where, fmt))
            items.append("FLit")
            i += 1
            continue
        m = re.match(r"%(\+?)(\.\*e|a|d)", fmt[i:])
        if not m:
            raise TranslateError("%s: conversion at %r not understood" % (where, fmt[i:]))
        plus = "true" if m.group(1) else "false"
        if m.group(2) == "d":
            if m.group(1):
                raise TranslateError("%s: %%+d" % where)
            items.append("FD")
        elif m.group(2) == "a":
            items.append("(FA %s)" % plus)
        else:
            items.append("(FE %s)" % plus)
        i += m.end()
    return items


def parse_adder(text, name, f):
    params, body = _func_body(text, name, f)
    where = "%s:%s" % (f, name)
    m = re.findall(r"char\s+buf\s*\[([^\]]+)\]\s*;", body)
    if len(m) != 1:
        raise TranslateError("%s: expected exactly one 'char buf[...]'" % where)
    coef, const = parse_decl(m[0], where)
    calls = re.findall(r"\(void\)\s*(sprintf|snprintf)\s*\(\s*buf\s*,\s*(sizeof\s*\(buf\)\s*,\s*)?\"([^\"]*)\"\s*,([^;]*)\)\s*;", body)
    if not calls or len(calls) > 2:
        raise TranslateError("%s: expected one or two (void)s[n]printf(buf, ...) calls, found %d" % (where, len(calls)))
    for fn, sz, fmt, args in calls:
        if (fn == "snprintf") != bool(sz):
            raise TranslateError("%s: %s without/with sizeof(buf)" % (where, fn))
    if len(re.findall(r"printf", body)) != len(calls):
        raise TranslateError("%s: a printf-family call outside the accepted idiom" % where)
    bounded = all(fn == "snprintf" for fn, _, _, _ in calls)
    has_max = False
    fmt_max = None
    fmt_dec = None
    if len(calls) == 2:
        m = re.search(r"if\s*\(\s*precision\s*==\s*VNACAL_MAX_PRECISION\s*\)\s*\{\s*\(void\)\s*s", body)
        m2 = re.search(r"\}\s*else\s*\{\s*\(void\)\s*s", body)
        if not m or not m2 or m.start() > m2.start():
            raise TranslateError("%s: two printf calls but no 'if (precision == VNACAL_MAX_PRECISION) {..} else {..}'" % where)
        has_max = True
        fmt_max = parse_format(calls[0][2], where)
        fmt_dec = parse_format(calls[1][2], where)
        if "precision - 1" not in calls[1][3]:
            raise TranslateError("%s: decimal branch does not pass 'precision - 1'" % where)
    else:
        if re.search(r"VNACAL_MAX_PRECISION", body):
            raise TranslateError("%s: VNACAL_MAX_PRECISION used outside the accepted idiom" % where)
        fmt_dec = parse_format(calls[0][2], where)
        if name != "add_integer" and "precision - 1" not in calls[0][3]:
            raise TranslateError("%s: does not pass 'precision - 1'" % where)
    if "strlen(buf)" not in body:
        raise TranslateError("%s: the scalar is not added with strlen(buf)" % where)
    return {"coef": coef, "const": const, "bounded": bounded, "fmt_max": fmt_max, "fmt_dec": fmt_dec, "has_max": has_max}


def parse_setter(src, which):
    f = "vnacal_set_%sprecision.c" % which
    text = _nocomment(_read(src, f))
    params, body = _func_body(text, "vnacal_set_%sprecision" % which, f)
    m = re.search(r"if\s*\(\s*precision\s*<\s*(\d+)\s*(?:\|\|\s*precision\s*>\s*(\w+)\s*)?\)\s*\{(.*?)\}", body, flags=re.S)
    if not m or "return -1" not in m.group(3):
        raise TranslateError("%s: range test 'if (precision < L [|| precision > U]) {... return -1;}' not found" % f)
    if not re.search(r"vcp->vc_%sprecision\s*=\s*precision\s*;" % which, body):
        raise TranslateError("%s: assignment vcp->vc_%sprecision = precision not found" % (f, which))
    if len(re.findall(r"\bif\b", body)) != 1:
        raise TranslateError("%s: more than one test in the setter" % f)
    return int(m.group(1)), m.group(2)


def translate(src):
    maxp = _define(_read(src, "vnacal.h"), "VNACAL_MAX_PRECISION", "vnacal.h")
    ih = _read(src, "vnacal_internal.h")
    macros = {"VNACAL_DEFAULT_FREQUENCY_PRECISION": _define(ih, "VNACAL_DEFAULT_FREQUENCY_PRECISION", "vnacal_internal.h"),
              "VNACAL_DEFAULT_DATA_PRECISION": _define(ih, "VNACAL_DEFAULT_DATA_PRECISION", "vnacal_internal.h"),
              "VNACAL_MAX_PRECISION": maxp}
    cr = _nocomment(_read(src, "vnacal_create.c"))
    dflt = {}
    for w in "fd":
        m = re.findall(r"vcp->vc_%sprecision\s*=\s*(\w+)\s*;" % w, cr)
        if len(m) != 1 or m[0] not in macros:
            raise TranslateError("vnacal_create.c: default of vc_%sprecision not found" % w)
        dflt[w] = macros[m[0]]
    setters = {}
    for w in "fd":
        lo, hi = parse_setter(src, w)
        if hi is not None:
            if hi not in macros:
                raise TranslateError("vnacal_set_%sprecision.c: upper bound %s unknown" % (w, hi))
            hi = macros[hi]
        setters[w] = (lo, hi)
    sv = _nocomment(_read(src, "vnacal_save.c"))
    adders = {n: parse_adder(sv, n, "vnacal_save.c") for n in ("add_integer", "add_double", "add_complex")}
    # call sites: which precision goes where
    dbl_calls = re.findall(r"add_double\s*\(([^;]*?)\)\s*\)?\s*==\s*-1", sv)
    if len(dbl_calls) != 1 or "vcp->vc_fprecision" not in dbl_calls[0]:
        raise TranslateError("vnacal_save.c: add_double is not called exactly once with vcp->vc_fprecision")
    cpx_calls = re.findall(r"add_complex\s*\(([^;]*?)\)\s*\)?\s*==\s*-1", sv)
    if len(cpx_calls) < 3 or any("vcp->vc_dprecision" not in c for c in cpx_calls):
        raise TranslateError("vnacal_save.c: add_complex call sites do not all pass vcp->vc_dprecision")
    return {"maxp": maxp, "defaults": dflt, "setters": setters, "adders": adders}


def emit(info):
    def opt(x):
        return "None" if x is None else "(Some %s)" % x

    def zlit(n):
        return "(%d)%%Z" % n

    def lst(items):
        return "[" + "; ".join(items) + "]"
    o = ["(* generated by translate/savebuf.py from vnacal_save.c, vnacal_set_[fd]precision.c, vnacal_create.c, vnacal.h -- do not edit *)",
         "Require Import ZArith List.", "Import ListNotations.", "Require Import LV.CalFile.NumText.", "Open Scope Z_scope.", ""]
    o.append("Definition max_precision : Z := %s." % zlit(info["maxp"]))
    o.append("Definition default_fprecision : Z := %s." % zlit(info["defaults"]["f"]))
    o.append("Definition default_dprecision : Z := %s." % zlit(info["defaults"]["d"]))
    for w in "fd":
        lo, hi = info["setters"][w]
        o.append("Definition %ssetter : setter := {| s_lo := %s; s_hi := %s |}." % (w, zlit(lo), opt(None if hi is None else zlit(hi))))
    for n, a in sorted(info["adders"].items()):
        o.append("Definition %s : adder := {| a_coef := %s; a_const := %s; a_bounded := %s; a_dec := %s; a_max := %s |}."
                 % (n, zlit(a["coef"]), zlit(a["const"]), "true" if a["bounded"] else "false", lst(a["fmt_dec"]),
                    opt(None if a["fmt_max"] is None else lst(a["fmt_max"]))))
    o.append("Definition save_cfg : savecfg := {| c_maxp := max_precision; c_fset := fsetter; c_dset := dsetter;")
    o.append("  c_int := add_integer; c_dbl := add_double; c_cpx := add_complex |}.")
    return "\n".join(o) + "\n"


def generate(ctx):
    """Used by bin/gen_all-style callers: write coq/Gen/SaveBufGen.v."""
    import vplib
    info = translate(os.path.join(vplib.REPO, "src"))
    ctx.write_if_changed(os.path.join(vplib.COQDIR, "Gen", "SaveBufGen.v"), emit(info))
    return info


if __name__ == "__main__":
    import sys
    print(emit(translate(sys.argv[1] if len(sys.argv) > 1 else "/repo/src")))
