"""C11: order of argument checks and state writes of the modelled API functions, read from the C text.

For every function of ORDER_FUNCS the body is split into its top-level statements and each
statement is classified:

  H   handle test      if (OBJ == NULL [|| OBJ->.._magic != M]) { errno = EINVAL; return FAIL; }
                       if (ALIAS->.._magic != M) { errno = EINVAL; return FAIL; }
  C   refusing check   a statement that can leave with a failure value (return -1 / NULL / HUGE_VAL, or a
                       goto to the function's failure label) and contains no write to the object
  A   allocation exit  like C, but the only way to fail is a failed allocation (malloc / calloc / ... or a
                       callee of SYSTEM_FAIL) reported with VNAERR_SYSTEM: not an argument refusal (C12)
  S   early success    an if statement whose body ends in "return <not a failure value>" (it may write: control
                       does not come back) or any other statement that can only leave with success
  W   write            a statement that writes to the object (assignment / ++ / -- through the object pointer
                       or an alias of it, memcpy / memset / free with object memory as destination, call of a
                       MUTATOR with the object or object memory as argument) and cannot fail
  F   failing write    a statement that writes and can leave with a failure value ("fails later in its work")
  X   unclassified     a call with the object as argument of a function that is in neither table: counted as
                       a write (and listed in info["order_notes"])
  T   tail call        return f(...) of another function of ORDER_FUNCS: replaced by f's events

Statements that do none of this (declarations, computations on locals, the final return) are dropped.
Only the ORDER of these events is taken from the C text; which test a C event makes and what a W event
writes is the hand-written model's business (coq/Err/*.v), and the two are matched by position
(theorems *_order_fits of Properties_C11.v).  A C change that moves a write in front of a check changes
the generated order; theorem *_orders_checks_first then no longer holds.

handle test summary per function: (null_tested, magic_tested) where null_tested means the NULL test is
the first event and precedes every dereference of the pointer.
"""
import os
import re


class OrderError(Exception):
    pass


FAIL_VALUES = ("-1", "NULL", "HUGE_VAL")

# callees that read the object only (or report an error)
PURE = set("""
_vnadata_error _vnadata_bounds_error _vnacal_error validate_type MAX MIN VDP_TO_VDIP VL_TYPE VL_S_ROWS VL_S_COLUMNS
VL_M_ROWS VL_M_COLUMNS VL_IS_UE14 VL_ERROR_TERMS VL_HAS_COLUMN_SYSTEMS _vnacal_get_calibration _vnacal_get_parameter
_vnacal_new_check_parameter _vnacal_new_check_all_frequency_ranges _vnacal_new_err_need_full_s strcmp isnan assert
sizeof strerror vnacal_type_to_name cabs isnormal _vnacommon_mrdivide _vnacal_new_solve_is_trl
_vnacal_calibration_alloc _vnacal_layout vnadata_get_type_name get_fz0_vector _vl_unity_offset convert_ue14_to_e12 _vnacommon_spline_eval _vnacommon_spline_calc malloc calloc parse parser_free
""".split())
# callees that write to the object (or to memory reached from it)
MUTATOR = set("""
_vnadata_extend_p _vnadata_extend_m _vnadata_extend_f _vnadata_convert_to_z0 _vnadata_convert_to_fz0
vnadata_resize vnadata_set_all_z0 _vnacal_alloc_parameter _vnacal_hold_parameter _vnacal_release_parameter
_vnacal_calibration_free _vnacal_new_get_parameter _vnacal_rfi insque remque descend vnaproperty_free vs_init free realloc
memcpy memset memmove
""".split())
# callees whose only failure is a failed allocation (reported as VNAERR_SYSTEM)
SYSTEM_FAIL = set("build_connectivity_matrix add_equation malloc calloc realloc strdup _vnacommon_spline_calc scalar_alloc".split())
ALLOC_RE = re.compile(r"\b(malloc|calloc|realloc|strdup)\s*\(")

# (key, source file, C function, object parameters, failure labels)
ORDER_FUNCS = [
    ("vnadata_init", "vnadata_alloc.c", "vnadata_init", ["vdp"], []),
    ("vnadata_resize", "vnadata_alloc.c", "vnadata_resize", ["vdp"], []),
    ("vnadata_set_type", "vnadata_alloc.c", "vnadata_set_type", ["vdp"], []),
    ("vnadata_get_frequency", "vnadata.h", "vnadata_get_frequency", ["vdp"], []),
    ("vnadata_set_frequency", "vnadata.h", "vnadata_set_frequency", ["vdp"], []),
    ("vnadata_get_fmin", "vnadata.h", "vnadata_get_fmin", ["vdp"], []),
    ("vnadata_get_fmax", "vnadata.h", "vnadata_get_fmax", ["vdp"], []),
    ("vnadata_get_cell", "vnadata.h", "vnadata_get_cell", ["vdp"], []),
    ("vnadata_set_cell", "vnadata.h", "vnadata_set_cell", ["vdp"], []),
    ("vnadata_get_matrix", "vnadata.h", "vnadata_get_matrix", ["vdp"], []),
    ("vnadata_set_matrix", "vnadata.h", "vnadata_set_matrix", ["vdp"], []),
    ("vnadata_get_to_vector", "vnadata.h", "vnadata_get_to_vector", ["vdp"], []),
    ("vnadata_set_from_vector", "vnadata.h", "vnadata_set_from_vector", ["vdp"], []),
    ("vnadata_get_z0", "vnadata_get_z0.c", "vnadata_get_z0", ["vdp"], []),
    ("vnadata_set_z0", "vnadata_set_z0.c", "vnadata_set_z0", ["vdp"], []),
    ("vnadata_get_z0_vector", "vnadata_get_z0_vector.c", "vnadata_get_z0_vector", ["vdp"], []),
    ("vnadata_set_z0_vector", "vnadata_set_z0_vector.c", "vnadata_set_z0_vector", ["vdp"], []),
    ("vnadata_set_all_z0", "vnadata_set_all_z0.c", "vnadata_set_all_z0", ["vdp"], []),
    ("vnadata_get_fz0", "vnadata_get_fz0.c", "vnadata_get_fz0", ["vdp"], []),
    ("vnadata_set_fz0", "vnadata_set_fz0.c", "vnadata_set_fz0", ["vdp"], []),
    ("vnadata_get_fz0_vector", "vnadata_get_fz0_vector.c", "vnadata_get_fz0_vector", ["vdp"], []),
    ("vnadata_set_fz0_vector", "vnadata_set_fz0_vector.c", "vnadata_set_fz0_vector", ["vdp"], []),
    ("vnadata_add_frequency", "vnadata_add_frequency.c", "vnadata_add_frequency", ["vdp"], []),
    ("vnadata_set_filetype", "vnadata_set_filetype.c", "vnadata_set_filetype", ["vdp"], []),
    ("vnadata_set_fprecision", "vnadata_set_fprecision.c", "vnadata_set_fprecision", ["vdp"], []),
    ("vnadata_set_dprecision", "vnadata_set_dprecision.c", "vnadata_set_dprecision", ["vdp"], []),
    ("vnadata_convert", "vnadata_convert.c", "vnadata_convert", ["vdp_in", "vdp_out"], []),
    # vnacal_new family
    ("vnacal_new_alloc", "vnacal_new.c", "vnacal_new_alloc", ["vcp"], []),
    ("vnacal_new_set_frequency_vector", "vnacal_new.c", "vnacal_new_set_frequency_vector", ["vnp"], []),
    ("vnacal_new_set_z0", "vnacal_new.c", "vnacal_new_set_z0", ["vnp"], []),
    ("vnacal_new_set_m_error", "vnacal_new_set_m_error.c", "vnacal_new_set_m_error", ["vnp"], []),
    ("vnacal_new_set_pvalue_limit", "vnacal_new_set_pvalue_limit.c", "vnacal_new_set_pvalue_limit", ["vnp"], []),
    ("vnacal_new_set_et_tolerance", "vnacal_new_set_et_tolerance.c", "vnacal_new_set_et_tolerance", ["vnp"], []),
    ("vnacal_new_set_p_tolerance", "vnacal_new_set_p_tolerance.c", "vnacal_new_set_p_tolerance", ["vnp"], []),
    ("vnacal_new_set_iteration_limit", "vnacal_new_set_iteration_limit.c", "vnacal_new_set_iteration_limit", ["vnp"], []),
    ("vnacal_new_add_common", "vnacal_new_add_common.c", "_vnacal_new_add_common", ["vnp"], ["out"]),
    ("vnacal_new_solve_internal", "vnacal_new_solve.c", "_vnacal_new_solve_internal", ["vnp"], ["out"]),
    ("vnacal_new_solve", "vnacal_new_solve.c", "vnacal_new_solve", ["vnp"], []),
    # parameter family
    ("vnacal_make_scalar_parameter", "vnacal_make_scalar_parameter.c", "vnacal_make_scalar_parameter", ["vcp"], []),
    ("vnacal_make_vector_parameter", "vnacal_make_vector_parameter.c", "vnacal_make_vector_parameter", ["vcp"], []),
    ("vnacal_make_unknown_parameter", "vnacal_make_unknown_parameter.c", "vnacal_make_unknown_parameter", ["vcp"], []),
    ("vnacal_make_correlated_parameter", "vnacal_make_correlated_parameter.c", "vnacal_make_correlated_parameter", ["vcp"],
     ["error"]),
    ("vnacal_delete_parameter", "vnacal_delete_parameter.c", "vnacal_delete_parameter", ["vcp"], []),
    ("vnacal_get_parameter_value", "vnacal_get_parameter_value.c", "vnacal_get_parameter_value", ["vcp"], []),
    # vnacal query family
    ("vnacal_get_calibration", "vnacal_get.c", "_vnacal_get_calibration", ["vcp"], []),
    ("vnacal_find_calibration", "vnacal_find_calibration.c", "vnacal_find_calibration", ["vcp"], []),
    ("vnacal_delete_calibration", "vnacal_delete_calibration.c", "vnacal_delete_calibration", ["vcp"], []),
    ("vnacal_property_root", "vnacal_property.c", "_get_property_root", ["vcp"], []),
    # vnaproperty
    ("vnaproperty_vset", "vnaproperty.c", "vnaproperty_vset", ["rootptr"], ["out"]),
    ("vnaproperty_vset_subtree", "vnaproperty.c", "vnaproperty_vset_subtree", ["rootptr"], []),
]
# the silent getters of vnacal_get.c: a const object, one look-up through _vnacal_get_calibration
ADD_WRAPPERS = ["vnacal_new_add_single_reflect", "vnacal_new_add_single_reflect_m", "vnacal_new_add_double_reflect",
                "vnacal_new_add_double_reflect_m", "vnacal_new_add_line", "vnacal_new_add_line_m", "vnacal_new_add_through",
                "vnacal_new_add_through_m", "vnacal_new_add_mapped_matrix", "vnacal_new_add_mapped_matrix_m"]
QUERY_GETTERS = ["vnacal_get_name", "vnacal_get_type", "vnacal_get_rows", "vnacal_get_columns", "vnacal_get_frequencies",
                 "vnacal_get_fmin", "vnacal_get_fmax", "vnacal_get_frequency_vector", "vnacal_get_z0"]


def strip(text):
    t = re.sub(r"/\*.*?\*/", " ", text, flags=re.S)
    t = re.sub(r"//[^\n]*", " ", t)
    t = re.sub(r'"(?:\\.|[^"\\])*"', '""', t)                 # string literals
    t = re.sub(r"'(?:\\.|[^'\\])'", "'c'", t)
    t = re.sub(r"(?m)^[ \t]*#[^\n]*(?:\\\n[^\n]*)*", " ", t)    # preprocessor lines
    return t


def match_close(t, i, op, cl):
    depth = 0
    for k in range(i, len(t)):
        if t[k] == op:
            depth += 1
        elif t[k] == cl:
            depth -= 1
            if depth == 0:
                return k
    raise OrderError("unbalanced %s%s" % (op, cl))


def function_body(t, name, path):
    for m in re.finditer(r"\b%s\s*\(" % re.escape(name), t):
        close = match_close(t, m.end() - 1, "(", ")")
        k = close + 1
        while k < len(t) and t[k].isspace():
            k += 1
        if k < len(t) and t[k] == "{":
            return t[m.end():close], t[k + 1:match_close(t, k, "{", "}")]
    raise OrderError("%s: definition of %s not found" % (path, name))


def skip_ws(t, i):
    while i < len(t) and t[i].isspace():
        i += 1
    return i


def one_statement(t, i):
    """-> (end index, statement dict).  Statement: {"kind", "text", "cond", "body": [...], "else": [...]}"""
    i = skip_ws(t, i)
    if i >= len(t):
        return i, None
    if t[i] == "{":
        e = match_close(t, i, "{", "}")
        return e + 1, {"kind": "block", "text": t[i:e + 1], "body": statements(t[i + 1:e])}
    m = re.match(r"(if|for|while|switch)\b\s*\(", t[i:])
    if m:
        kw = m.group(1)
        p = i + m.end() - 1
        pe = match_close(t, p, "(", ")")
        e, body = one_statement(t, pe + 1)
        st = {"kind": kw, "cond": t[p + 1:pe], "body": [body] if body else [], "else": []}
        if kw == "if":
            k = skip_ws(t, e)
            if re.match(r"else\b", t[k:]):
                e, els = one_statement(t, k + 4)
                st["else"] = [els] if els else []
        st["text"] = t[i:e]
        return e, st
    m = re.match(r"do\b", t[i:])
    if m:
        e, body = one_statement(t, i + 2)
        k = skip_ws(t, e)
        mm = re.match(r"while\s*\(", t[k:])
        if not mm:
            raise OrderError("do without while")
        pe = match_close(t, k + mm.end() - 1, "(", ")")
        k2 = t.index(";", pe)
        return k2 + 1, {"kind": "do", "cond": t[k + mm.end():pe], "body": [body] if body else [], "else": [], "text": t[i:k2 + 1]}
    m = re.match(r"(case\b[^:;{}]*|default\s*|[A-Za-z_]\w*\s*):(?!:)", t[i:])
    if m and not re.match(r"[A-Za-z_]\w*\s*:\s*[^;{}]*\?", t[i:]):
        return i + m.end(), {"kind": "label", "text": t[i:i + m.end()], "name": m.group(1).strip()}
    # simple statement: up to ';' at depth 0
    depth = 0
    k = i
    while k < len(t):
        ch = t[k]
        if ch in "([{":
            depth += 1
        elif ch in ")]}":
            depth -= 1
        elif ch == ";" and depth == 0:
            return k + 1, {"kind": "simple", "text": t[i:k + 1]}
        k += 1
    raise OrderError("statement without end: %r" % t[i:i + 60])


def statements(t):
    out = []
    i = 0
    while True:
        i, st = one_statement(t, i)
        if st is None:
            return out
        out.append(st)


def flat(st):
    """The statement and all nested statements."""
    yield st
    for s in st.get("body", []) + st.get("else", []):
        if s.get("kind") == "block":
            for x in s["body"]:
                for y in flat(x):
                    yield y
        else:
            for y in flat(s):
                yield y


def unwrap(stlist):
    """A body given as [block] -> its statements."""
    if len(stlist) == 1 and stlist[0].get("kind") == "block":
        return stlist[0]["body"]
    return stlist


def pointer_names(params, body):
    names = set(re.findall(r"\*\s*(?:const\s+)?([A-Za-z_]\w*)\s*(?==|;|,|\)|\[)", params + ";" + body))
    return names


class Analyser(object):
    def __init__(self, key, path, fn, objs, fail_labels, text, known):
        self.key, self.path, self.fn, self.objs, self.fail_labels, self.known = key, path, fn, list(objs), set(fail_labels), known
        self.params, self.body = function_body(text, fn, path)
        self.notes = []
        self.const_obj = all(re.search(r"\bconst\s+\w+\s*\*\s*%s\b" % re.escape(o), self.params) for o in objs)
        self.ptrs = pointer_names(self.params, self.body)
        self.aliases = set(objs)
        self.alloc_results = set(re.findall(r"(?<![\w\]\)\.>])([A-Za-z_]\w*)\s*=\s*(?:_vnacal_alloc_parameter|malloc|calloc|realloc)\s*\(",
                                            self.body))
        changed = True
        while changed:
            changed = False
            for m in re.finditer(r"(?<![\w\]\)\.>])([A-Za-z_]\w*)\s*=(?!=)\s*([^;]*?)(?=;|\)\s*(?:==|!=))", self.body):
                x, rhs = m.group(1), m.group(2)
                if x in self.aliases or x not in self.ptrs:
                    continue
                if self.mentions_alias(rhs) and not ALLOC_RE.search(rhs):
                    self.aliases.add(x)
                    changed = True

    def mentions_alias(self, s):
        return any(re.search(r"(?<![\w>\.])%s\b" % re.escape(a), s) for a in self.aliases)

    # ---- properties of a piece of text
    def fail_exit(self, s):
        if re.search(r"\breturn\s*\(?\s*(-\s*1|NULL|HUGE_VAL)\s*\)?\s*;", s):
            return True
        for lab in self.fail_labels:
            if re.search(r"\bgoto\s+%s\s*;" % re.escape(lab), s):
                return True
        return False

    def succ_exit(self, s):
        for m in re.finditer(r"\breturn\b\s*([^;]*);", s):
            if not re.match(r"^\(?\s*(-\s*1|NULL|HUGE_VAL)\s*\)?$", m.group(1).strip()):
                return True
        return False

    def lvalue_end(self, s, i):
        """s[i:] continues an lvalue after an identifier: (->id | .id | [..])* ; -> index after it"""
        while True:
            j = skip_ws(s, i)
            if s.startswith("->", j):
                m = re.match(r"->\s*[A-Za-z_]\w*", s[j:])
                if not m:
                    return j
                i = j + m.end()
            elif j < len(s) and s[j] == "." and re.match(r"\.\s*[A-Za-z_]\w*", s[j:]):
                i = j + re.match(r"\.\s*[A-Za-z_]\w*", s[j:]).end()
            elif j < len(s) and s[j] == "[":
                i = match_close(s, j, "[", "]") + 1
            else:
                return j

    def direct_writes(self, s):
        for a in self.aliases:
            for m in re.finditer(r"(?<![\w>\.])%s\b" % re.escape(a), s):
                j = skip_ws(s, m.end())
                through = s.startswith("->", j) or (j < len(s) and s[j] == "[")
                k = m.start() - 1
                while k >= 0 and s[k].isspace():
                    k -= 1
                deref = False
                if k >= 0 and s[k] == "*":
                    # "*x = .." is a store through x only when the star is a prefix operator: the token in front
                    # of it is not a name, a number or a closing bracket (declaration "T *x = .." / product "a * x")
                    kk = k - 1
                    while kk >= 0 and (s[kk].isspace() or s[kk] == "*"):
                        kk -= 1
                    deref = kk < 0 or not (s[kk].isalnum() or s[kk] in "_)]")
                if not through and not deref:
                    continue
                e = self.lvalue_end(s, m.end())
                if re.match(r"(=(?!=)|\+=|-=|\*=|/=|\|=|&=|\^=|<<=|>>=|\+\+|--)", s[e:]):
                    return True
                # prefix ++ / --
                kk = m.start() - 1
                while kk >= 0 and (s[kk].isspace() or s[kk] == "*"):
                    kk -= 1
                if kk >= 1 and s[kk - 1:kk + 1] in ("++", "--"):
                    return True
        return False

    def calls(self, s):
        """-> list of (callee, args text) for every call in s (nested ones too)."""
        out = []
        for m in re.finditer(r"\b([A-Za-z_]\w*)\s*\(", s):
            name = m.group(1)
            if name in ("if", "for", "while", "switch", "return", "sizeof", "void", "double", "int", "char", "complex"):
                continue
            try:
                close = match_close(s, m.end() - 1, "(", ")")
            except OrderError:
                continue
            out.append((name, s[m.end():close]))
        return out

    def first_arg(self, args):
        depth = 0
        for k, ch in enumerate(args):
            if ch in "([":
                depth += 1
            elif ch in ")]":
                depth -= 1
            elif ch == "," and depth == 0:
                return args[:k]
        return args

    def call_effects(self, s):
        """-> (writes, unknown callees, system-failure-only callees present)"""
        writes, unknown, sysfail = False, [], False
        for name, args in self.calls(s):
            if name in SYSTEM_FAIL:
                sysfail = True
            if name in ("memcpy", "memset", "memmove", "free", "realloc"):
                if self.mentions_alias(self.first_arg(args)):
                    writes = True
                continue
            if not self.mentions_alias(args):
                continue
            if name in MUTATOR or re.match(r"^vnadata_(set_|init$|resize$|add_|convert$)", name):
                writes = True
            elif name in PURE or name in self.known:
                pass
            elif re.match(r"^[A-Z_0-9]+$", name):
                pass                            # macro (VL_..., MAX, ...)
            else:
                unknown.append(name)
        return writes, unknown, sysfail

    def writes_leave(self, stlist):
        """Every write in the statement list is followed, in its own list, by a final 'return <success>'."""
        def writes_here(st):
            return self.direct_writes(st["text"]) or self.call_effects(st["text"])[0]
        ends = bool(stlist) and stlist[-1]["kind"] == "simple" and re.match(r"^\s*return\b", stlist[-1]["text"]) is not None \
            and not self.fail_exit(stlist[-1]["text"])
        for st in stlist:
            if not writes_here(st):
                continue
            if st["kind"] == "simple":
                if not ends:
                    return False
            elif st["kind"] == "if" and not st["else"]:
                if not self.writes_leave(unwrap(st["body"])) and not ends:
                    return False
            elif not ends:
                return False
        return True

    def is_handle_test(self, st):
        if st["kind"] != "if" or st["else"]:
            return None
        body = re.sub(r"\s+", " ", " ".join(x["text"] for x in unwrap(st["body"]))).strip()
        if not re.match(r"^errno = EINVAL; return \(?(-1|NULL|HUGE_VAL)\)?;$", body):
            return None
        c = re.sub(r"\s+", " ", st["cond"]).strip()
        m = re.match(r"^(\w+) == NULL( \|\| \1->\w*magic != \w+)?$", c)
        if m and m.group(1) in self.objs:
            return (True, bool(m.group(2)))
        m = re.match(r"^(\w+)->\w*magic != \w+$", c)
        if m and m.group(1) in self.aliases:
            return (False, True)
        return None

    def classify(self, st, last):
        """-> event letter or None (neutral)."""
        s = st["text"]
        if st["kind"] == "label":
            return None
        h = self.is_handle_test(st)
        if h is not None:
            return ("H", h)
        # tail call of another modelled function
        m = re.match(r"^\s*return\s+([A-Za-z_]\w*)\s*\(", s)
        if st["kind"] == "simple" and m and m.group(1) in self.known and m.group(1) != self.fn:
            return ("T", m.group(1))
        cw, unknown, sysfail = self.call_effects(s)
        writes = self.direct_writes(s) or cw
        fe, se = self.fail_exit(s), self.succ_exit(s)
        if unknown:
            self.notes.append("%s: call of %s with the object as argument is in neither table: counted as a write"
                              % (self.fn, ", ".join(sorted(set(unknown)))))
            return ("X", None)
        if writes and fe:
            return ("F", None)
        if writes:
            if st["kind"] == "if" and not st["else"] and self.writes_leave(unwrap(st["body"])):
                return ("S", None)
            return ("W", None)
        if fe:
            usage = re.search(r"VNAERR_(USAGE|MATH|SYNTAX|VERSION)", s) is not None
            if not usage and (ALLOC_RE.search(s) or sysfail):
                return ("A", None)
            if not usage and st["kind"] == "if" and not re.search(r"_error\s*\(", s):
                # "x = <allocating callee>(.., object, ..); if (x == NULL) return failure;": the callee has reported
                m2 = re.match(r"^\s*(\w+)\s*==\s*NULL\s*$", st["cond"])
                if m2 and m2.group(1) in self.alloc_results:
                    return ("A", None)
            return ("C", None)
        if se and not last:
            return ("S", None)
        return None

    def events(self):
        sts = statements(self.body)
        # the statements after a failure label belong to the failure path, not to the order of the body
        out = []
        for k, st in enumerate(sts):
            if st["kind"] == "label" and st.get("name") in self.fail_labels:
                sts = sts[:k]
                break
        idx = [k for k, st in enumerate(sts) if st["kind"] != "label"]
        last_idx = idx[-1] if idx else -1
        self.stmts = sts
        for k, st in enumerate(sts):
            ev = self.classify(st, k == last_idx)
            if ev is not None:
                out.append(ev)
        return out

    def null_tested(self, tested_of):
        """The NULL test of the object pointer precedes every dereference: walk the statements up to the
        first handle test; passing the pointer itself to a modelled function that tests it is not a dereference."""
        obj = self.objs[0]
        for st in self.stmts:
            h = self.is_handle_test(st)
            if h is not None and h[0]:
                return True
            t = st["text"]
            if re.search(r"(?<![\w>\.])%s\s*(->|\[)" % re.escape(obj), t) or re.search(r"\*\s*%s\b" % re.escape(obj), t) \
                    and st["kind"] != "simple":
                return False
            if re.search(r"(?<![\w>\.])%s\s*(->|\[)" % re.escape(obj), t):
                return False
            for name, args in self.calls(t):
                if re.search(r"(?<![\w>\.&])%s\b(?!\s*(->|\[))" % re.escape(obj), args):
                    if name in self.known and name != self.fn:
                        if not tested_of(self.known[name]):
                            return False
                    elif name in ("VDP_TO_VDIP",):
                        pass
                    else:
                        return False
        return True


def extract(srcdir):
    """-> {"orders": {key: [letters]}, "handles": {key: (null, magic)}, "notes": [...], "getters": {...}}"""
    texts = {}
    known = dict((fn, key) for key, _, fn, _, _ in ORDER_FUNCS)
    raw = {}
    notes = []
    for key, path, fn, objs, labels in ORDER_FUNCS:
        if path not in texts:
            with open(os.path.join(srcdir, path)) as f:
                texts[path] = strip(f.read())
        an = Analyser(key, path, fn, objs, labels, texts[path], known)
        raw[key] = (an, an.events())
        notes += an.notes
    orders, handles = {}, {}

    def expand(key, depth=0):
        if depth > 4:
            raise OrderError("tail-call chain too deep at %s" % key)
        out = []
        for ev, arg in raw[key][1]:
            if ev == "T":
                out += expand(known[arg], depth + 1)
            else:
                out.append((ev, arg))
        return out

    memo = {}

    def tested_of(key):
        if key not in memo:
            memo[key] = False           # cycles: not tested
            memo[key] = raw[key][0].null_tested(tested_of)
        return memo[key]

    for key, _, fn, objs, _ in ORDER_FUNCS:
        evs = expand(key)
        orders[key] = [e for e, _ in evs]
        # magic number: tested by a handle test that precedes every other event (of the function or of the
        # functions it hands the pointer to)
        magic_t = False
        for e, arg in evs:
            if e != "H":
                break
            if arg[1]:
                magic_t = True
        handles[key] = (tested_of(key), magic_t)
    # vnadata_init hands the pointer to vnadata_resize and vnadata_set_all_z0 only
    handles["vnadata_init"] = (handles["vnadata_init"][0], handles["vnadata_resize"][1] and handles["vnadata_set_all_z0"][1])
    # the silent getters: const object and nothing but the look-up
    getters = {}
    t = texts["vnacal_get.c"]
    for g in QUERY_GETTERS:
        params, body = function_body(t, g, "vnacal_get.c")
        const = re.search(r"\bconst\s+vnacal_t\s*\*\s*vcp\b", params) is not None
        lookup = re.search(r"\(\s*calp\s*=\s*_vnacal_get_calibration\s*\(\s*vcp\s*,\s*ci\s*\)\s*\)\s*==\s*NULL", body) is not None
        an = Analyser(g, "vnacal_get.c", g, ["vcp"], [], t, known)
        an.aliases.add("calp")
        wr = any(an.direct_writes(st["text"]) or an.call_effects(st["text"])[0] for st in statements(body))
        getters[g] = const and lookup and not wr
    # the ten public vnacal_new_add_* wrappers: handle test first, then nothing but filling the argument
    # structure and the tail call of _vnacal_new_add_common
    t = texts["vnacal_new_add_common.c"]
    wrappers = {}
    for w in ADD_WRAPPERS:
        an = Analyser(w, "vnacal_new_add_common.c", w, ["vnp"], [], t, known)
        evs = an.events()
        ok = (len(evs) == 2 and evs[0][0] == "H" and evs[0][1] == (True, True) and evs[1] == ("T", "_vnacal_new_add_common"))
        wrappers[w] = ok
    handles["vnacal_new_add_common"] = (all(wrappers.values()), all(wrappers.values()))
    return {"orders": orders, "handles": handles, "notes": notes, "getters": getters, "add_wrappers": wrappers}


COQ_EV = {"H": "EvH", "C": "EvC", "A": "EvA", "S": "EvS", "W": "EvW", "F": "EvF", "X": "EvX"}


def digest(info):
    """A number that identifies the generated orders and handle tests (the extracted driver prints the one it
    was extracted with, so that a stale executable is noticed)."""
    import zlib
    text = ";".join("%s=%s/%s" % (key, "".join(info["orders"][key]), "%d%d" % (int(info["handles"][key][0]), int(info["handles"][key][1])))
                    for key, _, _, _, _ in ORDER_FUNCS)
    text += ";getters=%d" % int(all(info["getters"].values()))
    return zlib.crc32(text.encode()) & 0x7fffffff


def emit(info):
    L = []
    L.append("")
    L.append("(* order of handle tests (EvH), refusing argument checks (EvC), allocation-failure exits (EvA), early")
    L.append("   successful exits (EvS), writes (EvW), writes that can fail (EvF) and unclassified calls (EvX) in the")
    L.append("   bodies of the modelled functions, in the order of the C text (translate/errno_orders.py) *)")
    for key, _, _, _, _ in ORDER_FUNCS:
        L.append("Definition gen_order_%s : list ev := [%s]." % (key, "; ".join(COQ_EV[e] for e in info["orders"][key])))
    L.append("")
    L.append("(* (the NULL test is the first event of the function, a magic-number test follows or is part of it) *)")
    for key, _, _, _, _ in ORDER_FUNCS:
        n, m = info["handles"][key]
        L.append("Definition gen_handle_%s : bool * bool := (%s, %s)." % (key, "true" if n else "false", "true" if m else "false"))
    L.append("")
    L.append("(* the getters of vnacal_get.c take a const vnacal_t *, look the calibration up through")
    L.append("   _vnacal_get_calibration and write nothing *)")
    L.append("Definition gen_query_getters_readonly : bool := %s." % ("true" if all(info["getters"].values()) else "false"))
    L.append("")
    L.append("(* identifies the orders and handle tests above (printed by the extracted driver) *)")
    L.append("Definition gen_orders_digest : Z := %d." % digest(info))
    L.append("")
    return "\n".join(L)


if __name__ == "__main__":
    import sys
    info = extract(sys.argv[1] if len(sys.argv) > 1 else "/repo/src")
    for key, _, _, _, _ in ORDER_FUNCS:
        print("%-36s %s  %s" % (key, "".join(info["orders"][key]), info["handles"][key]))
    print(info["getters"])
    print(info["add_wrappers"])
    for n in info["notes"]:
        print("NOTE", n)
