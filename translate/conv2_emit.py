"""Emit Gallina (coq/Gen/Conv2_*.v, Conv2All.v) from the output of conv2.translate_dir."""
import os
from conv2 import TYPES, gal, factors, TranslateError

PT = {"s": "PS", "t": "PT", "u": "PU", "z": "PZ", "y": "PY", "h": "PH", "g": "PG", "a": "PA", "b": "PB"}

HEADER = """(* GENERATED on every run by translate/conv2*.py from %s/src/vnaconv_*.c -- do not edit.
   Definitions are the C functions' arithmetic over an abstract complex-like field; the lemmas
   are re-proved against what the code says now. *)
Require Import List.
Import ListNotations.
Require Import LV.Base.CField LV.Conv.ConvRel LV.Conv.ConvTac.
Local Open Scope cf_scope.
Section G.
Variable K : CField.
Add Field Kf : (cth K).
"""


def subst_expr(e, cells):
    """Replace ('in',i,j) in e by cells[(i,j)]."""
    k = e[0]
    if k == "in":
        return cells[(e[1], e[2])]
    if k in ("num", "z0"):
        return e
    if k in ("neg", "cj", "re", "ksq"):
        return (k, subst_expr(e[1], cells))
    return (k, subst_expr(e[1], cells), subst_expr(e[2], cells))


def deflist(fs):
    return "[" + "; ".join(gal(f) for f in fs) + "]"


def emit_m2(name, exprs, suffix=""):
    return ("Definition %s%s (m : m2 K) (z1 z2 : K) : m2 K :=\n"
            "  let '(M2 m11 m12 m21 m22) := m in\n"
            "  M2 %s\n     %s\n     %s\n     %s.\n" % (name, suffix, gal(exprs[0]), gal(exprs[1]),
                                                    gal(exprs[2]), gal(exprs[3])))


def emit_v2(name, exprs, suffix=""):
    return ("Definition %s%s (m : m2 K) (z1 z2 : K) : K * K :=\n"
            "  let '(M2 m11 m12 m21 m22) := m in\n"
            "  (%s,\n   %s).\n" % (name, suffix, gal(exprs[0]), gal(exprs[1])))


def emit_v2_alias(name, inf):
    """the call with zi overlaying the first row of the input matrix (what the in-place
    vnadata_convert(vdp, vdp, VPT_ZIN) does) equals the call with separate arrays"""
    return (emit_v2(name, inf["alias"], "_alias") +
            "Lemma %s_alias_eq m z1 z2 : %s_alias m z1 z2 = %s m z1 z2.\n"
            "Proof. destruct m; reflexivity. Qed.\n" % (name, name, name))


def emit_group(x, infos, repo):
    out = [HEADER % repo]
    for y in TYPES:
        if y == x:
            continue
        n = "%sto%s" % (x, y)
        inf = infos[n]
        out.append("(* ---- vnaconv_%s ---- *)" % n)
        out.append(emit_m2(n, inf["sep"]))
        out.append(emit_m2(n, inf["alias"], "_alias"))
        out.append("Definition %s_factors (m : m2 K) (z1 z2 : K) : list K :=\n"
                   "  let '(M2 m11 m12 m21 m22) := m in\n  %s.\n" % (n, deflist(inf["factors"])))
        out.append("Definition %s_ok (m : m2 K) (z1 z2 : K) : Prop := all_nz (%s_factors m z1 z2).\n" % (n, n))
        out.append("Lemma %s_alias_eq m z1 z2 : %s_alias m z1 z2 = %s m z1 z2.\n"
                   "Proof. destruct m; reflexivity. Qed.\n" % (n, n, n))
        out.append("Lemma %s_fwd m z1 z2 : char_ok K -> z0_ok z1 -> z0_ok z2 -> %s_ok m z1 z2 ->\n"
                   "  forall p q, rel K z1 z2 %s (%s m z1 z2) (param K z1 z2 %s m p q).\n"
                   "Proof. intros H2 Hz1 Hz2 Hok p q. destruct m as [m11 m12 m21 m22].\n"
                   "  unfold %s_ok, %s_factors, %s in *. conv_finish H2 Hz1 Hz2 Hok. Qed.\n" % (n, n, PT[y], n, PT[x], n, n, n))
        out.append("Lemma %s_bwd m z1 z2 : char_ok K -> z0_ok z1 -> z0_ok z2 -> %s_ok m z1 z2 ->\n"
                   "  forall p q, rel K z1 z2 %s m (param K z1 z2 %s (%s m z1 z2) p q).\n"
                   "Proof. intros H2 Hz1 Hz2 Hok p q. destruct m as [m11 m12 m21 m22].\n"
                   "  unfold %s_ok, %s_factors, %s in *. conv_finish H2 Hz1 Hz2 Hok. Qed.\n" % (n, n, PT[x], PT[y], n, n, n, n))
    out.append("End G.\n")
    return "\n".join(out)


def emit_zi(infos, repo):
    out = [(HEADER % repo).replace("Section G.", "Require Import LV.Gen.Conv2_t LV.Gen.Conv2_u LV.Gen.Conv2_z "
                                   "LV.Gen.Conv2_y LV.Gen.Conv2_h LV.Gen.Conv2_g LV.Gen.Conv2_a LV.Gen.Conv2_b.\n"
                                   "Section G.")]
    st = infos["stozi"]
    out.append(emit_v2("stozi", st["sep"]))
    out.append(emit_v2_alias("stozi", st))
    out.append("Definition stozi_factors (m : m2 K) (z1 z2 : K) : list K :=\n"
               "  let '(M2 m11 m12 m21 m22) := m in\n  %s.\n" % deflist(st["factors"]))
    out.append("Definition stozi_ok (m : m2 K) (z1 z2 : K) : Prop := all_nz (stozi_factors m z1 z2).\n")
    # physical meaning: with the other port terminated in its reference impedance (a = 0 there)
    out.append("Lemma stozi_phys m z1 z2 : char_ok K -> z0_ok z1 -> z0_ok z2 -> stozi_ok m z1 z2 ->\n"
               "  (forall p, let s := param K z1 z2 PS m p 0 in v1 s = fst (stozi m z1 z2) * i1 s) /\\\n"
               "  (forall q, let s := param K z1 z2 PS m 0 q in v2 s = snd (stozi m z1 z2) * i2 s).\n"
               "Proof. intros H2 Hz1 Hz2 Hok. destruct m as [m11 m12 m21 m22].\n"
               "  unfold stozi_ok, stozi_factors, stozi in *. conv_prep H2 Hz1 Hz2 Hok; split; intros; field; side. Qed.\n")
    for x in TYPES:
        if x == "s":
            continue
        n = "%stozi" % x
        inf = infos[n]
        xs = infos["%stos" % x]
        fs = list(inf["factors"])
        for f in xs["factors"]:
            if f not in fs:
                fs.append(f)
        out.append("(* ---- vnaconv_%s ---- *)" % n)
        out.append(emit_v2(n, inf["sep"]))
        out.append(emit_v2_alias(n, inf))
        out.append("Definition %s_factors (m : m2 K) (z1 z2 : K) : list K :=\n"
                   "  let '(M2 m11 m12 m21 m22) := m in\n  %s.\n" % (n, deflist(fs)))
        out.append("Definition %s_ok (m : m2 K) (z1 z2 : K) : Prop := all_nz (%s_factors m z1 z2).\n" % (n, n))
        # the states of the X network are those of the S network xtos m (conv2_same_states);
        # among them the ones with the other port terminated are param PS (xtos m) p 0 / 0 q
        out.append("Lemma %s_phys m z1 z2 : char_ok K -> z0_ok z1 -> z0_ok z2 -> %s_ok m z1 z2 ->\n"
                   "  (forall p, let s := param K z1 z2 PS (%stos K m z1 z2) p 0 in v1 s = fst (%s m z1 z2) * i1 s) /\\\n"
                   "  (forall q, let s := param K z1 z2 PS (%stos K m z1 z2) 0 q in v2 s = snd (%s m z1 z2) * i2 s).\n"
                   "Proof. intros H2 Hz1 Hz2 Hok. destruct m as [m11 m12 m21 m22].\n"
                   "  unfold %s_ok, %s_factors, %s, %stos in *. conv_prep H2 Hz1 Hz2 Hok; split; intros; field; side. Qed.\n"
                   % (n, n, x, n, x, n, n, n, n, x))
    out.append("End G.\n")
    return "\n".join(out)


def emit_all(infos, repo):
    imports = " ".join("LV.Gen.Conv2_%s" % x for x in TYPES)
    out = ["(* GENERATED on every run -- dispatch over the 72 two-port conversions and the master theorems *)",
           "Require Import List.", "Import ListNotations.",
           "Require Import LV.Base.CField LV.Conv.ConvRel LV.Conv.ConvTac.",
           "Require Import %s LV.Gen.Conv2_zi." % imports,
           "Local Open Scope cf_scope.", "Section G.", "Variable K : CField.", ""]
    out.append("Definition conv2 (X Y : ptype) : option (m2 K -> K -> K -> m2 K) :=\n  match X, Y with")
    for x in TYPES:
        for y in TYPES:
            if x != y:
                out.append("  | %s, %s => Some (%sto%s K)" % (PT[x], PT[y], x, y))
    out.append("  | _, _ => None\n  end.\n")
    out.append("Definition conv2_alias (X Y : ptype) : option (m2 K -> K -> K -> m2 K) :=\n  match X, Y with")
    for x in TYPES:
        for y in TYPES:
            if x != y:
                out.append("  | %s, %s => Some (%sto%s_alias K)" % (PT[x], PT[y], x, y))
    out.append("  | _, _ => None\n  end.\n")
    out.append("Definition conv2_ok (X Y : ptype) (m : m2 K) (z1 z2 : K) : Prop :=\n  match X, Y with")
    for x in TYPES:
        for y in TYPES:
            if x != y:
                out.append("  | %s, %s => %sto%s_ok K m z1 z2" % (PT[x], PT[y], x, y))
    out.append("  | _, _ => True\n  end.\n")
    out.append("Lemma conv2_defined X Y : X <> Y -> exists f, conv2 X Y = Some f.\n"
               "Proof. destruct X, Y; intros H; try (exfalso; apply H; reflexivity); eexists; reflexivity. Qed.\n")
    out.append("Lemma conv2_alias_eq X Y f g m z1 z2 : conv2 X Y = Some f -> conv2_alias X Y = Some g ->\n"
               "  g m z1 z2 = f m z1 z2.\nProof.\n  destruct X, Y; cbn [conv2 conv2_alias]; intros E1 E2; try discriminate E1;\n"
               "  injection E1 as <-; injection E2 as <-.")
    for x in TYPES:
        for y in TYPES:
            if x != y:
                out.append("  - apply %sto%s_alias_eq." % (x, y))
    out.append("Qed.\n")
    out.append("Lemma conv2_same_states X Y f m z1 z2 : conv2 X Y = Some f ->\n"
               "  char_ok K -> z0_ok z1 -> z0_ok z2 -> conv2_ok X Y m z1 z2 ->\n"
               "  forall s, rel K z1 z2 X m s <-> rel K z1 z2 Y (f m z1 z2) s.\nProof.\n"
               "  destruct X, Y; intros E H2 Hz1 Hz2 Hok; cbn [conv2] in E; try discriminate E;\n"
               "  cbn [conv2_ok] in Hok; injection E as <-;\n"
               "  apply (same_states_from_params K z1 z2 H2 Hz1 Hz2).")
    for x in TYPES:
        for y in TYPES:
            if x != y:
                out.append("  - apply %sto%s_fwd; assumption.\n  - apply %sto%s_bwd; assumption." % (x, y, x, y))
    out.append("Qed.\n")
    # input-impedance functions
    out.append("Definition conv2zi (X : ptype) : m2 K -> K -> K -> K * K :=\n  match X with")
    for x in TYPES:
        out.append("  | %s => %stozi K" % (PT[x], x))
    out.append("  end.\n")
    out.append("Definition conv2zi_alias (X : ptype) : m2 K -> K -> K -> K * K :=\n  match X with")
    for x in TYPES:
        out.append("  | %s => %stozi_alias K" % (PT[x], x))
    out.append("  end.\n")
    out.append("Lemma conv2zi_alias_eq X m z1 z2 : conv2zi_alias X m z1 z2 = conv2zi X m z1 z2.\n"
               "Proof.\n  destruct X; cbn [conv2zi conv2zi_alias].")
    for x in TYPES:
        out.append("  - apply %stozi_alias_eq." % x)
    out.append("Qed.\n")
    out.append("Definition conv2zi_ok (X : ptype) (m : m2 K) (z1 z2 : K) : Prop :=\n  match X with")
    for x in TYPES:
        if x == "s":
            out.append("  | PS => stozi_ok K m z1 z2")
        else:
            out.append("  | %s => %stozi_ok K m z1 z2 /\\ %stos_ok K m z1 z2" % (PT[x], x, x))
    out.append("  end.\n")
    out.append("Definition conv2_to_s (X : ptype) (m : m2 K) (z1 z2 : K) : m2 K :=\n  match X with")
    for x in TYPES:
        out.append("  | %s => %s" % (PT[x], "m" if x == "s" else "%stos K m z1 z2" % x))
    out.append("  end.\n")
    out.append("Lemma conv2zi_param X m z1 z2 : char_ok K -> z0_ok z1 -> z0_ok z2 -> conv2zi_ok X m z1 z2 ->\n"
               "  (forall p, let s := param K z1 z2 PS (conv2_to_s X m z1 z2) p 0 in v1 s = fst (conv2zi X m z1 z2) * i1 s) /\\\n"
               "  (forall q, let s := param K z1 z2 PS (conv2_to_s X m z1 z2) 0 q in v2 s = snd (conv2zi X m z1 z2) * i2 s).\n"
               "Proof.\n  destruct X; cbn [conv2zi conv2zi_ok conv2_to_s]; intros H2 Hz1 Hz2 Hok.")
    for x in TYPES:
        if x == "s":
            out.append("  - apply stozi_phys; assumption.")
        else:
            out.append("  - apply %stozi_phys; try assumption; apply Hok." % x)
    out.append("Qed.\n")
    out.append("Lemma conv2_to_s_states X m z1 z2 : char_ok K -> z0_ok z1 -> z0_ok z2 -> conv2zi_ok X m z1 z2 ->\n"
               "  forall s, rel K z1 z2 X m s <-> rel K z1 z2 PS (conv2_to_s X m z1 z2) s.\n"
               "Proof.\n  destruct X; cbn [conv2zi_ok conv2_to_s]; intros H2 Hz1 Hz2 Hok s.")
    for x in TYPES:
        if x == "s":
            out.append("  - reflexivity.")
        else:
            out.append("  - apply (conv2_same_states %s PS (%stos K)); try assumption; try reflexivity; apply Hok." % (PT[x], x))
    out.append("Qed.\n")
    out.append("End G.\n")
    return "\n".join(out)


def write_all(infos, repo, gendir, write):
    """write(path, content) -> changed?"""
    for x in TYPES:
        write(os.path.join(gendir, "Conv2_%s.v" % x), emit_group(x, infos, repo))
    write(os.path.join(gendir, "Conv2_zi.v"), emit_zi(infos, repo))
    write(os.path.join(gendir, "Conv2All.v"), emit_all(infos, repo))
