"""T5: vnacal_layout.c / vnacal_layout.h  ->  coq/Gen/LayoutGen.v

Accepted idiom (anything else raises TranslateError):
  * vnacal.h:        typedef enum vnacal_type { NAME [= int], ... } vnacal_type_t;
  * vnacal_layout.h: typedef struct vnacal_layout { vnacal_type_t vl_type; int field; ... }
                     object-like aliases   #define vl_ui_offset vl_ti_offset
                     function-like macros  #define VL_X(vlp[, arg]) <expr>   and  VNACAL_X(type) <expr>
                     static inline int _vl_unity_offset(...) { switch (vlp->vl_type) { case ..: return e; .. } return -1; }
  * vnacal_layout.c: _vnacal_layout: leading `const int x = e;`, a memset, assignments of the universal
                     members, then `switch (type)` whose arms are blocks of `const int x = e;` and
                     `vlp->field = e;` ending in `break;`; `default: abort();`
  expressions: integer literals, identifiers, + - *, MIN/MAX, parentheses, (vlp)->field, macro calls,
               ==, ||, && and ?: .
Integers are Z in the output; C `int` overflow is not modelled (dims are small).
"""
import os
import re


class TranslateError(Exception):
    pass


# ----------------------------------------------------------------------------- lexer / parser
TOKEN = re.compile(r"\s*(?:(\d+)|([A-Za-z_][A-Za-z_0-9]*)|(->|==|\|\||&&|[-+*()?:,<>=!]))")


def lex(text):
    out = []
    pos = 0
    text = text.strip()
    while pos < len(text):
        m = TOKEN.match(text, pos)
        if not m:
            raise TranslateError("cannot tokenise %r" % text[pos:pos + 30])
        pos = m.end()
        if m.group(1):
            out.append(("int", m.group(1)))
        elif m.group(2):
            out.append(("id", m.group(2)))
        else:
            out.append(("op", m.group(3)))
    return out


class P(object):
    """recursive descent; produces a small AST"""
    def __init__(self, toks, where):
        self.t = toks
        self.i = 0
        self.where = where

    def peek(self):
        return self.t[self.i] if self.i < len(self.t) else (None, None)

    def eat(self, kind=None, val=None):
        k, v = self.peek()
        if k is None or (kind and k != kind) or (val and v != val):
            raise TranslateError("%s: expected %s %s, got %s %s" % (self.where, kind, val, k, v))
        self.i += 1
        return v

    def done(self):
        return self.i >= len(self.t)

    def expr(self):
        c = self.lor()
        if self.peek() == ("op", "?"):
            self.eat()
            a = self.expr()
            self.eat("op", ":")
            b = self.expr()
            return ("if", c, a, b)
        return c

    def lor(self):
        a = self.land()
        while self.peek() == ("op", "||"):
            self.eat()
            a = ("or", a, self.land())
        return a

    def land(self):
        a = self.cmp()
        while self.peek() == ("op", "&&"):
            self.eat()
            a = ("and", a, self.cmp())
        return a

    def cmp(self):
        a = self.add()
        if self.peek() == ("op", "=="):
            self.eat()
            return ("eq", a, self.add())
        return a

    def add(self):
        a = self.mul()
        while self.peek() in (("op", "+"), ("op", "-")):
            op = self.eat()
            a = ("add" if op == "+" else "sub", a, self.mul())
        return a

    def mul(self):
        a = self.unary()
        while self.peek() == ("op", "*"):
            self.eat()
            a = ("mul", a, self.unary())
        return a

    def unary(self):
        k, v = self.peek()
        if k == "int":
            self.eat()
            return ("int", int(v))
        if k == "op" and v == "-":
            self.eat()
            return ("neg", self.unary())
        if k == "op" and v == "(":
            self.eat()
            e = self.expr()
            self.eat("op", ")")
            return self.postfix(e)
        if k == "id":
            self.eat()
            if self.peek() == ("op", "("):
                self.eat()
                args = []
                if self.peek() != ("op", ")"):
                    args.append(self.expr())
                    while self.peek() == ("op", ","):
                        self.eat()
                        args.append(self.expr())
                self.eat("op", ")")
                return self.postfix(("call", v, args))
            return self.postfix(("id", v))
        raise TranslateError("%s: unexpected token %s %s" % (self.where, k, v))

    def postfix(self, e):
        while self.peek() == ("op", "->"):
            self.eat()
            f = self.eat("id")
            e = ("field", e, f)
        return e


def parse_expr(text, where):
    p = P(lex(text), where)
    e = p.expr()
    if not p.done():
        raise TranslateError("%s: trailing tokens in %r" % (where, text))
    return e


def strip_comments(s):
    s = re.sub(r"/\*.*?\*/", " ", s, flags=re.S)
    return re.sub(r"//[^\n]*", " ", s)


# ----------------------------------------------------------------------------- source readers
def read_enum(vnacal_h):
    src = strip_comments(open(vnacal_h).read())
    m = re.search(r"typedef\s+enum\s+vnacal_type\s*\{(.*?)\}\s*vnacal_type_t\s*;", src, flags=re.S)
    if not m:
        raise TranslateError("vnacal.h: enum vnacal_type not found")
    val = -1
    out = []
    for item in m.group(1).split(","):
        item = item.strip()
        if not item:
            continue
        mm = re.match(r"^(_?VNACAL_[A-Z0-9_]+)(?:\s*=\s*(-?\d+))?$", item)
        if not mm:
            raise TranslateError("vnacal.h: unexpected enumerator %r" % item)
        val = int(mm.group(2)) if mm.group(2) is not None else val + 1
        out.append((mm.group(1), val))
    return out


def ctor(name):
    n = name.lstrip("_")
    if not n.startswith("VNACAL_"):
        raise TranslateError("unexpected type constant " + name)
    return n[len("VNACAL_"):]


def read_header(path):
    raw = open(path).read()
    src = strip_comments(raw)
    # join continued lines
    src = src.replace("\\\n", " ")
    m = re.search(r"typedef\s+struct\s+vnacal_layout\s*\{(.*?)\}\s*vnacal_layout_t\s*;", src, flags=re.S)
    if not m:
        raise TranslateError("vnacal_layout.h: struct vnacal_layout not found")
    fields = []
    for decl in m.group(1).split(";"):
        decl = decl.strip()
        if not decl:
            continue
        mm = re.match(r"^(vnacal_type_t|int)\s+(vl_[a-z_]+)$", decl)
        if not mm:
            raise TranslateError("vnacal_layout.h: unexpected member %r" % decl)
        fields.append((mm.group(2), mm.group(1)))
    aliases = {}
    macros = []
    for line in src.split("\n"):
        line = line.strip()
        mm = re.match(r"^#\s*define\s+(vl_[a-z_]+)\s+(vl_[a-z_]+)$", line)
        if mm:
            aliases[mm.group(1)] = mm.group(2)
            continue
        mm = re.match(r"^#\s*define\s+((?:VL|VNACAL)_[A-Z0-9_]+)\(([^)]*)\)\s+(.*)$", line)
        if mm:
            params = [x.strip() for x in mm.group(2).split(",")]
            macros.append((mm.group(1), params, parse_expr(mm.group(3), mm.group(1))))
            continue
        if re.match(r"^#\s*define\s+(VL|VNACAL|vl)_", line) and not re.match(r"^#\s*define\s+_VNACAL_LAYOUT_H", line):
            raise TranslateError("vnacal_layout.h: unrecognised macro line %r" % line)
    m = re.search(r"static\s+inline\s+int\s+_vl_unity_offset\s*\(\s*const\s+vnacal_layout_t\s*\*\s*vlp\s*,\s*int\s+system\s*\)\s*\{(.*?)\n\}", src, flags=re.S)
    if not m:
        raise TranslateError("vnacal_layout.h: _vl_unity_offset not found")
    body = m.group(1)
    mm = re.search(r"switch\s*\(\s*vlp->vl_type\s*\)\s*\{(.*)\}\s*return\s+(-?\d+)\s*;\s*$", body.strip(), flags=re.S)
    if not mm:
        raise TranslateError("_vl_unity_offset: unexpected shape")
    default = int(mm.group(2))
    unity = {}
    labels = []
    for stmt in re.findall(r"case\s+\w+\s*:|default\s*:|return\s+[^;]+;|break\s*;", mm.group(1)):
        stmt = stmt.strip()
        if stmt.startswith("case"):
            labels.append(re.match(r"case\s+(\w+)", stmt).group(1))
        elif stmt.startswith("default"):
            labels.append(None)
        elif stmt.startswith("return"):
            e = parse_expr(stmt[len("return"):-1], "_vl_unity_offset")
            for l in labels:
                if l is not None:
                    unity[l] = e
            labels = []
        else:
            for l in labels:
                if l is not None:
                    unity[l] = ("int", default)
            labels = []
    rest = re.sub(r"case\s+\w+\s*:|default\s*:|return\s+[^;]+;|break\s*;", "", mm.group(1)).strip()
    if rest:
        raise TranslateError("_vl_unity_offset: unexpected statements %r" % rest[:60])
    return fields, aliases, macros, unity, default


def read_layout_c(path):
    src = strip_comments(open(path).read())
    m = re.search(r"void\s+_vnacal_layout\s*\(\s*vnacal_layout_t\s*\*\s*vlp\s*,\s*vnacal_type_t\s+type\s*,\s*int\s+m_rows\s*,\s*int\s+m_columns\s*\)\s*\{(.*)\n\}", src, flags=re.S)
    if not m:
        raise TranslateError("vnacal_layout.c: _vnacal_layout not found")
    body = m.group(1)
    i = body.find("switch")
    if i < 0:
        raise TranslateError("_vnacal_layout: no switch")
    pre, sw = body[:i], body[i:]
    consts = []
    universal = []
    for stmt in [x.strip() for x in pre.split(";") if x.strip()]:
        mm = re.match(r"^const\s+int\s+(\w+)\s*=\s*(.+)$", stmt, flags=re.S)
        if mm:
            consts.append((mm.group(1), parse_expr(mm.group(2), "_vnacal_layout")))
            continue
        if re.match(r"^\(void\)\s*memset\(\(void \*\)vlp,\s*0,\s*sizeof\(\*vlp\)\)$", stmt):
            continue
        mm = re.match(r"^vlp->(vl_\w+)\s*=\s*(.+)$", stmt)
        if mm:
            universal.append((mm.group(1), parse_expr(mm.group(2), "_vnacal_layout")))
            continue
        raise TranslateError("_vnacal_layout: unexpected statement before the switch: %r" % stmt[:80])
    mm = re.match(r"^switch\s*\(\s*type\s*\)\s*\{(.*)\}\s*$", sw.strip(), flags=re.S)
    if not mm:
        raise TranslateError("_vnacal_layout: unexpected switch shape")
    text = mm.group(1)
    arms = []
    pos = 0
    pat = re.compile(r"\s*((?:case\s+\w+\s*:\s*)+)\{(.*?)\}\s*break\s*;", re.S)
    while True:
        m2 = pat.match(text, pos)
        if not m2:
            break
        labels = re.findall(r"case\s+(\w+)", m2.group(1))
        lets, sets = [], []
        for stmt in [x.strip() for x in m2.group(2).split(";") if x.strip()]:
            m3 = re.match(r"^const\s+int\s+(\w+)\s*=\s*(.+)$", stmt, flags=re.S)
            if m3:
                lets.append((m3.group(1), parse_expr(m3.group(2), labels[0])))
                continue
            m3 = re.match(r"^vlp->(vl_\w+)\s*=\s*(.+)$", stmt, flags=re.S)
            if m3:
                sets.append((m3.group(1), parse_expr(m3.group(2), labels[0])))
                continue
            raise TranslateError("_vnacal_layout, case %s: unexpected statement %r" % (labels[0], stmt[:80]))
        arms.append((labels, lets, sets))
        pos = m2.end()
    tail = text[pos:].strip()
    if not re.match(r"^default\s*:\s*abort\(\)\s*;$", tail):
        raise TranslateError("_vnacal_layout: unexpected end of switch: %r" % tail[:80])
    return consts, universal, arms


# ----------------------------------------------------------------------------- emitter
class Emitter(object):
    def __init__(self, enum, fields, aliases, macro_names):
        self.enum = dict(enum)
        self.fields = [f for f, _ in fields]
        self.aliases = aliases
        self.macro_names = macro_names

    def field(self, f):
        f = self.aliases.get(f, f)
        if f not in self.fields:
            raise TranslateError("unknown layout member " + f)
        return f

    def is_type_expr(self, e):
        return (e[0] == "id" and (e[1] in self.enum or e[1] == "type")) or \
               (e[0] == "field" and self.aliases.get(e[2], e[2]) == "vl_type")

    def ex(self, e, env):
        """integer (or caltype) expression"""
        k = e[0]
        if k == "int":
            return "%d" % e[1] if e[1] >= 0 else "(%d)" % e[1]
        if k == "neg":
            return "(- %s)" % self.ex(e[1], env)
        if k == "id":
            n = e[1]
            if n in self.enum:
                return ctor(n)
            if n in env:
                return env[n]
            raise TranslateError("unbound identifier " + n)
        if k in ("add", "sub", "mul"):
            return "(%s %s %s)" % (self.ex(e[1], env), {"add": "+", "sub": "-", "mul": "*"}[k], self.ex(e[2], env))
        if k == "field":
            # (vlp)->member
            if e[1] != ("id", "vlp"):
                raise TranslateError("field access on something else than vlp")
            return "(%s %s)" % (self.field(e[2]), env["vlp"])
        if k == "call":
            n, args = e[1], e[2]
            if n in ("MIN", "MAX") and len(args) == 2:
                return "(Z.%s %s %s)" % (n.lower(), self.ex(args[0], env), self.ex(args[1], env))
            if n in self.macro_names:
                return "(%s %s)" % (n, " ".join(self.arg(a, env) for a in args))
            raise TranslateError("call of unknown function/macro " + n)
        if k == "if":
            return "(if %s then %s else %s)" % (self.bx(e[1], env), self.ex(e[2], env), self.ex(e[3], env))
        raise TranslateError("unexpected integer expression %r" % (e,))

    def arg(self, a, env):
        if a == ("id", "vlp"):
            return env["vlp"]
        if a[0] == "field" and a[1] == ("id", "vlp") and self.aliases.get(a[2], a[2]) == "vl_type":
            return "(vl_type %s)" % env["vlp"]
        return self.ex(a, env)

    def bx(self, e, env):
        k = e[0]
        if k == "or":
            return "(orb %s %s)" % (self.bx(e[1], env), self.bx(e[2], env))
        if k == "and":
            return "(andb %s %s)" % (self.bx(e[1], env), self.bx(e[2], env))
        if k == "eq":
            if self.is_type_expr(e[1]) or self.is_type_expr(e[2]):
                return "(caltype_eqb %s %s)" % (self.arg(e[1], env), self.arg(e[2], env))
            return "(Z.eqb %s %s)" % (self.ex(e[1], env), self.ex(e[2], env))
        if k == "call" and e[1] in self.macro_names:
            return "(%s %s)" % (e[1], " ".join(self.arg(a, env) for a in e[2]))
        raise TranslateError("unexpected boolean expression %r" % (e,))


def is_bool_macro(body):
    return body[0] in ("or", "and", "eq") or (body[0] == "call" and (body[1].startswith("VNACAL_IS") or body[1].startswith("VNACAL_HAS")))


def generate(src_dir):
    enum = read_enum(os.path.join(src_dir, "vnacal.h"))
    fields, aliases, macros, unity, unity_default = read_header(os.path.join(src_dir, "vnacal_layout.h"))
    consts, universal, arms = read_layout_c(os.path.join(src_dir, "vnacal_layout.c"))
    types = [(n, v) for n, v in enum if v >= 0]
    ctors = [ctor(n) for n, _ in types]
    em = Emitter(enum, fields, aliases, set(m[0] for m in macros))
    o = []
    o.append("(* generated by translate/layout.py from vnacal.h, vnacal_layout.h, vnacal_layout.c -- do not edit *)")
    o.append("Require Import ZArith Bool List.")
    o.append("Import ListNotations.")
    o.append("Local Open Scope Z_scope.")
    o.append("Inductive caltype := %s." % " | ".join(ctors))
    o.append("Definition caltype_code (t : caltype) : Z := match t with %s end." %
             " ".join("| %s => %d" % (ctor(n), v) for n, v in types))
    o.append("Definition all_caltypes : list caltype := [%s]." % "; ".join(ctors))
    o.append("Definition caltype_eqb (a b : caltype) : bool := Z.eqb (caltype_code a) (caltype_code b).")
    o.append("Record layout_rec := mkLayout { %s }." %
             "; ".join("%s : %s" % (f, "caltype" if t == "vnacal_type_t" else "Z") for f, t in fields))
    # _vnacal_layout
    o.append("Definition layout (type : caltype) (m_rows m_columns : Z) : layout_rec :=")
    env = {"type": "type", "m_rows": "m_rows", "m_columns": "m_columns"}
    for n, e in consts:
        o.append("  let %s := %s in" % (n, em.ex(e, env)))
        env[n] = n
    uni = {}
    for f, e in universal:
        uni[em.field(f)] = em.arg(e, env)
    o.append("  match type with")
    seen = set()
    for labels, lets, sets in arms:
        env2 = dict(env)
        lines = []
        for n, e in lets:
            lines.append("      let %s := %s in" % (n, em.ex(e, env2)))
            env2[n] = n
        vals = dict(uni)
        for f, e in sets:
            vals[em.field(f)] = em.ex(e, env2)
        rec = "mkLayout " + " ".join("(%s)" % vals.get(f, "0") for f, _ in fields)
        for l in labels:
            if l not in dict(enum):
                raise TranslateError("unknown case label " + l)
            seen.add(l)
        o.append("  | %s =>" % " | ".join(ctor(l) for l in labels))
        o.extend(lines)
        o.append("      " + rec)
    missing = [n for n, v in types if n not in seen]
    if missing:
        raise TranslateError("_vnacal_layout: no case for %s" % missing)
    o.append("  end.")
    # macros (in file order; a macro may use earlier ones only -- reorder by dependency)
    done = set()
    pending = list(macros)
    guard = 0
    while pending:
        guard += 1
        if guard > 1000:
            raise TranslateError("macro dependency cycle")
        name, params, body = pending.pop(0)
        deps = set(re.findall(r"'((?:VL|VNACAL)_[A-Z0-9_]+)'", repr(body))) & em.macro_names
        if not deps <= done:
            pending.append((name, params, body))
            continue
        env = {}
        binders = []
        for p_ in params:
            if p_ == "vlp":
                env["vlp"] = "l"
                binders.append("(l : layout_rec)")
            elif p_ == "type":
                env["type"] = "type"
                binders.append("(type : caltype)")
            else:
                env[p_] = p_
                binders.append("(%s : Z)" % p_)
        if body[0] == "field" and em.field(body[2]) == "vl_type":
            o.append("Definition %s %s : caltype := %s." % (name, " ".join(binders), em.arg(body, env)))
        elif is_bool_macro(body):
            o.append("Definition %s %s : bool := %s." % (name, " ".join(binders), em.bx(body, env)))
        else:
            o.append("Definition %s %s : Z := %s." % (name, " ".join(binders), em.ex(body, env)))
        done.add(name)
    # _vl_unity_offset
    o.append("Definition vl_unity_offset (l : layout_rec) (system : Z) : Z :=")
    o.append("  match vl_type l with")
    env = {"vlp": "l", "system": "system"}
    for n, v in types:
        e = unity.get(n, ("int", unity_default))
        o.append("  | %s => %s" % (ctor(n), em.ex(e, env)))
    o.append("  end.")
    info = {"types": types, "ctors": ctors, "fields": [f for f, _ in fields],
            "macros": [(m[0], m[1], is_bool_macro(m[2])) for m in macros]}
    return "\n".join(o) + "\n", info


if __name__ == "__main__":
    import sys
    text, info = generate(sys.argv[1] if len(sys.argv) > 1 else "/repo/src")
    sys.stdout.write(text)


# ----------------------------------------------------------------------------- validation helpers
NMAX = 6


def c_row_function(info):
    """C text of `static void row(const vnacal_layout_t *vlp, vnacal_type_t type)` printing, in a fixed
    order, every member, every macro (two-argument macros for m_column = 0..NMAX-1) and the unity offsets."""
    o = ["static void row(const vnacal_layout_t *vlp, vnacal_type_t type)", "{"]
    for f in info["fields"]:
        o.append('    printf("%%d ", (int)vlp->%s);' % f)
    for name, params, isbool in info["macros"]:
        if params == ["vlp"]:
            o.append('    printf("%%d ", (int)(%s(vlp)));' % name)
        elif params == ["type"]:
            o.append('    printf("%%d ", (int)(%s(type)));' % name)
        elif len(params) == 2 and params[0] == "vlp":
            o.append('    for (int k = 0; k < %d; ++k) printf("%%d ", (int)(%s(vlp, k)));' % (NMAX, name))
        else:
            raise TranslateError("macro %s: unexpected parameter list %s" % (name, params))
    o.append('    for (int k = 0; k < %d; ++k) printf("%%d ", _vl_unity_offset(vlp, k));' % NMAX)
    o.append('    printf("\\n");')
    o.append("}")
    return "\n".join(o) + "\n"


def coq_rows(info):
    """Coq text evaluating the same rows from Gen/LayoutGen.v"""
    items = []
    for f in info["fields"]:
        items.append("caltype_code (vl_type l)" if f == "vl_type" else "%s l" % f)
    ks = list(range(NMAX))
    for name, params, isbool in info["macros"]:
        if params == ["vlp"]:
            if name == "VL_TYPE":
                items.append("caltype_code (VL_TYPE l)")
            elif isbool:
                items.append("(if %s l then 1 else 0)" % name)
            else:
                items.append("%s l" % name)
        elif params == ["type"]:
            items.append("(if %s ty then 1 else 0)" % name)
        else:
            for k in ks:
                items.append("%s l %d" % (name, k))
    for k in ks:
        items.append("vl_unity_offset l %d" % k)
    o = ["Require Import ZArith List.", "Require Import LV.Gen.LayoutGen.", "Import ListNotations.", "Open Scope Z_scope.",
         "Definition row (ty : caltype) (r c : Z) : list Z := let l := layout ty r c in [%s]." % "; ".join(items),
         "Definition dims : list Z := [%s]." % "; ".join(str(i) for i in range(1, NMAX + 1)),
         ]
    for ct in info["ctors"]:
        for r in range(1, NMAX + 1):
            o.append("Eval vm_compute in (flat_map (fun c => row %s %d c ++ [-777]) dims)." % (ct, r))
    return "\n".join(o) + "\n"
