"""T1: translate the two-port vnaconv_XtoY.c / vnaconv_Xtozi.c functions into Gallina.

Accepted idiom (anything else raises TranslateError = broken tie):
    void vnaconv_XtoY(const double complex (*in)[2], double complex (*out)[2]
                      [, const double complex *z0])
    {
        const double [complex] name = expr;          (any number)
    #define O11 out[0][0]                            (any number)
        O11 = expr;  | out[i][j] = expr; | zi[i] = expr;
    }
expr: + - * / unary-, parentheses, floating literals, names, in[i][j], z0[i],
      conj(e), creal(e), sqrt(fabs(creal(e))).

Output per function:
  * `sep`  : the outputs as terms over the inputs when input and output are different arrays;
  * `alias`: the outputs when `out` and `in` are the same array (a read of in[i][j] that follows
             a write of out[i][j] sees the written term);
  * the multiplicative leaf factors of every denominator (the conversion's singular set).
"""
import os
import re

TYPES = "stuzyhgab"


class TranslateError(Exception):
    pass


# ----------------------------------------------------------------------------- lexer / parser
TOK = re.compile(r"\s*(?:(\d+\.\d*(?:[eE][-+]?\d+)?|\d+)|([A-Za-z_][A-Za-z_0-9]*)|(.))")


def lex(s):
    out = []
    pos = 0
    s = s.strip()
    while pos < len(s):
        m = TOK.match(s, pos)
        if not m:
            raise TranslateError("cannot tokenise: %r" % s[pos:pos + 20])
        pos = m.end()
        if m.group(1) is not None:
            out.append(("num", m.group(1)))
        elif m.group(2) is not None:
            out.append(("id", m.group(2)))
        elif m.group(3) is not None:
            out.append(("op", m.group(3)))
    return out


class Parser(object):
    def __init__(self, toks, macros, inname, z0name):
        self.t = toks
        self.i = 0
        self.macros = macros
        self.inname = inname
        self.z0name = z0name

    def peek(self):
        return self.t[self.i] if self.i < len(self.t) else ("eof", "")

    def eat(self, kind=None, val=None):
        k, v = self.peek()
        if (kind and k != kind) or (val is not None and v != val):
            raise TranslateError("expected %s %s, found %s %r" % (kind, val, k, v))
        self.i += 1
        return v

    def expr(self):
        e = self.term()
        while self.peek() in (("op", "+"), ("op", "-")):
            op = self.eat()
            r = self.term()
            e = ("add" if op == "+" else "sub", e, r)
        return e

    def term(self):
        e = self.unary()
        while self.peek() in (("op", "*"), ("op", "/")):
            op = self.eat()
            r = self.unary()
            e = ("mul" if op == "*" else "div", e, r)
        return e

    def unary(self):
        if self.peek() == ("op", "-"):
            self.eat()
            return ("neg", self.unary())
        if self.peek() == ("op", "+"):
            self.eat()
            return self.unary()
        return self.atom()

    def index(self):
        self.eat("op", "[")
        v = self.eat("num")
        self.eat("op", "]")
        if v not in ("0", "1"):
            raise TranslateError("index %s out of the 2x2 idiom" % v)
        return int(v)

    def atom(self):
        k, v = self.peek()
        if k == "num":
            self.eat()
            return ("num", v)
        if k == "op" and v == "(":
            self.eat()
            e = self.expr()
            self.eat("op", ")")
            return e
        if k == "id":
            self.eat()
            if v in self.macros:
                # macro names an lvalue of the output (or input) array
                sub = Parser(lex(self.macros[v]), {}, self.inname, self.z0name)
                e = sub.atom()
                return e
            if self.peek() == ("op", "("):
                self.eat()
                a = self.expr()
                self.eat("op", ")")
                return ("call", v, a)
            if self.peek() == ("op", "["):
                i = self.index()
                if self.peek() == ("op", "["):
                    j = self.index()
                    return ("arr2", v, i, j)
                return ("arr1", v, i)
            return ("var", v)
        raise TranslateError("unexpected token %s %r" % (k, v))


def strip_comments(src):
    src = re.sub(r"/\*.*?\*/", "", src, flags=re.S)
    src = re.sub(r"//[^\n]*", "", src)
    return src


class Func(object):
    pass


def parse_function(path):
    name = os.path.basename(path)[len("vnaconv_"):-2]
    src = strip_comments(open(path).read())
    m = re.search(r"void\s+vnaconv_%s\s*\(([^)]*\)[^)]*\)[^)]*|[^)]*\)[^)]*|[^)]*)\)\s*\{" % name, src)
    # simpler: find the header up to the first '{'
    h = re.search(r"void\s+vnaconv_%s\s*\((.*?)\)\s*\{" % name, src, flags=re.S)
    if not h:
        raise TranslateError("%s: function header not found" % name)
    params = h.group(1)
    body_start = h.end()
    # body ends at the matching closing brace (no nested braces in the idiom)
    body_end = src.index("}", body_start)
    body = src[body_start:body_end]
    if "{" in body:
        raise TranslateError("%s: nested block" % name)
    plist = [p.strip() for p in re.sub(r"\s+", " ", params).split(",")]
    f = Func()
    f.name = name
    f.path = path
    mi = re.match(r"const double complex \(\*(\w+)\)\[2\]$", plist[0])
    if not mi:
        raise TranslateError("%s: first parameter %r" % (name, plist[0]))
    f.inname = mi.group(1)
    mo2 = re.match(r"double complex \(\*(\w+)\)\[2\]$", plist[1])
    mo1 = re.match(r"double complex \*(\w+)$", plist[1])
    if mo2:
        f.outname, f.outkind = mo2.group(1), "m2"
    elif mo1:
        f.outname, f.outkind = mo1.group(1), "v2"
    else:
        raise TranslateError("%s: second parameter %r" % (name, plist[1]))
    f.z0name = None
    if len(plist) == 3:
        mz = re.match(r"const double complex \*(\w+)$", plist[2])
        if not mz:
            raise TranslateError("%s: third parameter %r" % (name, plist[2]))
        f.z0name = mz.group(1)
    elif len(plist) != 2:
        raise TranslateError("%s: %d parameters" % (name, len(plist)))
    # statements
    macros = {}
    stmts = []
    # pull out #define lines first (they are lexically inside or outside the body)
    for dm in re.finditer(r"(?m)^[ \t]*#[ \t]*define[ \t]+(\w+)[ \t]+(.+?)[ \t]*$", src):
        macros[dm.group(1)] = dm.group(2)
    body = re.sub(r"(?m)^[ \t]*#.*$", "", body)
    for raw in body.split(";"):
        s = " ".join(raw.split())
        if not s:
            continue
        md = re.match(r"const double( complex)? (\w+) = (.*)$", s)
        if md:
            stmts.append(("let", md.group(2), md.group(3)))
            continue
        ma = re.match(r"([A-Za-z_]\w*(?:\[\d\])*) = (.*)$", s)
        if ma:
            stmts.append(("set", ma.group(1), ma.group(2)))
            continue
        raise TranslateError("%s: statement outside the idiom: %r" % (name, s))
    f.stmts = []
    for kind, lhs, rhs in stmts:
        p = Parser(lex(rhs), macros, f.inname, f.z0name)
        e = p.expr()
        if p.peek()[0] != "eof":
            raise TranslateError("%s: trailing tokens in %r" % (name, rhs))
        if kind == "set":
            pl = Parser(lex(lhs), macros, f.inname, f.z0name)
            le = pl.atom()
            if pl.peek()[0] != "eof":
                raise TranslateError("%s: bad lvalue %r" % (name, lhs))
            if f.outkind == "m2":
                if le[0] != "arr2" or le[1] != f.outname:
                    raise TranslateError("%s: assignment to %r" % (name, lhs))
                f.stmts.append(("set", (le[2], le[3]), e))
            else:
                if le[0] != "arr1" or le[1] != f.outname:
                    raise TranslateError("%s: assignment to %r" % (name, lhs))
                f.stmts.append(("set", (le[2],), e))
        else:
            f.stmts.append(("let", lhs, e))
    return f


# ----------------------------------------------------------------------------- symbolic execution
def subst(e, env, f, store):
    """Inline lets; resolve reads of the input array (through `store` when aliased)."""
    k = e[0]
    if k == "num":
        return e
    if k == "var":
        if e[1] in env:
            return env[e[1]]
        raise TranslateError("%s: unknown name %s" % (f.name, e[1]))
    if k == "arr2":
        if e[1] == f.inname or (e[1] == f.outname and f.outkind == "m2"):
            key = (e[2], e[3])
            if e[1] == f.outname and store is None:
                raise TranslateError("%s: reads its output array" % f.name)
            if store is not None and key in store:
                return store[key]
            if e[1] == f.outname and key not in (store or {}):
                # read of an output cell not yet written: with aliasing it is the input cell
                return ("in", e[2], e[3])
            return ("in", e[2], e[3])
        raise TranslateError("%s: unknown array %s" % (f.name, e[1]))
    if k == "arr1":
        if e[1] == f.z0name:
            return ("z0", e[2])
        raise TranslateError("%s: unknown vector %s" % (f.name, e[1]))
    if k == "neg":
        return ("neg", subst(e[1], env, f, store))
    if k in ("add", "sub", "mul", "div"):
        return (k, subst(e[1], env, f, store), subst(e[2], env, f, store))
    if k == "call":
        a = subst(e[2], env, f, store)
        if e[1] == "conj":
            return ("cj", a)
        if e[1] == "creal":
            return ("re", a)
        if e[1] == "fabs":
            return ("fabs", a)
        if e[1] == "sqrt":
            if a[0] == "fabs" and a[1][0] == "re":
                return ("ksq", a[1][1])
            raise TranslateError("%s: sqrt of something other than fabs(creal(.))" % f.name)
        raise TranslateError("%s: call of %s" % (f.name, e[1]))
    raise TranslateError("%s: node %r" % (f.name, k))


def has_fabs(e):
    if e[0] == "fabs":
        return True
    return any(has_fabs(x) for x in e[1:] if isinstance(x, tuple))


def run(f, aliased):
    env = {}
    store = {} if aliased else None
    outs = {}
    for st in f.stmts:
        if st[0] == "let":
            env[st[1]] = subst(st[2], env, f, store)
        else:
            v = subst(st[2], env, f, store)
            outs[st[1]] = v
            if aliased and f.outkind == "m2":
                store[st[1]] = v
            elif aliased:
                # zi overlays the first row of the input matrix, as in the in-place call
                # vnadata_convert(vdp, vdp, VPT_ZIN) makes: zi[k] is the cell in[0][k]
                store[(0, st[1][0])] = v
    want = [(0, 0), (0, 1), (1, 0), (1, 1)] if f.outkind == "m2" else [(0,), (1,)]
    for w in want:
        if w not in outs:
            raise TranslateError("%s: output %r never assigned" % (f.name, w))
        if has_fabs(outs[w]):
            raise TranslateError("%s: bare fabs" % f.name)
    return [outs[w] for w in want]


# ----------------------------------------------------------------------------- denominators
def factors(e, acc):
    """Multiplicative leaf factors of all denominators in e."""
    k = e[0]
    if k in ("num", "in", "z0"):
        return
    if k in ("neg", "cj", "re", "ksq"):
        factors(e[1], acc)
        return
    if k == "div":
        factors(e[1], acc)
        factors(e[2], acc)
        leaf_factors(e[2], acc)
        return
    factors(e[1], acc)
    factors(e[2], acc)


def leaf_factors(e, acc):
    k = e[0]
    if k == "mul":
        leaf_factors(e[1], acc)
        leaf_factors(e[2], acc)
    elif k == "div":
        leaf_factors(e[1], acc)
        leaf_factors(e[2], acc)
    elif k == "neg":
        leaf_factors(e[1], acc)
    elif k == "num":
        if float(e[1]) == 0.0:
            acc.append(e)
    else:
        if e not in acc:
            acc.append(e)


# ----------------------------------------------------------------------------- Gallina
def gal(e):
    k = e[0]
    if k == "num":
        v = float(e[1])
        if v == 1.0:
            return "1"
        if v == 2.0:
            return "two"
        if v == 0.0:
            return "0"
        raise TranslateError("numeric literal %s" % e[1])
    if k == "in":
        return "m%d%d" % (e[1] + 1, e[2] + 1)
    if k == "z0":
        return "z%d" % (e[1] + 1)
    if k == "neg":
        return "(copp %s)" % gal(e[1])
    if k in ("cj", "re", "ksq"):
        return "(%s %s)" % (k, gal(e[1]))
    op = {"add": "+", "sub": "-", "mul": "*", "div": "/"}[k]
    return "(%s %s %s)" % (gal(e[1]), op, gal(e[2]))


def translate_dir(srcdir):
    """Parse all 81 two-port files.  Returns dict name -> info."""
    res = {}
    for x in TYPES:
        for y in TYPES + "i":
            n = "%sto%s" % (x, "zi" if y == "i" else y)
            if x == y:
                continue
            p = os.path.join(srcdir, "vnaconv_%s.c" % n)
            if not os.path.exists(p):
                raise TranslateError("missing source file %s" % p)
            f = parse_function(p)
            info = {"name": n, "src": x, "dst": ("zi" if y == "i" else y),
                    "has_z0": f.z0name is not None, "outkind": f.outkind}
            info["sep"] = run(f, False)
            info["alias"] = run(f, True)
            acc = []
            for e in info["sep"]:
                factors(e, acc)
            info["factors"] = acc
            res[n] = info
    return res
