"""C11: the failure contract of API functions read from the C text as an ORDERED list of steps.

For every function of CONTRACT_FUNCS the body is split into its top-level statements (splitter of
translate/errno_orders.py) and each statement is translated into one step:

  SDirect c e v    if (c) { errno = E; return V; }                              silent refusal (handle tests, queries)
                   if ((x = CALLEE(..)) == NULL) { [errno = E;] return V; }     with CALLEE a translated function all of
                                                                                whose exits are silent: CALLEE's steps are
                                                                                spliced in (arguments substituted), value V
  SReport c cat v  if (c) { _vnacal_error(vcp, VNAERR_cat, ..); return V; }     reported refusal; if / else inside the body
                                                                                may choose between messages of ONE category
                   for (..) { if (c) { report; return V; } }                    (nested) loop around one such test: the
                                                                                condition is the atom the table ATOMS gives
                                                                                for the normalised text of loop and test
                   if (c && CALLEE(..) == -1) return V;                         CALLEE of REPORTING_CALLEES reports itself
                   switch (x) { case A: case B: if (c) {report; return V;} break; ... default: report; return V; }
                                                                                one step per arm, condition (x in {A,B}) && c
  SExit c          if (c) { ...; return <success>; }                            early successful exit
  SAlloc v         if ((x = malloc(..)) == NULL) { report SYSTEM; return V; }   allocation exit (outside the model, C12)
  SLate v          if (CALLEE(..) == -1) { [report;] return V / goto out; }     with CALLEE of LATE_CALLEES: work that fails
  SWork            anything else that is not a declaration or a computation on locals (stores through pointers, calls)

Conditions are translated into the expression language cexp of coq/Err/New2Base.v: ||, &&, !, the six comparisons
between variables (identifiers, p->f, s.f, VL_TYPE(vlp)), integer / floating literals, NULL, #define'd constants and
enumerators (replaced by their values).  A comparison outside this grammar must be listed in ATOMS (normalised text ->
name of a boolean variable whose meaning the hand-written environment of coq/Err/New2Model.v gives); anything else
raises ContractError: the C no longer matches the accepted idiom.

Also read: the effect sequences of the three paths through the epilogue of _vnaerr_verror (error function given /
vasprintf failed / no error function): set errno, call the error function, calls that may disturb errno.

Output: coq/Gen/ContractGen.v (gen_contract_<function>, gen_contracts, gen_verror_paths, gen_apply_m_constants).
"""
import os
import re

import errno_orders as eo


class ContractError(Exception):
    pass


FVAL = {"-1": "VM1", "NULL": "VNULL", "HUGE_VAL": "VHUGE"}
ERRNO = {"EINVAL": "E_INVAL", "ENOENT": "E_NOENT", "EDOM": "E_DOM"}

# (C function, source file, documented failure value)
CONTRACT_FUNCS = [
    ("vnacal_new_alloc", "vnacal_new.c", "NULL"),
    ("vnacal_new_set_frequency_vector", "vnacal_new.c", "-1"),
    ("vnacal_new_set_z0", "vnacal_new.c", "-1"),
    ("vnacal_new_set_m_error", "vnacal_new_set_m_error.c", "-1"),
    ("vnacal_new_set_p_tolerance", "vnacal_new_set_p_tolerance.c", "-1"),
    ("vnacal_new_set_et_tolerance", "vnacal_new_set_et_tolerance.c", "-1"),
    ("vnacal_new_set_iteration_limit", "vnacal_new_set_iteration_limit.c", "-1"),
    ("vnacal_new_set_pvalue_limit", "vnacal_new_set_pvalue_limit.c", "-1"),
    ("_vnacal_new_solve_internal", "vnacal_new_solve.c", "-1"),
    ("vnacal_new_solve", "vnacal_new_solve.c", "-1"),
    ("vnacal_add_calibration", "vnacal_add_calibration.c", "-1"),
    ("_vnacal_get_calibration", "vnacal_get.c", "NULL"),
    ("_vnacal_apply_common", "vnacal_apply.c", "-1"),
    ("vnacal_set_fprecision", "vnacal_set_fprecision.c", "-1"),
    ("vnacal_set_dprecision", "vnacal_set_dprecision.c", "-1"),
    ("vnacal_get_name", "vnacal_get.c", "NULL"),
    ("vnacal_get_type", "vnacal_get.c", "-1"),
    ("vnacal_get_rows", "vnacal_get.c", "-1"),
    ("vnacal_get_columns", "vnacal_get.c", "-1"),
    ("vnacal_get_frequencies", "vnacal_get.c", "-1"),
    ("vnacal_get_fmin", "vnacal_get.c", "HUGE_VAL"),
    ("vnacal_get_fmax", "vnacal_get.c", "HUGE_VAL"),
    ("vnacal_get_frequency_vector", "vnacal_get.c", "NULL"),
    ("vnacal_get_z0", "vnacal_get.c", "HUGE_VAL"),
    ("vnacal_get_filename", "vnacal_get.c", "NULL"),
    ("vnacal_get_calibration_end", "vnacal_get.c", "-1"),
    ("_get_property_root", "vnacal_property.c", "NULL"),
    ("vnacal_property_type", "vnacal_property.c", "-1"),
    ("vnacal_property_count", "vnacal_property.c", "-1"),
    ("vnacal_property_keys", "vnacal_property.c", "NULL"),
    ("vnacal_property_get", "vnacal_property.c", "NULL"),
    ("vnacal_property_set", "vnacal_property.c", "-1"),
    ("vnacal_property_delete", "vnacal_property.c", "-1"),
    ("vnacal_property_get_subtree", "vnacal_property.c", "NULL"),
    ("vnacal_property_set_subtree", "vnacal_property.c", "NULL"),
]
APPLY_WRAPPERS = [("vnacal_apply", "vnacal_apply.c"), ("vnacal_apply_m", "vnacal_apply.c")]

# normalised text of a test outside the expression grammar -> name of the boolean variable that stands for it
ATOMS = {
    # vnacal_new_set_frequency_vector
    "for(int i=0;i<vnp->vn_frequencies;++i)|isnan(frequency_vector[i])||frequency_vector[i]<0.0": "atom:fv_has_nan_or_negative",
    "for(int i=0;i<vnp->vn_frequencies-1;++i)|frequency_vector[i]>=frequency_vector[i+1]": "atom:fv_not_ascending",
    "_vnacal_new_check_all_frequency_ranges(__func__,vnp,frequency_vector[0],frequency_vector[vnp->vn_frequencies-1])==-1":
        "atom:parameter_ranges_bad",
    # fix DM90: the frequencies cannot be changed under a measurement error model
    "if(vnp->vn_m_error_vector!=NULL)|for(int i=0;i<vnp->vn_frequencies;++i)|frequency_vector[i]!=vnp->vn_frequency_vector[i]":
        "atom:fv_changes_under_m_error",
    # vnacal_new_set_m_error
    "for(int i=0;i<frequencies;++i)|sigma_nf_vector[i]<=0": "atom:sigma_nf_has_nonpositive",
    "if(sigma_tr_vector!=NULL)|for(int i=0;i<frequencies;++i)|sigma_tr_vector[i]<0": "atom:sigma_tr_has_negative",
    "if(frequency_vector!=NULL)|for(int i=1;i<frequencies;++i)|frequency_vector[i-1]>=frequency_vector[i]":
        "atom:m_error_fv_not_ascending",
    "if(frequency_vector!=NULL)|if(vnp->vn_frequencies>0)|frequency_vector[0]>lower||frequency_vector[frequencies-1]<upper":
        "atom:m_error_range_too_narrow",
    "if(VL_TYPE(vlp)==VNACAL_T16||VL_TYPE(vlp)==VNACAL_U16)|for(vnmp=vnp->vn_measurement_list;vnmp!=NULL;vnmp=vnmp->vnm_next)|"
    "for(int s_cell=0;s_cell<s_cells;++s_cell)|vnmp->vnm_s_matrix[s_cell]==NULL": "atom:s_matrix_incomplete_16",
    # the same tests after fixes DC92 (NaN / infinite / negative entries), DC93 (infinite calibration frequency, NaN in the
    # frequency vector of vnacal_apply) and DC94 (frequency_vector is not looked at when frequencies == 1)
    "for(int i=0;i<vnp->vn_frequencies;++i)|isnan(frequency_vector[i])||isinf(frequency_vector[i])||frequency_vector[i]<0.0":
        "atom:fv_has_nan_inf_or_negative",
    "for(int i=0;i<frequencies;++i)|isnan(sigma_nf_vector[i])||isinf(sigma_nf_vector[i])||sigma_nf_vector[i]<=0": "atom:sigma_nf_has_invalid",
    "if(sigma_tr_vector!=NULL)|for(int i=0;i<frequencies;++i)|isnan(sigma_tr_vector[i])||isinf(sigma_tr_vector[i])||sigma_tr_vector[i]<0":
        "atom:sigma_tr_has_invalid",
    "if(frequency_vector!=NULL)|for(int i=0;i<frequencies;++i)|isnan(frequency_vector[i])||isinf(frequency_vector[i])||frequency_vector[i]<0.0":
        "atom:m_error_fv_has_invalid",
    "if(frequency_vector!=NULL&&frequencies>1)|for(int i=0;i<frequencies;++i)|isnan(frequency_vector[i])||isinf(frequency_vector[i])||"
    "frequency_vector[i]<0.0": "atom:m_error_fv_has_invalid_n_gt_1",
    "if(frequency_vector!=NULL&&frequencies>1)|for(int i=1;i<frequencies;++i)|frequency_vector[i-1]>=frequency_vector[i]":
        "atom:m_error_fv_not_ascending_n_gt_1",
    "if(frequency_vector!=NULL&&frequencies>1)|if(vnp->vn_frequencies>0)|frequency_vector[0]>lower||frequency_vector[frequencies-1]<upper":
        "atom:m_error_range_too_narrow_n_gt_1",
    "for(int i=0;i<vaa.vaa_frequencies;++i)|isnan(vaa.vaa_frequency_vector[i])": "atom:apply_fv_has_nan",
    # vnacal_add_calibration
    "vnp->vn_vcp!=vcp": "atom:vnp_of_another_vcp",
    # _vnacal_apply_common
    "for(int i=0;i<vaa.vaa_frequencies-1;++i)|vaa.vaa_frequency_vector[i]>=vaa.vaa_frequency_vector[i+1]": "atom:apply_fv_not_ascending",
    "vaa.vaa_frequency_vector[0]<fmin": "atom:apply_below_range",
    "vaa.vaa_frequency_vector[vaa.vaa_frequencies-1]>fmax": "atom:apply_above_range",
    "for(int cell=0;cell<c_ports*c_ports;++cell)|vaa.vaa_b_matrix[cell]==NULL": "atom:apply_b_has_null_cell",
    "if(vaa.vaa_a_matrix!=NULL)|vaa.vaa_a_rows!=a_rows||vaa.vaa_a_columns!=c_ports": "atom:apply_a_dimensions_wrong",
    "if(vaa.vaa_a_matrix!=NULL)|for(int cell=0;cell<a_rows*c_ports;++cell)|vaa.vaa_a_matrix[cell]==NULL": "atom:apply_a_has_null_cell",
    # _vnacal_new_add_common
    "if(s_port_map!=NULL)|for(int s_port_index=0;s_port_index<s_ports;++s_port_index)|(b_rows<full_m_rows&&port>full_m_rows)||"
    "(b_columns<full_m_columns&&port>full_m_columns)": "atom:add_map_port_outside_m",
    "if(a_matrix!=NULL)|a_rows!=rows||a_columns!=b_columns": "atom:add_a_dimensions_wrong",
    "if(s_port_map!=NULL)|for(int s_port_index=0;s_port_index<s_ports;++s_port_index)|port<1": "atom:add_scan_port_below_1",
    "if(s_port_map!=NULL)|for(int s_port_index=0;s_port_index<s_ports;++s_port_index)|s_port_index<s_rows&&max_port>full_s_rows":
        "atom:add_scan_row_bound",
    "if(s_port_map!=NULL)|for(int s_port_index=0;s_port_index<s_ports;++s_port_index)|s_port_index<s_columns&&max_port>full_s_columns":
        "atom:add_scan_column_bound",
    "if(s_port_map!=NULL)|for(int s_port_index=0;s_port_index<s_ports;++s_port_index)|port_connected[port-1]": "atom:add_scan_duplicate",
    "for(int s_cell=0;s_cell<s_cells;++s_cell)|_vnacal_new_check_parameter(function,vnp,s_matrix[s_cell])==-1": "atom:add_parameter_invalid",
    "if(vnp->vn_m_error_vector!=NULL&&(VL_TYPE(vlp)==VNACAL_T16||VL_TYPE(vlp)==VNACAL_U16))|"
    "for(int s_cell=0;s_cell<full_s_rows*full_s_columns;++s_cell)|full_s_matrix[s_cell]==NULL": "atom:add_full_s_incomplete_16",
    # _vnacal_get_calibration
    "(calp=vcp->vc_calibration_vector[ci])==NULL": "atom:slot_empty",
}
ATOMS = dict((re.sub(r"\s+", "", k), v) for k, v in ATOMS.items())
# callees that report an error themselves before they return a failure: the categories are read from the callee
REPORTING_CALLEES = {"_vnacal_new_check_all_frequency_ranges": ("vnacal_new_parameter.c", ["check_single_frequency_range"]),
                     "_vnacal_new_check_parameter": ("vnacal_new_parameter.c", ["_vnacal_new_check_parameter", "check_single_frequency_range"]),
                     "_vnacal_new_err_need_full_s": ("vnacal_new_add_common.c", ["_vnacal_new_err_need_full_s"])}
# callees that do work on the object and can fail ("fails later in its work")
LATE_CALLEES = set("vs_init _vnacal_calibration_alloc _vnacal_add_calibration_common vnadata_init vnadata_set_frequency_vector".split())
PURE_MACROS = set("MAX MIN VL_TYPE VL_S_ROWS VL_S_COLUMNS VL_M_ROWS VL_M_COLUMNS VL_V_ROWS VL_V_COLUMNS VL_ERROR_TERMS "
                  "VNACAL_IS_UE14 VL_IS_UE14 _vnacal_calibration_get_fmin_bound _vnacal_calibration_get_fmax_bound sizeof".split())
NEUTRAL_CALLS = [r"^\(void\)\s*memset\s*\(\s*\(void\s*\*\)\s*&\s*vaa\b", r"^_vnacal_layout\s*\(\s*&\s*vl\b", r"^va_start\s*\(", r"^va_end\s*\(",
                 r"^assert\s*\("]
# callees that fail with the reason in errno (EINVAL: the data cannot be handled; otherwise a failed allocation)
ERRNO_CALLEES = set(["_vnacommon_spline_calc"])
ALLOC_RE = re.compile(r"\b(malloc|calloc|realloc|strdup)\s*\(")


def norm(s):
    return re.sub(r"\s+", "", s)


# ----------------------------------------------------------------------------- constants of the headers
def read_constants(srcdir):
    consts = {}
    for h in ("vnacal.h", "vnacal_internal.h", "vnacal_new_internal.h", "vnaerr.h"):
        with open(os.path.join(srcdir, h)) as f:
            t = f.read()
        for m in re.finditer(r"(?m)^#define\s+([A-Z_][A-Z0-9_]*)\s+(0x[0-9A-Fa-f]+|-?\d+)\s*(?:/\*.*)?$", t):
            consts[m.group(1)] = int(m.group(2), 0)
        for m in re.finditer(r"typedef\s+enum\s+\w*\s*\{(.*?)\}", re.sub(r"/\*.*?\*/", " ", t, flags=re.S), flags=re.S):
            v = -1
            for item in m.group(1).split(","):
                item = item.strip()
                if not item:
                    continue
                mm = re.match(r"^([A-Za-z_]\w*)(?:\s*=\s*(-?\d+))?$", item)
                if not mm:
                    raise ContractError("%s: enumerator %r not understood" % (h, item))
                v = int(mm.group(2)) if mm.group(2) else v + 1
                consts[mm.group(1)] = v
    return consts


# ----------------------------------------------------------------------------- conditions
def split_top(s, op):
    """split at top-level occurrences of the two-character operator op"""
    parts, depth, last, i = [], 0, 0, 0
    while i < len(s):
        ch = s[i]
        if ch in "([":
            depth += 1
        elif ch in ")]":
            depth -= 1
        elif depth == 0 and s.startswith(op, i):
            parts.append(s[last:i])
            last = i + 2
            i += 2
            continue
        i += 1
    parts.append(s[last:])
    return parts


def strip_parens(s):
    s = s.strip()
    while s.startswith("(") and eo.match_close(s, 0, "(", ")") == len(s) - 1:
        s = s[1:-1].strip()
    return s


VAR_RE = r"[A-Za-z_]\w*(?:\s*(?:->|\.)\s*[A-Za-z_]\w*)*"


class Cond(object):
    def __init__(self, consts, prefix=""):
        self.consts, self.prefix = consts, prefix

    def term(self, s):
        s = strip_parens(s)
        if re.match(r"^-?\d+$", s):
            return "(CInt (%s))" % s
        m = re.match(r"^(-?\d+)\.(\d+)$", s)
        if m:
            from fractions import Fraction
            fr = Fraction(int(m.group(1) + m.group(2)), 10 ** len(m.group(2)))
            return "(CDbl (%d # %d))" % (fr.numerator, fr.denominator)
        if s == "NULL":
            return "CNull"
        if re.match(r"^'[^'\\]'$", s):
            return "(CInt (%d))" % ord(s[1])
        if re.match(r"^%s$" % VAR_RE, s):
            n = norm(s)
            if n in self.consts:
                return "(CInt (%d))" % self.consts[n]
            if re.match(r"^[A-Z_][A-Z0-9_]*$", n):
                raise ContractError("constant %s has no value in the headers read" % n)
            return '(CVar "%s")' % n
        m = re.match(r"^(VL_TYPE)\s*\(\s*(\w+)\s*\)$", s)
        if m:
            return '(CVar "%s(%s)")' % (m.group(1), m.group(2))
        return None

    def leaf(self, s):
        s = strip_parens(s)
        key = norm(self.prefix + s)
        if key in ATOMS:
            return '(CTrue (CVar "%s"))' % ATOMS[key]
        m = re.match(r"^isnan\s*\(\s*(%s)\s*\)$" % VAR_RE, s)
        if m:
            v = self.term(m.group(1))           # x != x holds exactly for NaN
            return "(CCmp ONe %s %s)" % (v, v)
        ops = [(m.start(), m.group(0)) for m in re.finditer(r"<=|>=|==|!=|<|>", re.sub(r"->", "~~", s))]
        if len(ops) == 1:
            pos, op = ops[0]
            a, b = self.term(s[:pos]), self.term(s[pos + len(op):])
            if a is not None and b is not None:
                if "CNull" in (a, b) and op not in ("==", "!="):
                    raise ContractError("ordering comparison with NULL: %r" % s)
                name = {"<": "OLt", "<=": "OLe", ">": "OGt", ">=": "OGe", "==": "OEq", "!=": "ONe"}[op]
                return "(CCmp %s %s %s)" % (name, a, b)
        if not ops:
            a = self.term(s)
            if a is not None:
                return "(CTrue %s)" % a
        raise ContractError("condition %r is outside the expression grammar and not in ATOMS (key %r)" % (s, key))

    def parse(self, s):
        s = strip_parens(s)
        if norm(self.prefix + s) in ATOMS:
            return self.leaf(s)
        parts = split_top(s, "||")
        if len(parts) > 1:
            out = self.parse(parts[-1])
            for p in reversed(parts[:-1]):
                out = "(COr %s %s)" % (self.parse(p), out)
            return out
        parts = split_top(s, "&&")
        if len(parts) > 1:
            out = self.parse(parts[-1])
            for p in reversed(parts[:-1]):
                out = "(CAnd %s %s)" % (self.parse(p), out)
            return out
        if s.startswith("!") and not s.startswith("!="):
            return "(CNot %s)" % self.parse(s[1:])
        return self.leaf(s)


def c_or(xs):
    out = xs[-1]
    for x in reversed(xs[:-1]):
        out = "(COr %s %s)" % (x, out)
    return out


# ----------------------------------------------------------------------------- statements
def ret_value(text):
    """the value of the single return statement of a block text, or None"""
    m = re.findall(r"\breturn\b\s*([^;]*);", text)
    if len(m) != 1:
        return None
    return strip_parens(m[0])


def report_categories(text):
    return re.findall(r"\b_vnacal_error\s*\(\s*\w+\s*,\s*VNAERR_([A-Z]+)", text)


# ----------------------------------------------------------------------------- what a piece of C text can write
TYPE_WORDS = set("const static unsigned struct signed volatile register".split())
KEYWORDS = set("if for while switch return sizeof else do case default goto break continue".split())
# calls that neither write to memory reached from an argument nor leave the function
CALL_OK = set("isnan isinf isnormal cabs fabs sqrt strerror va_start va_end assert abort strcmp".split()) | PURE_MACROS
# calls that write to their first argument: allowed only on a local array / local structure
CALL_FIRST_ARG_LOCAL = set("memset memcpy memmove qsort _vnacal_layout".split())


class Decls(object):
    """names declared in a function: by-value scalars / structures, arrays, pointers (parameters included)"""
    def __init__(self):
        self.scalars, self.arrays, self.pointers = set(), set(), set()

    def add_declarators(self, text):
        """text = 'type declarator, declarator ...' of ONE declaration (no trailing ';'); -> True when it is one"""
        t = text.strip()
        cut = len(t)
        depth = 0
        for k, ch in enumerate(t):
            if ch in "([":
                if depth == 0 and ch == "[":
                    cut = min(cut, k)
                depth += 1
            elif ch in ")]":
                depth -= 1
            elif ch == "=" and depth == 0 and t[k:k + 2] != "==" and (k == 0 or t[k - 1] not in "!<>=+-*/|&^"):
                cut = min(cut, k)
            elif ch == "," and depth == 0:
                cut = min(cut, k)
        head = t[:cut]
        if not re.match(r"^[\w\s\*]+$", head):
            return False
        ids = [x for x in re.findall(r"[A-Za-z_]\w*", head)]
        if any(x in KEYWORDS for x in ids):
            return False
        core = [x for x in ids if x not in TYPE_WORDS]
        if len(core) < 2:
            return False
        # split the declarators at top-level commas (the type words belong to the first one)
        parts, depth, last = [], 0, 0
        for k, ch in enumerate(t):
            if ch in "([{":
                depth += 1
            elif ch in ")]}":
                depth -= 1
            elif ch == "," and depth == 0:
                parts.append(t[last:k])
                last = k + 1
        parts.append(t[last:])
        for n, part in enumerate(parts):
            d = re.split(r"=(?!=)", part, 1)[0]
            m = re.search(r"([A-Za-z_]\w*)\s*((?:\[[^\]]*\]\s*)*)$", d.strip())
            if not m:
                return False
            name = m.group(1)
            before = d[:m.start(1)]
            stars = "*" in (before if n else before[before.rfind(core[-2]) + len(core[-2]):] if len(parts) == 1 or n == 0 else before)
            if m.group(2).strip():
                (self.pointers if stars else self.arrays).add(name)
            elif stars:
                self.pointers.add(name)
            else:
                self.scalars.add(name)
        return True


def collect_decls(params, body):
    d = Decls()
    for p in split_args(params):
        p = p.strip()
        if p and p != "void":
            d.add_declarators(p)
    def walk(sts):
        for st in sts:
            if st["kind"] == "simple":
                t = st["text"].strip().rstrip(";")
                if not re.match(r"^(return|goto|break|continue)\b", t):
                    d.add_declarators(t)
            elif st["kind"] == "for":
                init = st["cond"].split(";")[0]
                d.add_declarators(init)
            for key in ("body", "else"):
                walk(st.get(key, []))
    walk(eo.statements(body))
    return d


ASSIGN_RE = re.compile(r"(\+\+|--|<<=|>>=|[+\-*/|&^%]=|=)")


def lvalue_before(t, pos):
    """the lvalue text that ends in front of position pos (an assignment operator), with a leading '*' when it is a
    dereference"""
    k = pos
    while k > 0 and t[k - 1].isspace():
        k -= 1
    end = k
    while k > 0:
        ch = t[k - 1]
        if ch == "]":
            depth = 0
            while k > 0:
                k -= 1
                if t[k] == "]":
                    depth += 1
                elif t[k] == "[":
                    depth -= 1
                    if depth == 0:
                        break
        elif ch.isalnum() or ch == "_" or ch == ".":
            k -= 1
        elif ch == ">" and k > 1 and t[k - 2] == "-":
            k -= 2
        elif ch == ")" :
            # (*p) = .. / cast: give up: not an accepted lvalue
            return None
        elif ch.isspace() and k > 1 and (t[k - 2] in "].>" or t[k - 2].isalnum()) and False:
            k -= 1
        else:
            break
    lv = t[k:end]
    j = k
    while j > 0 and t[j - 1].isspace():
        j -= 1
    if j > 0 and t[j - 1] == "*":
        # prefix star: a dereference unless the token in front of it is a name / number / closing bracket (declaration, product)
        i = j - 1
        while i > 0 and (t[i - 1].isspace() or t[i - 1] == "*"):
            i -= 1
        if i == 0 or not (t[i - 1].isalnum() or t[i - 1] in "_)]"):
            lv = "*" + lv
    return lv


def lvalue_after(t, pos):
    m = re.match(r"\s*(\*?\s*[A-Za-z_]\w*(?:\s*(?:->|\.)\s*\w+|\s*\[[^\]]*\])*)", t[pos:])
    return re.sub(r"\s+", "", m.group(1)) if m else None


def store_ok(lv, decls):
    """may this lvalue be written without touching memory outside the function's own variables?"""
    if lv is None or lv == "":
        return False
    lv = re.sub(r"\s+", "", lv)
    m = re.match(r"^([A-Za-z_]\w*)(.*)$", lv)
    if not m:
        return False            # *p, (..)
    name, rest = m.group(1), m.group(2)
    if rest == "":
        return name in decls.scalars or name in decls.pointers or name in decls.arrays
    if "->" in rest:
        return False
    if rest.startswith("["):
        return name in decls.arrays and "->" not in rest
    if rest.startswith("."):
        return name in decls.scalars
    return False


def is_neutral_text(text, decls):
    """no store outside the function's own scalars / structures / array elements, no call outside the allow-lists"""
    t = re.sub(r"\s+", " ", text)
    for c in re.finditer(r"\b([A-Za-z_]\w*)\s*\(", t):
        name = c.group(1)
        if name in KEYWORDS or name in TYPE_WORDS or name in ("void", "int", "double", "bool", "char", "complex", "long", "float"):
            continue
        if name in CALL_OK:
            continue
        if name in CALL_FIRST_ARG_LOCAL:
            close = eo.match_close(t, c.end() - 1, "(", ")")
            first = split_args(t[c.end():close])[0]
            m = re.match(r"^\s*(?:\(\s*void\s*\*\s*\)\s*)?(&?)\s*([A-Za-z_]\w*)\s*$", first)
            if m and (m.group(2) in decls.arrays or (m.group(1) == "&" and m.group(2) in (decls.scalars | decls.arrays))):
                continue
            return False
        return False
    # prefix / postfix increments and assignments
    masked = re.sub(r"==|!=|<=|>=", "~~", t)
    for m in ASSIGN_RE.finditer(masked):
        op = m.group(1)
        if op in ("++", "--"):
            lv = lvalue_before(masked, m.start())
            if not lv:
                lv = lvalue_after(masked, m.end())
        else:
            lv = lvalue_before(masked, m.start())
        if not store_ok(lv, decls):
            return False
    return True




class Translator(object):
    def __init__(self, srcdir):
        self.srcdir = srcdir
        self.consts = read_constants(srcdir)
        self.texts = {}
        self.done = {}          # function -> (params, steps)
        self.callee_cats = {}
        self._gl, self._gs = set(), set()
        self.errno_reports = []      # (function, category when errno == EINVAL, category otherwise)

    def text(self, path):
        if path not in self.texts:
            with open(os.path.join(self.srcdir, path)) as f:
                self.texts[path] = eo.strip(f.read())
        return self.texts[path]

    def callee_category(self, name):
        if name not in self.callee_cats:
            path, fns = REPORTING_CALLEES[name]
            cats = set()
            for fn in fns:
                _, body = eo.function_body(self.text(path), fn, path)
                cats |= set(report_categories(body))
            if len(cats) != 1:
                raise ContractError("%s: reports with categories %s, expected exactly one" % (name, sorted(cats)))
            self.callee_cats[name] = cats.pop()
        return self.callee_cats[name]

    # ---- one function
    def translate(self, fn, path, fail):
        params, body = eo.function_body(self.text(path), fn, path)
        stmts = eo.statements(body)
        self.decls = collect_decls(params, body)
        locals_ = set()
        struct_locals = set()
        steps = []
        working = False
        label_seen = False
        pending_errno = None

        def emit_work():
            if not steps or steps[-1] != "SWork":
                steps.append("SWork")

        for st in stmts:
            kind = st["kind"]
            text = st["text"].strip()
            if kind == "label":
                pend = [i for i, x in enumerate(steps) if x.startswith("SSkip ") and x.endswith(" " + st["name"].strip())]
                if pend:
                    for i in pend:
                        steps[i] = "%s %d%%nat" % (steps[i][:-len(st["name"].strip()) - 1], len(steps) - i - 1)
                    continue
                label_seen = True
                continue
            if label_seen:
                # clean-up code behind a label: part of the work
                emit_work()
                continue
            if kind == "simple":
                m = re.match(r"^errno\s*=\s*(\w+)\s*;$", text)
                if m and not working:
                    if m.group(1) not in ERRNO:
                        raise ContractError("%s: errno = %s" % (fn, m.group(1)))
                    pending_errno = ERRNO[m.group(1)]
                    continue
                if re.match(r"^return\b", text) and pending_errno is not None:
                    v = ret_value(text)
                    if v not in FVAL:
                        raise ContractError("%s: errno set in front of a successful return" % fn)
                    steps.append("SDirect (CTrue (CInt (1))) %s %s" % (pending_errno, FVAL[v]))
                    pending_errno = None
                    continue
                if re.match(r"^return\b", text):
                    m = re.match(r"^return\s+(\w+)\s*\((.*)\)\s*;$", text, flags=re.S)
                    if m and m.group(1) in self.done:
                        steps.extend(self.splice(m.group(1), m.group(2), None))
                        working = working or "SWork" in steps
                    continue
                if self.neutral(text, locals_, struct_locals):
                    continue
                if re.search(r"\b_vnacal_error\s*\(", text) or any(re.search(r"\b%s\s*\(" % n, text) for n in REPORTING_CALLEES):
                    raise ContractError("%s: a report that is not followed by a failure exit in the same block: %r" % (fn, norm(text)[:120]))
                working = True
                emit_work()
                continue
            if kind == "block":
                if not working:
                    raise ContractError("%s: bare block at top level in front of the work" % fn)
                emit_work()
                continue
            if working:
                # behind the first write: a statement that can leave with a failure value after an argument refusal (a
                # VNAERR_USAGE report, a reporting callee of that category, errno = EINVAL) is a TEST BEHIND A WRITE and is
                # emitted as one - translated when it has an accepted shape, as the atom "test_behind_a_write" otherwise -
                # so that the order fact (contracts_as_found) fails; other failures (numeric, allocation, callees) are work
                exits = re.search(r"\breturn\s*\(?\s*(-\s*1|NULL|HUGE_VAL)\b|\bgoto\s+\w+\s*;", text)
                usage = ("VNAERR_USAGE" in text or re.search(r"\berrno\s*=\s*EINVAL\b", text) or
                         any(re.search(r"\b%s\s*\(" % n, text) and self.callee_category(n) == "USAGE" for n in REPORTING_CALLEES))
                got = None
                if exits and usage:
                    try:
                        got = self.compound(fn, st, fail, locals_)
                    except ContractError:
                        got = None
                    if got is None or not all(g.startswith(("SDirect", "SReport")) for g in got):
                        got = ['SReport (CTrue (CVar "atom:test_behind_a_write")) USAGE %s' % FVAL[fail]]
                elif kind == "if":
                    try:
                        got = self.compound(fn, st, fail, locals_)
                    except ContractError:
                        got = None
                    if got is not None and not all(g.startswith(("SAlloc", "SLate")) for g in got):
                        got = None
            else:
                got = self.compound(fn, st, fail, locals_)
            if got is None and (ALLOC_RE.search(text) or "_vnacommon_spline_calc" in text) and set(report_categories(text)) <= set(["SYSTEM"]):
                steps.append("SAlloc %s" % FVAL[fail])
                working = True
                emit_work()
                continue
            if got is None:
                if not working and re.search(r"\breturn\b|\bgoto\b|_vnacal_error", text):
                    raise ContractError("%s: statement in front of the work not understood: %r" % (fn, norm(text)[:160]))
                working = True
                emit_work()
                continue
            for g in got:
                if g.startswith(("SLate", "SWork", "SAlloc")):
                    working = working or not g.startswith("SAlloc")
                if g == "SWork":
                    emit_work()
                else:
                    steps.append(g)
        self.done[fn] = (params, steps)
        return steps

    def neutral(self, text, locals_=None, struct_locals=None):
        """declaration / computation on the function's own variables that touches no other memory and calls nothing that could"""
        t = text.strip()
        if re.match(r"^(return|goto|break|continue)\b", t):
            return False
        return is_neutral_text(t, self.decls)

    # ---- compound statements in front of the work
    def body_text(self, st):
        return " ".join(x["text"] for x in eo.unwrap(st["body"]))

    def check_body(self, fn, stlist, fail):
        """body of a refusing test -> ("direct", errno, V) | ("report", cat, V) | ("silent", V) | None"""
        body = eo.unwrap(stlist)
        text = " ".join(x["text"] for x in body)
        v = ret_value(text)
        if v is None or v not in FVAL:
            return None
        cats = set(report_categories(text))
        for name in REPORTING_CALLEES:
            if re.search(r"\b%s\s*\(" % name, text):
                cats.add(self.callee_category(name))
        rest = text
        rest = re.sub(r"\b_vnacal_error\s*\((?:[^()]|\((?:[^()]|\([^()]*\))*\))*\)\s*;", " ", rest)
        for name in REPORTING_CALLEES:
            rest = re.sub(r"\b%s\s*\((?:[^()]|\((?:[^()]|\([^()]*\))*\))*\)\s*;" % name, " ", rest)
        rest = re.sub(r"\breturn\b[^;]*;", " ", rest)
        m = re.findall(r"\berrno\s*=\s*(\w+)\s*;", rest)
        rest = re.sub(r"\berrno\s*=\s*\w+\s*;", " ", rest)
        # what is left may only be the if / else skeleton that chooses between messages
        skeleton = re.sub(r"\b(if|else)\b|\([^()]*\)|[{}\s]", "", rest)
        if skeleton:
            return None
        if cats and m:
            return None
        if len(cats) == 2:
            # if (errno == EINVAL) { report(A); } else { report(B); } return V;  - the failure of a callee that has left its
            # reason in errno, reported in the category that goes with it (fix DI93)
            mm = re.match(r"^if\(errno==EINVAL\)\{_vnacal_error\(\w+,VNAERR_([A-Z]+),[^;]*;\}else\{_vnacal_error\(\w+,VNAERR_([A-Z]+),[^;]*;\}"
                          r"return(-1|NULL|HUGE_VAL);$", norm(text))
            if mm:
                return ("errno_report", (mm.group(1), mm.group(2)), v)
        if cats:
            if len(cats) != 1:
                raise ContractError("%s: one refusing test reports with several categories %s" % (fn, sorted(cats)))
            calls = len(report_categories(text)) + sum(len(re.findall(r"\b%s\s*\(" % n, text)) for n in REPORTING_CALLEES)
            branches = len(re.findall(r"\belse\b", text)) + 1
            if calls != branches:
                raise ContractError("%s: %d reports on %d branches of one refusing test" % (fn, calls, branches))
            return ("report", cats.pop(), v)
        if m:
            if len(m) != 1 or m[0] not in ERRNO:
                raise ContractError("%s: errno assignment %s not understood" % (fn, m))
            return ("direct", ERRNO[m[0]], v)
        return ("silent", v)

    def splice(self, callee, argtext, value, cond_only=False):
        """the steps of an already translated function with its parameters replaced by the argument texts"""
        params, steps = self.done[callee]
        pnames = [re.findall(r"[A-Za-z_]\w*", p)[-1] for p in params.split(",")]
        args = [a.strip() for a in split_args(argtext)]
        if len(args) != len(pnames):
            raise ContractError("%s called with %d arguments, %d parameters" % (callee, len(args), len(pnames)))
        out = []
        for s in steps:
            for p, a in zip(pnames, args):
                if p != a:
                    s = re.sub(r'(CVar ")%s((?:->|\.)[^"]*)?"' % re.escape(p), lambda m: '%s%s%s"' % (m.group(1), norm(a), m.group(2) or ""), s)
            if value is not None:
                s = re.sub(r"\bV(M1|NULL|HUGE)\b(?=\)?$)", FVAL[value], s)
            out.append(s)
        return out

    def compound(self, fn, st, fail, locals_):
        kind = st["kind"]
        cp = Cond(self.consts)
        if kind == "if":
            cond = st["cond"]
            body = self.body_text(st)
            # allocation exit
            if ALLOC_RE.search(cond) and not st["else"]:
                got = self.check_body(fn, st["body"], fail)
                if got and got[0] == "report" and got[1] == "SYSTEM":
                    return ["SAlloc %s" % FVAL[got[2]]]
                return None
            # call of a translated function whose refusals are all silent: splice
            m = re.match(r"^\(\s*(\w+)\s*=\s*(\w+)\s*\((.*)\)\s*\)\s*==\s*NULL$", cond.strip(), flags=re.S)
            if m and m.group(2) in self.done and not st["else"]:
                callee = m.group(2)
                got = self.check_body(fn, st["body"], fail)
                csteps = self.done[callee][1]
                if got is None:
                    return None
                if not all(s.startswith("SDirect") for s in csteps if not s.startswith("SExit")):
                    raise ContractError("%s: callee %s has steps that are not silent refusals" % (fn, callee))
                if got[0] == "report":
                    # the caller reports: one step, refused when any test of the callee refuses
                    sp = self.splice(callee, m.group(3), None)
                    exits = [s for s in sp if s.startswith("SExit")]
                    if exits:
                        raise ContractError("%s: callee %s with an early exit under a reporting test" % (fn, callee))
                    conds = [re.match(r"^SDirect (.*) E_\w+ V\w+$", s).group(1) for s in sp]
                    return ["SReport %s %s %s" % (c_or(conds), got[1], FVAL[got[2]])]
                v = got[-1]
                sp = self.splice(callee, m.group(3), v)
                if got[0] == "direct":
                    # the caller sets errno itself: same class required (else the callee's value would be overwritten)
                    sp = [re.sub(r" E_\w+ (V\w+)$", " %s \\1" % got[1], s) if s.startswith("SDirect") else s for s in sp]
                # an early successful exit of the callee (ci == -1 of _get_property_root) is not an exit of the caller:
                # "not (exit condition) and (later refusals)"
                out = []
                guard = None
                for s in sp:
                    if s.startswith("SExit"):
                        g = s[len("SExit "):]
                        guard = g if guard is None else "(COr %s %s)" % (guard, g)
                    elif guard is not None:
                        mm = re.match(r"^SDirect (.*) (E_\w+) (V\w+)$", s)
                        out.append("SDirect (CAnd (CNot %s) %s) %s %s" % (guard, mm.group(1), mm.group(2), mm.group(3)))
                    else:
                        out.append(s)
                return out
            m = re.match(r"^\(\s*(\w+)\s*=\s*(\w+)\s*\((.*)\)\s*\)\s*!=\s*NULL$", cond.strip(), flags=re.S)
            if m and m.group(2) in self.done and not st["else"]:
                v = ret_value(body)
                sp = self.splice(m.group(2), m.group(3), None)
                if v is None or v in FVAL or not all(x.startswith("SDirect") for x in sp) or report_categories(body):
                    return None
                conds = [re.match(r"^SDirect (.*) E_\w+ V\w+$", x).group(1) for x in sp]
                return ["SExit (CNot %s)" % c_or(conds)]
            # late failure of a working callee
            m = re.match(r"^\(?\s*(?:\(\s*\w+\s*=\s*)?(\w+)\s*\(", cond.strip())
            if m and m.group(1) in LATE_CALLEES and not st["else"]:
                v = ret_value(body)
                if v in FVAL:
                    return ["SLate %s" % FVAL[v]]
                if re.search(r"\bgoto\s+out\s*;", body):
                    return ["SLate %s" % FVAL[fail]]
                return None
            # test whose refusal is reported by a callee: if (c && CALLEE(..) == -1) return V;
            for name in REPORTING_CALLEES:
                if re.search(r"\b%s\s*\(" % name, cond) and not st["else"]:
                    v = ret_value(body)
                    if v in FVAL and not report_categories(body):
                        return ["SReport %s %s %s" % (cp.parse(cond), self.callee_category(name), FVAL[v])]
                    return None
            if re.search(r"\b(?!isnan\b)[a-z_]\w*\s*\(", re.sub(r"\b(?:%s)\s*\(" % "|".join(PURE_MACROS), "(", cond)) and norm(cond) not in ATOMS:
                return None
            # early successful exit
            if not st["else"]:
                v = ret_value(body)
                if v is not None and v not in FVAL and not report_categories(body):
                    return ["SExit %s" % cp.parse(cond)]
            # if (c) goto label;  (a forward jump over tests, vnacal_apply: frequencies == 0 skips the range tests)
            if not st["else"] and re.match(r"^goto\s+\w+\s*;$", body.strip()):
                return ["SSkip %s %s" % (cp.parse(cond), re.match(r"^goto\s+(\w+)", body.strip()).group(1))]
            # plain refusing test
            if not st["else"]:
                got = self.check_body(fn, st["body"], fail)
                if got is not None:
                    c = cp.parse(cond)
                    if got[0] == "direct":
                        return ["SDirect %s %s %s" % (c, got[1], FVAL[got[2]])]
                    if got[0] == "report":
                        return ["SReport %s %s %s" % (c, got[1], FVAL[got[2]])]
                    return None
            # guard around tests: if (g) { tests } [else if (c) { report; return }]
            return self.guarded(fn, st, fail, "")
        if kind == "for":
            return self.guarded(fn, st, fail, "")
        if kind == "switch":
            return self.switch(fn, st, fail)
        return None

    def guarded(self, fn, st, fail, prefix):
        """if (g) { ... } / for (...) { ... } that contains nothing but refusing tests (and local computations):
        one SReport per test, its condition the ATOM of prefix|header|test"""
        kind = st["kind"]
        head = ("if(%s)" if kind == "if" else "for(%s)") % norm(st["cond"])
        if not is_neutral_text(st["cond"], self.decls):
            return None
        pre = prefix + head + "|"
        out = []
        for s in eo.unwrap(st["body"]):
            if s["kind"] == "simple":
                t = s["text"].strip()
                if self.neutral(t):
                    continue            # declaration / computation on the function's own variables
                if re.match(r"^\+\+\s*\w+\s*;$", t):
                    continue
                return None
            if s["kind"] in ("if", "for"):
                if neutral_compound(s, self.decls):
                    continue
                if s["kind"] == "if" and not s["else"]:
                    callee = [n for n in REPORTING_CALLEES if re.search(r"\b%s\s*\(" % n, s["cond"])]
                    if callee and ret_value(" ".join(x["text"] for x in eo.unwrap(s["body"]))) in FVAL:
                        key = norm(pre + s["cond"])
                        if key not in ATOMS:
                            raise ContractError("%s: test inside a loop / guard is not in ATOMS: %r" % (fn, key))
                        v = ret_value(" ".join(x["text"] for x in eo.unwrap(s["body"])))
                        out.append('SReport (CTrue (CVar "%s")) %s %s' % (ATOMS[key], self.callee_category(callee[0]), FVAL[v]))
                        continue
                    got = self.check_body(fn, s["body"], fail)
                    if got is not None and got[0] == "errno_report":
                        if not re.search(r"\b(%s)\s*\(" % "|".join(ERRNO_CALLEES), s["cond"]):
                            raise ContractError("%s: errno-dependent report under a test that calls none of %s" % (fn, sorted(ERRNO_CALLEES)))
                        self.errno_reports.append((fn, got[1][0], got[1][1]))
                        out.append("SAlloc %s" % FVAL[got[2]])
                        continue
                    if got is not None and got[0] == "report" and got[1] == "SYSTEM":
                        return None
                    if got is not None and got[0] == "report":
                        key = norm(pre + s["cond"])
                        if key not in ATOMS:
                            raise ContractError("%s: test inside a loop / guard is not in ATOMS: %r" % (fn, key))
                        out.append('SReport (CTrue (CVar "%s")) %s %s' % (ATOMS[key], got[1], FVAL[got[2]]))
                        continue
                inner = self.guarded(fn, s, fail, pre)
                if inner is None:
                    return None
                out.extend(inner)
                continue
            return None
        if kind == "if" and st["else"] and neutral_compound(st["else"][0], self.decls):
            return out or None
        if kind == "if" and st["else"]:
            els = st["else"][0]
            if els["kind"] != "if" or els["else"]:
                return None
            got = self.check_body(fn, els["body"], fail)
            if got is None or got[0] != "report":
                return None
            c = Cond(self.consts).parse(els["cond"])
            g = Cond(self.consts).parse(st["cond"])
            out.append("SReport (CAnd (CNot %s) %s) %s %s" % (g, c, got[1], FVAL[got[2]]))
        return out or None

    def switch(self, fn, st, fail):
        """switch (x) { case A: case B: if (c) { report; return V; } break; ... default: report; return V; }"""
        var = Cond(self.consts).term(st["cond"])
        if var is None:
            return None
        body = eo.unwrap(st["body"])
        arms = []
        labels = []
        all_labels = []
        cur = []
        for s in body:
            if s["kind"] == "label":
                if cur:
                    arms.append((labels, cur))
                    labels, cur = [], []
                labels.append(s["name"])
            else:
                cur.append(s)
        if cur:
            arms.append((labels, cur))
        out = []
        carried = []                  # labels of arms that fall through into the next one
        default = None
        for labels, sts in arms:
            labs = carried + labels
            texts = [x["text"].strip() for x in sts]
            falls = not (texts and re.match(r"^(break|return\b)", texts[-1]))
            core = [x for x in sts if not re.match(r"^break\s*;$", x["text"].strip())]
            if "default" in [l.strip() for l in labs]:
                if len(labs) != 1:
                    raise ContractError("%s: default shares its arm" % fn)
                got = self.check_body(fn, [{"kind": "block", "text": "", "body": core}], fail)
                if got is None or got[0] != "report":
                    return None
                default = (got[1], got[2])
                continue
            vals = []
            for l in labs:
                m = re.match(r"^case\s+(\w+)$", l.strip())
                if not m or m.group(1) not in self.consts:
                    raise ContractError("%s: case label %r has no value" % (fn, l))
                vals.append(self.consts[m.group(1)])
            tests = [x for x in core if x["kind"] == "if"]
            others = [x for x in core if x["kind"] != "if"]
            for o in others:
                if not re.match(r"^type\s*=\s*\w+\s*;$", o["text"].strip()):
                    return None
            if falls:
                if tests:
                    return None
                carried = labs
                continue
            carried = []
            all_labels.extend(vals)
            member = c_or(["(CCmp OEq %s (CInt (%d)))" % (var, v) for v in vals])
            for tst in tests:
                if tst["else"]:
                    return None
                got = self.check_body(fn, tst["body"], fail)
                if got is None or got[0] != "report":
                    return None
                out.append("SReport (CAnd %s %s) %s %s" % (member, Cond(self.consts).parse(tst["cond"]), got[1], FVAL[got[2]]))
        if default is None:
            return None
        none_of = c_or(["(CCmp OEq %s (CInt (%d)))" % (var, v) for v in all_labels])
        out.append("SReport (CNot %s) %s %s" % (none_of, default[0], FVAL[default[1]]))
        return out


NEUTRAL_CALLEES = set("memset memcpy qsort assert abort MIN MAX sizeof".split()) | PURE_MACROS


def neutral_compound(st, decls):
    """a compound statement that leaves neither the function nor a trace outside the function's own variables: no return /
    goto / report, every store into a declared scalar / structure / array element, every call on the allow-lists"""
    t = st["text"]
    if re.search(r"\breturn\b|\bgoto\b|_vnacal_error|\berrno\b", t) or any(re.search(r"\b%s\s*\(" % n, t) for n in REPORTING_CALLEES):
        return False
    return is_neutral_text(t, decls)


def strip_keep_chars(text):
    t = re.sub(r"/\*.*?\*/", " ", text, flags=re.S)
    t = re.sub(r"//[^\n]*", " ", t)
    t = re.sub(r'"(?:\\.|[^"\\])*"', '""', t)
    t = re.sub(r"(?m)^[ \t]*#[^\n]*(?:\\\n[^\n]*)*", " ", t)
    return t


def translate_add_common(tr):
    """_vnacal_new_add_common: failures leave through 'goto out' (int rc = -1; ...; rc = 0; out: clean-up; return rc;).
    -> (steps of the argument validation in front of the first allocation followed by the two tests made on the
        not yet linked measurement, type table of the switch that sets ptype / min_b_rows / min_b_columns)"""
    fn, path = "_vnacal_new_add_common", "vnacal_new_add_common.c"
    with open(os.path.join(tr.srcdir, path)) as f:
        text = strip_keep_chars(f.read())
    params, body = eo.function_body(text, fn, path)
    nb = norm(body)
    if "intrc=-1;" not in nb or nb.count("rc=0;") != 1 or not re.search(r"rc=0;out:", nb) or not nb.endswith("returnrc;"):
        raise ContractError("%s: the 'rc = -1 ... rc = 0; out: ... return rc;' frame changed" % fn)
    body = re.sub(r"\bgoto\s+out\s*;", "return -1;", body)
    stmts = eo.statements(body)
    tr.decls = collect_decls(params, body)
    steps, table = [], None
    locals_, structs = set(), set()
    i = 0
    while i < len(stmts):
        st = stmts[i]
        text_ = st["text"].strip()
        if st["kind"] == "if" and ALLOC_RE.search(st["cond"]):
            break
        i += 1
        if st["kind"] == "simple":
            if tr.neutral(text_, locals_, structs):
                continue
            raise ContractError("%s: statement %r in the argument validation is not a declaration / local computation" % (fn, norm(text_)[:120]))
        if st["kind"] == "switch" and table is None and norm(st["cond"]) == "VL_TYPE(vlp)" and not re.search(r"return|_vnacal_error", text_):
            table = []
            labels = []
            assigns = {}
            for x in eo.unwrap(st["body"]):
                t = norm(x["text"])
                if x["kind"] == "label":
                    if assigns:
                        raise ContractError("%s: switch arm without break" % fn)
                    labels.append(x["name"].strip())
                elif t == "break;":
                    vals = []
                    for l in labels:
                        m = re.match(r"^case\s+(\w+)$", l)
                        if not m or m.group(1) not in tr.consts:
                            raise ContractError("%s: case label %r" % (fn, l))
                        vals.append(tr.consts[m.group(1)])
                    if set(assigns) != set(["ptype", "min_b_rows", "min_b_columns"]):
                        raise ContractError("%s: switch arm assigns %s" % (fn, sorted(assigns)))
                    for v in vals:
                        table.append((v, ord(assigns["ptype"][1]), assigns["min_b_rows"], assigns["min_b_columns"]))
                    labels, assigns = [], {}
                elif t == "abort();":
                    labels = []
                else:
                    m = re.match(r"^(\w+)=('[A-Z]'|\w+);$", t)
                    if not m:
                        raise ContractError("%s: statement %r in the type switch" % (fn, t))
                    assigns[m.group(1)] = m.group(2)
            continue
        if neutral_compound(st, tr.decls):
            continue
        got = tr.compound(fn, st, "-1", locals_)
        if got is None or not all(g.startswith("SReport") for g in got):
            raise ContractError("%s: statement %r of the argument validation not understood" % (fn, norm(text_)[:160]))
        steps.extend(got)
    if table is None:
        raise ContractError("%s: type switch not found" % fn)
    nprefix = len(steps)
    # the tests made while the new measurement is filled in (it is linked only after them)
    tail = []
    for st in stmts[i:]:
        t = st["text"]
        if st["kind"] == "label":
            break
        if "VNAERR_MATH" in t:
            if st["kind"] != "if" or norm(st["cond"]) != "a_matrix==NULL" or set(report_categories(t)) - set(["MATH"]):
                raise ContractError("%s: the 'a' matrix division no longer hangs under if (a_matrix == NULL) ... else" % fn)
            tail.append('SReport (CAnd (CCmp ONe (CVar "a_matrix") CNull) (CTrue (CVar "atom:add_a_matrix_singular"))) MATH VM1')
        elif "_vnacal_new_err_need_full_s" in t:
            got = tr.guarded(fn, st, "-1", "")
            if not got or len(got) != 1:
                raise ContractError("%s: the full-S test of T16 / U16 not understood" % fn)
            tail.extend(got)
        elif set(report_categories(t)) - set(["SYSTEM"]):
            raise ContractError("%s: unexpected report behind the argument validation: %r" % (fn, norm(t)[:120]))
    return steps + tail, nprefix, table


def split_args(s):
    parts, depth, last = [], 0, 0
    for i, ch in enumerate(s):
        if ch in "([":
            depth += 1
        elif ch in ")]":
            depth -= 1
        elif ch == "," and depth == 0:
            parts.append(s[last:i])
            last = i + 1
    parts.append(s[last:])
    return parts


# ----------------------------------------------------------------------------- _vnaerr_verror epilogue
def verror_paths(srcdir):
    """Effect sequences behind the switch of _vnaerr_verror: [(path name, [effects])]; effects: ESet (errno = new_errno),
    ECall (the error function is called), EClobber (a call that may change errno: vasprintf, free, strerror)."""
    with open(os.path.join(srcdir, "vnaerr_verror.c")) as f:
        t = eo.strip(f.read())
    _, body = eo.function_body(t, "_vnaerr_verror", "vnaerr_verror.c")
    stmts = eo.statements(body)
    k = [i for i, s in enumerate(stmts) if s["kind"] == "switch"]
    if len(k) != 1:
        raise ContractError("vnaerr_verror.c: expected one switch")
    rest = stmts[k[0] + 1:]

    def simple(text):
        t = norm(text)
        if t == "errno=new_errno;":
            return ["ESet"]
        if re.match(r"^\(\*error_fn\)\(.*\);$", t):
            # strerror leaves errno alone when it succeeds (POSIX); the error function itself may change errno: ECall
            return ["ECall"]
        if re.match(r"^free\(.*\);$", t):
            return ["EClobber"]
        raise ContractError("vnaerr_verror.c: statement %r in the epilogue not understood" % t)

    def walk(sts, fn_given, vas_fails):
        """-> (effects, jumped) following the path chosen by the two flags"""
        eff = []
        for s in sts:
            if s["kind"] == "label":
                continue
            if s["kind"] == "simple":
                t = norm(s["text"])
                if t == "gotoout;":
                    return eff, True
                eff += simple(s["text"])
                continue
            if s["kind"] == "if":
                c = norm(s["cond"])
                if c == "error_fn!=NULL":
                    take = fn_given
                elif c == "vasprintf(&message,format,ap)==-1":
                    eff.append("EClobber")
                    take = vas_fails
                else:
                    raise ContractError("vnaerr_verror.c: condition %r in the epilogue not understood" % c)
                if s["else"]:
                    raise ContractError("vnaerr_verror.c: else in the epilogue")
                if take:
                    e2, jumped = walk(eo.unwrap(s["body"]), fn_given, vas_fails)
                    eff += e2
                    if jumped:
                        # continue at the label out:
                        idx = [i for i, x in enumerate(rest) if x["kind"] == "label" and x["name"] == "out"]
                        if len(idx) != 1:
                            raise ContractError("vnaerr_verror.c: label out not found")
                        if jumped != "done":
                            e3, _ = walk(rest[idx[0] + 1:], fn_given, vas_fails)
                            eff += e3
                        return eff, "done"
                continue
            raise ContractError("vnaerr_verror.c: %s statement in the epilogue" % s["kind"])
        return eff, False

    paths = []
    for name, fn_given, vas_fails in (("reported", True, False), ("format_failed", True, True), ("no_error_fn", False, False)):
        eff, _ = walk(rest, fn_given, vas_fails)
        paths.append((name, eff))
    return paths


# ----------------------------------------------------------------------------- apply wrappers
def apply_wrappers(tr):
    """vnacal_apply / vnacal_apply_m: nothing but vaa.<field> = <parameter or constant>; return _vnacal_apply_common(vaa);
    -> {wrapper: {field: value text}}"""
    out = {}
    for fn, path in APPLY_WRAPPERS:
        params, body = eo.function_body(tr.text(path), fn, path)
        fields = {}
        for st in eo.statements(body):
            t = norm(st["text"])
            if st["kind"] != "simple":
                raise ContractError("%s: compound statement in a wrapper" % fn)
            if t in ("vnacal_apply_args_tvaa;", "(void)memset((void*)&vaa,0,sizeof(vaa));", "return_vnacal_apply_common(vaa);"):
                continue
            m = re.match(r"^vaa\.(vaa_\w+)=(?:\([^()]*\))?(\w+|'c');$", t)
            if not m:
                raise ContractError("%s: statement %r is not an assignment to the argument structure" % (fn, t))
            fields[m.group(1)] = m.group(2)
        out[fn] = fields
    return out


# ----------------------------------------------------------------------------- driver
def translate(srcdir):
    tr = Translator(srcdir)
    contracts = []
    for fn, path, fail in CONTRACT_FUNCS:
        try:
            steps = tr.translate(fn, path, fail)
        except eo.OrderError as e:
            raise ContractError("%s: %s" % (fn, e))
        contracts.append((fn, fail, steps))
    add_steps, add_prefix, add_table = translate_add_common(tr)
    return {"contracts": contracts, "verror": verror_paths(srcdir), "wrappers": apply_wrappers(tr),
            "errno_reports": list(tr.errno_reports), "add_common": add_steps, "add_prefix": add_prefix, "add_table": add_table,
            "max_precision": tr.consts.get("VNACAL_MAX_PRECISION"), "vc_magic": tr.consts["VC_MAGIC"], "vn_magic": tr.consts["VN_MAGIC"]}


def emit(info):
    L = ["(* GENERATED by translate/contracts.py from the C text of the API functions named below and from",
         "   src/vnaerr_verror.c.  Do not edit. *)",
         "Require Import List ZArith QArith Bool String.",
         "Import ListNotations.",
         "Require Import LV.Err.ErrBase LV.Err.New2Base.",
         "Open Scope Z_scope.",
         "Open Scope string_scope.",
         ""]
    for fn, fail, steps in info["contracts"]:
        L.append("Definition gen_contract_%s : list cstep :=" % fn.lstrip("_"))
        L.append("  [" + ";\n   ".join(steps) + "].")
        L.append("")
    L.append("(* every translated function with its documented failure value *)")
    L.append("Definition gen_contracts : list (string * fval * list cstep) :=")
    L.append("  [" + ";\n   ".join('("%s", %s, gen_contract_%s)' % (fn, FVAL[fail], fn.lstrip("_")) for fn, fail, _ in info["contracts"]) + "].")
    L.append("")
    L.append("(* _vnacal_new_add_common: the argument validation in front of the first allocation (gen_add_common_prefix steps) and")
    L.append("   the tests made while the not yet linked measurement is filled in; the switch that sets ptype / min_b_rows /")
    L.append("   min_b_columns per type: (type, ptype, min_b_rows, min_b_columns) *)")
    L.append("Definition gen_contract_vnacal_new_add_common : list cstep :=")
    L.append("  [" + ";\n   ".join(info["add_common"]) + "].")
    L.append("Definition gen_add_common_prefix : nat := %d%%nat." % info["add_prefix"])
    L.append("Definition gen_add_type_table : list (Z * (Z * string * string)) :=")
    L.append("  [" + "; ".join('(%d, (%d, "%s", "%s"))' % t for t in info["add_table"]) + "].")
    L.append("")
    L.append("(* failures of a callee that leaves its reason in errno, reported as 'if (errno == EINVAL) report(c1) else report(c2)'")
    L.append("   in front of the first write (they are SAlloc positions in the lists above): (function, c1, c2) *)")
    L.append("Definition gen_errno_reports : list (string * category * category) :=")
    L.append("  [" + "; ".join('("%s", %s, %s)' % r for r in info["errno_reports"]) + "].")
    L.append("")
    L.append("(* the paths through the epilogue of _vnaerr_verror *)")
    for name, eff in info["verror"]:
        L.append("Definition gen_verror_%s : list veffect := [%s]." % (name, "; ".join(eff)))
    L.append("")
    w = info["wrappers"]
    L.append("(* vnacal_apply_m hands these constants to _vnacal_apply_common for the 'a' matrix *)")
    L.append("Definition gen_apply_m_a_null : bool := %s." % ("true" if w["vnacal_apply_m"].get("vaa_a_matrix") == "NULL" else "false"))
    L.append("Definition gen_max_precision : Z := %d." % info["max_precision"])
    L.append("Definition gen_vc_magic : Z := %d." % info["vc_magic"])
    L.append("Definition gen_vn_magic : Z := %d." % info["vn_magic"])
    L.append("")
    return "\n".join(L)


def digest(info):
    import zlib
    return zlib.crc32(emit(info).encode()) & 0xffffffff


def generate(ctx):
    import vplib
    info = translate(os.path.join(ctx.repo, "src"))
    ctx.write_if_changed(os.path.join(vplib.COQDIR, "Gen", "ContractGen.v"), emit(info))
    return info


if __name__ == "__main__":
    import sys
    print(emit(translate(sys.argv[1] if len(sys.argv) > 1 else "/repo/src")))
