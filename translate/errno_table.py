"""T3: category -> errno table of the error reporter, and the few prologue facts C11's model takes
from the C text.

Sources and accepted idioms (anything else raises TranslateError = broken tie):

  src/vnaerr.h          typedef enum vnaerr_category { VNAERR_A, VNAERR_B, ... } vnaerr_category_t;
                        (enumerators without initialisers; each must be a category known to
                        coq/Err/ErrBase.v)
  src/vnaerr_verror.c   void _vnaerr_verror(error_fn, error_arg, category, format, ap)
                          switch (category) { (case VNAERR_X: | default:)+ new_errno = E; break; ... }
                          E in { errno, 0, EINVAL, EDOM, EBADMSG, ENOENT, ENOPROTOOPT, ENOSYS }
                          if (error_fn != NULL) { if (vasprintf(...) == -1) { errno = new_errno;
                              (*error_fn)(strerror(new_errno), error_arg, category); goto out; }
                            errno = new_errno; (*error_fn)(message, error_arg, category); }
                          out: free(message); errno = new_errno;
  src/vnaerr.3          the tbl table "Category;errno" (the documented mapping, also emitted so that
                        the hand-copied doc_errno of ErrBase.v is compared with the manual's text)
  src/vnadata_{get,set}_{z0,fz0}.c
                        ports = MAX(vdp->vd_rows, vdp->vd_columns); if (port < 0 || port OP ports)
                        with OP in { >, >= }   (candidate D4: '>' accepts port == ports)

  src/vnacal_new_add_common.c
                        one loop "full_s_matrix[s_cell_map[s_cell]] = _vnacal_new_get_parameter(function, vnp,
                        s_matrix[s_cell])"; gen_add_common_prevalidates = a loop calling
                        _vnacal_new_check_parameter(function, vnp, s_matrix[s_cell]) precedes it and the
                        _vnacal_new_err_need_full_s test lies between the two (repair of D17)

  src/vnacal_new_parameter.c
                        _vnacal_new_check_parameter and _vnacal_new_get_parameter: declarations, then - in this order -
                          if (parameter >= 0 && hash_lookup(...) != NULL) return <found>;
                          if ((vpmrp = _vnacal_get_parameter(vcp, parameter)) == NULL) { _vnacal_error(USAGE); return <fail>; }
                          if (vnp->vn_frequencies_valid && vnp->vn_frequencies > 0) { if (check_single_frequency_range(function,
                              vnp, vnp->vn_frequency_vector[0], vnp->vn_frequency_vector[vnp->vn_frequencies - 1], vpmrp) == -1)
                              return <fail>; }
                          [ if (<type of vpmrp> == VNACAL_CORRELATED) { the function calls ITSELF on
                              VNACAL_GET_PARAMETER_INDEX(VNACAL_GET_PARAMETER_OTHER(vpmrp)) and fails when that fails } ]
                        then "return 0;" (check: nothing else, in particular no insertion) / the allocation and hash_insert (get).
                        gen_check_parameter_recurses / gen_get_parameter_recurses = the bracketed statement is there
                        (seeded change C11-4 removes it from the check: the validation pass of _vnacal_new_add_common
                        then no longer sees an invalid correlate)

  src/vnacal_internal.h  #define VNACAL_F_EXTRAPOLATION <decimal>, #define VNACAL_PREDEFINED_PARAMETERS <n>
  clean-up paths         the calls made after a failure has been reported, before the function returns:
                        vnadata_save.c "out:", vnacal_save.c "error:", vnacal_load.c "error:" (label to the end of
                        the function), vnadata_load.c (between the call of vnadata_load_common and "if (rv == -1)")
                        -> gen_cleanup_calls (function, callee names); none of these paths may assign errno

  order of checks and writes, handle tests
                        translate/errno_orders.py (imported here): for every modelled API function the order of its
                        handle tests, refusing argument checks, early exits and writes (gen_order_<f>) and whether its NULL
                        test precedes every dereference / the magic number is tested (gen_handle_<f>); see that file

Output: coq/Gen/ErrnoGen.v (never committed).
"""
import os
import re

import errno_orders


class TranslateError(Exception):
    pass


CATEGORIES = ["SYSTEM", "USAGE", "VERSION", "SYNTAX", "WARNING", "MATH", "INTERNAL"]
ERRNO_NAMES = {"errno": "E_SYS", "0": "E_ZERO", "EINVAL": "E_INVAL", "EDOM": "E_DOM",
               "EBADMSG": "E_BADMSG", "ENOENT": "E_NOENT", "ENOPROTOOPT": "E_NOPROTOOPT",
               "ENOSYS": "E_NOSYS"}
MAN_ERRNO = {"system errno": "E_SYS", "0": "E_ZERO", "EINVAL": "E_INVAL", "EDOM": "E_DOM",
             "EBADMSG": "E_BADMSG", "ENOENT": "E_NOENT", "ENOPROTOOPT": "E_NOPROTOOPT",
             "ENOSYS": "E_NOSYS"}
Z0_FILES = ["vnadata_get_z0.c", "vnadata_set_z0.c", "vnadata_get_fz0.c", "vnadata_set_fz0.c"]


def strip_comments(s):
    s = re.sub(r"/\*.*?\*/", " ", s, flags=re.S)
    return re.sub(r"//[^\n]*", " ", s)


def read(path):
    with open(path) as f:
        return f.read()


def parse_enum(text):
    t = strip_comments(text)
    m = re.search(r"typedef\s+enum\s+vnaerr_category\s*\{(.*?)\}\s*vnaerr_category_t\s*;", t, flags=re.S)
    if not m:
        raise TranslateError("vnaerr.h: enum vnaerr_category not found")
    names = []
    for item in m.group(1).split(","):
        item = item.strip()
        if not item:
            continue
        mm = re.match(r"^VNAERR_([A-Z]+)$", item)
        if not mm:
            raise TranslateError("vnaerr.h: enumerator %r is not a plain VNAERR_<NAME>" % item)
        if mm.group(1) not in CATEGORIES:
            raise TranslateError("vnaerr.h: category VNAERR_%s is not known to the model" % mm.group(1))
        if mm.group(1) in names:
            raise TranslateError("vnaerr.h: duplicate enumerator VNAERR_%s" % mm.group(1))
        names.append(mm.group(1))
    return [(n, i) for i, n in enumerate(names)]


def matching_brace(t, start):
    depth = 0
    for i in range(start, len(t)):
        if t[i] == "{":
            depth += 1
        elif t[i] == "}":
            depth -= 1
            if depth == 0:
                return i
    raise TranslateError("unbalanced braces")


def parse_switch(text):
    """-> (dict category -> errno class, default class or None)"""
    t = strip_comments(text)
    m = re.search(r"void\s+_vnaerr_verror\s*\(\s*vnaerr_error_fn_t\s*\*\s*error_fn\s*,\s*void\s*\*\s*error_arg\s*,"
                  r"\s*vnaerr_category_t\s+category\s*,\s*const\s+char\s*\*\s*format\s*,\s*va_list\s+ap\s*\)\s*\{", t)
    if not m:
        raise TranslateError("vnaerr_verror.c: signature of _vnaerr_verror changed")
    body_end = matching_brace(t, m.end() - 1)
    body = t[m.end():body_end]
    sw = re.search(r"switch\s*\(\s*category\s*\)\s*\{", body)
    if not sw:
        raise TranslateError("vnaerr_verror.c: switch (category) not found")
    sw_end = matching_brace(body, sw.end() - 1)
    arms_text = body[sw.end():sw_end]
    after = body[sw_end + 1:]
    if re.search(r"\bnew_errno\s*=", body[:sw.start()]) or len(re.findall(r"\bnew_errno\s*=[^=]", after)):
        raise TranslateError("vnaerr_verror.c: new_errno assigned outside the switch")
    toks = re.findall(r"case\s+VNAERR_[A-Z]+\s*:|default\s*:|new_errno\s*=\s*[A-Za-z0-9_]+\s*;|break\s*;|\S+", arms_text)
    table = {}
    default = None
    labels = []
    i = 0
    while i < len(toks):
        tk = toks[i]
        mcase = re.match(r"case\s+VNAERR_([A-Z]+)\s*:", tk)
        if mcase:
            labels.append(mcase.group(1))
            i += 1
        elif re.match(r"default\s*:", tk):
            labels.append(None)
            i += 1
        else:
            ma = re.match(r"new_errno\s*=\s*([A-Za-z0-9_]+)\s*;", tk)
            if not ma or not labels:
                raise TranslateError("vnaerr_verror.c: unexpected statement in the switch: %r" % tk)
            if i + 1 >= len(toks) or not re.match(r"break\s*;", toks[i + 1]):
                raise TranslateError("vnaerr_verror.c: switch arm does not end in break")
            val = ma.group(1)
            if val not in ERRNO_NAMES:
                raise TranslateError("vnaerr_verror.c: errno value %s is outside the documented vocabulary" % val)
            for lab in labels:
                if lab is None:
                    if default is not None:
                        raise TranslateError("vnaerr_verror.c: two default arms")
                    default = ERRNO_NAMES[val]
                else:
                    if lab not in CATEGORIES:
                        raise TranslateError("vnaerr_verror.c: unknown category VNAERR_%s" % lab)
                    if lab in table:
                        raise TranslateError("vnaerr_verror.c: duplicate case VNAERR_%s" % lab)
                    table[lab] = ERRNO_NAMES[val]
            labels = []
            i += 2
    if labels:
        raise TranslateError("vnaerr_verror.c: dangling case labels")
    # exactly-one-callback structure of the rest of the function
    a = re.sub(r"\s+", " ", after)
    pat = (r"if \( ?error_fn != NULL ?\) \{ if \( ?vasprintf ?\( ?&message, format, ap ?\) == -1 ?\) \{ "
           r"errno = new_errno; \( ?\* ?error_fn ?\) ?\( ?strerror ?\( ?new_errno ?\), error_arg, category ?\); "
           r"goto out; \} errno = new_errno; \( ?\* ?error_fn ?\) ?\( ?message, error_arg, category ?\); \} "
           r"out: free ?\( ?\(void \*\) ?message ?\); errno = new_errno; ?$")
    if not re.search(pat, a.strip()):
        raise TranslateError("vnaerr_verror.c: the callback / errno epilogue no longer has the accepted shape "
                             "(one error_fn call per path, errno = new_errno before the call and before return)")
    return table, default


def parse_man_table(text):
    m = re.search(r"\\fBCategory\\fP;\\fBerrno\\fP\n(.*?)\n\.TE", text, flags=re.S)
    if not m:
        raise TranslateError("vnaerr.3: Category/errno table not found")
    rows = []
    for line in m.group(1).split("\n"):
        line = re.sub(r"\\s[-+]\d", "", line).strip()
        if not line:
            continue
        parts = line.split(";")
        mm = re.match(r"^VNAERR_([A-Z]+)$", parts[0].strip())
        if len(parts) != 2 or not mm or mm.group(1) not in CATEGORIES:
            raise TranslateError("vnaerr.3: unexpected table row %r" % line)
        val = parts[1].strip()
        if val not in MAN_ERRNO:
            raise TranslateError("vnaerr.3: unexpected errno text %r" % val)
        rows.append((mm.group(1), MAN_ERRNO[val]))
    return rows


def parse_z0_bounds(srcdir):
    """-> dict file -> True when the port test is strict (port >= ports refused)."""
    out = {}
    for f in Z0_FILES:
        t = re.sub(r"\s+", " ", strip_comments(read(os.path.join(srcdir, f))))
        if not re.search(r"ports = MAX ?\( ?vdp->vd_rows, vdp->vd_columns ?\);", t):
            raise TranslateError("%s: 'ports = MAX(vdp->vd_rows, vdp->vd_columns)' not found" % f)
        m = re.findall(r"if \( ?port < 0 \|\| port (>=|>) ports ?\)", t)
        if len(m) != 1:
            raise TranslateError("%s: port bound test not found (or found more than once)" % f)
        out[f] = (m[0] == ">=")
    return out


def parse_add_common(srcdir):
    """-> True when all parameters are validated (and the argument checks finished) before any is added."""
    t = re.sub(r"\s+", " ", strip_comments(read(os.path.join(srcdir, "vnacal_new_add_common.c"))))
    m = re.search(r"int _vnacal_new_add_common ?\( ?vnacal_new_add_arguments_t vnaa ?\) ?\{", t)
    if not m:
        raise TranslateError("vnacal_new_add_common.c: _vnacal_new_add_common not found")
    body = t[m.end():]
    gets = [x.start() for x in re.finditer(
        r"full_s_matrix\[s_cell_map\[s_cell\]\] = _vnacal_new_get_parameter ?\( ?function, vnp, s_matrix\[s_cell\] ?\)", body)]
    if len(gets) != 1:
        raise TranslateError("vnacal_new_add_common.c: the parameter registration loop is not the accepted one")
    checks = [x.start() for x in re.finditer(
        r"_vnacal_new_check_parameter ?\( ?function, vnp, s_matrix\[s_cell\] ?\) == -1", body)]
    need = [x.start() for x in re.finditer(r"_vnacal_new_err_need_full_s ?\(", body)]
    link = body.find("*vnp->vn_measurement_anchor = vnmp;")
    if len(need) != 1 or link < 0 or link < gets[0]:
        raise TranslateError("vnacal_new_add_common.c: need-full-S test / measurement linking not found where expected")
    if not checks:
        return False
    if len(checks) != 1:
        raise TranslateError("vnacal_new_add_common.c: more than one validation loop")
    return checks[0] < need[0] < gets[0]


def parse_new_parameter(srcdir):
    """-> (the validation _vnacal_new_check_parameter walks down to the correlate, _vnacal_new_get_parameter does)."""
    path = "vnacal_new_parameter.c"
    t = errno_orders.strip(read(os.path.join(srcdir, path)))

    def norm(s):
        return re.sub(r"\s+", "", s)

    RANGE = ("{if(check_single_frequency_range(function,vnp,vnp->vn_frequency_vector[0],"
             "vnp->vn_frequency_vector[vnp->vn_frequencies-1],vpmrp)==-1){%s}}")
    out = []
    for fn, fail, found_ok in (("_vnacal_new_check_parameter", "return-1;", ("return0;",)),
                               ("_vnacal_new_get_parameter", "returnNULL;", ("returnvnprp;",))):
        try:
            params, body = errno_orders.function_body(t, fn, path)
            sts = errno_orders.statements(body)
        except errno_orders.OrderError as e:
            raise TranslateError("%s: %s" % (path, e))
        if norm(params) != "constchar*function,vnacal_new_t*vnp,intparameter":
            raise TranslateError("%s: parameters of %s changed" % (path, fn))
        k = 0
        # declarations (no calls)
        while k < len(sts) and sts[k]["kind"] == "simple" and re.match(
                r"(const\s+)?(vnacal(_\w+)?_t|int|double|bool)\b[^()]*;$", sts[k]["text"].strip(), flags=re.S):
            k += 1

        def want_if(st, what):
            if st is None or st["kind"] != "if" or st["else"]:
                raise TranslateError("%s: %s: expected the %s test, found %r" % (path, fn, what, (st or {}).get("text", "end")[:80]))
            return norm(st["cond"]), norm(st["body"][0]["text"]) if st["body"] else ""

        def nxt():
            return sts[k] if k < len(sts) else None
        cond, b = want_if(nxt(), "hash look-up")
        if not re.match(r"parameter>=0&&\(?(vnprp=)?hash_lookup\((&vnp->vn_parameter_hash|vnphp),parameter\)\)?!=NULL$", cond) \
                or b.strip("{}") not in found_ok:
            raise TranslateError("%s: %s: hash look-up is not the accepted one" % (path, fn))
        k += 1
        cond, b = want_if(nxt(), "_vnacal_get_parameter")
        if cond != "(vpmrp=_vnacal_get_parameter(vcp,parameter))==NULL" or not re.match(
                r"\{_vnacal_error\(vcp,VNAERR_USAGE,[^;]*\);%s\}$" % re.escape(fail), b):
            raise TranslateError("%s: %s: the test of _vnacal_get_parameter is not the accepted one" % (path, fn))
        k += 1
        if nxt() is not None and norm(nxt()["text"]) == "type=VNACAL_GET_PARAMETER_TYPE(vpmrp);":
            k += 1
        cond, b = want_if(nxt(), "frequency range")
        if cond != "vnp->vn_frequencies_valid&&vnp->vn_frequencies>0" or b != RANGE % fail:
            raise TranslateError("%s: %s: the frequency-range test is not the accepted one" % (path, fn))
        k += 1
        recurses = False
        st = nxt()
        if st is not None and st["kind"] == "if" and re.match(
                r"(VNACAL_GET_PARAMETER_TYPE\(vpmrp\)|type)==VNACAL_CORRELATED$", norm(st["cond"])) and not st["else"]:
            b = norm(st["body"][0]["text"])
            call = "%s(function,vnp,VNACAL_GET_PARAMETER_INDEX(vpmrp_correlate))" % fn
            if "vpmrp_correlate=VNACAL_GET_PARAMETER_OTHER(vpmrp);" in b and call in b:
                if fn == "_vnacal_new_check_parameter":
                    ok = b.endswith("return" + call + ";}")
                else:
                    ok = re.search(r"if\(\(ncprp_correlate=%s\)==NULL\)\{(free\(\(void\*\)vnprp\);)?returnNULL;\}\}$"
                                   % re.escape(call), b) is not None
                if not ok:
                    raise TranslateError("%s: %s: a failure of the recursion on the correlate is not passed on" % (path, fn))
                recurses = True
                k += 1
        rest = norm("".join(s["text"] for s in sts[k:]))
        if fn == "_vnacal_new_check_parameter":
            if rest != "return0;":
                raise TranslateError("%s: %s: unexpected statements after the tests: %r" % (path, fn, rest[:80]))
        else:
            head = norm("".join(s["text"] for s in sts[:k]))
            if "hash_insert(" in head or "malloc(" in head or "hash_insert(vnphp,vnprp);" not in rest \
                    or fn + "(" in rest or "VNACAL_CORRELATED" in head.replace("type==VNACAL_CORRELATED", "") and not recurses:
                raise TranslateError("%s: %s: insertion is not where expected" % (path, fn))
            if fn + "(" in rest:
                raise TranslateError("%s: %s: recursion outside the accepted place" % (path, fn))
        out.append(recurses)
    return tuple(out)


SETTER_NAN = [("pvalue", "vnacal_new_set_pvalue_limit.c", "significance"), ("p_tolerance", "vnacal_new_set_p_tolerance.c", "tolerance"),
              ("et_tolerance", "vnacal_new_set_et_tolerance.c", "tolerance")]


def parse_setter_nan(srcdir):
    """vnacal_new_set_{pvalue_limit,p_tolerance,et_tolerance}: does the range test of the double argument start with
    isnan(<argument>) || ... (fix DC90)?  The test must be the one refusing statement with a VNAERR_USAGE report."""
    out = {}
    for key, f, arg in SETTER_NAN:
        t = re.sub(r"\s+", " ", strip_comments(read(os.path.join(srcdir, f))))
        m = re.findall(r"if \(([^{}]*?)\) \{ _vnacal_error ?\( ?vcp, VNAERR_USAGE,", t)
        if len(m) != 1 or not re.search(r"\b%s\b" % arg, m[0]):
            raise TranslateError("%s: the range test of %s no longer has the accepted shape" % (f, arg))
        out[key] = bool(re.match(r"^isnan ?\( ?%s ?\) ?\|\|" % arg, m[0].strip()))
        if "isnan" in m[0] and not out[key]:
            raise TranslateError("%s: isnan test in an unexpected position: %r" % (f, m[0]))
    return out


def parse_constants(srcdir):
    from fractions import Fraction
    t = strip_comments(read(os.path.join(srcdir, "vnacal_internal.h")))
    m = re.search(r"#define\s+VNACAL_F_EXTRAPOLATION\s+([0-9]+\.[0-9]+)\s", t)
    n = re.search(r"#define\s+VNACAL_PREDEFINED_PARAMETERS\s+([0-9]+)\s", t)
    if not m or not n:
        raise TranslateError("vnacal_internal.h: VNACAL_F_EXTRAPOLATION / VNACAL_PREDEFINED_PARAMETERS not found")
    return Fraction(m.group(1)), int(n.group(1))


CLEANUP_SITES = [("vnadata_save.c", "vnadata_save_common", "out"), ("vnacal_save.c", "vnacal_save", "error"),
                 ("vnacal_load.c", "vnacal_load", "error"), ("vnadata_load.c", "vnadata_load", None)]
NOT_CALLS = set(["if", "for", "while", "switch", "return", "sizeof", "void"])


def function_body(t, name, path):
    m = re.search(r"\b%s\s*\([^;{]*\)\s*\{" % re.escape(name), t)
    if not m:
        raise TranslateError("%s: function %s not found" % (path, name))
    end = matching_brace(t, m.end() - 1)
    return t[m.end():end]


def parse_cleanup(srcdir):
    out = []
    for path, fn, label in CLEANUP_SITES:
        t = strip_comments(read(os.path.join(srcdir, path)))
        body = function_body(t, fn, path)
        if label is not None:
            m = list(re.finditer(r"\n%s:\s*\n" % label, body))
            if len(m) != 1:
                raise TranslateError("%s: label %s: of %s not found exactly once" % (path, label, fn))
            block = body[m[0].end():]
        else:
            m = re.search(r"rv = vnadata_load_common\s*\([^;]*\);(.*?)if \(rv == -1\)", body, flags=re.S)
            if not m:
                raise TranslateError("%s: clean-up after vnadata_load_common not found" % path)
            block = m.group(1)
        if re.search(r"\berrno\s*=[^=]", block):
            raise TranslateError("%s: the clean-up path of %s assigns errno" % (path, fn))
        calls = [c for c in re.findall(r"\b([A-Za-z_][A-Za-z_0-9]*)\s*\(", block) if c not in NOT_CALLS]
        seen = []
        for c in calls:
            if c not in seen:
                seen.append(c)
        out.append((fn, seen))
    return out


def translate(srcdir):
    enum = parse_enum(read(os.path.join(srcdir, "vnaerr.h")))
    table, default = parse_switch(read(os.path.join(srcdir, "vnaerr_verror.c")))
    man = parse_man_table(read(os.path.join(srcdir, "vnaerr.3")))
    z0 = parse_z0_bounds(srcdir)
    pre = parse_add_common(srcdir)
    check_rec, get_rec = parse_new_parameter(srcdir)
    extrap, predefined = parse_constants(srcdir)
    cleanup = parse_cleanup(srcdir)
    setter_nan = parse_setter_nan(srcdir)
    try:
        orders = errno_orders.extract(srcdir)
    except (errno_orders.OrderError, OSError) as e:
        raise TranslateError("order of checks and writes: %s" % e)
    if default is None:
        raise TranslateError("vnaerr_verror.c: no default arm")
    missing = [c for c, _ in enum if c not in table]
    # categories handled only by the default arm take the default value
    full = dict(table)
    for c in missing:
        full[c] = default
    for c in CATEGORIES:
        if c not in full:
            raise TranslateError("vnaerr.h: category VNAERR_%s of the manual is not in the enum" % c)
    return {"enum": enum, "table": full, "explicit": sorted(table), "default": default, "man": man, "z0": z0,
            "add_common_prevalidates": pre, "check_parameter_recurses": check_rec, "get_parameter_recurses": get_rec,
            "extrapolation": extrap, "predefined": predefined, "cleanup": cleanup, "setter_nan": setter_nan,
            "orders": orders["orders"], "handles": orders["handles"], "order_notes": orders["notes"],
            "query_getters_readonly": orders["getters"], "add_wrappers": orders["add_wrappers"],
            "orders_digest": errno_orders.digest(orders)}


def emit(info):
    L = []
    L.append("(* GENERATED by translate/errno_table.py from src/vnaerr.h, src/vnaerr_verror.c, src/vnaerr.3 and")
    L.append("   src/vnadata_{get,set}_{z0,fz0}.c.  Do not edit. *)")
    L.append("Require Import List ZArith QArith Bool String.")
    L.append("Import ListNotations.")
    L.append("Require Import LV.Err.ErrBase.")
    L.append("Open Scope Z_scope.")
    L.append("")
    L.append("(* enum vnaerr_category as declared in vnaerr.h: enumerator, value *)")
    L.append("Definition gen_enum : list (category * Z) :=")
    L.append("  [" + "; ".join("(%s, %d)" % (c, v) for c, v in info["enum"]) + "].")
    L.append("")
    L.append("(* switch (category) of _vnaerr_verror: the value given to new_errno *)")
    L.append("Definition gen_errno_of (c : category) : errno_class :=")
    L.append("  match c with")
    for c in CATEGORIES:
        L.append("  | %s => %s" % (c, info["table"][c]))
    L.append("  end.")
    L.append("")
    L.append("(* the default: arm (category values outside the enum) *)")
    L.append("Definition gen_default : errno_class := %s." % info["default"])
    L.append("")
    L.append("(* the same switch over the integer value of the category argument *)")
    L.append("Definition gen_errno_of_code (n : Z) : errno_class :=")
    L.append("  match find (fun p => Z.eqb (snd p) n) gen_enum with")
    L.append("  | Some p => gen_errno_of (fst p)")
    L.append("  | None => gen_default")
    L.append("  end.")
    L.append("")
    L.append("(* the Category/errno table of vnaerr.3 as printed in the manual page *)")
    L.append("Definition gen_man_table : list (category * errno_class) :=")
    L.append("  [" + "; ".join("(%s, %s)" % (c, e) for c, e in info["man"]) + "].")
    L.append("")
    L.append("(* vnadata_{get,set}_{z0,fz0}: true when the port test is 'port >= ports' (index n refused),")
    L.append("   false when it is 'port > ports' (index n accepted: candidate D4) *)")
    names = {"vnadata_get_z0.c": "gen_get_z0_strict", "vnadata_set_z0.c": "gen_set_z0_strict",
             "vnadata_get_fz0.c": "gen_get_fz0_strict", "vnadata_set_fz0.c": "gen_set_fz0_strict"}
    for f in Z0_FILES:
        L.append("Definition %s : bool := %s." % (names[f], "true" if info["z0"][f] else "false"))
    L.append("")
    L.append("(* _vnacal_new_add_common: true when every parameter of the S matrix is validated, and the remaining")
    L.append("   argument checks are made, before any parameter is added to the vnacal_new_t (repair of D17) *)")
    L.append("Definition gen_add_common_prevalidates : bool := %s." % ("true" if info["add_common_prevalidates"] else "false"))
    L.append("")
    L.append("(* vnacal_new_parameter.c: true when the function, given a VNACAL_CORRELATED parameter, calls itself on the")
    L.append("   correlate (and fails when that fails) after its own tests: _vnacal_new_check_parameter (the validation pass),")
    L.append("   _vnacal_new_get_parameter (the registration) *)")
    L.append("Definition gen_check_parameter_recurses : bool := %s." % ("true" if info["check_parameter_recurses"] else "false"))
    L.append("Definition gen_get_parameter_recurses : bool := %s." % ("true" if info["get_parameter_recurses"] else "false"))
    L.append("")
    L.append("(* vnacal_internal.h *)")
    L.append("Definition gen_f_extrapolation : Q := (%d # %d)%%Q." % (info["extrapolation"].numerator, info["extrapolation"].denominator))
    L.append("Definition gen_predefined_parameters : Z := %d." % info["predefined"])
    L.append("")
    L.append("(* vnacal_new_set_{pvalue_limit,p_tolerance,et_tolerance}: true when the range test starts with isnan(argument) ||")
    L.append("   (fix DC90); false: every comparison of the test is false for NaN and NaN is accepted *)")
    for key, _, _ in SETTER_NAN:
        L.append("Definition gen_%s_refuses_nan : bool := %s." % (key, "true" if info["setter_nan"][key] else "false"))
    L.append("")
    L.append("(* calls made on the clean-up paths that follow a reported failure *)")
    L.append("Definition gen_cleanup_calls : list (string * list string) :=")
    L.append("  [" + ";\n   ".join('("%s"%%string, [%s])' % (fn, "; ".join('"%s"%%string' % c for c in calls))
                                   for fn, calls in info["cleanup"]) + "].")
    L.append(errno_orders.emit({"orders": info["orders"], "handles": info["handles"], "getters": info["query_getters_readonly"]}))
    return "\n".join(L)


def generate(ctx, with_contracts=True):
    """Used by bin/gen_all and checks/C11.py: (re)write coq/Gen/ErrnoGen.v and - unless the caller does that
    itself (checks/C11.py, to keep the two failures apart) - coq/Gen/ContractGen.v (translate/contracts.py)."""
    import vplib
    info = translate(os.path.join(ctx.repo, "src"))
    ctx.write_if_changed(os.path.join(vplib.COQDIR, "Gen", "ErrnoGen.v"), emit(info))
    if with_contracts:
        import contracts
        try:
            info["contracts"] = contracts.generate(ctx)
        except (contracts.ContractError, errno_orders.OrderError) as e:
            raise TranslateError("contracts: %s" % e)
    return info


if __name__ == "__main__":
    import sys
    print(emit(translate(sys.argv[1] if len(sys.argv) > 1 else "/repo/src")))
