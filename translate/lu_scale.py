"""Narrow translator for property C19 (Python 3 stdlib only).

1. variant(repo): reads src/vnacommon_lu.c and decides which row-scale statement the code
   contains; the LuModel parameter `scale_of_max` follows it:
       row_scale[i] = max;          -> "max"    (LuQI2.scale_max)
       row_scale[i] = 1.0 / max;    -> "recip"  (LuQI2.scale_recip)
   It also insists on the other statements the model copies literally (strict `>` pivot test on
   row_scale[i] * cabs(s), the move of the row scale on a swap, the determinant negation, the
   division of the L terms by the pivot).  Anything else raises TranslateError.
2. call_sites(repo): every call of _vnacommon_mldivide/_mrdivide/_minverse/_qr/_qrsolve from
   the calibration code whose result is tested, with the normalised text of the test; the check
   compares it with the accepted tests (determinant == 0 [or not normal] / rank < unknowns).
"""
import os
import re


class TranslateError(Exception):
    pass


def _strip_comments(txt):
    return re.sub(r"/\*.*?\*/", " ", txt, flags=re.S)


def _norm(s):
    return re.sub(r"\s+", " ", s).strip()


def variant(repo):
    path = os.path.join(repo, "src", "vnacommon_lu.c")
    txt = _strip_comments(open(path).read())
    flat = _norm(txt)
    m = re.findall(r"row_scale\s*\[\s*i\s*\]\s*=\s*([^;]*);", txt)
    if len(m) != 1:
        raise TranslateError("vnacommon_lu.c: expected exactly one assignment to row_scale[i], found %d" % len(m))
    rhs = _norm(m[0])
    if rhs == "max":
        v = "max"
    elif re.fullmatch(r"1(\.0*)?\s*/\s*max", rhs):
        v = "recip"
    else:
        raise TranslateError("vnacommon_lu.c: row_scale[i] = %s; is neither `max` nor `1.0 / max`" % rhs)
    needed = [
        ("row maximum loop", "double temp = cabs(A(i, j)); if (temp > max) { max = temp; }"),
        ("pivot test", "if ((temp = row_scale[i] * cabs(s)) > best_value) { best_index = i; best_value = temp; }"),
        ("initial best", "int best_index = j; double best_value = 0.0;"),
        ("swap guard", "if (best_index != j) {"),
        ("row scale moved on swap", "row_scale[best_index] = row_scale[j];"),
        ("determinant negated on swap", "d *= -1.0;"),
        ("determinant accumulates pivot", "d *= A(j, j);"),
        ("U loop", "for (int i = 0; i < j; ++i) { double complex s = 0.0; s = A(i, j); for (int k = 0; k < i; ++k) { s -= A(i, k) * A(k, j); } A(i, j) = s; }"),
        ("L loop", "for (int i = j; i < n; ++i) { double complex s = A(i, j); double temp; for (int k = 0; k < j; ++k) { s -= A(i, k) * A(k, j); } A(i, j) = s;"),
    ]
    for what, pat in needed:
        if _norm(pat) not in flat:
            raise TranslateError("vnacommon_lu.c: statement no longer matches the modelled idiom: %s" % what)
    l_scaling(repo)
    return v


# the two accepted ways of dividing the L terms by the pivot.  In exact arithmetic they are the same function
# (the model computes s * (1 / p) = s / p); in binary64 they differ: fl(p * fl(1/p)) is not 1 for about 15 % of the
# doubles p, so with the rounded reciprocal a bit-identical (duplicated) row does not eliminate to an exact zero
# (finding DL90), whereas p / p = 1 exactly for every finite nonzero real p (not for every complex p: the
# imaginary part of z / z computed by __divdc3 is d - c * fl(d / c) over the denominator).
L_SCALING = {
    "reciprocal": "if (j != n - 1) { double complex scale = 1.0 / A(j, j); for (int i = j + 1; i < n; ++i) A(i, j) *= scale; }",
    "divide": "if (j != n - 1) { for (int i = j + 1; i < n; ++i) A(i, j) /= A(j, j); }",
}


def l_scaling(repo):
    """-> "reciprocal" (A(i,j) *= 1.0 / A(j,j)) or "divide" (A(i,j) /= A(j,j)); anything else raises."""
    path = os.path.join(repo, "src", "vnacommon_lu.c")
    flat = _norm(_strip_comments(open(path).read()))
    found = [k for k, pat in L_SCALING.items() if _norm(pat) in flat]
    if len(found) != 1:
        raise TranslateError("vnacommon_lu.c: statement no longer matches the modelled idiom: L terms divided by pivot")
    return found[0]


CALLS = ["_vnacommon_mldivide", "_vnacommon_mrdivide", "_vnacommon_minverse", "_vnacommon_qrsolve",
         "_vnacommon_qr"]


def call_sites(repo):
    """-> list of (file, line, callee, variable or None, normalised condition of the test that
    follows, or None when the result is not tested within 40 lines)."""
    out = []
    src = os.path.join(repo, "src")
    for fn in sorted(os.listdir(src)):
        if not (fn.startswith("vnacal_") and fn.endswith(".c")) or "-" in fn:
            continue
        lines = _strip_comments_keep_lines(open(os.path.join(src, fn)).read()).split("\n")
        for i, ln in enumerate(lines):
            m = re.search(r"(?:(\w+)\s*=\s*)?(_vnacommon_(?:mldivide|mrdivide|minverse|qrsolve|qr))\s*\(", ln)
            if not m:
                continue
            var, callee = m.group(1), m.group(2)
            cond = None
            if var is None:
                # if (_vnacommon_minverse(...) == 0.0) {
                j = i
                stmt = ""
                while j < len(lines) and j < i + 6:
                    stmt += " " + lines[j]
                    if "{" in lines[j] or ";" in lines[j]:
                        break
                    j += 1
                mm = re.search(r"if\s*\(\s*_vnacommon_\w+\s*\((?:[^()]|\([^()]*\))*\)\s*(==\s*0(?:\.0*)?)\s*\)", _norm(stmt))
                if mm:
                    cond = "CALL " + _norm(mm.group(1))
            else:
                for j in range(i + 1, min(i + 40, len(lines))):
                    if re.search(r"\bif\s*\(.*\b%s\b" % re.escape(var), lines[j]):
                        stmt = lines[j]
                        k = j
                        while stmt.count("(") != stmt.count(")") and k + 1 < len(lines):
                            k += 1
                            stmt += " " + lines[k]
                        mm = re.search(r"if\s*\((.*)\)\s*\{?\s*$", _norm(stmt))
                        cond = _norm(mm.group(1)) if mm else _norm(stmt)
                        break
            out.append((fn, i + 1, callee, var, cond))
    return out


def _strip_comments_keep_lines(txt):
    def repl(m):
        return re.sub(r"[^\n]", " ", m.group(0))
    return re.sub(r"/\*.*?\*/", repl, txt, flags=re.S)


ACCEPTED_TESTS = {
    "determinant == 0.0 || !isnormal(cabs(determinant))",
    "determinant == 0.0",
    "CALL == 0.0",
}


def test_kind(cond):
    """'full' = rejects a zero and a non-normal (NaN, inf, subnormal) determinant; 'eq0' = rejects only an
    exactly zero determinant (NaN == 0.0 is false); 'rank' / None otherwise."""
    if cond == "determinant == 0.0 || !isnormal(cabs(determinant))":
        return "full"
    if cond in ("determinant == 0.0", "CALL == 0.0"):
        return "eq0"
    if cond is not None and re.fullmatch(r"rank < \w+", cond):
        return "rank"
    return None


def accepted_test(cond):
    if cond is None:
        return False
    if cond in ACCEPTED_TESTS:
        return True
    return re.fullmatch(r"rank < \w+", cond) is not None


if __name__ == "__main__":
    import sys
    repo = sys.argv[1] if len(sys.argv) > 1 else "/repo"
    print(variant(repo))
    for c in call_sites(repo):
        print(c, accepted_test(c[4]))
