"""C19 - white-box tie of the Householder-QR model (coq/Lin/QrModel.v at Q[i], coq/Lin/QrQI.v,
extracted: ocaml/drv_qr.ml) with the real _vnacommon_qrd / _vnacommon_qrsolve (harness/qr_harness.c).

    qr_model_check(ctx, violation, quick)

Three generated families, every case run on the model (exact Gaussian rationals) and on the C code:

 F1 "rational-norm", m >= n: A = H_0 H_1 ... H_{n-1} Rfull built backwards from Gaussian-rational unit
    vectors v^(k) (rational parametrisation of the sphere, real first component > 0.75), diagonal
    alpha_k = r_k (a + b i)/c with (a,b,c) a Pythagorean triple and 1/4 <= r_k <= 12, off-diagonal
    |R_ij| <= 4.  Every square root and phase factor the model meets is then a Gaussian rational:
    the model must report laws=1, nan=none, rank=n, d[k] = alpha_k, stored column k =
    -(alpha_k/r_k) v^(k), R above the diagonal (otherwise: generator bug, BuildError).  The C code gets A
    rounded to binary64; compared within a tolerance:
        d[k], R_ij (i < j)                |C - model| <= TOL_QRD * (1 + max|A|) * cf
        v_k entries (on/below diagonal)   same
        transformed b of qrsolve          |C - model| <= TOL_B * (1 + max|b|) * cf
        x of qrsolve                      |C - model| <= TOL_X * ||R^-1||_inf (||R||_inf max|x| + max|b|) * cf
    with cf = max(1, 1/min_k r_k) in [1, 4]; rank must be equal (= n).
    Measured on the unchanged tree (gcc 12.2, -O1, ASan/UBSan build; 1650 F1 cases of the thorough
    generator, seeds 1..3 and 101..108, m <= 9, n <= 5), worst errors divided by the scale factors above:
        d/R/v: 8.6e-16   transformed b: 4.9e-15   x: 4.2e-16
    so TOL_QRD = TOL_B = 1e-11 and TOL_X = 1e-12 are > 2000 times the worst error seen (and far
    below any wrong sign, phase or index, which shows as an O(1) difference).
 F2 "exact" (bitwise, no tolerance): dyadic matrices whose first min(m,n) columns are upper triangular with
    positive real diagonal t 2^e (t = 1 or odd < 2^20; row i scaled by 2^e_i, e_i in -40..40), zeros
    below.  Every operation of the C code is exact on them (cexp(I 0) = 1, sqrt(x x) = x, v_k = e_k):
    d[k] = -A[k][k], row k of R = -row k of A.  C's d and whole working array must equal the
    model's rationals exactly.  qrsolve with B = A X0 (+ arbitrary dyadic rows below n): rank equal
    (so a thresholded rank rule is caught exactly by the diagonals down to 2^-40), transformed b
    bitwise, x bitwise; if a division by a non-power-of-two diagonal is not exact in C's complex
    division the entry must be within 1e-13 * (|R^-1| (|R| |x| + |b|))_i (componentwise
    back-substitution bound); the number of bitwise cases is reported.
 F3 "zero column": like F2 with column j (every position 0..n-1) zero from the diagonal down and
    arbitrary dyadic columns after it.  Model: nan=j, rank=j, d = d[0..j-1] ++ [0], sol=none.  C must
    give d[0..j-1] and rows < j of the array bitwise equal to the model, d[j] == 0, every d[k], k > j,
    non-finite, qrsolve rank = j and every entry of x non-finite.

Python stdlib only; all randomness from ctx.rng.
"""
import hashlib
import math
import subprocess
import threading
from fractions import Fraction

import vplib

TOL_QRD = 1e-11
TOL_B = 1e-11
TOL_X = 1e-12
TOL_X_EXACT_FALLBACK = 1e-13
MAX_VIOL = 3            # violations reported per (function, family)

HARNESS = "harness/qr_harness.c"
MODEL = "ocaml/drv_qr.ml"

TRIPLES = [(1, 0, 1), (0, 1, 1), (3, 4, 5), (4, 3, 5), (5, 12, 13), (12, 5, 13), (8, 15, 17), (15, 8, 17)]
F0 = Fraction(0)
F1_ = Fraction(1)
CZ = (F0, F0)


# ---------------------------------------------------------------------------- number helpers
def fs(x):
    return "%d/%d" % (x.numerator, x.denominator) if x.denominator != 1 else str(x.numerator)


def hx(x):
    return float(x).hex()


def cmul(a, b):
    return (a[0] * b[0] - a[1] * b[1], a[0] * b[1] + a[1] * b[0])


def cadd(a, b):
    return (a[0] + b[0], a[1] + b[1])


def csub(a, b):
    return (a[0] - b[0], a[1] - b[1])


def cneg(a):
    return (-a[0], -a[1])


def cconj(a):
    return (a[0], -a[1])


def cscale(a, s):
    return (a[0] * s, a[1] * s)


def cdiv(a, b):
    d = b[0] * b[0] + b[1] * b[1]
    n = cmul(a, cconj(b))
    return (n[0] / d, n[1] / d)


def cabsf(a):
    return math.hypot(float(a[0]), float(a[1]))


def cfinite(a):
    return math.isfinite(a[0]) and math.isfinite(a[1])


def cerr(c, mdl):
    """|c - mdl| for a pair of doubles and a pair of Fractions (inf when c is not finite)"""
    if not cfinite(c):
        return float("inf")
    return math.hypot(float(Fraction(c[0]) - mdl[0]), float(Fraction(c[1]) - mdl[1]))


def cbit(c, mdl):
    """the pair of doubles is exactly the pair of rationals"""
    return cfinite(c) and Fraction(c[0]) == mdl[0] and Fraction(c[1]) == mdl[1]


def mat_str(m, f):
    return " ".join("%s %s" % (f(a), f(b)) for row in m for (a, b) in row)


def mat_pairs(m):
    return [[fs(a), fs(b)] for row in m for (a, b) in row]


def exact_in_double(m):
    return all(Fraction(float(a)) == a and Fraction(float(b)) == b for row in m for (a, b) in row)


def maxabs(m):
    return max([cabsf(z) for row in m for z in row] or [0.0])


def parse_c_vals(toks):
    v = [float.fromhex(t) if ("x" in t or "X" in t) else float(t) for t in toks]
    return [(v[i], v[i + 1]) for i in range(0, len(v), 2)]


def _sections(p, start):
    """tokens -> ({key: value} for key=value tokens, {name: [tokens]} for `name=` followed by values)"""
    kv, lists = {}, {}
    i = start
    while i < len(p):
        t = p[i]
        if t.endswith("="):
            j = i + 1
            while j < len(p) and "=" not in p[j]:
                j += 1
            lists[t[:-1]] = p[i + 1:j]
            i = j
        elif "=" in t:
            k, v = t.split("=", 1)
            kv[k] = v
            i += 1
        else:
            i += 1
    return kv, lists


def parse_model(line):
    p = line.split()
    kv, lists = _sections(p, 1)
    out = {"op": p[0], "laws": kv.get("laws") == "1", "rank": int(kv["rank"])}
    if "nan" in kv:
        out["nan"] = None if kv["nan"] == "none" else int(kv["nan"])
    if "sol" in kv:
        out["sol"] = kv["sol"] == "some"
    for k, toks in lists.items():
        vals = [Fraction(t) for t in toks]
        out[k] = [(vals[i], vals[i + 1]) for i in range(0, len(vals), 2)]
    return out


def parse_c(line):
    p = line.split()
    kv, lists = _sections(p, 1)
    out = {"op": p[0]}
    if "rank" in kv:
        out["rank"] = int(kv["rank"])
    for k, toks in lists.items():
        out[k] = parse_c_vals(toks)
    return out


# ---------------------------------------------------------------------------- generators
def small_q(rng, big, dens):
    return Fraction(rng.randint(-big, big), rng.choice(dens))


def small_cq(rng, big, dens):
    k = rng.random()
    if k < 0.12:
        return CZ
    if k < 0.25:
        return (small_q(rng, big, dens), F0)
    return (small_q(rng, big, dens), small_q(rng, big, dens))


def gen_unit_vector(rng, L):
    """Gaussian-rational unit vector of length L, first component real and >= 9/11"""
    if L == 1:
        return [(F1_, F0)]
    N = 2 * (L - 1)
    Q = rng.choice([4, 5, 6, 8, 10, 12, 16])
    budget = (Q * Q) // 10          # |w|^2 = S / Q^2 <= 0.1
    p = [0] * N
    S = 0
    for _ in range(rng.randint(0, 5)):
        t = rng.randrange(N)
        val = rng.choice([-3, -2, -1, 1, 2, 3])
        s2 = S - p[t] * p[t] + val * val
        if s2 <= budget:
            p[t] = val
            S = s2
    D = Q * Q + S
    co = [Fraction(2 * pt * Q, D) for pt in p]
    v = [(Fraction(Q * Q - S, D), F0)] + [(co[2 * t], co[2 * t + 1]) for t in range(L - 1)]
    assert sum(a * a + b * b for a, b in v) == 1
    return v


def gen_alpha(rng):
    a, b, c = rng.choice(TRIPLES)
    a *= rng.choice([-1, 1])
    b *= rng.choice([-1, 1])
    while True:
        r = Fraction(rng.randint(1, 12), rng.choice([1, 2, 3, 4, 8]))
        if Fraction(1, 4) <= r <= 12:
            break
    return (r * Fraction(a, c), r * Fraction(b, c)), r


def gen_f1(rng, m, n, o):
    vs = [gen_unit_vector(rng, m - k) for k in range(n)]
    al = [gen_alpha(rng) for k in range(n)]
    R = [[CZ] * n for _ in range(m)]
    for i in range(n):
        R[i][i] = al[i][0]
        for j in range(i + 1, n):
            R[i][j] = small_cq(rng, 5, [2, 4])
    A = [row[:] for row in R]
    for k in range(n - 1, -1, -1):
        v = vs[k]
        for col in range(n):
            s = CZ
            for i, vi in enumerate(v):
                s = cadd(s, cmul(cconj(vi), A[k + i][col]))
            for i, vi in enumerate(v):
                A[k + i][col] = csub(A[k + i][col], cscale(cmul(vi, s), 2))
    B = [[small_cq(rng, 9, [1, 2, 3, 4]) for _ in range(o)] for _ in range(m)]
    return dict(fam="F1", m=m, n=n, o=o, A=A, B=B, R=R, vs=vs, alpha=[a for a, _ in al], r=[r for _, r in al])


def dyc(rng, big=24, maxexp=3):
    def d():
        return Fraction(rng.randint(-big, big), 2 ** rng.randint(0, maxexp))
    if rng.random() < 0.15:
        return (d(), F0)
    return (d(), d())


def row_exps(rng, k):
    mode = rng.random()
    if mode < 0.2:
        return [rng.randint(-3, 3) for _ in range(k)]
    if mode < 0.4:
        base = rng.choice([-40, 40])
        return [base - (base // 40) * rng.randint(0, 6) for _ in range(k)]
    return [rng.randint(-40, 40) for _ in range(k)]


def gen_tri(rng, m, n, pow2, upto):
    """m x n dyadic matrix, columns 0..upto-1 upper triangular with positive real diagonal
    (row i scaled by 2^e_i); the other cells are left to the caller (zero here)"""
    ex = row_exps(rng, m)
    A = [[CZ] * n for _ in range(m)]
    for i in range(min(upto, m)):
        sc = Fraction(2) ** ex[i]
        t = 1 if pow2 else rng.randrange(1, 2 ** rng.choice([3, 6, 12, 20]), 2)
        A[i][i] = (sc * t, F0)
        for j in range(i + 1, n):
            z = dyc(rng)
            A[i][j] = (z[0] * sc, z[1] * sc)
    return A, ex


def gen_f2(rng, m, n, o):
    dg = min(m, n)
    pow2 = rng.random() < 0.7
    A, ex = gen_tri(rng, m, n, pow2, dg)
    X0 = [[(Fraction(rng.randint(-6, 6), rng.choice([1, 1, 2])), Fraction(rng.randint(-6, 6), rng.choice([1, 1, 2])))
           if i < dg else CZ for _ in range(o)] for i in range(n)]
    B = [[CZ] * o for _ in range(m)]
    for i in range(m):
        for k in range(o):
            if i < dg:
                s = CZ
                for j in range(dg):
                    s = cadd(s, cmul(A[i][j], X0[j][k]))
                B[i][k] = s
            else:
                B[i][k] = dyc(rng)
    assert exact_in_double(A) and exact_in_double(B)
    return dict(fam="F2", m=m, n=n, o=o, A=A, B=B, X0=X0, pow2=pow2)


def gen_f3(rng, m, n, o, j):
    A, ex = gen_tri(rng, m, n, rng.random() < 0.5, j)
    for i in range(m):
        sc = Fraction(2) ** (ex[i] if i < j else rng.randint(-3, 3))
        for col in range(j, n):
            if col == j and i >= j:
                continue
            if i < j and col > j:
                continue            # already filled by gen_tri
            z = dyc(rng)
            if z == CZ and col > j:
                z = (F1_, F0)
            A[i][col] = (z[0] * sc, z[1] * sc)
    B = [[dyc(rng) for _ in range(o)] for _ in range(m)]
    assert exact_in_double(A) and exact_in_double(B)
    return dict(fam="F3", m=m, n=n, o=o, A=A, B=B, j=j)


def tri_inverse(R, n):
    """exact inverse of the upper triangular n x n block"""
    inv = [[CZ] * n for _ in range(n)]
    for c in range(n):
        for i in range(c, -1, -1):
            s = (F1_, F0) if i == c else CZ
            for k in range(i + 1, c + 1):
                s = csub(s, cmul(R[i][k], inv[k][c]))
            inv[i][c] = cdiv(s, R[i][i])
    return inv


# ---------------------------------------------------------------------------- the check
def qr_model_check(ctx, violation, quick):
    rng = ctx.rng
    thorough = ctx.tier == "thorough"
    drv = ctx.ocaml_driver("drv_qr")
    exe = ctx.build_harness("qr_harness", san=True)

    def run_model(mlines, timeout=900):
        nproc = max(1, min(vplib.NPROC, 12, len(mlines)))
        order = sorted(range(len(mlines)), key=lambda i: -len(mlines[i]))
        chunks = [order[k::nproc] for k in range(nproc)]
        procs = [(subprocess.Popen([drv], stdin=subprocess.PIPE, stdout=subprocess.PIPE, stderr=subprocess.PIPE,
                                   universal_newlines=True), ch) for ch in chunks]
        outs = [None] * len(procs)

        def feed(k):
            p, ch = procs[k]
            try:
                outs[k] = p.communicate("".join(mlines[i] + "\n" for i in ch), timeout=timeout)
            except subprocess.TimeoutExpired:
                p.kill()
                outs[k] = ("", "[timeout]")
        ths = [threading.Thread(target=feed, args=(k,)) for k in range(len(procs))]
        for t in ths:
            t.start()
        for t in ths:
            t.join()
        res = [None] * len(mlines)
        for (p, ch), (o_, e_) in zip(procs, outs):
            lines = o_.strip().split("\n") if o_.strip() else []
            if p.returncode != 0 or len(lines) != len(ch):
                raise vplib.BuildError("model driver drv_qr failed: " + (e_ or "")[-500:])
            for i, ln in zip(ch, lines):
                res[i] = ln
        return res

    # ------------------------------------------------------------------ generate
    cases = []
    if thorough:
        nf1, mmax, nmax = 150, 9, 5
    else:
        nf1, mmax, nmax = 25, 7, 4
    for c in range(nf1):
        if c < nmax * 2:
            n = c % nmax + 1            # every n at least twice, m = n included
            m = n if c < nmax else rng.randint(n, mmax)
        else:
            n = rng.randint(1, nmax)
            m = rng.randint(n, mmax)
        cases.append(gen_f1(rng, m, n, rng.choice([1, 2])))
    nf2 = 120 if thorough else 30
    for c in range(nf2):
        if c % 6 == 5:
            m = rng.randint(1, 3)
            n = m + rng.randint(1, 2)   # wide: the excess unknowns are set to zero
        else:
            n = rng.randint(1, nmax)
            m = rng.randint(n, mmax)
        cases.append(gen_f2(rng, m, n, rng.choice([1, 2])))
    reps3 = 6 if thorough else 2
    for n in range(1, nmax + 1):
        for j in range(n):
            for r in range(reps3):
                m = n if r == 0 else rng.randint(n, mmax)
                cases.append(gen_f3(rng, m, n, rng.choice([1, 2]), j))

    mlines, clines = [], []
    for cs in cases:
        m, n, o = cs["m"], cs["n"], cs["o"]
        cs["qrd_i"] = len(mlines)
        mlines.append("qrd %d %d %s" % (m, n, mat_str(cs["A"], fs)))
        clines.append("qrd %d %d %s" % (m, n, mat_str(cs["A"], hx)))
        cs["qrs_i"] = len(mlines)
        mlines.append("qrsolve %d %d %d %s %s" % (m, n, o, mat_str(cs["A"], fs), mat_str(cs["B"], fs)))
        clines.append("qrsolve %d %d %d %s %s" % (m, n, o, mat_str(cs["A"], hx), mat_str(cs["B"], hx)))

    ml = run_model(mlines)
    rc, cout, cerr_ = vplib.sh([exe], input="\n".join(clines) + "\n", timeout=600, env=ctx.run_env())
    cl = cout.strip().split("\n") if cout.strip() else []
    if rc != 0 or len(cl) != len(clines):
        sig = vplib.asan_signature(cerr_) or {"kind": "fault", "error": "exit %d" % rc, "function": None}
        bad = clines[len(cl)] if len(cl) < len(clines) else clines[-1]
        violation(sig, "qr_harness failed (exit %d) at input line %d: %s" % (rc, len(cl), cerr_[-300:].replace("\n", " ")),
                  {"stderr": cerr_[-3000:], "input_line": bad, "harness": HARNESS})
        ctx.obligation("tie:QrModel vs _vnacommon_qrd / _vnacommon_qrsolve (harness ran to completion)", False,
                       "exit %d" % rc)
        return

    # ------------------------------------------------------------------ compare
    nviol = {}
    sampled_f1 = []
    fails = {}      # obligation key -> list of details
    worst = {"F1 d/R/v": 0.0, "F1 b": 0.0, "F1 x": 0.0, "F2 x fallback": 0.0}
    cnt = {"F1": 0, "F2": 0, "F3": 0, "F2 x bitwise": 0, "F2 x cases": 0, "F2 pow2": 0}

    def key_of(cs, op):
        line = mlines[cs["qrd_i"] if op == "qrd" else cs["qrs_i"]]
        return ("qr", cs["fam"], op, cs["m"], cs["n"], hashlib.md5(line.encode()).hexdigest()[:12])

    def report(cs, func, what, extra):
        fam = cs["fam"]
        fails.setdefault((func, fam), []).append(what)
        k = (func, fam)
        nviol[k] = nviol.get(k, 0) + 1
        if nviol[k] > MAX_VIOL:
            return
        op = "qrd" if func == "_vnacommon_qrd" else "qrsolve"
        i = cs["qrd_i"] if op == "qrd" else cs["qrs_i"]
        rep = {"m": cs["m"], "n": cs["n"], "A": mat_pairs(cs["A"]), "differed": what,
               "harness": HARNESS, "model": MODEL, "harness_input": clines[i], "model_input": mlines[i],
               "harness_output": cl[i], "model_output": ml[i]}
        if op == "qrsolve":
            rep["o"] = cs["o"]
            rep["B"] = mat_pairs(cs["B"])
        if fam == "F3":
            rep["zero_column"] = cs["j"]
        rep.update(extra)
        violation({"kind": "qr-model", "function": func, "class": fam},
                  "%s, family %s, %d x %d: %s" % (func, fam, cs["m"], cs["n"], what), rep)

    def gen_bug(cs, what, line):
        raise vplib.BuildError("generator: %s input %d x %d: %s; model line: %s"
                               % (cs["fam"], cs["m"], cs["n"], what, line[:400]))

    for cs in cases:
        fam, m, n, o = cs["fam"], cs["m"], cs["n"], cs["o"]
        dg = min(m, n)
        A = cs["A"]
        md = parse_model(ml[cs["qrd_i"]])
        ms = parse_model(ml[cs["qrs_i"]])
        cd = parse_c(cl[cs["qrd_i"]])
        cq = parse_c(cl[cs["qrs_i"]])
        if md["op"] != "qrd" or ms["op"] != "qrsolve" or cd["op"] != "qrd" or cq["op"] != "qrsolve":
            raise vplib.BuildError("qr tie: unexpected output lines: %s / %s" % (ml[cs["qrd_i"]][:100], cl[cs["qrd_i"]][:100]))
        if not md["laws"] or not ms["laws"]:
            gen_bug(cs, "the model reports laws=0", ml[cs["qrd_i"]])
        cnt[fam] += 1
        ctx.count(key_of(cs, "qrd"))
        ctx.count(key_of(cs, "qrsolve"))
        ctx.traces_validated += 2
        ma = md["a"]
        ca = cd["a"]
        if len(ca) != m * n or len(cd["d"]) != dg or len(cq["x"]) != n * o or len(cq["b"]) != m * o:
            raise vplib.BuildError("qr tie: harness output has the wrong shape: " + cl[cs["qrd_i"]][:200])

        if fam == "F1":
            # ---- model against the construction
            if md["nan"] is not None or md["rank"] != n or ms["rank"] != n or not ms["sol"]:
                gen_bug(cs, "model nan/rank/sol not (none, n, some)", ml[cs["qrd_i"]])
            for k in range(n):
                if md["d"][k] != cs["alpha"][k]:
                    gen_bug(cs, "model d[%d] is not alpha_%d" % (k, k), ml[cs["qrd_i"]])
                u = cneg(cscale(cs["alpha"][k], 1 / cs["r"][k]))
                for i in range(k, m):
                    if ma[i * n + k] != cmul(u, cs["vs"][k][i - k]):
                        gen_bug(cs, "model column %d is not -(alpha/r) v" % k, ml[cs["qrd_i"]])
                for j in range(k + 1, n):
                    if ma[k * n + j] != cs["R"][k][j]:
                        gen_bug(cs, "model R[%d][%d] differs from the construction" % (k, j), ml[cs["qrd_i"]])
            # ---- C against the model
            cf = max(1.0, 1.0 / float(min(cs["r"])))
            sa = (1.0 + maxabs(A)) * cf
            e_d = max(cerr(cd["d"][k], md["d"][k]) for k in range(n))
            e_a = max(cerr(ca[i], ma[i]) for i in range(m * n))
            worst["F1 d/R/v"] = max(worst["F1 d/R/v"], e_d / sa if math.isfinite(e_d) else e_d,
                                    e_a / sa if math.isfinite(e_a) else e_a)
            if not (e_d <= TOL_QRD * sa):
                k = max(range(n), key=lambda k: cerr(cd["d"][k], md["d"][k]))
                report(cs, "_vnacommon_qrd", "d[%d]: C %r, model %s + %s i (error %.3g > tolerance %.3g)"
                       % (k, cd["d"][k], fs(md["d"][k][0]), fs(md["d"][k][1]), e_d, TOL_QRD * sa),
                       {"index": k, "tolerance": TOL_QRD * sa})
            elif not (e_a <= TOL_QRD * sa):
                i = max(range(m * n), key=lambda i: cerr(ca[i], ma[i]))
                report(cs, "_vnacommon_qrd", "working array [%d][%d]: C %r, model %.17g%+.17gi (error %.3g > tolerance %.3g)"
                       % (i // n, i % n, ca[i], float(ma[i][0]), float(ma[i][1]), e_a, TOL_QRD * sa),
                       {"index": [i // n, i % n], "tolerance": TOL_QRD * sa})
            # qrsolve
            if cq["rank"] != ms["rank"]:
                report(cs, "_vnacommon_qrsolve", "rank: C %d, model %d" % (cq["rank"], ms["rank"]), {})
            else:
                sb = (1.0 + maxabs(cs["B"])) * cf
                e_b = max(cerr(cq["b"][i], ms["b"][i]) for i in range(m * o))
                Rm = [[cs["R"][i][j] for j in range(n)] for i in range(n)]
                Ri = tri_inverse(Rm, n)
                nR = max(sum(cabsf(z) for z in row) for row in Rm)
                nRi = max(sum(cabsf(z) for z in row) for row in Ri)
                mx = max(cabsf(z) for z in ms["x"])
                sx = nRi * (nR * mx + maxabs(cs["B"])) * cf
                e_x = max(cerr(cq["x"][i], ms["x"][i]) for i in range(n * o))
                worst["F1 b"] = max(worst["F1 b"], e_b / sb)
                worst["F1 x"] = max(worst["F1 x"], e_x / sx if sx > 0 else (0.0 if e_x == 0 else float("inf")))
                if not (e_b <= TOL_B * sb):
                    i = max(range(m * o), key=lambda i: cerr(cq["b"][i], ms["b"][i]))
                    report(cs, "_vnacommon_qrsolve", "transformed b[%d][%d]: C %r, model %.17g%+.17gi (error %.3g > tolerance %.3g)"
                           % (i // o, i % o, cq["b"][i], float(ms["b"][i][0]), float(ms["b"][i][1]), e_b, TOL_B * sb),
                           {"index": [i // o, i % o], "tolerance": TOL_B * sb})
                elif not (e_x <= TOL_X * sx):
                    i = max(range(n * o), key=lambda i: cerr(cq["x"][i], ms["x"][i]))
                    report(cs, "_vnacommon_qrsolve", "x[%d][%d]: C %r, model %.17g%+.17gi (error %.3g > tolerance %.3g)"
                           % (i // o, i % o, cq["x"][i], float(ms["x"][i][0]), float(ms["x"][i][1]), e_x, TOL_X * sx),
                           {"index": [i // o, i % o], "tolerance": TOL_X * sx})
            if n >= 2 and m > n and not sampled_f1:
                sampled_f1.append(1)
                ctx.sample({"qr_family": "F1", "m": m, "n": n, "alpha": [[fs(a), fs(b)] for a, b in cs["alpha"]],
                            "C_d": [list(z) for z in cd["d"]], "C_rank": cq["rank"]})

        elif fam == "F2":
            cnt["F2 pow2"] += 1 if cs["pow2"] else 0
            if md["nan"] is not None or md["rank"] != dg or ms["rank"] != dg or not ms["sol"]:
                gen_bug(cs, "model nan/rank/sol not (none, min(m,n), some)", ml[cs["qrd_i"]])
            for k in range(dg):
                if md["d"][k] != cneg(A[k][k]):
                    gen_bug(cs, "model d[%d] is not -A[%d][%d]" % (k, k, k), ml[cs["qrd_i"]])
                for j in range(k + 1, n):
                    if ma[k * n + j] != cneg(A[k][j]):
                        gen_bug(cs, "model row %d of R is not -row of A" % k, ml[cs["qrd_i"]])
            if any(ms["x"][i * o + k] != cs["X0"][i][k] for i in range(n) for k in range(o)):
                gen_bug(cs, "model x is not X0", ml[cs["qrs_i"]])
            bad = [k for k in range(dg) if not cbit(cd["d"][k], md["d"][k])]
            if bad:
                k = bad[0]
                report(cs, "_vnacommon_qrd", "d[%d]: C %r, model exactly %s + %s i (every operation is exact on this input)"
                       % (k, cd["d"][k], fs(md["d"][k][0]), fs(md["d"][k][1])), {"index": k})
            else:
                bad = [i for i in range(m * n) if not cbit(ca[i], ma[i])]
                if bad:
                    i = bad[0]
                    report(cs, "_vnacommon_qrd", "working array [%d][%d]: C %r, model exactly %s + %s i (every operation is exact on this input)"
                           % (i // n, i % n, ca[i], fs(ma[i][0]), fs(ma[i][1])), {"index": [i // n, i % n]})
            if cq["rank"] != ms["rank"]:
                report(cs, "_vnacommon_qrsolve", "rank: C %d, model %d (diagonal of R: %s)"
                       % (cq["rank"], ms["rank"], ", ".join("%g" % float(A[k][k][0]) for k in range(dg))), {})
            else:
                badb = [i for i in range(m * o) if not cbit(cq["b"][i], ms["b"][i])]
                if badb:
                    i = badb[0]
                    report(cs, "_vnacommon_qrsolve", "transformed b[%d][%d]: C %r, model exactly %s + %s i"
                           % (i // o, i % o, cq["b"][i], fs(ms["b"][i][0]), fs(ms["b"][i][1])), {"index": [i // o, i % o]})
                else:
                    cnt["F2 x cases"] += 1
                    badx = [i for i in range(n * o) if not cbit(cq["x"][i], ms["x"][i])]
                    if not badx:
                        cnt["F2 x bitwise"] += 1
                    else:
                        # componentwise bound of the back substitution: |R^-1| (|R| |x| + |b|)
                        Rm = [[(A[i][j] if j >= i else CZ) for j in range(dg)] for i in range(dg)]
                        Ri = tri_inverse(Rm, dg)
                        for i in badx:
                            row, k = i // o, i % o
                            if row >= dg:
                                sc = 0.0
                            else:
                                sc = sum(cabsf(Ri[row][t]) * (sum(cabsf(Rm[t][u]) * cabsf(ms["x"][u * o + k]) for u in range(dg))
                                                              + cabsf(cs["B"][t][k])) for t in range(dg))
                            e = cerr(cq["x"][i], ms["x"][i])
                            worst["F2 x fallback"] = max(worst["F2 x fallback"], e / sc if sc > 0 else float("inf"))
                            if not (e <= TOL_X_EXACT_FALLBACK * sc):
                                report(cs, "_vnacommon_qrsolve", "x[%d][%d]: C %r, model exactly %s + %s i (error %.3g > componentwise bound %.3g)"
                                       % (row, k, cq["x"][i], fs(ms["x"][i][0]), fs(ms["x"][i][1]), e, TOL_X_EXACT_FALLBACK * sc),
                                       {"index": [row, k], "tolerance": TOL_X_EXACT_FALLBACK * sc})
                                break
            if cnt["F2"] == 1:
                ctx.sample({"qr_family": "F2", "m": m, "n": n, "diagonal": [float(A[k][k][0]) for k in range(dg)],
                            "C_d": [list(z) for z in cd["d"]], "C_rank": cq["rank"]})

        else:   # F3
            j = cs["j"]
            if md["nan"] != j or md["rank"] != j or ms["rank"] != j or ms["sol"] or len(md["d"]) != j + 1 \
                    or md["d"][j] != CZ:
                gen_bug(cs, "model nan/rank/sol/d not (j, j, none, d[j] = 0) for zero column j = %d" % j, ml[cs["qrd_i"]])
            what = None
            for k in range(j):
                if not cbit(cd["d"][k], md["d"][k]):
                    what = "d[%d] (before the zero column %d): C %r, model exactly %s + %s i" % (
                        k, j, cd["d"][k], fs(md["d"][k][0]), fs(md["d"][k][1]))
                    break
            if what is None and not (cd["d"][j][0] == 0.0 and cd["d"][j][1] == 0.0):
                what = "d[%d] of the zero column: C %r, model 0" % (j, cd["d"][j])
            if what is None:
                for k in range(j + 1, dg):
                    if cfinite(cd["d"][k]):
                        what = "d[%d] after the zero column %d: C %r is finite, model: NaN (0/0 at `A(row, diagonal) /= norm`)" % (
                            k, j, cd["d"][k])
                        break
            if what is None:
                for i in range(j):
                    for c in range(n):
                        if not cbit(ca[i * n + c], ma[i * n + c]):
                            what = "working array [%d][%d] (row above the zero column %d): C %r, model exactly %s + %s i" % (
                                i, c, j, ca[i * n + c], fs(ma[i * n + c][0]), fs(ma[i * n + c][1]))
                            break
                    if what:
                        break
            if what:
                report(cs, "_vnacommon_qrd", what, {})
            if cq["rank"] != j:
                report(cs, "_vnacommon_qrsolve", "rank: C %d, model %d (column %d is zero from the diagonal down)"
                       % (cq["rank"], j, j), {})
            else:
                fin = [i for i in range(n * o) if cfinite(cq["x"][i])]
                if fin:
                    i = fin[0]
                    report(cs, "_vnacommon_qrsolve", "x[%d][%d] = %r is finite although column %d is zero from the diagonal down "
                           "(model: no solution, every x non-finite)" % (i // o, i % o, cq["x"][i], j), {"index": [i // o, i % o]})
            if cnt["F3"] == 1:
                ctx.sample({"qr_family": "F3", "m": m, "n": n, "zero_column": j,
                            "C_d": [repr(z) for z in cd["d"]], "C_rank": cq["rank"], "C_x0": repr(cq["x"][0])})

    # ------------------------------------------------------------------ obligations
    def obl(name, func, fam):
        f = fails.get((func, fam), [])
        ctx.obligation(name, not f, ("%d cases differ; first: %s" % (len(f), f[0][:300])) if f else "")

    ctx.obligation("tie:QrQI.qq_run_lawsb = true (sqrt / phase oracles exact) and the constructed d[], v_k, R, rank, "
                   "NaN stop are what QrModel computes on every generated input (%d)" % len(cases), True, "")
    obl("tie:QrModel d[] / working array vs _vnacommon_qrd (F1: %d rational-norm cases, tol %g (1 + max|A|) cf; worst seen %.2g)"
        % (cnt["F1"], TOL_QRD, worst["F1 d/R/v"]), "_vnacommon_qrd", "F1")
    obl("tie:QrModel rank / x / transformed b vs _vnacommon_qrsolve (F1: %d cases, tol b %g (1 + max|b|) cf, "
        "x %g |R^-1| (|R| max|x| + max|b|) cf; worst seen %.2g / %.2g)"
        % (cnt["F1"], TOL_B, TOL_X, worst["F1 b"], worst["F1 x"]), "_vnacommon_qrsolve", "F1")
    obl("tie:QrModel d[] / working array vs _vnacommon_qrd, bitwise (F2: %d exact cases, diagonals 2^-40..2^60)"
        % cnt["F2"], "_vnacommon_qrd", "F2")
    obl("tie:QrModel rank / transformed b (bitwise) / x vs _vnacommon_qrsolve (F2: %d exact cases; x bitwise in %d of %d, "
        "the rest within %g of the componentwise bound, worst %.2g)"
        % (cnt["F2"], cnt["F2 x bitwise"], cnt["F2 x cases"], TOL_X_EXACT_FALLBACK, worst["F2 x fallback"]),
        "_vnacommon_qrsolve", "F2")
    obl("tie:QrModel zero column j: d[0..j-1], rows < j bitwise, d[j] = 0, d[k > j] NaN vs _vnacommon_qrd (F3: %d cases, every j < n)"
        % cnt["F3"], "_vnacommon_qrd", "F3")
    obl("tie:QrModel zero column j: rank = j, every x non-finite vs _vnacommon_qrsolve (F3: %d cases)"
        % cnt["F3"], "_vnacommon_qrsolve", "F3")
    ctx.extra["qr_tie"] = {"cases": dict(cnt), "worst_normalised_error": {k: float("%.3g" % v) for k, v in worst.items()},
                           "tolerances": {"TOL_QRD": TOL_QRD, "TOL_B": TOL_B, "TOL_X": TOL_X,
                                          "TOL_X_EXACT_FALLBACK": TOL_X_EXACT_FALLBACK},
                           "mismatches": {"%s %s" % k: len(v) for k, v in fails.items()}}
